(* C04 — lemmas about the escape analysis (pass 2, `an`) of Model_C04.v.

   tle T T' : T' has the same scope skeleton as T (outer pointers, function flags, binding names in order)
              and every ESCAPES bit of T is still set in T'.
   Every step of the analysis is increasing for tle; name resolution depends on the skeleton only; an
   identifier occurrence is visited with exactly the scope / flags `occs` assigns to it. *)
From Coq Require Import NArith List Bool Arith Lia.
From C04 Require Import Model_C04.
Import ListNotations.

(* ---------------------------------------------------------------------------------------------- *)
(* induction principle for the nested type sk *)

Section sk_induction.
  Variable P : sk -> Prop.
  Hypothesis Hid : forall x, P (KId x).
  Hypothesis Heval : forall args, Forall P args -> P (KEval args).
  Hypothesis Hseq : forall ks, Forall P ks -> P (KSeq ks).
  Hypothesis Hscope : forall a sid cde ks, Forall P ks -> P (KScope a sid cde ks).
  Hypothesis Hwith : forall sid o b, P o -> P b -> P (KWith sid o b).
  Hypothesis Hfun : forall fs cde pn ps b, Forall P ps -> Forall P b -> P (KFun fs cde pn ps b).
  Hypothesis Hnamed : forall nsid cde k, P k -> P (KNamed nsid cde k).
  Hypothesis Hclass : forall nsid ks, Forall P ks -> P (KClass nsid ks).
  Hypothesis Hswap : forall sid ks, Forall P ks -> P (KSwap sid ks).

  Fixpoint sk_ind' (k : sk) : P k :=
    let all := fix all (l : list sk) : Forall P l :=
      match l with
      | [] => Forall_nil P
      | a :: r => Forall_cons a (sk_ind' a) (all r)
      end in
    match k with
    | KId x => Hid x
    | KEval args => Heval args (all args)
    | KSeq ks => Hseq ks (all ks)
    | KScope a sid cde ks => Hscope a sid cde ks (all ks)
    | KWith sid o b => Hwith sid o b (sk_ind' o) (sk_ind' b)
    | KFun fs cde pn ps b => Hfun fs cde pn ps b (all ps) (all b)
    | KNamed nsid cde k => Hnamed nsid cde k (sk_ind' k)
    | KClass nsid ks => Hclass nsid ks (all ks)
    | KSwap sid ks => Hswap sid ks (all ks)
    end.
End sk_induction.

(* ---------------------------------------------------------------------------------------------- *)
(* unfolding equations of `an` in terms of an_list *)

Lemma go_eq : forall cur de w ks T,
  (fix go (l : list sk) (T : table) {struct l} : table :=
     match l with [] => T | a :: r => go r (an a cur de w T) end) ks T = an_list ks cur de w T.
Proof. intros cur de w ks. unfold an_list. induction ks as [|a r IH]; intros T; simpl; auto. Qed.

Lemma an_id : forall x cur de w T, an (KId x) cur de w T = access_binding T cur x (de || w).
Proof. reflexivity. Qed.

Lemma an_eval : forall args cur de w T,
  an (KEval args) cur de w T = an_list args cur de w (access_binding T cur n_eval (de || w)).
Proof. intros. simpl. apply go_eq. Qed.

Lemma an_seq : forall ks cur de w T, an (KSeq ks) cur de w T = an_list ks cur de w T.
Proof. intros. simpl. apply go_eq. Qed.

Definition scope_de (always : bool) (sid : option nat) (cde de : bool) : bool :=
  match sid with Some _ => cde || de | None => if always then cde || de else de end.
Definition scope_cur (sid : option nat) (cur : nat) : nat := match sid with Some s => s | None => cur end.
Definition scope_T (always : bool) (sid : option nat) (cde de : bool) (T : table) : table :=
  match sid with Some s => if scope_de always sid cde de then escape_all T s else T | None => T end.

Lemma an_scope : forall a sid cde ks cur de w T,
  an (KScope a sid cde ks) cur de w T =
  an_list ks (scope_cur sid cur) (scope_de a sid cde de) w (scope_T a sid cde de T).
Proof. intros. simpl. rewrite go_eq. reflexivity. Qed.

Lemma an_with : forall sid o b cur de w T,
  an (KWith sid o b) cur de w T = an b sid de true (an o cur de true (if de then escape_all T sid else T)).
Proof. reflexivity. Qed.

Definition fun_tail (fs : fscopes) (pn : list name) (T3 : table) : table :=
  if arguments_object_accessed T3 fs && fs_mapped fs
  then fold_left (fun T x => access_binding T (parameter_scope fs) x true) pn T3
  else T3.

Lemma an_fun : forall fs cde pn ps b cur de w T,
  an (KFun fs cde pn ps b) cur de w T =
  fun_tail fs pn
    (an_list b (body_scope fs) (cde || de) w
       (an_list ps (parameter_scope fs) (cde || de) w
          (if cde || de then escape_all_fs T fs else T))).
Proof. intros. simpl. rewrite !go_eq. reflexivity. Qed.

Lemma an_named : forall nsid cde k cur de w T,
  an (KNamed nsid cde k) cur de w T = an k cur de w (if de || cde then escape_all T nsid else T).
Proof. reflexivity. Qed.

Lemma an_class : forall nsid ks cur de w T,
  an (KClass nsid ks) cur de w T =
  an_list ks (scope_cur nsid cur) de w (match nsid with Some s => escape_all T s | None => T end).
Proof. intros. simpl. rewrite go_eq. reflexivity. Qed.

Lemma an_swap : forall sid ks cur de w T, an (KSwap sid ks) cur de w T = an_list ks sid de w T.
Proof. intros. simpl. apply go_eq. Qed.

Lemma an_list_cons : forall a r cur de w T, an_list (a :: r) cur de w T = an_list r cur de w (an a cur de w T).
Proof. reflexivity. Qed.

(* ---------------------------------------------------------------------------------------------- *)
(* the order tle *)

Definition ble (b b' : binding) : Prop := b_name b = b_name b' /\ (b_esc b = true -> b_esc b' = true).
Definition sle (s s' : scope) : Prop :=
  s_outer s = s_outer s' /\ s_fun s = s_fun s' /\ Forall2 ble (s_binds s) (s_binds s').
Definition tle (T T' : table) : Prop := Forall2 sle T T'.

Lemma Forall2_refl_ : forall (A : Type) (R : A -> A -> Prop), (forall a, R a a) -> forall l, Forall2 R l l.
Proof. intros A R H l. induction l; constructor; auto. Qed.

Lemma Forall2_trans_ : forall (A : Type) (R : A -> A -> Prop),
  (forall a b c, R a b -> R b c -> R a c) -> forall l1 l2 l3, Forall2 R l1 l2 -> Forall2 R l2 l3 -> Forall2 R l1 l3.
Proof.
  intros A R H l1 l2 l3 H12. revert l3. induction H12; intros l3 H23; inversion H23; subst; constructor; eauto.
Qed.

Lemma ble_refl : forall b, ble b b.
Proof. intros b; split; auto. Qed.
Lemma ble_trans : forall a b c, ble a b -> ble b c -> ble a c.
Proof. intros a b c [H1 H2] [H3 H4]; split; [congruence | auto]. Qed.
Lemma sle_refl : forall s, sle s s.
Proof. intros s; repeat split; auto. apply Forall2_refl_, ble_refl. Qed.
Lemma sle_trans : forall a b c, sle a b -> sle b c -> sle a c.
Proof.
  intros a b c (H1 & H2 & H3) (H4 & H5 & H6); repeat split; try congruence.
  eapply Forall2_trans_; eauto using ble_trans.
Qed.
Lemma tle_refl : forall T, tle T T.
Proof. intros; apply Forall2_refl_, sle_refl. Qed.
Lemma tle_trans : forall a b c, tle a b -> tle b c -> tle a c.
Proof. intros; eapply Forall2_trans_; eauto using sle_trans. Qed.

Lemma tle_length : forall T T', tle T T' -> length T = length T'.
Proof. intros T T' H; induction H; simpl; auto. Qed.

Lemma tle_nth : forall T T', tle T T' -> forall i,
  match nth_error T i, nth_error T' i with
  | Some s, Some s' => sle s s'
  | None, None => True
  | _, _ => False
  end.
Proof.
  intros T T' H; induction H; intros [|i]; simpl; auto. apply IHForall2.
Qed.

Lemma upd_tle : forall f, (forall s, sle s (f s)) -> forall T i, tle T (upd T i f).
Proof.
  intros f Hf T. induction T as [|a r IH]; intros [|i]; simpl; try constructor; auto using sle_refl, tle_refl.
  - apply tle_refl.
  - apply IH.
Qed.

Lemma set_esc_ble : forall bs, Forall2 ble bs (map set_esc bs).
Proof. induction bs; simpl; constructor; auto. split; auto. Qed.

Lemma mark_ble : forall x e bs, Forall2 ble bs (mark x e bs).
Proof.
  intros x e bs; induction bs as [|b r IH]; simpl; [constructor|].
  destruct (N.eqb (b_name b) x).
  - constructor; [|apply Forall2_refl_, ble_refl]. split; simpl; auto. intros ->; auto.
  - constructor; auto using ble_refl.
Qed.

Lemma with_binds_sle : forall f, (forall bs, Forall2 ble bs (f bs)) -> forall s, sle s (with_binds f s).
Proof. intros f H s; unfold with_binds; repeat split; simpl; auto. Qed.

Lemma escape_all_tle : forall T i, tle T (escape_all T i).
Proof. intros; apply upd_tle, with_binds_sle, set_esc_ble. Qed.

Lemma access_tle : forall fuel T cur x ew c, tle T (access fuel T cur x ew c).
Proof.
  induction fuel as [|n IH]; intros; simpl; [apply tle_refl|].
  destruct (nth_error T cur) as [s|]; [|apply tle_refl].
  destruct (has_binding x (s_binds s)).
  - apply upd_tle, with_binds_sle, mark_ble.
  - destruct (s_outer s); [apply IH | apply tle_refl].
Qed.

Lemma access_binding_tle : forall T cur x ew, tle T (access_binding T cur x ew).
Proof. intros; apply access_tle. Qed.

Lemma fold_tle : forall (A : Type) (f : table -> A -> table), (forall T a, tle T (f T a)) ->
  forall l T, tle T (fold_left f l T).
Proof.
  intros A f H l; induction l as [|a r IH]; intros T; simpl; [apply tle_refl|].
  eapply tle_trans; [apply H | apply IH].
Qed.

Lemma escape_all_fs_tle : forall T fs, tle T (escape_all_fs T fs).
Proof. intros; unfold escape_all_fs; apply fold_tle; intros; apply escape_all_tle. Qed.

Lemma fun_tail_tle : forall fs pn T, tle T (fun_tail fs pn T).
Proof.
  intros; unfold fun_tail. destruct (_ && _); [|apply tle_refl].
  apply fold_tle; intros; apply access_binding_tle.
Qed.

Lemma an_list_tle_of : forall ks, Forall (fun k => forall cur de w T, tle T (an k cur de w T)) ks ->
  forall cur de w T, tle T (an_list ks cur de w T).
Proof.
  intros ks H; induction H as [|a r Ha _ IH]; intros; [apply tle_refl|].
  rewrite an_list_cons. eapply tle_trans; [apply Ha | apply IH].
Qed.

Lemma an_tle : forall k cur de w T, tle T (an k cur de w T).
Proof.
  induction k using sk_ind'; intros.
  - rewrite an_id; apply access_binding_tle.
  - rewrite an_eval. eapply tle_trans; [apply access_binding_tle | apply an_list_tle_of; auto].
  - rewrite an_seq. apply an_list_tle_of; auto.
  - rewrite an_scope. eapply tle_trans; [|apply an_list_tle_of; auto].
    unfold scope_T. destruct sid; [destruct (scope_de _ _ _ _); [apply escape_all_tle|]|]; apply tle_refl.
  - rewrite an_with. eapply tle_trans; [|apply IHk2]. eapply tle_trans; [|apply IHk1].
    destruct de; [apply escape_all_tle | apply tle_refl].
  - rewrite an_fun. eapply tle_trans; [|apply fun_tail_tle].
    eapply tle_trans; [|apply an_list_tle_of; auto]. eapply tle_trans; [|apply an_list_tle_of; auto].
    destruct (cde || de); [apply escape_all_fs_tle | apply tle_refl].
  - rewrite an_named. eapply tle_trans; [|apply IHk].
    destruct (de || cde); [apply escape_all_tle | apply tle_refl].
  - rewrite an_class. eapply tle_trans; [|apply an_list_tle_of; auto].
    destruct nsid; [apply escape_all_tle | apply tle_refl].
  - rewrite an_swap. apply an_list_tle_of; auto.
Qed.

Lemma an_list_tle : forall ks cur de w T, tle T (an_list ks cur de w T).
Proof. intros; apply an_list_tle_of. apply Forall_forall; intros; apply an_tle. Qed.

(* ---------------------------------------------------------------------------------------------- *)
(* what tle preserves *)

Lemma has_binding_ble : forall x bs bs', Forall2 ble bs bs' -> has_binding x bs = has_binding x bs'.
Proof.
  intros x bs bs' H; induction H as [|b b' r r' [Hn _] _ IH]; simpl; auto. rewrite Hn, IH; auto.
Qed.

Lemma resolve_tle : forall fuel T T', tle T T' -> forall cur x c, resolve fuel T cur x c = resolve fuel T' cur x c.
Proof.
  induction fuel as [|n IH]; intros T T' H cur x c; simpl; auto.
  pose proof (tle_nth _ _ H cur) as Hn.
  destruct (nth_error T cur) as [s|], (nth_error T' cur) as [s'|]; try contradiction; auto.
  destruct Hn as (Ho & Hf & Hb). rewrite (has_binding_ble x _ _ Hb), Ho, Hf.
  destruct (has_binding x (s_binds s')); auto. destruct (s_outer s'); auto.
Qed.

Lemma fun_of_tle : forall fuel T T', tle T T' -> forall cur, fun_of fuel T cur = fun_of fuel T' cur.
Proof.
  induction fuel as [|n IH]; intros T T' H cur; simpl; auto.
  pose proof (tle_nth _ _ H cur) as Hn.
  destruct (nth_error T cur) as [s|], (nth_error T' cur) as [s'|]; try contradiction; auto.
  destruct Hn as (Ho & Hf & Hb). rewrite Ho, Hf. destruct (s_fun s'); auto. destruct (s_outer s'); auto.
Qed.

Lemma find_ble : forall x bs bs', Forall2 ble bs bs' ->
  match find (fun b => N.eqb (b_name b) x) bs, find (fun b => N.eqb (b_name b) x) bs' with
  | Some b, Some b' => ble b b'
  | None, None => True
  | _, _ => False
  end.
Proof.
  intros x bs bs' H; induction H as [|b b' r r' Hb _ IH]; simpl; auto.
  destruct Hb as [Hn He]. rewrite <- Hn. destruct (N.eqb (b_name b) x); auto. split; auto.
Qed.

Lemma escapes_mono : forall T T' i x, tle T T' -> escapes T i x = true -> escapes T' i x = true.
Proof.
  intros T T' i x H. unfold escapes, find_binding.
  pose proof (tle_nth _ _ H i) as Hn.
  destruct (nth_error T i) as [s|], (nth_error T' i) as [s'|]; try contradiction; auto.
  destruct Hn as (_ & _ & Hb). pose proof (find_ble x _ _ Hb) as Hf.
  destruct (find _ (s_binds s)), (find _ (s_binds s')); try contradiction; auto.
  destruct Hf; auto.
Qed.

Lemma forallb_esc_ble : forall bs bs', Forall2 ble bs bs' -> forallb b_esc bs = true -> forallb b_esc bs' = true.
Proof.
  intros bs bs' H; induction H as [|b b' r r' [_ He] _ IH]; simpl; auto.
  rewrite !andb_true_iff. intros [H1 H2]; auto.
Qed.

Lemma all_esc_mono : forall T T' i, tle T T' -> all_esc T i = true -> all_esc T' i = true.
Proof.
  intros T T' i H. unfold all_esc. pose proof (tle_nth _ _ H i) as Hn.
  destruct (nth_error T i) as [s|], (nth_error T' i) as [s'|]; try contradiction; auto.
  destruct Hn as (_ & _ & Hb). apply forallb_esc_ble; auto.
Qed.

(* ---------------------------------------------------------------------------------------------- *)
(* access_binding marks what resolve finds *)

Lemma nth_error_upd_same : forall (A : Type) (f : A -> A) (l : list A) i a,
  nth_error l i = Some a -> nth_error (upd l i f) i = Some (f a).
Proof.
  intros A f l; induction l as [|b r IH]; intros [|i] a; simpl; try discriminate; auto.
  intros H; inversion H; auto.
Qed.

Lemma find_mark : forall x e bs, has_binding x bs = true ->
  exists b, find (fun b => N.eqb (b_name b) x) (mark x e bs) = Some b /\ (e = true -> b_esc b = true).
Proof.
  intros x e bs; induction bs as [|b r IH]; simpl; [discriminate|].
  destruct (N.eqb (b_name b) x) eqn:E; simpl.
  - intros _. exists (set_acc e b). simpl. rewrite E. split; auto. intros ->. apply orb_true_r.
  - intros H. rewrite E. apply IH; auto.
Qed.

Lemma access_marks : forall fuel T cur x ew c0 sb c,
  resolve fuel T cur x c0 = Some (sb, c) -> c || ew = true ->
  escapes (access fuel T cur x ew c0) sb x = true.
Proof.
  induction fuel as [|n IH]; intros T cur x ew c0 sb c; simpl; [discriminate|].
  destruct (nth_error T cur) as [s|] eqn:En; [|discriminate].
  destruct (has_binding x (s_binds s)) eqn:Eh.
  - intros H Hc; inversion H; subst sb c. unfold escapes, find_binding.
    rewrite (nth_error_upd_same _ _ _ _ _ En). simpl.
    destruct (find_mark x (c0 || ew) _ Eh) as (b & Hb & He). rewrite Hb; auto.
  - destruct (s_outer s) as [o|]; [|discriminate]. intros H Hc. eapply IH; eauto.
Qed.

(* ---------------------------------------------------------------------------------------------- *)
(* escape_sound *)

Definition occ_sound (k : sk) : Prop :=
  forall cur de w T x s ew sb c,
    In (x, s, ew) (occs k cur de w) ->
    resolve (length T) T s x false = Some (sb, c) ->
    c || ew = true ->
    escapes (an k cur de w T) sb x = true.

Lemma resolve_after : forall T T' s x, tle T T' ->
  resolve (length T') T' s x false = resolve (length T) T s x false.
Proof. intros. rewrite <- (tle_length _ _ H). symmetry; apply resolve_tle; auto. Qed.

Lemma occ_sound_list : forall ks, Forall occ_sound ks ->
  forall cur de w T x s ew sb c,
    In (x, s, ew) (flat_map (fun a => occs a cur de w) ks) ->
    resolve (length T) T s x false = Some (sb, c) ->
    c || ew = true ->
    escapes (an_list ks cur de w T) sb x = true.
Proof.
  intros ks H; induction H as [|a r Ha _ IH]; intros cur de w T x s ew sb c Hin Hr Hc; simpl in Hin; [contradiction|].
  rewrite an_list_cons. apply in_app_or in Hin. destruct Hin as [Hin|Hin].
  - eapply escapes_mono; [apply an_list_tle|]. eapply Ha; eauto.
  - eapply IH; eauto. rewrite (resolve_after T); auto using an_tle.
Qed.

Lemma escape_sound_sk : forall k, occ_sound k.
Proof.
  induction k using sk_ind'; unfold occ_sound; intros cur de w T x0 s ew sb c Hin Hr Hc.
  - (* KId *)
    simpl in Hin. destruct Hin as [Hin|[]]. inversion Hin; subst. rewrite an_id.
    unfold access_binding. eapply access_marks; eauto.
  - (* KEval *)
    rewrite an_eval. simpl in Hin. destruct Hin as [Hin|Hin].
    + inversion Hin; subst. eapply escapes_mono; [apply an_list_tle|].
      unfold access_binding. eapply access_marks; eauto.
    + eapply occ_sound_list; eauto. rewrite (resolve_after T); auto using access_binding_tle.
  - (* KSeq *)
    rewrite an_seq. simpl in Hin. eapply occ_sound_list; eauto.
  - (* KScope *)
    rewrite an_scope. simpl in Hin. eapply occ_sound_list; eauto.
    rewrite (resolve_after T); auto.
    unfold scope_T. destruct sid; [destruct (scope_de _ _ _ _); [apply escape_all_tle|]|]; apply tle_refl.
  - (* KWith *)
    rewrite an_with. simpl in Hin. apply in_app_or in Hin.
    assert (Ht : tle T (if de then escape_all T sid else T)) by (destruct de; [apply escape_all_tle | apply tle_refl]).
    destruct Hin as [Hin|Hin].
    + eapply escapes_mono; [apply an_tle|]. eapply IHk1; eauto. rewrite (resolve_after T); auto.
    + eapply IHk2; eauto. rewrite (resolve_after T); auto. eapply tle_trans; [apply Ht | apply an_tle].
  - (* KFun *)
    rewrite an_fun. simpl in Hin. apply in_app_or in Hin.
    assert (Ht : tle T (if cde || de then escape_all_fs T fs else T))
      by (destruct (cde || de); [apply escape_all_fs_tle | apply tle_refl]).
    eapply escapes_mono; [apply fun_tail_tle|].
    destruct Hin as [Hin|Hin].
    + eapply escapes_mono; [apply an_list_tle|]. eapply occ_sound_list; eauto. rewrite (resolve_after T); auto.
    + eapply occ_sound_list; eauto. rewrite (resolve_after T); auto.
      eapply tle_trans; [apply Ht | apply an_list_tle].
  - (* KNamed *)
    rewrite an_named. simpl in Hin. eapply IHk; eauto.
    rewrite (resolve_after T); auto. destruct (de || cde); [apply escape_all_tle | apply tle_refl].
  - (* KClass *)
    rewrite an_class. simpl in Hin. eapply occ_sound_list; eauto.
    rewrite (resolve_after T); auto. destruct nsid; [apply escape_all_tle | apply tle_refl].
  - (* KSwap *)
    rewrite an_swap. simpl in Hin. eapply occ_sound_list; eauto.
Qed.

(* the skeleton and the flags the analysis does not touch are those of the input table *)
Lemma resolve_stable : forall k cur de w T s x,
  resolve (length (an k cur de w T)) (an k cur de w T) s x false = resolve (length T) T s x false.
Proof. intros. apply resolve_after, an_tle. Qed.

(* ---------------------------------------------------------------------------------------------- *)
(* scopes visible from a direct eval call site *)

Lemma all_esc_escape_all : forall T i, all_esc (escape_all T i) i = true.
Proof.
  intros T i. unfold all_esc, escape_all.
  destruct (nth_error T i) as [s|] eqn:E.
  - rewrite (nth_error_upd_same _ _ _ _ _ E). simpl. induction (s_binds s); simpl; auto.
  - assert (H : nth_error (upd T i (with_binds (map set_esc))) i = None).
    { revert i E. induction T as [|a r IH]; intros [|i]; simpl; auto; discriminate. }
    rewrite H; auto.
Qed.

Lemma all_esc_escape_all_fs : forall fs T s, In s (fs_all fs) -> all_esc (escape_all_fs T fs) s = true.
Proof.
  intros fs T s. unfold escape_all_fs. generalize (fs_all fs) as l. intros l; revert T.
  induction l as [|a r IH]; intros T Hin; simpl in *; [contradiction|].
  destruct Hin as [->|Hin]; [|apply IH; auto].
  eapply all_esc_mono; [apply fold_tle; intros; apply escape_all_tle | apply all_esc_escape_all].
Qed.

Definition ev_sound (k : sk) : Prop :=
  forall cur de w T s, honest k = true -> In s (ev_scopes k) -> all_esc (an k cur de w T) s = true.

Lemma ev_sound_list : forall ks, Forall ev_sound ks ->
  forall cur de w T s, forallb honest ks = true -> In s (flat_map ev_scopes ks) ->
  all_esc (an_list ks cur de w T) s = true.
Proof.
  intros ks H; induction H as [|a r Ha _ IH]; intros cur de w T s Hh Hin; simpl in *; [contradiction|].
  apply andb_true_iff in Hh. destruct Hh as [Hh1 Hh2]. apply in_app_or in Hin. destruct Hin as [Hin|Hin].
  - eapply all_esc_mono; [apply an_list_tle|]. apply Ha; auto.
  - apply IH; auto.
Qed.

Lemma ev_sound_sk : forall k, ev_sound k.
Proof.
  induction k using sk_ind'; unfold ev_sound; intros cur de w T s Hh Hin.
  - simpl in Hin; contradiction.
  - rewrite an_eval. simpl in *. eapply ev_sound_list; eauto.
  - rewrite an_seq. simpl in *. eapply ev_sound_list; eauto.
  - rewrite an_scope. simpl in *. apply andb_true_iff in Hh. destruct Hh as [Hh1 Hh2].
    apply in_app_or in Hin. destruct Hin as [Hin|Hin]; [|eapply ev_sound_list; eauto].
    destruct (existsb has_eval ks); [|contradiction].
    destruct sid as [s0|]; simpl in Hin; [|contradiction]. destruct Hin as [->|[]].
    simpl in Hh1. subst cde. eapply all_esc_mono; [apply an_list_tle|].
    unfold scope_T, scope_de. simpl. apply all_esc_escape_all.
  - rewrite an_with. simpl in *. apply andb_true_iff in Hh. destruct Hh as [Hh1 Hh2].
    apply in_app_or in Hin. destruct Hin as [Hin|Hin].
    + eapply all_esc_mono; [apply an_tle|]. apply IHk1; auto.
    + apply IHk2; auto.
  - rewrite an_fun. simpl in *. rewrite !andb_true_iff in Hh. destruct Hh as [[Hh1 Hh2] Hh3].
    eapply all_esc_mono; [apply fun_tail_tle|].
    apply in_app_or in Hin. destruct Hin as [Hin|Hin].
    + destruct (existsb has_eval ps || existsb has_eval b); [|contradiction].
      simpl in Hh1. subst cde. simpl.
      eapply all_esc_mono; [eapply tle_trans; apply an_list_tle|]. apply all_esc_escape_all_fs; auto.
    + apply in_app_or in Hin. destruct Hin as [Hin|Hin].
      * eapply all_esc_mono; [apply an_list_tle|]. eapply ev_sound_list; eauto.
      * eapply ev_sound_list; eauto.
  - rewrite an_named. simpl in *. apply andb_true_iff in Hh. destruct Hh as [Hh1 Hh2].
    apply in_app_or in Hin. destruct Hin as [Hin|Hin]; [|apply IHk; auto].
    destruct (has_eval k); [|contradiction]. simpl in Hh1. subst cde. destruct Hin as [->|[]].
    eapply all_esc_mono; [apply an_tle|]. rewrite orb_true_r. apply all_esc_escape_all.
  - rewrite an_class. simpl in *. apply in_app_or in Hin. destruct Hin as [Hin|Hin]; [|eapply ev_sound_list; eauto].
    destruct (existsb has_eval ks); [|contradiction].
    destruct nsid as [s0|]; simpl in Hin; [|contradiction]. destruct Hin as [->|[]].
    eapply all_esc_mono; [apply an_list_tle|]. apply all_esc_escape_all.
  - rewrite an_swap. simpl in *. eapply ev_sound_list; eauto.
Qed.

(* ---------------------------------------------------------------------------------------------- *)
(* the fuel (number of scopes) is enough on tables built by Scope::new: outer pointers decrease *)

Lemma wf_from_nth : forall T i j s o, wf_from i T = true -> nth_error T j = Some s -> s_outer s = Some o -> o < i + j.
Proof.
  induction T as [|a r IH]; intros i [|j] s o Hw Hn Ho; simpl in *; try discriminate.
  - inversion Hn; subst. apply andb_true_iff in Hw. destruct Hw as [Hw _].
    unfold wf_scope in Hw. rewrite Ho in Hw. apply Nat.ltb_lt in Hw. lia.
  - apply andb_true_iff in Hw. destruct Hw as [_ Hw]. specialize (IH (S i) j s o Hw Hn Ho). lia.
Qed.

Lemma resolve_fuel : forall T, wf_table T = true -> forall n m cur x c, cur < n -> cur < m ->
  resolve n T cur x c = resolve m T cur x c.
Proof.
  intros T Hw. induction n as [|n IH]; intros m cur x c Hn Hm; [lia|].
  destruct m as [|m]; [lia|]. simpl.
  destruct (nth_error T cur) as [s|] eqn:E; auto.
  destruct (has_binding x (s_binds s)); auto.
  destruct (s_outer s) as [o|] eqn:Eo; auto.
  pose proof (wf_from_nth T 0 cur s o Hw E Eo). apply IH; lia.
Qed.

Lemma access_fuel : forall T, wf_table T = true -> forall n m cur x ew c, cur < n -> cur < m ->
  access n T cur x ew c = access m T cur x ew c.
Proof.
  intros T Hw. induction n as [|n IH]; intros m cur x ew c Hn Hm; [lia|].
  destruct m as [|m]; [lia|]. simpl.
  destruct (nth_error T cur) as [s|] eqn:E; auto.
  destruct (has_binding x (s_binds s)); auto.
  destruct (s_outer s) as [o|] eqn:Eo; auto.
  pose proof (wf_from_nth T 0 cur s o Hw E Eo). apply IH; lia.
Qed.

(* ---------------------------------------------------------------------------------------------- *)
(* `crossed` (what access_binding computes) is "the binding belongs to another function" *)

Lemma fun_of_fuel : forall T, wf_table T = true -> forall n m cur, cur < n -> cur < m -> fun_of n T cur = fun_of m T cur.
Proof.
  intros T Hw. induction n as [|n IH]; intros m cur Hn Hm; [lia|].
  destruct m as [|m]; [lia|]. simpl.
  destruct (nth_error T cur) as [s|] eqn:E; auto.
  destruct (s_fun s); auto.
  destruct (s_outer s) as [o|] eqn:Eo; auto.
  pose proof (wf_from_nth T 0 cur s o Hw E Eo). apply IH; lia.
Qed.

Lemma fun_of_le : forall T, wf_table T = true -> forall n cur f, fun_of n T cur = Some f -> f <= cur.
Proof.
  intros T Hw. induction n as [|n IH]; intros cur f; simpl; [discriminate|].
  destruct (nth_error T cur) as [s|] eqn:E; [|discriminate].
  destruct (s_fun s); [intros H; inversion H; lia|].
  destruct (s_outer s) as [o|] eqn:Eo; [|discriminate].
  intros H. apply IH in H. pose proof (wf_from_nth T 0 cur s o Hw E Eo). lia.
Qed.

Lemma resolve_crossed : forall T, wf_table T = true -> forall n s x c0 sb c,
  s < n -> resolve n T s x c0 = Some (sb, c) ->
  sb <= s /\ (c0 = true -> c = true) /\
  (c0 = false -> (c = true -> exists f, fun_of n T s = Some f /\ sb < f) /\ (c = false -> fun_of n T s = fun_of n T sb)).
Proof.
  intros T Hw. induction n as [|n IH]; intros s x c0 sb c Hs; [lia|]. simpl resolve.
  destruct (nth_error T s) as [sc|] eqn:E; [|discriminate].
  destruct (has_binding x (s_binds sc)).
  - intros H; inversion H; subst. repeat split; auto. intros; congruence.
  - destruct (s_outer sc) as [o|] eqn:Eo; [|discriminate]. intros H.
    pose proof (wf_from_nth T 0 s sc o Hw E Eo) as Ho. simpl in Ho.
    assert (Hon : o < n) by lia.
    assert (Hfs : fun_of (S n) T s = if s_fun sc then Some s else fun_of n T o)
      by (simpl; rewrite E, Eo; reflexivity).
    destruct (IH o x (c0 || s_fun sc) sb c Hon H) as (Hle & Hmono & Hf).
    split; [lia|]. split.
    + intros ->. apply Hmono. reflexivity.
    + intros ->. rewrite Hfs. simpl in Hmono, Hf. destruct (s_fun sc) eqn:Ef.
      * split; [intros _; exists s; split; auto; lia | intros Hc; rewrite Hmono in Hc; [discriminate | reflexivity]].
      * destruct (Hf eq_refl) as [Hf1 Hf2]. split; auto.
        intros Hc. rewrite (Hf2 Hc). apply fun_of_fuel; auto; lia.
Qed.

Lemma crossed_iff_fun_of : forall T, wf_table T = true -> forall n s x sb c,
  s < n -> resolve n T s x false = Some (sb, c) ->
  (c = true <-> fun_of n T s <> fun_of n T sb).
Proof.
  intros T Hw n s x sb c Hs Hr.
  destruct (resolve_crossed T Hw n s x false sb c Hs Hr) as (Hle & _ & Hf).
  destruct (Hf eq_refl) as [H1 H2]. split.
  - intros Hc. destruct (H1 Hc) as (f & Hfs & Hlt). rewrite Hfs. intros Heq. symmetry in Heq.
    apply (fun_of_le T Hw) in Heq. lia.
  - intros Hne. destruct c; [reflexivity|]. exfalso. apply Hne. apply H2. reflexivity.
Qed.

(* ---------------------------------------------------------------------------------------------- *)
(* the collector of the code that exists now (old = false) emits truthful contains_direct_eval flags:
   has_eval of the emitted skeleton = contains(.., DirectEval) of the node, for every node *)

Section node_induction.
  Variable P : node -> Prop.
  Hypothesis H_id : forall x, P (NId x).
  Hypothesis H_this : P NThis.
  Hypothesis H_op : forall ks, Forall P ks -> P (NOp ks).
  Hypothesis H_call : forall f args, P f -> Forall P args -> P (NCall f args).
  Hypothesis H_fun : forall nm st ps b, Forall P ps -> Forall P b -> P (NFun nm st ps b).
  Hypothesis H_arrow : forall st ps b, Forall P ps -> Forall P b -> P (NArrow st ps b).
  Hypothesis H_method : forall st key ps b, Forall P key -> Forall P ps -> Forall P b -> P (NMethod st key ps b).
  Hypothesis H_class : forall nm h c es, Forall P h -> Forall P c -> Forall P es -> P (NClass nm h c es).
  Hypothesis H_cmethod : forall ps b, Forall P ps -> Forall P b -> P (NCMethod ps b).
  Hypothesis H_field : forall key init, Forall P key -> Forall P init -> P (NField key init).
  Hypothesis H_static : forall b, Forall P b -> P (NStaticBlock b).
  Hypothesis H_pat : forall s bd inits, Forall P inits -> P (NPat s bd inits).
  Hypothesis H_param : forall p init r, P p -> Forall P init -> P (NParam p init r).
  Hypothesis H_var : forall ds, Forall P ds -> P (NVar ds).
  Hypothesis H_lex : forall c ds, Forall P ds -> P (NLex c ds).
  Hypothesis H_declr : forall p init, P p -> Forall P init -> P (NDeclr p init).
  Hypothesis H_fundecl : forall nm st ps b, Forall P ps -> Forall P b -> P (NFunDecl nm st ps b).
  Hypothesis H_classdecl : forall nm h c es, Forall P h -> Forall P c -> Forall P es -> P (NClassDecl nm h c es).
  Hypothesis H_block : forall ks, Forall P ks -> P (NBlock ks).
  Hypothesis H_ctl : forall es ss, Forall P es -> Forall P ss -> P (NCtl es ss).
  Hypothesis H_for : forall i c u b, Forall P i -> Forall P c -> Forall P u -> P b -> P (NFor i c u b).
  Hypothesis H_forin : forall h e b, P h -> P e -> P b -> P (NForIn h e b).
  Hypothesis H_switch : forall d cs, P d -> Forall P cs -> P (NSwitch d cs).
  Hypothesis H_case : forall t b, Forall P t -> Forall P b -> P (NCase t b).
  Hypothesis H_catch : forall p b, Forall P p -> Forall P b -> P (NCatch p b).
  Hypothesis H_with : forall o b, P o -> P b -> P (NWith o b).

  Fixpoint node_ind' (n : node) : P n :=
    let all := fix all (l : list node) : Forall P l :=
      match l with [] => Forall_nil P | a :: r => Forall_cons a (node_ind' a) (all r) end in
    match n with
    | NId x => H_id x
    | NThis => H_this
    | NOp ks => H_op ks (all ks)
    | NCall f args => H_call f args (node_ind' f) (all args)
    | NFun nm st ps b => H_fun nm st ps b (all ps) (all b)
    | NArrow st ps b => H_arrow st ps b (all ps) (all b)
    | NMethod st key ps b => H_method st key ps b (all key) (all ps) (all b)
    | NClass nm h c es => H_class nm h c es (all h) (all c) (all es)
    | NCMethod ps b => H_cmethod ps b (all ps) (all b)
    | NField key init => H_field key init (all key) (all init)
    | NStaticBlock b => H_static b (all b)
    | NPat s bd inits => H_pat s bd inits (all inits)
    | NParam p init r => H_param p init r (node_ind' p) (all init)
    | NVar ds => H_var ds (all ds)
    | NLex c ds => H_lex c ds (all ds)
    | NDeclr p init => H_declr p init (node_ind' p) (all init)
    | NFunDecl nm st ps b => H_fundecl nm st ps b (all ps) (all b)
    | NClassDecl nm h c es => H_classdecl nm h c es (all h) (all c) (all es)
    | NBlock ks => H_block ks (all ks)
    | NCtl es ss => H_ctl es ss (all es) (all ss)
    | NFor i c u b => H_for i c u b (all i) (all c) (all u) (node_ind' b)
    | NForIn h e b => H_forin h e b (node_ind' h) (node_ind' e) (node_ind' b)
    | NSwitch d cs => H_switch d cs (node_ind' d) (all cs)
    | NCase t b => H_case t b (all t) (all b)
    | NCatch p b => H_catch p b (all p) (all b)
    | NWith o b => H_with o b (node_ind' o) (node_ind' b)
    end.
End node_induction.

Fixpoint col_list_g (old : bool) (l : list node) (cur : nat) (strict : bool) (T : table) {struct l} : list sk * table :=
  match l with
  | [] => ([], T)
  | a :: r => let '(ka, T1) := colg old a cur strict T in
              let '(kr, T2) := col_list_g old r cur strict T1 in (ka :: kr, T2)
  end.

Lemma colg_go_eq : forall old l cur strict T,
  (fix go (l : list node) (cur : nat) (strict : bool) (T : table) {struct l} : list sk * table :=
      match l with
      | [] => ([], T)
      | a :: r => let '(ka, T1) := colg old a cur strict T in
                  let '(kr, T2) := go r cur strict T1 in (ka :: kr, T2)
      end) l cur strict T = col_list_g old l cur strict T.
Proof. intros old l. induction l as [|a r IH]; intros; simpl; auto. destruct (colg old a cur strict T). rewrite IH. reflexivity. Qed.


Definition flags_ok (n : node) : Prop :=
  forall cur strict T, has_eval (fst (colg false n cur strict T)) = ceg false n /\ honest (fst (colg false n cur strict T)) = true.

Lemma col_list_flags : forall l, Forall flags_ok l -> forall cur strict T,
  existsb has_eval (fst (col_list_g false l cur strict T)) = existsb (ceg false) l /\
  forallb honest (fst (col_list_g false l cur strict T)) = true.
Proof.
  intros l H; induction H as [|a r Ha _ IH]; intros cur strict T; simpl; auto.
  destruct (Ha cur strict T) as [A B]. destruct (colg false a cur strict T) as [ka T1]. simpl in A, B.
  destruct (IH cur strict T1) as [C D]. destruct (col_list_g false r cur strict T1) as [kr T2]. simpl in *.
  rewrite A, B, C, D. auto.
Qed.

Lemma existsb_map_KId : forall l, existsb has_eval (map KId l) = false.
Proof. induction l; simpl; auto. Qed.
Lemma forallb_map_KId : forall l, forallb honest (map KId l) = true.
Proof. induction l; simpl; auto. Qed.

Ltac use_list E l c s t :=
  match goal with
  | H : Forall _ l |- _ =>
      let A := fresh "A" in let B := fresh "B" in
      destruct (col_list_flags l H c s t) as [A B]; rewrite E in A, B; simpl fst in A, B
  end.
Ltac use_node E n c s t :=
  match goal with
  | H : flags_ok n |- _ =>
      let A := fresh "A" in let B := fresh "B" in
      destruct (H c s t) as [A B]; rewrite E in A, B; simpl fst in A, B
  end.
Ltac step :=
  rewrite ?colg_go_eq;
  match goal with
  | |- context [match col_list_g false ?l ?c ?s ?t with (_, _) => _ end] =>
      let E := fresh "E" in destruct (col_list_g false l c s t) as [? ?] eqn:E; use_list E l c s t
  | |- context [match colg false ?n ?c ?s ?t with (_, _) => _ end] =>
      let E := fresh "E" in destruct (colg false n c s t) as [? ?] eqn:E; use_node E n c s t
  | |- context [match fdi ?a ?b ?c ?d ?e ?f with (_, _) => _ end] => destruct (fdi a b c d e f) as [? ?]
  | |- context [match block_decl_inst ?a ?b ?c with (_, _) => _ end] => destruct (block_decl_inst a b c) as [? ?]
  end.
Ltac step2 :=
  step ||
  match goal with
  | |- context [match ?X with (_, _) => _ end] => destruct X as [? ?]
  end.
Ltac fin2 :=
  simpl; rewrite ?existsb_app, ?forallb_app, ?existsb_map_KId, ?forallb_map_KId; simpl;
  repeat match goal with H : _ = _ |- _ => rewrite H; clear H end;
  repeat match goal with
         | |- context [if ?c then Some _ else None] => destruct c
         | |- context [match ?o with Some _ => _ | None => _ end] => is_var o; destruct o
         end;
  simpl; rewrite ?orb_false_r, ?andb_true_r, ?orb_false_l;
  repeat match goal with
         | |- context [existsb (ceg false) ?x] => destruct (existsb (ceg false) x)
         | |- context [ceg false ?x] => destruct (ceg false x)
         end; simpl; auto.
Ltac fin :=
  simpl; rewrite ?existsb_app, ?forallb_app, ?existsb_map_KId, ?forallb_map_KId; simpl;
  repeat match goal with H : _ = _ |- _ => rewrite H; clear H end;
  rewrite ?orb_false_r, ?andb_true_r, ?orb_false_l;
  repeat match goal with
         | |- context [existsb (ceg false) ?x] => destruct (existsb (ceg false) x)
         | |- context [ceg false ?x] => destruct (ceg false x)
         end; simpl; auto.

Lemma colg_flags : forall n, flags_ok n.
Proof.
  induction n using node_ind'; unfold flags_ok; intros cur strict T;
    try solve [simpl; auto];
    try solve [simpl; repeat step; fin];
    try solve [simpl; destruct nm; repeat step; fin];
    try solve [simpl; destruct (is_direct_eval n); repeat step; fin];
    try solve [simpl; repeat step2; fin2].
Qed.

Lemma col_stmts_honest : forall l cur strict acc T,
  forallb honest acc = true ->
  forallb honest (fst (fold_left (fun '(ks, T) a => let '(k, T1) := colg false a cur strict T in (ks ++ [k], T1)) l (acc, T))) = true.
Proof.
  induction l as [|a r IH]; intros cur strict acc T Hacc; simpl; auto.
  destruct (colg_flags a cur strict T) as [_ Hh]. destruct (colg false a cur strict T) as [k T1]. simpl in Hh.
  apply IH. rewrite forallb_app, Hacc. simpl. rewrite Hh. reflexivity.
Qed.

(* the repaired collector only emits truthful contains_direct_eval flags *)
Lemma collect_script_honest : forall strict stmts, honest (fst (collect_script strict stmts)) = true.
Proof.
  intros. unfold collect_script, collect_script_g, col_stmts_g.
  pose proof (col_stmts_honest stmts O strict [] (global_decl_inst global_table stmts) eq_refl) as H.
  destruct (fold_left _ stmts ([], global_decl_inst global_table stmts)) as [ks T1]. simpl in *. exact H.
Qed.
