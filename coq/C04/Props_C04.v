(* C04 — pinned property theorems about boa's binding escape analysis (model: Model_C04.v). *)
From Coq Require Import NArith List Bool Arith.
From Coq Require Import ZArith.
From C04 Require Import Model_C04 Proofs_C04 Deep1_C04 Deep2_C04.
Import ListNotations.

(* Soundness of the ESCAPES verdict for every syntactic identifier occurrence, for every scope-annotated
   program skeleton k, every scope table T (any outer pointers, any flags), every starting context:
   an occurrence of x compiled in scope s that statically resolves to the binding of x in scope sb with a
   function border in between, or that sits under `with` / code flagged as containing a direct eval, leaves
   that binding marked ESCAPES when the analysis is done. *)
Theorem escape_sound :
  forall (k : sk) (cur : nat) (de w : bool) (T : table) (x : name) (s : nat) (ew : bool) (sb : nat) (crossed : bool),
    In (x, s, ew) (occs k cur de w) ->
    resolve (length T) T s x false = Some (sb, crossed) ->
    crossed || ew = true ->
    escapes (an k cur de w T) sb x = true.
Proof. exact escape_sound_sk. Qed.
Check escape_sound :
  forall (k : sk) (cur : nat) (de w : bool) (T : table) (x : name) (s : nat) (ew : bool) (sb : nat) (crossed : bool),
    In (x, s, ew) (occs k cur de w) ->
    resolve (length T) T s x false = Some (sb, crossed) ->
    crossed || ew = true ->
    escapes (an k cur de w T) sb x = true.
Print Assumptions escape_sound.

(* Contrapositive, the form the bytecompiler relies on: a binding that ends up `local` (a frame register) is
   reached by syntactic occurrences of its own function only, none of them under with / flagged eval code. *)
Theorem local_only_same_function :
  forall (k : sk) (cur : nat) (de w : bool) (T : table) (x : name) (s : nat) (ew : bool) (sb : nat) (crossed : bool),
    In (x, s, ew) (occs k cur de w) ->
    resolve (length T) T s x false = Some (sb, crossed) ->
    local (an k cur de w T) sb x = true ->
    crossed = false /\ ew = false.
Proof.
  intros k cur de w T x s ew sb crossed Hin Hr Hl.
  destruct (crossed || ew) eqn:E.
  - pose proof (escape_sound_sk k cur de w T x s ew sb crossed Hin Hr E) as He.
    unfold local in Hl. unfold escapes in He. destruct (find_binding _ sb x); [|discriminate].
    rewrite He in Hl. discriminate.
  - apply orb_false_iff in E. exact E.
Qed.
Check local_only_same_function :
  forall (k : sk) (cur : nat) (de w : bool) (T : table) (x : name) (s : nat) (ew : bool) (sb : nat) (crossed : bool),
    In (x, s, ew) (occs k cur de w) ->
    resolve (length T) T s x false = Some (sb, crossed) ->
    local (an k cur de w T) sb x = true ->
    crossed = false /\ ew = false.
Print Assumptions local_only_same_function.

(* The analysis only sets flags: name resolution (hence the locators the bytecompiler computes afterwards)
   is the same before and after. *)
Theorem analysis_preserves_resolution :
  forall (k : sk) (cur : nat) (de w : bool) (T : table) (s : nat) (x : name),
    resolve (length (an k cur de w T)) (an k cur de w T) s x false = resolve (length T) T s x false.
Proof. exact resolve_stable. Qed.
Check analysis_preserves_resolution :
  forall (k : sk) (cur : nat) (de w : bool) (T : table) (s : nat) (x : name),
    resolve (length (an k cur de w T)) (an k cur de w T) s x false = resolve (length T) T s x false.
Print Assumptions analysis_preserves_resolution.

(* ESCAPES is never cleared: whatever was marked (global bindings at creation, the force-escape switch,
   earlier evals) stays marked. *)
Theorem escapes_monotone :
  forall (k : sk) (cur : nat) (de w : bool) (T : table) (i : nat) (x : name),
    escapes T i x = true -> escapes (an k cur de w T) i x = true.
Proof. intros. eapply escapes_mono; [apply an_tle | assumption]. Qed.
Check escapes_monotone :
  forall (k : sk) (cur : nat) (de w : bool) (T : table) (i : nat) (x : name),
    escapes T i x = true -> escapes (an k cur de w T) i x = true.
Print Assumptions escapes_monotone.

(* Dynamic accesses through direct eval: if the contains_direct_eval flags tell the truth (`honest`), every
   binding of every scope entered by a block / loop / catch / function / class node that encloses a direct
   eval call site escapes. *)
Theorem eval_entered_scopes_escape :
  forall (k : sk) (cur : nat) (de w : bool) (T : table) (s : nat),
    honest k = true -> In s (ev_scopes k) -> all_esc (an k cur de w T) s = true.
Proof. exact ev_sound_sk. Qed.
Check eval_entered_scopes_escape :
  forall (k : sk) (cur : nat) (de w : bool) (T : table) (s : nat),
    honest k = true -> In s (ev_scopes k) -> all_esc (an k cur de w T) s = true.
Print Assumptions eval_entered_scopes_escape.

(* The truthfulness hypothesis is discharged for the collector of the code that exists now (contains(.., DirectEval)
   looks into methods, field initializers and static blocks): every script's skeleton has truthful flags. *)
Theorem collect_flags_truthful :
  forall (strict : bool) (stmts : list node), honest (fst (collect_script strict stmts)) = true.
Proof. exact collect_script_honest. Qed.
Check collect_flags_truthful :
  forall (strict : bool) (stmts : list node), honest (fst (collect_script strict stmts)) = true.
Print Assumptions collect_flags_truthful.

(* Hence, without hypothesis, for every script of the compact syntax: all bindings of every scope entered around a
   direct eval call site (block / loop / catch / switch scopes, the four function scopes, class name scopes and — since
   the fix — the name scope of a named function expression) escape. *)
Theorem eval_scopes_escape_for_scripts :
  forall (strict : bool) (stmts : list node) (s : nat),
    In s (ev_scopes (fst (collect_script strict stmts))) -> all_esc (analyze strict stmts) s = true.
Proof.
  intros strict stmts s Hin. unfold analyze.
  pose proof (collect_script_honest strict stmts) as Hh.
  destruct (collect_script strict stmts) as [k T]. simpl in *.
  apply ev_sound_sk; assumption.
Qed.
Check eval_scopes_escape_for_scripts :
  forall (strict : bool) (stmts : list node) (s : nat),
    In s (ev_scopes (fst (collect_script strict stmts))) -> all_esc (analyze strict stmts) s = true.
Print Assumptions eval_scopes_escape_for_scripts.

(* The fuel of the scope-chain walks (the number of scopes) is enough on tables whose outer pointers
   decrease, which is what Scope::new builds (checked per program by the correspondence: r_wf). *)
Theorem chain_walk_fuel_irrelevant :
  forall (T : table), wf_table T = true ->
  forall (n m cur : nat) (x : name) (ew c : bool), cur < n -> cur < m ->
    resolve n T cur x c = resolve m T cur x c /\ access n T cur x ew c = access m T cur x ew c.
Proof. intros; split; [apply resolve_fuel | apply access_fuel]; assumption. Qed.
Check chain_walk_fuel_irrelevant :
  forall (T : table), wf_table T = true ->
  forall (n m cur : nat) (x : name) (ew c : bool), cur < n -> cur < m ->
    resolve n T cur x c = resolve m T cur x c /\ access n T cur x ew c = access m T cur x ew c.
Print Assumptions chain_walk_fuel_irrelevant.

(* `crossed` is exactly "the binding belongs to a different function than the occurrence" (on tables with
   decreasing outer pointers): with escape_sound this is the statement of DESIGN.md 4/C04 —
   function_of r <> function_of b \/ under_eval_or_with r -> escapes b. *)
Theorem crossed_iff_other_function :
  forall (T : table), wf_table T = true ->
  forall (n s : nat) (x : name) (sb : nat) (crossed : bool),
    s < n -> resolve n T s x false = Some (sb, crossed) ->
    (crossed = true <-> fun_of n T s <> fun_of n T sb).
Proof. exact crossed_iff_fun_of. Qed.
Check crossed_iff_other_function :
  forall (T : table), wf_table T = true ->
  forall (n s : nat) (x : name) (sb : nat) (crossed : bool),
    s < n -> resolve n T s x false = Some (sb, crossed) ->
    (crossed = true <-> fun_of n T s <> fun_of n T sb).
Print Assumptions crossed_iff_other_function.

(* ---- findings of the first round, now fixed in /repo (fixes eval-under-method, eval-named-function-expression).
        `…_old` is the analyzer as it was; the witnesses stay as documentation, and the repaired model handles them. ---- *)

(* function f(){ let x; ({ m(){ eval("x") } }) }      names: f = 2, x = 3
   before the fix contains(.., DirectEval) did not look into method definitions: f was not flagged, x stayed a
   register, yet the eval code names it. *)
Definition w_method : list node :=
  [NFunDecl 2%N false [] [NLex false [NDeclr (NPat true [3%N] []) []];
                          NCtl [NOp [NMethod false [] [] [NCtl [NCall (NId n_eval) [NOp []]] []]]] []]].

Theorem eval_under_method_refuted_old :
  exists stmts : list node,
    honest (fst (collect_script_old false stmts)) = false /\
    eval_reach_ok (snd (collect_script_old false stmts)) (analyze_old false stmts) (fst (collect_script_old false stmts)) = false.
Proof. exists w_method. vm_compute. split; reflexivity. Qed.
Check eval_under_method_refuted_old :
  exists stmts : list node,
    honest (fst (collect_script_old false stmts)) = false /\
    eval_reach_ok (snd (collect_script_old false stmts)) (analyze_old false stmts) (fst (collect_script_old false stmts)) = false.
Print Assumptions eval_under_method_refuted_old.

(* (function fact(){ eval("fact") })      name: fact = 2
   before the fix the flags were truthful, but the name scope of a function expression was not among the scopes
   escaped for a direct eval. *)
Definition w_named : list node :=
  [NCtl [NFun (Some 2%N) false [] [NCtl [NCall (NId n_eval) [NOp []]] []]] []].

Theorem eval_named_function_expression_refuted_old :
  exists stmts : list node,
    honest (fst (collect_script_old false stmts)) = true /\
    eval_reach_ok (snd (collect_script_old false stmts)) (analyze_old false stmts) (fst (collect_script_old false stmts)) = false.
Proof. exists w_named. vm_compute. split; reflexivity. Qed.
Check eval_named_function_expression_refuted_old :
  exists stmts : list node,
    honest (fst (collect_script_old false stmts)) = true /\
    eval_reach_ok (snd (collect_script_old false stmts)) (analyze_old false stmts) (fst (collect_script_old false stmts)) = false.
Print Assumptions eval_named_function_expression_refuted_old.

(* the code that exists now: on both witnesses the flags are truthful and nothing nameable stays a register *)
Example eval_witnesses_repaired :
  honest (fst (collect_script false w_method)) = true /\
  eval_reach_ok (snd (collect_script false w_method)) (analyze false w_method) (fst (collect_script false w_method)) = true /\
  honest (fst (collect_script false w_named)) = true /\
  eval_reach_ok (snd (collect_script false w_named)) (analyze false w_named) (fst (collect_script false w_named)) = true.
Proof. vm_compute. repeat split; reflexivity. Qed.

(* ---- the hypotheses are satisfiable / the definitions say what they should on small programs ---- *)

(* function f(){ let x; return () => x }    f = 2, x = 3: the arrow's x crosses a border, x escapes *)
Definition ex_capture : list node :=
  [NFunDecl 2%N false [] [NLex false [NDeclr (NPat true [3%N] []) []]; NCtl [NArrow false [] [NCtl [NId 3%N] []]] []]].
Example capture_escapes :
  let '(k, T0) := collect_script false ex_capture in
  In (3%N, 3, false) (occs k 0 false false) /\
  resolve (length T0) T0 3 3%N false = Some (2, true) /\
  escapes (analyze false ex_capture) 2 3%N = true.
Proof. vm_compute. repeat split; auto. Qed.

(* function f(){ let x; x }: the only access is in f itself, x is local (a register) *)
Definition ex_local : list node :=
  [NFunDecl 2%N false [] [NLex false [NDeclr (NPat true [3%N] []) []]; NCtl [NId 3%N] []]].
Example local_stays_local : local (analyze false ex_local) 2 3%N = true.
Proof. vm_compute. reflexivity. Qed.

(* function f(){ let x; { eval("x") } }: truthful flags, and x escapes *)
Definition ex_eval : list node :=
  [NFunDecl 2%N false [] [NLex false [NDeclr (NPat true [3%N] []) []]; NBlock [NCtl [NCall (NId n_eval) [NOp []]] []]]].
Example eval_hypotheses_satisfiable :
  let '(k, T0) := collect_script false ex_eval in
  honest k = true /\ In 2 (ev_scopes k) /\ all_esc (analyze false ex_eval) 2 = true /\ wf_table T0 = true.
Proof. vm_compute. repeat split; auto. Qed.


(* ================================================================================================ *)
(* Deepening round: the semantic half (Deep1_C04.v) and the operand shortcuts (Deep2_C04.v) *)

(* In the instrumented semantics `ev` (binding access events of every execution: closures called in fresh
   activations, scopes instantiated by the running activation, direct eval touching any visible binding by name from
   any activation, by-name lookups under `with`): a binding that the analysis leaves `local` is accessed only by the
   activation that created it, and only by compiled (not by-name) accesses — for every skeleton laid out on the table
   the way the collector lays it out (wsk), with truthful flags, started in a consistent state. *)
Theorem local_single_activation_sk :
  forall (T : table) (k : sk) (cur : nat) (de w dm : bool) (aid : nat) (rho : nat -> nat)
         (actor owner sb : nat) (x : name) (dyn : bool),
    wf_table T = true -> wsk T k cur = true -> honest k = true ->
    Inv T cur aid rho ->
    (forall y s, reach T cur y s -> all_esc T s = true) ->
    (dm = true -> w = true) ->
    ev T k cur dm aid rho (Acc actor owner sb x dyn) ->
    local (an k cur de w T) sb x = true ->
    actor = owner /\ dyn = false.
Proof. exact Deep1_C04.local_single_activation_sk. Qed.
Check local_single_activation_sk :
  forall (T : table) (k : sk) (cur : nat) (de w dm : bool) (aid : nat) (rho : nat -> nat)
         (actor owner sb : nat) (x : name) (dyn : bool),
    wf_table T = true -> wsk T k cur = true -> honest k = true ->
    Inv T cur aid rho ->
    (forall y s, reach T cur y s -> all_esc T s = true) ->
    (dm = true -> w = true) ->
    ev T k cur dm aid rho (Acc actor owner sb x dyn) ->
    local (an k cur de w T) sb x = true ->
    actor = owner /\ dyn = false.
Print Assumptions local_single_activation_sk.

(* For whole scripts: the only hypothesis left is the executable `sem_hyp` (outer pointers decrease, the skeleton
   hangs on the table as laid out, the root is the global scope with escaping bindings), evaluated by the extracted
   model on every generated program. *)
Theorem local_single_activation :
  forall (strict : bool) (stmts : list node), sem_hyp strict stmts = true ->
  forall (aid0 actor owner sb : nat) (x : name) (dyn : bool),
    ev (snd (collect_script strict stmts)) (fst (collect_script strict stmts)) 0 false aid0 (fun _ => aid0)
       (Acc actor owner sb x dyn) ->
    local (analyze strict stmts) sb x = true ->
    actor = owner /\ dyn = false.
Proof. exact Deep1_C04.local_single_activation. Qed.
Check local_single_activation :
  forall (strict : bool) (stmts : list node), sem_hyp strict stmts = true ->
  forall (aid0 actor owner sb : nat) (x : name) (dyn : bool),
    ev (snd (collect_script strict stmts)) (fst (collect_script strict stmts)) 0 false aid0 (fun _ => aid0)
       (Acc actor owner sb x dyn) ->
    local (analyze strict stmts) sb x = true ->
    actor = owner /\ dyn = false.
Print Assumptions local_single_activation.

(* the semantics is not vacuous: in `function f(){ let x; return () => x }` activation 2 (a call of the arrow) reads
   the x created by activation 1 (a call of f) — and x is not local *)
Example capture_event :
  ev (snd (collect_script false ex_capture)) (fst (collect_script false ex_capture)) 0 false 0 (fun _ => 0)
     (Acc 2 1 2 3%N false) /\ sem_hyp false ex_capture = true /\ local (analyze false ex_capture) 2 3%N = false.
Proof.
  split; [|split; vm_compute; reflexivity].
  vm_compute collect_script. simpl fst; simpl snd.
  eapply ev_seq; [left; reflexivity|].
  eapply (ev_fun_body _ _ _ _ _ _ _ _ _ _ _ 1); [discriminate | intros; discriminate | right; left; reflexivity |].
  eapply ev_seq; [left; reflexivity|].
  eapply (ev_fun_body _ _ _ _ _ _ _ _ _ _ _ 2); [discriminate | intros s; unfold setr_all; destruct (existsb _ _); discriminate | left; reflexivity |].
  eapply ev_seq; [left; reflexivity|].
  match goal with |- ev ?T ?k ?c ?d ?a ?r _ => change (ev T k c d a r (Acc a (r 2) 2 3%N d)) end.
  eapply ev_id. vm_compute. reflexivity.
Qed.

(* compile_expr_operand_before as repaired (copy the left operand unless the right one is a literal, an identifier or
   `this`) computes what the left-to-right reference semantics computes, for every expression and store *)
Theorem operand_snapshot_sound : forall (e : ex) (st : store), cmp snapshot_new e st = ref e st.
Proof. exact operand_snapshot_sound_. Qed.
Check operand_snapshot_sound : forall (e : ex) (st : store), cmp snapshot_new e st = ref e st.
Print Assumptions operand_snapshot_sound.

(* … and so does every rule that copies whenever the later operand can assign that local *)
Theorem operand_rule_sound_general : forall snapshot : ex -> ex -> bool,
  (forall x b, snapshot (Loc x) b = false -> may_assign x b = false) ->
  forall (e : ex) (st : store), cmp snapshot e st = ref e st.
Proof. exact operand_rule_sound. Qed.
Check operand_rule_sound_general : forall snapshot : ex -> ex -> bool,
  (forall x b, snapshot (Loc x) b = false -> may_assign x b = false) ->
  forall (e : ex) (st : store), cmp snapshot e st = ref e st.
Print Assumptions operand_rule_sound_general.

(* a rule that accepts a property access with a harmless target and does not look at the computed key
   (`x + a[x++]`) violates the hypothesis above and is wrong *)
Theorem operand_member_fastpath_refuted :
  exists (e : ex) (st : store), snapshot_member_fastpath (Loc 0) (Idx (Loc 1) (Asg 0 (Lit 5))) = false /\
               may_assign 0 (Idx (Loc 1) (Asg 0 (Lit 5))) = true /\
               fst (cmp snapshot_member_fastpath e st) <> fst (ref e st).
Proof. exact operand_member_fastpath_refuted_. Qed.
Check operand_member_fastpath_refuted :
  exists (e : ex) (st : store), snapshot_member_fastpath (Loc 0) (Idx (Loc 1) (Asg 0 (Lit 5))) = false /\
               may_assign 0 (Idx (Loc 1) (Asg 0 (Lit 5))) = true /\
               fst (cmp snapshot_member_fastpath e st) <> fst (ref e st).
Print Assumptions operand_member_fastpath_refuted.

Theorem operand_snapshot_old_refuted : exists (e : ex) (st : store), fst (cmp snapshot_old e st) <> fst (ref e st).
Proof. exact operand_snapshot_old_refuted_. Qed.
Check operand_snapshot_old_refuted : exists (e : ex) (st : store), fst (cmp snapshot_old e st) <> fst (ref e st).
Print Assumptions operand_snapshot_old_refuted.

(* Move(dst, local); Inc(local, dst) with the repaired Inc implements postfix ++ of ECMA-262 13.4.2.1 on a local:
   the expression value is ToNumeric(old), the local gets old + 1, nothing else changes; if ToNumeric throws the local
   keeps its value *)
Theorem update_on_local_sound : forall (loc dst : nat) (r : regs), dst <> loc ->
  match to_numeric (r loc) with
  | Some z => exists r', postfix_new loc dst r = Done r' /\ r' dst = VNum z /\ r' loc = VNum (z + 1) /\
                         (forall j, j <> loc -> j <> dst -> r' j = r j)
  | None => exists r', postfix_new loc dst r = Threw r' /\ r' loc = r loc /\ (forall j, j <> dst -> r' j = r j)
  end.
Proof. exact update_on_local_sound_. Qed.
Check update_on_local_sound : forall (loc dst : nat) (r : regs), dst <> loc ->
  match to_numeric (r loc) with
  | Some z => exists r', postfix_new loc dst r = Done r' /\ r' dst = VNum z /\ r' loc = VNum (z + 1) /\
                         (forall j, j <> loc -> j <> dst -> r' j = r j)
  | None => exists r', postfix_new loc dst r = Threw r' /\ r' loc = r loc /\ (forall j, j <> dst -> r' j = r j)
  end.
Print Assumptions update_on_local_sound.

Theorem update_on_local_old_refuted :
  (exists r r', postfix_old inc_new 0 1 r = Done r' /\ to_numeric (r 0) = Some 5%Z /\ r' 1 <> VNum 5) /\
  (exists r r', postfix_old inc_old 0 1 r = Threw r' /\ r' 0 <> r 0).
Proof. exact update_on_local_old_refuted_. Qed.
Check update_on_local_old_refuted :
  (exists r r', postfix_old inc_new 0 1 r = Done r' /\ to_numeric (r 0) = Some 5%Z /\ r' 1 <> VNum 5) /\
  (exists r r', postfix_old inc_old 0 1 r = Threw r' /\ r' 0 <> r 0).
Print Assumptions update_on_local_old_refuted.

(* try_hoist_loop_condition as repaired: when it hoists the const right operand (not a do-while, not under `with`,
   left operand without side effect) the loop produces the event sequence of the unhoisted loop, for every number of
   iterations, whether or not the const is still in its TDZ *)
Theorem hoist_const_sound :
  forall (lhs_eff : bool) (l cv : nat -> Z) (tdz is_do under_with : bool) (fuel : nat),
    hoist_ok_new lhs_eff is_do under_with = true ->
    (under_with = false -> forall j, cv j = cv 0) ->
    hoisted lhs_eff l cv tdz is_do fuel = spec lhs_eff l cv tdz is_do fuel.
Proof. exact hoist_const_sound_. Qed.
Check hoist_const_sound :
  forall (lhs_eff : bool) (l cv : nat -> Z) (tdz is_do under_with : bool) (fuel : nat),
    hoist_ok_new lhs_eff is_do under_with = true ->
    (under_with = false -> forall j, cv j = cv 0) ->
    hoisted lhs_eff l cv tdz is_do fuel = spec lhs_eff l cv tdz is_do fuel.
Print Assumptions hoist_const_sound.

Theorem hoist_const_old_refuted :
  (exists fuel, hoisted false (fun _ => 0%Z) (fun _ => 2%Z) true true fuel <> spec false (fun _ => 0%Z) (fun _ => 2%Z) true true fuel) /\
  (exists fuel, hoisted false Z.of_nat (fun i => match i with O => 3%Z | _ => 1%Z end) false false fuel
                <> spec false Z.of_nat (fun i => match i with O => 3%Z | _ => 1%Z end) false false fuel) /\
  (exists fuel, hoisted true (fun _ => 0%Z) (fun _ => 1%Z) true false fuel <> spec true (fun _ => 0%Z) (fun _ => 1%Z) true false fuel).
Proof. exact hoist_const_old_refuted_. Qed.
Check hoist_const_old_refuted :
  (exists fuel, hoisted false (fun _ => 0%Z) (fun _ => 2%Z) true true fuel <> spec false (fun _ => 0%Z) (fun _ => 2%Z) true true fuel) /\
  (exists fuel, hoisted false Z.of_nat (fun i => match i with O => 3%Z | _ => 1%Z end) false false fuel
                <> spec false Z.of_nat (fun i => match i with O => 3%Z | _ => 1%Z end) false false fuel) /\
  (exists fuel, hoisted true (fun _ => 0%Z) (fun _ => 1%Z) true false fuel <> spec true (fun _ => 0%Z) (fun _ => 1%Z) true false fuel).
Print Assumptions hoist_const_old_refuted.
