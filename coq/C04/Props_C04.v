(* C04 — pinned property theorems about boa's binding escape analysis (model: Model_C04.v). *)
From Coq Require Import NArith List Bool Arith.
From C04 Require Import Model_C04 Proofs_C04.
Import ListNotations.

(* Soundness of the ESCAPES verdict for every syntactic identifier occurrence, for every scope-annotated
   program skeleton k, every scope table T (any outer pointers, any flags), every starting context:
   an occurrence of x compiled in scope s that statically resolves to the binding of x in scope sb with a
   function border in between, or that sits under `with` / code flagged as containing a direct eval, leaves
   that binding marked ESCAPES when the analysis is done. *)
Theorem escape_sound :
  forall (k : sk) (cur : nat) (de w : bool) (T : table) (x : name) (s : nat) (ew : bool) (sb : nat) (crossed : bool),
    In (x, s, ew) (occs k cur de w) ->
    resolve (length T) T s x false = Some (sb, crossed) ->
    crossed || ew = true ->
    escapes (an k cur de w T) sb x = true.
Proof. exact escape_sound_sk. Qed.
Check escape_sound :
  forall (k : sk) (cur : nat) (de w : bool) (T : table) (x : name) (s : nat) (ew : bool) (sb : nat) (crossed : bool),
    In (x, s, ew) (occs k cur de w) ->
    resolve (length T) T s x false = Some (sb, crossed) ->
    crossed || ew = true ->
    escapes (an k cur de w T) sb x = true.
Print Assumptions escape_sound.

(* Contrapositive, the form the bytecompiler relies on: a binding that ends up `local` (a frame register) is
   reached by syntactic occurrences of its own function only, none of them under with / flagged eval code. *)
Theorem local_only_same_function :
  forall (k : sk) (cur : nat) (de w : bool) (T : table) (x : name) (s : nat) (ew : bool) (sb : nat) (crossed : bool),
    In (x, s, ew) (occs k cur de w) ->
    resolve (length T) T s x false = Some (sb, crossed) ->
    local (an k cur de w T) sb x = true ->
    crossed = false /\ ew = false.
Proof.
  intros k cur de w T x s ew sb crossed Hin Hr Hl.
  destruct (crossed || ew) eqn:E.
  - pose proof (escape_sound_sk k cur de w T x s ew sb crossed Hin Hr E) as He.
    unfold local in Hl. unfold escapes in He. destruct (find_binding _ sb x); [|discriminate].
    rewrite He in Hl. discriminate.
  - apply orb_false_iff in E. exact E.
Qed.
Check local_only_same_function :
  forall (k : sk) (cur : nat) (de w : bool) (T : table) (x : name) (s : nat) (ew : bool) (sb : nat) (crossed : bool),
    In (x, s, ew) (occs k cur de w) ->
    resolve (length T) T s x false = Some (sb, crossed) ->
    local (an k cur de w T) sb x = true ->
    crossed = false /\ ew = false.
Print Assumptions local_only_same_function.

(* The analysis only sets flags: name resolution (hence the locators the bytecompiler computes afterwards)
   is the same before and after. *)
Theorem analysis_preserves_resolution :
  forall (k : sk) (cur : nat) (de w : bool) (T : table) (s : nat) (x : name),
    resolve (length (an k cur de w T)) (an k cur de w T) s x false = resolve (length T) T s x false.
Proof. exact resolve_stable. Qed.
Check analysis_preserves_resolution :
  forall (k : sk) (cur : nat) (de w : bool) (T : table) (s : nat) (x : name),
    resolve (length (an k cur de w T)) (an k cur de w T) s x false = resolve (length T) T s x false.
Print Assumptions analysis_preserves_resolution.

(* ESCAPES is never cleared: whatever was marked (global bindings at creation, the force-escape switch,
   earlier evals) stays marked. *)
Theorem escapes_monotone :
  forall (k : sk) (cur : nat) (de w : bool) (T : table) (i : nat) (x : name),
    escapes T i x = true -> escapes (an k cur de w T) i x = true.
Proof. intros. eapply escapes_mono; [apply an_tle | assumption]. Qed.
Check escapes_monotone :
  forall (k : sk) (cur : nat) (de w : bool) (T : table) (i : nat) (x : name),
    escapes T i x = true -> escapes (an k cur de w T) i x = true.
Print Assumptions escapes_monotone.

(* Dynamic accesses through direct eval: if the contains_direct_eval flags tell the truth (`honest`), every
   binding of every scope entered by a block / loop / catch / function / class node that encloses a direct
   eval call site escapes. *)
Theorem eval_entered_scopes_escape :
  forall (k : sk) (cur : nat) (de w : bool) (T : table) (s : nat),
    honest k = true -> In s (ev_scopes k) -> all_esc (an k cur de w T) s = true.
Proof. exact ev_sound_sk. Qed.
Check eval_entered_scopes_escape :
  forall (k : sk) (cur : nat) (de w : bool) (T : table) (s : nat),
    honest k = true -> In s (ev_scopes k) -> all_esc (an k cur de w T) s = true.
Print Assumptions eval_entered_scopes_escape.

(* The truthfulness hypothesis is discharged for the collector of the code that exists now (contains(.., DirectEval)
   looks into methods, field initializers and static blocks): every script's skeleton has truthful flags. *)
Theorem collect_flags_truthful :
  forall (strict : bool) (stmts : list node), honest (fst (collect_script strict stmts)) = true.
Proof. exact collect_script_honest. Qed.
Check collect_flags_truthful :
  forall (strict : bool) (stmts : list node), honest (fst (collect_script strict stmts)) = true.
Print Assumptions collect_flags_truthful.

(* Hence, without hypothesis, for every script of the compact syntax: all bindings of every scope entered around a
   direct eval call site (block / loop / catch / switch scopes, the four function scopes, class name scopes and — since
   the fix — the name scope of a named function expression) escape. *)
Theorem eval_scopes_escape_for_scripts :
  forall (strict : bool) (stmts : list node) (s : nat),
    In s (ev_scopes (fst (collect_script strict stmts))) -> all_esc (analyze strict stmts) s = true.
Proof.
  intros strict stmts s Hin. unfold analyze.
  pose proof (collect_script_honest strict stmts) as Hh.
  destruct (collect_script strict stmts) as [k T]. simpl in *.
  apply ev_sound_sk; assumption.
Qed.
Check eval_scopes_escape_for_scripts :
  forall (strict : bool) (stmts : list node) (s : nat),
    In s (ev_scopes (fst (collect_script strict stmts))) -> all_esc (analyze strict stmts) s = true.
Print Assumptions eval_scopes_escape_for_scripts.

(* The fuel of the scope-chain walks (the number of scopes) is enough on tables whose outer pointers
   decrease, which is what Scope::new builds (checked per program by the correspondence: r_wf). *)
Theorem chain_walk_fuel_irrelevant :
  forall (T : table), wf_table T = true ->
  forall (n m cur : nat) (x : name) (ew c : bool), cur < n -> cur < m ->
    resolve n T cur x c = resolve m T cur x c /\ access n T cur x ew c = access m T cur x ew c.
Proof. intros; split; [apply resolve_fuel | apply access_fuel]; assumption. Qed.
Check chain_walk_fuel_irrelevant :
  forall (T : table), wf_table T = true ->
  forall (n m cur : nat) (x : name) (ew c : bool), cur < n -> cur < m ->
    resolve n T cur x c = resolve m T cur x c /\ access n T cur x ew c = access m T cur x ew c.
Print Assumptions chain_walk_fuel_irrelevant.

(* `crossed` is exactly "the binding belongs to a different function than the occurrence" (on tables with
   decreasing outer pointers): with escape_sound this is the statement of DESIGN.md 4/C04 —
   function_of r <> function_of b \/ under_eval_or_with r -> escapes b. *)
Theorem crossed_iff_other_function :
  forall (T : table), wf_table T = true ->
  forall (n s : nat) (x : name) (sb : nat) (crossed : bool),
    s < n -> resolve n T s x false = Some (sb, crossed) ->
    (crossed = true <-> fun_of n T s <> fun_of n T sb).
Proof. exact crossed_iff_fun_of. Qed.
Check crossed_iff_other_function :
  forall (T : table), wf_table T = true ->
  forall (n s : nat) (x : name) (sb : nat) (crossed : bool),
    s < n -> resolve n T s x false = Some (sb, crossed) ->
    (crossed = true <-> fun_of n T s <> fun_of n T sb).
Print Assumptions crossed_iff_other_function.

(* ---- findings of the first round, now fixed in /repo (fixes eval-under-method, eval-named-function-expression).
        `…_old` is the analyzer as it was; the witnesses stay as documentation, and the repaired model handles them. ---- *)

(* function f(){ let x; ({ m(){ eval("x") } }) }      names: f = 2, x = 3
   before the fix contains(.., DirectEval) did not look into method definitions: f was not flagged, x stayed a
   register, yet the eval code names it. *)
Definition w_method : list node :=
  [NFunDecl 2%N false [] [NLex false [NDeclr (NPat true [3%N] []) []];
                          NCtl [NOp [NMethod false [] [] [NCtl [NCall (NId n_eval) [NOp []]] []]]] []]].

Theorem eval_under_method_refuted_old :
  exists stmts : list node,
    honest (fst (collect_script_old false stmts)) = false /\
    eval_reach_ok (snd (collect_script_old false stmts)) (analyze_old false stmts) (fst (collect_script_old false stmts)) = false.
Proof. exists w_method. vm_compute. split; reflexivity. Qed.
Check eval_under_method_refuted_old :
  exists stmts : list node,
    honest (fst (collect_script_old false stmts)) = false /\
    eval_reach_ok (snd (collect_script_old false stmts)) (analyze_old false stmts) (fst (collect_script_old false stmts)) = false.
Print Assumptions eval_under_method_refuted_old.

(* (function fact(){ eval("fact") })      name: fact = 2
   before the fix the flags were truthful, but the name scope of a function expression was not among the scopes
   escaped for a direct eval. *)
Definition w_named : list node :=
  [NCtl [NFun (Some 2%N) false [] [NCtl [NCall (NId n_eval) [NOp []]] []]] []].

Theorem eval_named_function_expression_refuted_old :
  exists stmts : list node,
    honest (fst (collect_script_old false stmts)) = true /\
    eval_reach_ok (snd (collect_script_old false stmts)) (analyze_old false stmts) (fst (collect_script_old false stmts)) = false.
Proof. exists w_named. vm_compute. split; reflexivity. Qed.
Check eval_named_function_expression_refuted_old :
  exists stmts : list node,
    honest (fst (collect_script_old false stmts)) = true /\
    eval_reach_ok (snd (collect_script_old false stmts)) (analyze_old false stmts) (fst (collect_script_old false stmts)) = false.
Print Assumptions eval_named_function_expression_refuted_old.

(* the code that exists now: on both witnesses the flags are truthful and nothing nameable stays a register *)
Example eval_witnesses_repaired :
  honest (fst (collect_script false w_method)) = true /\
  eval_reach_ok (snd (collect_script false w_method)) (analyze false w_method) (fst (collect_script false w_method)) = true /\
  honest (fst (collect_script false w_named)) = true /\
  eval_reach_ok (snd (collect_script false w_named)) (analyze false w_named) (fst (collect_script false w_named)) = true.
Proof. vm_compute. repeat split; reflexivity. Qed.

(* ---- the hypotheses are satisfiable / the definitions say what they should on small programs ---- *)

(* function f(){ let x; return () => x }    f = 2, x = 3: the arrow's x crosses a border, x escapes *)
Definition ex_capture : list node :=
  [NFunDecl 2%N false [] [NLex false [NDeclr (NPat true [3%N] []) []]; NCtl [NArrow false [] [NCtl [NId 3%N] []]] []]].
Example capture_escapes :
  let '(k, T0) := collect_script false ex_capture in
  In (3%N, 3, false) (occs k 0 false false) /\
  resolve (length T0) T0 3 3%N false = Some (2, true) /\
  escapes (analyze false ex_capture) 2 3%N = true.
Proof. vm_compute. repeat split; auto. Qed.

(* function f(){ let x; x }: the only access is in f itself, x is local (a register) *)
Definition ex_local : list node :=
  [NFunDecl 2%N false [] [NLex false [NDeclr (NPat true [3%N] []) []]; NCtl [NId 3%N] []]].
Example local_stays_local : local (analyze false ex_local) 2 3%N = true.
Proof. vm_compute. reflexivity. Qed.

(* function f(){ let x; { eval("x") } }: truthful flags, and x escapes *)
Definition ex_eval : list node :=
  [NFunDecl 2%N false [] [NLex false [NDeclr (NPat true [3%N] []) []]; NBlock [NCtl [NCall (NId n_eval) [NOp []]] []]]].
Example eval_hypotheses_satisfiable :
  let '(k, T0) := collect_script false ex_eval in
  honest k = true /\ In 2 (ev_scopes k) /\ all_esc (analyze false ex_eval) 2 = true /\ wf_table T0 = true.
Proof. vm_compute. repeat split; auto. Qed.
