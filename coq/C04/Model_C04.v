(* C04 — executable model of boa's scope analysis (core/ast/src/scope.rs, core/ast/src/scope_analyzer.rs).

   Scopes.  A `table` is the arena of all `Scope`s of one AST: index = `unique_id` (0 = global scope),
   every `Scope::new` appends one entry (ids are consumed even when the scope is dropped afterwards, as in
   block_declaration_instantiation).  A binding carries the five BindingFlags.

   Pass 1 (`col`, = BindingCollectorVisitor + the *_declaration_instantiation functions) walks the compact
   syntax `node`, creates the scopes and emits the scope-annotated skeleton `sk`: the only things pass 2 looks
   at (identifier occurrences, scope swaps, contains_direct_eval flags, FunctionScopes).
   Pass 2 (`an`, = BindingEscapeAnalyzer) walks the skeleton: access_binding / escape_all_bindings.
   `analyze` = pass 2 after pass 1 on a script, as `Script::analyze_scope` does (the third pass,
   optimize_scope_indices, only renumbers environment indices and is not modelled).

   Names are numbers; 0 is `arguments`, 1 is `eval`. *)
From Coq Require Import NArith List Bool Arith.
Import ListNotations.

Definition name := N.
Definition n_arguments : name := 0%N.
Definition n_eval : name := 1%N.

(* ------------------------------------------------------------------------------------------------ *)
(* scope.rs *)

Record binding := mkB {
  b_name : name;
  b_mut : bool;      (* MUTABLE  1<<0 *)
  b_lex : bool;      (* LEX      1<<1 *)
  b_strict : bool;   (* STRICT   1<<2 *)
  b_esc : bool;      (* ESCAPES  1<<3 *)
  b_acc : bool       (* ACCESSED 1<<4 *)
}.

Record scope := mkS {
  s_outer : option nat;
  s_fun : bool;
  s_binds : list binding
}.

Definition table := list scope.

Fixpoint upd {A : Type} (l : list A) (i : nat) (f : A -> A) : list A :=
  match l, i with
  | [], _ => []
  | a :: r, O => f a :: r
  | a :: r, S j => a :: upd r j f
  end.

Definition has_binding (x : name) (bs : list binding) : bool :=
  existsb (fun b => N.eqb (b_name b) x) bs.

Definition set_esc (b : binding) : binding :=
  mkB (b_name b) (b_mut b) (b_lex b) (b_strict b) true (b_acc b).

(* flags.insert(ACCESSED); if crossed || eval_or_with { flags.insert(ESCAPES) } *)
Definition set_acc (e : bool) (b : binding) : binding :=
  mkB (b_name b) (b_mut b) (b_lex b) (b_strict b) (b_esc b || e) true.

(* iter_mut().find(|b| &b.name == name): the first binding with that name *)
Fixpoint mark (x : name) (e : bool) (bs : list binding) : list binding :=
  match bs with
  | [] => []
  | b :: r => if N.eqb (b_name b) x then set_acc e b :: r else b :: mark x e r
  end.

Definition with_binds (f : list binding -> list binding) (s : scope) : scope :=
  mkS (s_outer s) (s_fun s) (f (s_binds s)).

(* Scope::escape_all_bindings *)
Definition escape_all (T : table) (i : nat) : table := upd T i (with_binds (map set_esc)).

(* Scope::access_binding: the loop over `outer`, with the number of scopes as fuel (outer pointers of a
   table built by `Scope::new` strictly decrease, see wf_table, so the fuel never runs out). *)
Fixpoint access (fuel : nat) (T : table) (cur : nat) (x : name) (ew crossed : bool) : table :=
  match fuel with
  | O => T
  | S fuel' =>
      match nth_error T cur with
      | None => T
      | Some s =>
          if has_binding x (s_binds s) then upd T cur (with_binds (mark x (crossed || ew)))
          else match s_outer s with
               | Some o => access fuel' T o x ew (crossed || s_fun s)
               | None => T
               end
      end
  end.

Definition access_binding (T : table) (cur : nat) (x : name) (ew : bool) : table :=
  access (length T) T cur x ew false.

(* Scope::new(parent, function) *)
Definition new_scope (T : table) (parent : nat) (fn : bool) : table * nat :=
  (T ++ [mkS (Some parent) fn []], length T).

Definition is_global (T : table) (i : nat) : bool :=
  match nth_error T i with Some s => match s_outer s with None => true | Some _ => false end | None => false end.

Definition scope_has (T : table) (i : nat) (x : name) : bool :=
  match nth_error T i with Some s => has_binding x (s_binds s) | None => false end.

Definition num_bindings (T : table) (i : nat) : nat :=
  match nth_error T i with Some s => length (s_binds s) | None => O end.

(* Scope::create_mutable_binding(name, function_scope) *)
Definition create_mutable (T : table) (i : nat) (x : name) (function_scope : bool) : table :=
  if scope_has T i x then T
  else upd T i (with_binds (fun bs => bs ++ [mkB x true (negb function_scope) false (is_global T i) false])).

(* Scope::create_immutable_binding(name, strict) *)
Definition create_immutable (T : table) (i : nat) (x : name) (strict : bool) : table :=
  if scope_has T i x then T
  else upd T i (with_binds (fun bs => bs ++ [mkB x false true strict (is_global T i) false])).

(* FunctionScopes *)
Record fscopes := mkFS {
  fs_fun : nat;
  fs_peval : option nat;     (* parameters_eval_scope *)
  fs_par : option nat;       (* parameters_scope *)
  fs_lex : option nat;       (* lexical_scope *)
  fs_mapped : bool           (* mapped_arguments_object *)
}.

Definition parameter_scope (fs : fscopes) : nat :=
  match fs_peval fs with Some s => s | None => fs_fun fs end.

Definition body_scope (fs : fscopes) : nat :=
  match fs_lex fs with
  | Some s => s
  | None => match fs_par fs with
            | Some s => s
            | None => match fs_peval fs with Some s => s | None => fs_fun fs end
            end
  end.

Definition opt_list {A : Type} (o : option A) : list A := match o with Some a => [a] | None => [] end.

Definition fs_all (fs : fscopes) : list nat :=
  fs_fun fs :: opt_list (fs_peval fs) ++ opt_list (fs_par fs) ++ opt_list (fs_lex fs).

(* FunctionScopes::escape_all_bindings *)
Definition escape_all_fs (T : table) (fs : fscopes) : table := fold_left escape_all (fs_all fs) T.

Definition first_is_accessed_arguments (T : table) (i : nat) : bool :=
  match nth_error T i with
  | Some s => match s_binds s with b :: _ => N.eqb (b_name b) n_arguments && b_acc b | [] => false end
  | None => false
  end.

(* FunctionScopes::arguments_object_accessed *)
Definition arguments_object_accessed (T : table) (fs : fscopes) : bool :=
  first_is_accessed_arguments T (fs_fun fs)
  || match fs_peval fs with Some s => first_is_accessed_arguments T s | None => false end.

(* ------------------------------------------------------------------------------------------------ *)
(* The scope-annotated skeleton: what BindingEscapeAnalyzer sees of the AST. *)

Inductive sk :=
| KId (x : name)                                   (* any Identifier node: reference, binding identifier, assignment/update target *)
| KEval (args : list sk)                           (* a direct eval call site `eval(args)` (the callee identifier is visited too) *)
| KSeq (ks : list sk)                              (* a node without scope of its own *)
| KScope (always : bool) (sid : option nat) (cde : bool) (ks : list sk)
    (* Block / Switch cases / Catch / ForLoop (always = true: direct_eval |= cde even without a scope)
       and the two scopes of ForIn / ForOf (always = false: direct_eval only touched when the scope exists) *)
| KWith (sid : nat) (obj : sk) (body : sk)
| KFun (fs : fscopes) (cde : bool) (pnames : list name) (params : list sk) (body : list sk)   (* visit_function_like *)
| KNamed (nsid : nat) (cde : bool) (k : sk)
    (* a named function / generator / async function expression: escape_name_scope(name_scope, contains_direct_eval)
       runs before visit_function_like (k is the KFun) *)
| KClass (nsid : option nat) (ks : list sk)        (* class declaration / expression: name scope escaped unconditionally *)
| KSwap (sid : nat) (ks : list sk).                (* class field initializer: plain scope swap *)

Definition seq_fold (f : sk -> table -> table) (ks : list sk) (T : table) : table :=
  fold_left (fun T k => f k T) ks T.

(* BindingEscapeAnalyzer { scope: cur, direct_eval: de, with: w } *)
Fixpoint an (k : sk) (cur : nat) (de w : bool) (T : table) {struct k} : table :=
  match k with
  | KId x => access_binding T cur x (de || w)
  | KEval args =>
      let T1 := access_binding T cur n_eval (de || w) in
      (fix go (l : list sk) (T : table) : table :=
         match l with [] => T | a :: r => go r (an a cur de w T) end) args T1
  | KSeq ks =>
      (fix go (l : list sk) (T : table) : table :=
         match l with [] => T | a :: r => go r (an a cur de w T) end) ks T
  | KScope always sid cde ks =>
      let de' := match sid with
                 | Some _ => cde || de
                 | None => if always then cde || de else de
                 end in
      let T1 := match sid with
                | Some s => if de' then escape_all T s else T
                | None => T
                end in
      let cur' := match sid with Some s => s | None => cur end in
      (fix go (l : list sk) (T : table) : table :=
         match l with [] => T | a :: r => go r (an a cur' de' w T) end) ks T1
  | KWith sid obj body =>
      (* self.with = true; if direct_eval { node.scope.escape_all_bindings() }; expression; swap; statement *)
      let T1 := if de then escape_all T sid else T in
      let T2 := an obj cur de true T1 in
      an body sid de true T2
  | KFun fs cde pnames params body =>
      let de' := cde || de in
      let T1 := if de' then escape_all_fs T fs else T in
      let T2 := (fix go (l : list sk) (T : table) : table :=
                   match l with [] => T | a :: r => go r (an a (parameter_scope fs) de' w T) end) params T1 in
      let T3 := (fix go (l : list sk) (T : table) : table :=
                   match l with [] => T | a :: r => go r (an a (body_scope fs) de' w T) end) body T2 in
      if arguments_object_accessed T3 fs && fs_mapped fs
      then fold_left (fun T x => access_binding T (parameter_scope fs) x true) pnames T3
      else T3
  | KNamed nsid cde k =>
      (* if let Some(name_scope) = name_scope && (self.direct_eval || contains_direct_eval) { escape_all_bindings } *)
      an k cur de w (if de || cde then escape_all T nsid else T)
  | KClass nsid ks =>
      let T1 := match nsid with Some s => escape_all T s | None => T end in
      let cur' := match nsid with Some s => s | None => cur end in
      (fix go (l : list sk) (T : table) : table :=
         match l with [] => T | a :: r => go r (an a cur' de w T) end) ks T1
  | KSwap sid ks =>
      (fix go (l : list sk) (T : table) : table :=
         match l with [] => T | a :: r => go r (an a sid de w T) end) ks T
  end.

Definition an_list (ks : list sk) (cur : nat) (de w : bool) (T : table) : table :=
  fold_left (fun T k => an k cur de w T) ks T.

(* ------------------------------------------------------------------------------------------------ *)
(* Specification side (not executed by the analysis): where identifiers occur, static resolution. *)

(* every identifier occurrence of the skeleton with the scope it is compiled in and whether it is
   under `with` or under code flagged as containing a direct eval *)
Fixpoint occs (k : sk) (cur : nat) (de w : bool) {struct k} : list (name * nat * bool) :=
  match k with
  | KId x => [(x, cur, de || w)]
  | KEval args => (n_eval, cur, de || w) :: flat_map (fun a => occs a cur de w) args
  | KSeq ks => flat_map (fun a => occs a cur de w) ks
  | KScope always sid cde ks =>
      let de' := match sid with Some _ => cde || de | None => if always then cde || de else de end in
      let cur' := match sid with Some s => s | None => cur end in
      flat_map (fun a => occs a cur' de' w) ks
  | KWith sid obj body => occs obj cur de true ++ occs body sid de true
  | KFun fs cde pnames params body =>
      flat_map (fun a => occs a (parameter_scope fs) (cde || de) w) params
      ++ flat_map (fun a => occs a (body_scope fs) (cde || de) w) body
  | KNamed _ _ k => occs k cur de w
  | KClass nsid ks =>
      let cur' := match nsid with Some s => s | None => cur end in
      flat_map (fun a => occs a cur' de w) ks
  | KSwap sid ks => flat_map (fun a => occs a sid de w) ks
  end.

(* static resolution of a name from a scope (Scope::get_identifier_reference): the scope that holds the
   binding and whether a function border lies between *)
Fixpoint resolve (fuel : nat) (T : table) (cur : nat) (x : name) (crossed : bool) : option (nat * bool) :=
  match fuel with
  | O => None
  | S fuel' =>
      match nth_error T cur with
      | None => None
      | Some s =>
          if has_binding x (s_binds s) then Some (cur, crossed)
          else match s_outer s with
               | Some o => resolve fuel' T o x (crossed || s_fun s)
               | None => None
               end
      end
  end.

(* the function scope a scope belongs to: nearest scope on the outer chain (inclusive) with function = true *)
Fixpoint fun_of (fuel : nat) (T : table) (cur : nat) : option nat :=
  match fuel with
  | O => None
  | S fuel' =>
      match nth_error T cur with
      | None => None
      | Some s => if s_fun s then Some cur
                  else match s_outer s with Some o => fun_of fuel' T o | None => None end
      end
  end.

Definition find_binding (T : table) (i : nat) (x : name) : option binding :=
  match nth_error T i with
  | Some s => find (fun b => N.eqb (b_name b) x) (s_binds s)
  | None => None
  end.

Definition escapes (T : table) (i : nat) (x : name) : bool :=
  match find_binding T i x with Some b => b_esc b | None => false end.

(* IdentifierReference::local(): locator.scope > 0 (a declarative scope) && !escapes — a frame register *)
Definition local (T : table) (i : nat) (x : name) : bool :=
  match find_binding T i x with Some b => negb (b_esc b) | None => false end.

Definition all_esc (T : table) (i : nat) : bool :=
  match nth_error T i with Some s => forallb b_esc (s_binds s) | None => true end.

(* outer pointers strictly decrease: what Scope::new guarantees *)
Definition wf_scope (i : nat) (s : scope) : bool :=
  match s_outer s with Some o => Nat.ltb o i | None => true end.
Fixpoint wf_from (i : nat) (T : table) : bool :=
  match T with [] => true | s :: r => wf_scope i s && wf_from (S i) r end.
Definition wf_table (T : table) : bool := wf_from O T.

(* direct eval call sites really contained in a skeleton *)
Fixpoint has_eval (k : sk) : bool :=
  match k with
  | KId _ => false
  | KEval _ => true
  | KSeq ks => existsb has_eval ks
  | KScope _ _ _ ks => existsb has_eval ks
  | KWith _ o b => has_eval o || has_eval b
  | KFun _ _ _ ps b => existsb has_eval ps || existsb has_eval b
  | KNamed _ _ k => has_eval k
  | KClass _ ks => existsb has_eval ks
  | KSwap _ ks => existsb has_eval ks
  end.

(* the contains_direct_eval flags tell the truth: a flag-bearing node that really contains a direct eval
   call site is flagged *)
Fixpoint honest (k : sk) : bool :=
  match k with
  | KId _ => true
  | KEval args => forallb honest args
  | KSeq ks => forallb honest ks
  | KScope always sid cde ks =>
      (match sid with Some _ => implb (existsb has_eval ks) cde | None => true end) && forallb honest ks
  | KWith _ o b => honest o && honest b
  | KFun _ cde _ ps b => implb (existsb has_eval ps || existsb has_eval b) cde && forallb honest ps && forallb honest b
  | KNamed _ cde k => implb (has_eval k) cde && honest k
  | KClass _ ks => forallb honest ks
  | KSwap _ ks => forallb honest ks
  end.

(* binding-holding scopes entered by a node that encloses a direct eval call site: every binding in them
   can be reached by name from the eval code *)
Fixpoint ev_scopes (k : sk) : list nat :=
  match k with
  | KId _ => []
  | KEval args => flat_map ev_scopes args
  | KSeq ks => flat_map ev_scopes ks
  | KScope _ sid _ ks => (if existsb has_eval ks then opt_list sid else []) ++ flat_map ev_scopes ks
  | KWith _ o b => ev_scopes o ++ ev_scopes b
  | KFun fs _ _ ps b =>
      (if existsb has_eval ps || existsb has_eval b then fs_all fs else [])
      ++ flat_map ev_scopes ps ++ flat_map ev_scopes b
  | KNamed nsid _ k => (if has_eval k then [nsid] else []) ++ ev_scopes k
  | KClass nsid ks => (if existsb has_eval ks then opt_list nsid else []) ++ flat_map ev_scopes ks
  | KSwap _ ks => flat_map ev_scopes ks
  end.

(* ------------------------------------------------------------------------------------------------ *)
(* The compact syntax (one type; children that must be of a particular sort are documented, a child of
   another sort is treated as an expression). *)

Inductive node :=
(* expressions *)
| NId (x : name)
| NThis
| NOp (ks : list node)                 (* literal, operator, member access, assignment, update, array/object literal data
                                          properties, template, new, non-eval call, spread, yield, await: the children *)
| NCall (f : node) (args : list node)  (* call; a direct eval iff f = NId n_eval *)
| NFun (fname : option name) (strict : bool) (params : list node) (body : list node)
                                       (* function / generator / async function expression; fname = binding identifier *)
| NArrow (strict : bool) (params : list node) (body : list node)
| NMethod (strict : bool) (key : list node) (params : list node) (body : list node)   (* object-literal method / getter / setter *)
| NClass (cname : option name) (heritage : list node) (ctor : list node) (elems : list node)   (* class expression *)
| NCMethod (params : list node) (body : list node)                 (* class method / accessor (key is not visited by boa) *)
| NField (key : list node) (init : list node)                      (* class field, static or not *)
| NStaticBlock (body : list node)
(* binding patterns *)
| NPat (simple : bool) (bound : list name) (inits : list node)     (* simple: a BindingIdentifier; inits: defaults / computed keys *)
| NParam (p : node) (init : list node) (rest : bool)
(* statements *)
| NVar (ds : list node)                                            (* ds : NDeclr *)
| NLex (is_const : bool) (ds : list node)
| NDeclr (p : node) (init : list node)
| NFunDecl (fname : name) (strict : bool) (params : list node) (body : list node)
| NClassDecl (cname : name) (heritage : list node) (ctor : list node) (elems : list node)
| NBlock (ks : list node)
| NCtl (es : list node) (ss : list node)   (* expression statement, return, throw, if, while, do-while, labelled, try (its block,
                                              NCatch and finally block are the ss): no scope of its own *)
| NFor (init : list node) (cond : list node) (upd : list node) (body : node)   (* init: [] | [expr] | [NVar] | [NLex] *)
| NForIn (head : node) (e : node) (body : node)                    (* for-in / for-of; head: NVar | NLex | assignment target *)
| NSwitch (d : node) (cases : list node)                           (* cases : NCase *)
| NCase (test : list node) (body : list node)
| NCatch (param : list node) (blk : list node)
| NWith (obj : node) (body : node).

(* --- operations/mod.rs -------------------------------------------------------------------------- *)

Definition bound_names (n : node) : list name :=
  match n with
  | NPat _ b _ => b
  | _ => []
  end.

Definition declr_names (d : node) : list name :=
  match d with
  | NDeclr p _ => bound_names p
  | _ => []
  end.

Definition param_names (p : node) : list name :=
  match p with
  | NParam q _ _ => bound_names q
  | _ => []
  end.

Definition memN (x : name) (l : list name) : bool := existsb (N.eqb x) l.

Fixpoint dedup_acc (acc l : list name) : list name :=
  match l with
  | [] => acc
  | x :: r => if memN x acc then dedup_acc acc r else dedup_acc (acc ++ [x]) r
  end.
Definition dedup (l : list name) : list name := dedup_acc [] l.

(* VarDeclaredNames of a statement (VarDeclaredNamesVisitor::visit_statement and friends) *)
Fixpoint var_names (n : node) : list name :=
  match n with
  | NVar ds => flat_map declr_names ds
  | NBlock ks => flat_map var_names ks
  | NCtl _ ss => flat_map var_names ss
  | NFor init _ _ body =>
      (match init with [NVar ds] => flat_map declr_names ds | _ => [] end) ++ var_names body
  | NForIn head _ body =>
      (match head with NVar ds => flat_map declr_names ds | _ => [] end) ++ var_names body
  | NSwitch _ cases => flat_map var_names cases
  | NCase _ body => flat_map var_names body
  | NCatch _ blk => flat_map var_names blk
  | NWith _ body => var_names body
  | _ => []
  end.

(* top_level_vars: function declarations at the top level count as vars *)
Definition top_level_vars (body : list node) : list name :=
  flat_map (fun s => match s with
                     | NFunDecl f _ _ _ => [f]
                     | NClassDecl _ _ _ _ | NLex _ _ => []
                     | _ => var_names s
                     end) body.

Definition top_level_function_names (body : list node) : list name :=
  flat_map (fun s => match s with NFunDecl f _ _ _ => [f] | _ => [] end) body.

(* a lexically scoped declaration: (is_const, names) *)
Definition lex_decl_of (top : bool) (s : node) : list (bool * list name) :=
  match s with
  | NLex c ds => [(c, flat_map declr_names ds)]
  | NClassDecl c _ _ _ => [(false, [c])]
  | NFunDecl f _ _ _ => if top then [] else [(false, [f])]
  | _ => []
  end.

Definition top_level_lexical_names (body : list node) : list name :=
  flat_map (fun s => flat_map snd (lex_decl_of true s)) body.

(* contains(node, ContainsSymbol::DirectEval).
   old = true is the analyzer before the fixes `eval-under-method` / `eval-named-function-expression` (kept because
   the two refutation witnesses document those findings): the ContainsVisitor did not look into object-literal
   methods, class methods, class field initializers and static blocks.
   old = false is the code that exists now: a method counts through its own contains_direct_eval flag (an
   object-literal method after its computed key), a field through key and initializer, a static block through its
   statements. *)
(* visit_call: `Expression::Identifier(ident) = node.function().flatten()` with ident == eval *)
Definition is_direct_eval (f : node) : bool :=
  match f with NId x => N.eqb x n_eval | _ => false end.

Fixpoint ceg (old : bool) (n : node) : bool :=
  let ce := ceg old in
  match n with
  | NId _ | NThis => false
  | NOp ks => existsb ce ks
  | NCall f args => if is_direct_eval f then true else ce f || existsb ce args
  | NFun _ _ ps b => existsb ce ps || existsb ce b
  | NArrow _ ps b => existsb ce ps || existsb ce b
  | NMethod _ key ps b => if old then false else existsb ce key || (existsb ce ps || existsb ce b)
  | NClass _ h c es => existsb ce h || existsb ce c || existsb ce es
  | NCMethod ps b => if old then false else existsb ce ps || existsb ce b
  | NField key init => existsb ce key || (if old then false else existsb ce init)
  | NStaticBlock b => if old then false else existsb ce b
  | NPat _ _ inits => existsb ce inits
  | NParam p init _ => ce p || existsb ce init
  | NVar ds => existsb ce ds
  | NLex _ ds => existsb ce ds
  | NDeclr p init => ce p || existsb ce init
  | NFunDecl _ _ ps b => existsb ce ps || existsb ce b
  | NClassDecl _ h c es => existsb ce h || existsb ce c || existsb ce es
  | NBlock ks => existsb ce ks
  | NCtl es ss => existsb ce es || existsb ce ss
  | NFor i c u b => existsb ce i || existsb ce c || existsb ce u || ce b
  | NForIn h e b => ce h || ce e || ce b
  | NSwitch d cs => ce d || existsb ce cs
  | NCase t b => existsb ce t || existsb ce b
  | NCatch p b => existsb ce p || existsb ce b
  | NWith o b => ce o || ce b
  end.
Definition ce : node -> bool := ceg false.
Definition ce_old : node -> bool := ceg true.

(* --- the *_declaration_instantiation functions ---------------------------------------------------- *)

Definition declare_lex (T : table) (i : nat) (d : bool * list name) : table :=
  let '(c, names) := d in
  fold_left (fun T x => if c then create_immutable T i x true else create_mutable T i x false) names T.

(* block_declaration_instantiation: Scope::new always; Some(scope) iff it got bindings *)
Definition block_decl_inst (T : table) (cur : nat) (stmts : list node) : table * option nat :=
  let '(T1, s) := new_scope T cur false in
  let T2 := fold_left (fun T d => declare_lex T s d) (flat_map (lex_decl_of false) stmts) T1 in
  (T2, if Nat.ltb O (num_bindings T2 s) then Some s else None).

(* global_declaration_instantiation (the lexical declarations of the script; vars and functions live on
   the global object and get no binding) *)
Definition global_decl_inst (T : table) (stmts : list node) : table :=
  fold_left (fun T d => declare_lex T O d) (flat_map (lex_decl_of true) stmts) T.

Definition is_simple_param (p : node) : bool :=
  match p with
  | NParam (NPat true _ _) [] false => true
  | _ => false
  end.

Definition param_has_init (p : node) : bool :=
  match p with
  | NParam _ (_ :: _) _ => true
  | _ => false
  end.

(* function_declaration_instantiation (without the annex-b block) *)
Definition fdi (T : table) (params body : list node) (arrow strict : bool) (function_scope : nat)
  : table * fscopes :=
  let parameter_names := flat_map param_names params in
  let has_pe := existsb param_has_init params in
  let simple := forallb is_simple_param params in
  let var_ns := dedup (top_level_vars body) in
  let lexical_names := top_level_lexical_names body in
  let function_names := top_level_function_names body in
  let aon :=
    if arrow || memN n_arguments parameter_names then false
    else if negb has_pe then negb (memN n_arguments function_names || memN n_arguments lexical_names)
    else true in
  (* 19/20 *)
  let '(T1, env, peval) :=
    if strict || negb has_pe then (T, function_scope, None)
    else let '(T', s) := new_scope T function_scope false in (T', s, Some s) in
  (* 22 (moved up) *)
  let T2 := if aon then (if strict then create_immutable T1 env n_arguments false
                         else create_mutable T1 env n_arguments false) else T1 in
  (* 21 *)
  let '(T3, mapped) :=
    fold_left (fun '(T, m) x =>
                 if scope_has T env x then (T, m)
                 else (create_mutable T env x false, m || (aon && negb strict && simple)))
              parameter_names (T2, false) in
  let parameter_bindings := if aon then parameter_names ++ [n_arguments] else parameter_names in
  (* 27/28 *)
  let '(T4, var_env, par) :=
    if has_pe then
      let '(T', s) := new_scope T3 env false in
      (fold_left (fun T x => create_mutable T s x false) var_ns T', s, Some s)
    else
      (fold_left (fun T x => if memN x parameter_bindings then T else create_mutable T env x true) var_ns T3,
       env, None) in
  (* 30/31 *)
  let '(T5, lex_env, lex) :=
    if strict then (T4, var_env, None)
    else let '(T', s) := new_scope T4 var_env false in (T', s, Some s) in
  (* 34 *)
  let T6 := fold_left (fun T d => declare_lex T lex_env d) (flat_map (lex_decl_of true) body) T5 in
  let lex' := match lex with
              | Some s => if Nat.eqb (num_bindings T6 s) O then None else Some s
              | None => None
              end in
  (T6, mkFS function_scope peval par lex' mapped).

(* --- BindingCollectorVisitor ---------------------------------------------------------------------- *)

Definition lex_for_names (ds : list node) : list name := flat_map declr_names ds.

Fixpoint colg (old : bool) (n : node) (cur : nat) (strict : bool) (T : table) {struct n} : sk * table :=
  let col := colg old in
  let ce := ceg old in
  let col_list :=
    fix go (l : list node) (cur : nat) (strict : bool) (T : table) {struct l} : list sk * table :=
      match l with
      | [] => ([], T)
      | a :: r => let '(ka, T1) := col a cur strict T in
                  let '(kr, T2) := go r cur strict T1 in (ka :: kr, T2)
      end in
  (* visit_function_like (name = None): scopes, parameters, body *)
  let fun_like := fun (fparent : nat) (arrow fstrict : bool) (params body : list node) (cde : bool) (T : table) =>
      let strict' := strict || fstrict in
      let '(T1, fscope) := new_scope T fparent true in
      let '(T2, fs) := fdi T1 params body arrow strict' fscope in
      (* `let strict = self.strict || strict;` is a local of visit_function_like: the visitor's own
         `strict` field stays the script-level flag while parameters and body are visited *)
      let '(kp, T3) := col_list params (parameter_scope fs) strict T2 in
      let '(kb, T4) := col_list body (body_scope fs) strict T3 in
      (KFun fs cde (flat_map param_names params) kp kb, T4) in
  match n with
  | NId x => (KId x, T)
  | NThis => (KSeq [], T)
  | NOp ks => let '(k, T1) := col_list ks cur strict T in (KSeq k, T1)
  | NCall f args =>
      if is_direct_eval f
      then let '(ka, T1) := col_list args cur strict T in (KEval ka, T1)
      else let '(kf, T0) := col f cur strict T in
           let '(ka, T1) := col_list args cur strict T0 in (KSeq (kf :: ka), T1)
  | NFun fname fstrict params body =>
      let cde := existsb ce params || existsb ce body in
      match fname with
      | Some x =>
          (* name scope with the immutable function name, then the function scope inside it *)
          let '(T1, ns) := new_scope T cur false in
          let T2 := create_immutable T1 ns x (strict || fstrict) in
          let '(kf, T3) := fun_like ns false fstrict params body cde T2 in
          (* (before the fix the escape analyzer never touched the name scope) *)
          (if old then kf else KNamed ns cde kf, T3)
      | None => fun_like cur false fstrict params body cde T
      end
  | NArrow fstrict params body =>
      fun_like cur true fstrict params body (existsb ce params || existsb ce body) T
  | NMethod fstrict key params body =>
      let '(kk, T1) := col_list key cur strict T in
      let '(kf, T2) := fun_like cur false fstrict params body (existsb ce params || existsb ce body) T1 in
      (KSeq (kk ++ [kf]), T2)
  | NClass cname heritage ctor elems =>
      let '(T1, cur', nsid) :=
        match cname with
        | Some x => let '(T', s) := new_scope T cur false in (create_immutable T' s x true, s, Some s)
        | None => (T, cur, None)
        end in
      let '(kh, T2) := col_list heritage cur' strict T1 in
      let '(kc, T3) := col_list ctor cur' strict T2 in
      let '(ke, T4) := col_list elems cur' strict T3 in
      (KClass nsid (kh ++ kc ++ ke), T4)
  | NClassDecl cname heritage ctor elems =>
      let '(T', s) := new_scope T cur false in
      let T1 := create_immutable T' s cname true in
      let '(kh, T2) := col_list heritage s strict T1 in
      let '(kc, T3) := col_list ctor s strict T2 in
      let '(ke, T4) := col_list elems s strict T3 in
      (KClass (Some s) (kh ++ kc ++ ke), T4)
  | NCMethod params body =>
      (* body.strict() is the directive prologue only: class code is not marked strict for the analysis *)
      fun_like cur false false params body (existsb ce params || existsb ce body) T
  | NField key init =>
      let '(kk, T1) := col_list key cur strict T in
      let '(T2, s) := new_scope T1 cur true in
      let '(ki, T3) := col_list init s strict T2 in
      (KSeq (kk ++ [KSwap s ki]), T3)
  | NStaticBlock body =>
      fun_like cur false false [] body (existsb ce body) T
  | NPat _ bound inits =>
      let '(ki, T1) := col_list inits cur strict T in (KSeq (map KId bound ++ ki), T1)
  | NParam p init _ =>
      let '(kp, T1) := col p cur strict T in
      let '(ki, T2) := col_list init cur strict T1 in (KSeq (kp :: ki), T2)
  | NVar ds => let '(k, T1) := col_list ds cur strict T in (KSeq k, T1)
  | NLex _ ds => let '(k, T1) := col_list ds cur strict T in (KSeq k, T1)
  | NDeclr p init =>
      let '(kp, T1) := col p cur strict T in
      let '(ki, T2) := col_list init cur strict T1 in (KSeq (kp :: ki), T2)
  | NFunDecl _ fstrict params body =>
      fun_like cur false fstrict params body (existsb ce params || existsb ce body) T
  | NBlock ks =>
      let '(T1, sid) := block_decl_inst T cur ks in
      let cur' := match sid with Some s => s | None => cur end in
      let '(k, T2) := col_list ks cur' strict T1 in
      (KScope true sid (existsb ce ks) k, T2)
  | NCtl es ss =>
      let '(ke, T1) := col_list es cur strict T in
      let '(ks, T2) := col_list ss cur strict T1 in (KSeq (ke ++ ks), T2)
  | NFor init cond upd body =>
      let '(T1, sid) :=
        match init with
        | [NLex c ds] =>
            let '(T', s) := new_scope T cur false in
            (declare_lex T' s (c, lex_for_names ds), Some s)
        | _ => (T, None)
        end in
      let cur' := match sid with Some s => s | None => cur end in
      let '(ki, T2) := col_list init cur' strict T1 in
      let '(kc, T3) := col_list cond cur' strict T2 in
      let '(ku, T4) := col_list upd cur' strict T3 in
      let '(kb, T5) := col body cur' strict T4 in
      (KScope true sid (ce body || existsb ce init || existsb ce cond || existsb ce upd) (ki ++ kc ++ ku ++ [kb]), T5)
  | NForIn head e body =>
      let lexnames := match head with NLex _ ds => lex_for_names ds | _ => [] end in
      (* the TDZ scope around the iterated expression *)
      let '(T1, tsid) :=
        match lexnames with
        | [] => (T, None)
        | _ => let '(T', s) := new_scope T cur false in
               (fold_left (fun T x => create_mutable T s x false) lexnames T', Some s)
        end in
      let '(ke, T2) := col e (match tsid with Some s => s | None => cur end) strict T1 in
      let '(T3, sid) :=
        match head with
        | NLex c ds => let '(T', s) := new_scope T2 cur false in (declare_lex T' s (c, lex_for_names ds), Some s)
        | _ => (T2, None)
        end in
      let cur' := match sid with Some s => s | None => cur end in
      let '(kh, T4) := col head cur' strict T3 in
      let '(kb, T5) := col body cur' strict T4 in
      (KSeq [KScope false tsid (ce e) [ke]; KScope false sid (ce head || ce body) [kh; kb]], T5)
  | NSwitch d cases =>
      let '(kd, T1) := col d cur strict T in
      let '(T2, sid) := block_decl_inst T1 cur (flat_map (fun c => match c with NCase _ b => b | _ => [] end) cases) in
      let cur' := match sid with Some s => s | None => cur end in
      let '(kc, T3) := col_list cases cur' strict T2 in
      (KSeq [kd; KScope true sid (existsb ce cases) kc], T3)
  | NCase test body =>
      let '(kt, T1) := col_list test cur strict T in
      let '(kb, T2) := col_list body cur strict T1 in (KSeq (kt ++ kb), T2)
  | NCatch param blk =>
      let '(T1, s) := new_scope T cur false in
      let T2 := fold_left (fun T x => create_mutable T s x false) (flat_map bound_names param) T1 in
      let '(kp, T3) := col_list param s strict T2 in
      (* visit_block_mut on the catch body *)
      let '(T4, bsid) := block_decl_inst T3 s blk in
      let cur' := match bsid with Some b => b | None => s end in
      let '(kb, T5) := col_list blk cur' strict T4 in
      (KScope true (Some s) (existsb ce blk || existsb ce param) (kp ++ [KScope true bsid (existsb ce blk) kb]), T5)
  | NWith obj body =>
      let '(ko, T1) := col obj cur strict T in
      let '(T2, s) := new_scope T1 cur false in
      let '(kb, T3) := col body s strict T2 in
      (KWith s ko kb, T3)
  end.

Definition col : node -> nat -> bool -> table -> sk * table := colg false.

Definition col_stmts_g (old : bool) (l : list node) (cur : nat) (strict : bool) (T : table) : list sk * table :=
  fold_left (fun '(ks, T) a => let '(k, T1) := colg old a cur strict T in (ks ++ [k], T1)) l ([], T).
Definition col_stmts := col_stmts_g false.

(* Scope::new_global() *)
Definition global_table : table := [mkS None true []].

(* Script::analyze_scope: collect_bindings then analyze_binding_escapes *)
Definition collect_script_g (old : bool) (strict : bool) (stmts : list node) : sk * table :=
  let T0 := global_decl_inst global_table stmts in
  let '(ks, T1) := col_stmts_g old stmts O strict T0 in
  (KSeq ks, T1).
Definition collect_script := collect_script_g false.
(* the analyzer as it was before the two eval fixes *)
Definition collect_script_old := collect_script_g true.

Definition analyze (strict : bool) (stmts : list node) : table :=
  let '(k, T) := collect_script strict stmts in an k O false false T.
Definition analyze_old (strict : bool) (stmts : list node) : table :=
  let '(k, T) := collect_script_old strict stmts in an k O false false T.

(* the scopes in which a direct eval call site is compiled: the eval code resolves names from there *)
Fixpoint sites (k : sk) (cur : nat) {struct k} : list nat :=
  match k with
  | KId _ => []
  | KEval args => cur :: flat_map (fun a => sites a cur) args
  | KSeq ks => flat_map (fun a => sites a cur) ks
  | KScope _ sid _ ks => flat_map (fun a => sites a (match sid with Some s => s | None => cur end)) ks
  | KWith sid o b => sites o cur ++ sites b sid
  | KFun fs _ _ ps b => flat_map (fun a => sites a (parameter_scope fs)) ps ++ flat_map (fun a => sites a (body_scope fs)) b
  | KNamed _ _ k => sites k cur
  | KClass nsid ks => flat_map (fun a => sites a (match nsid with Some s => s | None => cur end)) ks
  | KSwap sid ks => flat_map (fun a => sites a sid) ks
  end.

(* names a scope chain can see *)
Fixpoint chain_names (fuel : nat) (T : table) (cur : nat) : list name :=
  match fuel with
  | O => []
  | S f => match nth_error T cur with
           | None => []
           | Some s => map b_name (s_binds s) ++ match s_outer s with Some o => chain_names f T o | None => [] end
           end
  end.

(* every non-global binding that the code of a direct eval can name is kept in an environment *)
Definition eval_reach_ok (T0 T : table) (k : sk) : bool :=
  forallb (fun s =>
    forallb (fun x => match resolve (length T0) T0 s x false with
                      | Some (sb, _) => is_global T0 sb || escapes T sb x
                      | None => true
                      end) (chain_names (length T0) T0 s)) (sites k O).

(* what the correspondence driver prints *)
Record report := mkR {
  r_table : table;
  r_honest : bool;                  (* all contains_direct_eval flags truthful *)
  r_wf : bool;
  r_ev_ok : bool;                   (* every binding visible from a direct eval call site escapes *)
  r_occ_ok : bool;                  (* escape_sound's conclusion, re-checked on this program *)
  r_reach_ok : bool                 (* no register-resident binding can be named by the code of a direct eval *)
}.

Definition occ_ok (T0 T : table) (o : name * nat * bool) : bool :=
  let '(x, s, ew) := o in
  match resolve (length T0) T0 s x false with
  | Some (sb, crossed) => implb (crossed || ew) (escapes T sb x)
  | None => true
  end.

Definition run_report (strict : bool) (stmts : list node) : report :=
  let '(k, T0) := collect_script strict stmts in
  let T := an k O false false T0 in
  mkR T (honest k) (wf_table T0) (forallb (all_esc T) (ev_scopes k)) (forallb (occ_ok T0 T) (occs k O false false))
      (eval_reach_ok T0 T k).

