(* Extraction of the executable scope-analysis model for the correspondence driver (ocaml/C04).
   ExtrOcamlBasic only: nat, N, positive stay the extracted inductive datatypes.
   Output goes to ocaml/C04/_build/ (git-ignored; the directory is kept by its own .gitignore). *)
From Coq Require Import NArith List Extraction ExtrOcamlBasic.
From C04 Require Import Model_C04 Deep1_C04 Deep2_C04.
Extraction Language OCaml.
(* coqc runs with /verif/coq as working directory (Makefile and vlib alike) *)
Extraction "../ocaml/C04/_build/c04_model.ml" run_report sem_hyp snapshot_new postfix_code_new hoist_ok_new.
