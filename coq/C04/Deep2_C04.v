(* C04 deepening, part 2 — the operand shortcuts for register-resident locals as small models with a reference
   semantics each:
     (a) compile_expr_operand: the left operand of a binary operator is either the local's register itself (read
         when the instruction executes, i.e. after the right operand) or a copy taken before the right operand is
         evaluated (fix `binary-left-operand-snapshot`);
     (b) the lowering of postfix ++/-- on a local and the Inc/Dec instruction (fix `update-on-local`);
     (c) hoisting a `const` operand of a loop condition in front of the loop (fix `loop-hoist-const`).
   Each has a soundness theorem for the repaired rule and a refutation witness for the rule as it was. *)
From Coq Require Import ZArith List Bool Arith Lia.
Import ListNotations.
Local Open Scope Z_scope.

(* ---------------------------------------------------------------------------------------------- *)
(* (a) operands *)

Inductive ex :=
| Lit (n : Z)
| This
| Loc (x : nat)                 (* a non-escaping local: lives in register x *)
| Asg (x : nat) (e : ex)        (* x = e, x += e, x++ … : any expression that writes the local *)
| Bin (a b : ex)                (* arithmetic / bitwise / relational / in / instanceof operator, fused compare-branch *)
| Mem (o : ex)                  (* o.p, o?.p *)
| Idx (o k : ex)                (* o[k], o?.[k]: the computed key is ordinary code of the current function *)
| Seq (a b : ex)                (* two sub-expressions evaluated left to right: call f(x, y) = Seq (Seq f x) y, array and
                                   object literals, template literals, the comma operator, argument lists *)
| Cond (c a b : ex).            (* c ? a : b *)

Definition store := nat -> Z.
Definition upd (st : store) (x : nat) (v : Z) : store := fun y => if Nat.eqb y x then v else st y.

(* ECMA-262: sub-expressions left to right, then the operation (values are abstracted to integers, every operator to +) *)
Fixpoint ref (e : ex) (st : store) : Z * store :=
  match e with
  | Lit n => (n, st)
  | This => (0, st)
  | Loc x => (st x, st)
  | Asg x e => let '(v, st1) := ref e st in (v, upd st1 x v)
  | Bin a b => let '(va, s1) := ref a st in let '(vb, s2) := ref b s1 in (va + vb, s2)
  | Mem o => let '(vo, s1) := ref o st in (vo + 1, s1)
  | Idx o k => let '(vo, s1) := ref o st in let '(vk, s2) := ref k s1 in (vo + vk, s2)
  | Seq a b => let '(va, s1) := ref a st in let '(vb, s2) := ref b s1 in (va + vb, s2)
  | Cond c a b => let '(vc, s1) := ref c st in if Z.eqb vc 0 then ref b s1 else ref a s1
  end.

(* the compiled code: `snapshot a b` decides whether the left operand a of a binary operator is copied before b is
   evaluated; if it is a local and is not copied, the instruction reads the local's register after b has run *)
Fixpoint cmp (snapshot : ex -> ex -> bool) (e : ex) (st : store) : Z * store :=
  match e with
  | Lit n => (n, st)
  | This => (0, st)
  | Loc x => (st x, st)
  | Asg x e => let '(v, st1) := cmp snapshot e st in (v, upd st1 x v)
  | Bin a b =>
      match a with
      | Loc x =>
          if snapshot a b
          then let '(vb, s2) := cmp snapshot b st in (st x + vb, s2)
          else let '(vb, s2) := cmp snapshot b st in (s2 x + vb, s2)
      | _ => let '(va, s1) := cmp snapshot a st in let '(vb, s2) := cmp snapshot b s1 in (va + vb, s2)
      end
  | Mem o => let '(vo, s1) := cmp snapshot o st in (vo + 1, s1)
  | Idx o k => let '(vo, s1) := cmp snapshot o st in let '(vk, s2) := cmp snapshot k s1 in (vo + vk, s2)
  | Seq a b => let '(va, s1) := cmp snapshot a st in let '(vb, s2) := cmp snapshot b s1 in (va + vb, s2)
  | Cond c a b => let '(vc, s1) := cmp snapshot c st in if Z.eqb vc 0 then cmp snapshot b s1 else cmp snapshot a s1
  end.

(* can evaluating e assign the local x?  structurally over the whole language: targets, computed keys, arguments,
   both branches of a conditional *)
Fixpoint may_assign (x : nat) (e : ex) : bool :=
  match e with
  | Lit _ | This | Loc _ => false
  | Asg y e => Nat.eqb y x || may_assign x e
  | Bin a b | Idx a b | Seq a b => may_assign x a || may_assign x b
  | Mem o => may_assign x o
  | Cond c a b => may_assign x c || may_assign x a || may_assign x b
  end.

(* the repaired rule of compile_expr_operand_before: use the register directly only if the later operand is a
   literal, an identifier or `this` *)
Definition trivially_pure (e : ex) : bool :=
  match e with Lit _ | This | Loc _ => true | _ => false end.
Definition snapshot_new (a b : ex) : bool := negb (trivially_pure b).
(* before the fix: never a copy *)
Definition snapshot_old (a b : ex) : bool := false.
(* a tempting "fast path for i < a.length": also accept a property access whose target is harmless — and forget that
   the computed key is code too *)
Fixpoint harmless_target_only (e : ex) : bool :=
  match e with
  | Lit _ | This | Loc _ => true
  | Mem o => harmless_target_only o
  | Idx o _ => harmless_target_only o
  | _ => false
  end.
Definition snapshot_member_fastpath (a b : ex) : bool := negb (harmless_target_only b).

Lemma ref_frame : forall e x st, may_assign x e = false -> snd (ref e st) x = st x.
Proof.
  induction e; intros y st H; simpl in *; auto.
  - apply orb_false_iff in H. destruct H as [H1 H2].
    specialize (IHe y st H2). destruct (ref e st) as [v st1]. simpl in *.
    unfold upd. rewrite Nat.eqb_sym, H1. exact IHe.
  - apply orb_false_iff in H. destruct H as [H1 H2].
    specialize (IHe1 y st H1). destruct (ref e1 st) as [va s1]. simpl in *.
    specialize (IHe2 y s1 H2). destruct (ref e2 s1) as [vb s2]. simpl in *. congruence.
  - specialize (IHe y st H). destruct (ref e st) as [vo s1]. simpl in *. exact IHe.
  - apply orb_false_iff in H. destruct H as [H1 H2].
    specialize (IHe1 y st H1). destruct (ref e1 st) as [va s1]. simpl in *.
    specialize (IHe2 y s1 H2). destruct (ref e2 s1) as [vb s2]. simpl in *. congruence.
  - apply orb_false_iff in H. destruct H as [H1 H2].
    specialize (IHe1 y st H1). destruct (ref e1 st) as [va s1]. simpl in *.
    specialize (IHe2 y s1 H2). destruct (ref e2 s1) as [vb s2]. simpl in *. congruence.
  - rewrite !orb_false_iff in H. destruct H as [[H1 H2] H3].
    specialize (IHe1 y st H1). destruct (ref e1 st) as [vc s1]. simpl in *.
    destruct (Z.eqb vc 0); [rewrite (IHe3 y s1 H3) | rewrite (IHe2 y s1 H2)]; exact IHe1.
Qed.

(* any rule that copies whenever the later operand may assign the local is sound *)
Lemma operand_rule_sound : forall snapshot,
  (forall x b, snapshot (Loc x) b = false -> may_assign x b = false) ->
  forall e st, cmp snapshot e st = ref e st.
Proof.
  intros snapshot Hrule. induction e; intros st; simpl; auto.
  - rewrite IHe. reflexivity.
  - destruct e1;
      try (change (cmp snapshot (Bin ?a e2) st) with
             (let '(va, s1) := cmp snapshot a st in let '(vb, s2) := cmp snapshot e2 s1 in (va + vb, s2)));
      try (rewrite IHe1; destruct (ref _ st) as [va s1]; rewrite IHe2; reflexivity).
    (* Loc *) simpl. rewrite IHe2. destruct (snapshot (Loc x) e2) eqn:E.
    + reflexivity.
    + pose proof (ref_frame e2 x st (Hrule x e2 E)) as Hf. destruct (ref e2 st) as [vb s2]. simpl in Hf. rewrite Hf. reflexivity.
  - rewrite IHe. reflexivity.
  - rewrite IHe1. destruct (ref e1 st) as [vo s1]. rewrite IHe2. reflexivity.
  - rewrite IHe1. destruct (ref e1 st) as [va s1]. rewrite IHe2. reflexivity.
  - rewrite IHe1. destruct (ref e1 st) as [vc s1]. rewrite IHe2, IHe3. reflexivity.
Qed.

Lemma pure_not_assigns : forall x b, trivially_pure b = true -> may_assign x b = false.
Proof. intros x b; destruct b; simpl; auto; discriminate. Qed.

Lemma operand_snapshot_sound_ : forall e st, cmp snapshot_new e st = ref e st.
Proof.
  apply operand_rule_sound. intros x b H. unfold snapshot_new in H. apply negb_false_iff in H.
  apply pure_not_assigns; auto.
Qed.

(* function f(){ let x = 1; return x + (x = 5) }: 10 instead of 6 *)
Lemma operand_snapshot_old_refuted_ :
  exists e st, fst (cmp snapshot_old e st) <> fst (ref e st).
Proof. exists (Bin (Loc 0) (Asg 0 (Lit 5))), (fun _ => 1). vm_compute. discriminate. Qed.

(* function f(){ let x = 1; return x + a[x++] }: the key assigns x, the fast-path rule does not copy *)
Lemma operand_member_fastpath_refuted_ :
  exists e st, snapshot_member_fastpath (Loc 0) (Idx (Loc 1) (Asg 0 (Lit 5))) = false /\
               may_assign 0 (Idx (Loc 1) (Asg 0 (Lit 5))) = true /\
               fst (cmp snapshot_member_fastpath e st) <> fst (ref e st).
Proof.
  exists (Bin (Loc 0) (Idx (Loc 1) (Asg 0 (Lit 5)))), (fun _ => 1). vm_compute. repeat split; discriminate.
Qed.

(* ---------------------------------------------------------------------------------------------- *)
(* (b) postfix update on a local *)

Inductive val :=
| VNum (z : Z)
| VStr (z : Z)          (* a string whose ToNumeric is z, e.g. "5" *)
| VBad                  (* ToNumeric throws (object with a throwing valueOf, Symbol) *)
| VUndef.

Definition to_numeric (v : val) : option Z :=
  match v with VNum z | VStr z => Some z | VBad => None | VUndef => Some 0 end.

Definition regs := nat -> val.
Definition setreg (r : regs) (i : nat) (v : val) : regs := fun j => if Nat.eqb j i then v else r j.

Inductive outcome := Done (r : regs) | Threw (r : regs).

(* Inc dst src as it is now: the source register keeps its value when ToNumeric throws;
   on success the numeric old value goes to src, then the new value to dst *)
Definition inc_new (d s : nat) (r : regs) : outcome :=
  match to_numeric (r s) with
  | None => Threw r
  | Some z => Done (setreg (setreg r s (VNum z)) d (VNum (z + 1)))
  end.
(* before the fix: take_register(src) first *)
Definition inc_old (d s : nat) (r : regs) : outcome :=
  let r1 := setreg r s VUndef in
  match to_numeric (r s) with
  | None => Threw r1
  | Some z => Done (setreg (setreg r1 s (VNum z)) d (VNum (z + 1)))
  end.

Definition move (d s : nat) (r : regs) : regs := setreg r d (r s).

Inductive instr := IMove (d s : nat) | IInc (d s : nat).

Fixpoint exec (inc : nat -> nat -> regs -> outcome) (code : list instr) (r : regs) : outcome :=
  match code with
  | [] => Done r
  | IMove d s :: rest => exec inc rest (move d s r)
  | IInc d s :: rest => match inc d s r with Done r' => exec inc rest r' | Threw r' => Threw r' end
  end.

(* x++ with the value of the expression wanted in dst (compile_update, mutable local, post, result used):
     Move(dst, local); Inc(local, dst)      as repaired
     Move(dst, local); Inc(local, local)    before *)
Definition postfix_code_new (loc dst : nat) : list instr := [IMove dst loc; IInc loc dst].
Definition postfix_code_old (loc dst : nat) : list instr := [IMove dst loc; IInc loc loc].
Definition postfix_new (loc dst : nat) (r : regs) : outcome := exec inc_new (postfix_code_new loc dst) r.
Definition postfix_old (inc : nat -> nat -> regs -> outcome) (loc dst : nat) (r : regs) : outcome :=
  exec inc (postfix_code_old loc dst) r.

Lemma setreg_same : forall r i v, setreg r i v i = v.
Proof. intros; unfold setreg; rewrite Nat.eqb_refl; auto. Qed.
Lemma setreg_other : forall r i v j, j <> i -> setreg r i v j = r j.
Proof. intros; unfold setreg. destruct (Nat.eqb_spec j i); congruence. Qed.

(* ECMA-262 13.4.2.1: oldValue = ToNumeric(GetValue(lhs)); PutValue(lhs, oldValue + 1); return oldValue *)
Lemma update_on_local_sound_ : forall loc dst r, dst <> loc ->
  match to_numeric (r loc) with
  | Some z => exists r', postfix_new loc dst r = Done r' /\ r' dst = VNum z /\ r' loc = VNum (z + 1) /\
                         (forall j, j <> loc -> j <> dst -> r' j = r j)
  | None => exists r', postfix_new loc dst r = Threw r' /\ r' loc = r loc /\ (forall j, j <> dst -> r' j = r j)
  end.
Proof.
  intros loc dst r Hne. unfold postfix_new, postfix_code_new. simpl. unfold inc_new, move. rewrite setreg_same.
  destruct (to_numeric (r loc)) as [z|].
  - eexists. split; [reflexivity|]. repeat split.
    + rewrite setreg_other by auto. apply setreg_same.
    + apply setreg_same.
    + intros j H1 H2. rewrite !setreg_other; auto.
  - eexists. split; [reflexivity|]. split.
    + apply setreg_other; auto.
    + intros j H. apply setreg_other; auto.
Qed.

(* let p = "5"; let q = p++  — q is the string;  and  let s = {valueOf(){throw 1}}; try { s++ } catch {} — s is undefined *)
Lemma update_on_local_old_refuted_ :
  (exists r r', postfix_old inc_new 0%nat 1%nat r = Done r' /\ to_numeric (r 0%nat) = Some 5 /\ r' 1%nat <> VNum 5) /\
  (exists r r', postfix_old inc_old 0%nat 1%nat r = Threw r' /\ r' 0%nat <> r 0%nat).
Proof.
  split.
  - exists (fun _ => VStr 5). eexists. split; [reflexivity|]. split; [reflexivity|]. vm_compute. discriminate.
  - exists (fun _ => VBad). eexists. split; [reflexivity|]. vm_compute. discriminate.
Qed.

(* ---------------------------------------------------------------------------------------------- *)
(* (c) hoisting the const right operand of a loop condition  `lhs < c` *)

Inductive lev := EL | EB | EThrow.      (* side effect of the left operand, one run of the body, the TDZ ReferenceError *)

Section Hoist.
  Variable lhs_eff : bool.              (* evaluating the left operand has an observable side effect *)
  Variable l : nat -> Z.                (* its value in iteration i *)
  Variable cv : nat -> Z.               (* what the name c resolves to in iteration i (inside `with` it may change) *)
  Variable tdz : bool.                  (* the const is still uninitialised while the loop runs *)

  Definition lhs_ev : list lev := if lhs_eff then [EL] else [].

  (* the specification: the condition is evaluated afresh, left operand first *)
  Fixpoint ref_while (fuel i : nat) : list lev :=
    match fuel with
    | O => []
    | S f => lhs_ev ++ (if tdz then [EThrow] else if l i <? cv i then EB :: ref_while f (S i) else [])
    end.
  Fixpoint ref_dowhile (fuel i : nat) : list lev :=
    match fuel with
    | O => []
    | S f => EB :: lhs_ev ++ (if tdz then [EThrow] else if l i <? cv i then ref_dowhile f (S i) else [])
    end.

  (* the compiled loop with the operand read once in front of it *)
  Fixpoint loop_while (c0 : Z) (fuel i : nat) : list lev :=
    match fuel with
    | O => []
    | S f => lhs_ev ++ (if l i <? c0 then EB :: loop_while c0 f (S i) else [])
    end.
  Fixpoint loop_dowhile (c0 : Z) (fuel i : nat) : list lev :=
    match fuel with
    | O => []
    | S f => EB :: lhs_ev ++ (if l i <? c0 then loop_dowhile c0 f (S i) else [])
    end.
  Definition hoisted (is_do : bool) (fuel : nat) : list lev :=
    match fuel with
    | O => []
    | _ => if tdz then [EThrow] else if is_do then loop_dowhile (cv 0%nat) fuel 0 else loop_while (cv 0%nat) fuel 0
    end.
  Definition spec (is_do : bool) (fuel : nat) : list lev :=
    if is_do then ref_dowhile fuel 0 else ref_while fuel 0.

  (* try_hoist_loop_condition as repaired: identifiers only if the body does not run first and the loop is not
     inside `with`; the right operand only if the left one is a literal or an identifier *)
  Definition hoist_ok_new (is_do under_with : bool) : bool := negb is_do && negb under_with && negb lhs_eff.
  Definition hoist_ok_old (is_do under_with : bool) : bool := true.

  Lemma loop_while_eq : forall fuel i, tdz = false -> (forall j, cv j = cv 0%nat) ->
    ref_while fuel i = loop_while (cv 0%nat) fuel i.
  Proof.
    induction fuel as [|f IH]; intros i Ht Hc; simpl; auto.
    rewrite Ht, Hc. destruct (l i <? cv 0%nat); auto. rewrite IH; auto.
  Qed.

  Lemma hoist_const_sound_ : forall is_do under_with fuel,
    hoist_ok_new is_do under_with = true ->
    (under_with = false -> forall j, cv j = cv 0%nat) ->
    hoisted is_do fuel = spec is_do fuel.
  Proof.
    intros is_do under_with fuel H Hc. unfold hoist_ok_new in H. rewrite !andb_true_iff in H.
    destruct H as [[H1 H2] H3]. apply negb_true_iff in H1, H2, H3. subst is_do under_with.
    specialize (Hc eq_refl). unfold hoisted, spec. destruct fuel as [|f]; auto.
    destruct tdz eqn:Ht.
    - simpl. unfold lhs_ev. rewrite H3, Ht. reflexivity.
    - symmetry. apply loop_while_eq; auto.
  Qed.
End Hoist.

(* the three ways the unconditional rule went wrong *)
Lemma hoist_const_old_refuted_ :
  (* do { body } while (i < c) with c in its TDZ: the error came before the first run of the body *)
  (exists fuel, hoisted false (fun _ => 0) (fun _ => 2) true true fuel <> spec false (fun _ => 0) (fun _ => 2) true true fuel) /\
  (* with (o) { for (…; i < c; …) … o.c = 1 … }: the value of c changes after the first iteration *)
  (exists fuel, hoisted false Z.of_nat (fun i => match i with O => 3 | _ => 1 end) false false fuel
                <> spec false Z.of_nat (fun i => match i with O => 3 | _ => 1 end) false false fuel) /\
  (* while ((print("lhs"), 0) < c) with c in its TDZ: the error came before the side effect of the left operand *)
  (exists fuel, hoisted true (fun _ => 0) (fun _ => 1) true false fuel <> spec true (fun _ => 0) (fun _ => 1) true false fuel).
Proof.
  repeat split; exists 5%nat; vm_compute; discriminate.
Qed.
