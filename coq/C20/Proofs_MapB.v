(* C20 part 2b: the simulation between OrderedMap with cursors and the [[MapData]] list specification. *)
From Coq Require Import NArith Arith List Bool Lia Permutation.
From C20 Require Import Model_C20 Proofs_MapA.
Import ListNotations.

Lemma set_nth_id : forall (A : Type) i (x : A) l, nth_error l i = Some x -> set_nth i x l = l.
Proof. intros A i x l. revert i. induction l as [|a l IH]; intros [|i] H; simpl in *; try discriminate; try congruence. f_equal. auto. Qed.

Lemma R_keep : forall m cs S scs c cu cu' scu',
  R (mkMS m cs) (mkSS S scs) -> nth_error cs c = Some cu -> locked cu' = locked cu ->
  crel (absl (ents m)) S cu' scu' ->
  R (mkMS m (set_nth c cu' cs)) (mkSS S (set_nth c scu' scs)).
Proof.
  intros m cs S scs c cu cu' scu' (W & L & E & F) Hn Hl Hc. cbn [om curs sents scurs] in *.
  unfold R. cbn [om curs sents scurs]. split; [exact W|]. split; [|split; [exact E|]].
  - rewrite L. symmetry. eapply nlocked_set_same; eauto.
  - now apply Forall2_set_nth.
Qed.

Lemma R_unlock : forall m cs S scs c cu i scu',
  R (mkMS m cs) (mkSS S scs) -> nth_error cs c = Some cu -> locked cu = true ->
  crel (absl (ents m)) S (mkC (ckd cu) false i) scu' ->
  R (mkMS (om_unlock m) (set_nth c (mkC (ckd cu) false i) cs)) (mkSS S (set_nth c scu' scs)).
Proof.
  intros m cs S scs c cu i scu' HR Hn Hl Hc.
  destruct (unlock_step (mkMS m cs) (mkSS S scs) c cu i HR Hn Hl) as (U1 & U2 & U3 & U4).
  cbn [om curs sents scurs] in *.
  unfold R. cbn [om curs sents scurs]. split; [exact U1|]. split; [exact U2|]. split; [exact U3|].
  apply U4. destruct HR as (_ & _ & _ & F). cbn [om curs sents scurs] in F. now apply Forall2_set_nth.
Qed.

Lemma crel_tainted : forall A S cu scu, tainted scu = true -> crel A S cu scu.
Proof. intros A S cu scu H Hc. congruence. Qed.

Lemma crel_done : forall A S k i scu, sdone scu = true -> crel A S (mkC k false i) scu.
Proof. intros A S k i scu H _. cbn [locked]. rewrite H. split; [reflexivity|discriminate]. Qed.

(* the shapes of a cursor step *)
Lemma mexec_next_unlocked : forall m cs c cu, nth_error cs c = Some cu -> locked cu = false ->
  mexec (mkMS m cs) (MNext c) = (mkMS m cs, OYield None).
Proof. intros m cs c cu Hn Hl. unfold mexec. cbn [curs om]. now rewrite Hn, Hl. Qed.
Lemma mexec_next_some : forall m cs c cu e i, nth_error cs c = Some cu -> locked cu = true -> cursor_step m cu = (Some e, i) ->
  mexec (mkMS m cs) (MNext c) = (mkMS m (set_nth c (mkC (ckd cu) true i) cs), OYield (Some e)).
Proof. intros m cs c cu e i Hn Hl Hs. unfold mexec. cbn [curs om]. now rewrite Hn, Hl, Hs. Qed.
Lemma mexec_next_none : forall m cs c cu i, nth_error cs c = Some cu -> locked cu = true -> cursor_step m cu = (None, i) ->
  mexec (mkMS m cs) (MNext c) = (mkMS (om_unlock m) (set_nth c (mkC (ckd cu) false i) cs), OYield None).
Proof. intros m cs c cu i Hn Hl Hs. unfold mexec. cbn [curs om]. now rewrite Hn, Hl, Hs. Qed.

Lemma sexec_next_done : forall S scs c scu, nth_error scs c = Some scu -> sdone scu = true ->
  sexec (mkSS S scs) (MNext c) = (mkSS S scs, (OYield None, tainted scu)).
Proof. intros S scs c scu Hn Hd. unfold sexec. cbn [scurs sents]. now rewrite Hn, Hd. Qed.
Lemma sexec_next_some : forall S scs c scu e i, nth_error scs c = Some scu -> sdone scu = false ->
  s_scan (skipn (sidx scu) S) (sidx scu) = (Some e, i) ->
  sexec (mkSS S scs) (MNext c) = (mkSS S (set_nth c (mkSC false i (tainted scu)) scs), (OYield (Some e), tainted scu)).
Proof. intros S scs c scu e i Hn Hd Hs. unfold sexec. cbn [scurs sents]. now rewrite Hn, Hd, Hs. Qed.
Lemma sexec_next_none : forall S scs c scu i, nth_error scs c = Some scu -> sdone scu = false ->
  s_scan (skipn (sidx scu) S) (sidx scu) = (None, i) ->
  sexec (mkSS S scs) (MNext c) = (mkSS S (set_nth c (mkSC true i (tainted scu)) scs), (OYield None, tainted scu)).
Proof. intros S scs c scu i Hn Hd Hs. unfold sexec. cbn [scurs sents]. now rewrite Hn, Hd, Hs. Qed.

Lemma out_agree_tainted : forall x y, out_agree x (y, true).
Proof. intros x y H. discriminate. Qed.

Lemma next_sim : forall m cs S scs c, R (mkMS m cs) (mkSS S scs) ->
  R (fst (mexec (mkMS m cs) (MNext c))) (fst (sexec (mkSS S scs) (MNext c))) /\
  out_agree (snd (mexec (mkMS m cs) (MNext c))) (snd (sexec (mkSS S scs) (MNext c))).
Proof.
  intros m cs S scs c HR. pose proof HR as (W & L & E & F). cbn [om curs sents scurs] in W, L, E, F.
  pose proof (Forall2_nth _ _ _ _ _ c F) as Hc.
  destruct (nth_error cs c) as [cu|] eqn:Ec; destruct (nth_error scs c) as [scu|] eqn:Esc; try contradiction.
  2: { unfold mexec, sexec. cbn [om curs sents scurs]. rewrite Ec, Esc. cbn [fst snd]. split; [exact HR|intro; reflexivity]. }
  destruct (tainted scu) eqn:Ht.
  - (* tainted cursor: outputs are not compared; the relation must survive *)
    assert (Hcs : set_nth c cu cs = cs) by now apply set_nth_id.
    assert (Hscs : set_nth c scu scs = scs) by now apply set_nth_id.
    destruct (locked cu) eqn:Hl; [destruct (cursor_step m cu) as [[e|] i] eqn:Est|];
      (destruct (sdone scu) eqn:Hd; [|destruct (s_scan (skipn (sidx scu) S) (sidx scu)) as [[e'|] i'] eqn:Esp]).
    all: try rewrite (mexec_next_some _ _ _ _ _ _ Ec Hl Est).
    all: try rewrite (mexec_next_none _ _ _ _ _ Ec Hl Est).
    all: try rewrite (mexec_next_unlocked _ _ _ _ Ec Hl).
    all: try rewrite (sexec_next_done _ _ _ _ Esc Hd).
    all: try rewrite (sexec_next_some _ _ _ _ _ _ Esc Hd Esp).
    all: try rewrite (sexec_next_none _ _ _ _ _ Esc Hd Esp).
    all: cbn [fst snd]; rewrite Ht; (split; [|apply out_agree_tainted]).
    + rewrite <- Hscs. eapply R_keep; eauto. now apply crel_tainted.
    + eapply R_keep; eauto. now apply crel_tainted.
    + eapply R_keep; eauto. now apply crel_tainted.
    + rewrite <- Hscs. eapply R_unlock; eauto. now apply crel_tainted.
    + eapply R_unlock; eauto. now apply crel_tainted.
    + eapply R_unlock; eauto. now apply crel_tainted.
    + exact HR.
    + rewrite <- Hcs. eapply R_keep; eauto. now apply crel_tainted.
    + rewrite <- Hcs. eapply R_keep; eauto. now apply crel_tainted.
  - (* untainted: lock-step *)
    destruct (Hc Ht) as [H1 H2].
    destruct (locked cu) eqn:Hl.
    + symmetry in H1. apply negb_true_iff in H1.
      destruct (H2 eq_refl) as (Ha & Hb & He & Hz).
      assert (HLA : length (absl (ents m)) = om_full_len m) by (unfold absl, om_full_len; apply map_length).
      destruct (cursor_step_scan m cu) as [Q1 Q2]; [lia|].
      destruct (cursor_step m cu) as [r i] eqn:Est.
      destruct (s_scan (skipn (next_index cu) (absl (ents m))) (next_index cu)) as [ra ia] eqn:Esa.
      destruct (s_scan (skipn (sidx scu) S) (sidx scu)) as [r' i'] eqn:Esp.
      cbn [fst snd] in Q1, Q2. subst ra.
      destruct (scan_from _ _ _ _ Ha Esa) as [Bi Hra]. destruct (scan_from _ _ _ _ Hb Esp) as [Bi' Hrs].
      destruct r as [e|].
      * assert (i = ia) by (apply Q2; discriminate). subst ia.
        destruct Hra as [Pa Hra]. rewrite He in Hra.
        destruct r' as [e'|]; [|rewrite Hrs in Hra; discriminate].
        destruct Hrs as [Ps Hrs]. rewrite Hrs in Hra. inversion Hra; subst e'.
        rewrite (mexec_next_some _ _ _ _ _ _ Ec Hl Est), (sexec_next_some _ _ _ _ _ _ Esc H1 Esp).
        cbn [fst snd]. split; [|intro; reflexivity].
        eapply R_keep; eauto. intros _. cbn [locked sdone next_index sidx]. split; [reflexivity|]. intros _.
        repeat split; auto. lia.
      * rewrite He in Hra. destruct r' as [e'|]; [destruct Hrs as [_ Hrs]; rewrite Hrs in Hra; discriminate|].
        rewrite (mexec_next_none _ _ _ _ _ Ec Hl Est), (sexec_next_none _ _ _ _ _ Esc H1 Esp).
        cbn [fst snd]. split; [|intro; reflexivity].
        eapply R_unlock; eauto. now apply crel_done.
    + symmetry in H1. apply negb_false_iff in H1.
      rewrite (mexec_next_unlocked _ _ _ _ Ec Hl), (sexec_next_done _ _ _ _ Esc H1).
      cbn [fst snd]. split; [exact HR|intro; reflexivity].
Qed.

Lemma drop_sim : forall m cs S scs c, R (mkMS m cs) (mkSS S scs) ->
  R (fst (mexec (mkMS m cs) (MDrop c))) (fst (sexec (mkSS S scs) (MDrop c))) /\
  out_agree (snd (mexec (mkMS m cs) (MDrop c))) (snd (sexec (mkSS S scs) (MDrop c))).
Proof.
  intros m cs S scs c HR. pose proof HR as (W & L & E & F). cbn [om curs sents scurs] in W, L, E, F.
  pose proof (Forall2_nth _ _ _ _ _ c F) as Hc.
  unfold mexec, sexec. cbn [om curs sents scurs].
  destruct (nth_error cs c) as [cu|] eqn:Ec; destruct (nth_error scs c) as [scu|] eqn:Esc; try contradiction.
  2: { cbn [fst snd]. split; [exact HR|intro; reflexivity]. }
  destruct (locked cu) eqn:Hl; cbn [fst snd]; (split; [|intro; reflexivity]).
  - eapply R_unlock; eauto. now apply crel_done.
  - assert (Hcs : set_nth c cu cs = cs) by now apply set_nth_id.
    rewrite <- Hcs. eapply R_keep; eauto.
    intro Ht. cbn [tainted] in Ht. destruct (Hc Ht) as [H1 _]. cbn [sdone]. rewrite Hl. split; [reflexivity|discriminate].
Qed.

Lemma step_sim : forall ms ss o, R ms ss ->
  R (fst (mexec ms o)) (fst (sexec ss o)) /\ out_agree (snd (mexec ms o)) (snd (sexec ss o)).
Proof.
  intros [m cs] [S scs] o HR. pose proof HR as (W & L & E & F). cbn [om curs sents scurs] in W, L, E, F.
  destruct o as [k v|k| |k|k| | | |c|c]; try (apply next_sim; exact HR); try (apply drop_sim; exact HR); simpl.
  - (* set *)
    destruct (abs_insert _ _ k v W) as [Ea Wa]. split; [|intro; reflexivity].
    unfold R. cbn [om curs sents scurs ents lock empty_count om_insert]. rewrite Ea. rewrite !s_set_unfold, (has_live_eq k _ _ E).
    destruct (s_has k S).
    + split; [exact Wa|]. split; [exact L|]. split.
      * now rewrite !slive_upd, E.
      * apply (crel_pointwise _ (upd_live k v)); auto. intro l. apply slive_upd.
    + split; [exact Wa|]. split; [exact L|]. split.
      * now rewrite !slive_app, E.
      * now apply crel_append.
  - (* delete *)
    split.
    + unfold R, om_remove. cbn [om curs sents scurs]. destruct (Nat.eqb_spec (lock m) 0) as [Hz|Hnz]; cbn [ents lock empty_count].
      * destruct (abs_shift _ _ k W) as [Es Ws]. split; [exact Ws|]. split; [exact L|]. split.
        -- now rewrite Es, !slive_del, E.
        -- eapply crel_unlocked; [|exact F]. apply nlocked_zero. congruence.
      * unfold om_contains. destruct (im_find (MKey k) (ents m)) as [i|] eqn:Fi; cbn [ents lock empty_count].
        -- destruct (abs_tomb _ _ k i W Fi) as [Et Wt]. split; [exact Wt|]. split; [exact L|]. split.
           ++ now rewrite Et, !slive_del, E.
           ++ rewrite Et. apply (crel_pointwise _ (del_live k)); auto. intro l. apply slive_del.
        -- assert (Hk : s_del k (absl (ents m)) = absl (ents m)) by (apply nokey_del, nokey_abs; now apply im_find_none).
           split; [exact W|]. split; [exact L|]. split.
           ++ now rewrite slive_del, <- E, <- slive_del, Hk.
           ++ rewrite <- Hk. apply (crel_pointwise _ (del_live k)); auto. intro l. apply slive_del.
    + intro. cbn [fst snd]. f_equal. unfold om_contains. rewrite (contains_has _ _ k W). now apply has_live_eq.
  - (* clear *)
    split; [|intro; reflexivity]. unfold R. cbn [om curs sents scurs om_clear ents lock empty_count absl map].
    split; [repeat split; simpl; auto; constructor|]. split; [exact L|]. split; [now rewrite slive_clear|].
    clear -F. induction F; simpl; constructor; auto.
    intro Ht. unfold taint in Ht. unfold taint.
    destruct (negb (sdone y) && negb (Nat.eqb (sidx y) 0)) eqn:Eg; cbn [tainted sdone sidx] in *; [discriminate|].
    destruct (H Ht) as [H1 H2]. split; auto. intro Hl. destruct (H2 Hl) as (Ha & Hb & He & Hz).
    rewrite H1 in Hl. rewrite Hl in Eg. cbn [andb] in Eg. apply negb_false_iff, Nat.eqb_eq in Eg.
    rewrite (Hz Eg), Eg. cbn [length skipn]. repeat split; auto; try lia. now rewrite slive_clear.
  - (* get *)
    split; [exact HR|]. intro. cbn [fst snd]. f_equal. unfold om_get. rewrite (abs_get _ _ k W). now rewrite !s_get_live, E.
  - (* has *)
    split; [exact HR|]. intro. cbn [fst snd]. f_equal. unfold om_contains. rewrite (contains_has _ _ k W). now apply has_live_eq.
  - (* size *)
    split; [exact HR|]. intro. cbn [fst snd]. f_equal. unfold om_len. destruct W as (_ & _ & W4). rewrite W4, s_size_live, E. lia.
  - (* new iterator *)
    split; [|intro; reflexivity]. unfold R. cbn [om curs sents scurs om_lock ents lock empty_count].
    split; [exact W|]. split; [|split; [exact E|]].
    + rewrite nlocked_app. unfold nlocked at 2. simpl. lia.
    + apply Forall2_app; auto. constructor; [|constructor]. intro. cbn [locked sdone next_index sidx negb skipn]. repeat split; auto; lia.
  - (* forEach *)
    split; [|intro; reflexivity]. unfold R. cbn [om curs sents scurs om_lock ents lock empty_count].
    split; [exact W|]. split; [|split; [exact E|]].
    + rewrite nlocked_app. unfold nlocked at 2. simpl. lia.
    + apply Forall2_app; auto. constructor; [|constructor]. intro. cbn [locked sdone next_index sidx negb skipn]. repeat split; auto; lia.
Qed.

Lemma R_init : R minit sinit.
Proof. repeat split; simpl; constructor. Qed.

Lemma run_sim : forall h ms ss, R ms ss -> Forall2 out_agree (mrun ms h) (srun ss h).
Proof.
  induction h as [|o h IH]; intros ms ss HR; simpl; [constructor|].
  destruct (step_sim ms ss o HR) as [HR' Ho].
  destruct (mexec ms o) as [ms' out]. destruct (sexec ss o) as [ss' sout]. simpl in *.
  constructor; auto.
Qed.

Lemma iteration_is_insertion_order_lemma : forall h, Forall2 out_agree (mrun minit h) (srun sinit h).
Proof. intro h. apply run_sim, R_init. Qed.

(* corollary: a history in which clear() never meets an advanced cursor gives exactly the specification's outputs *)
Lemma untainted_exact_lemma : forall h, untainted_history h -> mrun minit h = map fst (srun sinit h).
Proof.
  intros h Hu. pose proof (iteration_is_insertion_order_lemma h) as F. unfold untainted_history in Hu.
  induction F; simpl; auto. inversion Hu; subst. f_equal; auto.
Qed.

(* collecting (dropping) a cursor that is never stepped again is invisible: the specification ignores drops
   for the outputs of the other operations, hence so does the implementation *)
Definition is_drop (o : mop) : bool := match o with MDrop _ => true | _ => false end.

(* the guard is necessary: the faithful model refutes the unguarded statement *)
Lemma iteration_unguarded_refuted_lemma :
  exists h, mrun minit h <> map fst (srun sinit h) /\
            nth_error (mrun minit h) 8 = Some (OYield None) /\
            nth_error (map fst (srun sinit h)) 8 = Some (OYield (Some (4%N, 4%N))).
Proof. exists clear_witness. vm_compute. repeat split; try reflexivity. discriminate. Qed.
