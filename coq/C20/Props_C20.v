(* C20 property theorems: statements only, each closed by `exact`, pinned by `Check`, assumptions printed.
   Part 1: hash iteration order cannot leak through [[OwnPropertyKeys]] (property_map.rs, property_table.rs,
           ordinary_own_property_keys);  Part 2: OrderedMap/OrderedSet + cursors refine the [[MapData]] list;
   Part 3: frame property of the realm discipline (a model of the discipline, see design.d/C20.md). *)
From Coq Require Import NArith Arith List Bool Permutation Sorted.
From C20 Require Import Model_C20 Proofs_C20 Deep_Realm_C20 Deep_Caches_C20 Deep_Statics_C20.
From Gen Require Import Statics_C20.
Import ListNotations.

(* ---------------------------------------------------------------- part 1 *)
(* two storages whose hash maps iterate in different orders (and whose shared property tables have different
   tails) produce the same key list, for ANY function that returns a sorted permutation (sort_unstable) *)
Theorem own_keys_perm_invariant : forall sortf : list N -> list N,
  (forall l, Permutation (sortf l) l /\ StronglySorted N.le (sortf l)) ->
  forall a b, st_equiv a b -> own_keys sortf a = own_keys sortf b.
Proof. exact own_keys_perm_invariant_lemma. Qed.
Check own_keys_perm_invariant : forall sortf : list N -> list N,
  (forall l, Permutation (sortf l) l /\ StronglySorted N.le (sortf l)) ->
  forall a b, st_equiv a b -> own_keys sortf a = own_keys sortf b.
Print Assumptions own_keys_perm_invariant.

(* after any history of define/delete, under every resolution of the hash order after every step, the key list
   is OrdinaryOwnPropertyKeys of the creation-ordered specification object: ascending array indices, then
   strings in creation order, then symbols in creation order *)
Theorem own_keys_spec : forall sortf : list N -> list N,
  (forall l, Permutation (sortf l) l /\ StronglySorted N.le (sortf l)) ->
  forall h s, pruns h s -> OrdinaryOwnPropertyKeys (spec_run h) (own_keys sortf s).
Proof. exact own_keys_spec_lemma. Qed.
Check own_keys_spec : forall sortf : list N -> list N,
  (forall l, Permutation (sortf l) l /\ StronglySorted N.le (sortf l)) ->
  forall h s, pruns h s -> OrdinaryOwnPropertyKeys (spec_run h) (own_keys sortf s).
Print Assumptions own_keys_spec.

(* hence any two runs of the same history observe the same keys *)
Theorem history_keys_deterministic : forall sortf : list N -> list N,
  (forall l, Permutation (sortf l) l /\ StronglySorted N.le (sortf l)) ->
  forall h s1 s2, pruns h s1 -> pruns h s2 -> own_keys sortf s1 = own_keys sortf s2.
Proof. exact history_keys_deterministic_lemma. Qed.
Check history_keys_deterministic : forall sortf : list N -> list N,
  (forall l, Permutation (sortf l) l /\ StronglySorted N.le (sortf l)) ->
  forall h s1 s2, pruns h s1 -> pruns h s2 -> own_keys sortf s1 = own_keys sortf s2.
Print Assumptions history_keys_deterministic.

(* the executable instance evaluated by the correspondence (merge sort, new hash keys in front) is one of them *)
Theorem own_keys_executable : forall h, OrdinaryOwnPropertyKeys (spec_run h) (prun_keys h).
Proof. exact (fun h => own_keys_spec_lemma msort msort_spec h (prun h) (prun_pruns h)). Qed.
Check own_keys_executable : forall h, OrdinaryOwnPropertyKeys (spec_run h) (prun_keys h).
Print Assumptions own_keys_executable.

(* the hypothesis on the sorting function is satisfiable *)
Example sort_hypothesis_satisfiable : exists sortf : list N -> list N,
  forall l, Permutation (sortf l) l /\ StronglySorted N.le (sortf l).
Proof. exists msort. exact msort_spec. Qed.

(* ---------------------------------------------------------------- part 2 *)
(* every output of every history (set/delete/clear/get/has/size, iterator and forEach steps, cursor drops at
   arbitrary points = collection of abandoned iterators) equals the specification's, except the yields of
   cursors that had advanced when clear() ran *)
Theorem iteration_is_insertion_order : forall h, Forall2 out_agree (mrun minit h) (srun sinit h).
Proof. exact iteration_is_insertion_order_lemma. Qed.
Check iteration_is_insertion_order : forall h, Forall2 out_agree (mrun minit h) (srun sinit h).
Print Assumptions iteration_is_insertion_order.

Theorem iteration_exact_when_untainted : forall h, untainted_history h -> mrun minit h = map fst (srun sinit h).
Proof. exact untainted_exact_lemma. Qed.
Check iteration_exact_when_untainted : forall h, untainted_history h -> mrun minit h = map fst (srun sinit h).
Print Assumptions iteration_exact_when_untainted.

(* OrderedSet is the same structure: histories whose insertions carry the unit value 0 and never read values *)
Theorem set_iteration_is_insertion_order : forall h, forallb set_op_ok h = true ->
  Forall2 out_agree (mrun minit h) (srun sinit h).
Proof. exact (fun h _ => iteration_is_insertion_order_lemma h). Qed.
Check set_iteration_is_insertion_order : forall h, forallb set_op_ok h = true ->
  Forall2 out_agree (mrun minit h) (srun sinit h).
Print Assumptions set_iteration_is_insertion_order.

(* the guard is necessary: clear() under an advanced iterator, then set(4,4): boa's iterator is done, ECMA-262 yields 4 *)
Theorem iteration_unguarded_refuted :
  exists h, mrun minit h <> map fst (srun sinit h) /\
            nth_error (mrun minit h) 8 = Some (OYield None) /\
            nth_error (map fst (srun sinit h)) 8 = Some (OYield (Some (4%N, 4%N))).
Proof. exact iteration_unguarded_refuted_lemma. Qed.
Check iteration_unguarded_refuted :
  exists h, mrun minit h <> map fst (srun sinit h) /\
            nth_error (mrun minit h) 8 = Some (OYield None) /\
            nth_error (map fst (srun sinit h)) 8 = Some (OYield (Some (4%N, 4%N))).
Print Assumptions iteration_unguarded_refuted.

(* with fixes.d/C20-clear-under-iterator.patch (clear() under a lock leaves tombstones in place) the refinement
   needs no guard: every output of every history equals the specification's *)
Theorem iteration_is_insertion_order_with_fix : forall h, mrun_fixed minit h = srun_plain sinit h.
Proof. exact iteration_with_fix_lemma. Qed.
Check iteration_is_insertion_order_with_fix : forall h, mrun_fixed minit h = srun_plain sinit h.
Print Assumptions iteration_is_insertion_order_with_fix.

Example fix_repairs_witness : nth_error (mrun_fixed minit clear_witness) 8 = Some (OYield (Some (4%N, 4%N))).
Proof. vm_compute. reflexivity. Qed.

Example untainted_satisfiable : untainted_history [MSet 1 1; MNewIter; MNext 0; MDel 1; MSet 2 2; MNext 0; MNext 0].
Proof. unfold untainted_history. vm_compute. repeat constructor. Qed.

(* ---------------------------------------------------------------- part 3 *)
(* code holding realm A's references, whatever it does, leaves every object reachable from realm B's roots
   unchanged, B's reachable set unchanged, and the two sets disjoint — unless a reference is passed, i.e.
   unless the disjointness hypothesis is given up for the objects reachable from the passed reference *)
Theorem realm_frame : forall h rsA rsB ops h' rsA',
  heap_closed h -> roots_closed h rsA -> roots_closed h rsB ->
  (forall a, reach h rsA a -> reach h rsB a -> False) ->
  rrun (h, rsA) ops = (h', rsA') ->
  (forall b, reach h rsB b -> nth_error h' b = nth_error h b) /\
  (forall b, reach h' rsB b <-> reach h rsB b) /\
  (forall a, reach h' rsA' a -> reach h' rsB a -> False).
Proof. exact realm_frame_lemma. Qed.
Check realm_frame : forall h rsA rsB ops h' rsA',
  heap_closed h -> roots_closed h rsA -> roots_closed h rsB ->
  (forall a, reach h rsA a -> reach h rsB a -> False) ->
  rrun (h, rsA) ops = (h', rsA') ->
  (forall b, reach h rsB b -> nth_error h' b = nth_error h b) /\
  (forall b, reach h' rsB b <-> reach h rsB b) /\
  (forall a, reach h' rsA' a -> reach h' rsB a -> False).
Print Assumptions realm_frame.

(* an object of realm B keeps its record (realm tag, prototype link = B's intrinsic, fields), its prototype
   object is unchanged too, and neither becomes reachable from A *)
Theorem cross_realm_intrinsics : forall h rsA rsB ops h' rsA' o ob pB,
  heap_closed h -> roots_closed h rsA -> roots_closed h rsB ->
  (forall a, reach h rsA a -> reach h rsB a -> False) ->
  reach h rsB o -> nth_error h o = Some ob -> oproto ob = Some pB ->
  rrun (h, rsA) ops = (h', rsA') ->
  nth_error h' o = Some ob /\ nth_error h' pB = nth_error h pB /\ ~ reach h' rsA' o /\ ~ reach h' rsA' pB.
Proof. exact cross_realm_intrinsics_lemma. Qed.
Check cross_realm_intrinsics : forall h rsA rsB ops h' rsA' o ob pB,
  heap_closed h -> roots_closed h rsA -> roots_closed h rsB ->
  (forall a, reach h rsA a -> reach h rsB a -> False) ->
  reach h rsB o -> nth_error h o = Some ob -> oproto ob = Some pB ->
  rrun (h, rsA) ops = (h', rsA') ->
  nth_error h' o = Some ob /\ nth_error h' pB = nth_error h pB /\ ~ reach h' rsA' o /\ ~ reach h' rsA' pB.
Print Assumptions cross_realm_intrinsics.

(* passing an object and inspecting it (property reads, getPrototypeOf) never changes the heap, whoever holds it;
   an allocation carries the realm tag and the prototype chosen by the allocating realm *)
Theorem passed_objects_keep_their_intrinsics :
  (forall ops h rs, forallb is_read ops = true -> fst (rrun (h, rs) ops) = h) /\
  (forall h rs r p, holds_opt rs p = true -> nth_error (fst (rstep (h, rs) (RAlloc r p))) (length h) = Some (mkO r p [])).
Proof. exact (conj reads_keep_heap_lemma alloc_tag_lemma). Qed.
Check passed_objects_keep_their_intrinsics :
  (forall ops h rs, forallb is_read ops = true -> fst (rrun (h, rs) ops) = h) /\
  (forall h rs r p, holds_opt rs p = true -> nth_error (fst (rstep (h, rs) (RAlloc r p))) (length h) = Some (mkO r p [])).
Print Assumptions passed_objects_keep_their_intrinsics.

(* the hypotheses are satisfiable: two realms, each with a prototype object and an instance *)
Definition ex_heap : heap := [mkO 0 None []; mkO 0 (Some 0) [(1%N, VPrim 7)]; mkO 1 None []; mkO 1 (Some 2) []].
Example frame_hypotheses_satisfiable :
  heap_closed ex_heap /\ roots_closed ex_heap [1] /\ roots_closed ex_heap [3] /\
  (forall a, reach ex_heap [1] a -> reach ex_heap [3] a -> False).
Proof.
  assert (E : forall a b, edge ex_heap a b -> (a = 1 /\ b = 0) \/ (a = 3 /\ b = 2)).
  { intros a b [ob [Hn Hb]].
    destruct a as [|[|[|[|a]]]]; simpl in Hn.
    - inversion Hn; subst ob; simpl in Hb. destruct Hb as [Hb|[f Hf]]; [discriminate Hb|discriminate Hf].
    - inversion Hn; subst ob; simpl in Hb. destruct Hb as [Hb|[f Hf]].
      + inversion Hb; subst. auto.
      + destruct f as [|[p|p|]]; simpl in Hf; discriminate Hf.
    - inversion Hn; subst ob; simpl in Hb. destruct Hb as [Hb|[f Hf]]; [discriminate Hb|discriminate Hf].
    - inversion Hn; subst ob; simpl in Hb. destruct Hb as [Hb|[f Hf]]; [|discriminate Hf].
      inversion Hb; subst. auto.
    - destruct a; discriminate Hn. }
  assert (RA : forall a, reach ex_heap [1] a -> a = 1 \/ a = 0).
  { intros a H. induction H; [destruct H as [<-|[]]; auto|].
    destruct (E _ _ H0) as [[-> ->]|[-> ->]]; auto. destruct IHreach; discriminate. }
  assert (RB : forall a, reach ex_heap [3] a -> a = 3 \/ a = 2).
  { intros a H. induction H; [destruct H as [<-|[]]; auto|].
    destruct (E _ _ H0) as [[-> ->]|[-> ->]]; auto. destruct IHreach; discriminate. }
  repeat split.
  - intros a b H. destruct (E _ _ H) as [[-> ->]|[-> ->]]; simpl; auto.
  - intros a [<-|[]]. simpl. auto.
  - intros a [<-|[]]. simpl. auto.
  - intros a HA HB. destruct (RA a HA), (RB a HB); subst; discriminate.
Qed.

(* ---------------------------------------------------------------- deepening round: the realm mechanism *)
(* Deep_Realm_C20.v transliterates vm.frame().realm, enter_realm/swap_realm, native_function_call/construct, function_call,
   Script::parse/evaluate, create_realm.  After ANY entry (ordinary call, native call/construct, Context::eval, create_realm),
   completed normally or abruptly, whatever the callee tree does (including natives that call enter_realm and never restore),
   the current realm and the whole stack of frame realms are what they were before. *)
Theorem realm_restored : forall a s, entry a = true ->
  top (fst (run a s)) = top s /\ rest (fst (run a s)) = rest s.
Proof. exact realm_restored_lemma. Qed.
Check realm_restored : forall a s, entry a = true ->
  top (fst (run a s)) = top s /\ rest (fst (run a s)) = rest s.
Print Assumptions realm_restored.

(* the host's view: any sequence of host entries leaves the host realm unchanged *)
Theorem host_realm_unchanged : forall r n l, forallb entry l = true ->
  top (fst (run_list l (init r n))) = r /\ rest (fst (run_list l (init r n))) = [].
Proof. exact host_realm_unchanged_lemma. Qed.
Check host_realm_unchanged : forall r n l, forallb entry l = true ->
  top (fst (run_list l (init r n))) = r /\ rest (fst (run_list l (init r n))) = [].
Print Assumptions host_realm_unchanged.

(* intrinsics / global object / global bindings are read through the current realm: inside an ordinary function of realm rf
   (resp. a native function of realm rn, a script started by Context::eval) after any balanced prefix that is realm rf
   (resp. rn, the realm current at the eval) - whatever the caller's realm was *)
Theorem global_resolution_in_own_realm :
  (forall rf pre s s1, forallb entry pre = true -> run_list pre (push rf s) = (s1, false) ->
     tr (fst (run AProbe s1)) = EProbe rf :: tr s1) /\
  (forall rn pre s s1, forallb entry pre = true -> run_list pre (set_top rn s) = (s1, false) ->
     tr (fst (run AProbe s1)) = EProbe rn :: tr s1) /\
  (forall pre s s1, forallb entry pre = true -> run_list pre (push (top s) s) = (s1, false) ->
     tr (fst (run AProbe s1)) = EProbe (top s) :: tr s1).
Proof. exact global_resolution_lemma. Qed.
Check global_resolution_in_own_realm :
  (forall rf pre s s1, forallb entry pre = true -> run_list pre (push rf s) = (s1, false) ->
     tr (fst (run AProbe s1)) = EProbe rf :: tr s1) /\
  (forall rn pre s s1, forallb entry pre = true -> run_list pre (set_top rn s) = (s1, false) ->
     tr (fst (run AProbe s1)) = EProbe rn :: tr s1) /\
  (forall pre s s1, forallb entry pre = true -> run_list pre (push (top s) s) = (s1, false) ->
     tr (fst (run AProbe s1)) = EProbe (top s) :: tr s1).
Print Assumptions global_resolution_in_own_realm.

(* everything an ordinary function and its callees observe and whether it completes abruptly is independent of the realm
   that was current in the caller *)
Theorem callee_independent_of_caller_realm : forall rf body s r',
  tr (fst (run (ACallFn rf body) (set_top r' s))) = tr (fst (run (ACallFn rf body) s)) /\
  snd (run (ACallFn rf body) (set_top r' s)) = snd (run (ACallFn rf body) s).
Proof. exact callee_independent_of_caller_realm_lemma. Qed.
Check callee_independent_of_caller_realm : forall rf body s r',
  tr (fst (run (ACallFn rf body) (set_top r' s))) = tr (fst (run (ACallFn rf body) s)) /\
  snd (run (ACallFn rf body) (set_top r' s)) = snd (run (ACallFn rf body) s).
Print Assumptions callee_independent_of_caller_realm.

(* ---------------------------------------------------------------- deepening round: process-/thread-wide state *)
(* every thread_local!/static/lazy item found by tools/gen_c20.py in core/{engine,string,gc,interner,ast} is classified *)
Theorem statics_all_classified : forallb (fun e => is_classified (snd e)) inventory = true.
Proof. exact statics_all_classified_lemma. Qed.
Check statics_all_classified : forallb (fun e => is_classified (snd e)) inventory = true.
Print Assumptions statics_all_classified.

(* the identity-issuing / caching items are exactly the five named in Deep_Statics_C20.caches_expected *)
Theorem caches_pinned : caches = caches_expected.
Proof. exact caches_pinned_lemma. Qed.
Check caches_pinned : caches = caches_expected.
Print Assumptions caches_pinned.

(* fresh counters (symbol hash = identity/order of JsSymbol, code block ids, async evaluation order): every comparison between
   the identifiers one context obtained is the comparison of their creation indices - for any start value and any interleaving *)
Theorem counter_observations_history_independent : forall h1 n1 h2 n2 i j,
  i < length (our_ids n1 h1) -> j < length (our_ids n1 h1) ->
  i < length (our_ids n2 h2) -> j < length (our_ids n2 h2) ->
  Nat.compare (nth i (our_ids n1 h1) 0) (nth j (our_ids n1 h1) 0) =
  Nat.compare (nth i (our_ids n2 h2) 0) (nth j (our_ids n2 h2) 0).
Proof. exact counter_history_independent_lemma. Qed.
Check counter_observations_history_independent : forall h1 n1 h2 n2 i j,
  i < length (our_ids n1 h1) -> j < length (our_ids n1 h1) ->
  i < length (our_ids n2 h2) -> j < length (our_ids n2 h2) ->
  Nat.compare (nth i (our_ids n1 h1) 0) (nth j (our_ids n1 h1) 0) =
  Nat.compare (nth i (our_ids n2 h2) 0) (nth j (our_ids n2 h2) 0).
Print Assumptions counter_observations_history_independent.

(* content-keyed caches (static string table, weak shape-transition caches): hit, miss, eviction of any subset and insertions
   by other contexts all answer what the uncached computation answers *)
Theorem memo_answers_function_of_key : forall (V : Type) (f : N -> V) h c, consistent V f c -> crun V f c h = map (direct V f) h.
Proof. exact memo_answers_lemma. Qed.
Check memo_answers_function_of_key : forall (V : Type) (f : N -> V) h c, consistent V f c -> crun V f c h = map (direct V f) h.
Print Assumptions memo_answers_function_of_key.

(* Symbol.for: identities are equal exactly when the keys are, whoever else uses the registry or the counter; keyFor inverts *)
Theorem registry_identity_is_key_identity : forall h s, rinv s ->
  forall k1 i1 k2 i2, In (k1, i1) (snd (greg_run s h)) -> In (k2, i2) (snd (greg_run s h)) -> (i1 = i2 <-> k1 = k2).
Proof. exact registry_identity_lemma. Qed.
Check registry_identity_is_key_identity : forall h s, rinv s ->
  forall k1 i1 k2 i2, In (k1, i1) (snd (greg_run s h)) -> In (k2, i2) (snd (greg_run s h)) -> (i1 = i2 <-> k1 = k2).
Print Assumptions registry_identity_is_key_identity.

Theorem registry_keyfor_inverts : forall h s, rinv s ->
  forall k i, In (k, i) (snd (greg_run s h)) -> rkey i (fst (fst (greg_run s h))) = Some k.
Proof. exact registry_keyfor_lemma. Qed.
Check registry_keyfor_inverts : forall h s, rinv s ->
  forall k i, In (k, i) (snd (greg_run s h)) -> rkey i (fst (fst (greg_run s h))) = Some k.
Print Assumptions registry_keyfor_inverts.

Example registry_hypothesis_satisfiable : rinv ([], 128).
Proof. repeat split; simpl; constructor. Qed.
