(* C20 deepening: the mechanism that implements realm isolation in boa, transliterated.

   core/engine/src/context/mod.rs      Context::realm()        = &self.vm.frame().realm
                                       Context::intrinsics()   = self.vm.frame().realm.intrinsics()
                                       Context::global_object()= self.vm.frame().realm.global_object()
                                       enter_realm(r)          = mem::replace(&mut self.vm.frame_mut().realm, r)
                                       swap_realm(&mut r)      = mem::swap(&mut self.vm.frame_mut().realm, r)
                                       create_realm()          = Realm::create; old = enter_realm(new);
                                                                 set_default_global_bindings; enter_realm(old)
                                       eval(src)               = Script::parse(src, None, self)?.evaluate(self)
   core/engine/src/script.rs           parse: realm.unwrap_or_else(|| context.realm().clone());
                                       prepare_run: push_frame(CallFrame::new(code, .., self.inner.realm.clone())); .. pop_frame
   core/engine/src/builtins/function/mod.rs  function_call: realm = function.realm(); push_frame(CallFrame::new(code,..,realm))
   core/engine/src/native_function/mod.rs    native_function_call / native_function_construct:
                                       let mut realm = realm.unwrap_or_else(|| context.realm().clone());
                                       context.swap_realm(&mut realm);  result = function.call(..);
                                       context.swap_realm(&mut realm);  ..; push(result?)      (swap back on BOTH paths)
   core/engine/src/environments/runtime/mod.rs  global bindings: self.vm.frame().realm.environment() / self.global_object()

   The "current realm" is one mutable field of the top call frame.  The model is the stack of those fields. *)
From Coq Require Import Arith List Bool Lia.
Import ListNotations.

Definition realm := nat.

Inductive act :=
| AEnter (r : realm)                              (* enter_realm(r), returned old realm dropped (careless host/native code) *)
| AProbe                                          (* read vm.frame().realm: intrinsics(), global_object(), global binding resolution *)
| AThrow                                          (* abrupt completion *)
| ATry (body : list act)                          (* try { body } catch {} in the same frame *)
| ACallFn (rf : realm) (body : list act)          (* [[Call]]/[[Construct]] of an ordinary function whose [[Realm]] is rf *)
| ACallNative (rn : option realm) (body : list act) (* native_function_call / native_function_construct *)
| AEval (body : list act)                         (* Context::eval = Script::parse(src, None) + evaluate *)
| ACreateRealm.                                   (* Context::create_realm *)

Inductive ev := EProbe (r : realm) | ECatch.

Record vm := mkVM { top : realm; rest : list realm; nextr : nat; tr : list ev }.

Definition set_top (r : realm) (s : vm) : vm := mkVM r (rest s) (nextr s) (tr s).
Definition push (r : realm) (s : vm) : vm := mkVM r (top s :: rest s) (nextr s) (tr s).
Definition pop (s : vm) : vm :=
  match rest s with
  | r :: t => mkVM r t (nextr s) (tr s)
  | [] => s
  end.
Definition log (e : ev) (s : vm) : vm := mkVM (top s) (rest s) (nextr s) (e :: tr s).
Definition bump (s : vm) : vm := mkVM (top s) (rest s) (S (nextr s)) (tr s).

(* result: state and "completed abruptly" *)
Fixpoint run (a : act) (s : vm) {struct a} : vm * bool :=
  let run_list :=
    fix run_list (l : list act) (s : vm) {struct l} : vm * bool :=
      match l with
      | [] => (s, false)
      | x :: t => let '(s1, ab) := run x s in if ab then (s1, true) else run_list t s1
      end in
  match a with
  | AEnter r => (set_top r s, false)
  | AProbe => (log (EProbe (top s)) s, false)
  | AThrow => (s, true)
  | ATry b => let '(s1, ab) := run_list b s in ((if ab then log ECatch s1 else s1), false)
  | ACallFn rf b =>
      (* push_frame(CallFrame::new(.., function.realm())) .. the frame is popped on return and on unwinding *)
      let '(s1, ab) := run_list b (push rf s) in (pop s1, ab)
  | ACallNative rn b =>
      (* realm = rn.unwrap_or(current); swap_realm(&mut realm)  [local now holds the caller's realm] *)
      let saved := top s in
      let s0 := match rn with Some r => set_top r s | None => s end in
      let '(s1, ab) := run_list b s0 in
      (* swap_realm(&mut realm) before `result?` *)
      (set_top saved s1, ab)
  | AEval b =>
      (* Script::parse captures context.realm(); evaluate pushes a frame with it and pops it *)
      let r := top s in
      let '(s1, ab) := run_list b (push r s) in (pop s1, ab)
  | ACreateRealm =>
      let old := top s in
      let s1 := set_top (nextr s) (bump s) in      (* old = enter_realm(new) *)
      (set_top old s1, false)                       (* set_default_global_bindings; enter_realm(old) *)
  end.

Fixpoint run_list (l : list act) (s : vm) {struct l} : vm * bool :=
  match l with
  | [] => (s, false)
  | x :: t => let '(s1, ab) := run x s in if ab then (s1, true) else run_list t s1
  end.

(* entries: everything that transfers control into other code *)
Definition entry (a : act) : bool :=
  match a with
  | ACallFn _ _ | ACallNative _ _ | AEval _ | ACreateRealm => true
  | _ => false
  end.

Definition init (r : realm) (n : nat) : vm := mkVM r [] n [].

(** * unfolding equations *)
Lemma run_try : forall b s, run (ATry b) s = let '(s1, ab) := run_list b s in ((if ab then log ECatch s1 else s1), false).
Proof. reflexivity. Qed.
Lemma run_callfn : forall rf b s, run (ACallFn rf b) s = let '(s1, ab) := run_list b (push rf s) in (pop s1, ab).
Proof. reflexivity. Qed.
Lemma run_native : forall rn b s, run (ACallNative rn b) s =
  let '(s1, ab) := run_list b (match rn with Some r => set_top r s | None => s end) in (set_top (top s) s1, ab).
Proof. reflexivity. Qed.
Lemma run_eval : forall b s, run (AEval b) s = let '(s1, ab) := run_list b (push (top s) s) in (pop s1, ab).
Proof. reflexivity. Qed.

(** * induction over call trees *)
Section ActInd.
  Variable P : act -> Prop.
  Hypothesis HEnter : forall r, P (AEnter r).
  Hypothesis HProbe : P AProbe.
  Hypothesis HThrow : P AThrow.
  Hypothesis HTry : forall b, Forall P b -> P (ATry b).
  Hypothesis HFn : forall rf b, Forall P b -> P (ACallFn rf b).
  Hypothesis HNat : forall rn b, Forall P b -> P (ACallNative rn b).
  Hypothesis HEval : forall b, Forall P b -> P (AEval b).
  Hypothesis HCreate : P ACreateRealm.

  Fixpoint act_tree_ind (a : act) : P a :=
    let go := fix go (l : list act) : Forall P l :=
      match l with
      | [] => Forall_nil P
      | x :: t => Forall_cons x (act_tree_ind x) (go t)
      end in
    match a with
    | AEnter r => HEnter r
    | AProbe => HProbe
    | AThrow => HThrow
    | ATry b => HTry b (go b)
    | ACallFn rf b => HFn rf b (go b)
    | ACallNative rn b => HNat rn b (go b)
    | AEval b => HEval b (go b)
    | ACreateRealm => HCreate
    end.
End ActInd.

(** * the frames below the top one are never touched; entries restore the top one *)
Definition keeps_rest (a : act) : Prop := forall s, rest (fst (run a s)) = rest s.

Lemma list_keeps_rest : forall l, Forall keeps_rest l -> forall s, rest (fst (run_list l s)) = rest s.
Proof.
  induction l as [|x t IH]; intros H s; simpl; auto.
  inversion H; subst. specialize (H2 s). destruct (run x s) as [s1 ab]. simpl in H2.
  destruct ab; simpl; auto. rewrite IH; auto.
Qed.

Lemma all_keep_rest : forall a, keeps_rest a.
Proof.
  apply act_tree_ind; unfold keeps_rest; intros; try reflexivity.
  - rewrite run_try. pose proof (list_keeps_rest b H s) as E. destruct (run_list b s) as [s1 ab]. simpl in *.
    destruct ab; auto.
  - rewrite run_callfn. pose proof (list_keeps_rest b H (push rf s)) as E.
    destruct (run_list b (push rf s)) as [s1 ab]. simpl in *. unfold pop. rewrite E. reflexivity.
  - rewrite run_native. set (s0 := match rn with Some r => set_top r s | None => s end).
    pose proof (list_keeps_rest b H s0) as E. destruct (run_list b s0) as [s1 ab]. simpl in *.
    rewrite E. unfold s0. destruct rn; reflexivity.
  - rewrite run_eval. pose proof (list_keeps_rest b H (push (top s) s)) as E.
    destruct (run_list b (push (top s) s)) as [s1 ab]. simpl in *. unfold pop. rewrite E. reflexivity.
Qed.

Lemma run_list_rest : forall l s, rest (fst (run_list l s)) = rest s.
Proof. intros. apply list_keeps_rest. apply Forall_forall. intros. apply all_keep_rest. Qed.

Lemma realm_restored_lemma : forall a s, entry a = true ->
  top (fst (run a s)) = top s /\ rest (fst (run a s)) = rest s.
Proof.
  intros a s He. split; [|apply all_keep_rest].
  destruct a; simpl in He; try discriminate.
  - rewrite run_callfn. pose proof (run_list_rest body (push rf s)) as E.
    destruct (run_list body (push rf s)) as [s1 ab]. simpl in *. unfold pop. rewrite E. reflexivity.
  - rewrite run_native. destruct (run_list body _) as [s1 ab]. reflexivity.
  - rewrite run_eval. pose proof (run_list_rest body (push (top s) s)) as E.
    destruct (run_list body (push (top s) s)) as [s1 ab]. simpl in *. unfold pop. rewrite E. reflexivity.
  - reflexivity.
Qed.

Lemma entries_restored_lemma : forall l s, forallb entry l = true ->
  top (fst (run_list l s)) = top s /\ rest (fst (run_list l s)) = rest s.
Proof.
  induction l as [|x t IH]; intros s H; simpl; auto.
  simpl in H. apply andb_true_iff in H. destruct H as [Hx Ht].
  destruct (realm_restored_lemma x s Hx) as [T R]. destruct (run x s) as [s1 ab]. simpl in *.
  destruct ab; simpl; auto. destruct (IH s1 Ht) as [T' R']. split; congruence.
Qed.

(* a host entry sequence from the host's point of view: the host realm (bottom frame) is unchanged whatever the
   entries do, normally or abruptly, including natives that call enter_realm and never restore *)
Lemma host_realm_unchanged_lemma : forall r n l, forallb entry l = true ->
  top (fst (run_list l (init r n))) = r /\ rest (fst (run_list l (init r n))) = [].
Proof. intros. apply (entries_restored_lemma l (init r n) H). Qed.

(** * resolution inside a function uses the function's own realm *)
Lemma probe_logs_top : forall s, tr (fst (run AProbe s)) = EProbe (top s) :: tr s.
Proof. reflexivity. Qed.

Lemma global_resolution_lemma :
  (* ordinary function of realm rf: after any balanced prefix, a probe in its body sees rf — whatever the caller's realm *)
  (forall rf pre s s1, forallb entry pre = true -> run_list pre (push rf s) = (s1, false) ->
     tr (fst (run AProbe s1)) = EProbe rf :: tr s1) /\
  (* native function created in realm rn *)
  (forall rn pre s s1, forallb entry pre = true -> run_list pre (set_top rn s) = (s1, false) ->
     tr (fst (run AProbe s1)) = EProbe rn :: tr s1) /\
  (* a script evaluated through Context::eval runs in the realm that was current at the call *)
  (forall pre s s1, forallb entry pre = true -> run_list pre (push (top s) s) = (s1, false) ->
     tr (fst (run AProbe s1)) = EProbe (top s) :: tr s1).
Proof.
  repeat split; intros.
  - rewrite probe_logs_top. destruct (entries_restored_lemma pre (push rf s) H) as [T _]. rewrite H0 in T. simpl in T. now rewrite T.
  - rewrite probe_logs_top. destruct (entries_restored_lemma pre (set_top rn s) H) as [T _]. rewrite H0 in T. simpl in T. now rewrite T.
  - rewrite probe_logs_top. destruct (entries_restored_lemma pre (push (top s) s) H) as [T _]. rewrite H0 in T. simpl in T. now rewrite T.
Qed.

(* the whole behaviour of a callee is independent of the caller's current realm when the callee is an ordinary function:
   the new frame installs the callee's realm before anything is read, and the caller's field is only restored *)
Definition agree (a b : vm) : Prop := top a = top b /\ nextr a = nextr b /\ tr a = tr b.
Definition Q (x : act) : Prop := forall a b, agree a b -> agree (fst (run x a)) (fst (run x b)) /\ snd (run x a) = snd (run x b).

Lemma list_Q : forall l, Forall Q l -> forall a b, agree a b ->
  agree (fst (run_list l a)) (fst (run_list l b)) /\ snd (run_list l a) = snd (run_list l b).
Proof.
  induction l as [|x t IH]; intros HF a b Hab; simpl; auto.
  inversion HF as [|? ? Hx Ht]; subst. destruct (Hx a b Hab) as [E1 E2].
  destruct (run x a) as [sa aa], (run x b) as [sb ab]. simpl in *. subst ab.
  destruct aa; simpl; auto.
Qed.

Lemma all_Q : forall x, Q x.
Proof.
  apply act_tree_ind; unfold Q.
  - intros r a b (H1 & H2 & H3). simpl. unfold agree. simpl. auto.
  - intros a b (H1 & H2 & H3). simpl. unfold agree. simpl. rewrite H1, H3. auto.
  - intros a b H. simpl. auto.
  - intros b0 HF a b Hab. rewrite !run_try. destruct (list_Q b0 HF a b Hab) as [(E1 & E2 & E3) E4].
    destruct (run_list b0 a) as [sa aa], (run_list b0 b) as [sb ab]. simpl in *. subst ab.
    destruct aa; simpl; unfold agree; simpl; auto. rewrite E3. auto.
  - intros rf0 b0 HF a b (H1 & H2 & H3). rewrite !run_callfn.
    assert (Hp : agree (push rf0 a) (push rf0 b)) by (unfold agree; simpl; auto).
    destruct (list_Q b0 HF _ _ Hp) as [(E1 & E2 & E3) E4].
    pose proof (run_list_rest b0 (push rf0 a)) as Ra. pose proof (run_list_rest b0 (push rf0 b)) as Rb.
    destruct (run_list b0 (push rf0 a)) as [sa aa], (run_list b0 (push rf0 b)) as [sb ab]. simpl in *.
    unfold pop. rewrite Ra, Rb. unfold agree. simpl. auto.
  - intros rn b0 HF a b (H1 & H2 & H3). rewrite !run_native.
    assert (Hp : agree (match rn with Some r => set_top r a | None => a end) (match rn with Some r => set_top r b | None => b end))
      by (destruct rn; unfold agree; simpl; auto).
    destruct (list_Q b0 HF _ _ Hp) as [(E1 & E2 & E3) E4].
    destruct (run_list b0 _) as [sa aa], (run_list b0 _) as [sb ab]. simpl in *. unfold agree. simpl. auto.
  - intros b0 HF a b (H1 & H2 & H3). rewrite !run_eval.
    assert (Hp : agree (push (top a) a) (push (top b) b)) by (unfold agree; simpl; auto).
    destruct (list_Q b0 HF _ _ Hp) as [(E1 & E2 & E3) E4].
    pose proof (run_list_rest b0 (push (top a) a)) as Ra. pose proof (run_list_rest b0 (push (top b) b)) as Rb.
    destruct (run_list b0 (push (top a) a)) as [sa aa], (run_list b0 (push (top b) b)) as [sb ab]. simpl in *.
    unfold pop. rewrite Ra, Rb. unfold agree. simpl. auto.
  - intros a b (H1 & H2 & H3). simpl. unfold agree. simpl. rewrite H2. auto.
Qed.

Lemma callee_independent_of_caller_realm_lemma : forall rf body s r',
  tr (fst (run (ACallFn rf body) (set_top r' s))) = tr (fst (run (ACallFn rf body) s)) /\
  snd (run (ACallFn rf body) (set_top r' s)) = snd (run (ACallFn rf body) s).
Proof.
  intros. rewrite !run_callfn.
  assert (Hp : agree (push rf (set_top r' s)) (push rf s)) by (unfold agree; simpl; auto).
  destruct (list_Q body (proj2 (Forall_forall Q body) (fun x _ => all_Q x)) _ _ Hp) as [(E1 & E2 & E3) E4].
  destruct (run_list body (push rf (set_top r' s))) as [sa aa], (run_list body (push rf s)) as [sb ab]. simpl in *.
  split; auto. unfold pop. destruct (rest sa), (rest sb); simpl; auto.
Qed.
