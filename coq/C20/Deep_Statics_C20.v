(* C20 deepening: facts about the regenerated inventory of process-/thread-wide state (coq/Gen/Statics_C20.v). *)
From Coq Require Import List String Bool.
From Gen Require Import Statics_C20.
Import ListNotations.
Open Scope string_scope.

Lemma statics_all_classified_lemma : forallb (fun e => is_classified (snd e)) inventory = true.
Proof. vm_compute. reflexivity. Qed.

(* the items that hand out identities or cache answers: each is covered by a theorem of Deep_Caches_C20.v
   (FreshCounter -> counter_observations_history_independent; ContentKeyed -> memo_answers_function_of_key,
    registry_identity_is_key_identity).  A new one changes this list and has to be argued. *)
Definition caches_expected : list string :=
  ["GLOBAL_SYMBOL_REGISTRY"; "ASYNC_EVAL_QUEUE_INDEX"; "SYMBOL_HASH_COUNT"; "CODEBLOCK_ID_COUNTER"; "RAW_STATICS_CACHE"].
Lemma caches_pinned_lemma : caches = caches_expected.
Proof. vm_compute. reflexivity. Qed.
