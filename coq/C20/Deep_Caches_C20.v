(* C20 deepening: process-/thread-wide state whose answers must not depend on history.
   The inventory itself is regenerated from the sources (coq/Gen/Statics_C20.v, tools/gen_c20.py); this file states and
   proves, for each *kind* of such state, the model-level reason why it cannot carry information between contexts:

   FreshCounter  (symbol.rs SYMBOL_HASH_COUNT, code_block.rs CODEBLOCK_ID_COUNTER, module/source.rs ASYNC_EVAL_QUEUE_INDEX):
                 identifiers are only compared (Eq/Ord/Hash of JsSymbol = its counter value): every comparison between the
                 identifiers one context obtained is determined by the order in which it obtained them, whatever the start
                 value and whatever other contexts allocated in between.
   ContentKeyed  (string/common.rs RAW_STATICS_CACHE, shape forward-transition caches with weak entries, generic memo):
                 a cache whose entries are (k, f k) answers f k on every path: hit, miss, after eviction, after insertion by
                 somebody else.
   Registry      (builtins/symbol/mod.rs GLOBAL_SYMBOL_REGISTRY: get_or_create_symbol / get_key): identities handed out
                 for keys are equal exactly when the keys are equal, and keyFor inverts it, whoever else uses the registry. *)
From Coq Require Import NArith Arith List Bool Lia Sorted.
Import ListNotations.

(** * fresh counters *)
Inductive who := Us | Other.

(* fetch_update(|v| v.checked_add(1)) : returns the previous value *)
Fixpoint our_ids (n : nat) (h : list who) : list nat :=
  match h with
  | [] => []
  | Us :: t => n :: our_ids (S n) t
  | Other :: t => our_ids (S n) t
  end.

Lemma our_ids_lower : forall h n x, In x (our_ids n h) -> n <= x.
Proof.
  induction h as [|w t IH]; intros n x H; simpl in H; [contradiction|].
  destruct w; [destruct H as [<-|H]; [lia|]|]; apply IH in H; lia.
Qed.

Lemma our_ids_sorted : forall h n, StronglySorted lt (our_ids n h).
Proof.
  induction h as [|w t IH]; intro n; simpl; [constructor|].
  destruct w; [|apply IH]. constructor; [apply IH|].
  apply Forall_forall. intros x Hx. apply our_ids_lower in Hx. lia.
Qed.

Lemma our_ids_length : forall h n, length (our_ids n h) = length (filter (fun w => match w with Us => true | Other => false end) h).
Proof. induction h as [|w t IH]; intro n; simpl; auto. destruct w; simpl; auto. Qed.

Lemma sorted_nth_compare : forall (l : list nat), StronglySorted lt l ->
  forall i j, i < length l -> j < length l -> Nat.compare (nth i l 0) (nth j l 0) = Nat.compare i j.
Proof.
  intros l H. induction H as [|a l Hs IH Hf]; intros i j Hi Hj; simpl in *; [lia|].
  rewrite Forall_forall in Hf.
  destruct i as [|i], j as [|j]; simpl.
  - apply Nat.compare_refl.
  - apply Nat.compare_lt_iff. apply Hf. apply nth_In. lia.
  - apply Nat.compare_gt_iff. apply Hf. apply nth_In. lia.
  - apply IH; lia.
Qed.

(* every Eq / Ord / Hash-equality observation on the identifiers of one context is a function of their order of creation *)
Lemma counter_observations_lemma : forall h n i j,
  i < length (our_ids n h) -> j < length (our_ids n h) ->
  Nat.compare (nth i (our_ids n h) 0) (nth j (our_ids n h) 0) = Nat.compare i j.
Proof. intros. apply sorted_nth_compare; auto. apply our_ids_sorted. Qed.

(* hence two histories (other start value, other interleaving with other contexts) are indistinguishable *)
Lemma counter_history_independent_lemma : forall h1 n1 h2 n2 i j,
  i < length (our_ids n1 h1) -> j < length (our_ids n1 h1) ->
  i < length (our_ids n2 h2) -> j < length (our_ids n2 h2) ->
  Nat.compare (nth i (our_ids n1 h1) 0) (nth j (our_ids n1 h1) 0) =
  Nat.compare (nth i (our_ids n2 h2) 0) (nth j (our_ids n2 h2) 0).
Proof. intros. rewrite !counter_observations_lemma; auto. Qed.

(** * content-keyed caches *)
Section Memo.
  Variable V : Type.
  Variable f : N -> V.                      (* the uncached answer: determined by the key's content *)

  Definition cache := list (N * V).
  Definition consistent (c : cache) : Prop := Forall (fun kv => snd kv = f (fst kv)) c.

  Fixpoint find (k : N) (c : cache) : option V :=
    match c with
    | [] => None
    | (k', v) :: t => if N.eqb k' k then Some v else find k t
    end.

  Inductive cop :=
  | CGet (k : N)                            (* lookup, compute and insert on a miss *)
  | COther (k : N)                          (* another context does the same *)
  | CEvict (keep : N -> bool).              (* weak entries collected / table pruned: any subset survives *)

  Definition cstep (c : cache) (o : cop) : cache * option V :=
    match o with
    | CGet k => match find k c with Some v => (c, Some v) | None => ((k, f k) :: c, Some (f k)) end
    | COther k => match find k c with Some _ => (c, None) | None => ((k, f k) :: c, None) end
    | CEvict keep => (filter (fun kv => keep (fst kv)) c, None)
    end.

  Fixpoint crun (c : cache) (h : list cop) : list (option V) :=
    match h with
    | [] => []
    | o :: t => let '(c', a) := cstep c o in a :: crun c' t
    end.

  (* what an uncached engine would answer *)
  Definition direct (o : cop) : option V := match o with CGet k => Some (f k) | _ => None end.

  Lemma find_consistent : forall c k v, consistent c -> find k c = Some v -> v = f k.
  Proof.
    induction c as [|[k' v'] c IH]; intros k v H E; simpl in E; [discriminate|].
    inversion H; subst. destruct (N.eqb_spec k' k).
    - inversion E; subst. simpl in H2. assumption.
    - eapply IH; eauto.
  Qed.

  Lemma cstep_consistent : forall c o, consistent c -> consistent (fst (cstep c o)) /\ snd (cstep c o) = direct o.
  Proof.
    intros c o H. destruct o as [k|k|keep]; simpl.
    - destruct (find k c) as [v|] eqn:E; simpl.
      + split; auto. f_equal. eapply find_consistent; eauto.
      + split; auto. constructor; auto.
    - destruct (find k c) as [v|] eqn:E; simpl; split; auto. constructor; auto.
    - split; auto. unfold consistent in *. rewrite Forall_forall in *. intros x Hx. apply filter_In in Hx. apply H. tauto.
  Qed.

  Lemma memo_answers_lemma : forall h c, consistent c -> crun c h = map direct h.
  Proof.
    induction h as [|o t IH]; intros c H; simpl; auto.
    destruct (cstep_consistent c o H) as [Hc Ha]. destruct (cstep c o) as [c' a]. simpl in *. subst a. f_equal. auto.
  Qed.
End Memo.

(** * the global symbol registry *)
Definition registry := (list (N * nat) * nat)%type.      (* keys -> symbol identity, and the symbol hash counter *)

Fixpoint rfind (k : N) (r : list (N * nat)) : option nat :=
  match r with
  | [] => None
  | (k', i) :: t => if N.eqb k' k then Some i else rfind k t
  end.
Fixpoint rkey (i : nat) (r : list (N * nat)) : option N :=
  match r with
  | [] => None
  | (k, i') :: t => if Nat.eqb i' i then Some k else rkey i t
  end.

Inductive greg_op :=
| RFor (w : who) (k : N)        (* Symbol.for(k): get_or_create_symbol *)
| RFresh (w : who).             (* Symbol(): takes a counter value, does not touch the registry *)

Definition greg_step (s : registry) (o : greg_op) : registry * option (N * nat) :=
  let '(r, n) := s in
  match o with
  | RFor w k =>
      match rfind k r with
      | Some i => (s, match w with Us => Some (k, i) | Other => None end)
      | None => (((k, n) :: r, S n), match w with Us => Some (k, n) | Other => None end)
      end
  | RFresh _ => ((r, S n), None)
  end.

Fixpoint greg_run (s : registry) (h : list greg_op) : registry * list (N * nat) :=
  match h with
  | [] => (s, [])
  | o :: t => let '(s1, a) := greg_step s o in
              let '(s2, res) := greg_run s1 t in
              (s2, match a with Some x => x :: res | None => res end)
  end.

Definition rinv (s : registry) : Prop :=
  NoDup (map fst (fst s)) /\ NoDup (map snd (fst s)) /\ Forall (fun e => snd e < snd s) (fst s).

Lemma rfind_in : forall k r i, rfind k r = Some i -> In (k, i) r.
Proof.
  induction r as [|[k' i'] r IH]; intros i H; simpl in H; [discriminate|].
  destruct (N.eqb_spec k' k); [inversion H; subst; now left|right; auto].
Qed.
Lemma rfind_none : forall k r, rfind k r = None -> ~ In k (map fst r).
Proof.
  induction r as [|[k' i'] r IH]; intro H; simpl in *; [tauto|].
  destruct (N.eqb_spec k' k); [discriminate|]. intros [Hc|Hc]; [congruence|now apply IH].
Qed.

Lemma greg_step_inv : forall s o, rinv s ->
  rinv (fst (greg_step s o)) /\ incl (fst s) (fst (fst (greg_step s o))) /\
  (forall x, snd (greg_step s o) = Some x -> In x (fst (fst (greg_step s o)))).
Proof.
  intros [r n] o (H1 & H2 & H3). destruct o as [w k|w]; simpl.
  - destruct (rfind k r) as [i|] eqn:E; simpl.
    + split; [split; [exact H1|split; [exact H2|exact H3]]|]. split; [apply incl_refl|].
      intros x Hx. destruct w; inversion Hx; subst. now apply rfind_in.
    + split; [split; [|split]|split]; simpl.
      * constructor; auto. now apply rfind_none.
      * constructor; auto. intro Hc. apply in_map_iff in Hc. destruct Hc as [[k' i'] [Hi Hin]]. simpl in Hi. subst.
        rewrite Forall_forall in H3. specialize (H3 _ Hin). simpl in H3. lia.
      * constructor; simpl; [lia|]. eapply Forall_impl; [|exact H3]. intros; simpl in *; lia.
      * apply incl_tl, incl_refl.
      * intros x Hx. destruct w; inversion Hx; subst. now left.
  - split; [split; [exact H1|split; [exact H2|]]|split; [apply incl_refl|discriminate]].
    simpl. eapply Forall_impl; [|exact H3]. intros; simpl in *; lia.
Qed.

Lemma greg_run_inv : forall h s, rinv s ->
  rinv (fst (greg_run s h)) /\ incl (fst s) (fst (fst (greg_run s h))) /\ incl (snd (greg_run s h)) (fst (fst (greg_run s h))).
Proof.
  induction h as [|o t IH]; intros s H; simpl.
  - split; [exact H|]. split; [apply incl_refl|]. intros x Hx. destruct Hx.
  - destruct (greg_step_inv s o H) as (I1 & I2 & I3). destruct (greg_step s o) as [s1 a]. simpl in *.
    destruct (IH s1 I1) as (J1 & J2 & J3). destruct (greg_run s1 t) as [s2 res]. simpl in *.
    split; [exact J1|]. split.
    + eapply incl_tran; eauto.
    + destruct a as [x|]; [|exact J3]. intros y Hy. destruct Hy as [Hy|Hy]; [subst y; apply J2; apply I3; reflexivity|apply J3; exact Hy].
Qed.

Lemma nodup_fst_fun : forall (l : list (N * nat)) k a b, NoDup (map fst l) -> In (k, a) l -> In (k, b) l -> a = b.
Proof.
  induction l as [|[k' c] l IH]; intros k a b H Ha Hb; [contradiction|]. simpl in H. inversion H; subst.
  destruct Ha as [Ha|Ha], Hb as [Hb|Hb].
  - congruence.
  - inversion Ha; subst. exfalso. apply H2. apply in_map_iff. exists (k, b). auto.
  - inversion Hb; subst. exfalso. apply H2. apply in_map_iff. exists (k, a). auto.
  - eapply IH; eauto.
Qed.
Lemma nodup_snd_fun : forall (l : list (N * nat)) i a b, NoDup (map snd l) -> In (a, i) l -> In (b, i) l -> a = b.
Proof.
  induction l as [|[c i'] l IH]; intros i a b H Ha Hb; [contradiction|]. simpl in H. inversion H; subst.
  destruct Ha as [Ha|Ha], Hb as [Hb|Hb].
  - congruence.
  - inversion Ha; subst. exfalso. apply H2. apply in_map_iff. exists (b, i). auto.
  - inversion Hb; subst. exfalso. apply H2. apply in_map_iff. exists (a, i). auto.
  - eapply IH; eauto.
Qed.

(* our Symbol.for results: identities are equal exactly when the keys are equal - for every history, whoever else uses
   the registry or the counter, from whatever (well-formed) registry state we start *)
Lemma registry_identity_lemma : forall h s, rinv s ->
  forall k1 i1 k2 i2, In (k1, i1) (snd (greg_run s h)) -> In (k2, i2) (snd (greg_run s h)) -> (i1 = i2 <-> k1 = k2).
Proof.
  intros h s H k1 i1 k2 i2 A B. destruct (greg_run_inv h s H) as ((N1 & N2 & _) & _ & J).
  apply J in A. apply J in B. split; intro; subst.
  - eapply nodup_snd_fun; eauto.
  - eapply nodup_fst_fun; eauto.
Qed.

Lemma rkey_in : forall r k i, NoDup (map snd r) -> In (k, i) r -> rkey i r = Some k.
Proof.
  induction r as [|[k' i'] r IH]; intros k i H Hin; [contradiction|]. simpl in *. inversion H; subst.
  destruct Hin as [Hin|Hin].
  - inversion Hin; subst. now rewrite Nat.eqb_refl.
  - destruct (Nat.eqb_spec i' i); [|auto]. subst. exfalso. apply H2. apply in_map_iff. exists (k, i). auto.
Qed.

(* Symbol.keyFor inverts Symbol.for at any later time *)
Lemma registry_keyfor_lemma : forall h s, rinv s ->
  forall k i, In (k, i) (snd (greg_run s h)) -> rkey i (fst (fst (greg_run s h))) = Some k.
Proof.
  intros h s H k i A. destruct (greg_run_inv h s H) as ((N1 & N2 & _) & _ & J). apply rkey_in; auto.
Qed.
