(* C20: all lemmas (re-export). *)
From C20 Require Export Model_C20 Proofs_Keys Proofs_MapA Proofs_MapB Proofs_MapC Proofs_Realm.
