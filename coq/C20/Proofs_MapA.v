(* C20 part 2: OrderedMap/OrderedSet with tombstones, locks and index cursors refine the never-compacting
   [[MapData]] list of ECMA-262 on every interleaving of operations, cursor steps and cursor drops — except
   for cursors that had already advanced when clear() ran (the `tainted` flag of the specification run). *)
From Coq Require Import NArith Arith List Bool Lia Permutation.
From C20 Require Import Model_C20.
Import ListNotations.

(** * lists *)
Lemma set_nth_app : forall (A : Type) (l1 : list A) x y l2, set_nth (length l1) y (l1 ++ x :: l2) = l1 ++ y :: l2.
Proof. induction l1; simpl; intros; auto. now rewrite IHl1. Qed.

Lemma remove_nth_app : forall (A : Type) (l1 : list A) x l2, remove_nth (length l1) (l1 ++ x :: l2) = l1 ++ l2.
Proof. induction l1; simpl; intros; auto. now rewrite IHl1. Qed.

Lemma set_nth_len : forall (A : Type) i (x : A) l, length (set_nth i x l) = length l.
Proof. intros A i x l. revert i. induction l; destruct i; simpl; auto. Qed.

Lemma nth_error_set_nth_other : forall (A : Type) i j (x : A) l, i <> j -> nth_error (set_nth i x l) j = nth_error l j.
Proof. intros A i j x l. revert i j. induction l as [|a l IH]; intros [|i] [|j] H; simpl; auto; congruence. Qed.

Lemma nth_error_set_nth_same : forall (A : Type) i (x y : A) l, nth_error l i = Some y -> nth_error (set_nth i x l) i = Some x.
Proof. intros A i x y l. revert i. induction l as [|a l IH]; intros [|i] H; simpl in *; auto; try discriminate. Qed.

Lemma NoDup_snoc : forall (A : Type) (l : list A) x, NoDup l -> ~ In x l -> NoDup (l ++ [x]).
Proof.
  intros A l x Hn Hx. eapply Permutation_NoDup; [apply Permutation_cons_append|]. now constructor.
Qed.

Lemma skipn_cons_nth : forall (A : Type) i (l : list A) x, nth_error l i = Some x -> skipn i l = x :: skipn (S i) l.
Proof. intros A i l. revert i. induction l as [|a l IH]; intros [|i] x H; simpl in *; try discriminate; auto. congruence. Qed.

Lemma skipn_app_le : forall (A : Type) n (l1 l2 : list A), n <= length l1 -> skipn n (l1 ++ l2) = skipn n l1 ++ l2.
Proof. intros. rewrite skipn_app. replace (n - length l1) with 0 by lia. reflexivity. Qed.

Lemma skipn_map_comm : forall (A B : Type) (f : A -> B) n l, skipn n (map f l) = map f (skipn n l).
Proof. intros A B f n. induction n; destruct l; simpl; auto. Qed.

(** * the abstraction of an entries vector and the live content of a [[MapData]] list *)
Fixpoint slive (l : list sentry) : list (N * N) :=
  match l with [] => [] | Some kv :: t => kv :: slive t | None :: t => slive t end.

Definition absl (l : list entry) : list sentry := map ent_live l.

Lemma slive_app : forall a b, slive (a ++ b) = slive a ++ slive b.
Proof. induction a as [|[kv|] a IH]; simpl; intros; auto. now rewrite IH. Qed.

Definition s_upd (k v : N) (l : list sentry) : list sentry :=
  map (fun e => match e with Some (k', v') => if N.eqb k' k then Some (k', v) else e | None => None end) l.

Lemma s_set_unfold : forall k v l, s_set k v l = if s_has k l then s_upd k v l else l ++ [Some (k, v)].
Proof. reflexivity. Qed.

Definition nokey (k : N) (l : list sentry) : Prop :=
  Forall (fun e => match e with Some (k', _) => k' <> k | None => True end) l.

Lemma nokey_upd : forall k v l, nokey k l -> s_upd k v l = l.
Proof.
  intros k v l H. induction H as [|[[k' v']|] l Hx Hl IH]; simpl; auto; f_equal; auto.
  destruct (N.eqb_spec k' k) as [e|e]; [exfalso; exact (Hx e)|reflexivity].
Qed.
Lemma nokey_del : forall k l, nokey k l -> s_del k l = l.
Proof.
  intros k l H. induction H as [|[[k' v']|] l Hx Hl IH]; simpl; auto; f_equal; auto.
  destruct (N.eqb_spec k' k) as [e|e]; [exfalso; exact (Hx e)|reflexivity].
Qed.
Lemma nokey_has : forall k l, nokey k l -> s_has k l = false.
Proof.
  intros k l H. induction H as [|[[k' v']|] l Hx Hl IH]; simpl; auto.
  destruct (N.eqb_spec k' k) as [e|e]; [exfalso; exact (Hx e)|exact IH].
Qed.

Lemma s_has_app : forall k a b, s_has k (a ++ b) = s_has k a || s_has k b.
Proof. intros. unfold s_has. apply existsb_app. Qed.

(* observations depend on the live content only *)
Definition has_live (k : N) (l : list (N * N)) : bool := existsb (fun kv => N.eqb (fst kv) k) l.
Fixpoint get_live (k : N) (l : list (N * N)) : option N :=
  match l with [] => None | (k', v) :: t => if N.eqb k' k then Some v else get_live k t end.

Lemma s_has_live : forall k l, s_has k l = has_live k (slive l).
Proof. intros k l. induction l as [|[[k' v]|] l IH]; simpl; auto. now rewrite <- IH. Qed.
Lemma s_get_live : forall k l, s_get k l = get_live k (slive l).
Proof. intros k l. induction l as [|[[k' v]|] l IH]; simpl; auto. now rewrite IH. Qed.
Lemma s_size_live : forall l, s_size l = length (slive l).
Proof. induction l as [|[kv|] l IH]; simpl; auto. Qed.

Definition del_live (k : N) (l : list (N * N)) := filter (fun kv => negb (N.eqb (fst kv) k)) l.
Definition upd_live (k v : N) (l : list (N * N)) := map (fun kv => if N.eqb (fst kv) k then (fst kv, v) else kv) l.

Lemma slive_del : forall k l, slive (s_del k l) = del_live k (slive l).
Proof.
  intros k l. induction l as [|[[k' v]|] l IH]; simpl; auto.
  destruct (N.eqb k' k); simpl; now rewrite IH.
Qed.
Lemma slive_upd : forall k v l, slive (s_upd k v l) = upd_live k v (slive l).
Proof.
  intros k v l. induction l as [|[[k' v']|] l IH]; simpl; auto.
  destruct (N.eqb k' k); simpl; now rewrite IH.
Qed.
Lemma slive_clear : forall l, slive (s_clear l) = [].
Proof. induction l; simpl; auto. Qed.

Lemma skipn_del : forall n k l, skipn n (s_del k l) = s_del k (skipn n l).
Proof. intros. apply skipn_map_comm. Qed.
Lemma skipn_upd : forall n k v l, skipn n (s_upd k v l) = s_upd k v (skipn n l).
Proof. intros. apply skipn_map_comm. Qed.

(** * IndexMap search *)
Lemma mkey_eqb_eq : forall a b, mkey_eqb a b = true <-> a = b.
Proof.
  intros [x|x] [y|y]; simpl; try (split; [discriminate|congruence]).
  - rewrite N.eqb_eq. split; congruence.
  - rewrite Nat.eqb_eq. split; congruence.
Qed.

Lemma im_find_some : forall key l i, im_find key l = Some i ->
  exists l1 x l2, l = l1 ++ (key, x) :: l2 /\ length l1 = i /\ ~ In key (map fst l1).
Proof.
  intros key l. induction l as [|[k x] l IH]; intros i H; simpl in H; [discriminate|].
  destruct (mkey_eqb key k) eqn:E.
  - apply mkey_eqb_eq in E. subst k. inversion H; subst. exists [], x, l. simpl. auto.
  - destruct (im_find key l) as [j|] eqn:F; simpl in H; [|discriminate]. inversion H; subst.
    destruct (IH j eq_refl) as (l1 & y & l2 & -> & Hl & Hn). exists ((k, x) :: l1), y, l2. simpl. repeat split; auto.
    intros [Hc|Hc]; [|contradiction]. subst k. assert (mkey_eqb key key = true) by now apply mkey_eqb_eq. congruence.
Qed.

Lemma im_find_none : forall key l, im_find key l = None <-> ~ In key (map fst l).
Proof.
  intros key l. induction l as [|[k x] l IH]; simpl; [tauto|].
  destruct (mkey_eqb key k) eqn:E.
  - apply mkey_eqb_eq in E. subst. split; [discriminate|]. intro H. exfalso. apply H. now left.
  - destruct (im_find key l) eqn:F; simpl.
    + split; [discriminate|]. intro H. exfalso. apply H. right. apply Decidable.not_not; [|intro Hc; apply IH in Hc; discriminate].
      unfold Decidable.decidable. destruct (in_dec (fun a b : mkey => ltac:(decide equality; [apply N.eq_dec|apply Nat.eq_dec]) : {a = b} + {a <> b}) key (map fst l)); auto.
    + split; auto. intros _ [Hc|Hc]; [|now apply IH in Hc].
      subst. assert (mkey_eqb key key = true) by now apply mkey_eqb_eq. congruence.
Qed.

Lemma im_find_app : forall key l l' i, im_find key l = Some i -> im_find key (l ++ l') = Some i.
Proof.
  intros key l l'. induction l as [|[k x] l IH]; intros i H; simpl in *; [discriminate|].
  destruct (mkey_eqb key k); auto.
  destruct (im_find key l) as [j|]; simpl in *; [|discriminate]. now rewrite (IH j eq_refl).
Qed.

(** * well-formed entries vectors *)
Definition ok_entry (ec : nat) (e : entry) : Prop :=
  match e with
  | (MKey _, Some _) => True
  | (MEmpty n, None) => n < ec
  | _ => False
  end.

Definition wf_ents (l : list entry) (ec : nat) : Prop :=
  NoDup (map fst l) /\ Forall (ok_entry ec) l /\ length l = length (slive (absl l)) + ec.

Lemma nokey_abs : forall k l, ~ In (MKey k) (map fst l) -> nokey k (absl l).
Proof.
  intros k l. induction l as [|[[k'|n] [v|]] l IH]; intro H; simpl in *; constructor; auto; try (apply IH; tauto).
  intro; subst. apply H. now left.
Qed.

Lemma absl_app : forall a b, absl (a ++ b) = absl a ++ absl b.
Proof. intros. unfold absl. apply map_app. Qed.

Lemma ok_mono : forall ec ec' l, ec <= ec' -> Forall (ok_entry ec) l -> Forall (ok_entry ec') l.
Proof.
  intros ec ec' l Hle H. eapply Forall_impl; [|exact H].
  intros [[k|n] [v|]] Hx; simpl in *; auto. lia.
Qed.

Lemma fresh_tomb : forall ec l, Forall (ok_entry ec) l -> ~ In (MEmpty ec) (map fst l).
Proof.
  intros ec l H Hin. apply in_map_iff in Hin. destruct Hin as [[k x] [Hk Hin]]. simpl in Hk. subst k.
  rewrite Forall_forall in H. specialize (H _ Hin). destruct x; simpl in H; [contradiction|lia].
Qed.

(* decomposition of a vector around a present key *)
Lemma wf_split : forall l ec k i, wf_ents l ec -> im_find (MKey k) l = Some i ->
  exists l1 v l2, l = l1 ++ (MKey k, Some v) :: l2 /\ length l1 = i /\ nokey k (absl l1) /\ nokey k (absl l2).
Proof.
  intros l ec k i (W1 & W2 & W4) H.
  destruct (im_find_some _ _ _ H) as (l1 & x & l2 & -> & Hl & Hn).
  rewrite Forall_forall in W2. assert (Hx := W2 (MKey k, x)). destruct x as [v|]; [|exfalso; apply Hx; apply in_or_app; right; now left].
  exists l1, v, l2. repeat split; auto.
  - now apply nokey_abs.
  - apply nokey_abs. rewrite map_app in W1. simpl in W1. apply NoDup_remove_2 in W1.
    intro Hc. apply W1. apply in_or_app. now right.
Qed.

Lemma absl_split : forall l1 k v l2, absl (l1 ++ (MKey k, Some v) :: l2) = absl l1 ++ Some (k, v) :: absl l2.
Proof. intros. now rewrite absl_app. Qed.

Lemma s_has_split : forall k v a b, s_has k (a ++ Some (k, v) :: b) = true.
Proof. intros. rewrite s_has_app. simpl. rewrite N.eqb_refl. apply orb_true_r. Qed.

Lemma s_upd_split : forall k v v0 a b, nokey k a -> nokey k b ->
  s_upd k v (a ++ Some (k, v0) :: b) = a ++ Some (k, v) :: b.
Proof.
  intros k v v0 a b Ha Hb.
  assert (Happ : s_upd k v (a ++ Some (k, v0) :: b) = s_upd k v a ++ s_upd k v (Some (k, v0) :: b)) by apply map_app.
  rewrite Happ, (nokey_upd k v a Ha). f_equal.
  change (s_upd k v (Some (k, v0) :: b)) with ((if N.eqb k k then Some (k, v) else Some (k, v0)) :: s_upd k v b).
  now rewrite N.eqb_refl, (nokey_upd k v b Hb).
Qed.
Lemma s_del_split : forall k v0 a b, nokey k a -> nokey k b ->
  s_del k (a ++ Some (k, v0) :: b) = a ++ None :: b.
Proof.
  intros k v0 a b Ha Hb.
  assert (Happ : s_del k (a ++ Some (k, v0) :: b) = s_del k a ++ s_del k (Some (k, v0) :: b)) by apply map_app.
  rewrite Happ, (nokey_del k a Ha). f_equal.
  change (s_del k (Some (k, v0) :: b)) with ((if N.eqb k k then None else Some (k, v0)) :: s_del k b).
  now rewrite N.eqb_refl, (nokey_del k b Hb).
Qed.

Lemma contains_has : forall l ec k, wf_ents l ec ->
  (match im_find (MKey k) l with Some _ => true | None => false end) = s_has k (absl l).
Proof.
  intros l ec k W. destruct (im_find (MKey k) l) as [i|] eqn:F.
  - destruct (wf_split _ _ _ _ W F) as (l1 & v & l2 & -> & _). rewrite absl_split. symmetry. apply s_has_split.
  - symmetry. apply nokey_has, nokey_abs. now apply im_find_none.
Qed.

(* insert *)
Lemma abs_insert : forall l ec k v, wf_ents l ec ->
  absl (im_insert (MKey k) (Some v) l) = s_set k v (absl l) /\ wf_ents (im_insert (MKey k) (Some v) l) ec.
Proof.
  intros l ec k v W. rewrite s_set_unfold. rewrite <- (contains_has l ec k W). unfold im_insert.
  destruct (im_find (MKey k) l) as [i|] eqn:F.
  - destruct (wf_split _ _ _ _ W F) as (l1 & v0 & l2 & -> & <- & N1 & N2).
    rewrite set_nth_app. split.
    + rewrite !absl_split. symmetry. now apply s_upd_split.
    + destruct W as (W1 & W2 & W4). repeat split.
      * rewrite map_app in *. exact W1.
      * apply Forall_app in W2. destruct W2 as [Wa Wb]. inversion Wb; subst. apply Forall_app. split; auto; constructor; simpl; auto.
      * rewrite !absl_split, !slive_app, !app_length in *. simpl in *. lia.
  - split; [now rewrite absl_app|]. destruct W as (W1 & W2 & W4). repeat split.
    + rewrite map_app. simpl. apply NoDup_snoc; auto. now apply im_find_none.
    + apply Forall_app. split; auto; constructor; simpl; auto.
    + rewrite absl_app, slive_app, !app_length. simpl. lia.
Qed.

(* remove under a lock: tombstone in place *)
Lemma abs_tomb : forall l ec k i, wf_ents l ec -> im_find (MKey k) l = Some i ->
  let l' := im_swap_remove (MKey k) (im_insert (MEmpty ec) None l) in
  absl l' = s_del k (absl l) /\ wf_ents l' (S ec).
Proof.
  intros l ec k i W F. pose proof W as (W1 & W2 & W4).
  assert (Hfresh : im_find (MEmpty ec) l = None) by (apply im_find_none; now apply fresh_tomb).
  unfold im_insert. rewrite Hfresh. unfold im_swap_remove. rewrite (im_find_app _ _ _ _ F).
  rewrite rev_app_distr. simpl. rewrite removelast_last.
  destruct (wf_split _ _ _ _ W F) as (l1 & v0 & l2 & -> & <- & N1 & N2).
  match goal with |- context [Nat.eqb ?a ?b] => destruct (Nat.eqb_spec a b) as [Hq|Hq] end.
  { exfalso. rewrite app_length in Hq. simpl in Hq. lia. }
  rewrite set_nth_app. split.
  - rewrite absl_split, absl_app. simpl. symmetry. now apply s_del_split.
  - repeat split.
    + rewrite map_app in *. simpl in *. eapply Permutation_NoDup; [apply Permutation_middle|].
      constructor.
      * intro Hc. apply (fresh_tomb ec _ W2). rewrite map_app. simpl.
        apply in_app_or in Hc. apply in_or_app. destruct Hc; [now left|right; now right].
      * eapply NoDup_remove_1; eauto.
    + apply Forall_app in W2. destruct W2 as [Wa Wb]. inversion Wb; subst. apply Forall_app. split.
      * eapply ok_mono; [|eassumption]. lia.
      * constructor; [simpl; lia|]. eapply ok_mono; [|eassumption]. lia.
    + rewrite absl_split in W4. rewrite absl_app. simpl. rewrite !slive_app, !app_length in *. simpl in *. lia.
Qed.

(* remove without a lock: shift *)
Lemma abs_shift : forall l ec k, wf_ents l ec ->
  slive (absl (im_shift_remove (MKey k) l)) = slive (s_del k (absl l)) /\ wf_ents (im_shift_remove (MKey k) l) ec.
Proof.
  intros l ec k W. unfold im_shift_remove. destruct (im_find (MKey k) l) as [i|] eqn:F.
  - destruct (wf_split _ _ _ _ W F) as (l1 & v0 & l2 & -> & <- & N1 & N2).
    rewrite remove_nth_app. split.
    + rewrite absl_split, s_del_split, absl_app, !slive_app; auto.
    + destruct W as (W1 & W2 & W4). repeat split.
      * rewrite map_app in *. simpl in W1. eapply NoDup_remove_1; eauto.
      * apply Forall_app in W2. destruct W2 as [Wa Wb]. inversion Wb; subst. apply Forall_app. split; auto.
      * rewrite absl_split in W4. rewrite absl_app, !slive_app, !app_length in *. simpl in *. lia.
  - split; auto. rewrite nokey_del; auto. apply nokey_abs. now apply im_find_none.
Qed.

(* unlock at zero: retain *)
Lemma abs_retain : forall l ec, Forall (ok_entry ec) l -> NoDup (map fst l) ->
  slive (absl (filter is_key_entry l)) = slive (absl l) /\ wf_ents (filter is_key_entry l) 0.
Proof.
  intros l ec H. induction H as [|[[k|n] [v|]] l Hx Hl IH]; intro Hn; simpl in *; try contradiction.
  - split; [reflexivity|]. repeat split; simpl; auto; constructor.
  - inversion Hn; subst. destruct (IH H2) as (E & W1 & W2 & W4). split; [now rewrite E|].
    repeat split; simpl.
    + constructor; auto. intro Hc. apply H1. apply in_map_iff in Hc. destruct Hc as [x [Hf Hin]].
      apply filter_In in Hin. apply in_map_iff. exists x. tauto.
    + constructor; simpl; auto.
    + rewrite W4. lia.
  - inversion Hn; subst. destruct (IH H2) as (E & W). split; auto.
Qed.

Lemma abs_get : forall l ec k, wf_ents l ec ->
  (match im_find (MKey k) l with
   | Some i => match nth_error l i with Some (_, v) => v | None => None end
   | None => None end) = s_get k (absl l).
Proof.
  intros l ec k W. destruct (im_find (MKey k) l) as [i|] eqn:F.
  - destruct (wf_split _ _ _ _ W F) as (l1 & v & l2 & -> & <- & N1 & N2).
    rewrite nth_error_app2 by lia. rewrite Nat.sub_diag. simpl.
    rewrite absl_split, s_get_live, slive_app. simpl.
    assert (forall a, nokey k a -> forall t, get_live k (slive a ++ t) = get_live k t).
    { intros a Ha t. induction Ha as [|[[k' v']|] a Hx Ha IH]; simpl; auto.
      destruct (N.eqb_spec k' k) as [e|e]; [exfalso; exact (Hx e)|exact IH]. }
    rewrite H by assumption. simpl. now rewrite N.eqb_refl.
  - assert (Hk : nokey k (absl l)) by (apply nokey_abs; now apply im_find_none).
    rewrite s_get_live. symmetry. clear -Hk.
    induction Hk as [|[[k' v']|] a Hx Ha IH]; simpl; auto.
    destruct (N.eqb_spec k' k) as [e|e]; [exfalso; exact (Hx e)|exact IH].
Qed.

(** * scanning *)
Lemma s_scan_spec : forall l idx r i, s_scan l idx = (r, i) ->
  exists n, i = idx + n /\ n <= length l /\
    match r with Some e => 0 < n /\ slive l = e :: slive (skipn n l) | None => slive l = [] end.
Proof.
  induction l as [|[e|] l IH]; intros idx r i H; simpl in H.
  - inversion H; subst. exists 0. simpl. repeat split; auto; try lia.
  - inversion H; subst. exists 1. simpl. repeat split; auto; try lia.
  - destruct (IH _ _ _ H) as (n & -> & Hn & Hr). exists (S n). simpl. repeat split; try lia.
    destruct r; [split; [lia|tauto]|assumption].
Qed.

Lemma skipn_skipn_add : forall (A : Type) n m (l : list A), skipn n (skipn m l) = skipn (m + n) l.
Proof. intros A n m. induction m; intros; simpl; auto. destruct l; simpl; auto. now destruct n. Qed.

Lemma scan_from : forall S b r i, b <= length S -> s_scan (skipn b S) b = (r, i) ->
  i <= length S /\
  match r with Some e => b < i /\ slive (skipn b S) = e :: slive (skipn i S) | None => slive (skipn b S) = [] end.
Proof.
  intros S b r i Hb H. destruct (s_scan_spec _ _ _ _ H) as (n & -> & Hn & Hr).
  rewrite skipn_length in Hn. split; [lia|]. destruct r; auto.
  destruct Hr as [Hp Hr]. split; [lia|]. now rewrite skipn_skipn_add in Hr.
Qed.

Lemma get_index_abs : forall m i, om_get_index m i = match nth_error (absl (ents m)) i with Some e => e | None => None end.
Proof. intros. unfold om_get_index, absl. rewrite nth_error_map. destruct (nth_error (ents m) i); reflexivity. Qed.

Lemma nth_error_skipn_head : forall (A : Type) i (l : list A), i < length l -> exists x, nth_error l i = Some x /\ skipn i l = x :: skipn (S i) l.
Proof.
  intros A i l H. destruct (nth_error l i) as [x|] eqn:E.
  - exists x. split; auto. now apply skipn_cons_nth.
  - apply nth_error_None in E. lia.
Qed.

Lemma next_loop_scan : forall m fuel idx, idx <= om_full_len m -> om_full_len m - idx < fuel ->
  let r := next_loop fuel m (om_full_len m) idx in
  let s := s_scan (skipn idx (absl (ents m))) idx in
  fst r = fst s /\ (fst s <> None -> snd r = snd s).
Proof.
  intros m fuel. induction fuel as [|f IH]; intros idx Hle Hf; [lia|].
  assert (HL : length (absl (ents m)) = om_full_len m) by (unfold absl, om_full_len; apply map_length).
  cbn [next_loop]. rewrite get_index_abs.
  destruct (lt_dec idx (om_full_len m)) as [Hlt|Hge].
  - destruct (nth_error_skipn_head _ idx (absl (ents m))) as (x & Hx & Hs); [lia|].
    rewrite Hx, Hs. destruct x as [e|]; cbn [s_scan fst snd].
    + split; auto.
    + destruct (Nat.leb_spec (om_full_len m) (S idx)).
      * assert (skipn (S idx) (absl (ents m)) = []) by (apply skipn_all2; lia). rewrite H0. cbn [s_scan fst snd]. split; auto; congruence.
      * apply IH; lia.
  - assert (idx = om_full_len m) by lia. subst idx.
    assert (nth_error (absl (ents m)) (om_full_len m) = None) by (apply nth_error_None; lia).
    rewrite H. assert (skipn (om_full_len m) (absl (ents m)) = []) by (apply skipn_all2; lia). rewrite H0. cbn [s_scan fst snd].
    destruct (Nat.leb_spec (om_full_len m) (S (om_full_len m))); [|lia]. cbn [fst snd]. split; auto; congruence.
Qed.

Lemma fe_loop_scan : forall m fuel idx, idx <= om_full_len m -> om_full_len m - idx < fuel ->
  let r := fe_loop fuel m idx in
  let s := s_scan (skipn idx (absl (ents m))) idx in
  fst r = fst s /\ (fst s <> None -> snd r = snd s).
Proof.
  intros m fuel. induction fuel as [|f IH]; intros idx Hle Hf; [lia|].
  assert (HL : length (absl (ents m)) = om_full_len m) by (unfold absl, om_full_len; apply map_length).
  cbn [fe_loop]. rewrite get_index_abs.
  destruct (Nat.ltb_spec idx (om_full_len m)) as [Hlt|Hge].
  - destruct (nth_error_skipn_head _ idx (absl (ents m))) as (x & Hx & Hs); [lia|].
    rewrite Hx, Hs. destruct x as [e|]; cbn [s_scan fst snd].
    + split; auto.
    + apply IH; lia.
  - assert (skipn idx (absl (ents m)) = []) by (apply skipn_all2; lia). rewrite H. cbn [s_scan fst snd]. split; auto; congruence.
Qed.

Lemma cursor_step_scan : forall m c, next_index c <= om_full_len m ->
  let r := cursor_step m c in
  let s := s_scan (skipn (next_index c) (absl (ents m))) (next_index c) in
  fst r = fst s /\ (fst s <> None -> snd r = snd s).
Proof.
  intros m c H. unfold cursor_step. destruct (ckd c).
  - apply next_loop_scan; lia.
  - apply fe_loop_scan; lia.
Qed.


(** * the simulation relation *)
Definition nlocked (cs : list cursor) : nat := length (filter locked cs).

Definition crel (A S : list sentry) (c : cursor) (sc : scursor) : Prop :=
  tainted sc = false ->
  locked c = negb (sdone sc) /\
  (locked c = true ->
     next_index c <= length A /\ sidx sc <= length S /\
     slive (skipn (next_index c) A) = slive (skipn (sidx sc) S) /\
     (sidx sc = 0 -> next_index c = 0)).

Definition R (ms : mstate) (ss : sstate) : Prop :=
  wf_ents (ents (om ms)) (empty_count (om ms)) /\
  lock (om ms) = nlocked (curs ms) /\
  slive (absl (ents (om ms))) = slive (sents ss) /\
  Forall2 (crel (absl (ents (om ms))) (sents ss)) (curs ms) (scurs ss).

Lemma Forall2_nth : forall (A B : Type) (P : A -> B -> Prop) l l' i,
  Forall2 P l l' ->
  match nth_error l i, nth_error l' i with
  | Some x, Some y => P x y
  | None, None => True
  | _, _ => False
  end.
Proof.
  intros A B P l l' i H. revert i. induction H; intros [|i]; simpl; auto. apply IHForall2.
Qed.

Lemma Forall2_set_nth : forall (A B : Type) (P : A -> B -> Prop) l l' i x y,
  Forall2 P l l' -> P x y -> Forall2 P (set_nth i x l) (set_nth i y l').
Proof.
  intros A B P l l' i x y H Hxy. revert i. induction H; intros [|i]; simpl; constructor; auto.
Qed.

Lemma Forall2_set_nth_r : forall (A B : Type) (P : A -> B -> Prop) l l' i x y,
  Forall2 P l l' -> nth_error l i = Some x -> P x y -> Forall2 P l (set_nth i y l').
Proof.
  intros A B P l l' i x y H. revert i. induction H; intros [|i] Hn Hxy; simpl in *; try discriminate; constructor; auto.
  - inversion Hn; subst. assumption.
Qed.

Lemma Forall2_impl2 : forall (A B : Type) (P Q : A -> B -> Prop) l l',
  (forall x y, P x y -> Q x y) -> Forall2 P l l' -> Forall2 Q l l'.
Proof. intros A B P Q l l' H F. induction F; constructor; auto. Qed.

Lemma nlocked_set_same : forall cs c cu cu', nth_error cs c = Some cu -> locked cu' = locked cu ->
  nlocked (set_nth c cu' cs) = nlocked cs.
Proof.
  unfold nlocked. induction cs as [|a cs IH]; intros [|c] cu cu' Hn Hl; simpl in *; try discriminate.
  - inversion Hn; subst. rewrite Hl. destruct (locked cu); reflexivity.
  - destruct (locked a); simpl; erewrite IH; eauto.
Qed.

Lemma nlocked_set_unlock : forall cs c cu cu', nth_error cs c = Some cu -> locked cu = true -> locked cu' = false ->
  S (nlocked (set_nth c cu' cs)) = nlocked cs.
Proof.
  unfold nlocked. induction cs as [|a cs IH]; intros [|c] cu cu' Hn Hl Hl'; simpl in *; try discriminate.
  - inversion Hn; subst. rewrite Hl, Hl'. reflexivity.
  - destruct (locked a); simpl; erewrite <- IH; eauto.
Qed.

Lemma nlocked_zero : forall cs, nlocked cs = 0 -> Forall (fun c => locked c = false) cs.
Proof.
  unfold nlocked. induction cs as [|a cs IH]; simpl; intro H; constructor.
  - destruct (locked a); simpl in H; [discriminate|reflexivity].
  - apply IH. destruct (locked a); simpl in H; [discriminate|assumption].
Qed.

Lemma nlocked_app : forall a b, nlocked (a ++ b) = nlocked a + nlocked b.
Proof. intros. unfold nlocked. now rewrite filter_app, app_length. Qed.

(* when no cursor is locked the index part of crel is void, so the vectors may change freely *)
Lemma crel_unlocked : forall A S A' S' cs scs,
  Forall (fun c => locked c = false) cs -> Forall2 (crel A S) cs scs -> Forall2 (crel A' S') cs scs.
Proof.
  intros A S A' S' cs scs Hu F. induction F; constructor.
  - inversion Hu; subst. intro Ht. destruct (H Ht) as [H1 _]. split; auto. congruence.
  - apply IHF. now inversion Hu.
Qed.

(* both vectors transformed by the same entry-wise function *)
Lemma crel_pointwise : forall (f : sentry -> sentry) (g : list (N * N) -> list (N * N)) A S cs scs,
  (forall l, slive (map f l) = g (slive l)) ->
  Forall2 (crel A S) cs scs -> Forall2 (crel (map f A) (map f S)) cs scs.
Proof.
  intros f g A S cs scs Hfg F. eapply Forall2_impl2; [|exact F].
  intros c sc H Ht. destruct (H Ht) as [H1 H2]. split; auto. intro Hl. destruct (H2 Hl) as (Ha & Hb & He & Hz).
  rewrite !map_length. repeat split; auto.
  now rewrite !skipn_map_comm, !Hfg, He.
Qed.

Lemma crel_append : forall x A S cs scs,
  Forall2 (crel A S) cs scs -> Forall2 (crel (A ++ [x]) (S ++ [x])) cs scs.
Proof.
  intros x A S cs scs F. eapply Forall2_impl2; [|exact F].
  intros c sc H Ht. destruct (H Ht) as [H1 H2]. split; auto. intro Hl. destruct (H2 Hl) as (Ha & Hb & He & Hz).
  rewrite !app_length. simpl. repeat split; auto; try lia.
  rewrite !skipn_app_le by assumption. now rewrite !slive_app, He.
Qed.

Lemma has_live_eq : forall k A S, slive A = slive S -> s_has k A = s_has k S.
Proof. intros. now rewrite !s_has_live, H. Qed.

(** * one step *)
Lemma unlock_step : forall ms ss c cu i,
  R ms ss -> nth_error (curs ms) c = Some cu -> locked cu = true ->
  let m' := om_unlock (om ms) in
  let cs' := set_nth c (mkC (ckd cu) false i) (curs ms) in
  wf_ents (ents m') (empty_count m') /\ lock m' = nlocked cs' /\
  slive (absl (ents m')) = slive (sents ss) /\
  (forall scs', Forall2 (crel (absl (ents (om ms))) (sents ss)) cs' scs' -> Forall2 (crel (absl (ents m')) (sents ss)) cs' scs').
Proof.
  intros ms ss c cu i (W & L & E & F) Hn Hl m' cs'.
  assert (HS : S (nlocked cs') = nlocked (curs ms)) by (eapply nlocked_set_unlock; eauto).
  unfold m', om_unlock. rewrite L, <- HS. simpl pred.
  destruct (Nat.eqb_spec (nlocked cs') 0) as [Hz|Hnz]; simpl.
  - destruct W as (W1 & W2 & W4). destruct (abs_retain _ _ W2 W1) as [Er Wr].
    repeat split; try apply Wr; auto; try congruence.
    intros scs' F'. eapply crel_unlocked; [|exact F']. now apply nlocked_zero.
  - repeat split; auto; apply W.
Qed.

