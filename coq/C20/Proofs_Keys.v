(* C20 part 1: hash iteration order cannot leak through [[OwnPropertyKeys]]. *)
From Coq Require Import NArith Arith List Bool Lia Permutation Sorted Mergesort.
From C20 Require Import Model_C20.
Import ListNotations.

(** * sorted permutations over N are unique *)
Lemma sorted_perm_unique : forall l l' : list N,
  Permutation l l' -> StronglySorted N.le l -> StronglySorted N.le l' -> l = l'.
Proof.
  induction l as [|a l IH]; intros l' HP Hs Hs'.
  - apply Permutation_nil in HP. now subst.
  - destruct l' as [|b l'].
    + apply Permutation_sym, Permutation_nil in HP. discriminate.
    + inversion Hs as [|? ? Hs1 Hf1]; subst. inversion Hs' as [|? ? Hs2 Hf2]; subst.
      assert (a = b).
      { assert (Ia : In a (b :: l')) by (eapply Permutation_in; [exact HP|now left]).
        assert (Ib : In b (a :: l)) by (eapply Permutation_in; [apply Permutation_sym; exact HP|now left]).
        destruct Ia as [->|Ia]; [reflexivity|]. destruct Ib as [->|Ib]; [reflexivity|].
        rewrite Forall_forall in Hf1, Hf2. specialize (Hf1 _ Ib). specialize (Hf2 _ Ia).
        apply N.le_antisymm; assumption. }
      subst b. f_equal. apply IH; auto. eapply Permutation_cons_inv; eauto.
Qed.

Lemma StronglySorted_impl : forall (A : Type) (R R' : A -> A -> Prop) l,
  (forall x y, R x y -> R' x y) -> StronglySorted R l -> StronglySorted R' l.
Proof.
  intros A R R' l HR H. induction H; constructor; auto.
  eapply Forall_impl; [|eassumption]. intros; auto.
Qed.

Lemma msort_spec : forall l, Permutation (msort l) l /\ StronglySorted N.le (msort l).
Proof.
  intro l. split.
  - apply Permutation_sym, NSort.Permuted_sort.
  - assert (H := NSort.StronglySorted_sort l).
    assert (Htr : Relations_1.Transitive (fun x y => is_true (NOrder.leb x y))).
    { intros x y z. unfold NOrder.leb, is_true. rewrite !N.leb_le. lia. }
    specialize (H Htr). clear Htr. unfold msort.
    eapply StronglySorted_impl; [|exact H].
    intros x y Hb. unfold NOrder.leb, is_true in Hb. now apply N.leb_le.
Qed.

Lemma filter_id : forall (A : Type) (f : A -> bool) l, (forall x, In x l -> f x = true) -> filter f l = l.
Proof.
  intros A f l. induction l as [|a l IH]; intro H; simpl; auto.
  rewrite (H a (or_introl eq_refl)). f_equal. apply IH. intros x Hx. apply H. now right.
Qed.

Lemma NoDup_app_one : forall (A : Type) (l : list A) x, NoDup l -> ~ In x l -> NoDup (l ++ [x]).
Proof.
  intros A l x Hn Hx. induction Hn; simpl.
  - constructor; auto. constructor.
  - constructor.
    + intro Hin. apply in_app_or in Hin. destruct Hin as [Hin|[Hin|[]]]; [contradiction|]. subst. apply Hx. now left.
    + apply IHHn. intro. apply Hx. now right.
Qed.

(** * basic facts *)
Lemma in_range : forall n j, In j (range n) <-> (j < n)%N.
Proof.
  intros n j. unfold range. rewrite in_map_iff. split.
  - intros [x [<- Hx]]. apply in_seq in Hx. lia.
  - intro H. exists (N.to_nat j). split; [apply N2Nat.id|]. apply in_seq. lia.
Qed.

Lemma nodup_range : forall n, NoDup (range n).
Proof.
  intro n. unfold range. apply FinFun.Injective_map_NoDup; [|apply seq_NoDup].
  intros x y H. now apply Nat2N.inj.
Qed.

Lemma mem_in : forall k m, mem k m = true <-> In k m.
Proof.
  intros k m. unfold mem. rewrite existsb_exists. split.
  - intros [x [Hx He]]. apply N.eqb_eq in He. now subst.
  - intro H. exists k. split; auto. apply N.eqb_refl.
Qed.

Lemma mem_perm : forall k m m', Permutation m m' -> mem k m = mem k m'.
Proof.
  intros k m m' HP. destruct (mem k m) eqn:E; symmetry.
  - apply mem_in. eapply Permutation_in; eauto. now apply mem_in.
  - destruct (mem k m') eqn:E'; auto. apply mem_in in E'.
    assert (In k m) by (eapply Permutation_in; [apply Permutation_sym|]; eauto).
    apply mem_in in H. congruence.
Qed.

Lemma filter_perm : forall (A : Type) (f : A -> bool) l l', Permutation l l' -> Permutation (filter f l) (filter f l').
Proof.
  intros A f l l' HP. induction HP; simpl.
  - constructor.
  - destruct (f x); auto.
  - destruct (f x), (f y); auto. constructor.
  - etransitivity; eauto.
Qed.

Lemma hm_insert_perm : forall k m m', Permutation m m' -> Permutation (hm_insert k m) (hm_insert k m').
Proof. intros k m m' HP. unfold hm_insert. rewrite (mem_perm k m m' HP). destruct (mem k m'); auto. Qed.

Lemma hm_remove_perm : forall k m m', Permutation m m' -> Permutation (hm_remove k m) (hm_remove k m').
Proof. intros. unfold hm_remove. now apply filter_perm. Qed.

Lemma in_hm_insert : forall k m j, In j (hm_insert k m) <-> j = k \/ In j m.
Proof.
  intros k m j. unfold hm_insert. destruct (mem k m) eqn:E.
  - apply mem_in in E. split; [now right|]. intros [->|H]; auto.
  - simpl. intuition.
Qed.

Lemma in_hm_remove : forall k m j, In j (hm_remove k m) <-> j <> k /\ In j m.
Proof.
  intros k m j. unfold hm_remove. rewrite filter_In, negb_true_iff, N.eqb_neq. tauto.
Qed.

Lemma nodup_hm_insert : forall k m, NoDup m -> NoDup (hm_insert k m).
Proof.
  intros k m H. unfold hm_insert. destruct (mem k m) eqn:E; auto.
  constructor; auto. intro Hin. apply mem_in in Hin. congruence.
Qed.

Lemma nodup_hm_remove : forall k m, NoDup m -> NoDup (hm_remove k m).
Proof. intros. unfold hm_remove. now apply NoDup_filter. Qed.

(** * the indexed part *)
Lemma ip_insert_equiv : forall a b k s, ip_equiv a b -> ip_equiv (ip_insert a k s) (ip_insert b k s).
Proof.
  intros [la|ma] [lb|mb] k s H; simpl in H; try contradiction.
  - subst lb. unfold ip_insert. destruct s.
    + destruct (N.leb k la); [destruct (N.eqb k la)|]; simpl; auto.
    + simpl. auto.
  - unfold ip_insert. destruct s; simpl; now apply hm_insert_perm.
Qed.

Lemma ip_remove_equiv : forall a b k, ip_equiv a b -> ip_equiv (ip_remove a k) (ip_remove b k).
Proof.
  intros [la|ma] [lb|mb] k H; simpl in H; try contradiction.
  - subst lb. unfold ip_remove. destruct (N.eqb (k + 1) la); [|destruct (N.leb la k)]; simpl; auto.
  - simpl. now apply hm_remove_perm.
Qed.

Lemma ip_keys_equiv : forall a b, ip_equiv a b -> Permutation (ip_keys a) (ip_keys b).
Proof. intros [la|ma] [lb|mb] H; simpl in H; try contradiction; simpl; subst; auto. Qed.

Lemma range_succ : forall n j, In j (range (n + 1)) <-> j = n \/ In j (range n).
Proof. intros. rewrite !in_range. lia. Qed.

Lemma ip_insert_keys : forall ipx k s j, In j (ip_keys (ip_insert ipx k s)) <-> j = k \/ In j (ip_keys ipx).
Proof.
  intros [len|m] k s j; unfold ip_insert; destruct s; simpl ip_keys; try apply in_hm_insert.
  destruct (N.leb_spec k len).
  - destruct (N.eqb_spec k len); simpl ip_keys.
    + subst. apply range_succ.
    + rewrite !in_range. lia.
  - simpl. apply in_hm_insert.
Qed.

Lemma ip_insert_nodup : forall ipx k s, NoDup (ip_keys ipx) -> NoDup (ip_keys (ip_insert ipx k s)).
Proof.
  intros [len|m] k s H; unfold ip_insert; destruct s; simpl ip_keys in *; try (apply nodup_hm_insert; assumption).
  destruct (N.leb k len); [destruct (N.eqb k len)|]; simpl; try apply nodup_range.
  apply nodup_hm_insert, nodup_range.
Qed.

Lemma ip_remove_keys : forall ipx k j, In j (ip_keys (ip_remove ipx k)) <-> j <> k /\ In j (ip_keys ipx).
Proof.
  intros [len|m] k j; unfold ip_remove; simpl ip_keys; try apply in_hm_remove.
  destruct (N.eqb_spec (k + 1) len).
  - simpl. rewrite !in_range. lia.
  - destruct (N.leb_spec len k); simpl.
    + rewrite !in_range. lia.
    + apply in_hm_remove.
Qed.

Lemma ip_remove_nodup : forall ipx k, NoDup (ip_keys ipx) -> NoDup (ip_keys (ip_remove ipx k)).
Proof.
  intros [len|m] k H; unfold ip_remove; simpl ip_keys in *; try (apply nodup_hm_remove; assumption).
  destruct (N.eqb (k + 1) len); [|destruct (N.leb len k)]; simpl; try apply nodup_range.
  apply nodup_hm_remove, nodup_range.
Qed.

(** * the shape part *)
Lemma pkey_eqb_eq : forall a b, pkey_eqb a b = true <-> a = b.
Proof.
  intros [x|x] [y|y]; simpl; try (split; [discriminate|congruence]);
    rewrite N.eqb_eq; split; congruence.
Qed.

Lemma shape_lookup_in : forall s k, shape_lookup s k = true <-> In k (visible s).
Proof.
  intros s k. unfold shape_lookup. rewrite existsb_exists. split.
  - intros [x [Hx He]]. apply pkey_eqb_eq in He. now subst.
  - intro H. exists k. split; auto. now apply pkey_eqb_eq.
Qed.

Lemma visible_insert : forall s k, shape_lookup s k = false ->
  visible (shape_insert s k) = visible s ++ [k].
Proof.
  intros [t n] k H. unfold shape_insert. rewrite H. unfold visible, tbl_add. cbn [tbl cnt].
  destruct (Nat.eqb n (length t) && negb (existsb (pkey_eqb k) t)) eqn:E.
  - apply andb_true_iff in E. destruct E as [E _]. apply Nat.eqb_eq in E. subst n.
    rewrite firstn_all. rewrite firstn_all2; auto. rewrite app_length. simpl. lia.
  - apply firstn_all2. rewrite app_length. simpl. pose proof (firstn_le_length n t). lia.
Qed.

Lemma pk_remove_length : forall k l, NoDup l -> In k l -> S (length (pk_remove k l)) = length l.
Proof.
  intros k l. induction l as [|a l IH]; intros HN HI; [contradiction|].
  inversion HN; subst. simpl. destruct (pkey_eqb a k) eqn:E; simpl.
  - apply pkey_eqb_eq in E. subst a. f_equal.
    unfold pk_remove. rewrite filter_id; auto.
    intros x Hx. apply negb_true_iff.
    destruct (pkey_eqb x k) eqn:E2; auto. apply pkey_eqb_eq in E2. subst. contradiction.
  - f_equal. apply IH; auto. destruct HI as [->|]; auto.
    assert (pkey_eqb k k = true) by now apply pkey_eqb_eq. congruence.
Qed.

Lemma visible_remove : forall s k, NoDup (visible s) -> shape_lookup s k = true ->
  visible (shape_remove s k) = pk_remove k (visible s).
Proof.
  intros s k HN H. unfold shape_remove. rewrite H. unfold visible at 1. simpl.
  apply firstn_all2. apply shape_lookup_in in H.
  pose proof (pk_remove_length k _ HN H) as HL.
  assert (length (visible s) <= cnt s) by (unfold visible; apply firstn_le_length). lia.
Qed.

Lemma shape_keys_visible : forall s, shape_keys s = filter is_str (visible s) ++ filter is_sym (visible s).
Proof. reflexivity. Qed.

Lemma shape_insert_equiv : forall a b k, visible a = visible b -> visible (shape_insert a k) = visible (shape_insert b k).
Proof.
  intros a b k H. destruct (shape_lookup a k) eqn:E.
  - assert (shape_lookup b k = true) by (unfold shape_lookup in *; now rewrite <- H).
    unfold shape_insert. now rewrite E, H0.
  - assert (shape_lookup b k = false) by (unfold shape_lookup in *; now rewrite <- H).
    rewrite !visible_insert; auto. now rewrite H.
Qed.

Lemma shape_remove_equiv : forall a b k, NoDup (visible a) -> visible a = visible b ->
  visible (shape_remove a k) = visible (shape_remove b k).
Proof.
  intros a b k HN H. destruct (shape_lookup a k) eqn:E.
  - assert (shape_lookup b k = true) by (unfold shape_lookup in *; now rewrite <- H).
    rewrite !visible_remove; auto; now rewrite <- H.
  - assert (shape_lookup b k = false) by (unfold shape_lookup in *; now rewrite <- H).
    unfold shape_remove. now rewrite E, H0.
Qed.

(** * own_keys is invariant under storage equivalence *)
Section OwnKeys.
Variable sortf : list N -> list N.
Hypothesis sortf_spec : forall l, Permutation (sortf l) l /\ StronglySorted N.le (sortf l).

Lemma sortf_perm : forall l l', Permutation l l' -> sortf l = sortf l'.
Proof.
  intros l l' HP. destruct (sortf_spec l) as [P1 S1]. destruct (sortf_spec l') as [P2 S2].
  apply sorted_perm_unique; auto.
  etransitivity; [exact P1|]. etransitivity; [exact HP|]. now apply Permutation_sym.
Qed.

Lemma own_keys_perm_invariant_lemma : forall a b, st_equiv a b -> own_keys sortf a = own_keys sortf b.
Proof.
  intros a b [Hi Hv]. unfold own_keys. f_equal.
  - f_equal. apply sortf_perm. now apply ip_keys_equiv.
  - f_equal. rewrite !shape_keys_visible. now rewrite Hv.
Qed.

(** * invariant tying the model state to the creation-ordered specification list *)
Definition k_named (k : key) : bool := match k with KIdx _ => false | _ => true end.

Definition inv (l : list key) (s : pstate) : Prop :=
  NoDup l /\ NoDup (ip_keys (ip s)) /\ (forall i, In i (ip_keys (ip s)) <-> In (KIdx i) l) /\
  map pk2k (visible (sh s)) = filter k_named l.

Lemma key_eqb_eq : forall a b, key_eqb a b = true <-> a = b.
Proof.
  intros [x|x|x] [y|y|y]; simpl; try (split; [discriminate|congruence]);
    rewrite N.eqb_eq; split; congruence.
Qed.

Lemma existsb_key_in : forall k l, existsb (key_eqb k) l = true <-> In k l.
Proof.
  intros k l. rewrite existsb_exists. split.
  - intros [x [Hx He]]. apply key_eqb_eq in He. now subst.
  - intro H. exists k. split; auto. now apply key_eqb_eq.
Qed.

Lemma pk2k_inj : forall a b, pk2k a = pk2k b -> a = b.
Proof. intros [x|x] [y|y]; simpl; congruence. Qed.

Lemma pk2k_named : forall p, k_named (pk2k p) = true.
Proof. intros [x|x]; reflexivity. Qed.

Lemma inv_equiv : forall l a b, inv l a -> st_equiv a b -> inv l b.
Proof.
  intros l a b (H1 & H2 & H3 & H4) [Hi Hv]. pose proof (ip_keys_equiv _ _ Hi) as HP.
  repeat split.
  - assumption.
  - eapply Permutation_NoDup; eauto.
  - intro Hin. apply H3. eapply Permutation_in; [apply Permutation_sym|]; eauto.
  - intro Hin. eapply Permutation_in; [exact HP|]. now apply H3.
  - now rewrite <- Hv.
Qed.

Lemma nodup_visible : forall l s, inv l s -> NoDup (visible (sh s)).
Proof.
  intros l s (H1 & _ & _ & H4).
  assert (NoDup (map pk2k (visible (sh s)))) by (rewrite H4; now apply NoDup_filter).
  eapply NoDup_map_inv; eauto.
Qed.

Lemma filter_app_one : forall (A : Type) (f : A -> bool) l x, filter f (l ++ [x]) = filter f l ++ (if f x then [x] else []).
Proof. intros. rewrite filter_app. reflexivity. Qed.

Lemma filter_filter_neg : forall (f : key -> bool) k l,
  filter f (filter (fun x => negb (key_eqb x k)) l) = filter (fun x => negb (key_eqb x k)) (filter f l).
Proof.
  intros f k l. induction l as [|a l IH]; simpl; auto.
  destruct (key_eqb a k) eqn:E, (f a) eqn:F; simpl; rewrite ?E, ?F; simpl; congruence.
Qed.

Lemma named_lookup : forall l s p, inv l s -> shape_lookup (sh s) p = existsb (key_eqb (pk2k p)) l.
Proof.
  intros l s p (H1 & H2 & H3 & H4).
  destruct (shape_lookup (sh s) p) eqn:E; symmetry.
  - apply existsb_key_in. apply shape_lookup_in in E.
    assert (In (pk2k p) (filter k_named l)) by (rewrite <- H4; now apply in_map).
    apply filter_In in H. tauto.
  - destruct (existsb (key_eqb (pk2k p)) l) eqn:E2; auto.
    apply existsb_key_in in E2.
    assert (In (pk2k p) (map pk2k (visible (sh s)))).
    { rewrite H4. apply filter_In. split; auto. apply pk2k_named. }
    apply in_map_iff in H. destruct H as [q [Hq Hin]]. apply pk2k_inj in Hq. subst q.
    apply shape_lookup_in in Hin. congruence.
Qed.

Lemma map_pk_remove : forall p v, map pk2k (pk_remove p v) = filter (fun x => negb (key_eqb x (pk2k p))) (map pk2k v).
Proof.
  intros p v. induction v as [|a v IH]; simpl; auto.
  assert (pkey_eqb a p = key_eqb (pk2k a) (pk2k p)) by (destruct a, p; reflexivity).
  rewrite H. destruct (key_eqb (pk2k a) (pk2k p)); simpl; congruence.
Qed.

Lemma inv_define_named : forall l s p b, inv l s ->
  inv (spec_exec l (Define (pk2k p) b)) (mkP (ip s) (shape_insert (sh s) p)).
Proof.
  intros l s p b Hinv. pose proof (named_lookup l s p Hinv) as HL.
  destruct Hinv as (H1 & H2 & H3 & H4). simpl spec_exec.
  destruct (existsb (key_eqb (pk2k p)) l) eqn:E.
  - unfold shape_insert. rewrite HL. repeat split; auto; apply H3.
  - assert (Hni : ~ In (pk2k p) l) by (intro Hc; apply existsb_key_in in Hc; congruence).
    repeat split; simpl.
    + apply NoDup_app_one; auto.
    + assumption.
    + intro Hin. apply in_or_app. left. now apply H3.
    + intro Hin. apply in_app_or in Hin. destruct Hin as [Hin|[Hin|[]]]; [now apply H3|].
      destruct p; discriminate.
    + rewrite visible_insert; auto. rewrite map_app, filter_app_one, pk2k_named. simpl. now rewrite H4.
Qed.

Lemma inv_delete_named : forall l s p, inv l s ->
  inv (spec_exec l (Delete (pk2k p))) (mkP (ip s) (shape_remove (sh s) p)).
Proof.
  intros l s p Hinv. pose proof (named_lookup l s p Hinv) as HL. pose proof (nodup_visible l s Hinv) as HN.
  destruct Hinv as (H1 & H2 & H3 & H4). simpl spec_exec. repeat split; simpl.
  - now apply NoDup_filter.
  - assumption.
  - intro Hin. apply filter_In. split; [now apply H3|]. destruct p; reflexivity.
  - intro Hin. apply filter_In in Hin. now apply H3.
  - rewrite filter_filter_neg, <- H4.
    destruct (shape_lookup (sh s) p) eqn:E.
    + rewrite visible_remove; auto. apply map_pk_remove.
    + unfold shape_remove. rewrite E.
      rewrite filter_id; auto.
      intros x Hx. apply negb_true_iff.
      destruct (key_eqb x (pk2k p)) eqn:E2; auto. apply key_eqb_eq in E2. subst x.
      apply in_map_iff in Hx. destruct Hx as [q [Hq Hin]]. apply pk2k_inj in Hq. subst q.
      apply shape_lookup_in in Hin. congruence.
Qed.

Lemma inv_step : forall l s o, inv l s -> inv (spec_exec l o) (pexec s o).
Proof.
  intros l s o Hinv. destruct o as [[i|x|x] b|[i|x|x]].
  - destruct Hinv as (H1 & H2 & H3 & H4). simpl.
    destruct (existsb (key_eqb (KIdx i)) l) eqn:E.
    + apply existsb_key_in in E. repeat split; simpl; auto.
      * now apply ip_insert_nodup.
      * intro Hin. apply ip_insert_keys in Hin. destruct Hin as [->|Hin]; auto. now apply H3.
      * intro Hin. apply ip_insert_keys. right. now apply H3.
    + assert (Hni : ~ In (KIdx i) l) by (intro Hc; apply existsb_key_in in Hc; congruence).
      repeat split; simpl.
      * apply NoDup_app_one; auto.
      * now apply ip_insert_nodup.
      * intro Hin. apply ip_insert_keys in Hin. apply in_or_app. destruct Hin as [->|Hin]; [right; now left|left; now apply H3].
      * intro Hin. apply ip_insert_keys. apply in_app_or in Hin. destruct Hin as [Hin|[Hin|[]]]; [right; now apply H3|left; congruence].
      * rewrite filter_app_one. simpl. now rewrite app_nil_r.
  - apply (inv_define_named l s (PStr x) b Hinv).
  - apply (inv_define_named l s (PSym x) b Hinv).
  - destruct Hinv as (H1 & H2 & H3 & H4). simpl. repeat split; simpl.
    + now apply NoDup_filter.
    + now apply ip_remove_nodup.
    + intro Hin. apply ip_remove_keys in Hin. apply filter_In. split; [now apply H3|].
      apply negb_true_iff. simpl. apply N.eqb_neq. tauto.
    + intro Hin. apply filter_In in Hin. destruct Hin as [Hin Hne]. apply ip_remove_keys. split; [|now apply H3].
      apply negb_true_iff in Hne. simpl in Hne. now apply N.eqb_neq.
    + rewrite filter_filter_neg, <- H4.
      symmetry. apply filter_id.
      intros y Hy. apply in_map_iff in Hy. destruct Hy as [q [<- _]]. destruct q; reflexivity.
  - apply (inv_delete_named l s (PStr x) Hinv).
  - apply (inv_delete_named l s (PSym x) Hinv).
Qed.

Lemma spec_run_snoc : forall h o, spec_run (h ++ [o]) = spec_exec (spec_run h) o.
Proof. intros. unfold spec_run. now rewrite fold_left_app. Qed.

Lemma inv_init : inv [] pinit.
Proof. repeat split; simpl; try constructor; try contradiction. Qed.

Lemma pruns_inv : forall h s, pruns h s -> inv (spec_run h) s.
Proof.
  intros h s H. induction H.
  - eapply inv_equiv; [apply inv_init|assumption].
  - rewrite spec_run_snoc. eapply inv_equiv; [|eassumption]. now apply inv_step.
Qed.

Lemma sorted_le_nodup_lt : forall l : list N, StronglySorted N.le l -> NoDup l -> StronglySorted N.lt l.
Proof.
  induction l as [|a l IH]; intros Hs Hn; constructor.
  - inversion Hs; inversion Hn; subst. auto.
  - inversion Hs; inversion Hn; subst. rewrite Forall_forall in *. intros x Hx.
    specialize (H2 x Hx). assert (x <> a) by (intro; subst; contradiction). lia.
Qed.

Lemma filter_named_str : forall l, filter k_is_str (filter k_named l) = filter k_is_str l.
Proof. induction l as [|[x|x|x] l IH]; simpl; congruence. Qed.
Lemma filter_named_sym : forall l, filter k_is_sym (filter k_named l) = filter k_is_sym l.
Proof. induction l as [|[x|x|x] l IH]; simpl; congruence. Qed.
Lemma map_filter_str : forall v, map pk2k (filter is_str v) = filter k_is_str (map pk2k v).
Proof. induction v as [|[x|x] v IH]; simpl; congruence. Qed.
Lemma map_filter_sym : forall v, map pk2k (filter is_sym v) = filter k_is_sym (map pk2k v).
Proof. induction v as [|[x|x] v IH]; simpl; congruence. Qed.

Lemma own_keys_of_inv : forall l s, inv l s -> OrdinaryOwnPropertyKeys l (own_keys sortf s).
Proof.
  intros l s (H1 & H2 & H3 & H4). exists (sortf (ip_keys (ip s))).
  destruct (sortf_spec (ip_keys (ip s))) as [HP HS]. repeat split.
  - unfold own_keys. f_equal. rewrite shape_keys_visible, map_app, map_filter_str, map_filter_sym, H4.
    now rewrite filter_named_str, filter_named_sym.
  - apply sorted_le_nodup_lt; auto. eapply Permutation_NoDup; [apply Permutation_sym|]; eauto.
  - intro Hin. apply H3. eapply Permutation_in; eauto.
  - intro Hin. eapply Permutation_in; [apply Permutation_sym; exact HP|]. now apply H3.
Qed.

Lemma own_keys_spec_lemma : forall h s, pruns h s -> OrdinaryOwnPropertyKeys (spec_run h) (own_keys sortf s).
Proof. intros h s H. apply own_keys_of_inv. now apply pruns_inv. Qed.

(* the result of OrdinaryOwnPropertyKeys is unique, hence every resolution of the hash order agrees *)
Lemma sorted_lt_unique : forall a b : list N, StronglySorted N.lt a -> StronglySorted N.lt b ->
  (forall i, In i a <-> In i b) -> a = b.
Proof.
  intros a b Ha Hb Hiff. apply sorted_perm_unique.
  - apply NoDup_Permutation; auto.
    + clear -Ha. induction Ha; constructor; auto. intro Hin. rewrite Forall_forall in H. specialize (H _ Hin). lia.
    + clear -Hb. induction Hb; constructor; auto. intro Hin. rewrite Forall_forall in H. specialize (H _ Hin). lia.
  - clear -Ha. induction Ha; constructor; auto. eapply Forall_impl; [|eassumption]. intros; simpl in *; lia.
  - clear -Hb. induction Hb; constructor; auto. eapply Forall_impl; [|eassumption]. intros; simpl in *; lia.
Qed.

Lemma oopk_unique : forall l k1 k2, OrdinaryOwnPropertyKeys l k1 -> OrdinaryOwnPropertyKeys l k2 -> k1 = k2.
Proof.
  intros l k1 k2 (i1 & -> & S1 & I1) (i2 & -> & S2 & I2). f_equal. f_equal.
  apply sorted_lt_unique; auto. intro i. rewrite I1, I2. tauto.
Qed.

Lemma history_keys_deterministic_lemma : forall h s1 s2, pruns h s1 -> pruns h s2 -> own_keys sortf s1 = own_keys sortf s2.
Proof.
  intros h s1 s2 H1 H2. eapply oopk_unique; eapply own_keys_spec_lemma; eauto.
Qed.

End OwnKeys.

(* the executable run is one of the runs *)
Lemma st_equiv_refl : forall s, st_equiv s s.
Proof. intros [[l|m] s]; split; simpl; auto. Qed.

Lemma prun_snoc : forall h o, prun (h ++ [o]) = pexec (prun h) o.
Proof. intros. unfold prun. now rewrite fold_left_app. Qed.

Lemma prun_pruns : forall h, pruns h (prun h).
Proof.
  intro h. induction h using rev_ind.
  - constructor. apply st_equiv_refl.
  - rewrite prun_snoc. econstructor; eauto. apply st_equiv_refl.
Qed.
