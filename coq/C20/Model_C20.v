(* C20 — executable models (definitions only).

   Part 1  OwnKeys     core/engine/src/object/property_map.rs  (IndexedProperties::{insert,remove,keys})
                       core/engine/src/object/shape/property_table.rs (keys_cloned_n, add_property_deep_clone_if_needed)
                       core/engine/src/object/internal_methods/mod.rs (ordinary_own_property_keys)
   Part 2  OrderedMap  core/engine/src/builtins/map/ordered_map.rs, set/ordered_set.rs,
                       map/map_iterator.rs, set/set_iterator.rs, Map.prototype.forEach / Set.prototype.forEach
   Part 3  Realms      object-capability heap model (a model of the discipline; tied to the code only by the
                       differential of checks/c20.py)

   Abstractions (stated once, see design.d/C20.md):
   * property values are dropped: the three dense variants DenseI32/DenseF64/DenseElement all answer
     `keys()` with 0..len and differ only in the element representation, SparseElement/SparseProperty both
     answer with the hash map's key iterator;  the model keeps `Dense len` and `Sparse keys`.
   * a FxHashMap<u32,_> is a list of its keys in *iteration order*; nothing is assumed about that order:
     the theorems quantify over every permutation after every step (relation `st_equiv`).
   * string property keys and Map/Set keys are abstract identifiers (N): only their equality matters
     (PropertyKey: Eq/Hash;  Map keys: SameValueZero through JsValue's Hash/Eq). *)
From Coq Require Import NArith Arith List Bool Lia Permutation Sorted Mergesort Orders.
Import ListNotations.

(* ============================================================================================ *)
(** * Part 1 — own property keys *)

Inductive pkey := PStr (s : N) | PSym (id : N).             (* keys held by the shape's property table *)
Inductive key := KIdx (i : N) | KStr (s : N) | KSym (id : N). (* PropertyKey::{Index,String,Symbol} *)

Definition pkey_eqb (a b : pkey) : bool :=
  match a, b with
  | PStr x, PStr y => N.eqb x y
  | PSym x, PSym y => N.eqb x y
  | _, _ => false
  end.

Definition is_str (k : pkey) : bool := match k with PStr _ => true | PSym _ => false end.
Definition is_sym (k : pkey) : bool := match k with PStr _ => false | PSym _ => true end.
Definition pk2k (k : pkey) : key := match k with PStr s => KStr s | PSym i => KSym i end.

(** ** indexed part *)
Inductive indexed := Dense (len : N) | Sparse (m : list N).

Definition range (n : N) : list N := map N.of_nat (seq 0 (N.to_nat n)).

Definition mem (k : N) (m : list N) : bool := existsb (N.eqb k) m.
(* HashMap::insert on the key set: an existing key keeps its bucket, a new key lands somewhere (the
   executable model puts it in front; the theorems allow any position and any rehash) *)
Definition hm_insert (k : N) (m : list N) : list N := if mem k m then m else k :: m.
Definition hm_remove (k : N) (m : list N) : list N := filter (fun x => negb (N.eqb x k)) m.

(* IndexedProperties::insert(key, property); simple = property_simple_value(..).is_some() *)
Definition ip_insert (ip : indexed) (k : N) (simple : bool) : indexed :=
  if simple then
    match ip with
    | Dense len =>
        if N.leb k len then                       (* Dense* (vec) if key <= vec.len() *)
          (if N.eqb k len then Dense (len + 1)    (* push *)
           else Dense len)                        (* vec[key] = val *)
        else Sparse (hm_insert k (range len))     (* creating a hole: convert_dense_to_sparse_values + insert *)
    | Sparse m => Sparse (hm_insert k m)          (* SparseElement / SparseProperty: map.insert *)
    end
  else                                            (* convert_to_sparse_and_insert *)
    match ip with
    | Dense len => Sparse (hm_insert k (range len))
    | Sparse m => Sparse (hm_insert k m)          (* SparseElement re-collects into a new map: rehash *)
    end.

(* IndexedProperties::remove(key) *)
Definition ip_remove (ip : indexed) (k : N) : indexed :=
  match ip with
  | Dense len =>
      if N.eqb (k + 1) len then Dense (len - 1)   (* (key + 1) == vec.len(): pop *)
      else if N.leb len k then Dense len          (* key >= vec.len(): nothing *)
      else Sparse (hm_remove k (range len))       (* convert_to_sparse_and_remove *)
  | Sparse m => Sparse (hm_remove k m)
  end.

(* IndexedProperties::keys(): Dense(0..len) | map.keys() *)
Definition ip_keys (ip : indexed) : list N :=
  match ip with Dense len => range len | Sparse m => m end.

(** ** shape part: a property table shared along a transition chain; this shape owns the first cnt keys *)
Record shape := mkShape { tbl : list pkey; cnt : nat }.

Definition visible (s : shape) : list pkey := firstn (cnt s) (tbl s).

(* PropertyTableInner::keys_cloned_n: strings first, then symbols, among the first n *)
Definition keys_cloned_n (t : list pkey) (n : nat) : list pkey :=
  filter is_str (firstn n t) ++ filter is_sym (firstn n t).

Definition shape_keys (s : shape) : list pkey := keys_cloned_n (tbl s) (cnt s).

(* SharedShape::lookup: map.get(key) with property_table_index < property_count *)
Definition shape_lookup (s : shape) (k : pkey) : bool := existsb (pkey_eqb k) (visible s).

(* PropertyTable::add_property_deep_clone_if_needed(key, _, property_count) *)
Definition tbl_add (t : list pkey) (n : nat) (k : pkey) : list pkey :=
  if Nat.eqb n (length t) && negb (existsb (pkey_eqb k) t)
  then t ++ [k]                                   (* append in place: table stays shared *)
  else firstn n t ++ [k].                         (* deep_clone(property_count) then insert *)

(* PropertyMap::insert_with_slot for a non-index key *)
Definition shape_insert (s : shape) (k : pkey) : shape :=
  if shape_lookup s k then s                      (* present: attributes/value change, key order untouched *)
  else mkShape (tbl_add (tbl s) (cnt s) k) (S (cnt s)).

Definition pk_remove (k : pkey) (l : list pkey) : list pkey := filter (fun x => negb (pkey_eqb x k)) l.

(* PropertyMap::remove for a non-index key: rollback_before + re-insertion of the later keys in order
   (shared shape), or keys.remove(index) (unique shape) *)
Definition shape_remove (s : shape) (k : pkey) : shape :=
  if shape_lookup s k then mkShape (pk_remove k (visible s)) (pred (cnt s)) else s.

Record pstate := mkP { ip : indexed; sh : shape }.

Inductive pop := Define (k : key) (simple : bool) | Delete (k : key).

Definition pexec (st : pstate) (o : pop) : pstate :=
  match o with
  | Define (KIdx i) simple => mkP (ip_insert (ip st) i simple) (sh st)
  | Define (KStr s) _ => mkP (ip st) (shape_insert (sh st) (PStr s))
  | Define (KSym s) _ => mkP (ip st) (shape_insert (sh st) (PSym s))
  | Delete (KIdx i) => mkP (ip_remove (ip st) i) (sh st)
  | Delete (KStr s) => mkP (ip st) (shape_remove (sh st) (PStr s))
  | Delete (KSym s) => mkP (ip st) (shape_remove (sh st) (PSym s))
  end.

Definition pinit : pstate := mkP (Dense 0) (mkShape [] 0).

(* ordinary_own_property_keys, parametrised by the sorting function *)
Definition own_keys (sortf : list N -> list N) (st : pstate) : list key :=
  map KIdx (sortf (ip_keys (ip st))) ++ map pk2k (shape_keys (sh st)).

(* hash iteration order is unconstrained: two storages are indistinguishable for the model when the
   sparse key lists are permutations and the visible table prefixes agree (the table tail belongs to
   other shapes of the chain; a cached forward transition may or may not have been collected) *)
Definition ip_equiv (a b : indexed) : Prop :=
  match a, b with
  | Dense x, Dense y => x = y
  | Sparse m, Sparse m' => Permutation m m'
  | _, _ => False
  end.
Definition st_equiv (a b : pstate) : Prop := ip_equiv (ip a) (ip b) /\ visible (sh a) = visible (sh b).

(* every run of a history: after each operation the storage may be replaced by any equivalent one *)
Inductive pruns : list pop -> pstate -> Prop :=
| pruns_nil : forall s, st_equiv pinit s -> pruns [] s
| pruns_snoc : forall h s o s', pruns h s -> st_equiv (pexec s o) s' -> pruns (h ++ [o]) s'.

(* the specification: an ordinary object as the list of its own keys in order of creation *)
Definition key_eqb (a b : key) : bool :=
  match a, b with
  | KIdx x, KIdx y => N.eqb x y
  | KStr x, KStr y => N.eqb x y
  | KSym x, KSym y => N.eqb x y
  | _, _ => false
  end.
Definition spec_exec (l : list key) (o : pop) : list key :=
  match o with
  | Define k _ => if existsb (key_eqb k) l then l else l ++ [k]
  | Delete k => filter (fun x => negb (key_eqb x k)) l
  end.
Definition spec_run (h : list pop) : list key := fold_left spec_exec h [].

Definition k_is_str (k : key) := match k with KStr _ => true | _ => false end.
Definition k_is_sym (k : key) := match k with KSym _ => true | _ => false end.

(* OrdinaryOwnPropertyKeys (ECMA-262 10.1.11.1) as a relation between creation-ordered keys and the result *)
Definition OrdinaryOwnPropertyKeys (l : list key) (ks : list key) : Prop :=
  exists idx, ks = map KIdx idx ++ filter k_is_str l ++ filter k_is_sym l /\
              StronglySorted N.lt idx /\ (forall i, In i idx <-> In (KIdx i) l).

(* a concrete sort for execution: stdlib merge sort on N *)
Module NOrder <: TotalLeBool.
  Definition t := N.
  Definition leb := N.leb.
  Theorem leb_total : forall a b, leb a b = true \/ leb b a = true.
  Proof. intros a b. unfold leb. destruct (N.leb_spec a b); [left; reflexivity|right]. apply N.leb_le. lia. Qed.
End NOrder.
Module NSort := Sort NOrder.
Definition msort : list N -> list N := NSort.sort.

Definition prun (h : list pop) : pstate := fold_left pexec h pinit.
(* what the correspondence evaluates: keys after every prefix would be costly; after the whole history *)
Definition prun_keys (h : list pop) : list key := own_keys msort (prun h).

(* ============================================================================================ *)
(** * Part 2 — OrderedMap / OrderedSet and their cursors *)

Inductive mkey := MKey (k : N) | MEmpty (n : nat).
Definition mkey_eqb (a b : mkey) : bool :=
  match a, b with
  | MKey x, MKey y => N.eqb x y
  | MEmpty x, MEmpty y => Nat.eqb x y
  | _, _ => false
  end.

Definition entry := (mkey * option N)%type.

(** ** IndexMap<MapKey, Option<V>>: entries vector + hash index (modelled by first-match search) *)
Fixpoint im_find (key : mkey) (l : list entry) : option nat :=
  match l with
  | [] => None
  | (k, _) :: t => if mkey_eqb key k then Some 0 else option_map S (im_find key t)
  end.

Fixpoint set_nth {A} (i : nat) (x : A) (l : list A) : list A :=
  match l, i with
  | [], _ => []
  | _ :: t, 0 => x :: t
  | a :: t, S j => a :: set_nth j x t
  end.
Fixpoint remove_nth {A} (i : nat) (l : list A) : list A :=
  match l, i with
  | [], _ => []
  | _ :: t, 0 => t
  | a :: t, S j => a :: remove_nth j t
  end.

(* IndexMap::insert: existing key keeps its place (value replaced), new key is appended *)
Definition im_insert (key : mkey) (v : option N) (l : list entry) : list entry :=
  match im_find key l with
  | Some i => set_nth i (key, v) l
  | None => l ++ [(key, v)]
  end.
(* IndexMap::shift_remove *)
Definition im_shift_remove (key : mkey) (l : list entry) : list entry :=
  match im_find key l with Some i => remove_nth i l | None => l end.
(* IndexMap::swap_remove = Vec::swap_remove(i): the last element takes the place of element i *)
Definition im_swap_remove (key : mkey) (l : list entry) : list entry :=
  match im_find key l with
  | None => l
  | Some i =>
      match rev l with
      | [] => l
      | lst :: _ => let l' := removelast l in if Nat.eqb i (length l') then l' else set_nth i lst l'
      end
  end.
Definition is_key_entry (e : entry) : bool := match fst e with MKey _ => true | MEmpty _ => false end.

Record omap := mkM { ents : list entry; lock : nat; empty_count : nat }.

Definition om_new : omap := mkM [] 0 0.
Definition om_full_len (m : omap) : nat := length (ents m).
Definition om_len (m : omap) : nat := length (ents m) - empty_count m.
(* insert(key, value) *)
Definition om_insert (m : omap) (k v : N) : omap := mkM (im_insert (MKey k) (Some v) (ents m)) (lock m) (empty_count m).
Definition om_contains (m : omap) (k : N) : bool := match im_find (MKey k) (ents m) with Some _ => true | None => false end.
(* remove(key) *)
Definition om_remove (m : omap) (k : N) : omap :=
  if Nat.eqb (lock m) 0 then mkM (im_shift_remove (MKey k) (ents m)) (lock m) (empty_count m)
  else if om_contains m k then
    mkM (im_swap_remove (MKey k) (im_insert (MEmpty (empty_count m)) None (ents m))) (lock m) (S (empty_count m))
  else m.
(* clear() *)
Definition om_clear (m : omap) : omap := mkM [] (lock m) 0.
(* get(key) = map.get(key).and_then(Option::as_ref) *)
Definition om_get (m : omap) (k : N) : option N :=
  match im_find (MKey k) (ents m) with
  | Some i => match nth_error (ents m) i with Some (_, v) => v | None => None end
  | None => None
  end.
(* get_index(i): only (Key k, Some v) *)
Definition ent_live (e : entry) : option (N * N) :=
  match e with (MKey k, Some v) => Some (k, v) | _ => None end.
Definition om_get_index (m : omap) (i : nat) : option (N * N) :=
  match nth_error (ents m) i with Some e => ent_live e | None => None end.
Definition om_lock (m : omap) : omap := mkM (ents m) (S (lock m)) (empty_count m).
(* unlock(): lock -= 1; at 0 retain the Key entries and reset empty_count *)
Definition om_unlock (m : omap) : omap :=
  let l := pred (lock m) in
  if Nat.eqb l 0 then mkM (filter is_key_entry (ents m)) 0 0 else mkM (ents m) l (empty_count m).

(** ** cursors: MapIterator/SetIterator (CIter) and a forEach in progress (CFor) *)
Inductive ckind := CIter | CFor.
Record cursor := mkC { ckd : ckind; locked : bool; next_index : nat }.

(* MapIterator::next: let len = full_len; loop { e = get_index(next_index); next_index += 1;
                                               if e.is_some() || next_index >= len { break e } } *)
Fixpoint next_loop (fuel : nat) (m : omap) (len idx : nat) : option (N * N) * nat :=
  match fuel with
  | 0 => (None, idx)
  | S f =>
      let e := om_get_index m idx in
      let idx' := S idx in
      match e with
      | Some _ => (e, idx')
      | None => if Nat.leb len idx' then (None, idx') else next_loop f m len idx'
      end
  end.
(* forEach: loop { if index < full_len { a = get_index(index) } else { return }; if a.is_some() { call }; index += 1 } *)
Fixpoint fe_loop (fuel : nat) (m : omap) (idx : nat) : option (N * N) * nat :=
  match fuel with
  | 0 => (None, idx)
  | S f =>
      if Nat.ltb idx (om_full_len m) then
        match om_get_index m idx with
        | Some e => (Some e, S idx)
        | None => fe_loop f m (S idx)
        end
      else (None, idx)
  end.

Definition cursor_step (m : omap) (c : cursor) : option (N * N) * nat :=
  match ckd c with
  | CIter => next_loop (S (om_full_len m)) m (om_full_len m) (next_index c)
  | CFor => fe_loop (S (om_full_len m)) m (next_index c)
  end.

Inductive mop :=
| MSet (k v : N) | MDel (k : N) | MClear
| MGet (k : N) | MHas (k : N) | MSize
| MNewIter | MForEach                    (* creates cursor number (length cursors) and locks the map *)
| MNext (c : nat)                        (* it.next() / the forEach loop runs up to its next callback or its end *)
| MDrop (c : nat).                       (* the iterator object is collected (Finalize) / forEach exits by exception *)

Inductive mout :=
| ONone | OYield (e : option (N * N))    (* None = done *)
| OVal (v : option N) | OBool (b : bool) | ONat (n : nat).

Record mstate := mkMS { om : omap; curs : list cursor }.
Definition minit : mstate := mkMS om_new [].

Definition mexec (s : mstate) (o : mop) : mstate * mout :=
  match o with
  | MSet k v => (mkMS (om_insert (om s) k v) (curs s), ONone)
  | MDel k => (mkMS (om_remove (om s) k) (curs s), OBool (om_contains (om s) k))
  | MClear => (mkMS (om_clear (om s)) (curs s), ONone)
  | MGet k => (s, OVal (om_get (om s) k))
  | MHas k => (s, OBool (om_contains (om s) k))
  | MSize => (s, ONat (om_len (om s)))
  | MNewIter => (mkMS (om_lock (om s)) (curs s ++ [mkC CIter true 0]), ONone)
  | MForEach => (mkMS (om_lock (om s)) (curs s ++ [mkC CFor true 0]), ONone)
  | MNext c =>
      match nth_error (curs s) c with
      | None => (s, ONone)
      | Some cu =>
          if locked cu then
            match cursor_step (om s) cu with
            | (Some e, i) => (mkMS (om s) (set_nth c (mkC (ckd cu) true i) (curs s)), OYield (Some e))
            | (None, i) => (mkMS (om_unlock (om s)) (set_nth c (mkC (ckd cu) false i) (curs s)), OYield None)
            end
          else (s, OYield None)
      end
  | MDrop c =>
      match nth_error (curs s) c with
      | None => (s, ONone)
      | Some cu =>
          if locked cu then (mkMS (om_unlock (om s)) (set_nth c (mkC (ckd cu) false (next_index cu)) (curs s)), ONone)
          else (s, ONone)
      end
  end.

Fixpoint mrun (s : mstate) (h : list mop) : list mout :=
  match h with
  | [] => []
  | o :: t => let '(s', out) := mexec s o in out :: mrun s' t
  end.

(** ** the specification: ECMA-262 [[MapData]] as a list that is never compacted *)
Definition sentry := option (N * N).
Definition s_has (k : N) (l : list sentry) : bool :=
  existsb (fun e => match e with Some (k', _) => N.eqb k' k | None => false end) l.
Definition s_set (k v : N) (l : list sentry) : list sentry :=
  if s_has k l then map (fun e => match e with Some (k', v') => if N.eqb k' k then Some (k', v) else e | None => None end) l
  else l ++ [Some (k, v)].
Definition s_del (k : N) (l : list sentry) : list sentry :=
  map (fun e => match e with Some (k', _) => if N.eqb k' k then None else e | None => None end) l.
Definition s_clear (l : list sentry) : list sentry := map (fun _ => None) l.
Fixpoint s_get (k : N) (l : list sentry) : option N :=
  match l with
  | [] => None
  | Some (k', v) :: t => if N.eqb k' k then Some v else s_get k t
  | None :: t => s_get k t
  end.
Fixpoint s_size (l : list sentry) : nat :=
  match l with [] => 0 | Some _ :: t => S (s_size t) | None :: t => s_size t end.

(* CreateMapIterator closure / forEach: index walks the list, skipping emptied entries *)
Fixpoint s_scan (l : list sentry) (idx : nat) : option (N * N) * nat :=   (* l = skipn idx entries *)
  match l with
  | [] => (None, idx)
  | Some e :: _ => (Some e, S idx)
  | None :: t => s_scan t (S idx)
  end.

(* tainted: a clear() happened while this cursor had already advanced (the guard of the theorem) *)
Record scursor := mkSC { sdone : bool; sidx : nat; tainted : bool }.
Record sstate := mkSS { sents : list sentry; scurs : list scursor }.
Definition sinit : sstate := mkSS [] [].

Definition taint (c : scursor) : scursor :=
  if negb (sdone c) && negb (Nat.eqb (sidx c) 0) then mkSC (sdone c) (sidx c) true else c.

Definition sexec (s : sstate) (o : mop) : sstate * (mout * bool) :=
  match o with
  | MSet k v => (mkSS (s_set k v (sents s)) (scurs s), (ONone, false))
  | MDel k => (mkSS (s_del k (sents s)) (scurs s), (OBool (s_has k (sents s)), false))
  | MClear => (mkSS (s_clear (sents s)) (map taint (scurs s)), (ONone, false))
  | MGet k => (s, (OVal (s_get k (sents s)), false))
  | MHas k => (s, (OBool (s_has k (sents s)), false))
  | MSize => (s, (ONat (s_size (sents s)), false))
  | MNewIter | MForEach => (mkSS (sents s) (scurs s ++ [mkSC false 0 false]), (ONone, false))
  | MNext c =>
      match nth_error (scurs s) c with
      | None => (s, (ONone, false))
      | Some cu =>
          if sdone cu then (s, (OYield None, tainted cu))
          else match s_scan (skipn (sidx cu) (sents s)) (sidx cu) with
               | (Some e, i) => (mkSS (sents s) (set_nth c (mkSC false i (tainted cu)) (scurs s)), (OYield (Some e), tainted cu))
               | (None, i) => (mkSS (sents s) (set_nth c (mkSC true i (tainted cu)) (scurs s)), (OYield None, tainted cu))
               end
      end
  | MDrop c =>
      match nth_error (scurs s) c with
      | None => (s, (ONone, false))
      | Some cu => (mkSS (sents s) (set_nth c (mkSC true (sidx cu) (tainted cu)) (scurs s)), (ONone, false))
      end
  end.

Fixpoint srun (s : sstate) (h : list mop) : list (mout * bool) :=
  match h with
  | [] => []
  | o :: t => let '(s', out) := sexec s o in out :: srun s' t
  end.

(* implementation output agrees with the specification wherever the cursor is not tainted *)
Definition out_agree (o : mout) (so : mout * bool) : Prop := snd so = false -> o = fst so.
Definition out_agreeb (o : mout) (so : mout * bool) : bool :=
  snd so ||
  match o, fst so with
  | ONone, ONone => true
  | OYield None, OYield None => true
  | OYield (Some (a, b)), OYield (Some (c, d)) => N.eqb a c && N.eqb b d
  | OVal None, OVal None => true
  | OVal (Some a), OVal (Some b) => N.eqb a b
  | OBool a, OBool b => Bool.eqb a b
  | ONat a, ONat b => Nat.eqb a b
  | _, _ => false
  end.

(* a history is clear-safe when the specification run never taints a cursor *)
Definition untainted_history (h : list mop) : Prop := Forall (fun so => snd so = false) (srun sinit h).

(* OrderedSet: the same structure with IndexSet; add(v) = insert(Key(v)) which leaves an existing entry alone *)
Definition set_op_ok (o : mop) : bool := match o with MSet _ v => N.eqb v 0 | MGet _ => false | _ => true end.

(* the witness of the deviation: new Map([[1,1],[2,2],[3,3]]); it=keys(); next; next; clear(); set(4,4); next *)
Definition clear_witness : list mop :=
  [MSet 1 1; MSet 2 2; MSet 3 3; MNewIter; MNext 0; MNext 0; MClear; MSet 4 4; MNext 0].

(** ** the behaviour with fixes.d/C20-clear-under-iterator.patch applied: clear() under a lock leaves tombstones *)
Definition tombs (n : nat) : list entry := map (fun i => (MEmpty i, None)) (seq 0 n).
Definition om_clear_fixed (m : omap) : omap :=
  if Nat.eqb (lock m) 0 then mkM [] (lock m) 0
  else mkM (tombs (length (ents m))) (lock m) (length (ents m)).
Definition mexec_fixed (s : mstate) (o : mop) : mstate * mout :=
  match o with
  | MClear => (mkMS (om_clear_fixed (om s)) (curs s), ONone)
  | _ => mexec s o
  end.
Fixpoint mrun_fixed (s : mstate) (h : list mop) : list mout :=
  match h with
  | [] => []
  | o :: t => let '(s', out) := mexec_fixed s o in out :: mrun_fixed s' t
  end.
(* the specification without the bookkeeping of the guard *)
Definition sexec_plain (s : sstate) (o : mop) : sstate * (mout * bool) :=
  match o with
  | MClear => (mkSS (s_clear (sents s)) (scurs s), (ONone, false))
  | _ => sexec s o
  end.
Fixpoint srun_plain (s : sstate) (h : list mop) : list mout :=
  match h with
  | [] => []
  | o :: t => let '(s', out) := sexec_plain s o in fst out :: srun_plain s' t
  end.

(* ============================================================================================ *)
(** * Part 3 — realms as an object-capability discipline *)

Inductive value := VPrim (n : N) | VRef (a : nat).
Record obj := mkO { orealm : nat; oproto : option nat; ofields : list (N * value) }.
Definition heap := list obj.

Fixpoint field_get (f : N) (l : list (N * value)) : option value :=
  match l with [] => None | (g, v) :: t => if N.eqb g f then Some v else field_get f t end.
Fixpoint field_set (f : N) (v : value) (l : list (N * value)) : list (N * value) :=
  match l with
  | [] => [(f, v)]
  | (g, w) :: t => if N.eqb g f then (g, v) :: t else (g, w) :: field_set f v t
  end.

Definition holds (rs : list nat) (a : nat) : bool := existsb (Nat.eqb a) rs.
Definition holds_val (rs : list nat) (v : value) : bool :=
  match v with VPrim _ => true | VRef a => holds rs a end.
Definition holds_opt (rs : list nat) (p : option nat) : bool :=
  match p with None => true | Some a => holds rs a end.

(* what code running with the references `rs` can do *)
Inductive rop :=
| RRead (a : nat) (f : N)                 (* v = a.f            : learn the reference stored there *)
| RProto (a : nat)                        (* Object.getPrototypeOf(a) *)
| RWrite (a : nat) (f : N) (v : value)    (* a.f = v            : both a and v must be held *)
| RSetProto (a : nat) (p : option nat)    (* Object.setPrototypeOf(a, p) *)
| RAlloc (r : nat) (p : option nat).      (* new object of realm r with a held prototype *)

Definition rstep (st : heap * list nat) (o : rop) : heap * list nat :=
  let '(h, rs) := st in
  match o with
  | RRead a f =>
      if holds rs a then
        match nth_error h a with
        | Some ob => match field_get f (ofields ob) with Some (VRef b) => (h, b :: rs) | _ => st end
        | None => st
        end
      else st
  | RProto a =>
      if holds rs a then
        match nth_error h a with
        | Some ob => match oproto ob with Some b => (h, b :: rs) | None => st end
        | None => st
        end
      else st
  | RWrite a f v =>
      if holds rs a && holds_val rs v then
        match nth_error h a with
        | Some ob => (set_nth a (mkO (orealm ob) (oproto ob) (field_set f v (ofields ob))) h, rs)
        | None => st
        end
      else st
  | RSetProto a p =>
      if holds rs a && holds_opt rs p then
        match nth_error h a with
        | Some ob => (set_nth a (mkO (orealm ob) p (ofields ob)) h, rs)
        | None => st
        end
      else st
  | RAlloc r p =>
      if holds_opt rs p then (h ++ [mkO r p []], length h :: rs) else st
  end.

Definition rrun (st : heap * list nat) (ops : list rop) : heap * list nat := fold_left rstep ops st.

(* edges of the heap graph: reference-valued fields and the prototype link *)
Definition edge (h : heap) (a b : nat) : Prop :=
  exists ob, nth_error h a = Some ob /\ (oproto ob = Some b \/ exists f, field_get f (ofields ob) = Some (VRef b)).

Inductive reach (h : heap) (rs : list nat) : nat -> Prop :=
| reach_root : forall a, In a rs -> reach h rs a
| reach_edge : forall a b, reach h rs a -> edge h a b -> reach h rs b.

(* every reference stored in the heap or held as a root points into the heap *)
Definition heap_closed (h : heap) : Prop := forall a b, edge h a b -> b < length h.
Definition roots_closed (h : heap) (rs : list nat) : Prop := forall a, In a rs -> a < length h.
