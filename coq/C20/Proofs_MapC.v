(* C20 part 2c: with fixes.d/C20-clear-under-iterator.patch (clear() under a lock leaves tombstones) the
   refinement holds with no guard at all. *)
From Coq Require Import NArith Arith List Bool Lia Permutation.
From C20 Require Import Model_C20 Proofs_MapA Proofs_MapB.
Import ListNotations.

Lemma mop_eq_clear : forall o : mop, o = MClear \/ o <> MClear.
Proof. intro o. destruct o; (left; reflexivity) || (right; discriminate). Qed.

Definition untainted_all (ss : sstate) : Prop := Forall (fun c => tainted c = false) (scurs ss).

Lemma Forall_set_nth : forall (A : Type) (P : A -> Prop) i x l, Forall P l -> P x -> Forall P (set_nth i x l).
Proof. intros A P i x l H Hx. revert i. induction H; intros [|i]; simpl; constructor; auto. Qed.

Lemma Forall_nth_error : forall (A : Type) (P : A -> Prop) i x l, Forall P l -> nth_error l i = Some x -> P x.
Proof. intros A P i x l H. revert i. induction H; intros [|i] Hn; simpl in Hn; try discriminate; [now inversion Hn; subst|eauto]. Qed.

(* operations other than clear keep every cursor untainted and report an untainted flag *)
Lemma sexec_untainted : forall ss o, o <> MClear -> untainted_all ss ->
  untainted_all (fst (sexec ss o)) /\ snd (snd (sexec ss o)) = false.
Proof.
  intros [S scs] o Hne Hu. unfold untainted_all in *. cbn [scurs] in Hu.
  destruct o as [k v|k| |k|k| | | |c|c]; try congruence; unfold sexec; cbn [sents scurs fst snd]; auto.
  - split; auto. apply Forall_app. split; auto.
  - split; auto. apply Forall_app. split; auto.
  - destruct (nth_error scs c) as [cu|] eqn:E; cbn [fst snd scurs]; auto.
    pose proof (Forall_nth_error _ _ _ _ _ Hu E) as Ht. cbn beta in Ht.
    destruct (sdone cu); cbn [fst snd scurs]; auto.
    destruct (s_scan (skipn (sidx cu) S) (sidx cu)) as [[e|] i]; cbn [fst snd scurs]; split; auto;
      apply Forall_set_nth; auto.
  - destruct (nth_error scs c) as [cu|] eqn:E; cbn [fst snd scurs]; auto.
    pose proof (Forall_nth_error _ _ _ _ _ Hu E) as Ht. cbn beta in Ht.
    split; auto. apply Forall_set_nth; auto.
Qed.

Lemma tombs_wf : forall n, wf_ents (tombs n) n.
Proof.
  intro n. unfold tombs. repeat split.
  - rewrite map_map. cbn [fst]. apply FinFun.Injective_map_NoDup; [|apply seq_NoDup]. intros a b H. now inversion H.
  - apply Forall_forall. intros e He. apply in_map_iff in He. destruct He as [i [<- Hi]]. apply in_seq in Hi. simpl. lia.
  - rewrite map_length, seq_length.
    assert (H : forall l, slive (absl (map (fun i : nat => (MEmpty i, @None N)) l)) = []) by (induction l; simpl; auto).
    rewrite H. simpl. lia.
Qed.

Lemma map_const_len : forall (A B C : Type) (c : C) (l1 : list A) (l2 : list B), length l1 = length l2 ->
  map (fun _ => c) l1 = map (fun _ => c) l2.
Proof. intros A B C c l1. induction l1; destruct l2; simpl; intros; try discriminate; auto. f_equal. auto. Qed.

Lemma tombs_abs : forall (l : list entry), absl (tombs (length l)) = s_clear (absl l).
Proof.
  intro l. unfold tombs, absl, s_clear. rewrite !map_map. cbn [ent_live].
  apply map_const_len. now rewrite seq_length.
Qed.

Lemma clear_fixed_sim : forall ms ss, R ms ss ->
  R (fst (mexec_fixed ms MClear)) (fst (sexec_plain ss MClear)).
Proof.
  intros [m cs] [S scs] (W & L & E & F). cbn [om curs sents scurs] in *.
  unfold mexec_fixed, sexec_plain, om_clear_fixed. cbn [fst om curs sents scurs].
  destruct (Nat.eqb_spec (lock m) 0) as [Hz|Hnz]; unfold R; cbn [om curs sents scurs ents lock empty_count].
  - split; [repeat split; simpl; auto; constructor|]. split; [exact L|]. split; [now rewrite slive_clear|].
    eapply crel_unlocked; [|exact F]. apply nlocked_zero. congruence.
  - split; [apply tombs_wf|]. split; [exact L|]. rewrite tombs_abs. split; [now rewrite !slive_clear|].
    apply (crel_pointwise (fun _ => None) (fun _ => [])); auto. intro l. apply slive_clear.
Qed.

Lemma step_sim_fixed : forall ms ss o, R ms ss -> untainted_all ss ->
  R (fst (mexec_fixed ms o)) (fst (sexec_plain ss o)) /\ untainted_all (fst (sexec_plain ss o)) /\
  snd (mexec_fixed ms o) = fst (snd (sexec_plain ss o)).
Proof.
  intros ms ss o HR Hu. destruct (mop_eq_clear o) as [->|Hne].
  - split; [now apply clear_fixed_sim|]. split; [exact Hu|reflexivity].
  - assert (Em : mexec_fixed ms o = mexec ms o) by (destruct o; congruence || reflexivity).
    assert (Es : sexec_plain ss o = sexec ss o) by (destruct o; congruence || reflexivity).
    rewrite Em, Es. destruct (step_sim ms ss o HR) as [HR' Ho]. destruct (sexec_untainted ss o Hne Hu) as [Hu' Hf].
    split; [exact HR'|]. split; [exact Hu'|]. apply Ho. exact Hf.
Qed.

Lemma run_sim_fixed : forall h ms ss, R ms ss -> untainted_all ss -> mrun_fixed ms h = srun_plain ss h.
Proof.
  induction h as [|o h IH]; intros ms ss HR Hu; simpl; [reflexivity|].
  destruct (step_sim_fixed ms ss o HR Hu) as (HR' & Hu' & Ho).
  destruct (mexec_fixed ms o) as [ms' out]. destruct (sexec_plain ss o) as [ss' sout]. cbn [fst snd] in *.
  f_equal; auto.
Qed.

Lemma iteration_with_fix_lemma : forall h, mrun_fixed minit h = srun_plain sinit h.
Proof. intro h. apply run_sim_fixed; [apply R_init|constructor]. Qed.
