(* C20 part 3: the frame property of the object-capability discipline. *)
From Coq Require Import NArith Arith List Bool Lia.
From C20 Require Import Model_C20.
Import ListNotations.

Lemma holds_in : forall rs a, holds rs a = true <-> In a rs.
Proof.
  intros rs a. unfold holds. rewrite existsb_exists. split.
  - intros [x [Hx He]]. apply Nat.eqb_eq in He. now subst.
  - intro H. exists a. split; auto. apply Nat.eqb_refl.
Qed.

Lemma set_nth_length : forall (A : Type) i (x : A) l, length (set_nth i x l) = length l.
Proof. intros A i x l. revert i. induction l; destruct i; simpl; auto. Qed.

Lemma nth_error_set_nth_ne : forall (A : Type) i j (x : A) l, i <> j -> nth_error (set_nth i x l) j = nth_error l j.
Proof.
  intros A i j x l. revert i j. induction l as [|a l IH]; intros [|i] [|j] H; simpl; auto; try congruence.
Qed.

Lemma nth_error_set_nth_eq : forall (A : Type) i (x : A) l, i < length l -> nth_error (set_nth i x l) i = Some x.
Proof.
  intros A i x l. revert i. induction l as [|a l IH]; intros [|i] H; simpl in *; auto; try lia. apply IH. lia.
Qed.

Lemma field_get_set : forall g f v l, field_get g (field_set f v l) = if N.eqb g f then Some v else field_get g l.
Proof.
  intros g f v l. induction l as [|[k w] l IH]; simpl.
  - rewrite N.eqb_sym. destruct (N.eqb g f); reflexivity.
  - destruct (N.eqb_spec k f) as [->|Hkf]; simpl.
    + rewrite (N.eqb_sym f g). destruct (N.eqb g f); reflexivity.
    + rewrite IH. destruct (N.eqb_spec k g) as [->|Hkg].
      * destruct (N.eqb_spec g f); congruence.
      * reflexivity.
Qed.

Lemma reach_bound : forall h rs a, heap_closed h -> roots_closed h rs -> reach h rs a -> a < length h.
Proof. intros h rs a Hh Hr H. induction H; eauto. Qed.

Lemma reach_mono_roots : forall h rs rs' a, (forall x, In x rs -> reach h rs' x) -> reach h rs a -> reach h rs' a.
Proof. intros h rs rs' a H R. induction R; eauto. eapply reach_edge; eauto. Qed.

(** * one step *)
Definition step_frame (h : heap) (rs : list nat) (h' : heap) (rs' : list nat) : Prop :=
  length h <= length h' /\ heap_closed h' /\ roots_closed h' rs' /\
  (forall a, a < length h -> ~ reach h rs a -> nth_error h' a = nth_error h a) /\
  (forall a, reach h' rs' a -> reach h rs a \/ length h <= a).

Lemma frame_refl : forall h rs, heap_closed h -> roots_closed h rs -> step_frame h rs h rs.
Proof. intros. repeat split; auto. Qed.

Lemma frame_learn : forall h rs a b, heap_closed h -> roots_closed h rs -> In a rs -> edge h a b ->
  step_frame h rs h (b :: rs).
Proof.
  intros h rs a b Hh Hr Ha He. repeat split; auto.
  - intros x [<-|Hx]; eauto.
  - intros x Hx. left. eapply reach_mono_roots; [|exact Hx].
    intros y [<-|Hy]; [eapply reach_edge; [apply reach_root; exact Ha|exact He]|now apply reach_root].
Qed.

Lemma frame_update : forall h rs a ob ob',
  heap_closed h -> roots_closed h rs -> In a rs -> nth_error h a = Some ob ->
  (forall b, (oproto ob' = Some b \/ exists f, field_get f (ofields ob') = Some (VRef b)) ->
             (oproto ob = Some b \/ exists f, field_get f (ofields ob) = Some (VRef b)) \/ In b rs) ->
  step_frame h rs (set_nth a ob' h) rs.
Proof.
  intros h rs a ob ob' Hh Hr Ha Hn Hed.
  assert (Hlt : a < length h) by (apply nth_error_Some; congruence).
  assert (Hedge : forall y z, edge (set_nth a ob' h) y z -> edge h y z \/ (y = a /\ In z rs)).
  { intros y z [o [Ho Hz]]. destruct (Nat.eq_dec a y) as [->|Hne].
    - rewrite nth_error_set_nth_eq in Ho by assumption. inversion Ho; subst o.
      destruct (Hed z Hz) as [Hold|Hin]; [left; exists ob; auto|right; auto].
    - rewrite nth_error_set_nth_ne in Ho by assumption. left. exists o. auto. }
  repeat split.
  - rewrite set_nth_length. lia.
  - intros y z He. rewrite set_nth_length. destruct (Hedge y z He) as [H|[_ H]]; eauto.
  - intros x Hx. rewrite set_nth_length. auto.
  - intros x Hx Hnr. apply nth_error_set_nth_ne. intro; subst. apply Hnr. now apply reach_root.
  - intros x Hx. left. induction Hx.
    + now apply reach_root.
    + destruct (Hedge a0 b H) as [He|[_ Hin]]; [eapply reach_edge; eauto|now apply reach_root].
Qed.

Lemma frame_alloc : forall h rs r p, heap_closed h -> roots_closed h rs -> holds_opt rs p = true ->
  step_frame h rs (h ++ [mkO r p []]) (length h :: rs).
Proof.
  intros h rs r p Hh Hr Hp.
  assert (Hedge : forall y z, edge (h ++ [mkO r p []]) y z -> edge h y z \/ (y = length h /\ In z rs)).
  { intros y z [o [Ho Hz]]. destruct (lt_dec y (length h)) as [Hlt|Hge].
    - rewrite nth_error_app1 in Ho by assumption. left. exists o. auto.
    - rewrite nth_error_app2 in Ho by lia. destruct (y - length h) as [|k] eqn:E.
      + simpl in Ho. inversion Ho; subst o. simpl in Hz. right.
        assert (y < length (h ++ [mkO r p []])) by (apply nth_error_Some; rewrite nth_error_app2 by lia; rewrite E; discriminate).
        rewrite app_length in H. simpl in H. split; [lia|].
        destruct Hz as [Hz|[f Hf]]; [|discriminate]. subst p. simpl in Hp. now apply holds_in.
      + simpl in Ho. destruct k; discriminate. }
  repeat split.
  - rewrite app_length. lia.
  - intros y z He. rewrite app_length. simpl. destruct (Hedge y z He) as [H|[_ H]].
    + specialize (Hh _ _ H). lia.
    + specialize (Hr _ H). lia.
  - intros x [<-|Hx]; rewrite app_length; simpl; [lia|]. specialize (Hr _ Hx). lia.
  - intros x Hx _. now apply nth_error_app1.
  - intros x Hx. induction Hx.
    + destruct H as [<-|H]; [right; lia|left; now apply reach_root].
    + destruct (Hedge a b H) as [He|[_ Hin]].
      * destruct IHHx as [IH|IH]; [left; eapply reach_edge; eauto|].
        destruct He as [o [Ho _]]. assert (a < length h) by (apply nth_error_Some; congruence). lia.
      * left. now apply reach_root.
Qed.

Lemma rstep_frame : forall h rs o h' rs', heap_closed h -> roots_closed h rs ->
  rstep (h, rs) o = (h', rs') -> step_frame h rs h' rs'.
Proof.
  intros h rs o h' rs' Hh Hr E. destruct o as [a f|a|a f v|a p|r p]; simpl in E.
  - destruct (holds rs a) eqn:Ha; [|inversion E; subst; now apply frame_refl].
    apply holds_in in Ha.
    destruct (nth_error h a) as [ob|] eqn:En; [|inversion E; subst; now apply frame_refl].
    destruct (field_get f (ofields ob)) as [[n|b]|] eqn:Ef; inversion E; subst; try now apply frame_refl.
    eapply frame_learn; eauto. exists ob. split; auto. right. eauto.
  - destruct (holds rs a) eqn:Ha; [|inversion E; subst; now apply frame_refl].
    apply holds_in in Ha.
    destruct (nth_error h a) as [ob|] eqn:En; [|inversion E; subst; now apply frame_refl].
    destruct (oproto ob) as [b|] eqn:Ep; inversion E; subst; try now apply frame_refl.
    eapply frame_learn; eauto. exists ob. auto.
  - destruct (holds rs a && holds_val rs v) eqn:Ha; [|inversion E; subst; now apply frame_refl].
    apply andb_true_iff in Ha. destruct Ha as [Ha Hv]. apply holds_in in Ha.
    destruct (nth_error h a) as [ob|] eqn:En; inversion E; subst; [|now apply frame_refl].
    eapply frame_update; eauto. simpl. intros b [Hb|[g Hg]]; [left; now left|].
    rewrite field_get_set in Hg. destruct (N.eqb g f).
    + inversion Hg; subst v. simpl in Hv. right. now apply holds_in.
    + left. right. eauto.
  - destruct (holds rs a && holds_opt rs p) eqn:Ha; [|inversion E; subst; now apply frame_refl].
    apply andb_true_iff in Ha. destruct Ha as [Ha Hv]. apply holds_in in Ha.
    destruct (nth_error h a) as [ob|] eqn:En; inversion E; subst; [|now apply frame_refl].
    eapply frame_update; eauto. simpl. intros b [Hb|Hg]; [|left; now right].
    subst p. simpl in Hv. right. now apply holds_in.
  - destruct (holds_opt rs p) eqn:Hp; inversion E; subst; [|now apply frame_refl].
    now apply frame_alloc.
Qed.

(** * any number of steps *)
Lemma rrun_frame : forall ops h rs h' rs', heap_closed h -> roots_closed h rs ->
  rrun (h, rs) ops = (h', rs') -> step_frame h rs h' rs'.
Proof.
  induction ops as [|o ops IH] using rev_ind; intros h rs h' rs' Hh Hr E.
  - simpl in E. inversion E; subst. now apply frame_refl.
  - unfold rrun in E. rewrite fold_left_app in E. simpl in E.
    destruct (fold_left rstep ops (h, rs)) as [h1 rs1] eqn:E1.
    specialize (IH h rs h1 rs1 Hh Hr E1). destruct IH as (L1 & C1 & R1 & B1 & K1).
    pose proof (rstep_frame h1 rs1 o h' rs' C1 R1 E) as (L2 & C2 & R2 & B2 & K2).
    repeat split; auto.
    + lia.
    + intros a Ha Hn. rewrite B2; [now apply B1|lia|].
      intro Hc. destruct (K1 a Hc); [contradiction|lia].
    + intros a Ha. destruct (K2 a Ha) as [H|H]; [|right; lia].
      destruct (K1 a H); [now left|right; lia].
Qed.

(** * the frame theorem for two realms *)
Lemma reach_same : forall h h' rs,
  (forall b, reach h rs b -> nth_error h' b = nth_error h b) ->
  forall b, reach h' rs b <-> reach h rs b.
Proof.
  intros h h' rs Hsame b. split; intro H.
  - induction H; [now apply reach_root|].
    eapply reach_edge; [exact IHreach|]. destruct H0 as [o [Ho Hz]]. exists o. split; auto.
    rewrite <- Hsame; auto.
  - induction H; [now apply reach_root|].
    eapply reach_edge; [exact IHreach|]. destruct H0 as [o [Ho Hz]]. exists o. split; auto.
    rewrite Hsame; auto.
Qed.

Lemma realm_frame_lemma : forall h rsA rsB ops h' rsA',
  heap_closed h -> roots_closed h rsA -> roots_closed h rsB ->
  (forall a, reach h rsA a -> reach h rsB a -> False) ->
  rrun (h, rsA) ops = (h', rsA') ->
  (forall b, reach h rsB b -> nth_error h' b = nth_error h b) /\
  (forall b, reach h' rsB b <-> reach h rsB b) /\
  (forall a, reach h' rsA' a -> reach h' rsB a -> False).
Proof.
  intros h rsA rsB ops h' rsA' Hh HrA HrB Hdis E.
  pose proof (rrun_frame ops h rsA h' rsA' Hh HrA E) as (L & C & R & B & K).
  assert (Hsame : forall b, reach h rsB b -> nth_error h' b = nth_error h b).
  { intros b Hb. apply B; [eapply reach_bound; eauto|]. intro Hc. eapply Hdis; eauto. }
  pose proof (reach_same h h' rsB Hsame) as Hiff.
  repeat split; auto; try apply Hiff.
  intros a HA HB. apply Hiff in HB. destruct (K a HA) as [H|H]; [eapply Hdis; eauto|].
  pose proof (reach_bound h rsB a Hh HrB HB). lia.
Qed.

Lemma cross_realm_intrinsics_lemma : forall h rsA rsB ops h' rsA' o ob pB,
  heap_closed h -> roots_closed h rsA -> roots_closed h rsB ->
  (forall a, reach h rsA a -> reach h rsB a -> False) ->
  reach h rsB o -> nth_error h o = Some ob -> oproto ob = Some pB ->
  rrun (h, rsA) ops = (h', rsA') ->
  nth_error h' o = Some ob /\ nth_error h' pB = nth_error h pB /\ ~ reach h' rsA' o /\ ~ reach h' rsA' pB.
Proof.
  intros h rsA rsB ops h' rsA' o ob pB Hh HrA HrB Hdis Ho Hn Hp E.
  destruct (realm_frame_lemma h rsA rsB ops h' rsA' Hh HrA HrB Hdis E) as (S & I & D).
  assert (HpB : reach h rsB pB) by (eapply reach_edge; [exact Ho|]; exists ob; auto).
  repeat split.
  - rewrite S; auto.
  - apply S; auto.
  - intro Hc. eapply D; [exact Hc|]. now apply I.
  - intro Hc. eapply D; [exact Hc|]. now apply I.
Qed.

(* reading never changes the heap, whoever does it and whatever references are held: passing an object to
   another realm and inspecting it there (getPrototypeOf, property reads) leaves its prototype link alone *)
Definition is_read (o : rop) : bool := match o with RRead _ _ | RProto _ => true | _ => false end.

Lemma read_step_keeps_heap : forall o h rs, is_read o = true -> exists rs', rstep (h, rs) o = (h, rs').
Proof.
  intros o h rs Ho. destruct o as [a f|a|a f v|a p|r p]; simpl in *; try discriminate.
  - destruct (holds rs a); eauto. destruct (nth_error h a) as [ob|]; eauto.
    destruct (field_get f (ofields ob)) as [[|]|]; eauto.
  - destruct (holds rs a); eauto. destruct (nth_error h a) as [ob|]; eauto. destruct (oproto ob); eauto.
Qed.

Lemma reads_keep_heap_lemma : forall ops h rs, forallb is_read ops = true -> fst (rrun (h, rs) ops) = h.
Proof.
  induction ops as [|o ops IH]; intros h rs H; [reflexivity|].
  cbn [forallb] in H. apply andb_true_iff in H. destruct H as [Ho Hops].
  destruct (read_step_keeps_heap o h rs Ho) as [rs' E].
  unfold rrun. cbn [fold_left]. rewrite E. now apply IH.
Qed.

(* an allocation made with realm B's references carries B's tag and the prototype B chose *)
Lemma alloc_tag_lemma : forall h rs r p, holds_opt rs p = true ->
  nth_error (fst (rstep (h, rs) (RAlloc r p))) (length h) = Some (mkO r p []).
Proof.
  intros h rs r p H. simpl. rewrite H. simpl. rewrite nth_error_app2 by lia. now rewrite Nat.sub_diag.
Qed.
