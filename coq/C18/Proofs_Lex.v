(* C18 lemmas, lexical level: white space, string tokens and QuoteJSONString, number tokens. *)
From Coq Require Import NArith ZArith List Bool Arith Lia.
From Common Require Import Bits.
From C18 Require Import Json.
Import ListNotations.
Local Open Scope N_scope.

(* ------------------------------------------------------------------------------------------ *)
(* white space *)

Lemma skip_ws_app_ws w l : forallb is_ws w = true -> skip_ws (w ++ l) = skip_ws l.
Proof.
  induction w as [|c w IH]; simpl; auto.
  intros H. apply andb_true_iff in H as [Hc Hw]. rewrite Hc. auto.
Qed.

Lemma skip_ws_nonws c r : is_ws c = false -> skip_ws (c :: r) = c :: r.
Proof. intros H. simpl. now rewrite H. Qed.

Lemma skip_ws_length l : (length (skip_ws l) <= length l)%nat.
Proof. induction l as [|c r IH]; simpl; auto. destruct (is_ws c); simpl; lia. Qed.

Lemma skip_ws_head l c r : skip_ws l = c :: r -> is_ws c = false.
Proof.
  induction l as [|a l IH]; simpl; try discriminate.
  destruct (is_ws a) eqn:E; auto. intros H. injection H as -> _. exact E.
Qed.

Lemma skip_ws_idem l : skip_ws (skip_ws l) = skip_ws l.
Proof.
  destruct (skip_ws l) as [|c r] eqn:E; auto.
  apply skip_ws_nonws. eapply skip_ws_head; eauto.
Qed.

Lemma units_eqb_eq a : forall b, units_eqb a b = true <-> a = b.
Proof.
  induction a as [|x a IH]; intros [|y b]; simpl; split; intros H; try discriminate; auto.
  - apply andb_true_iff in H as [H1 H2]. apply N.eqb_eq in H1. apply IH in H2. congruence.
  - injection H as -> ->. rewrite N.eqb_refl. simpl. now apply IH.
Qed.

Lemma units_eqb_refl a : units_eqb a a = true.
Proof. now apply units_eqb_eq. Qed.

Lemma units_eqb_neq a b : units_eqb a b = false <-> a <> b.
Proof.
  split; intros H.
  - intros E. apply units_eqb_eq in E. congruence.
  - destruct (units_eqb a b) eqn:E; auto. apply units_eqb_eq in E. contradiction.
Qed.

Lemma strip_prefix_app p l : strip_prefix p (p ++ l) = Some l.
Proof. induction p as [|a p IH]; simpl; auto. now rewrite N.eqb_refl. Qed.

Lemma strip_prefix_inv p : forall l r, strip_prefix p l = Some r -> l = p ++ r.
Proof.
  induction p as [|a p IH]; simpl; intros l r H.
  - congruence.
  - destruct l as [|b l]; try discriminate. destruct (N.eqb_spec a b); try discriminate.
    subst. f_equal. auto.
Qed.

(* ------------------------------------------------------------------------------------------ *)
(* \uXXXX *)

Definition uesc_ok (c : N) : bool :=
  match uesc c with
  | [a; b; h1; h2; h3; h4] =>
    (a =? 92) && (b =? 117) &&
    match hex4 h1 h2 h3 h4 with Some u => u =? c | None => false end
  | _ => false
  end.

Lemma uesc_ok_all : all_below 16 0 uesc_ok = true.
Proof. vm_compute. reflexivity. Qed.

Lemma uesc_hex4 c : c < 65536 ->
  hex4 (hex_digit (c / 4096)) (hex_digit ((c / 256) mod 16)) (hex_digit ((c / 16) mod 16)) (hex_digit (c mod 16)) = Some c.
Proof.
  intros H. pose proof (all_below_0 16 uesc_ok uesc_ok_all c) as A.
  assert (Hc : c < 2 ^ N.of_nat 16) by (change (2 ^ N.of_nat 16) with 65536; exact H).
  specialize (A Hc). unfold uesc_ok, uesc in A.
  apply andb_true_iff in A as [_ A].
  destruct (hex4 _ _ _ _) as [u|]; try discriminate.
  apply N.eqb_eq in A. now subst.
Qed.

Lemma scan_string_uesc c rest : c < 65536 ->
  scan_string (uesc c ++ rest) = cons_fst c (scan_string rest).
Proof.
  intros H. unfold uesc.
  change (scan_string ([92; 117; hex_digit (c / 4096); hex_digit ((c / 256) mod 16); hex_digit ((c / 16) mod 16); hex_digit (c mod 16)] ++ rest))
    with (match hex4 (hex_digit (c / 4096)) (hex_digit ((c / 256) mod 16)) (hex_digit ((c / 16) mod 16)) (hex_digit (c mod 16)) with
          | Some u => cons_fst u (scan_string rest) | None => None end).
  now rewrite uesc_hex4.
Qed.

(* a code unit that QuoteJSONString copies *)
Lemma scan_string_plain c rest : c <> 34 -> c <> 92 -> 32 <= c ->
  scan_string (c :: rest) = cons_fst c (scan_string rest).
Proof.
  intros H1 H2 H3. cbn [scan_string].
  destruct (N.eqb_spec c 34); try contradiction.
  destruct (N.eqb_spec c 92); try contradiction.
  destruct (N.ltb_spec c 32); try lia. reflexivity.
Qed.

Lemma is_high_range c : is_high c = true -> 55296 <= c /\ c <= 56319.
Proof. unfold is_high. intros H. apply andb_true_iff in H as [A B]. apply N.leb_le in A, B. auto. Qed.

Lemma is_low_range c : is_low c = true -> 56320 <= c /\ c <= 57343.
Proof. unfold is_low. intros H. apply andb_true_iff in H as [A B]. apply N.leb_le in A, B. auto. Qed.

Lemma scan_quote_unit c rest : is_high c = false ->
  scan_string (quote_unit c ++ rest) = cons_fst c (scan_string rest).
Proof.
  intros Hh. unfold quote_unit.
  destruct (N.eqb_spec c 8); [subst; reflexivity|].
  destruct (N.eqb_spec c 9); [subst; reflexivity|].
  destruct (N.eqb_spec c 10); [subst; reflexivity|].
  destruct (N.eqb_spec c 12); [subst; reflexivity|].
  destruct (N.eqb_spec c 13); [subst; reflexivity|].
  destruct (N.eqb_spec c 34); [subst; reflexivity|].
  destruct (N.eqb_spec c 92); [subst; reflexivity|].
  destruct (N.ltb_spec c 32).
  - apply scan_string_uesc. lia.
  - destruct (is_low c) eqn:El.
    + apply scan_string_uesc. apply is_low_range in El. lia.
    + apply scan_string_plain; auto.
Qed.

Lemma scan_quote_body_len : forall n s rest, (length s <= n)%nat ->
  scan_string (quote_body s ++ 34 :: rest) = Some (s, rest).
Proof.
  induction n as [|n IH]; intros s rest Hn.
  - destruct s; simpl in Hn; try lia. reflexivity.
  - destruct s as [|c r]; [reflexivity|]. simpl in Hn.
    cbn [quote_body]. destruct (is_high c) eqn:Eh.
    + pose proof (is_high_range _ Eh) as [Hc1 Hc2].
      destruct r as [|d r'].
      * rewrite scan_string_uesc by lia. reflexivity.
      * destruct (is_low d) eqn:El.
        -- pose proof (is_low_range _ El) as [Hd1 Hd2].
           change ((c :: d :: quote_body r') ++ 34 :: rest) with (c :: d :: (quote_body r' ++ 34 :: rest)).
           rewrite scan_string_plain by lia. rewrite scan_string_plain by lia.
           rewrite IH by (simpl in Hn; lia). reflexivity.
        -- rewrite <- app_assoc. rewrite scan_string_uesc by lia.
           rewrite IH by (simpl in *; lia). reflexivity.
    + rewrite <- app_assoc. rewrite scan_quote_unit by exact Eh.
      rewrite IH by lia. reflexivity.
Qed.

Lemma scan_quote_body s rest : scan_string (quote_body s ++ 34 :: rest) = Some (s, rest).
Proof. apply (scan_quote_body_len (length s)). lia. Qed.

Lemma parse_quote_rest s rest : parse_string (quote_json_string s ++ rest) = Some (s, rest).
Proof.
  unfold quote_json_string, parse_string. cbn [app]. rewrite N.eqb_refl.
  rewrite <- app_assoc. apply scan_quote_body.
Qed.

Lemma quote_unquote_lemma s : parse_string_full (quote_json_string s) = Some s.
Proof.
  unfold parse_string_full. rewrite <- (app_nil_r (quote_json_string s)).
  now rewrite parse_quote_rest.
Qed.

Lemma scan_string_shrinks : forall n l s r, (length l <= n)%nat -> scan_string l = Some (s, r) -> (length r < length l)%nat.
Proof.
  induction n as [|n IH]; intros l s r Hn H.
  - destruct l; simpl in *; try discriminate; lia.
  - destruct l as [|c l]; try discriminate. cbn [scan_string] in H. simpl in Hn.
    destruct (c =? 34).
    + injection H as _ <-. simpl. lia.
    + destruct (c =? 92).
      * destruct l as [|e r1]; try discriminate.
        destruct (e =? 117).
        -- destruct r1 as [|h1 [|h2 [|h3 [|h4 r2]]]]; try discriminate.
           destruct (hex4 h1 h2 h3 h4); try discriminate.
           destruct (scan_string r2) as [[s' t]|] eqn:E; try discriminate.
           injection H as _ <-. apply IH in E; simpl in *; lia.
        -- destruct (simple_escape e); try discriminate.
           destruct (scan_string r1) as [[s' t]|] eqn:E; try discriminate.
           injection H as _ <-. apply IH in E; simpl in *; lia.
      * destruct (c <? 32); try discriminate.
        destruct (scan_string l) as [[s' t]|] eqn:E; try discriminate.
        injection H as _ <-. apply IH in E; simpl in *; lia.
Qed.

Lemma scan_string_shrinks' l s r : scan_string l = Some (s, r) -> (length r < length l)%nat.
Proof. apply (scan_string_shrinks (length l)). lia. Qed.

(* ------------------------------------------------------------------------------------------ *)
(* number tokens *)

Definition no_digit_head (rest : list N) : bool :=
  match rest with [] => true | c :: _ => negb (is_digit c) end.

Lemma span_digits_split l : forall d r, span_digits l = (d, r) -> l = d ++ r /\ forallb is_digit d = true /\ no_digit_head r = true.
Proof.
  induction l as [|c l IH]; simpl; intros d r H.
  - injection H as <- <-. auto.
  - destruct (is_digit c) eqn:E.
    + destruct (span_digits l) as [d' r'] eqn:E'. injection H as <- <-.
      destruct (IH _ _ eq_refl) as (A & B & C). subst l. simpl. rewrite E. auto.
    + injection H as <- <-. simpl. rewrite E. auto.
Qed.

Lemma span_digits_app d : forall rest, forallb is_digit d = true -> no_digit_head rest = true ->
  span_digits (d ++ rest) = (d, rest).
Proof.
  induction d as [|c d IH]; simpl; intros rest Hd Hr.
  - destruct rest as [|x rest]; auto. simpl in Hr. cbn [span_digits].
    destruct (is_digit x); try discriminate. reflexivity.
  - apply andb_true_iff in Hd as [Hc Hd]. rewrite Hc. now rewrite IH.
Qed.

(* "stability": a scanner that stopped at the end of its input stops at the same place when a
   non-continuing rest is appended *)
Lemma span_digits_stable l d r rest :
  span_digits l = (d, r) -> (r = [] -> no_digit_head rest = true) -> span_digits (l ++ rest) = (d, r ++ rest).
Proof.
  intros H Hr. destruct (span_digits_split _ _ _ H) as (-> & Hd & Hn).
  rewrite <- app_assoc. apply span_digits_app; auto.
  destruct r as [|x r]; simpl; auto.
Qed.

Lemma stop_no_digit rest : stop rest = true -> no_digit_head rest = true.
Proof.
  destruct rest as [|c r]; simpl; auto. intros H. apply negb_true_iff in H.
  apply orb_false_iff in H as [H _]. apply orb_false_iff in H as [H _]. apply orb_false_iff in H as [H _].
  now rewrite H.
Qed.

Lemma stop_not_dot rest : stop rest = true -> match rest with c :: _ => c =? 46 | [] => false end = false.
Proof.
  destruct rest as [|c r]; simpl; auto. intros H. apply negb_true_iff in H.
  apply orb_false_iff in H as [H _]. apply orb_false_iff in H as [H _]. apply orb_false_iff in H as [_ H]. exact H.
Qed.

Lemma stop_not_e rest : stop rest = true -> match rest with c :: _ => (c =? 101) || (c =? 69) | [] => false end = false.
Proof.
  destruct rest as [|c r]; simpl; auto. intros H. apply negb_true_iff in H.
  apply orb_false_iff in H as [H H2]. apply orb_false_iff in H as [_ H1]. now rewrite H1, H2.
Qed.

Lemma scan_int_stable l t r rest :
  scan_int l = Some (t, r) -> (r = [] -> stop rest = true) -> scan_int (l ++ rest) = Some (t, r ++ rest).
Proof.
  unfold scan_int. destruct l as [|c l]; try discriminate. cbn [app].
  destruct (c =? 48).
  - intros H _. injection H as <- <-. reflexivity.
  - destruct (is_digit c); try discriminate.
    destruct (span_digits l) as [d r'] eqn:E. intros H Hr. injection H as <- <-.
    erewrite span_digits_stable; eauto. intros ->. apply stop_no_digit; auto.
Qed.

Lemma scan_frac_stable l t r rest :
  scan_frac l = Some (t, r) -> (r = [] -> stop rest = true) -> scan_frac (l ++ rest) = Some (t, r ++ rest).
Proof.
  unfold scan_frac. destruct l as [|c l].
  - intros H Hr. injection H as <- <-. cbn [app]. specialize (Hr eq_refl).
    destruct rest as [|x rest]; auto. pose proof (stop_not_dot _ Hr) as Hd. simpl in Hd. now rewrite Hd.
  - cbn [app]. destruct (c =? 46).
    + destruct (span_digits l) as [d r'] eqn:E. intros H Hr.
      erewrite span_digits_stable; eauto.
      * destruct d; try discriminate. injection H as <- <-. reflexivity.
      * intros ->. destruct d; try discriminate. injection H as _ <-. apply stop_no_digit; auto.
    + intros H _. injection H as <- <-. reflexivity.
Qed.

Lemma scan_exp_stable l t r rest :
  scan_exp l = Some (t, r) -> (r = [] -> stop rest = true) -> scan_exp (l ++ rest) = Some (t, r ++ rest).
Proof.
  unfold scan_exp. destruct l as [|c l].
  - intros H Hr. injection H as <- <-. cbn [app]. specialize (Hr eq_refl).
    destruct rest as [|x rest]; auto. pose proof (stop_not_e _ Hr) as Hd. simpl in Hd. now rewrite Hd.
  - cbn [app]. destruct ((c =? 101) || (c =? 69)).
    + assert (Hs : forall sg r1, scan_sign l = (sg, r1) -> r1 <> [] -> scan_sign (l ++ rest) = (sg, r1 ++ rest)).
      { unfold scan_sign. destruct l as [|x l]; intros sg r1 H Hne.
        - injection H as <- <-. contradiction.
        - cbn [app]. destruct ((x =? 43) || (x =? 45)); injection H as <- <-; reflexivity. }
      destruct (scan_sign l) as [sg r1] eqn:Es.
      destruct (span_digits r1) as [d r'] eqn:E. intros H Hr.
      destruct d as [|d0 d]; try discriminate.
      assert (Hne : r1 <> []). { intros ->. simpl in E. discriminate. }
      rewrite (Hs _ _ eq_refl Hne).
      erewrite span_digits_stable; eauto.
      * injection H as <- <-. reflexivity.
      * intros ->. injection H as _ <-. apply stop_no_digit; auto.
    + intros H _. injection H as <- <-. reflexivity.
Qed.

Lemma scan_int_nonempty l t r : scan_int l = Some (t, r) -> l = t ++ r /\ exists c t', t = c :: t' /\ is_digit c = true.
Proof.
  unfold scan_int. destruct l as [|c l]; try discriminate.
  destruct (N.eqb_spec c 48).
  - intros H. injection H as <- <-. subst. split; auto. exists 48, []. auto.
  - destruct (is_digit c) eqn:E; try discriminate.
    destruct (span_digits l) as [d r'] eqn:E'. intros H. injection H as <- <-.
    destruct (span_digits_split _ _ _ E') as (-> & _). split; auto. eauto.
Qed.

Lemma scan_frac_split l t r : scan_frac l = Some (t, r) -> l = t ++ r.
Proof.
  unfold scan_frac. destruct l as [|c l].
  - intros H. injection H as <- <-. reflexivity.
  - destruct (c =? 46).
    + destruct (span_digits l) as [d r'] eqn:E'. destruct (span_digits_split _ _ _ E') as (-> & _).
      destruct d; try discriminate. intros H. injection H as <- <-. reflexivity.
    + intros H. injection H as <- <-. reflexivity.
Qed.

Lemma scan_exp_split l t r : scan_exp l = Some (t, r) -> l = t ++ r.
Proof.
  unfold scan_exp. destruct l as [|c l].
  - intros H. injection H as <- <-. reflexivity.
  - destruct ((c =? 101) || (c =? 69)).
    + assert (Hs : forall sg r1, scan_sign l = (sg, r1) -> l = sg ++ r1).
      { unfold scan_sign. destruct l as [|x l]; intros sg r1 H.
        - injection H as <- <-. reflexivity.
        - destruct ((x =? 43) || (x =? 45)); injection H as <- <-; reflexivity. }
      destruct (scan_sign l) as [sg r1] eqn:Es. rewrite (Hs _ _ eq_refl).
      destruct (span_digits r1) as [d r'] eqn:E'. destruct (span_digits_split _ _ _ E') as (-> & _).
      destruct d; try discriminate. intros H. injection H as <- <-. simpl. now rewrite <- app_assoc.
    + intros H. injection H as <- <-. reflexivity.
Qed.

Lemma scan_minus_split l m r : scan_minus l = (m, r) -> l = m ++ r /\ (m = [] \/ m = [45]).
Proof.
  unfold scan_minus. destruct l as [|c l].
  - intros H. injection H as <- <-. auto.
  - destruct (N.eqb_spec c 45); intros H; injection H as <- <-; subst; auto.
Qed.

Lemma scan_number_split l t r : scan_number l = Some (t, r) ->
  l = t ++ r /\ exists c t', t = c :: t' /\ ((c =? 45) || is_digit c = true).
Proof.
  unfold scan_number. destruct (scan_minus l) as [m r0] eqn:Em.
  destruct (scan_minus_split _ _ _ Em) as (-> & Hm).
  destruct (scan_int r0) as [[i r1]|] eqn:Ei; try discriminate.
  destruct (scan_int_nonempty _ _ _ Ei) as (-> & c & i' & -> & Hc).
  destruct (scan_frac r1) as [[f r2]|] eqn:Ef; try discriminate.
  apply scan_frac_split in Ef as ->.
  destruct (scan_exp r2) as [[e r3]|] eqn:Ee; try discriminate.
  apply scan_exp_split in Ee as ->.
  intros H. injection H as <- <-. split.
  - repeat (rewrite <- app_assoc || rewrite <- app_comm_cons). reflexivity.
  - destruct Hm as [-> | ->].
    + exists c, (i' ++ f ++ e). split; auto. rewrite Hc. apply orb_true_r.
    + exists 45, ((c :: i') ++ f ++ e). split; auto.
Qed.

Lemma scan_number_shrinks l t r : scan_number l = Some (t, r) -> (length r < length l)%nat.
Proof.
  intros H. destruct (scan_number_split _ _ _ H) as (-> & c & t' & -> & _).
  rewrite app_length. simpl. lia.
Qed.

Lemma app_nil_inv {A} (a b : list A) : a ++ b = [] -> b = [].
Proof. destruct a; simpl; auto; discriminate. Qed.

Lemma scan_number_stable l t r rest :
  scan_number l = Some (t, r) -> (r = [] -> stop rest = true) -> scan_number (l ++ rest) = Some (t, r ++ rest).
Proof.
  unfold scan_number. destruct (scan_minus l) as [m r0] eqn:Em.
  destruct (scan_int r0) as [[i r1]|] eqn:Ei; try discriminate.
  destruct (scan_frac r1) as [[f r2]|] eqn:Ef; try discriminate.
  destruct (scan_exp r2) as [[e r3]|] eqn:Ee; try discriminate.
  intros H Hr. injection H as <- <-.
  pose proof (scan_frac_split _ _ _ Ef) as Sf. pose proof (scan_exp_split _ _ _ Ee) as Se.
  assert (Hm : scan_minus (l ++ rest) = (m, r0 ++ rest)).
  { unfold scan_minus in *. destruct l as [|c l].
    - injection Em as <- <-. simpl in Ei. discriminate.
    - cbn [app]. destruct (c =? 45); injection Em as <- <-; reflexivity. }
  rewrite Hm.
  rewrite (scan_int_stable _ _ _ rest Ei).
  2:{ intros ->. apply Hr. subst r2. symmetry in Sf. apply app_nil_inv in Sf. apply app_nil_inv in Sf. exact Sf. }
  rewrite (scan_frac_stable _ _ _ rest Ef).
  2:{ intros ->. apply Hr. symmetry in Se. apply app_nil_inv in Se. exact Se. }
  rewrite (scan_exp_stable _ _ _ rest Ee) by exact Hr.
  reflexivity.
Qed.

Lemma number_token_scan t : number_token t = true -> scan_number t = Some (t, []).
Proof.
  unfold number_token. destruct (scan_number t) as [[t' r]|] eqn:E; try discriminate.
  destruct r; try discriminate. intros _.
  destruct (scan_number_split _ _ _ E) as (H & _). rewrite app_nil_r in H. now subst.
Qed.

Lemma number_token_app t rest : number_token t = true -> stop rest = true ->
  scan_number (t ++ rest) = Some (t, rest).
Proof.
  intros H Hs. apply number_token_scan in H.
  now rewrite (scan_number_stable _ _ _ rest H (fun _ => Hs)).
Qed.

Lemma number_token_head t : number_token t = true ->
  exists c t', t = c :: t' /\ ((c =? 45) || is_digit c = true).
Proof.
  intros H. apply number_token_scan in H. destruct (scan_number_split _ _ _ H) as (_ & c & t' & E & Hc). eauto.
Qed.
