(* C18: parse (stringify v) = v.  Unbounded depth and width: induction over jvalue with a nested
   induction principle for the lists inside JArr / JObj. *)
From Coq Require Import NArith ZArith List Bool Arith Lia.
From C18 Require Import Json Proofs_Lex Proofs_Parse.
Import ListNotations.
Local Open Scope N_scope.

(* ------------------------------------------------------------------------------------------ *)
(* induction principles with the hypotheses for the elements *)

Section jvalue_ind2.
  Variable num : Type.
  Variable P : jvalue num -> Prop.
  Hypothesis HNull : P JNull.
  Hypothesis HBool : forall b, P (JBool b).
  Hypothesis HNum : forall x, P (JNum x).
  Hypothesis HStr : forall s, P (JStr s).
  Hypothesis HArr : forall vs, Forall P vs -> P (JArr vs).
  Hypothesis HObj : forall ms, Forall (fun kv => P (snd kv)) ms -> P (JObj ms).

  Fixpoint jvalue_ind2 (v : jvalue num) : P v :=
    match v with
    | JNull => HNull
    | JBool b => HBool b
    | JNum x => HNum x
    | JStr s => HStr s
    | JArr vs =>
      HArr vs ((fix go (l : list (jvalue num)) : Forall P l :=
                  match l with
                  | [] => Forall_nil _
                  | x :: r => Forall_cons x (jvalue_ind2 x) (go r)
                  end) vs)
    | JObj ms =>
      HObj ms ((fix go (l : list (list N * jvalue num)) : Forall (fun kv => P (snd kv)) l :=
                  match l with
                  | [] => Forall_nil _
                  | kv :: r =>
                    Forall_cons kv (match kv as p return P (snd p) with (k, x) => jvalue_ind2 x end) (go r)
                  end) ms)
    end.
End jvalue_ind2.

Section jsv_ind2.
  Variable num : Type.
  Variable P : jsv num -> Prop.
  Hypothesis HUndef : P VUndef.
  Hypothesis HNull : P VNull.
  Hypothesis HBool : forall b, P (VBool b).
  Hypothesis HNum : forall x, P (VNum x).
  Hypothesis HNonFinite : P VNonFinite.
  Hypothesis HStr : forall s, P (VStr s).
  Hypothesis HArr : forall vs, Forall P vs -> P (VArr vs).
  Hypothesis HObj : forall ms, Forall (fun kv => P (snd kv)) ms -> P (VObj ms).

  Fixpoint jsv_ind2 (v : jsv num) : P v :=
    match v with
    | VUndef => HUndef
    | VNull => HNull
    | VBool b => HBool b
    | VNum x => HNum x
    | VNonFinite => HNonFinite
    | VStr s => HStr s
    | VArr vs =>
      HArr vs ((fix go (l : list (jsv num)) : Forall P l :=
                  match l with
                  | [] => Forall_nil _
                  | x :: r => Forall_cons x (jsv_ind2 x) (go r)
                  end) vs)
    | VObj ms =>
      HObj ms ((fix go (l : list (list N * jsv num)) : Forall (fun kv => P (snd kv)) l :=
                  match l with
                  | [] => Forall_nil _
                  | kv :: r =>
                    Forall_cons kv (match kv as p return P (snd p) with (k, x) => jsv_ind2 x end) (go r)
                  end) ms)
    end.
End jsv_ind2.

(* ------------------------------------------------------------------------------------------ *)
(* small facts about stop / white space *)

Lemma is_ws_stop c r : is_ws c = true -> stop (c :: r) = true.
Proof.
  unfold is_ws. intros H.
  destruct (N.eqb_spec c 9); [subst; reflexivity|].
  destruct (N.eqb_spec c 10); [subst; reflexivity|].
  destruct (N.eqb_spec c 13); [subst; reflexivity|].
  destruct (N.eqb_spec c 32); [subst; reflexivity|]. discriminate.
Qed.

Lemma stop_app_ws w l : forallb is_ws w = true -> stop l = true -> stop (w ++ l) = true.
Proof.
  destruct w as [|c w]; [simpl; auto|]. intros H _. cbn [forallb] in H. apply andb_true_iff in H as [H _].
  cbn [app]. now apply is_ws_stop.
Qed.

Definition head_ok (t : list N) : Prop :=
  exists c r, t = c :: r /\ is_ws c = false /\ c <> 93 /\ c <> 125.

Lemma head_ok_skip t l : head_ok t -> exists c r, t ++ l = c :: r /\ skip_ws (t ++ l) = c :: r /\ (c =? 93) = false /\ (c =? 125) = false.
Proof.
  intros (c & r & -> & Hw & H1 & H2). exists c, (r ++ l). repeat split.
  - simpl. now rewrite Hw.
  - now apply N.eqb_neq.
  - now apply N.eqb_neq.
Qed.

Lemma digit_head_ok c r : (c =? 45) || is_digit c = true -> head_ok (c :: r).
Proof.
  intros H. exists c, r. split; auto.
  apply orb_true_iff in H as [H|H].
  - apply N.eqb_eq in H. subst. repeat split; try discriminate; try reflexivity.
  - unfold is_digit in H. apply andb_true_iff in H as [A B]. apply N.leb_le in A, B.
    repeat split; try lia. unfold is_ws.
    destruct (N.eqb_spec c 9); try lia. destruct (N.eqb_spec c 10); try lia.
    destruct (N.eqb_spec c 13); try lia. destruct (N.eqb_spec c 32); try lia; try reflexivity.
Qed.

Lemma forallb_app_ws a b : forallb is_ws a = true -> forallb is_ws b = true -> forallb is_ws (a ++ b) = true.
Proof. intros. rewrite forallb_app. now rewrite H, H0. Qed.

(* the two layouts of SerializeJSONArray/Object as one: open white space, separator white space,
   close white space *)
Lemma ser_array_form gap ind ind' partial : partial <> [] ->
  forallb is_ws ind = true -> forallb is_ws ind' = true ->
  exists w1 w2, forallb is_ws w1 = true /\ forallb is_ws w2 = true /\
    ser_array gap ind ind' partial = 91 :: w1 ++ join (44 :: w1) partial ++ w2 ++ [93].
Proof.
  intros Hp Hi Hi'. unfold ser_array. destruct partial as [|t ts]; [contradiction|]. cbn [is_nil].
  destruct gap as [|g gap]; cbn [is_nil].
  - exists [], []. repeat split; auto.
  - exists (10 :: ind'), (10 :: ind). repeat split; auto;
    cbn [app]; repeat (rewrite <- app_assoc || rewrite <- app_comm_cons); reflexivity.
Qed.

Lemma ser_object_form gap ind ind' partial : partial <> [] ->
  forallb is_ws ind = true -> forallb is_ws ind' = true ->
  exists w1 w2, forallb is_ws w1 = true /\ forallb is_ws w2 = true /\
    ser_object gap ind ind' partial = 123 :: w1 ++ join (44 :: w1) partial ++ w2 ++ [125].
Proof.
  intros Hp Hi Hi'. unfold ser_object. destruct partial as [|t ts]; [contradiction|]. cbn [is_nil].
  destruct gap as [|g gap]; cbn [is_nil].
  - exists [], []. repeat split; auto.
  - exists (10 :: ind'), (10 :: ind). repeat split; auto;
    cbn [app]; repeat (rewrite <- app_assoc || rewrite <- app_comm_cons); reflexivity.
Qed.

Ltac lens := repeat (progress (rewrite ?app_length in *; cbn [length app] in * )); lia.

Lemma join_cons2 sep t t2 ts : join sep (t :: t2 :: ts) = t ++ sep ++ join sep (t2 :: ts).
Proof. reflexivity. Qed.

(* ------------------------------------------------------------------------------------------ *)

Section Round.
  Variable num : Type.
  Variable print_num : num -> list N.
  Variable parse_num : list N -> option num.
  Variable ok : num -> bool.
  Hypothesis print_token : forall x, ok x = true -> number_token (print_num x) = true.
  Hypothesis parse_print : forall x, ok x = true -> parse_num (print_num x) = Some x.

  Notation pv := (parse_value num parse_num).
  Notation pe := (parse_elems num).
  Notation pm := (parse_members num).
  Notation str := (stringify_at num print_num).

  Lemma str_head gap ind v : printable num ok v = true -> head_ok (str gap ind v).
  Proof.
    destruct v as [| [|] | x | s | vs | ms]; cbn [stringify_at printable]; intros Hp.
    - exists 110, [117; 108; 108]. repeat split; try discriminate; try reflexivity.
    - exists 116, [114; 117; 101]. repeat split; try discriminate; try reflexivity.
    - exists 102, [97; 108; 115; 101]. repeat split; try discriminate; try reflexivity.
    - destruct (number_token_head _ (print_token x Hp)) as (c & t' & -> & Hc).
      now apply digit_head_ok.
    - unfold quote_json_string. exists 34, (quote_body s ++ [34]). repeat split; try discriminate; try reflexivity.
    - unfold ser_array. destruct (is_nil _); [|destruct (is_nil gap)]; eexists 91, _; (split; [reflexivity|]); repeat split; try discriminate; try reflexivity.
    - unfold ser_object. destruct (is_nil _); [|destruct (is_nil gap)]; eexists 123, _; (split; [reflexivity|]); repeat split; try discriminate; try reflexivity.
  Qed.

  (* what the induction gives for one element at the inner indentation *)
  Definition elem_ok (gap ind : list N) (f : nat) (v : jvalue num) : Prop :=
    forall rest, stop rest = true -> (length (str gap ind v ++ rest) < f)%nat ->
      pv f (str gap ind v ++ rest) = Some (v, rest).

  Lemma pe_ws p n w l : (forall x, p (w ++ x) = p x) -> pe p n (w ++ l) = pe p n l.
  Proof. intros H. destruct n; [reflexivity|]. cbn [parse_elems]. now rewrite H. Qed.

  Lemma pm_ws p n w l : forallb is_ws w = true -> pm p n (w ++ l) = pm p n l.
  Proof. intros H. destruct n; [reflexivity|]. cbn [parse_members]. now rewrite skip_ws_app_ws. Qed.

  Lemma elems_rt gap ind f w1 w2 rest :
    forallb is_ws w1 = true -> forallb is_ws w2 = true ->
    forall vs, vs <> [] -> Forall (elem_ok gap ind f) vs ->
    forall n, (length (join (44%N :: w1) (map (str gap ind) vs) ++ w2 ++ 93%N :: rest) < n)%nat ->
              (length (join (44%N :: w1) (map (str gap ind) vs) ++ w2 ++ 93%N :: rest) < f)%nat ->
      pe (pv f) n (join (44 :: w1) (map (str gap ind) vs) ++ w2 ++ 93 :: rest) = Some (vs, rest).
  Proof.
    intros Hw1 Hw2. induction vs as [|v vs IH]; intros Hne Hall n Hn Hf; [contradiction|].
    inversion Hall as [|? ? Hv Hvs]; subst.
    destruct n as [|n]; [lia|].
    destruct vs as [|v2 vs].
    - (* last element *)
      cbn [map join] in *. cbn [parse_elems].
      rewrite (Hv (w2 ++ 93 :: rest)); auto.
      2:{ apply stop_app_ws; auto. }
      rewrite skip_ws_app_ws by exact Hw2. cbn [skip_ws is_ws]. cbn. reflexivity.
    - cbn [map] in *. rewrite join_cons2 in *.
      rewrite <- !app_assoc in *. cbn [parse_elems].
      rewrite (Hv ((44 :: w1) ++ join (44 :: w1) (str gap ind v2 :: map (str gap ind) vs) ++ w2 ++ 93 :: rest)); auto.
      cbn [app skip_ws]. change (is_ws 44) with false. cbv iota. change (44 =? 44) with true. cbv iota.
      rewrite pe_ws by (intros x; apply parse_value_ws; exact Hw1).
      rewrite app_length in Hn, Hf. cbn [app length] in Hn, Hf. rewrite app_length in Hn, Hf.
      rewrite IH; auto; try discriminate; cbn [map]; lia.
  Qed.

  Definition member_text (gap ind : list N) (kv : list N * jvalue num) : list N :=
    ser_member gap (fst kv) (str gap ind (snd kv)).

  Lemma members_rt gap ind f w1 w2 rest :
    forallb is_ws w1 = true -> forallb is_ws w2 = true ->
    forall ms, ms <> [] -> Forall (fun kv => elem_ok gap ind f (snd kv)) ms ->
    forall n, (length (join (44%N :: w1) (map (member_text gap ind) ms) ++ w2 ++ 125%N :: rest) < n)%nat ->
              (length (join (44%N :: w1) (map (member_text gap ind) ms) ++ w2 ++ 125%N :: rest) < f)%nat ->
      pm (pv f) n (join (44 :: w1) (map (member_text gap ind) ms) ++ w2 ++ 125 :: rest) = Some (ms, rest).
  Proof.
    intros Hw1 Hw2. induction ms as [|[k v] ms IH]; intros Hne Hall n Hn Hf; [contradiction|].
    inversion Hall as [|? ? Hv Hms]; subst. cbn [snd] in Hv.
    destruct n as [|n]; [lia|].
    assert (Hsp : forallb is_ws (if is_nil gap then [] else [32]) = true) by (destruct (is_nil gap); reflexivity).
    destruct ms as [|kv2 ms].
    - cbn [map join] in *. unfold member_text, ser_member, quote_json_string in *. cbn [fst snd] in *.
      repeat (rewrite <- app_assoc in * || rewrite <- app_comm_cons in * ).
      cbn [parse_members skip_ws]. change (is_ws 34) with false. cbv iota.
      change (34 =? 34) with true. cbv iota.
      cbn [app]. rewrite scan_quote_body.
      cbn [skip_ws]. change (is_ws 58) with false. cbv iota. change (58 =? 58) with true. cbv iota.
      rewrite parse_value_ws by exact Hsp.
      rewrite (Hv (w2 ++ 125 :: rest)); auto.
      + rewrite skip_ws_app_ws by exact Hw2. cbn. reflexivity.
      + apply stop_app_ws; auto.
      + clear IH Hv. lens.
    - cbn [map] in *. rewrite join_cons2 in *.
      unfold member_text at 1, ser_member at 1, quote_json_string at 1.
      unfold member_text at 1, ser_member at 1, quote_json_string at 1 in Hn.
      unfold member_text at 1, ser_member at 1, quote_json_string at 1 in Hf.
      cbn [fst snd] in *.
      repeat (rewrite <- app_assoc in * || rewrite <- app_comm_cons in * ).
      cbn [parse_members skip_ws]. change (is_ws 34) with false. cbv iota.
      change (34 =? 34) with true. cbv iota.
      cbn [app]. rewrite scan_quote_body.
      cbn [skip_ws]. change (is_ws 58) with false. cbv iota. change (58 =? 58) with true. cbv iota.
      rewrite parse_value_ws by exact Hsp.
      rewrite (Hv (44 :: w1 ++ join (44 :: w1) (member_text gap ind kv2 :: map (member_text gap ind) ms) ++ w2 ++ 125 :: rest)); auto.
      + cbn [skip_ws]. change (is_ws 44) with false. cbv iota. change (44 =? 44) with true. cbv iota.
        rewrite pm_ws by exact Hw1.
        rewrite IH; auto; try discriminate; cbn [map]; clear IH Hv; lens.
      + clear IH Hv. lens.
  Qed.

  Lemma printable_arr vs : printable num ok (JArr vs) = true -> Forall (fun v => printable num ok v = true) vs.
  Proof. cbn [printable]. intros H. apply Forall_forall. intros x Hx. eapply forallb_forall in H; eauto. Qed.

  Lemma printable_obj ms : printable num ok (JObj ms) = true -> Forall (fun kv => printable num ok (snd kv) = true) ms.
  Proof. cbn [printable]. intros H. apply Forall_forall. intros x Hx. eapply forallb_forall in H; eauto. Qed.

  Lemma array_step f X : (exists c r, X = c :: r /\ is_ws c = false /\ (c =? 93) = false) ->
    match skip_ws X with
    | [] => None
    | c' :: r' =>
      if c' =? 93 then Some (JArr [], r')
      else match pe (pv f) f (c' :: r') with
           | Some (vs0, r'') => Some (JArr vs0, r'')
           | None => None
           end
    end = match pe (pv f) f X with Some (vs0, r'') => Some (JArr vs0, r'') | None => None end.
  Proof. intros (c & r & -> & Hw & Hc). cbn [skip_ws]. rewrite Hw, Hc. reflexivity. Qed.

  Lemma object_step f X : (exists c r, X = c :: r /\ is_ws c = false /\ (c =? 125) = false) ->
    match skip_ws X with
    | [] => None
    | c' :: r' =>
      if c' =? 125 then Some (JObj [], r')
      else match pm (pv f) f (c' :: r') with
           | Some (ms0, r'') => Some (JObj ms0, r'')
           | None => None
           end
    end = match pm (pv f) f X with Some (ms0, r'') => Some (JObj ms0, r'') | None => None end.
  Proof. intros (c & r & -> & Hw & Hc). cbn [skip_ws]. rewrite Hw, Hc. reflexivity. Qed.

  Lemma value_rt : forall v, printable num ok v = true ->
    forall gap ind f rest, forallb is_ws gap = true -> forallb is_ws ind = true -> stop rest = true ->
      (length (str gap ind v ++ rest) < f)%nat ->
      pv f (str gap ind v ++ rest) = Some (v, rest).
  Proof.
    intros v. induction v as [| b | x | s | vs IHvs | ms IHms] using jvalue_ind2;
      intros Hp gap ind f rest Hgap Hind Hstop Hf; (destruct f as [|f]; [lia|]); rewrite parse_value_S.
    - cbn [stringify_at]. unfold value_body. cbn. reflexivity.
    - destruct b; cbn [stringify_at]; unfold value_body; cbn; reflexivity.
    - cbn [stringify_at printable] in *.
      pose proof (print_token x Hp) as Ht.
      destruct (number_token_head _ Ht) as (c & t' & Et & Hc).
      destruct (head_ok_skip (print_num x) rest) as (c0 & r0 & E0 & Es0 & _).
      { rewrite Et. now apply digit_head_ok. }
      unfold value_body. rewrite Es0. rewrite Et in E0. cbn [app] in E0. injection E0 as <- <-.
      assert (Hcases : (c =? 91) = false /\ (c =? 123) = false /\ (c =? 34) = false /\ (c =? 116) = false
                       /\ (c =? 102) = false /\ (c =? 110) = false).
      { apply orb_true_iff in Hc as [Hc|Hc].
        - apply N.eqb_eq in Hc. subst. repeat split; reflexivity.
        - unfold is_digit in Hc. apply andb_true_iff in Hc as [A B]. apply N.leb_le in A, B.
          repeat split; apply N.eqb_neq; lia. }
      destruct Hcases as (-> & -> & -> & -> & -> & ->). rewrite Hc.
      change (c :: t' ++ rest) with ((c :: t') ++ rest). rewrite <- Et.
      rewrite number_token_app by assumption. now rewrite parse_print.
    - cbn [stringify_at]. unfold value_body, quote_json_string.
      repeat (rewrite <- app_assoc || rewrite <- app_comm_cons). cbn [skip_ws].
      change (is_ws 34) with false. cbv iota. cbn [N.eqb Pos.eqb]. cbn [app].
      now rewrite scan_quote_body.
    - (* arrays *)
      cbn [stringify_at] in *.
      destruct vs as [|v0 vs].
      + cbn. reflexivity.
      + assert (Hne : map (str gap (ind ++ gap)) (v0 :: vs) <> []) by discriminate.
        destruct (ser_array_form gap ind (ind ++ gap) _ Hne Hind (forallb_app_ws _ _ Hind Hgap))
          as (w1 & w2 & Hw1 & Hw2 & E).
        rewrite E in *. clear E.
        repeat (rewrite <- app_assoc in * || rewrite <- app_comm_cons in * ).
        unfold value_body. cbn [skip_ws]. change (is_ws 91) with false. cbv iota.
        change (91 =? 91) with true. cbv iota.
        rewrite skip_ws_app_ws by exact Hw1. cbn [app] in *.
        pose proof (printable_arr _ Hp) as Hpa.
        assert (Hh : head_ok (str gap (ind ++ gap) v0)).
        { apply str_head. inversion Hpa; auto. }
        rewrite array_step.
        2:{ destruct Hh as (c0 & r0 & Eh & Hw0 & Hc0 & _). cbn [map].
            destruct (map (str gap (ind ++ gap)) vs) as [|t2 ts].
            - cbn [join]. rewrite Eh. cbn [app]. exists c0. eexists. repeat split; auto. now apply N.eqb_neq.
            - rewrite join_cons2. rewrite Eh. cbn [app]. exists c0. eexists. repeat split; auto. now apply N.eqb_neq. }
        rewrite (elems_rt gap (ind ++ gap) f w1 w2 rest Hw1 Hw2 (v0 :: vs)); auto; try discriminate.
        * apply Forall_forall. intros e He rest' Hs' Hl'.
          rewrite Forall_forall in IHvs, Hpa. apply IHvs; auto. now apply forallb_app_ws.
        * clear IHvs. lens.
        * clear IHvs. lens.
    - (* objects *)
      cbn [stringify_at] in *.
      destruct ms as [|kv0 ms].
      + cbn. reflexivity.
      + change (map (fun kv => ser_member gap (fst kv) (str gap (ind ++ gap) (snd kv))) (kv0 :: ms))
          with (map (member_text gap (ind ++ gap)) (kv0 :: ms)) in *.
        assert (Hne : map (member_text gap (ind ++ gap)) (kv0 :: ms) <> []) by discriminate.
        destruct (ser_object_form gap ind (ind ++ gap) _ Hne Hind (forallb_app_ws _ _ Hind Hgap))
          as (w1 & w2 & Hw1 & Hw2 & E).
        rewrite E in *. clear E.
        repeat (rewrite <- app_assoc in * || rewrite <- app_comm_cons in * ).
        unfold value_body. cbn [skip_ws]. change (is_ws 123) with false. cbv iota.
        change (123 =? 91) with false. cbv iota. change (123 =? 123) with true. cbv iota.
        rewrite skip_ws_app_ws by exact Hw1. cbn [app] in *.
        pose proof (printable_obj _ Hp) as Hpa.
        rewrite object_step.
        2:{ cbn [map]. destruct (map (member_text gap (ind ++ gap)) ms) as [|t2 ts].
            - cbn [join]. unfold member_text, ser_member, quote_json_string. cbn [app]. exists 34. eexists. repeat split; auto.
            - rewrite join_cons2. unfold member_text at 1, ser_member, quote_json_string. cbn [app]. exists 34. eexists. repeat split; auto. }
        rewrite (members_rt gap (ind ++ gap) f w1 w2 rest Hw1 Hw2 (kv0 :: ms)); auto; try discriminate.
        * apply Forall_forall. intros e He rest' Hs' Hl'.
          rewrite Forall_forall in IHms, Hpa. apply IHms; auto. now apply forallb_app_ws.
        * clear IHms. lens.
        * clear IHms. lens.
  Qed.

  Lemma parse_raw_stringify gap v : printable num ok v = true -> valid_gap gap = true ->
    parse_raw num parse_num (stringify num print_num gap v) = Some v.
  Proof.
    intros Hp Hg. unfold parse_raw, stringify.
    pose proof (value_rt v Hp gap [] (S (length (str gap [] v))) [] Hg eq_refl eq_refl) as H.
    rewrite app_nil_r in H. rewrite H by lia. reflexivity.
  Qed.

  Lemma parse_stringify_lemma gap v : printable num ok v = true -> valid_gap gap = true ->
    parse_json num parse_num (stringify num print_num gap v) = Some (normal num v).
  Proof. intros Hp Hg. unfold parse_json. now rewrite parse_raw_stringify. Qed.

  Lemma stringify_wf_lemma gap v : printable num ok v = true -> valid_gap gap = true ->
    recognise num parse_num (stringify num print_num gap v) = true.
  Proof. intros Hp Hg. unfold recognise. now rewrite parse_stringify_lemma. Qed.

End Round.
