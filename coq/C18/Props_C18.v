(* C18 property theorems: statements only, each closed by `exact`, pinned by `Check`, assumptions printed. *)
From Coq Require Import NArith ZArith List Bool Arith Lia.
From C18 Require Import Json Proofs_Lex Proofs_Parse Proofs_Round Proofs_Obj Proofs_Inst Proofs_WF Proofs_C18 DeepModel_C18 DeepProofs_C18.
Import ListNotations.
Local Open Scope N_scope.

(* every code-unit list (any N, lone surrogates, controls, quotes) survives QuoteJSONString followed by the JSON string reader *)
Theorem quote_unquote :
  forall s : list N, parse_string_full (quote_json_string s) = Some s.
Proof. exact quote_unquote_lemma. Qed.
Check quote_unquote :
  forall s : list N, parse_string_full (quote_json_string s) = Some s.
Print Assumptions quote_unquote.

(* the same inside a longer text: the reader stops exactly after the closing quote *)
Theorem quote_unquote_rest :
  forall (s rest : list N), parse_string (quote_json_string s ++ rest) = Some (s, rest).
Proof. exact parse_quote_rest. Qed.
Check quote_unquote_rest :
  forall (s rest : list N), parse_string (quote_json_string s ++ rest) = Some (s, rest).
Print Assumptions quote_unquote_rest.

(* a complete number token followed by anything that is not a digit, dot, e or E is scanned as exactly that token *)
Theorem number_token_unextendable :
  forall t rest, number_token t = true -> stop rest = true -> scan_number (t ++ rest) = Some (t, rest).
Proof. exact number_token_app. Qed.
Check number_token_unextendable :
  forall t rest, number_token t = true -> stop rest = true -> scan_number (t ++ rest) = Some (t, rest).
Print Assumptions number_token_unextendable.

(* parse (stringify v) = normal v for every JSON value whose numbers print as number tokens that read back, every white-space gap; unbounded depth and width *)
Theorem parse_stringify :
  forall (num : Type) (print_num : num -> list N) (parse_num : list N -> option num) (ok : num -> bool),
  (forall x, ok x = true -> number_token (print_num x) = true) ->
  (forall x, ok x = true -> parse_num (print_num x) = Some x) ->
  forall gap (v : jvalue num), printable num ok v = true -> valid_gap gap = true ->
    parse_json num parse_num (stringify num print_num gap v) = Some (normal num v).
Proof. exact parse_stringify_lemma. Qed.
Check parse_stringify :
  forall (num : Type) (print_num : num -> list N) (parse_num : list N -> option num) (ok : num -> bool),
  (forall x, ok x = true -> number_token (print_num x) = true) ->
  (forall x, ok x = true -> parse_num (print_num x) = Some x) ->
  forall gap (v : jvalue num), printable num ok v = true -> valid_gap gap = true ->
    parse_json num parse_num (stringify num print_num gap v) = Some (normal num v).
Print Assumptions parse_stringify.

(* for representable values (numbers printable, no duplicate keys at any depth) the round trip is the identity *)
Theorem parse_stringify_id :
  forall (num : Type) (print_num : num -> list N) (parse_num : list N -> option num) (ok : num -> bool),
  (forall x, ok x = true -> number_token (print_num x) = true) ->
  (forall x, ok x = true -> parse_num (print_num x) = Some x) ->
  forall gap (v : jvalue num), representable num ok v = true -> valid_gap gap = true ->
    parse_json num parse_num (stringify num print_num gap v) = Some v.
Proof. exact parse_stringify_id_lemma. Qed.
Check parse_stringify_id :
  forall (num : Type) (print_num : num -> list N) (parse_num : list N -> option num) (ok : num -> bool),
  (forall x, ok x = true -> number_token (print_num x) = true) ->
  (forall x, ok x = true -> parse_num (print_num x) = Some x) ->
  forall gap (v : jvalue num), representable num ok v = true -> valid_gap gap = true ->
    parse_json num parse_num (stringify num print_num gap v) = Some v.
Print Assumptions parse_stringify_id.

(* stringify emits a text the recogniser accepts *)
Theorem stringify_wf :
  forall (num : Type) (print_num : num -> list N) (parse_num : list N -> option num) (ok : num -> bool),
  (forall x, ok x = true -> number_token (print_num x) = true) ->
  (forall x, ok x = true -> parse_num (print_num x) = Some x) ->
  forall gap (v : jvalue num), printable num ok v = true -> valid_gap gap = true ->
    recognise num parse_num (stringify num print_num gap v) = true.
Proof. exact stringify_wf_lemma. Qed.
Check stringify_wf :
  forall (num : Type) (print_num : num -> list N) (parse_num : list N -> option num) (ok : num -> bool),
  (forall x, ok x = true -> number_token (print_num x) = true) ->
  (forall x, ok x = true -> parse_num (print_num x) = Some x) ->
  forall gap (v : jvalue num), printable num ok v = true -> valid_gap gap = true ->
    recognise num parse_num (stringify num print_num gap v) = true.
Print Assumptions stringify_wf.

(* SerializeJSONProperty on a JS value (undefined members dropped, undefined elements and non-finite numbers as null) is stringify of the JSON value it denotes *)
Theorem serialize_denotes :
  forall (num : Type) (print_num : num -> list N) (v : jsv num) gap ind,
  serialize_at num print_num gap ind v = option_map (stringify_at num print_num gap ind) (to_json num v).
Proof. exact serialize_to_json. Qed.
Check serialize_denotes :
  forall (num : Type) (print_num : num -> list N) (v : jsv num) gap ind,
  serialize_at num print_num gap ind v = option_map (stringify_at num print_num gap ind) (to_json num v).
Print Assumptions serialize_denotes.

(* JSON.parse (JSON.stringify x) is the JSON value x denotes *)
Theorem serialize_parse :
  forall (num : Type) (print_num : num -> list N) (parse_num : list N -> option num) (ok : num -> bool),
  (forall x, ok x = true -> number_token (print_num x) = true) ->
  (forall x, ok x = true -> parse_num (print_num x) = Some x) ->
  forall gap (x : jsv num) (j : jvalue num), to_json num x = Some j -> printable num ok j = true -> valid_gap gap = true ->
    exists t, serialize num print_num gap x = Some t /\ parse_json num parse_num t = Some (normal num j).
Proof. exact serialize_parse_lemma. Qed.
Check serialize_parse :
  forall (num : Type) (print_num : num -> list N) (parse_num : list N -> option num) (ok : num -> bool),
  (forall x, ok x = true -> number_token (print_num x) = true) ->
  (forall x, ok x = true -> parse_num (print_num x) = Some x) ->
  forall gap (x : jsv num) (j : jvalue num), to_json num x = Some j -> printable num ok j = true -> valid_gap gap = true ->
    exists t, serialize num print_num gap x = Some t /\ parse_json num parse_num t = Some (normal num j).
Print Assumptions serialize_parse.

(* more fuel never changes an answer *)
Theorem parse_fuel_mono :
  forall (num : Type) (parse_num : list N -> option num) f g l x, (f <= g)%nat ->
  parse_value num parse_num f l = Some x -> parse_value num parse_num g l = Some x.
Proof. exact parse_fuel_mono_lemma. Qed.
Check parse_fuel_mono :
  forall (num : Type) (parse_num : list N -> option num) f g l x, (f <= g)%nat ->
  parse_value num parse_num f l = Some x -> parse_value num parse_num g l = Some x.
Print Assumptions parse_fuel_mono.

(* two successful runs, whatever their fuel, give the same value and rest *)
Theorem parse_deterministic :
  forall (num : Type) (parse_num : list N -> option num) f g l x y,
  parse_value num parse_num f l = Some x -> parse_value num parse_num g l = Some y -> x = y.
Proof. exact parse_deterministic_lemma. Qed.
Check parse_deterministic :
  forall (num : Type) (parse_num : list N -> option num) f g l x y,
  parse_value num parse_num f l = Some x -> parse_value num parse_num g l = Some y -> x = y.
Print Assumptions parse_deterministic.

(* fuel above the length of the text is enough: the answer, rejection included, is that of length+1 *)
Theorem parse_fuel_enough :
  forall (num : Type) (parse_num : list N -> option num) f l, (length l < f)%nat ->
  parse_value num parse_num f l = parse_value num parse_num (S (length l)) l.
Proof. exact parse_fuel_enough_lemma. Qed.
Check parse_fuel_enough :
  forall (num : Type) (parse_num : list N -> option num) f l, (length l < f)%nat ->
  parse_value num parse_num f l = parse_value num parse_num (S (length l)) l.
Print Assumptions parse_fuel_enough.

(* whatever fuel accepts, parse_raw's fuel accepts: rejection by parse_json is rejection by the grammar, not by the fuel *)
Theorem parse_complete :
  forall (num : Type) (parse_num : list N -> option num) f l x,
  parse_value num parse_num f l = Some x -> parse_value num parse_num (S (length l)) l = Some x.
Proof. exact parse_complete_lemma. Qed.
Check parse_complete :
  forall (num : Type) (parse_num : list N -> option num) f l x,
  parse_value num parse_num f l = Some x -> parse_value num parse_num (S (length l)) l = Some x.
Print Assumptions parse_complete.

(* dedup_last: each key once, at its first position, with its last value *)
Theorem dup_keys_last_wins :
  forall (V : Type) (ms : list (list N * V)),
  (forall k, assoc k (dedup_last ms) = assoc_last k ms) /\
  nodup_keys (map fst (dedup_last ms)) = true /\
  map fst (dedup_last ms) = first_occurrences (map fst ms).
Proof. exact dup_keys_lemma. Qed.
Check dup_keys_last_wins :
  forall (V : Type) (ms : list (list N * V)),
  (forall k, assoc k (dedup_last ms) = assoc_last k ms) /\
  nodup_keys (map fst (dedup_last ms)) = true /\
  map fst (dedup_last ms) = first_occurrences (map fst ms).
Print Assumptions dup_keys_last_wins.

(* a parsed value has no duplicate keys at any depth *)
Theorem parse_json_keys_distinct :
  forall (num : Type) (parse_num : list N -> option num) l v,
  parse_json num parse_num l = Some v -> keys_distinct num v = true.
Proof. exact parse_json_distinct_lemma. Qed.
Check parse_json_keys_distinct :
  forall (num : Type) (parse_num : list N -> option num) l v,
  parse_json num parse_num l = Some v -> keys_distinct num v = true.
Print Assumptions parse_json_keys_distinct.

(* closed instance: integers in decimal, no hypothesis left *)
Theorem parse_stringify_Z :
  forall gap (v : jvalue Z), valid_gap gap = true ->
  parse_json Z parse_Z (stringify Z print_Z gap v) = Some (normal Z v).
Proof. exact parse_stringify_Z_lemma. Qed.
Check parse_stringify_Z :
  forall gap (v : jvalue Z), valid_gap gap = true ->
  parse_json Z parse_Z (stringify Z print_Z gap v) = Some (normal Z v).
Print Assumptions parse_stringify_Z.

(* instance used by the correspondence: numbers are their token texts *)
Theorem parse_stringify_tok :
  forall gap (v : jvalue (list N)), printable (list N) number_token v = true -> valid_gap gap = true ->
  parse_json (list N) parse_tok (stringify (list N) print_tok gap v) = Some (normal (list N) v).
Proof. exact parse_stringify_tok_lemma. Qed.
Check parse_stringify_tok :
  forall gap (v : jvalue (list N)), printable (list N) number_token v = true -> valid_gap gap = true ->
  parse_json (list N) parse_tok (stringify (list N) print_tok gap v) = Some (normal (list N) v).
Print Assumptions parse_stringify_tok.

(* the gap computed from a Number space argument is white space (so the output parses), for every integer *)
Theorem gap_number_valid :
  forall z, valid_gap (gap_of_space (SpNum z)) = true.
Proof. exact gap_num_valid. Qed.
Check gap_number_valid :
  forall z, valid_gap (gap_of_space (SpNum z)) = true.
Print Assumptions gap_number_valid.

(* the gap never exceeds 10 code units *)
Theorem gap_at_most_10 :
  forall sp, (length (gap_of_space sp) <= 10)%nat.
Proof. exact gap_length. Qed.
Check gap_at_most_10 :
  forall sp, (length (gap_of_space sp) <= 10)%nat.
Print Assumptions gap_at_most_10.

(* well-formed JSON.stringify, strings: whatever code units a string or key holds (lone surrogates, any N), its quoted form has no unpaired surrogate *)
Theorem quote_well_formed :
  forall s : list N, wf16 (quote_json_string s) = true.
Proof. exact wf16_quote. Qed.
Check quote_well_formed :
  forall s : list N, wf16 (quote_json_string s) = true.
Print Assumptions quote_well_formed.

(* well-formed JSON.stringify, whole texts: any depth and width, any strings and keys, any gap that is itself well-formed *)
Theorem stringify_well_formed :
  forall (num : Type) (print_num : num -> list N) (ok : num -> bool),
  (forall x, ok x = true -> wf16 (print_num x) = true) ->
  forall gap (v : jvalue num), printable num ok v = true -> wf16 gap = true ->
    wf16 (stringify num print_num gap v) = true.
Proof. exact wf16_stringify. Qed.
Check stringify_well_formed :
  forall (num : Type) (print_num : num -> list N) (ok : num -> bool),
  (forall x, ok x = true -> wf16 (print_num x) = true) ->
  forall gap (v : jvalue num), printable num ok v = true -> wf16 gap = true ->
    wf16 (stringify num print_num gap v) = true.
Print Assumptions stringify_well_formed.

(* the same for the JS value handed to JSON.stringify (undefined members dropped, holes and non-finite numbers as null) *)
Theorem serialize_well_formed :
  forall (num : Type) (print_num : num -> list N) (ok : num -> bool),
  (forall x, ok x = true -> wf16 (print_num x) = true) ->
  forall gap (x : jsv num) (j : jvalue num) t, to_json num x = Some j -> printable num ok j = true -> wf16 gap = true ->
    serialize num print_num gap x = Some t -> wf16 t = true.
Proof. exact wf16_serialize. Qed.
Check serialize_well_formed :
  forall (num : Type) (print_num : num -> list N) (ok : num -> bool),
  (forall x, ok x = true -> wf16 (print_num x) = true) ->
  forall gap (x : jsv num) (j : jvalue num) t, to_json num x = Some j -> printable num ok j = true -> wf16 gap = true ->
    serialize num print_num gap x = Some t -> wf16 t = true.
Print Assumptions serialize_well_formed.

(* closed instance used by the correspondence: numbers are JSON number tokens (ASCII), no hypothesis left *)
Theorem stringify_well_formed_tok :
  forall gap (v : jvalue (list N)), printable (list N) number_token v = true -> wf16 gap = true ->
    wf16 (stringify (list N) print_tok gap v) = true.
Proof. exact wf16_stringify_tok. Qed.
Check stringify_well_formed_tok :
  forall gap (v : jvalue (list N)), printable (list N) number_token v = true -> wf16 gap = true ->
    wf16 (stringify (list N) print_tok gap v) = true.
Print Assumptions stringify_well_formed_tok.

(* the gap made from a Number is well-formed; the one cut from a String need not be (ex_gap_splits_pair below) *)
Theorem gap_number_well_formed :
  forall z, wf16 (gap_of_space (SpNum z)) = true.
Proof. exact wf16_gap_num. Qed.
Check gap_number_well_formed :
  forall z, wf16 (gap_of_space (SpNum z)) = true.
Print Assumptions gap_number_well_formed.

(* ---- deepening round: values with identities and the stack of SerializeJSONObject/Array (DeepModel_C18.v) ---- *)

(* sharing is unobservable: for a DAG (closed store, a rank decreasing along every edge) JSON.stringify over the value with
   identities never throws, gives exactly the text of the unfolded tree, and hands the stack back empty -- at every fuel above the
   number of nodes, any gap, any shape of sharing (same instance under several keys, at several depths) *)
Theorem stringify_dag_eq_tree :
  forall (num : Type) (print_num : num -> list N) (st : store num) (rk : nat -> nat) (gap ind : list N) (v : ival num),
  closed num st -> rank_ok num st rk -> ref_lt num (length st) v ->
  forall fu, (forall j, v = IRef j -> (rk j < fu)%nat) ->
  exists t, unfold num fu st v = Some t /\
    forall f, (length st < f)%nat -> ser_id num print_num f st gap [] ind v = ([], inl (serialize_at num print_num gap ind t)).
Proof. exact stringify_dag_eq_tree_lemma. Qed.
Check stringify_dag_eq_tree :
  forall (num : Type) (print_num : num -> list N) (st : store num) (rk : nat -> nat) (gap ind : list N) (v : ival num),
  closed num st -> rank_ok num st rk -> ref_lt num (length st) v ->
  forall fu, (forall j, v = IRef j -> (rk j < fu)%nat) ->
  exists t, unfold num fu st v = Some t /\
    forall f, (length st < f)%nat -> ser_id num print_num f st gap [] ind v = ([], inl (serialize_at num print_num gap ind t)).
Print Assumptions stringify_dag_eq_tree.

(* a value with no finite unfolding (a cycle is reachable) throws the cyclic-structure TypeError *)
Theorem cycle_throws :
  forall (num : Type) (print_num : num -> list N) (st : store num) (gap ind : list N) (v : ival num),
  closed num st -> ref_lt num (length st) v -> (forall f, unfold num f st v = None) ->
  forall f, (length st < f)%nat -> snd (ser_id num print_num f st gap [] ind v) = inr ECycle.
Proof. exact cycle_throws_lemma. Qed.
Check cycle_throws :
  forall (num : Type) (print_num : num -> list N) (st : store num) (gap ind : list N) (v : ival num),
  closed num st -> ref_lt num (length st) v -> (forall f, unfold num f st v = None) ->
  forall f, (length st < f)%nat -> snd (ser_id num print_num f st gap [] ind v) = inr ECycle.
Print Assumptions cycle_throws.

(* step 1 of SerializeJSONObject/Array: a value that is on the stack is refused, the stack untouched *)
Theorem reentry_throws :
  forall (num : Type) (print_num : num -> list N) (st : store num) (gap : list N) (K : stack) (ind : list N) (f i : nat),
  In i K -> ser_id num print_num (S f) st gap K ind (IRef i) = (K, inr ECycle).
Proof. exact reentry_throws_lemma. Qed.
Check reentry_throws :
  forall (num : Type) (print_num : num -> list N) (st : store num) (gap : list N) (K : stack) (ind : list N) (f i : nat),
  In i K -> ser_id num print_num (S f) st gap K ind (IRef i) = (K, inr ECycle).
Print Assumptions reentry_throws.

(* any store (cyclic or not), any stack: a normal completion restores the stack and its text is the text of a finite unfolding *)
Theorem stringify_id_ok_is_tree :
  forall (num : Type) (print_num : num -> list N) (st : store num) (gap : list N) (f : nat) (v : ival num)
         (K : stack) (ind : list N) (K' : stack) (r : option (list N)),
  ser_id num print_num f st gap K ind v = (K', inl r) ->
  K' = K /\ exists t, unfold num f st v = Some t /\ r = serialize_at num print_num gap ind t.
Proof. exact ok_unfold. Qed.
Check stringify_id_ok_is_tree :
  forall (num : Type) (print_num : num -> list N) (st : store num) (gap : list N) (f : nat) (v : ival num)
         (K : stack) (ind : list N) (K' : stack) (r : option (list N)),
  ser_id num print_num f st gap K ind v = (K', inl r) ->
  K' = K /\ exists t, unfold num f st v = Some t /\ r = serialize_at num print_num gap ind t.
Print Assumptions stringify_id_ok_is_tree.

(* the model's own abnormal outcomes do not occur: closed store, duplicate-free stack inside the store, fuel above the free nodes *)
Theorem stringify_id_total :
  forall (num : Type) (print_num : num -> list N) (st : store num) (gap : list N), closed num st ->
  forall (f : nat) (v : ival num) (K : stack) (ind : list N), ref_lt num (length st) v -> NoDup K ->
  (forall i, In i K -> (i < length st)%nat) -> (length st < f + length K)%nat ->
  forall e, snd (ser_id num print_num f st gap K ind v) = inr e -> ~ bad e.
Proof. exact ser_not_bad. Qed.
Check stringify_id_total :
  forall (num : Type) (print_num : num -> list N) (st : store num) (gap : list N), closed num st ->
  forall (f : nat) (v : ival num) (K : stack) (ind : list N), ref_lt num (length st) v -> NoDup K ->
  (forall i, In i K -> (i < length st)%nat) -> (length st < f + length K)%nat ->
  forall e, snd (ser_id num print_num f st gap K ind v) = inr e -> ~ bad e.
Print Assumptions stringify_id_total.

(* more fuel never changes an answer *)
Theorem stringify_id_fuel_mono :
  forall (num : Type) (print_num : num -> list N) (st : store num) (gap : list N) (f g : nat) (v : ival num)
         (K : stack) (ind : list N) (K' : stack) (r : option (list N) + err), (f <= g)%nat ->
  ser_id num print_num f st gap K ind v = (K', r) -> r <> inr EFuel -> ser_id num print_num g st gap K ind v = (K', r).
Proof. exact ser_mono. Qed.
Check stringify_id_fuel_mono :
  forall (num : Type) (print_num : num -> list N) (st : store num) (gap : list N) (f g : nat) (v : ival num)
         (K : stack) (ind : list N) (K' : stack) (r : option (list N) + err), (f <= g)%nat ->
  ser_id num print_num f st gap K ind v = (K', r) -> r <> inr EFuel -> ser_id num print_num g st gap K ind v = (K', r).
Print Assumptions stringify_id_fuel_mono.

(* the hypotheses of the general theorems are satisfiable (both instances), and the definitions compute *)
Example hyp_Z : (forall x : Z, (fun _ => true) x = true -> number_token (print_Z x) = true) /\
                (forall x : Z, (fun _ => true) x = true -> parse_Z (print_Z x) = Some x).
Proof. split; intros x _; [apply Z_print_token | apply Z_parse_print]. Qed.

Example hyp_tok : (forall t, number_token t = true -> number_token (print_tok t) = true) /\
                  (forall t, number_token t = true -> parse_tok (print_tok t) = Some t).
Proof. split; [exact tok_print_token | exact tok_parse_print]. Qed.

(* {"a":[-12,{"":null}],"a":"\ud800"} with a 2-space gap: text, and parse of it (last "a" wins) *)
Example ex_roundtrip :
  let v := JObj [([97], JArr [JNum (-12)%Z; JObj [([], JNull)]]); ([97], JStr [55296])] in
  stringify Z print_Z (gap_of_space (SpNum 2)) v =
    [123;10;32;32;34;97;34;58;32;91;10;32;32;32;32;45;49;50;44;10;32;32;32;32;123;10;32;32;32;32;32;32;34;34;58;32;110;117;108;108;10;32;32;32;32;125;10;32;32;93;44;10;32;32;34;97;34;58;32;34;92;117;100;56;48;48;34;10;125]
  /\ parse_json Z parse_Z (stringify Z print_Z (gap_of_space (SpNum 2)) v) = Some (JObj [([97], JStr [55296])]).
Proof. vm_compute. split; reflexivity. Qed.

(* texts the grammar rejects / accepts (token instance): 01  .5  5.  +1  [1,]  BOM 1  NBSP 1   |  1e400  -0  "\ud800" *)
Example ex_reject :
  map (recognise (list N) parse_tok)
      [[48;49]; [46;53]; [53;46]; [43;49]; [91;49;44;93]; [65279;49]; [160;49]; []; [49;32;50]; [34;9;34]] =
  [false; false; false; false; false; false; false; false; false; false].
Proof. vm_compute. reflexivity. Qed.

Example ex_accept :
  map (parse_json (list N) parse_tok)
      [[49;101;52;48;48]; [45;48]; [34;92;117;100;56;48;48;34]; [34;55296;34]; [32;91;32;93;32]] =
  [Some (JNum [49;101;52;48;48]); Some (JNum [45;48]); Some (JStr [55296]); Some (JStr [55296]); Some (JArr [])].
Proof. vm_compute. reflexivity. Qed.

(* the hypothesis `wf16 gap` of stringify_well_formed is needed: a String `space` is cut after 10 code units, which can split a pair *)
Example ex_gap_splits_pair :
  wf16 (repeat 32 9 ++ [55357; 56832]) = true /\
  wf16 (gap_of_space (SpStr (repeat 32 9 ++ [55357; 56832]))) = false.
Proof. exact gap_can_split_pair. Qed.

Example hyp_wf_tok : forall t, number_token t = true -> wf16 (print_tok t) = true.
Proof. exact number_token_wf16. Qed.

(* deepening: the hypotheses are satisfiable and the definitions compute.  E = {} shared under two keys and once more inside an
   array (store: 0 = E, 1 = [E], 2 = {"a":E,"b":E,"c":[E]}), rank = index *)
Example ex_dag :
  let st := [NObj []; NArr [IRef 0]; NObj [([97], IRef 0); ([98], IRef 0); ([99], IRef 1)]] in
  closed Z st /\ rank_ok Z st (fun i => i) /\
  ser_id Z print_Z 4 st [] [] [] (IRef 2) =
    ([], inl (Some [123;34;97;34;58;123;125;44;34;98;34;58;123;125;44;34;99;34;58;91;123;125;93;125])).
Proof.
  split; [|split].
  - intros i n E c Hc j ->.
    do 3 (destruct i as [|i]; [cbn in E; injection E as <-; cbn in Hc; intuition (try discriminate);
                               repeat match goal with H : IRef _ = IRef _ |- _ => injection H as <- end; cbn; lia|]).
    cbn in E. destruct i; discriminate.
  - intros i n E j Hc.
    do 3 (destruct i as [|i]; [cbn in E; injection E as <-; cbn in Hc; intuition (try discriminate);
                               repeat match goal with H : IRef _ = IRef _ |- _ => injection H as <- end; lia|]).
    cbn in E. destruct i; discriminate.
  - vm_compute. reflexivity.
Qed.

(* a.x = a : closed, no finite unfolding, and the model answers ECycle *)
Example ex_cycle :
  closed Z [NObj [([97], @IRef Z 0)]] /\ (forall f, unfold Z f [NObj [([97], IRef 0)]] (IRef 0) = None) /\
  snd (ser_id Z print_Z 2 [NObj [([97], IRef 0)]] [] [] [] (IRef 0)) = inr ECycle.
Proof. split; [apply self_cycle_closed|split; [apply self_cycle_no_unfold|vm_compute; reflexivity]]. Qed.
