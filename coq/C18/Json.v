(* C18 model: JSON texts as lists of UTF-16 code units (N), ECMA-404 recogniser/parser as used by
   ECMA-262 JSON.parse, QuoteJSONString, SerializeJSONProperty/Object/Array (JSON.stringify without
   replacer).  Executable definitions only -- no lemma in this file. *)
From Coq Require Import NArith ZArith List Bool Arith.
Import ListNotations.
Local Open Scope N_scope.

(* ------------------------------------------------------------------------------------------ *)
(* code units *)

Definition is_ws (c : N) : bool := (c =? 9) || (c =? 10) || (c =? 13) || (c =? 32).
Definition is_digit (c : N) : bool := (48 <=? c) && (c <=? 57).
Definition is_high (c : N) : bool := (55296 <=? c) && (c <=? 56319).   (* D800..DBFF *)
Definition is_low (c : N) : bool := (56320 <=? c) && (c <=? 57343).    (* DC00..DFFF *)

Fixpoint skip_ws (l : list N) : list N :=
  match l with
  | c :: r => if is_ws c then skip_ws r else l
  | [] => []
  end.

Fixpoint units_eqb (a b : list N) : bool :=
  match a, b with
  | [], [] => true
  | x :: a', y :: b' => (x =? y) && units_eqb a' b'
  | _, _ => false
  end.

Fixpoint strip_prefix (p l : list N) : option (list N) :=
  match p with
  | [] => Some l
  | a :: p' => match l with
               | b :: l' => if a =? b then strip_prefix p' l' else None
               | [] => None
               end
  end.

Definition lit_true : list N := [116; 114; 117; 101].
Definition lit_false : list N := [102; 97; 108; 115; 101].
Definition lit_null : list N := [110; 117; 108; 108].

(* ------------------------------------------------------------------------------------------ *)
(* strings: JSON string token -> code units *)

Definition hex_val (c : N) : option N :=
  if (48 <=? c) && (c <=? 57) then Some (c - 48)
  else if (97 <=? c) && (c <=? 102) then Some (c - 87)
  else if (65 <=? c) && (c <=? 70) then Some (c - 55)
  else None.

Definition hex4 (a b c d : N) : option N :=
  match hex_val a, hex_val b, hex_val c, hex_val d with
  | Some x, Some y, Some z, Some w => Some (((x * 16 + y) * 16 + z) * 16 + w)
  | _, _, _, _ => None
  end.

(* the character after a backslash, other than u *)
Definition simple_escape (e : N) : option N :=
  if e =? 34 then Some 34            (* backslash quote *)
  else if e =? 92 then Some 92       (* \\ *)
  else if e =? 47 then Some 47       (* \/ *)
  else if e =? 98 then Some 8        (* \b *)
  else if e =? 102 then Some 12      (* \f *)
  else if e =? 110 then Some 10      (* \n *)
  else if e =? 114 then Some 13      (* \r *)
  else if e =? 116 then Some 9       (* \t *)
  else None.

Definition cons_fst {A B} (a : A) (r : option (list A * B)) : option (list A * B) :=
  match r with Some (s, t) => Some (a :: s, t) | None => None end.

(* after the opening quote: the string value and what follows the closing quote.  Any code unit
   >= 0x20 other than quote and backslash stands for itself (this includes raw lone surrogates,
   U+2028/2029, DEL); \uXXXX denotes exactly that code unit (lone surrogates included). *)
Fixpoint scan_string (l : list N) : option (list N * list N) :=
  match l with
  | [] => None
  | c :: r =>
    if c =? 34 then Some ([], r)
    else if c =? 92 then
      match r with
      | [] => None
      | e :: r1 =>
        if e =? 117 then
          match r1 with
          | h1 :: h2 :: h3 :: h4 :: r2 =>
            match hex4 h1 h2 h3 h4 with
            | Some u => cons_fst u (scan_string r2)
            | None => None
            end
          | _ => None
          end
        else match simple_escape e with
             | Some u => cons_fst u (scan_string r1)
             | None => None
             end
      end
    else if c <? 32 then None
    else cons_fst c (scan_string r)
  end.

Definition parse_string (l : list N) : option (list N * list N) :=
  match l with
  | c :: r => if c =? 34 then scan_string r else None
  | [] => None
  end.

Definition parse_string_full (l : list N) : option (list N) :=
  match parse_string l with
  | Some (s, []) => Some s
  | _ => None
  end.

(* ------------------------------------------------------------------------------------------ *)
(* numbers: the JSON number token (maximal munch; a token that starts but cannot be completed makes
   the whole text invalid, so no backtracking) *)

Fixpoint span_digits (l : list N) : list N * list N :=
  match l with
  | c :: r => if is_digit c then let (d, r') := span_digits r in (c :: d, r') else ([], l)
  | [] => ([], [])
  end.

Definition scan_int (l : list N) : option (list N * list N) :=
  match l with
  | c :: r =>
    if c =? 48 then Some ([48], r)
    else if is_digit c then let (d, r') := span_digits r in Some (c :: d, r')
    else None
  | [] => None
  end.

Definition scan_frac (l : list N) : option (list N * list N) :=
  match l with
  | c :: r =>
    if c =? 46 then
      match span_digits r with
      | ([], _) => None
      | (d, r') => Some (c :: d, r')
      end
    else Some ([], l)
  | [] => Some ([], [])
  end.

Definition scan_sign (l : list N) : list N * list N :=
  match l with
  | c :: r => if (c =? 43) || (c =? 45) then ([c], r) else ([], l)
  | [] => ([], [])
  end.

Definition scan_exp (l : list N) : option (list N * list N) :=
  match l with
  | c :: r =>
    if (c =? 101) || (c =? 69) then
      let (sg, r1) := scan_sign r in
      match span_digits r1 with
      | ([], _) => None
      | (d, r') => Some (c :: sg ++ d, r')
      end
    else Some ([], l)
  | [] => Some ([], [])
  end.

Definition scan_minus (l : list N) : list N * list N :=
  match l with
  | c :: r => if c =? 45 then ([c], r) else ([], l)
  | [] => ([], [])
  end.

Definition scan_number (l : list N) : option (list N * list N) :=
  let (m, r0) := scan_minus l in
  match scan_int r0 with
  | None => None
  | Some (i, r1) =>
    match scan_frac r1 with
    | None => None
    | Some (f, r2) =>
      match scan_exp r2 with
      | None => None
      | Some (e, r3) => Some (m ++ i ++ f ++ e, r3)
      end
    end
  end.

(* t is exactly one JSON number *)
Definition number_token (t : list N) : bool :=
  match scan_number t with
  | Some (_, []) => true
  | _ => false
  end.

(* what follows a complete number token must not continue it *)
Definition stop (rest : list N) : bool :=
  match rest with
  | [] => true
  | c :: _ => negb (is_digit c || (c =? 46) || (c =? 101) || (c =? 69))
  end.

(* ------------------------------------------------------------------------------------------ *)
(* QuoteJSONString (ECMA-262 25.5.2.3; boa: Json::quote_json_string) *)

Definition hex_digit (v : N) : N := if v <? 10 then 48 + v else 87 + v.   (* lower case *)

Definition uesc (c : N) : list N :=
  [92; 117; hex_digit (c / 4096); hex_digit ((c / 256) mod 16); hex_digit ((c / 16) mod 16); hex_digit (c mod 16)].

(* one code point that is a single code unit and not a leading surrogate *)
Definition quote_unit (c : N) : list N :=
  if c =? 8 then [92; 98]
  else if c =? 9 then [92; 116]
  else if c =? 10 then [92; 110]
  else if c =? 12 then [92; 102]
  else if c =? 13 then [92; 114]
  else if c =? 34 then [92; 34]
  else if c =? 92 then [92; 92]
  else if c <? 32 then uesc c
  else if is_low c then uesc c          (* unpaired trailing surrogate *)
  else [c].

(* iteration by code points: a leading surrogate followed by a trailing one is one code point and
   is copied; a leading surrogate not so followed is unpaired *)
Fixpoint quote_body (l : list N) : list N :=
  match l with
  | [] => []
  | c :: r =>
    if is_high c then
      match r with
      | d :: r' => if is_low d then c :: d :: quote_body r' else uesc c ++ quote_body r
      | [] => uesc c
      end
    else quote_unit c ++ quote_body r
  end.

Definition quote_json_string (s : list N) : list N := 34 :: quote_body s ++ [34].

(* well-formed UTF-16 (what `String.prototype.isWellFormed` tests): every surrogate code unit is half of a
   leading-trailing pair.  JSON.stringify is meant to emit such texts whatever lone surrogates the
   strings and keys of the value contain ("well-formed JSON.stringify"). *)
Fixpoint wf16 (l : list N) : bool :=
  match l with
  | [] => true
  | c :: r =>
    if is_high c then
      match r with
      | d :: r' => is_low d && wf16 r'
      | [] => false
      end
    else negb (is_low c) && wf16 r
  end.

Definition is_ascii (c : N) : bool := c <? 128.

(* ------------------------------------------------------------------------------------------ *)
(* objects: CreateDataProperty in source order = first position, last value *)

Fixpoint insert_key {V : Type} (k : list N) (v : V) (acc : list (list N * V)) : list (list N * V) :=
  match acc with
  | [] => [(k, v)]
  | kv :: r => if units_eqb k (fst kv) then (fst kv, v) :: r else kv :: insert_key k v r
  end.

Definition dedup_last {V : Type} (ms : list (list N * V)) : list (list N * V) :=
  fold_left (fun acc kv => insert_key (fst kv) (snd kv) acc) ms [].

Fixpoint assoc {V : Type} (k : list N) (ms : list (list N * V)) : option V :=
  match ms with
  | [] => None
  | kv :: r => if units_eqb k (fst kv) then Some (snd kv) else assoc k r
  end.

(* the last binding of k *)
Fixpoint assoc_last {V : Type} (k : list N) (ms : list (list N * V)) : option V :=
  match ms with
  | [] => None
  | kv :: r => match assoc_last k r with
               | Some v => Some v
               | None => if units_eqb k (fst kv) then Some (snd kv) else None
               end
  end.

Fixpoint mem_key (k : list N) (ks : list (list N)) : bool :=
  match ks with
  | [] => false
  | k' :: r => units_eqb k k' || mem_key k r
  end.

Fixpoint nodup_keys (ks : list (list N)) : bool :=
  match ks with
  | [] => true
  | k :: r => negb (mem_key k r) && nodup_keys r
  end.

Fixpoint join (sep : list N) (ts : list (list N)) : list N :=
  match ts with
  | [] => []
  | [t] => t
  | t :: ts' => t ++ sep ++ join sep ts'
  end.

(* ------------------------------------------------------------------------------------------ *)

Section JSON.
  Variable num : Type.
  Variable print_num : num -> list N.
  Variable parse_num : list N -> option num.

  Inductive jvalue : Type :=
  | JNull
  | JBool (b : bool)
  | JNum (n : num)
  | JStr (s : list N)
  | JArr (vs : list jvalue)
  | JObj (ms : list (list N * jvalue)).

  (* ---- parser ---- *)

  (* elements after the opening bracket up to and including the closing one; pv skips leading white space itself *)
  Fixpoint parse_elems (pv : list N -> option (jvalue * list N)) (n : nat) (l : list N)
    : option (list jvalue * list N) :=
    match n with
    | O => None
    | S n' =>
      match pv l with
      | None => None
      | Some (v, r) =>
        match skip_ws r with
        | [] => None
        | c :: r' =>
          if c =? 44 then
            match parse_elems pv n' r' with
            | Some (vs, r'') => Some (v :: vs, r'')
            | None => None
            end
          else if c =? 93 then Some ([v], r')
          else None
        end
      end
    end.

  (* members after the opening brace up to and including the closing one *)
  Fixpoint parse_members (pv : list N -> option (jvalue * list N)) (n : nat) (l : list N)
    : option (list (list N * jvalue) * list N) :=
    match n with
    | O => None
    | S n' =>
      match skip_ws l with
      | [] => None
      | c :: r =>
        if c =? 34 then
          match scan_string r with
          | None => None
          | Some (k, r1) =>
            match skip_ws r1 with
            | [] => None
            | c1 :: r2 =>
              if c1 =? 58 then
                match pv r2 with
                | None => None
                | Some (v, r3) =>
                  match skip_ws r3 with
                  | [] => None
                  | c2 :: r4 =>
                    if c2 =? 44 then
                      match parse_members pv n' r4 with
                      | Some (ms, r5) => Some ((k, v) :: ms, r5)
                      | None => None
                      end
                    else if c2 =? 125 then Some ([(k, v)], r4)
                    else None
                  end
                end
              else None
            end
          end
        else None
      end
    end.

  Definition parse_lit (p : list N) (v : jvalue) (l : list N) : option (jvalue * list N) :=
    match strip_prefix p l with
    | Some r => Some (v, r)
    | None => None
    end.

  Fixpoint parse_value (fuel : nat) (l : list N) : option (jvalue * list N) :=
    match fuel with
    | O => None
    | S f =>
      match skip_ws l with
      | [] => None
      | c :: r =>
        if c =? 91 then
          match skip_ws r with
          | [] => None
          | c' :: r' =>
            if c' =? 93 then Some (JArr [], r')
            else match parse_elems (parse_value f) f (c' :: r') with
                 | Some (vs, r'') => Some (JArr vs, r'')
                 | None => None
                 end
          end
        else if c =? 123 then
          match skip_ws r with
          | [] => None
          | c' :: r' =>
            if c' =? 125 then Some (JObj [], r')
            else match parse_members (parse_value f) f (c' :: r') with
                 | Some (ms, r'') => Some (JObj ms, r'')
                 | None => None
                 end
          end
        else if c =? 34 then
          match scan_string r with
          | Some (s, r') => Some (JStr s, r')
          | None => None
          end
        else if c =? 116 then parse_lit lit_true (JBool true) (c :: r)
        else if c =? 102 then parse_lit lit_false (JBool false) (c :: r)
        else if c =? 110 then parse_lit lit_null JNull (c :: r)
        else if (c =? 45) || is_digit c then
          match scan_number (c :: r) with
          | Some (t, r') =>
            match parse_num t with
            | Some x => Some (JNum x, r')
            | None => None
            end
          | None => None
          end
        else None
      end
    end.

  (* ---- value mapping: duplicate keys ---- *)

  Fixpoint normal (v : jvalue) : jvalue :=
    match v with
    | JArr vs => JArr (map normal vs)
    | JObj ms => JObj (dedup_last (map (fun kv => (fst kv, normal (snd kv))) ms))
    | _ => v
    end.

  (* the value as written (members in source order, duplicates kept) *)
  Definition parse_raw (l : list N) : option jvalue :=
    match parse_value (S (length l)) l with
    | Some (v, r) => match skip_ws r with [] => Some v | _ => None end
    | None => None
    end.

  Definition parse_json (l : list N) : option jvalue :=
    match parse_raw l with
    | Some v => Some (normal v)
    | None => None
    end.

  Definition recognise (l : list N) : bool :=
    match parse_json l with Some _ => true | None => false end.

  (* ---- JSON.stringify on JSON values (SerializeJSONProperty steps 5-9,11; Object; Array) ---- *)

  Definition is_nil {A} (l : list A) : bool := match l with [] => true | _ => false end.

  (* SerializeJSONArray step 9/10 with `partial` already computed *)
  Definition ser_array (gap stepback indent : list N) (partial : list (list N)) : list N :=
    if is_nil partial then [91; 93]
    else if is_nil gap then [91] ++ join [44] partial ++ [93]
    else [91; 10] ++ indent ++ join ([44; 10] ++ indent) partial ++ [10] ++ stepback ++ [93].

  Definition ser_object (gap stepback indent : list N) (partial : list (list N)) : list N :=
    if is_nil partial then [123; 125]
    else if is_nil gap then [123] ++ join [44] partial ++ [125]
    else [123; 10] ++ indent ++ join ([44; 10] ++ indent) partial ++ [10] ++ stepback ++ [125].

  Definition ser_member (gap : list N) (k : list N) (strp : list N) : list N :=
    quote_json_string k ++ [58] ++ (if is_nil gap then [] else [32]) ++ strp.

  (* `ind` is state.[[Indent]] on entry (= stepback of a container) *)
  Fixpoint stringify_at (gap ind : list N) (v : jvalue) : list N :=
    match v with
    | JNull => lit_null
    | JBool true => lit_true
    | JBool false => lit_false
    | JNum x => print_num x
    | JStr s => quote_json_string s
    | JArr vs => ser_array gap ind (ind ++ gap) (map (stringify_at gap (ind ++ gap)) vs)
    | JObj ms => ser_object gap ind (ind ++ gap)
                   (map (fun kv => ser_member gap (fst kv) (stringify_at gap (ind ++ gap) (snd kv))) ms)
    end.

  Definition stringify (gap : list N) (v : jvalue) : list N := stringify_at gap [] v.

  (* ---- the JS values JSON.stringify is given (no replacer, no toJSON, no wrappers) ---- *)

  Inductive jsv : Type :=
  | VUndef                      (* undefined, functions, symbols: SerializeJSONProperty -> undefined *)
  | VNull
  | VBool (b : bool)
  | VNum (x : num)              (* finite *)
  | VNonFinite                  (* NaN, +-Infinity *)
  | VStr (s : list N)
  | VArr (vs : list jsv)
  | VObj (ms : list (list N * jsv)).

  Fixpoint filter_some {A} (l : list (option A)) : list A :=
    match l with
    | [] => []
    | Some a :: r => a :: filter_some r
    | None :: r => filter_some r
    end.

  (* SerializeJSONProperty; None = undefined *)
  Fixpoint serialize_at (gap ind : list N) (v : jsv) : option (list N) :=
    match v with
    | VUndef => None
    | VNull => Some lit_null
    | VBool true => Some lit_true
    | VBool false => Some lit_false
    | VNum x => Some (print_num x)
    | VNonFinite => Some lit_null
    | VStr s => Some (quote_json_string s)
    | VArr vs =>
      Some (ser_array gap ind (ind ++ gap)
              (map (fun e => match serialize_at gap (ind ++ gap) e with Some t => t | None => lit_null end) vs))
    | VObj ms =>
      Some (ser_object gap ind (ind ++ gap)
              (filter_some (map (fun kv => match serialize_at gap (ind ++ gap) (snd kv) with
                                           | Some t => Some (ser_member gap (fst kv) t)
                                           | None => None
                                           end) ms)))
    end.

  Definition serialize (gap : list N) (v : jsv) : option (list N) := serialize_at gap [] v.

  (* the JSON value a JS value denotes under stringify; None = nothing is produced *)
  Fixpoint to_json (v : jsv) : option jvalue :=
    match v with
    | VUndef => None
    | VNull => Some JNull
    | VBool b => Some (JBool b)
    | VNum x => Some (JNum x)
    | VNonFinite => Some JNull
    | VStr s => Some (JStr s)
    | VArr vs => Some (JArr (map (fun e => match to_json e with Some j => j | None => JNull end) vs))
    | VObj ms => Some (JObj (filter_some (map (fun kv => match to_json (snd kv) with
                                                         | Some j => Some (fst kv, j)
                                                         | None => None
                                                         end) ms)))
    end.

  (* ---- predicates used by the theorems ---- *)

  Fixpoint printable (ok : num -> bool) (v : jvalue) : bool :=
    match v with
    | JNum x => ok x
    | JArr vs => forallb (printable ok) vs
    | JObj ms => forallb (fun kv => printable ok (snd kv)) ms
    | _ => true
    end.

  Fixpoint keys_distinct (v : jvalue) : bool :=
    match v with
    | JArr vs => forallb keys_distinct vs
    | JObj ms => nodup_keys (map fst ms) && forallb (fun kv => keys_distinct (snd kv)) ms
    | _ => true
    end.

  Definition representable (ok : num -> bool) (v : jvalue) : bool := printable ok v && keys_distinct v.

End JSON.

Arguments JNull {num}.
Arguments JBool {num} b.
Arguments JNum {num} n.
Arguments JStr {num} s.
Arguments JArr {num} vs.
Arguments JObj {num} ms.
Arguments VUndef {num}.
Arguments VNull {num}.
Arguments VBool {num} b.
Arguments VNum {num} x.
Arguments VNonFinite {num}.
Arguments VStr {num} s.
Arguments VArr {num} vs.
Arguments VObj {num} ms.

(* ------------------------------------------------------------------------------------------ *)
(* the gap from the `space` argument (JSON.stringify steps 5-8); the Number has already been taken
   through ToIntegerOrInfinity (an integer; +-infinity as any integer beyond +-10) *)

Inductive space : Type :=
| SpNone
| SpNum (z : Z)
| SpStr (s : list N).

Definition gap_of_space (sp : space) : list N :=
  match sp with
  | SpNone => []
  | SpNum z => if (z <? 1)%Z then [] else repeat 32 (Z.to_nat (Z.min 10 z))
  | SpStr s => firstn 10 s
  end.

Definition valid_gap (gap : list N) : bool := forallb is_ws gap.

(* ------------------------------------------------------------------------------------------ *)
(* own-key order of an ordinary object: array indices ascending, then the others in creation order *)

Fixpoint digits_val (acc : N) (l : list N) : option N :=
  match l with
  | [] => Some acc
  | c :: r => if is_digit c then digits_val (acc * 10 + (c - 48)) r else None
  end.

(* array index keys: 0 | [1-9][0-9]*  with value <= 2^32-2 *)
Definition array_index (k : list N) : option N :=
  match k with
  | [] => None
  | c :: r =>
    if (c =? 48) && negb (is_nil r) then None
    else if Nat.ltb 10 (length k) then None
    else match digits_val 0 k with
         | Some n => if n <? 4294967295 then Some n else None
         | None => None
         end
  end.

Fixpoint insert_index {V : Type} (i : N) (kv : list N * V) (l : list (N * (list N * V))) : list (N * (list N * V)) :=
  match l with
  | [] => [(i, kv)]
  | x :: r => if i <? fst x then (i, kv) :: l else x :: insert_index i kv r
  end.

Fixpoint split_index {V : Type} (ms : list (list N * V)) : list (N * (list N * V)) * list (list N * V) :=
  match ms with
  | [] => ([], [])
  | kv :: r =>
    let (ix, others) := split_index r in
    match array_index (fst kv) with
    | Some i => (insert_index i kv ix, others)
    | None => (ix, kv :: others)
    end
  end.

Definition own_key_order {V : Type} (ms : list (list N * V)) : list (list N * V) :=
  let (ix, others) := split_index ms in map snd ix ++ others.

Fixpoint js_order {num : Type} (v : jvalue num) : jvalue num :=
  match v with
  | JArr vs => JArr (map js_order vs)
  | JObj ms => JObj (own_key_order (map (fun kv => (fst kv, js_order (snd kv))) ms))
  | _ => v
  end.

(* the JS object a member list builds by CreateDataProperty in order, as a jsv with keys in own-key
   order (what the harness constructs through the engine's API) *)
Fixpoint js_build {num : Type} (v : jsv num) : jsv num :=
  match v with
  | VArr vs => VArr (map js_build vs)
  | VObj ms => VObj (own_key_order (dedup_last (map (fun kv => (fst kv, js_build (snd kv))) ms)))
  | _ => v
  end.

(* ------------------------------------------------------------------------------------------ *)
(* instance (a): integers *)

Fixpoint uint_units (d : Decimal.uint) : list N :=
  match d with
  | Decimal.Nil => []
  | Decimal.D0 r => 48 :: uint_units r
  | Decimal.D1 r => 49 :: uint_units r
  | Decimal.D2 r => 50 :: uint_units r
  | Decimal.D3 r => 51 :: uint_units r
  | Decimal.D4 r => 52 :: uint_units r
  | Decimal.D5 r => 53 :: uint_units r
  | Decimal.D6 r => 54 :: uint_units r
  | Decimal.D7 r => 55 :: uint_units r
  | Decimal.D8 r => 56 :: uint_units r
  | Decimal.D9 r => 57 :: uint_units r
  end.

Definition print_Z (z : Z) : list N :=
  match z with
  | Z0 => [48]
  | Zpos p => uint_units (Pos.to_uint p)
  | Zneg p => 45 :: uint_units (Pos.to_uint p)
  end.

(* integers only: a token with a fraction or exponent is not an integer literal of this instance;
   minus zero is read as 0 and is therefore not in the image of print_Z *)
Definition parse_Z (t : list N) : option Z :=
  match t with
  | c :: r =>
    if c =? 45 then match digits_val 0 r with Some n => Some (- Z.of_N n)%Z | None => None end
    else match digits_val 0 t with Some n => Some (Z.of_N n) | None => None end
  | [] => None
  end.

(* instance (b): the number is its token text; conversion to a double is outside the model *)
Definition print_tok (t : list N) : list N := t.
Definition parse_tok (t : list N) : option (list N) := Some t.
