(* C18 deepening: JSON.stringify over values WITH IDENTITIES (objects/arrays live in a store and are referred to by
   index, so the same instance can be reached several times, or from itself), with the stack discipline of
   SerializeJSONObject / SerializeJSONArray (ECMA-262 25.5.2.4/5 steps 1-2 and the final "remove", boa:
   `state.stack_set.insert(value)` on entry -> TypeError "cyclic object value" when already present,
   `state.stack_set.remove(value)` on EVERY exit path).  The stack is threaded as state (returned by every call), as
   in the Rust, so that "forgot to remove on one path" is expressible.  Executable definitions only. *)
From Coq Require Import NArith ZArith List Bool Arith.
From C18 Require Import Json.
Import ListNotations.
Local Open Scope N_scope.

Section Ident.
  Variable num : Type.
  Variable print_num : num -> list N.

  (* a JS value as JSON.stringify sees it; objects and arrays by reference *)
  Inductive ival : Type :=
  | IUndef
  | INull
  | IBool (b : bool)
  | INum (x : num)
  | INonFinite
  | IStr (s : list N)
  | IRef (i : nat).

  Inductive inode : Type :=
  | NArr (vs : list ival)
  | NObj (ms : list (list N * ival)).        (* enumerable own string keys in [[OwnPropertyKeys]] order *)

  Definition store := list inode.

  Definition children (n : inode) : list ival :=
    match n with NArr vs => vs | NObj ms => map snd ms end.

  Inductive err : Type :=
  | ECycle          (* TypeError: cyclic object value *)
  | EFuel           (* model ran out of fuel (never with fuel > number of nodes: DeepProofs.ser_id_no_fuel) *)
  | EDangling.      (* reference outside the store (never for a closed store) *)

  Definition stack := list nat.

  Fixpoint remove1 (i : nat) (K : stack) : stack :=
    match K with
    | [] => []
    | j :: r => if Nat.eqb i j then r else j :: remove1 i r
    end.

  Definition on_stack (i : nat) (K : stack) : bool := existsb (Nat.eqb i) K.

  (* "For each element": left to right, the state threaded, abrupt completion stops the loop *)
  Fixpoint ser_list {A B : Type} (f : stack -> A -> stack * (B + err)) (K : stack) (xs : list A)
    : stack * (list B + err) :=
    match xs with
    | [] => (K, inl [])
    | x :: r =>
      match f K x with
      | (K1, inl b) =>
        match ser_list f K1 r with
        | (K2, inl bs) => (K2, inl (b :: bs))
        | (K2, inr e) => (K2, inr e)
        end
      | (K1, inr e) => (K1, inr e)
      end
    end.

  Definition elem_text (t : option (list N)) : list N :=
    match t with Some t => t | None => lit_null end.

  (* SerializeJSONProperty on a value with identities; inl None = undefined *)
  Fixpoint ser_id (fuel : nat) (st : store) (gap : list N) (K : stack) (ind : list N) (v : ival)
    : stack * (option (list N) + err) :=
    match v with
    | IUndef => (K, inl None)
    | INull => (K, inl (Some lit_null))
    | IBool true => (K, inl (Some lit_true))
    | IBool false => (K, inl (Some lit_false))
    | INum x => (K, inl (Some (print_num x)))
    | INonFinite => (K, inl (Some lit_null))
    | IStr s => (K, inl (Some (quote_json_string s)))
    | IRef i =>
      match fuel with
      | O => (K, inr EFuel)
      | S f =>
        (* step 1: If state.[[Stack]] contains value, throw a TypeError *)
        if on_stack i K then (K, inr ECycle)
        else
          match nth_error st i with
          | None => (K, inr EDangling)
          | Some (NArr vs) =>
            (* step 2: append value to the stack; steps 3-4: indent *)
            match ser_list (fun K' x => ser_id f st gap K' (ind ++ gap) x) (i :: K) vs with
            | (K2, inl ts) =>
              (* last step: remove value from the stack *)
              (remove1 i K2, inl (Some (ser_array gap ind (ind ++ gap) (map elem_text ts))))
            | (K2, inr e) => (remove1 i K2, inr e)      (* boa removes on the error path as well *)
            end
          | Some (NObj ms) =>
            match ser_list (fun K' kv =>
                              match ser_id f st gap K' (ind ++ gap) (snd kv) with
                              | (K'', inl (Some t)) => (K'', inl (Some (ser_member gap (fst kv) t)))
                              | (K'', inl None) => (K'', inl None)
                              | (K'', inr e) => (K'', inr e)
                              end) (i :: K) ms with
            | (K2, inl ts) => (remove1 i K2, inl (Some (ser_object gap ind (ind ++ gap) (filter_some ts))))
            | (K2, inr e) => (remove1 i K2, inr e)
            end
          end
      end
    end.

  (* the tree a value denotes when sharing is forgotten; None when fuel runs out (cyclic) or a reference dangles *)
  Fixpoint opt_all {A : Type} (l : list (option A)) : option (list A) :=
    match l with
    | [] => Some []
    | Some a :: r => match opt_all r with Some r' => Some (a :: r') | None => None end
    | None :: _ => None
    end.

  Fixpoint unfold (fuel : nat) (st : store) (v : ival) : option (jsv num) :=
    match v with
    | IUndef => Some VUndef
    | INull => Some VNull
    | IBool b => Some (VBool b)
    | INum x => Some (VNum x)
    | INonFinite => Some VNonFinite
    | IStr s => Some (VStr s)
    | IRef i =>
      match fuel with
      | O => None
      | S f =>
        match nth_error st i with
        | None => None
        | Some (NArr vs) => option_map VArr (opt_all (map (unfold f st) vs))
        | Some (NObj ms) =>
          option_map VObj (opt_all (map (fun kv => option_map (pair (fst kv)) (unfold f st (snd kv))) ms))
        end
      end
    end.

  (* ---- predicates of the theorems ---- *)

  Definition ref_lt (n : nat) (v : ival) : Prop := forall j, v = IRef j -> (j < n)%nat.

  (* every reference inside the store points into the store *)
  Definition closed (st : store) : Prop :=
    forall i n, nth_error st i = Some n -> forall c, In c (children n) -> ref_lt (length st) c.

  (* a DAG: some rank strictly decreases along every edge *)
  Definition rank_ok (st : store) (rk : nat -> nat) : Prop :=
    forall i n, nth_error st i = Some n -> forall j, In (IRef j) (children n) -> (rk j < rk i)%nat.

  Definition acyclic (st : store) : Prop := exists rk, rank_ok st rk.

  (* the members as the engine enumerates them when the node was filled by CreateDataProperty in the given order *)
  Definition build_node (n : inode) : inode :=
    match n with
    | NArr vs => NArr vs
    | NObj ms => NObj (own_key_order (dedup_last ms))
    end.

End Ident.

Arguments IUndef {num}.
Arguments INull {num}.
Arguments IBool {num} b.
Arguments INum {num} x.
Arguments INonFinite {num}.
Arguments IStr {num} s.
Arguments IRef {num} i.
Arguments NArr {num} vs.
Arguments NObj {num} ms.

(* what the extracted driver calls: numbers are their token texts; fuel = number of nodes + 1 is enough
   (DeepProofs_C18.ser_id_no_fuel), the driver passes that *)
Definition m_stringify_id (sp : space) (st : store (list N)) (v : ival (list N)) : option (list N) + err :=
  snd (ser_id (list N) print_tok (S (length st)) (map (build_node (list N)) st) (gap_of_space sp) [] [] v).

Definition ival_ok (v : ival (list N)) : bool :=
  match v with INum t => number_token t | _ => true end.

Definition store_ok (st : store (list N)) : bool :=
  forallb (fun n => forallb ival_ok (children (list N) n)) st.
