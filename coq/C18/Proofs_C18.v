(* C18: the lemmas in the exact shape of the property theorems (Props_C18.v only says `exact`). *)
From Coq Require Import NArith ZArith List Bool Arith Lia.
From C18 Require Import Json Proofs_Lex Proofs_Parse Proofs_Round Proofs_Obj Proofs_Inst.
Import ListNotations.
Local Open Scope N_scope.

Lemma printable_all num : forall v : jvalue num, printable num (fun _ => true) v = true.
Proof.
  induction v as [| b | x | s | vs IH | ms IH] using jvalue_ind2; cbn [printable]; auto.
  - rewrite forallb_forall. rewrite Forall_forall in IH. auto.
  - rewrite forallb_forall. rewrite Forall_forall in IH. auto.
Qed.

Lemma parse_stringify_id_lemma num print_num parse_num ok :
  (forall x, ok x = true -> number_token (print_num x) = true) ->
  (forall x, ok x = true -> parse_num (print_num x) = Some x) ->
  forall gap (v : jvalue num), representable num ok v = true -> valid_gap gap = true ->
    parse_json num parse_num (stringify num print_num gap v) = Some v.
Proof.
  intros H1 H2 gap v Hr Hg. unfold representable in Hr. apply andb_true_iff in Hr as [Hp Hk].
  rewrite (parse_stringify_lemma num print_num parse_num ok H1 H2 gap v Hp Hg).
  now rewrite normal_id_lemma.
Qed.

Lemma parse_json_distinct_lemma num parse_num l v :
  parse_json num parse_num l = Some v -> keys_distinct num v = true.
Proof.
  unfold parse_json. destruct (parse_raw num parse_num l); intros H; try discriminate.
  injection H as <-. apply normal_distinct_lemma.
Qed.

Lemma dup_keys_lemma (V : Type) (ms : list (list N * V)) :
  (forall k, assoc k (dedup_last ms) = assoc_last k ms) /\
  nodup_keys (map fst (dedup_last ms)) = true /\
  map fst (dedup_last ms) = first_occurrences (map fst ms).
Proof.
  split; [|split].
  - intros k. apply dup_keys_last_wins_lemma.
  - apply dedup_nodup_lemma.
  - apply dedup_key_order_lemma.
Qed.

(* JSON.stringify of a JS value, then JSON.parse: the JSON value the JS value denotes *)
Lemma serialize_parse_lemma num print_num parse_num ok :
  (forall x, ok x = true -> number_token (print_num x) = true) ->
  (forall x, ok x = true -> parse_num (print_num x) = Some x) ->
  forall gap (x : jsv num) (j : jvalue num), to_json num x = Some j -> printable num ok j = true -> valid_gap gap = true ->
    exists t, serialize num print_num gap x = Some t /\ parse_json num parse_num t = Some (normal num j).
Proof.
  intros H1 H2 gap x j Hj Hp Hg. unfold serialize. rewrite serialize_to_json, Hj. cbn [option_map].
  eexists. split; [reflexivity|]. now apply (parse_stringify_lemma num print_num parse_num ok H1 H2).
Qed.

Lemma serialize_undefined_lemma num print_num gap (x : jsv num) :
  serialize num print_num gap x = None <-> to_json num x = None.
Proof.
  unfold serialize. rewrite serialize_to_json. destruct (to_json num x); cbn [option_map]; split; intros H; auto; discriminate.
Qed.

(* ---- closed instances ---- *)

Lemma parse_stringify_Z_lemma gap (v : jvalue Z) : valid_gap gap = true ->
  parse_json Z parse_Z (stringify Z print_Z gap v) = Some (normal Z v).
Proof.
  intros Hg. apply (parse_stringify_lemma Z print_Z parse_Z (fun _ => true)); auto.
  - intros x _. apply Z_print_token.
  - intros x _. apply Z_parse_print.
  - apply printable_all.
Qed.

Lemma parse_stringify_tok_lemma gap (v : jvalue (list N)) :
  printable (list N) number_token v = true -> valid_gap gap = true ->
  parse_json (list N) parse_tok (stringify (list N) print_tok gap v) = Some (normal (list N) v).
Proof.
  intros Hp Hg. apply (parse_stringify_lemma (list N) print_tok parse_tok number_token); auto.
Qed.

Lemma stringify_wf_space_lemma z (v : jvalue Z) :
  recognise Z parse_Z (stringify Z print_Z (gap_of_space (SpNum z)) v) = true.
Proof.
  unfold recognise. rewrite parse_stringify_Z_lemma; auto. apply gap_num_valid.
Qed.

(* an accepted text is accepted with the same value whatever fuel >= length+1 is given, and the
   top level decision does not depend on fuel at all *)
Lemma parse_raw_fuel_lemma num parse_num l f :
  (length l < f)%nat ->
  parse_raw num parse_num l =
  match parse_value num parse_num f l with
  | Some (v, r) => match skip_ws r with [] => Some v | _ => None end
  | None => None
  end.
Proof. intros H. unfold parse_raw. now rewrite (parse_fuel_enough_lemma num parse_num f l H). Qed.
