(* C18 deepening: the stack discipline of SerializeJSONObject/Array never makes sharing observable.
   For a DAG (a rank decreases along every edge) JSON.stringify on the value with identities returns, with the
   stack restored, exactly the text of the unfolded tree; it answers Ok only when the value has a finite
   unfolding; with fuel above the number of nodes it never runs out of fuel; hence a value without a finite
   unfolding (a cycle is reachable) throws. *)
From Coq Require Import NArith ZArith List Bool Arith Lia.
From C18 Require Import Json DeepModel_C18.
Import ListNotations.

Section DeepProofs.
  Variable num : Type.
  Variable print_num : num -> list N.

  Notation ser := (ser_id num print_num).
  Notation unf := (unfold num).
  Notation sat := (serialize_at num print_num).
  Notation ival := (ival num).
  Notation store := (store num).

  Lemma remove1_head i K : remove1 i (i :: K) = K.
  Proof. cbn [remove1]. now rewrite Nat.eqb_refl. Qed.

  Lemma on_stack_false i K : on_stack i K = false -> ~ In i K.
  Proof.
    unfold on_stack. intros H Hin.
    assert (E : existsb (Nat.eqb i) K = true) by (apply existsb_exists; exists i; split; auto; apply Nat.eqb_refl).
    congruence.
  Qed.

  Lemma on_stack_true i K : on_stack i K = true -> In i K.
  Proof.
    unfold on_stack. intros H. apply existsb_exists in H as (j & Hj & E). apply Nat.eqb_eq in E. now subst.
  Qed.

  (* the member function of the object branch *)
  Definition memf (f : nat) (st : store) (gap ind : list N) (K' : stack) (kv : list N * ival)
    : stack * (option (list N) + err) :=
    match ser f st gap K' ind (snd kv) with
    | (K'', inl (Some t)) => (K'', inl (Some (ser_member gap (fst kv) t)))
    | (K'', inl None) => (K'', inl None)
    | (K'', inr e) => (K'', inr e)
    end.

  Lemma ser_ref_S f st gap K ind i :
    ser (S f) st gap K ind (IRef i) =
    if on_stack i K then (K, inr ECycle)
    else match nth_error st i with
         | None => (K, inr EDangling)
         | Some (NArr vs) =>
           match ser_list (fun K' x => ser f st gap K' (ind ++ gap) x) (i :: K) vs with
           | (K2, inl ts) => (remove1 i K2, inl (Some (ser_array gap ind (ind ++ gap) (map elem_text ts))))
           | (K2, inr e) => (remove1 i K2, inr e)
           end
         | Some (NObj ms) =>
           match ser_list (memf f st gap (ind ++ gap)) (i :: K) ms with
           | (K2, inl ts) => (remove1 i K2, inl (Some (ser_object gap ind (ind ++ gap) (filter_some ts))))
           | (K2, inr e) => (remove1 i K2, inr e)
           end
         end.
  Proof. reflexivity. Qed.

  (* ---------------------------------------------------------------------------------------- *)
  (* 1. an Ok answer comes with the stack restored and is the text of a finite unfolding *)

  Lemma ser_list_ok_inv {A B T : Type} (fx : stack -> A -> stack * (B + err)) (U : A -> option T) (G : T -> B) :
    forall xs K K' bs,
    (forall x K0 K0' b, In x xs -> fx K0 x = (K0', inl b) -> K0' = K0 /\ exists t, U x = Some t /\ b = G t) ->
    ser_list fx K xs = (K', inl bs) ->
    K' = K /\ exists ts, opt_all (map U xs) = Some ts /\ bs = map G ts.
  Proof.
    induction xs as [|x r IH]; intros K K' bs H E; cbn [ser_list] in E.
    - injection E as <- <-. split; auto. exists []. split; reflexivity.
    - destruct (fx K x) as [K1 [b|e]] eqn:Ex; [|discriminate].
      destruct (ser_list fx K1 r) as [K2 [bs'|e]] eqn:Er; [|discriminate].
      injection E as <- <-.
      destruct (H x K K1 b (or_introl eq_refl) Ex) as (-> & t & Ut & ->).
      destruct (IH K K2 bs') as (-> & ts & Uts & ->); auto.
      { intros y K0 K0' b0 Hy. apply H. now right. }
      split; auto. exists (t :: ts). cbn [map opt_all]. rewrite Ut, Uts. split; reflexivity.
  Qed.

  Lemma ok_unfold st gap : forall f v K ind K' r,
    ser f st gap K ind v = (K', inl r) ->
    K' = K /\ exists t, unf f st v = Some t /\ r = sat gap ind t.
  Proof.
    induction f as [|f IH]; intros v K ind K' r E.
    - destruct v as [| | [|] | x | | s | i]; cbn in E; try discriminate; injection E as <- <-; split; auto;
        eexists; split; reflexivity.
    - destruct v as [| | [|] | x | | s | i];
        try (cbn in E; injection E as <- <-; split; auto; eexists; split; reflexivity).
      rewrite ser_ref_S in E. cbn [unfold].
      destruct (on_stack i K); [discriminate|].
      destruct (nth_error st i) as [[vs|ms]|]; [| |discriminate].
      + destruct (ser_list _ (i :: K) vs) as [K2 [ts|e]] eqn:El; [|discriminate].
        injection E as <- <-.
        assert (Hx : forall x K0 K0' b, In x vs -> ser f st gap K0 (ind ++ gap) x = (K0', inl b) ->
                     K0' = K0 /\ exists t, unf f st x = Some t /\ b = sat gap (ind ++ gap) t).
        { intros x K0 K0' b _ Ex. apply IH in Ex as (-> & t & Ut & ->). split; auto. eauto. }
        destruct (ser_list_ok_inv (fun K' x => ser f st gap K' (ind ++ gap) x) (unf f st) (sat gap (ind ++ gap))
                    vs (i :: K) K2 ts Hx El) as (-> & us & Uus & ->).
        rewrite remove1_head. split; auto. rewrite Uus. cbn [option_map]. eexists. split; [reflexivity|].
        cbn [serialize_at]. rewrite map_map. reflexivity.
      + destruct (ser_list _ (i :: K) ms) as [K2 [ts|e]] eqn:El; [|discriminate].
        injection E as <- <-.
        pose (G := fun kt : list N * jsv num => match sat gap (ind ++ gap) (snd kt) with
                                | Some t => Some (ser_member gap (fst kt) t)
                                | None => None
                                end).
        pose (U := fun kv : list N * ival => option_map (pair (fst kv)) (unf f st (snd kv))).
        assert (Hx : forall kv K0 K0' b, In kv ms -> memf f st gap (ind ++ gap) K0 kv = (K0', inl b) ->
                     K0' = K0 /\ exists t, U kv = Some t /\ b = G t).
        { intros kv K0 K0' b _ Ex. unfold memf in Ex.
          destruct (ser f st gap K0 (ind ++ gap) (snd kv)) as [K3 [[t|]|e]] eqn:Es; try discriminate;
            injection Ex as <- <-; apply IH in Es as (-> & u & Uu & Eq); split; auto;
            exists (fst kv, u); unfold U, G; rewrite Uu; cbn [option_map fst snd]; rewrite <- Eq; split; reflexivity. }
        destruct (ser_list_ok_inv (memf f st gap (ind ++ gap)) U G ms (i :: K) K2 ts Hx El) as (-> & us & Uus & ->).
        unfold U, G in *.
        rewrite remove1_head. split; auto. rewrite Uus. cbn [option_map]. eexists. split; [reflexivity|].
        cbn [serialize_at]. reflexivity.
  Qed.

  Lemma ok_balanced st gap f v K ind K' r : ser f st gap K ind v = (K', inl r) -> K' = K.
  Proof. intros E. now apply ok_unfold in E. Qed.


  (* ---------------------------------------------------------------------------------------- *)
  (* 2. DAGs: sharing is invisible *)

  Lemma ser_list_all {A B T : Type} (fx : stack -> A -> stack * (B + err)) (U : A -> option T) (G : T -> B) K :
    forall xs,
    (forall x, In x xs -> exists t, U x = Some t /\ fx K x = (K, inl (G t))) ->
    exists ts, opt_all (map U xs) = Some ts /\ ser_list fx K xs = (K, inl (map G ts)).
  Proof.
    induction xs as [|x r IH]; intros H.
    - exists []. split; reflexivity.
    - destruct (H x (or_introl eq_refl)) as (t & Ut & Ex).
      destruct IH as (ts & Uts & Er). { intros y Hy. apply H. now right. }
      exists (t :: ts). cbn [map opt_all ser_list]. rewrite Ut, Uts, Ex, Er. split; reflexivity.
  Qed.

  Lemma dag_main st rk gap : closed num st -> rank_ok num st rk ->
    forall f v K, ref_lt num (length st) v ->
      (forall j, v = IRef j -> (rk j < f)%nat) ->
      (forall j i, v = IRef j -> In i K -> (rk j < rk i)%nat) ->
      exists t, unf f st v = Some t /\ forall ind, ser f st gap K ind v = (K, inl (sat gap ind t)).
  Proof.
    intros Hcl Hrk. induction f as [|f IH]; intros v K Hlt Hf HK.
    - destruct v as [| | [|] | x | | s | i]; try (eexists; split; [reflexivity|intros; reflexivity]).
      specialize (Hf i eq_refl). lia.
    - destruct v as [| | [|] | x | | s | i]; try (eexists; split; [reflexivity|intros; reflexivity]).
      pose proof (Hlt i eq_refl) as Hi. pose proof (Hf i eq_refl) as Hfi.
      assert (Hns : on_stack i K = false).
      { destruct (on_stack i K) eqn:E; auto. apply on_stack_true in E. specialize (HK i i eq_refl E). lia. }
      destruct (nth_error st i) as [n|] eqn:En; [|apply nth_error_None in En; lia].
      assert (Hch : forall c, In c (children num n) ->
                exists t, unf f st c = Some t /\ forall ind, ser f st gap (i :: K) ind c = (i :: K, inl (sat gap ind t))).
      { intros c Hc. apply IH.
        - exact (Hcl i n En c Hc).
        - intros j ->. specialize (Hrk i n En j Hc). lia.
        - intros j i0 -> [<-|Hin].
          + exact (Hrk i n En j Hc).
          + specialize (Hrk i n En j Hc). specialize (HK i i0 eq_refl Hin). lia. }
      cbn [unfold]. rewrite En.
      destruct n as [vs|ms]; cbn [children] in Hch.
      + assert (Hl : forall ind, exists ts, opt_all (map (unf f st) vs) = Some ts /\
                  ser_list (fun K' x => ser f st gap K' ind x) (i :: K) vs = (i :: K, inl (map (sat gap ind) ts))).
        { intros ind. apply (ser_list_all (fun K' x => ser f st gap K' ind x) (unf f st) (sat gap ind)).
          intros x Hx. destruct (Hch x Hx) as (t & Ut & Et). eauto. }
        destruct (Hl []) as (ts & Uts & _). rewrite Uts. cbn [option_map]. eexists. split; [reflexivity|].
        intros ind. rewrite ser_ref_S, Hns, En.
        destruct (Hl (ind ++ gap)) as (ts' & Uts' & El). rewrite Uts in Uts'. injection Uts' as <-.
        rewrite El, remove1_head. cbn [serialize_at]. rewrite map_map. reflexivity.
      + pose (U := fun kv : list N * ival => option_map (pair (fst kv)) (unf f st (snd kv))).
        assert (Hl : forall ind, exists ts, opt_all (map U ms) = Some ts /\
                  ser_list (memf f st gap ind) (i :: K) ms =
                  (i :: K, inl (map (fun kt : list N * jsv num => match sat gap ind (snd kt) with
                                                      | Some t => Some (ser_member gap (fst kt) t)
                                                      | None => None
                                                      end) ts))).
        { intros ind. apply (ser_list_all (memf f st gap ind) U).
          intros kv Hkv. destruct (Hch (snd kv) (in_map snd _ _ Hkv)) as (t & Ut & Et).
          exists (fst kv, t). unfold U, memf. rewrite Ut, Et. cbn [option_map fst snd].
          split; [reflexivity|]. destruct (sat gap ind t); reflexivity. }
        destruct (Hl []) as (ts & Uts & _). unfold U in Uts. rewrite Uts. cbn [option_map]. eexists. split; [reflexivity|].
        intros ind. rewrite ser_ref_S, Hns, En.
        destruct (Hl (ind ++ gap)) as (ts' & Uts' & El). unfold U in Uts'. rewrite Uts in Uts'. injection Uts' as <-.
        rewrite El, remove1_head. cbn [serialize_at]. reflexivity.
  Qed.

  (* ---------------------------------------------------------------------------------------- *)
  (* 3. fuel above the number of nodes is never exhausted; a closed store never dangles *)

  Definition bad (e : err) : Prop := e = EFuel \/ e = EDangling.

  Lemma ser_list_not_bad {A B : Type} (fx : stack -> A -> stack * (B + err)) K :
    forall xs,
    (forall x, In x xs -> forall e, snd (fx K x) = inr e -> ~ bad e) ->
    (forall x K' b, In x xs -> fx K x = (K', inl b) -> K' = K) ->
    forall e, snd (ser_list fx K xs) = inr e -> ~ bad e.
  Proof.
    induction xs as [|x r IH]; intros Hb Hk e E; cbn [ser_list] in E.
    - discriminate.
    - destruct (fx K x) as [K1 [b|e1]] eqn:Ex.
      + rewrite (Hk x K1 b (or_introl eq_refl) Ex) in *.
        destruct (ser_list fx K r) as [K2 [bs|e2]] eqn:Er; cbn [snd] in E; [discriminate|].
        injection E as <-. apply (IH (fun y Hy => Hb y (or_intror Hy)) (fun y K' b' Hy => Hk y K' b' (or_intror Hy)) e2).
        first [reflexivity | now rewrite Er].
      + cbn [snd] in E. injection E as <-. apply (Hb x (or_introl eq_refl)). first [reflexivity | now rewrite Ex].
  Qed.

  Lemma NoDup_bounded_length (K : list nat) n : NoDup K -> (forall i, In i K -> (i < n)%nat) -> (length K <= n)%nat.
  Proof.
    intros Hnd Hb. rewrite <- (seq_length n 0). apply NoDup_incl_length; auto.
    intros i Hi. apply in_seq. specialize (Hb i Hi). lia.
  Qed.

  Lemma ser_not_bad st gap : closed num st ->
    forall f v K ind, ref_lt num (length st) v -> NoDup K -> (forall i, In i K -> (i < length st)%nat) ->
      (length st < f + length K)%nat ->
      forall e, snd (ser f st gap K ind v) = inr e -> ~ bad e.
  Proof.
    intros Hcl. induction f as [|f IH]; intros v K ind Hlt Hnd Hb Hlen e E.
    - pose proof (NoDup_bounded_length K (length st) Hnd Hb). lia.
    - destruct v as [| | [|] | x | | s | i]; try (cbn in E; discriminate).
      rewrite ser_ref_S in E.
      destruct (on_stack i K) eqn:Hs.
      { cbn [snd] in E. injection E as <-. intros [H|H]; discriminate. }
      pose proof (Hlt i eq_refl) as Hi.
      destruct (nth_error st i) as [n|] eqn:En; [|apply nth_error_None in En; lia].
      assert (Hnd' : NoDup (i :: K)) by (constructor; auto; now apply on_stack_false).
      assert (Hb' : forall j, In j (i :: K) -> (j < length st)%nat) by (intros j [<-|Hj]; auto).
      assert (Hlen' : (length st < f + length (i :: K))%nat) by (cbn [length]; lia).
      destruct n as [vs|ms].
      + destruct (ser_list _ (i :: K) vs) as [K2 [ts|e2]] eqn:El; cbn [snd] in E; [discriminate|].
        injection E as <-.
        apply (ser_list_not_bad (fun K' x => ser f st gap K' (ind ++ gap) x) (i :: K) vs).
        * intros x Hx e1. apply IH; auto. exact (Hcl i _ En x Hx).
        * intros x K' b _ Ex. now apply ok_balanced in Ex.
        * first [reflexivity | now rewrite El].
      + destruct (ser_list _ (i :: K) ms) as [K2 [ts|e2]] eqn:El; cbn [snd] in E; [discriminate|].
        injection E as <-.
        apply (ser_list_not_bad (memf f st gap (ind ++ gap)) (i :: K) ms).
        * intros kv Hkv e1 E1. unfold memf in E1.
          destruct (ser f st gap (i :: K) (ind ++ gap) (snd kv)) as [K3 [[t|]|e3]] eqn:Es; cbn [snd] in E1; try discriminate.
          injection E1 as <-. apply (IH (snd kv) (i :: K) (ind ++ gap)); auto.
          -- exact (Hcl i _ En (snd kv) (in_map snd _ _ Hkv)).
          -- first [reflexivity | now rewrite Es].
        * intros kv K' b _ Ex. unfold memf in Ex.
          destruct (ser f st gap (i :: K) (ind ++ gap) (snd kv)) as [K3 [[t|]|e3]] eqn:Es; try discriminate;
            injection Ex as <- <-; now apply ok_balanced in Es.
        * first [reflexivity | now rewrite El].
  Qed.

  (* ---------------------------------------------------------------------------------------- *)
  (* 4. more fuel never changes an answer other than out-of-fuel *)

  Lemma ser_list_mono {A B : Type} (fx gx : stack -> A -> stack * (B + err)) :
    forall xs K K' R,
    (forall x K0 K0' r0, In x xs -> fx K0 x = (K0', r0) -> r0 <> inr EFuel -> gx K0 x = (K0', r0)) ->
    ser_list fx K xs = (K', R) -> R <> inr EFuel -> ser_list gx K xs = (K', R).
  Proof.
    induction xs as [|x r IH]; intros K K' R H E HR; cbn [ser_list] in *.
    - exact E.
    - destruct (fx K x) as [K1 [b|e]] eqn:Ex.
      + rewrite (H x K K1 (inl b) (or_introl eq_refl) Ex) by discriminate.
        assert (H' : forall y K0 K0' r0, In y r -> fx K0 y = (K0', r0) -> r0 <> inr EFuel -> gx K0 y = (K0', r0))
          by (intros y K0 K0' r0 Hy; apply H; now right).
        destruct (ser_list fx K1 r) as [K2 [bs|e2]] eqn:Er; injection E as <- <-.
        * assert (Hn : @inl (list B) err bs <> inr EFuel) by discriminate.
          rewrite (IH K1 K2 (inl bs) H' Er Hn). reflexivity.
        * assert (Hn : @inr (list B) err e2 <> inr EFuel) by congruence.
          rewrite (IH K1 K2 (inr e2) H' Er Hn). reflexivity.
      + injection E as <- <-.
        assert (Hn : @inr B err e <> inr EFuel) by congruence.
        rewrite (H x K K1 (inr e) (or_introl eq_refl) Ex Hn). reflexivity.
  Qed.

  Lemma ser_mono st gap : forall f g v K ind K' r, (f <= g)%nat ->
    ser f st gap K ind v = (K', r) -> r <> inr EFuel -> ser g st gap K ind v = (K', r).
  Proof.
    induction f as [|f IH]; intros g v K ind K' r Hfg E Hr.
    - destruct v as [| | [|] | x | | s | i]; try (destruct g; exact E).
      cbn in E. injection E as <- <-. congruence.
    - destruct g as [|g]; [lia|].
      destruct v as [| | [|] | x | | s | i]; try exact E.
      rewrite ser_ref_S in *.
      destruct (on_stack i K); [exact E|].
      destruct (nth_error st i) as [[vs|ms]|]; [| |exact E].
      + destruct (ser_list (fun K' x => ser f st gap K' (ind ++ gap) x) (i :: K) vs) as [K2 R] eqn:El.
        assert (HR : R <> inr EFuel) by (destruct R; [discriminate|injection E as <- <-; congruence]).
        assert (Hx : forall x K0 K0' r0, In x vs -> ser f st gap K0 (ind ++ gap) x = (K0', r0) -> r0 <> inr EFuel ->
                     ser g st gap K0 (ind ++ gap) x = (K0', r0)) by (intros x K0 K0' r0 _; apply IH; lia).
        rewrite (ser_list_mono (fun K' x => ser f st gap K' (ind ++ gap) x) (fun K' x => ser g st gap K' (ind ++ gap) x)
                   vs (i :: K) K2 R Hx El HR). exact E.
      + destruct (ser_list (memf f st gap (ind ++ gap)) (i :: K) ms) as [K2 R] eqn:El.
        assert (HR : R <> inr EFuel) by (destruct R; [discriminate|injection E as <- <-; congruence]).
        assert (Hx : forall kv K0 K0' r0, In kv ms -> memf f st gap (ind ++ gap) K0 kv = (K0', r0) -> r0 <> inr EFuel ->
                     memf g st gap (ind ++ gap) K0 kv = (K0', r0)).
        { intros kv K0 K0' r0 _. unfold memf.
          destruct (ser f st gap K0 (ind ++ gap) (snd kv)) as [K3 r3] eqn:Es.
          intros E0 H0.
          assert (H3 : r3 <> inr EFuel) by (destruct r3 as [[t|]|e3]; try discriminate; injection E0 as <- <-; congruence).
          assert (Hle : (f <= g)%nat) by lia.
          rewrite (IH g (snd kv) K0 (ind ++ gap) K3 r3 Hle Es H3). exact E0. }
        rewrite (ser_list_mono (memf f st gap (ind ++ gap)) (memf g st gap (ind ++ gap)) ms (i :: K) K2 R Hx El HR). exact E.
  Qed.

  (* ---------------------------------------------------------------------------------------- *)
  (* the theorems *)

  (* sharing never throws and the text is that of the unfolded tree; the stack comes back empty; any fuel above the
     number of nodes does *)
  Lemma stringify_dag_eq_tree_lemma st rk gap ind v :
    closed num st -> rank_ok num st rk -> ref_lt num (length st) v ->
    forall fu, (forall j, v = IRef j -> (rk j < fu)%nat) ->
    exists t, unf fu st v = Some t /\
      forall f, (length st < f)%nat -> ser f st gap [] ind v = ([], inl (sat gap ind t)).
  Proof.
    intros Hcl Hrk Hlt fu Hfu.
    destruct (dag_main st rk gap Hcl Hrk fu v [] Hlt Hfu) as (t & Ut & Et). { intros j i _ []. }
    exists t. split; auto. intros f Hf.
    destruct (Nat.le_ge_cases fu f) as [Hle|Hge].
    - apply (ser_mono st gap fu f); auto. discriminate.
    - destruct (ser f st gap [] ind v) as [K' r] eqn:Ef.
      assert (Hr : r <> inr EFuel).
      { intros ->. apply (ser_not_bad st gap Hcl f v [] ind Hlt (NoDup_nil _)) with (e := EFuel).
        - intros i [].
        - cbn [length]. lia.
        - first [reflexivity | now rewrite Ef].
        - now left. }
      pose proof (ser_mono st gap f fu v [] ind K' r Hge Ef Hr) as Em. rewrite Et in Em. now injection Em as <- <-.
  Qed.

  (* an Ok answer implies a finite unfolding: a value from which a cycle is reachable never serialises *)
  Lemma cycle_throws_lemma st gap ind v :
    closed num st -> ref_lt num (length st) v -> (forall f, unf f st v = None) ->
    forall f, (length st < f)%nat -> snd (ser f st gap [] ind v) = inr ECycle.
  Proof.
    intros Hcl Hlt Hno f Hf.
    destruct (ser f st gap [] ind v) as [K' [r|e]] eqn:E.
    - apply ok_unfold in E as (_ & t & Ut & _). rewrite Hno in Ut. discriminate.
    - cbn [snd]. destruct e; auto; exfalso;
        (eapply (ser_not_bad st gap Hcl f v [] ind Hlt (NoDup_nil _));
         [intros i []|cbn [length]; lia|first [reflexivity | rewrite E; reflexivity]|]); [now left|now right].
  Qed.

  (* step 1 of SerializeJSONObject/Array: re-entering a value that is on the stack throws, the stack unchanged *)
  Lemma reentry_throws_lemma st gap K ind f i :
    In i K -> ser (S f) st gap K ind (IRef i) = (K, inr ECycle).
  Proof.
    intros Hin. rewrite ser_ref_S.
    assert (E : on_stack i K = true) by (apply existsb_exists; exists i; split; auto; apply Nat.eqb_refl).
    now rewrite E.
  Qed.

End DeepProofs.

(* a one-node cycle has no finite unfolding (the hypothesis of cycle_throws is satisfiable) *)
Lemma self_cycle_no_unfold (num : Type) : forall f, unfold num f [NObj [([97%N], IRef 0)]] (IRef 0) = None.
Proof.
  induction f as [|f IH]; [reflexivity|]. cbn [unfold nth_error map snd fst]. rewrite IH. reflexivity.
Qed.

Lemma self_cycle_closed (num : Type) : closed num [NObj [([97%N], @IRef num 0)]].
Proof.
  intros i n E c Hc j ->. destruct i as [|[|i]]; cbn in E; try discriminate. injection E as <-.
  cbn in Hc. destruct Hc as [Hc|[]]. injection Hc as <-. cbn. lia.
Qed.
