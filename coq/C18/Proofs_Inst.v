(* C18: the two instances of the number interface discharge its hypotheses.
   (a) integers printed in decimal (closed tests of the theorems, no hypothesis left);
   (b) the number is its own token text (used by the correspondence; double conversion is outside). *)
From Coq Require Import NArith ZArith List Bool Arith Lia.
From Coq Require Decimal DecimalFacts DecimalPos.
From C18 Require Import Json Proofs_Lex.
Import ListNotations.
Local Open Scope N_scope.

(* ---- (b) tokens ---- *)

Lemma tok_print_token t : number_token t = true -> number_token (print_tok t) = true.
Proof. auto. Qed.

Lemma tok_parse_print t : number_token t = true -> parse_tok (print_tok t) = Some t.
Proof. reflexivity. Qed.

(* ---- (a) integers ---- *)

Lemma units_all_digits d : forallb is_digit (uint_units d) = true.
Proof. induction d; cbn [uint_units forallb]; auto. Qed.

Ltac digit_true :=
  match goal with
  | |- context [is_digit ?c] => let b := eval vm_compute in (is_digit c) in change (is_digit c) with b
  end; cbv iota.

Lemma digits_val_acc d : forall a : positive,
  digits_val (N.pos a) (uint_units d) = Some (N.pos (Pos.of_uint_acc d a)).
Proof.
  induction d as [|d IHd|d IHd|d IHd|d IHd|d IHd|d IHd|d IHd|d IHd|d IHd|d IHd]; intros a;
    cbn [uint_units digits_val Pos.of_uint_acc]; [reflexivity | ..]; digit_true;
    match goal with
    | |- digits_val ?x (uint_units d) = Some (N.pos (Pos.of_uint_acc d ?y)) =>
      replace x with (N.pos y) by lia
    end; apply IHd.
Qed.

Lemma digits_val_uint d : digits_val 0 (uint_units d) = Some (Pos.of_uint d).
Proof.
  induction d as [|d IHd|d IHd|d IHd|d IHd|d IHd|d IHd|d IHd|d IHd|d IHd|d IHd];
    cbn [uint_units digits_val Pos.of_uint]; [reflexivity | ..]; digit_true.
  - exact IHd.
  - apply (digits_val_acc d 1).
  - apply (digits_val_acc d 2).
  - apply (digits_val_acc d 3).
  - apply (digits_val_acc d 4).
  - apply (digits_val_acc d 5).
  - apply (digits_val_acc d 6).
  - apply (digits_val_acc d 7).
  - apply (digits_val_acc d 8).
  - apply (digits_val_acc d 9).
Qed.

Lemma nzhead_not_D0 x y : Decimal.nzhead x <> Decimal.D0 y.
Proof. induction x; cbn [Decimal.nzhead]; try discriminate; auto. Qed.

Lemma unorm_D0_nil x y : Decimal.unorm x = Decimal.D0 y -> y = Decimal.Nil.
Proof.
  unfold Decimal.unorm. destruct (Decimal.nzhead x) eqn:E; intros H; try discriminate.
  - now injection H.
  - exfalso. eapply nzhead_not_D0; eauto.
Qed.

Lemma to_uint_unorm p : Pos.to_uint p = Decimal.unorm (Pos.to_uint p).
Proof.
  pose proof (DecimalPos.Unsigned.to_of (Pos.to_uint p)) as H.
  rewrite DecimalPos.Unsigned.of_to in H. exact H.
Qed.

(* the decimal text of a positive: a non-zero digit followed by digits *)
Lemma pos_units_shape p : exists c ds,
  uint_units (Pos.to_uint p) = c :: ds /\ is_digit c = true /\ (c =? 48) = false /\ (c =? 45) = false /\
  forallb is_digit ds = true.
Proof.
  pose proof (units_all_digits (Pos.to_uint p)) as Hall.
  pose proof (to_uint_unorm p) as Hn.
  pose proof (DecimalPos.Unsigned.to_uint_nonzero p) as Hz.
  pose proof (DecimalPos.Unsigned.to_uint_nonnil p) as Hnil.
  destruct (Pos.to_uint p) as [|d|d|d|d|d|d|d|d|d|d] eqn:E; try contradiction.
  - symmetry in Hn. apply unorm_D0_nil in Hn. subst d. contradiction.
  - cbn [uint_units forallb] in *. eexists _, _. repeat split; auto.
  - cbn [uint_units forallb] in *. eexists _, _. repeat split; auto.
  - cbn [uint_units forallb] in *. eexists _, _. repeat split; auto.
  - cbn [uint_units forallb] in *. eexists _, _. repeat split; auto.
  - cbn [uint_units forallb] in *. eexists _, _. repeat split; auto.
  - cbn [uint_units forallb] in *. eexists _, _. repeat split; auto.
  - cbn [uint_units forallb] in *. eexists _, _. repeat split; auto.
  - cbn [uint_units forallb] in *. eexists _, _. repeat split; auto.
  - cbn [uint_units forallb] in *. eexists _, _. repeat split; auto.
Qed.

Lemma digits_number_token c ds : is_digit c = true -> (c =? 48) = false -> (c =? 45) = false ->
  forallb is_digit ds = true -> scan_number (c :: ds) = Some (c :: ds, []).
Proof.
  intros Hc H48 H45 Hds. unfold scan_number, scan_minus. rewrite H45.
  unfold scan_int. rewrite H48, Hc.
  rewrite <- (app_nil_r ds) at 1. rewrite span_digits_app by auto.
  cbn [scan_frac scan_exp]. now rewrite !app_nil_r.
Qed.

Lemma Z_print_token z : number_token (print_Z z) = true.
Proof.
  unfold number_token. destruct z as [|p|p]; cbn [print_Z].
  - reflexivity.
  - destruct (pos_units_shape p) as (c & ds & -> & Hc & H48 & H45 & Hds).
    now rewrite digits_number_token.
  - destruct (pos_units_shape p) as (c & ds & -> & Hc & H48 & H45 & Hds).
    unfold scan_number. cbn [scan_minus]. change (45 =? 45) with true. cbv iota.
    unfold scan_int. rewrite H48, Hc.
    rewrite <- (app_nil_r ds) at 1. rewrite span_digits_app by auto.
    cbn [scan_frac scan_exp]. reflexivity.
Qed.

Lemma Z_parse_print z : parse_Z (print_Z z) = Some z.
Proof.
  destruct z as [|p|p]; cbn [print_Z].
  - reflexivity.
  - destruct (pos_units_shape p) as (c & ds & E & Hc & H48 & H45 & Hds).
    unfold parse_Z. rewrite E, H45, <- E. rewrite digits_val_uint, DecimalPos.Unsigned.of_to. reflexivity.
  - unfold parse_Z. change (45 =? 45) with true. cbv iota.
    rewrite digits_val_uint, DecimalPos.Unsigned.of_to. reflexivity.
Qed.

(* ---- the gap computed from a Number `space` is always white space, at most 10 units ---- *)

Lemma gap_num_valid z : valid_gap (gap_of_space (SpNum z)) = true.
Proof.
  unfold gap_of_space, valid_gap. destruct (z <? 1)%Z; auto.
  induction (Z.to_nat (Z.min 10 z)); cbn [repeat forallb]; auto.
Qed.

Lemma gap_length sp : (length (gap_of_space sp) <= 10)%nat.
Proof.
  destruct sp as [|z|s]; cbn [gap_of_space length]; try lia.
  - destruct (z <? 1)%Z; cbn [length]; try lia. rewrite repeat_length. lia.
  - rewrite firstn_length. lia.
Qed.
