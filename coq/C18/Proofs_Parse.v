(* C18 lemmas about the fuelled recursive-descent parser: it consumes input, more fuel never changes
   an answer, and fuel above the length of the input is enough (so parse_json decides). *)
From Coq Require Import NArith ZArith List Bool Arith Lia.
From C18 Require Import Json Proofs_Lex.
Import ListNotations.
Local Open Scope N_scope.

Definition shrinks {A : Type} (p : list N -> option (A * list N)) : Prop :=
  forall l v r, p l = Some (v, r) -> (length r < length l)%nat.

Definition ext {A : Type} (p q : list N -> option A) : Prop :=
  forall l x, p l = Some x -> q l = Some x.

Ltac skipws_len r :=
  let H := fresh "Hsk" in pose proof (skip_ws_length r) as H.

Section ParseMeta.
  Variable num : Type.
  Variable parse_num : list N -> option num.

  Notation pv := (parse_value num parse_num).
  Notation pe := (parse_elems num).
  Notation pm := (parse_members num).

  Definition value_body (f : nat) (l : list N) : option (jvalue num * list N) :=
    match skip_ws l with
    | [] => None
    | c :: r =>
      if c =? 91 then
        match skip_ws r with
        | [] => None
        | c' :: r' =>
          if c' =? 93 then Some (JArr [], r')
          else match pe (pv f) f (c' :: r') with
               | Some (vs, r'') => Some (JArr vs, r'')
               | None => None
               end
        end
      else if c =? 123 then
        match skip_ws r with
        | [] => None
        | c' :: r' =>
          if c' =? 125 then Some (JObj [], r')
          else match pm (pv f) f (c' :: r') with
               | Some (ms, r'') => Some (JObj ms, r'')
               | None => None
               end
        end
      else if c =? 34 then
        match scan_string r with
        | Some (s, r') => Some (JStr s, r')
        | None => None
        end
      else if c =? 116 then parse_lit num lit_true (JBool true) (c :: r)
      else if c =? 102 then parse_lit num lit_false (JBool false) (c :: r)
      else if c =? 110 then parse_lit num lit_null JNull (c :: r)
      else if (c =? 45) || is_digit c then
        match scan_number (c :: r) with
        | Some (t, r') =>
          match parse_num t with
          | Some x => Some (JNum x, r')
          | None => None
          end
        | None => None
        end
      else None
    end.

  Lemma parse_value_S f l : pv (S f) l = value_body f l.
  Proof. reflexivity. Qed.

  Lemma parse_value_ws f w l : forallb is_ws w = true -> pv f (w ++ l) = pv f l.
  Proof.
    intros H. destruct f; [reflexivity|]. rewrite !parse_value_S. unfold value_body.
    now rewrite skip_ws_app_ws.
  Qed.

  (* ---- the parser consumes input ---- *)

  Lemma elems_shrinks p : shrinks p -> forall n, shrinks (pe p n).
  Proof.
    intros Hp. induction n as [|n IH]; intros l v r H; [discriminate|].
    cbn [parse_elems] in H.
    destruct (p l) as [[v0 r0]|] eqn:E; try discriminate. apply Hp in E.
    destruct (skip_ws r0) as [|c r1] eqn:Es; try discriminate.
    skipws_len r0. rewrite Es in Hsk. simpl in Hsk.
    destruct (c =? 44).
    - destruct (pe p n r1) as [[vs r2]|] eqn:E2; try discriminate.
      injection H as _ <-. apply IH in E2. lia.
    - destruct (c =? 93); try discriminate. injection H as _ <-. lia.
  Qed.

  Lemma members_shrinks p : shrinks p -> forall n, shrinks (pm p n).
  Proof.
    intros Hp. induction n as [|n IH]; intros l v r H; [discriminate|].
    cbn [parse_members] in H.
    destruct (skip_ws l) as [|c r0] eqn:Es0; try discriminate.
    skipws_len l. rewrite Es0 in Hsk. simpl in Hsk.
    destruct (c =? 34); try discriminate.
    destruct (scan_string r0) as [[k r1]|] eqn:Ek; try discriminate.
    apply scan_string_shrinks' in Ek.
    destruct (skip_ws r1) as [|c1 r2] eqn:Es1; try discriminate.
    skipws_len r1. rewrite Es1 in Hsk0. simpl in Hsk0.
    destruct (c1 =? 58); try discriminate.
    destruct (p r2) as [[v0 r3]|] eqn:E; try discriminate. apply Hp in E.
    destruct (skip_ws r3) as [|c2 r4] eqn:Es3; try discriminate.
    skipws_len r3. rewrite Es3 in Hsk1. simpl in Hsk1.
    destruct (c2 =? 44).
    - destruct (pm p n r4) as [[ms r5]|] eqn:E2; try discriminate.
      injection H as _ <-. apply IH in E2. lia.
    - destruct (c2 =? 125); try discriminate. injection H as _ <-. lia.
  Qed.

  Lemma parse_lit_shrinks p v l x r : p <> [] -> parse_lit num p v l = Some (x, r) -> (length r < length l)%nat.
  Proof.
    unfold parse_lit. intros Hp H. destruct (strip_prefix p l) as [r'|] eqn:E; try discriminate.
    injection H as _ <-. apply strip_prefix_inv in E. subst l. rewrite app_length.
    destruct p; [contradiction|]. simpl. lia.
  Qed.

  Lemma value_shrinks : forall f, shrinks (pv f).
  Proof.
    induction f as [|f IH]; intros l v r H; [discriminate|].
    rewrite parse_value_S in H. unfold value_body in H.
    destruct (skip_ws l) as [|c r0] eqn:Es; try discriminate.
    skipws_len l. rewrite Es in Hsk. simpl in Hsk.
    destruct (c =? 91).
    { destruct (skip_ws r0) as [|c' r1] eqn:Es1; try discriminate.
      skipws_len r0. rewrite Es1 in Hsk0. simpl in Hsk0.
      destruct (c' =? 93).
      - injection H as _ <-. lia.
      - destruct (pe (pv f) f (c' :: r1)) as [[vs r2]|] eqn:E; try discriminate.
        injection H as _ <-. apply (elems_shrinks _ IH) in E. simpl in E. lia. }
    destruct (c =? 123).
    { destruct (skip_ws r0) as [|c' r1] eqn:Es1; try discriminate.
      skipws_len r0. rewrite Es1 in Hsk0. simpl in Hsk0.
      destruct (c' =? 125).
      - injection H as _ <-. lia.
      - destruct (pm (pv f) f (c' :: r1)) as [[ms r2]|] eqn:E; try discriminate.
        injection H as _ <-. apply (members_shrinks _ IH) in E. simpl in E. lia. }
    destruct (c =? 34).
    { destruct (scan_string r0) as [[s r1]|] eqn:E; try discriminate.
      injection H as _ <-. apply scan_string_shrinks' in E. lia. }
    destruct (c =? 116).
    { apply parse_lit_shrinks in H; [simpl in H; lia | discriminate]. }
    destruct (c =? 102).
    { apply parse_lit_shrinks in H; [simpl in H; lia | discriminate]. }
    destruct (c =? 110).
    { apply parse_lit_shrinks in H; [simpl in H; lia | discriminate]. }
    destruct ((c =? 45) || is_digit c); try discriminate.
    destruct (scan_number (c :: r0)) as [[t r1]|] eqn:E; try discriminate.
    destruct (parse_num t); try discriminate. injection H as _ <-.
    apply scan_number_shrinks in E. simpl in E. lia.
  Qed.

  (* ---- more fuel keeps every answer ---- *)

  Lemma elems_mono p q : ext p q -> forall n m, (n <= m)%nat -> ext (pe p n) (pe q m).
  Proof.
    intros Hpq. induction n as [|n IH]; intros m Hm l x H; [discriminate|].
    destruct m as [|m]; [lia|]. cbn [parse_elems] in *.
    destruct (p l) as [[v0 r0]|] eqn:E; try discriminate. rewrite (Hpq _ _ E).
    destruct (skip_ws r0) as [|c r1]; try discriminate.
    destruct (c =? 44); auto.
    destruct (pe p n r1) as [[vs r2]|] eqn:E2; try discriminate.
    rewrite (IH m ltac:(lia) _ _ E2). exact H.
  Qed.

  Lemma members_mono p q : ext p q -> forall n m, (n <= m)%nat -> ext (pm p n) (pm q m).
  Proof.
    intros Hpq. induction n as [|n IH]; intros m Hm l x H; [discriminate|].
    destruct m as [|m]; [lia|]. cbn [parse_members] in *.
    destruct (skip_ws l) as [|c r0]; try discriminate.
    destruct (c =? 34); try discriminate.
    destruct (scan_string r0) as [[k r1]|]; try discriminate.
    destruct (skip_ws r1) as [|c1 r2]; try discriminate.
    destruct (c1 =? 58); try discriminate.
    destruct (p r2) as [[v0 r3]|] eqn:E; try discriminate. rewrite (Hpq _ _ E).
    destruct (skip_ws r3) as [|c2 r4]; try discriminate.
    destruct (c2 =? 44); auto.
    destruct (pm p n r4) as [[ms r5]|] eqn:E2; try discriminate.
    rewrite (IH m ltac:(lia) _ _ E2). exact H.
  Qed.

  Lemma value_mono : forall f g, (f <= g)%nat -> ext (pv f) (pv g).
  Proof.
    induction f as [|f IH]; intros g Hg l x H; [discriminate|].
    destruct g as [|g]; [lia|]. rewrite parse_value_S in *. unfold value_body in *.
    assert (Hfg : ext (pv f) (pv g)) by (apply IH; lia).
    destruct (skip_ws l) as [|c r0]; try discriminate.
    destruct (c =? 91).
    { destruct (skip_ws r0) as [|c' r1]; try discriminate.
      destruct (c' =? 93); auto.
      destruct (pe (pv f) f (c' :: r1)) as [[vs r2]|] eqn:E; try discriminate.
      rewrite (elems_mono _ _ Hfg f g ltac:(lia) _ _ E). exact H. }
    destruct (c =? 123).
    { destruct (skip_ws r0) as [|c' r1]; try discriminate.
      destruct (c' =? 125); auto.
      destruct (pm (pv f) f (c' :: r1)) as [[ms r2]|] eqn:E; try discriminate.
      rewrite (members_mono _ _ Hfg f g ltac:(lia) _ _ E). exact H. }
    exact H.
  Qed.

  (* ---- fuel above the length of the input is enough ---- *)

  Lemma elems_enough p q : shrinks p ->
    forall n m l, (forall l', (length l' <= length l)%nat -> p l' = q l') ->
      (length l < n)%nat -> (length l < m)%nat -> pe p n l = pe q m l.
  Proof.
    intros Hp. induction n as [|n IH]; intros m l Hag Hn Hm; [lia|].
    destruct m as [|m]; [lia|]. cbn [parse_elems].
    rewrite <- (Hag l (le_n _)).
    destruct (p l) as [[v0 r0]|] eqn:E; auto. apply Hp in E.
    destruct (skip_ws r0) as [|c r1] eqn:Es; auto.
    skipws_len r0. rewrite Es in Hsk. simpl in Hsk.
    destruct (c =? 44); auto.
    rewrite (IH m r1); auto; try lia.
    intros l' Hl'. apply Hag. lia.
  Qed.

  Lemma members_enough p q : shrinks p ->
    forall n m l, (forall l', (length l' <= length l)%nat -> p l' = q l') ->
      (length l < n)%nat -> (length l < m)%nat -> pm p n l = pm q m l.
  Proof.
    intros Hp. induction n as [|n IH]; intros m l Hag Hn Hm; [lia|].
    destruct m as [|m]; [lia|]. cbn [parse_members].
    destruct (skip_ws l) as [|c r0] eqn:Es0; auto.
    skipws_len l. rewrite Es0 in Hsk. simpl in Hsk.
    destruct (c =? 34); auto.
    destruct (scan_string r0) as [[k r1]|] eqn:Ek; auto.
    apply scan_string_shrinks' in Ek.
    destruct (skip_ws r1) as [|c1 r2] eqn:Es1; auto.
    skipws_len r1. rewrite Es1 in Hsk0. simpl in Hsk0.
    destruct (c1 =? 58); auto.
    rewrite <- (Hag r2) by lia.
    destruct (p r2) as [[v0 r3]|] eqn:E; auto. apply Hp in E.
    destruct (skip_ws r3) as [|c2 r4] eqn:Es3; auto.
    skipws_len r3. rewrite Es3 in Hsk1. simpl in Hsk1.
    destruct (c2 =? 44); auto.
    rewrite (IH m r4); auto; try lia.
    intros l' Hl'. apply Hag. lia.
  Qed.

  Lemma value_enough : forall f g l, (length l < f)%nat -> (length l < g)%nat -> pv f l = pv g l.
  Proof.
    induction f as [|f IH]; intros g l Hf Hg; [lia|].
    destruct g as [|g]; [lia|]. rewrite !parse_value_S. unfold value_body.
    destruct (skip_ws l) as [|c r0] eqn:Es; auto.
    skipws_len l. rewrite Es in Hsk. simpl in Hsk.
    destruct (c =? 91).
    { destruct (skip_ws r0) as [|c' r1] eqn:Es1; auto.
      skipws_len r0. rewrite Es1 in Hsk0. simpl in Hsk0.
      destruct (c' =? 93); auto.
      rewrite (elems_enough (pv f) (pv g) (value_shrinks f) f g (c' :: r1)); auto; simpl; try lia.
      intros l' Hl'. apply IH; lia. }
    destruct (c =? 123); auto.
    destruct (skip_ws r0) as [|c' r1] eqn:Es1; auto.
    skipws_len r0. rewrite Es1 in Hsk0. simpl in Hsk0.
    destruct (c' =? 125); auto.
    rewrite (members_enough (pv f) (pv g) (value_shrinks f) f g (c' :: r1)); auto; simpl; try lia.
    intros l' Hl'. apply IH; lia.
  Qed.

  (* consequences in the shape the property theorems use *)

  Lemma parse_fuel_mono_lemma f g l x : (f <= g)%nat -> pv f l = Some x -> pv g l = Some x.
  Proof. intros H. apply value_mono; auto. Qed.

  Lemma parse_deterministic_lemma f g l x y : pv f l = Some x -> pv g l = Some y -> x = y.
  Proof.
    intros Hx Hy.
    apply (value_mono f (max f g) ltac:(lia)) in Hx.
    apply (value_mono g (max f g) ltac:(lia)) in Hy. congruence.
  Qed.

  (* parse_raw uses fuel = length + 1; any larger fuel gives the same answer, any successful run
     with whatever fuel gives the same answer: the fuel is not observable *)
  Lemma parse_fuel_enough_lemma f l : (length l < f)%nat -> pv f l = pv (S (length l)) l.
  Proof. intros H. apply value_enough; lia. Qed.

  Lemma parse_complete_lemma f l x : pv f l = Some x -> pv (S (length l)) l = Some x.
  Proof.
    intros H. apply (value_mono f (max f (S (length l))) ltac:(lia)) in H.
    rewrite <- H. symmetry. apply value_enough; lia.
  Qed.

End ParseMeta.
