(* C18 model entry point (convention of BUILDERS.md): the executable definitions live in Json.v;
   this file fixes the instance the correspondence runs (numbers = their token texts) and the
   composite functions the extracted driver calls.  Definitions only. *)
From Coq Require Import NArith ZArith List Bool.
From C18 Require Export Json.
Import ListNotations.
Local Open Scope N_scope.

Definition tvalue := jvalue (list N).
Definition tjsv := jsv (list N).

(* JSON.parse as observed through the engine: the value with its keys in own-key order *)
Definition m_parse (text : list N) : option tvalue :=
  match parse_json (list N) parse_tok text with
  | Some v => Some (js_order v)
  | None => None
  end.

(* JSON.stringify(value, undefined, space) where value was built member by member *)
Definition m_stringify (sp : space) (v : tjsv) : option (list N) :=
  serialize (list N) print_tok (gap_of_space sp) (js_build v).

(* the same without js_build: the caller gives the members in the order they are to be printed
   (used for the replacer / toJSON / reviver programs, whose member order is computed outside) *)
Definition m_stringify_raw (sp : space) (v : tjsv) : option (list N) :=
  serialize (list N) print_tok (gap_of_space sp) v.

Definition m_roundtrip (sp : space) (v : tjsv) : option (list N * option tvalue) :=
  match m_stringify sp v with
  | Some t => Some (t, m_parse t)
  | None => None
  end.

(* the input value is acceptable to this instance: every number is a number token *)
Fixpoint tjsv_ok (v : tjsv) : bool :=
  match v with
  | VNum t => number_token t
  | VArr vs => forallb tjsv_ok vs
  | VObj ms => forallb (fun kv => tjsv_ok (snd kv)) ms
  | _ => true
  end.
