(* C18 lemmas: duplicate keys (first position, last value), normal form, and the relation between
   SerializeJSONProperty on JS values and stringify on the JSON value they denote. *)
From Coq Require Import NArith ZArith List Bool Arith Lia.
From C18 Require Import Json Proofs_Lex Proofs_Parse Proofs_Round.
Import ListNotations.
Local Open Scope N_scope.

Lemma units_eqb_sym a b : units_eqb a b = units_eqb b a.
Proof.
  destruct (units_eqb a b) eqn:E.
  - apply units_eqb_eq in E. subst. symmetry. apply units_eqb_refl.
  - symmetry. apply units_eqb_neq. apply units_eqb_neq in E. congruence.
Qed.

Section Dedup.
  Variable V : Type.
  Implicit Types (ms acc : list (list N * V)) (k : list N).

  Lemma assoc_insert k k' (v : V) acc :
    assoc k (insert_key k' v acc) = if units_eqb k k' then Some v else assoc k acc.
  Proof.
    induction acc as [|kv r IH]; cbn [insert_key assoc fst snd].
    - reflexivity.
    - destruct (units_eqb k' (fst kv)) eqn:E1; cbn [assoc fst snd].
      + apply units_eqb_eq in E1. subst k'.
        destruct (units_eqb k (fst kv)); reflexivity.
      + rewrite IH. destruct (units_eqb k k') eqn:E2; auto.
        apply units_eqb_eq in E2. subst k'. now rewrite E1.
  Qed.

  Lemma assoc_fold k ms : forall acc,
    assoc k (fold_left (fun a kv => insert_key (fst kv) (snd kv) a) ms acc) =
    match assoc_last k ms with Some v => Some v | None => assoc k acc end.
  Proof.
    induction ms as [|kv r IH]; intros acc; cbn [fold_left assoc_last]; auto.
    rewrite IH. destruct (assoc_last k r); auto.
    rewrite assoc_insert. destruct (units_eqb k (fst kv)); auto.
  Qed.

  Lemma dup_keys_last_wins_lemma k ms : assoc k (dedup_last ms) = assoc_last k ms.
  Proof. unfold dedup_last. rewrite assoc_fold. destruct (assoc_last k ms); auto. Qed.

  Lemma insert_keys k (v : V) acc :
    map fst (insert_key k v acc) = if mem_key k (map fst acc) then map fst acc else map fst acc ++ [k].
  Proof.
    induction acc as [|kv r IH]; cbn [insert_key map mem_key fst]; auto.
    destruct (units_eqb k (fst kv)) eqn:E; cbn [map fst orb]; auto.
    rewrite IH. destruct (mem_key k (map fst r)); reflexivity.
  Qed.

  Lemma mem_key_app k a b : mem_key k (a ++ b) = mem_key k a || mem_key k b.
  Proof. induction a as [|x a IH]; cbn [app mem_key]; auto. rewrite IH. now rewrite orb_assoc. Qed.

  Lemma nodup_keys_snoc ks k : nodup_keys ks = true -> mem_key k ks = false -> nodup_keys (ks ++ [k]) = true.
  Proof.
    induction ks as [|x ks IH]; cbn [app nodup_keys mem_key]; auto.
    intros H Hm. apply andb_true_iff in H as [H1 H2]. apply orb_false_iff in Hm as [Hm1 Hm2].
    rewrite IH by auto. rewrite mem_key_app. cbn [mem_key]. rewrite units_eqb_sym, Hm1.
    apply negb_true_iff in H1. rewrite H1. reflexivity.
  Qed.

  Lemma insert_nodup k (v : V) acc : nodup_keys (map fst acc) = true -> nodup_keys (map fst (insert_key k v acc)) = true.
  Proof.
    intros H. rewrite insert_keys. destruct (mem_key k (map fst acc)) eqn:E; auto.
    now apply nodup_keys_snoc.
  Qed.

  Lemma fold_nodup ms : forall acc, nodup_keys (map fst acc) = true ->
    nodup_keys (map fst (fold_left (fun a kv => insert_key (fst kv) (snd kv) a) ms acc)) = true.
  Proof. induction ms as [|kv r IH]; intros acc H; cbn [fold_left]; auto. apply IH. now apply insert_nodup. Qed.

  Lemma dedup_nodup_lemma ms : nodup_keys (map fst (dedup_last ms)) = true.
  Proof. unfold dedup_last. now apply fold_nodup. Qed.

  (* the keys appear in the order of their first occurrence *)
  Definition first_occurrences (ks : list (list N)) : list (list N) :=
    fold_left (fun a k => if mem_key k a then a else a ++ [k]) ks [].

  Lemma fold_keys ms : forall acc,
    map fst (fold_left (fun a kv => insert_key (fst kv) (snd kv) a) ms acc) =
    fold_left (fun a k => if mem_key k a then a else a ++ [k]) (map fst ms) (map fst acc).
  Proof.
    induction ms as [|kv r IH]; intros acc; cbn [fold_left map]; auto.
    rewrite IH. now rewrite insert_keys.
  Qed.

  Lemma dedup_key_order_lemma ms : map fst (dedup_last ms) = first_occurrences (map fst ms).
  Proof. unfold dedup_last, first_occurrences. now rewrite fold_keys. Qed.

  Lemma insert_fresh k (v : V) acc : mem_key k (map fst acc) = false -> insert_key k v acc = acc ++ [(k, v)].
  Proof.
    induction acc as [|kv r IH]; cbn [insert_key map mem_key fst app]; auto.
    intros H. apply orb_false_iff in H as [H1 H2]. rewrite H1. now rewrite IH.
  Qed.

  Lemma nodup_mid a : forall k b, nodup_keys (a ++ k :: b) = true -> mem_key k a = false.
  Proof.
    induction a as [|x a IH]; intros k b H; cbn [app nodup_keys mem_key] in *; auto.
    apply andb_true_iff in H as [H1 H2]. apply negb_true_iff in H1.
    rewrite mem_key_app in H1. apply orb_false_iff in H1 as [_ H1]. cbn [mem_key] in H1.
    apply orb_false_iff in H1 as [H1 _]. rewrite units_eqb_sym, H1. cbn [orb]. eauto.
  Qed.

  Lemma fold_id ms : forall acc, nodup_keys (map fst (acc ++ ms)) = true ->
    fold_left (fun a kv => insert_key (fst kv) (snd kv) a) ms acc = acc ++ ms.
  Proof.
    induction ms as [|kv r IH]; intros acc H; cbn [fold_left].
    - now rewrite app_nil_r.
    - rewrite insert_fresh.
      + assert (E : (fst kv, snd kv) = kv) by (destruct kv; reflexivity). rewrite E.
        rewrite IH; rewrite <- app_assoc; auto.
      + rewrite map_app in H. cbn [map] in H. eapply nodup_mid; eauto.
  Qed.

  Lemma dedup_id ms : nodup_keys (map fst ms) = true -> dedup_last ms = ms.
  Proof. intros H. unfold dedup_last. now rewrite fold_id. Qed.

End Dedup.

(* ------------------------------------------------------------------------------------------ *)

Section Normal.
  Variable num : Type.

  Lemma normal_id_lemma : forall v : jvalue num, keys_distinct num v = true -> normal num v = v.
  Proof.
    induction v as [| b | x | s | vs IH | ms IH] using jvalue_ind2; cbn [normal keys_distinct]; auto.
    - intros H. f_equal. rewrite <- (map_id vs) at 2. apply map_ext_in. intros a Ha.
      rewrite Forall_forall in IH. apply IH; auto. eapply forallb_forall in H; eauto.
    - intros H. apply andb_true_iff in H as [H1 H2]. f_equal.
      assert (E : map (fun kv => (fst kv, normal num (snd kv))) ms = ms).
      { rewrite <- (map_id ms) at 2. apply map_ext_in. intros [k a] Ha. cbn [fst snd]. f_equal.
        rewrite Forall_forall in IH. apply (IH (k, a)); auto.
        eapply forallb_forall in H2; eauto. }
      rewrite E. now apply dedup_id.
  Qed.

  (* the result of normal never has duplicate keys, at any depth *)
  Lemma normal_distinct_lemma : forall v : jvalue num, keys_distinct num (normal num v) = true.
  Proof.
    induction v as [| b | x | s | vs IH | ms IH] using jvalue_ind2; cbn [normal keys_distinct]; auto.
    - rewrite forallb_forall. intros a Ha. apply in_map_iff in Ha as (a0 & <- & Ha0).
      rewrite Forall_forall in IH. now apply IH.
    - rewrite dedup_nodup_lemma. cbn [andb].
      rewrite forallb_forall. intros [k a] Ha. cbn [snd].
      (* every value in dedup_last l is a value of l *)
      assert (Hin : forall (l acc : list (list N * jvalue num)) kv,
                 In kv (fold_left (fun a kv => insert_key (fst kv) (snd kv) a) l acc) ->
                 (exists kv', In kv' l /\ snd kv' = snd kv) \/ In kv acc).
      { clear. induction l as [|x l IHl]; intros acc kv H; cbn [fold_left] in H; auto.
        apply IHl in H as [(kv' & H1 & H2)|H].
        - left. exists kv'. split; auto. now right.
        - assert (Hins : forall acc, In kv (insert_key (fst x) (snd x) acc) -> snd kv = snd x \/ In kv acc).
          { clear. induction acc as [|y acc IHa]; cbn [insert_key]; intros H.
            - destruct H as [<-|[]]. now left.
            - destruct (units_eqb (fst x) (fst y)).
              + destruct H as [<-|H]; [now left| right; now right].
              + destruct H as [<-|H]; [right; now left|]. apply IHa in H as [H|H]; auto. right. now right. }
          apply Hins in H as [H|H]; auto. left. exists x. split; [now left|auto]. }
      apply Hin in Ha as [(kv' & H1 & H2)|[]]. cbn [snd] in H2. subst a.
      apply in_map_iff in H1 as ([k0 a0] & <- & H0). cbn [snd].
      rewrite Forall_forall in IH. apply (IH (k0, a0)); auto.
  Qed.
End Normal.

(* ------------------------------------------------------------------------------------------ *)

Section Serialize.
  Variable num : Type.
  Variable print_num : num -> list N.

  Notation str := (stringify_at num print_num).
  Notation ser := (serialize_at num print_num).

  Lemma serialize_to_json : forall (v : jsv num) gap ind,
    ser gap ind v = option_map (str gap ind) (to_json num v).
  Proof.
    induction v as [| | b | x | | s | vs IH | ms IH] using jsv_ind2; intros gap ind;
      cbn [serialize_at to_json option_map stringify_at]; auto.
    - destruct b; reflexivity.
    - do 2 f_equal. rewrite map_map. apply map_ext_in. intros e He.
      rewrite Forall_forall in IH. rewrite (IH e He).
      destruct (to_json num e); reflexivity.
    - do 2 f_equal. induction ms as [|[k e] ms IHms]; cbn [map filter_some fst snd]; auto.
      inversion IH as [|? ? H1 H2]; subst. cbn [snd] in H1. rewrite H1.
      destruct (to_json num e); cbn [option_map filter_some map fst snd]; auto.
      f_equal. auto.
  Qed.
End Serialize.
