(* extraction of the C18 model for the correspondence driver: ExtrOcamlBasic only.
   The output goes to ocaml/C18/_build/ (git-ignored; the directory is kept by ocaml/C18/_build/.keep
   and (re)created by checks/c18.py before this file is compiled). *)
From Coq Require Import ExtrOcamlBasic.
From C18 Require Import Model_C18 DeepModel_C18.
Extraction "../ocaml/C18/_build/json_model.ml" m_parse m_stringify m_stringify_raw m_roundtrip tjsv_ok quote_json_string number_token m_stringify_id store_ok ival_ok.
