(* extraction of the C18 model for the correspondence driver: ExtrOcamlBasic only *)
From Coq Require Import ExtrOcamlBasic.
From C18 Require Import Model_C18.
Extraction "../ocaml/C18/json_model.ml" m_parse m_stringify m_stringify_raw m_roundtrip tjsv_ok quote_json_string number_token.
