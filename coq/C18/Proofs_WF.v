(* C18: "well-formed JSON.stringify" -- the text SerializeJSONProperty produces is well-formed UTF-16
   (no unpaired surrogate code unit) whatever code units the strings and keys of the value hold.
   Unbounded: any nesting, any string contents (lone surrogates included), any well-formed gap. *)
From Coq Require Import NArith ZArith List Bool Arith Lia.
From C18 Require Import Json Proofs_Lex Proofs_Parse Proofs_Round Proofs_Obj.
Import ListNotations.
Local Open Scope N_scope.

(* ------------------------------------------------------------------------------------------ *)
(* wf16 and concatenation *)

Lemma ascii_not_sur c : is_ascii c = true -> is_high c = false /\ is_low c = false.
Proof.
  unfold is_ascii, is_high, is_low. intros H. apply N.ltb_lt in H.
  split; apply andb_false_iff; left; apply N.leb_gt; lia.
Qed.

Lemma wf16_ascii_app a l : forallb is_ascii a = true -> wf16 (a ++ l) = wf16 l.
Proof.
  induction a as [|c a IH]; intros H; [reflexivity|].
  cbn [forallb] in H. apply andb_true_iff in H as [Hc Ha].
  destruct (ascii_not_sur c Hc) as [Eh El].
  cbn [app wf16]. rewrite Eh, El. cbn [negb andb]. now apply IH.
Qed.

(* a well-formed prefix is transparent *)
Lemma wf16_app_eq_len : forall n a l, (length a <= n)%nat -> wf16 a = true -> wf16 (a ++ l) = wf16 l.
Proof.
  induction n as [|n IH]; intros a l Hn Ha.
  - destruct a; [reflexivity|cbn [length] in Hn; lia].
  - destruct a as [|c r]; [reflexivity|]. cbn [length] in Hn. cbn [wf16] in Ha.
    destruct (is_high c) eqn:Eh.
    + destruct r as [|d r']; [discriminate|]. apply andb_true_iff in Ha as [Hd Hr].
      cbn [app wf16]. rewrite Eh, Hd. cbn [andb]. apply IH; auto. cbn [length] in Hn. lia.
    + apply andb_true_iff in Ha as [Hl Hr].
      cbn [app wf16]. rewrite Eh, Hl. cbn [andb]. apply IH; auto. lia.
Qed.

Lemma wf16_app_eq a l : wf16 a = true -> wf16 (a ++ l) = wf16 l.
Proof. apply (wf16_app_eq_len (length a)). lia. Qed.

Lemma wf16_app a b : wf16 a = true -> wf16 b = true -> wf16 (a ++ b) = true.
Proof. intros Ha Hb. now rewrite wf16_app_eq. Qed.

Lemma wf16_ascii a : forallb is_ascii a = true -> wf16 a = true.
Proof. intros H. rewrite <- (app_nil_r a). now rewrite wf16_ascii_app. Qed.

Lemma wf16_ws a : forallb is_ws a = true -> wf16 a = true.
Proof.
  intros H. apply wf16_ascii. rewrite forallb_forall in *. intros c Hc. specialize (H c Hc).
  unfold is_ws in H. unfold is_ascii.
  destruct (N.eqb_spec c 9); [subst; reflexivity|].
  destruct (N.eqb_spec c 10); [subst; reflexivity|].
  destruct (N.eqb_spec c 13); [subst; reflexivity|].
  destruct (N.eqb_spec c 32); [subst; reflexivity|]. discriminate.
Qed.

Lemma wf16_join sep ts : wf16 sep = true -> Forall (fun t => wf16 t = true) ts -> wf16 (join sep ts) = true.
Proof.
  intros Hs. induction ts as [|t ts IH]; intros H; [reflexivity|].
  inversion H as [|? ? Ht Hts]; subst.
  destruct ts as [|t2 ts]; [exact Ht|].
  rewrite join_cons2. apply wf16_app; auto. apply wf16_app; auto.
Qed.

(* ------------------------------------------------------------------------------------------ *)
(* QuoteJSONString *)

Lemma hex_digit_ascii v : v < 16 -> is_ascii (hex_digit v) = true.
Proof.
  intros H. unfold hex_digit, is_ascii. destruct (v <? 10); apply N.ltb_lt; lia.
Qed.

Lemma uesc_ascii c : c < 65536 -> forallb is_ascii (uesc c) = true.
Proof.
  intros H. unfold uesc. cbn [forallb].
  assert (H1 : c / 4096 < 16) by (apply N.div_lt_upper_bound; lia).
  assert (H2 : (c / 256) mod 16 < 16) by (apply N.mod_lt; lia).
  assert (H3 : (c / 16) mod 16 < 16) by (apply N.mod_lt; lia).
  assert (H4 : c mod 16 < 16) by (apply N.mod_lt; lia).
  rewrite !hex_digit_ascii by assumption. reflexivity.
Qed.

Lemma wf16_quote_unit c l : is_high c = false -> wf16 (quote_unit c ++ l) = wf16 l.
Proof.
  intros Eh. unfold quote_unit.
  destruct (c =? 8); [reflexivity|].
  destruct (c =? 9); [reflexivity|].
  destruct (c =? 10); [reflexivity|].
  destruct (c =? 12); [reflexivity|].
  destruct (c =? 13); [reflexivity|].
  destruct (c =? 34); [reflexivity|].
  destruct (c =? 92); [reflexivity|].
  destruct (N.ltb_spec c 32).
  - apply wf16_ascii_app. apply uesc_ascii. lia.
  - destruct (is_low c) eqn:El.
    + apply wf16_ascii_app. apply uesc_ascii. apply is_low_range in El. lia.
    + cbn [app wf16]. rewrite Eh, El. reflexivity.
Qed.

Lemma wf16_quote_body_len : forall n s l, (length s <= n)%nat -> wf16 (quote_body s ++ l) = wf16 l.
Proof.
  induction n as [|n IH]; intros s l Hn.
  - destruct s; [reflexivity|cbn [length] in Hn; lia].
  - destruct s as [|c r]; [reflexivity|]. cbn [length] in Hn. cbn [quote_body].
    destruct (is_high c) eqn:Eh.
    + assert (Hc : c < 65536) by (apply is_high_range in Eh; lia).
      destruct r as [|d r'].
      * apply wf16_ascii_app. now apply uesc_ascii.
      * destruct (is_low d) eqn:Ed.
        -- cbn [app wf16]. rewrite Eh, Ed. cbn [andb]. apply IH. cbn [length] in Hn. lia.
        -- rewrite <- app_assoc. rewrite wf16_ascii_app by now apply uesc_ascii. apply IH. lia.
    + rewrite <- app_assoc. rewrite wf16_quote_unit by assumption. apply IH. lia.
Qed.

Lemma wf16_quote_body s l : wf16 (quote_body s ++ l) = wf16 l.
Proof. apply (wf16_quote_body_len (length s)). lia. Qed.

(* every code-unit list, quoted, is well-formed UTF-16 *)
Lemma wf16_quote s : wf16 (quote_json_string s) = true.
Proof.
  unfold quote_json_string. change (34 :: quote_body s ++ [34]) with ([34] ++ quote_body s ++ [34]).
  rewrite wf16_ascii_app by reflexivity. rewrite wf16_quote_body. reflexivity.
Qed.

(* ------------------------------------------------------------------------------------------ *)
(* number tokens are ASCII *)

Lemma digit_ascii c : is_digit c = true -> is_ascii c = true.
Proof.
  unfold is_digit, is_ascii. intros H. apply andb_true_iff in H as [A B]. apply N.leb_le in A, B.
  apply N.ltb_lt. lia.
Qed.

Lemma digits_ascii d : forallb is_digit d = true -> forallb is_ascii d = true.
Proof.
  intros H. rewrite forallb_forall in *. intros c Hc. apply digit_ascii. auto.
Qed.

Lemma span_digits_ascii l d r : span_digits l = (d, r) -> forallb is_ascii d = true.
Proof. intros H. destruct (span_digits_split _ _ _ H) as (_ & Hd & _). now apply digits_ascii. Qed.

Lemma scan_int_ascii l t r : scan_int l = Some (t, r) -> forallb is_ascii t = true.
Proof.
  unfold scan_int. destruct l as [|c l]; [discriminate|].
  destruct (c =? 48).
  - intros H. injection H as <- <-. reflexivity.
  - destruct (is_digit c) eqn:Ec; [|discriminate].
    destruct (span_digits l) as [d r'] eqn:E. intros H. injection H as <- <-.
    cbn [forallb]. rewrite (digit_ascii _ Ec). cbn [andb]. eapply span_digits_ascii; eauto.
Qed.

Lemma scan_frac_ascii l t r : scan_frac l = Some (t, r) -> forallb is_ascii t = true.
Proof.
  unfold scan_frac. destruct l as [|c l].
  - intros H. injection H as <- <-. reflexivity.
  - destruct (N.eqb_spec c 46).
    + destruct (span_digits l) as [d r'] eqn:E. destruct d as [|d0 d]; [discriminate|].
      intros H. injection H as <- <-. subst c. cbn [forallb]. change (is_ascii 46) with true. cbn [andb].
      apply (span_digits_ascii _ _ _ E).
    + intros H. injection H as <- <-. reflexivity.
Qed.

Lemma scan_sign_ascii l sg r : scan_sign l = (sg, r) -> forallb is_ascii sg = true.
Proof.
  unfold scan_sign. destruct l as [|c l].
  - intros H. injection H as <- <-. reflexivity.
  - destruct (N.eqb_spec c 43).
    + cbn [orb]. intros H. injection H as <- <-. subst. reflexivity.
    + cbn [orb]. destruct (N.eqb_spec c 45); intros H; injection H as <- <-; subst; reflexivity.
Qed.

Lemma scan_exp_ascii l t r : scan_exp l = Some (t, r) -> forallb is_ascii t = true.
Proof.
  unfold scan_exp. destruct l as [|c l].
  - intros H. injection H as <- <-. reflexivity.
  - destruct ((c =? 101) || (c =? 69)) eqn:Ee.
    + destruct (scan_sign l) as [sg r1] eqn:Es.
      destruct (span_digits r1) as [d r'] eqn:E. destruct d as [|d0 d]; [discriminate|].
      intros H. injection H as <- <-. cbn [forallb].
      assert (Hc : is_ascii c = true).
      { apply orb_true_iff in Ee as [Ee|Ee]; apply N.eqb_eq in Ee; subst; reflexivity. }
      rewrite Hc. cbn [andb]. rewrite forallb_app. rewrite (scan_sign_ascii _ _ _ Es). cbn [andb].
      apply (span_digits_ascii _ _ _ E).
    + intros H. injection H as <- <-. reflexivity.
Qed.

Lemma scan_number_ascii l t r : scan_number l = Some (t, r) -> forallb is_ascii t = true.
Proof.
  unfold scan_number. destruct (scan_minus l) as [m r0] eqn:Em.
  destruct (scan_minus_split _ _ _ Em) as (_ & Hm).
  destruct (scan_int r0) as [[i r1]|] eqn:Ei; [|discriminate].
  destruct (scan_frac r1) as [[f r2]|] eqn:Ef; [|discriminate].
  destruct (scan_exp r2) as [[e r3]|] eqn:Ee; [|discriminate].
  intros H. injection H as <- <-. rewrite !forallb_app.
  rewrite (scan_int_ascii _ _ _ Ei), (scan_frac_ascii _ _ _ Ef), (scan_exp_ascii _ _ _ Ee).
  destruct Hm as [-> | ->]; reflexivity.
Qed.

Lemma number_token_wf16 t : number_token t = true -> wf16 t = true.
Proof.
  intros H. apply wf16_ascii. apply number_token_scan in H. now apply scan_number_ascii in H.
Qed.

(* ------------------------------------------------------------------------------------------ *)
(* SerializeJSONProperty / Array / Object *)

Lemma wf16_ser_array gap ind ind' partial :
  wf16 gap = true -> wf16 ind = true -> wf16 ind' = true -> Forall (fun t => wf16 t = true) partial ->
  wf16 (ser_array gap ind ind' partial) = true.
Proof.
  intros Hg Hi Hi' Hp. unfold ser_array.
  destruct (is_nil partial); [reflexivity|].
  destruct (is_nil gap).
  - apply wf16_app; [reflexivity|]. apply wf16_app; [|reflexivity]. now apply wf16_join.
  - apply wf16_app; [reflexivity|]. apply wf16_app; [assumption|].
    apply wf16_app; [|apply wf16_app; [reflexivity|apply wf16_app; [assumption|reflexivity]]].
    apply wf16_join; auto.
Qed.

Lemma wf16_ser_object gap ind ind' partial :
  wf16 gap = true -> wf16 ind = true -> wf16 ind' = true -> Forall (fun t => wf16 t = true) partial ->
  wf16 (ser_object gap ind ind' partial) = true.
Proof.
  intros Hg Hi Hi' Hp. unfold ser_object.
  destruct (is_nil partial); [reflexivity|].
  destruct (is_nil gap).
  - apply wf16_app; [reflexivity|]. apply wf16_app; [|reflexivity]. now apply wf16_join.
  - apply wf16_app; [reflexivity|]. apply wf16_app; [assumption|].
    apply wf16_app; [|apply wf16_app; [reflexivity|apply wf16_app; [assumption|reflexivity]]].
    apply wf16_join; auto.
Qed.

Lemma wf16_ser_member gap k strp : wf16 strp = true -> wf16 (ser_member gap k strp) = true.
Proof.
  intros H. unfold ser_member. apply wf16_app; [apply wf16_quote|].
  apply wf16_app; [reflexivity|]. apply wf16_app; [destruct (is_nil gap); reflexivity|assumption].
Qed.

Section WF.
  Variable num : Type.
  Variable print_num : num -> list N.
  Variable ok : num -> bool.
  Hypothesis print_wf : forall x, ok x = true -> wf16 (print_num x) = true.

  Lemma wf16_stringify_at : forall v, printable num ok v = true ->
    forall gap ind, wf16 gap = true -> wf16 ind = true -> wf16 (stringify_at num print_num gap ind v) = true.
  Proof.
    intros v. induction v as [| b | x | s | vs IHvs | ms IHms] using jvalue_ind2; intros Hp gap ind Hg Hi;
      cbn [stringify_at].
    - reflexivity.
    - destruct b; reflexivity.
    - apply print_wf. exact Hp.
    - apply wf16_quote.
    - apply wf16_ser_array; auto; [now apply wf16_app|].
      pose proof (printable_arr num ok _ Hp) as Hpa.
      apply Forall_forall. intros t Ht. apply in_map_iff in Ht as (e & <- & He).
      rewrite Forall_forall in IHvs, Hpa. apply IHvs; auto. now apply wf16_app.
    - apply wf16_ser_object; auto; [now apply wf16_app|].
      pose proof (printable_obj num ok _ Hp) as Hpa.
      apply Forall_forall. intros t Ht. apply in_map_iff in Ht as (kv & <- & He).
      apply wf16_ser_member. rewrite Forall_forall in IHms, Hpa. apply IHms; auto. now apply wf16_app.
  Qed.

  Lemma wf16_stringify gap v : printable num ok v = true -> wf16 gap = true ->
    wf16 (stringify num print_num gap v) = true.
  Proof. intros Hp Hg. unfold stringify. now apply wf16_stringify_at. Qed.

  (* the same for the JS value JSON.stringify is handed (undefined / non-finite members included) *)
  Lemma wf16_serialize gap (x : jsv num) (j : jvalue num) t :
    to_json num x = Some j -> printable num ok j = true -> wf16 gap = true ->
    serialize num print_num gap x = Some t -> wf16 t = true.
  Proof.
    intros Hj Hp Hg. unfold serialize. rewrite serialize_to_json, Hj. cbn [option_map].
    intros H. injection H as <-. now apply wf16_stringify_at.
  Qed.
End WF.

(* instance of the correspondence: numbers are number tokens *)
Lemma wf16_stringify_tok gap (v : jvalue (list N)) :
  printable (list N) number_token v = true -> wf16 gap = true ->
  wf16 (stringify (list N) print_tok gap v) = true.
Proof. apply wf16_stringify. intros x Hx. now apply number_token_wf16. Qed.

(* gaps computed from a Number are spaces *)
Lemma wf16_gap_num z : wf16 (gap_of_space (SpNum z)) = true.
Proof.
  apply wf16_ascii. cbn [gap_of_space]. destruct (z <? 1)%Z; [reflexivity|].
  induction (Z.to_nat (Z.min 10 z)) as [|n IH]; [reflexivity|]. cbn [repeat forallb]. now rewrite IH.
Qed.

(* a gap taken from a String argument cuts after 10 code units and can split a surrogate pair:
   stringify is then not well-formed (and the specification says so too) *)
Lemma gap_can_split_pair :
  wf16 (repeat 32 9 ++ [55357; 56832]) = true /\
  wf16 (gap_of_space (SpStr (repeat 32 9 ++ [55357; 56832]))) = false.
Proof. vm_compute. split; reflexivity. Qed.
