(* C01: the host entry point.  [run_call] runs the script and then calls the global function [main]
   with no arguments and this = undefined, the way the embedding host does.  [host_call_eq_script_expr]
   relates that call to evaluating the call expression  main()  as script code in the same state. *)
From Coq Require Import ZArith NArith PArith List Bool String Arith Lia.
From JSRef Require Import Float Syntax Values Static Ops Promises Interp Machine Builtins Run.
From C01 Require Import Proofs_C01.
Import ListNotations.
Open Scope m_scope.

Definition s_main : str := S "main".

(* look up global [main]; call it when callable *)
Definition call_main (self : ops) : M value :=
  do f <- o_get self L_Global (KStr s_main) (VObj L_Global);;
  do st <- get_state;;
  if is_callable st f then o_call self f VUndef [] else ret VUndef.

Definition call_comp (P : prog) (self : ops) : M value :=
  let c := global_ctx (p_strict P) in
  then_drain self
   (do _ <- global_declaration_instantiation P self (p_body P) c;;
    do r <- o_run self (script_frames P) (CNormal None) c;;
    match r with
    | MDone (CNormal _) => call_main self
    | MDone (CThrow v) => throwv v
    | MDone (CReturn v) => ret v
    | MDone _ => ret VUndef
    | _ => unsupported 990%N
    end).

Definition run_call_script (fuel : nat) (P : prog) (st0 : state) : outcome :=
  outcome_of (call_comp P (mk P fuel) st0).

Definition run_call (fuel : nat) (P : prog) : outcome :=
  match init_state with
  | Some st0 => run_call_script fuel P st0
  | None => OInitFailed
  end.

(* ---- fuel monotonicity carries over to the host entry point *)
Lemma call_main_mono : forall s s', ops_le s s' -> mle (call_main s) (call_main s').
Proof. mono_def call_main. Qed.
#[export] Hint Resolve call_main_mono : mono.

Lemma call_comp_mono : forall P s s', ops_le s s' -> mle (call_comp P s) (call_comp P s').
Proof. mono_def call_comp. Qed.

#[local] Opaque init_state.

Lemma run_call_fuel_mono : forall n P o, run_call n P = o -> o <> OFuel -> forall k, run_call (n + k) P = o.
Proof.
  intros n P o. unfold run_call. generalize init_state. intros i Ho Hnf k.
  destruct i as [st0|]; [|exact Ho].
  unfold run_call_script in *. subst o.
  assert (E : call_comp P (mk P (n + k)) st0 = call_comp P (mk P n) st0).
  { apply (call_comp_mono P _ _ (mk_mono P n k)). apply outcome_of_fuel. exact Hnf. }
  rewrite E. reflexivity.
Qed.

(* ---- the call expression  main()  evaluated as script code *)
Definition main_call_expr : expr := ECall (EId s_main) [] false.

(* the state is a global scope in which [main] resolves to an own data property [f] of the global object *)
Record main_is_global_data (st : state) (f : value) : Prop := {
  mg_decl : exists bs t fo nt,
      get_env st E_GlobalDecl = Some {| e_rec := EDecl bs; e_outer := Some E_GlobalObj; e_this := t; e_fobj := fo; e_newtarget := nt |}
      /\ find_binding s_main bs = None;
  mg_obj : exists o t fo nt,
      get_env st E_GlobalObj = Some {| e_rec := EObj L_Global false; e_outer := o; e_this := t; e_fobj := fo; e_newtarget := nt |};
  mg_prop : exists go w e c, get_obj st L_Global = Some go /\ get_own go (KStr s_main) = Some (PData f w e c);
}.

Lemma big_fuel : exists k, LOOP_FUEL = Datatypes.S (Datatypes.S k).
Proof.
  assert (H : (2 <= LOOP_FUEL)%nat) by (apply Nat.leb_le; vm_compute; reflexivity).
  destruct LOOP_FUEL as [|[|k]]; [lia | lia | exists k; reflexivity].
Qed.

Lemma chain_fuel_pos : exists k, CHAIN_FUEL = Datatypes.S k.
Proof.
  assert (H : (1 <= CHAIN_FUEL)%nat) by (apply Nat.leb_le; vm_compute; reflexivity).
  destruct CHAIN_FUEL as [|k]; [lia | exists k; reflexivity].
Qed.

Lemma lookup_own : forall st l k o p, get_obj st l = Some o -> get_own o k = Some p ->
  lookup_chain CHAIN_FUEL st l k = Some (p, l).
Proof.
  intros st l k o p Ho Hp. destruct chain_fuel_pos as [n ->]. cbn [lookup_chain]. rewrite Ho, Hp. reflexivity.
Qed.

Lemma bind_ok : forall {A B} (m : M A) (f : A -> M B) st a st', m st = ROk a st' -> bind m f st = f a st'.
Proof. intros A B m f st a st' H. unfold bind. rewrite H. reflexivity. Qed.

Section HostCall.
  Variables (P : prog) (self : ops) (strict : bool) (st : state) (f : value).
  Hypothesis Hg : main_is_global_data st f.
  Hypothesis Hcallable : is_callable st f = true.
  (* the one property of [self] that is used: [[Get]] of an own data property returns its value *)
  Hypothesis Hget : o_get self L_Global (KStr s_main) (VObj L_Global) st = ROk f st.

  Lemma has_main_property : has_property st L_Global (KStr s_main) = true.
  Proof.
    destruct (mg_prop _ _ Hg) as (go & w & e & c & Ho & Hp).
    unfold has_property. rewrite (lookup_own _ _ _ _ _ Ho Hp). reflexivity.
  Qed.

  Lemma has_binding_decl : has_binding self E_GlobalDecl s_main st = ROk false st.
  Proof.
    destruct (mg_decl _ _ Hg) as (bs & t & fo & nt & He & Hf).
    unfold has_binding, the_env. unfold bind at 1. rewrite He. cbn [e_rec]. rewrite Hf. reflexivity.
  Qed.

  Lemma has_binding_obj : has_binding self E_GlobalObj s_main st = ROk true st.
  Proof.
    destruct (mg_obj _ _ Hg) as (o & t & fo & nt & He).
    unfold has_binding, the_env. unfold bind at 1. rewrite He. cbn [e_rec].
    unfold bind at 1. unfold get_state. rewrite has_main_property. reflexivity.
  Qed.

  Lemma resolve_main : resolve_binding self (global_ctx strict) s_main st = ROk (RBEnv E_GlobalObj) st.
  Proof.
    destruct (mg_decl _ _ Hg) as (bs & t & fo & nt & He & Hf).
    unfold resolve_binding. destruct big_fuel as [k Hk]. rewrite Hk.
    change (c_lex (global_ctx strict)) with E_GlobalDecl.
    cbv beta iota zeta.
    rewrite (bind_ok _ _ _ _ _ has_binding_decl). cbv beta iota.
    erewrite bind_ok by (unfold the_env; rewrite He; reflexivity).
    cbn [e_outer]. cbv beta iota.
    rewrite (bind_ok _ _ _ _ _ has_binding_obj). reflexivity.
  Qed.

  Lemma get_main_binding : get_binding_value self E_GlobalObj s_main strict st = ROk f st.
  Proof.
    destruct (mg_obj _ _ Hg) as (o & t & fo & nt & He).
    unfold get_binding_value.
    erewrite bind_ok by (unfold the_env; rewrite He; reflexivity).
    cbn [e_rec]. cbv beta iota.
    erewrite bind_ok by (unfold get_state; reflexivity).
    cbv beta. rewrite has_main_property. exact Hget.
  Qed.

  Lemma eval_main_call_generic :
    eval_step P self (global_ctx strict) main_call_expr st = o_call self f VUndef [] st.
  Proof.
    destruct (mg_obj _ _ Hg) as (o & t & fo & nt & He).
    unfold main_call_expr, eval_step. cbv beta iota.
    unfold eval_callee. cbv beta iota.
    erewrite bind_ok; cycle 1.
    { erewrite bind_ok by exact resolve_main. cbv beta iota.
      change (c_strict (global_ctx strict)) with strict.
      erewrite bind_ok by exact get_main_binding.
      erewrite bind_ok by (unfold the_env; rewrite He; reflexivity).
      cbn [e_rec]. reflexivity. }
    cbv beta iota. cbn [andb].
    unfold eval_args. cbv beta iota.
    erewrite bind_ok by reflexivity.
    erewrite bind_ok by (unfold get_state; reflexivity).
    cbv beta. rewrite Hcallable. reflexivity.
  Qed.
End HostCall.

(* [[Get]] of the knot at positive fuel, on an own data property *)
Lemma mk_get_own_data : forall P n st l k o v w e c,
  get_obj st l = Some o -> get_own o k = Some (PData v w e c) ->
  o_get (mk P (Datatypes.S n)) l k (VObj l) st = ROk v st.
Proof.
  intros P n st l k o v w e c Ho Hp.
  change (o_get (mk P (Datatypes.S n)) l k (VObj l) st) with (get_step (mk P n) l k (VObj l) st).
  unfold get_step. unfold bind, get_state. rewrite (lookup_own _ _ _ _ _ Ho Hp). reflexivity.
Qed.

Lemma host_call_eq_script_expr_lemma : forall P n strict st f,
  main_is_global_data st f -> is_callable st f = true ->
  eval_step P (mk P (Datatypes.S n)) (global_ctx strict) main_call_expr st
  = o_call (mk P (Datatypes.S n)) f VUndef [] st.
Proof.
  intros P n strict st f Hg Hc.
  apply eval_main_call_generic; try assumption.
  destruct (mg_prop _ _ Hg) as (go & w & e & c & Ho & Hp).
  exact (mk_get_own_data P n st L_Global (KStr s_main) go f w e c Ho Hp).
Qed.

(* as script code: the expression is evaluated through [o_eval], one level of fuel above *)
Lemma host_call_eq_script_eval_lemma : forall P n strict st f,
  main_is_global_data st f -> is_callable st f = true ->
  o_eval (mk P (Datatypes.S (Datatypes.S n))) (global_ctx strict) main_call_expr st
  = o_call (mk P (Datatypes.S n)) f VUndef [] st.
Proof.
  intros P n strict st f Hg Hc.
  change (o_eval (mk P (Datatypes.S (Datatypes.S n))) (global_ctx strict) main_call_expr st)
    with (eval_step P (mk P (Datatypes.S n)) (global_ctx strict) main_call_expr st).
  apply host_call_eq_script_expr_lemma; assumption.
Qed.

(* the host's own lookup-and-call, in the same state *)
Lemma call_main_eq_lemma : forall P n st f,
  main_is_global_data st f -> is_callable st f = true ->
  call_main (mk P (Datatypes.S n)) st = o_call (mk P (Datatypes.S n)) f VUndef [] st.
Proof.
  intros P n st f Hg Hc.
  destruct (mg_prop _ _ Hg) as (go & w & e & c & Ho & Hp).
  unfold call_main.
  erewrite bind_ok by exact (mk_get_own_data P n st L_Global (KStr s_main) go f w e c Ho Hp).
  erewrite bind_ok by (unfold get_state; reflexivity).
  cbv beta. rewrite Hc. reflexivity.
Qed.

(* hence: what the host does after the script equals evaluating  main()  as script code *)
Lemma call_main_eq_script_expr_lemma : forall P n strict st f,
  main_is_global_data st f -> is_callable st f = true ->
  call_main (mk P (Datatypes.S n)) st
  = eval_step P (mk P (Datatypes.S n)) (global_ctx strict) main_call_expr st.
Proof.
  intros P n strict st f Hg Hc.
  rewrite (call_main_eq_lemma P n st f Hg Hc).
  symmetry. apply host_call_eq_script_expr_lemma; assumption.
Qed.
