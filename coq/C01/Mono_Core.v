(* Fuel monotonicity of JSRef: the order on computations, generic lemmas and the [mono] tactic.

   [mle m m'] : wherever [m] gives an answer other than "out of fuel", [m'] gives the same answer.
   [ops_le s s'] : the eight re-entrant operations of [s'] refine those of [s] in that sense.

   The tactic [mono] proves goals [mle (F s) (F s')] where both sides have the same syntactic
   structure and differ only in the occurrences of [s] / [s']; it is purely structural, so it does
   not depend on the number or the shape of the cases of the JSRef definitions. *)
From Coq Require Import ZArith NArith PArith List Bool.
From JSRef Require Import Float Syntax Values Static Ops.
Import ListNotations.

Definition mle {A} (m m' : M A) : Prop := forall st, m st <> RFuel -> m' st = m st.

Record ops_le (s s' : ops) : Prop := {
  le_eval : forall c e, mle (o_eval s c e) (o_eval s' c e);
  le_run : forall k comp c, mle (o_run s k comp c) (o_run s' k comp c);
  le_call : forall f t a, mle (o_call s f t a) (o_call s' f t a);
  le_construct : forall f a nt, mle (o_construct s f a nt) (o_construct s' f a nt);
  le_get : forall l k r, mle (o_get s l k r) (o_get s' l k r);
  le_set : forall l k v r, mle (o_set s l k v r) (o_set s' l k v r);
  le_toprim : forall v h, mle (o_toprim s v h) (o_toprim s' v h);
  le_bind : forall c p v m, mle (o_bind s c p v m) (o_bind s' c p v m);
}.

Lemma mle_refl {A} (m : M A) : mle m m.
Proof. intros st _. reflexivity. Qed.

Lemma mle_trans {A} (a b c : M A) : mle a b -> mle b c -> mle a c.
Proof.
  intros H1 H2 st Hn. pose proof (H1 st Hn) as E1.
  rewrite <- E1. apply H2. rewrite E1. exact Hn.
Qed.

Lemma ops_le_refl s : ops_le s s.
Proof. constructor; intros; apply mle_refl. Qed.

Lemma ops_le_trans a b c : ops_le a b -> ops_le b c -> ops_le a c.
Proof.
  intros [] []. constructor; intros; eapply mle_trans; eauto.
Qed.

Lemma mle_bind {A B} (m m' : M A) (f f' : A -> M B) :
  mle m m' -> (forall a, mle (f a) (f' a)) -> mle (bind m f) (bind m' f').
Proof.
  intros Hm Hf st Hn. unfold bind in *.
  pose proof (Hm st) as E. destruct (m st) eqn:Em.
  - rewrite E by discriminate. apply Hf. exact Hn.
  - rewrite E by discriminate. reflexivity.
  - exfalso. apply Hn. reflexivity.
  - rewrite E by discriminate. reflexivity.
Qed.

Lemma mle_catchm {A} (m m' : M A) (h h' : value -> M A) :
  mle m m' -> (forall v, mle (h v) (h' v)) -> mle (catchm m h) (catchm m' h').
Proof.
  intros Hm Hh st Hn. unfold catchm in *.
  pose proof (Hm st) as E. destruct (m st) eqn:Em.
  - rewrite E by discriminate. reflexivity.
  - rewrite E by discriminate. apply Hh. exact Hn.
  - exfalso. apply Hn. reflexivity.
  - rewrite E by discriminate. reflexivity.
Qed.

(* entering / leaving the pointwise view *)
Lemma mle_app {A} (m m' : M A) (st : state) : mle m m' -> m st <> RFuel -> m' st = m st.
Proof. intros H. apply H. Qed.

Create HintDb mono discriminated.
#[export] Hint Resolve le_eval le_run le_call le_construct le_get le_set le_toprim le_bind : mono.

(* ------------------------------------------------------------------------------------------ *)
Ltac head_of t := lazymatch t with ?f _ => head_of f | _ => t end.

(* delta-unfold only the head constant of an application *)
Ltac unfold_head t :=
  lazymatch t with
  | ?f ?a => let f' := unfold_head f in constr:(f' a)
  | _ => let r := eval cbv delta [t] in t in r
  end.

Ltac mnorm := cbv beta iota zeta in *.

(* destruct the scrutinee [x]; when it is not a variable it is first abstracted everywhere, so that
   induction hypotheses mentioning it stay in step with the goal *)
Ltac mono_destruct x :=
  first
    [ is_var x; destruct x
    | let v := fresh "scr" in let E := fresh "Escr" in
      remember x as v eqn:E in *; clear E; destruct v ].

Ltac mono_leaf := solve [ eauto 3 with mono nocore ].

(* [mono] : goals [mle L R].  [mono_pt] : goals [R = L] under a hypothesis [Hnf : L <> RFuel]
   (the pointwise view, used for code written directly as [fun st => match m st with ...]). *)
Ltac mono :=
  mnorm;
  lazymatch goal with
  | |- forall _, _ => intro; mono
  | |- mle ?L ?R =>
      first
        [ constr_eq L R; exact (mle_refl L)
        | mono_struct L R
        | fail 1 "mono: stuck on" L ]
  end
with mono_struct L R :=
  let h := head_of L in
  lazymatch h with
  | @bind => apply mle_bind; [ mono | intro; mono ]
  | @catchm => apply mle_catchm; [ mono | intro; mono ]
  | match ?x with _ => _ end =>
      let h' := head_of R in
      lazymatch h' with
      | match ?x' with _ => _ end =>
          first [ constr_eq x x' | fail 2 "mono: scrutinees differ" x x' ];
          mono_destruct x; mono
      end
  | (fun _ => _) =>
      let st := fresh "st" in let Hnf := fresh "Hnf" in
      unfold mle; intros st Hnf; cbv beta in Hnf |- *; mono_pt Hnf
  | _ =>
      first
        [ is_fix h; first [ mono_leaf | mono_fix ]
        | mono_leaf
        | is_const h;
          let L' := unfold_head L in
          let R' := unfold_head R in
          change (mle L' R'); mono ]
  end
with mono_fix :=
  (* generalise the arguments of the local fixpoint and prove the statement by induction on its
     structural argument (tried in turn) *)
  match goal with
  | |- mle (?F ?a ?b ?c ?d ?e ?g) (?F' ?a ?b ?c ?d ?e ?g) =>
      is_fix F;
      let H := fresh "Hfix" in
      enough (H : forall x y z w u v, mle (F x y z w u v) (F' x y z w u v)) by (apply H);
      mono_fix_ind
  | |- mle (?F ?a ?b ?c ?d ?e) (?F' ?a ?b ?c ?d ?e) =>
      is_fix F;
      let H := fresh "Hfix" in
      enough (H : forall x y z w u, mle (F x y z w u) (F' x y z w u)) by (apply H);
      mono_fix_ind
  | |- mle (?F ?a ?b ?c ?d) (?F' ?a ?b ?c ?d) =>
      is_fix F;
      let H := fresh "Hfix" in
      enough (H : forall x y z w, mle (F x y z w) (F' x y z w)) by (apply H);
      mono_fix_ind
  | |- mle (?F ?a ?b ?c) (?F' ?a ?b ?c) =>
      is_fix F;
      let H := fresh "Hfix" in
      enough (H : forall x y z, mle (F x y z) (F' x y z)) by (apply H);
      mono_fix_ind
  | |- mle (?F ?a ?b) (?F' ?a ?b) =>
      is_fix F;
      let H := fresh "Hfix" in
      enough (H : forall x y, mle (F x y) (F' x y)) by (apply H);
      mono_fix_ind
  | |- mle (?F ?a) (?F' ?a) =>
      is_fix F;
      let H := fresh "Hfix" in
      enough (H : forall x, mle (F x) (F' x)) by (apply H);
      mono_fix_ind
  end
with mono_fix_ind :=
  first
    [ solve [ let x := fresh "x" in intro x; induction x; intros; mono ]
    | solve [ let x := fresh "x" in let y := fresh "y" in
              intros x y; revert x; induction y; intros; mono ]
    | solve [ let x := fresh "x" in let y := fresh "y" in let z := fresh "z" in
              intros x y z; revert x y; induction z; intros; mono ] ]
with mono_pt Hnf :=
  cbv beta iota zeta in Hnf |- *;
  lazymatch goal with
  | |- ?R = ?L =>
      first
        [ constr_eq L R; reflexivity
        | lazymatch L with
          | RFuel => exfalso; apply Hnf; reflexivity
          | match ?X with _ => _ end =>
              lazymatch R with
              | match ?X' with _ => _ end =>
                  first
                    [ (* same scrutinee: plain case analysis *)
                      constr_eq X X'; revert Hnf;
                      mono_destruct X; intros Hnf; mono_pt Hnf
                    | (* the scrutinee is a sub-computation run in the current state *)
                      lazymatch X with
                      | ?m ?s =>
                          lazymatch X' with
                          | ?m' ?s' =>
                              constr_eq s s';
                              let HX := fresh "HX" in
                              assert (HX : mle m m') by mono;
                              let HX' := fresh "HXs" in
                              pose proof (HX s) as HX'; clear HX;
                              revert Hnf HX';
                              let r := fresh "r" in
                              generalize (m s); intros r; destruct r; intros Hnf HX';
                              cbv beta iota zeta in Hnf |- *;
                              first
                                [ exfalso; apply Hnf; reflexivity
                                | let E := fresh "E" in
                                  assert (E : m' s = _) by (apply HX'; discriminate);
                                  rewrite E; clear E HX'; mono_pt Hnf ]
                          end
                      end ]
              end
          | ?K ?s =>
              lazymatch R with
              | ?K' ?s' => constr_eq s s'; refine ((_ : mle K K') s Hnf); mono
              end
          end
        | fail 1 "mono_pt: stuck on" L ]
  end.

(* standard opening of a per-definition lemma *)
Ltac mono_def f := intros; unfold f; mono.

(* ------------------------------------------------------------------------------------------ *)
(* self tests of the tactic on the shapes that occur in JSRef *)
Section SelfTest.
  Variables (s s' : ops) (Hle : ops_le s s').

  Goal forall v, mle (do x <- o_toprim s v 1%N;; match x with VUndef => ret x | _ => o_toprim s x 2%N end)
                     (do x <- o_toprim s' v 1%N;; match x with VUndef => ret x | _ => o_toprim s' x 2%N end).
  Proof. mono. Qed.

  Goal forall (l : list value),
      mle ((fix go (l : list value) (acc : list value) : M (list value) :=
              match l with [] => ret (rev acc) | v :: t => do p <- o_toprim s v 1%N;; go t (p :: acc) end) l [])
          ((fix go (l : list value) (acc : list value) : M (list value) :=
              match l with [] => ret (rev acc) | v :: t => do p <- o_toprim s' v 1%N;; go t (p :: acc) end) l []).
  Proof. mono. Qed.

  Goal forall v : value,
      mle (fun st => match (do p <- o_toprim s v 1%N;; ret tt) st with
                     | ROk _ st' => ROk tt st' | RThrow _ st' => (do _ <- o_toprim s v 2%N;; ret tt) st'
                     | RFuel => RFuel | RUnsupported c => RUnsupported c end)
          (fun st => match (do p <- o_toprim s' v 1%N;; ret tt) st with
                     | ROk _ st' => ROk tt st' | RThrow _ st' => (do _ <- o_toprim s' v 2%N;; ret tt) st'
                     | RFuel => RFuel | RUnsupported c => RUnsupported c end).
  Proof. mono. Qed.

  (* a computation that turns "out of fuel" into an answer is (rightly) rejected *)
  Goal forall v : value,
      mle (fun st => match o_toprim s v 1%N st with
                     | ROk _ st' => ROk tt st' | RThrow _ st' => ROk tt st' | RFuel => ROk tt st | RUnsupported c => RUnsupported c end)
          (fun st => match o_toprim s' v 1%N st with
                     | ROk _ st' => ROk tt st' | RThrow _ st' => ROk tt st' | RFuel => ROk tt st | RUnsupported c => RUnsupported c end).
  Proof. Fail mono. Abort.
End SelfTest.
