(* C01 deepening: boa's lowering of try/finally with break / return routed through finally blocks
   (core/engine/src/bytecompiler/jump_control.rs: JumpRecord actions HandleFinally + Transfer, the per-try
   `finally_jump_index` register, the JumpTable emitted by pop_try_with_finally_control_info), in miniature.

   Source: emit / sequence / labelled block / break l / return / try-finally, with the direct (completion) semantics.
   Target: structured code in which a jump is a [TSend i k] = "store k into the index register of the i-th enclosing
   control info and jump to it" (HandleFinally + Transfer; k = 0 for a label target), a try region carries its finally
   code and the jump table (entry j continues jump record j), and [run] is what the VM does with plain jumps: a jump that
   crosses a try region without having been routed to it simply skips the finally code.
   [compile] transliterates the repaired algorithm (the table index of a record is the length of the receiving info's jump
   list at the moment the record is transferred to it); [compile_stale] is the algorithm before fix commit 61e708b (the
   index of every crossed try is captured when the jump statement is compiled).
   compile_correct: for every well-labelled program, running the compiled code = the direct semantics.
   compile_stale_refuted: the old algorithm miscompiles a concrete program (the C03 finding). *)
From Coq Require Import List Arith Bool Lia.
Import ListNotations.

Module FinallyLowering.

Inductive stmt :=
| Emit (n : nat) | Seq (a b : stmt) | Block (l : nat) (s : stmt) | Break (l : nat) | Ret | TryF (b f : stmt).

Inductive comp := Normal | Brk (l : nat) | Return.

Fixpoint exec (s : stmt) : list nat * comp :=
  match s with
  | Emit n => ([n], Normal)
  | Seq a b => let '(t1, c1) := exec a in
               match c1 with Normal => let '(t2, c2) := exec b in (t1 ++ t2, c2) | _ => (t1, c1) end
  | Block l s => let '(t, c) := exec s in
                 (t, match c with Brk l' => if Nat.eqb l l' then Normal else c | _ => c end)
  | Break l => ([], Brk l)
  | Ret => ([], Return)
  | TryF b f => let '(t1, c1) := exec b in let '(t2, c2) := exec f in
                (t1 ++ t2, match c2 with Normal => c1 | _ => c2 end)
  end.

(* ---- target *)
Inductive tcode :=
| TEmit (n : nat) | TSeq (a b : tcode) | TLabel (b : tcode)
| TTry (b f : tcode) (table : list tcode)
| TSend (i k : nat) | TRet.

Inductive outcome := Fall | Sent (i k : nat) | Returned | Stuck.

Fixpoint run (c : tcode) : list nat * outcome :=
  match c with
  | TEmit n => ([n], Fall)
  | TSeq a b => let '(t1, o1) := run a in
                match o1 with Fall => let '(t2, o2) := run b in (t1 ++ t2, o2) | _ => (t1, o1) end
  | TLabel b => let '(t, o) := run b in
                (t, match o with Sent O _ => Fall | Sent (S i) k => Sent i k | _ => o end)
  | TTry b f table =>
      let pick := fix pick (l : list tcode) (k : nat) : option (list nat * outcome) :=
                    match l, k with
                    | x :: _, O => Some (run x)
                    | _ :: t, S k' => pick t k'
                    | [], _ => None end in
      let '(t1, o1) := run b in
      match o1 with
      | Fall => let '(t2, o2) := run f in (t1 ++ t2, o2)                (* index register 0: fall through the table *)
      | Sent O (S k) =>
          let '(t2, o2) := run f in
          match o2 with
          | Fall => match pick table k with Some (t3, o3) => (t1 ++ t2 ++ t3, o3) | None => (t1 ++ t2, Stuck) end
          | _ => (t1 ++ t2, o2) end
      | Sent O O => (t1, Stuck)
      | Sent (S i) k => (t1, Sent i k)                                   (* a plain jump over the region: finally skipped *)
      | _ => (t1, o1)
      end
  | TSend i k => ([], Sent i k)
  | TRet => ([], Returned)
  end.

(* ---- the compiler: control infos (innermost first) and their jump lists *)
Inductive info := ILabel (l : nat) | ITry.
Inductive jrec := RBreak (l : nat) | RReturn.
Definition jrec_eqb (a b : jrec) : bool :=
  match a, b with RBreak x, RBreak y => Nat.eqb x y | RReturn, RReturn => true | _, _ => false end.

Inductive dest := ToLabel (i : nat) | ToTry (i : nat) | NoDest.

(* the first info (from the inside) that receives the record: a try region, or the label it names *)
Fixpoint find_dest (ctx : list info) (r : jrec) (i : nat) : dest :=
  match ctx with
  | [] => NoDest
  | ITry :: _ => ToTry i
  | ILabel l :: t => match r with
                     | RBreak l' => if Nat.eqb l l' then ToLabel i else find_dest t r (S i)
                     | RReturn => find_dest t r (S i) end
  end.

Fixpoint push_at {A} (i : nat) (x : A) (st : list (list A)) : list (list A) :=
  match st, i with
  | l :: t, O => (l ++ [x]) :: t
  | l :: t, S i' => l :: push_at i' x t
  | [], _ => []
  end.

(* perform_actions of a jump record in context ctx: one instruction, and the record is appended to the receiver's list *)
Definition route (ctx : list info) (st : list (list jrec)) (r : jrec) : tcode * list (list jrec) :=
  match find_dest ctx r 0 with
  | ToLabel i => (TSend i 0, st)
  | ToTry i => (TSend i (S (length (nth i st []))), push_at i r st)
  | NoDest => (TRet, st)
  end.

Fixpoint route_all (ctx : list info) (st : list (list jrec)) (js : list jrec) : list tcode * list (list jrec) :=
  match js with
  | [] => ([], st)
  | r :: t => let '(c, st1) := route ctx st r in let '(cs, st2) := route_all ctx st1 t in (c :: cs, st2)
  end.

Fixpoint compile (ctx : list info) (st : list (list jrec)) (s : stmt) : tcode * list (list jrec) :=
  match s with
  | Emit n => (TEmit n, st)
  | Seq a b => let '(ca, st1) := compile ctx st a in let '(cb, st2) := compile ctx st1 b in (TSeq ca cb, st2)
  | Block l b => let '(cb, st1) := compile (ILabel l :: ctx) ([] :: st) b in (TLabel cb, tl st1)
  | Break l => route ctx st (RBreak l)
  | Ret => route ctx st RReturn
  | TryF b f =>
      let '(cb, st1) := compile (ITry :: ctx) ([] :: st) b in
      let js := hd [] st1 in
      (* the finally block is compiled while the try's info is flagged IN_FINALLY: jumps inside it ignore that info *)
      let '(cf, st2) := compile ctx (tl st1) f in
      let '(table, st3) := route_all ctx st2 js in
      (TTry cb cf table, st3)
  end.

Fixpoint wf (labels : list nat) (s : stmt) : bool :=
  match s with
  | Emit _ | Ret => true
  | Seq a b => wf labels a && wf labels b
  | Block l b => wf (l :: labels) b
  | Break l => existsb (Nat.eqb l) labels
  | TryF b f => wf labels b && wf labels f
  end.

Definition labels_of (ctx : list info) : list nat :=
  flat_map (fun i => match i with ILabel l => [l] | ITry => [] end) ctx.

(* ---- correctness *)
(* st' extends st: same infos, every jump list extended at the end *)
Inductive ext : list (list jrec) -> list (list jrec) -> Prop :=
| ext_nil : ext [] []
| ext_cons : forall l l' t t' more, l' = l ++ more -> ext t t' -> ext (l :: t) (l' :: t').

Lemma ext_refl : forall st, ext st st.
Proof.
  induction st as [|a t IH]; [constructor|].
  apply (ext_cons a a t t []); [symmetry; apply app_nil_r | exact IH].
Qed.

Lemma ext_trans : forall a b c, ext a b -> ext b c -> ext a c.
Proof.
  intros a b c H. revert c. induction H; intros c Hc; inversion Hc; subst.
  - constructor.
  - econstructor; [|eauto]. rewrite <- app_assoc. reflexivity.
Qed.

Lemma ext_length : forall a b, ext a b -> length a = length b.
Proof. induction 1; simpl; auto. Qed.

Lemma ext_nth : forall a b, ext a b -> forall i k r, nth_error (nth i a []) k = Some r -> nth_error (nth i b []) k = Some r.
Proof.
  induction 1; intros i k r Hn; [exact Hn|].
  destruct i; simpl in *.
  - subst. rewrite nth_error_app1; auto. apply nth_error_Some. congruence.
  - eauto.
Qed.

Lemma ext_tl : forall a b, ext a b -> ext (tl a) (tl b).
Proof. destruct 1; simpl; auto. constructor. Qed.

Lemma push_at_ext : forall i (r : jrec) st, ext st (push_at i r st).
Proof.
  induction i; intros r [|l t]; simpl; try constructor.
  - econstructor; [reflexivity | apply ext_refl].
  - econstructor; [exact (eq_sym (app_nil_r l)) | apply IHi].
Qed.

Lemma push_at_nth : forall i (r : jrec) st, i < length st ->
  nth_error (nth i (push_at i r st) []) (length (nth i st [])) = Some r.
Proof.
  induction i; intros r [|l t] Hl; simpl in *; try lia.
  - rewrite nth_error_app2 by lia. rewrite Nat.sub_diag. reflexivity.
  - apply IHi. lia.
Qed.

(* what a non-normal completion looks like on the target side, relative to ctx and the jump lists *)
Definition routed (ctx : list info) (st : list (list jrec)) (r : jrec) (o : outcome) : Prop :=
  match find_dest ctx r 0 with
  | ToLabel i => o = Sent i 0
  | ToTry i => exists k, o = Sent i (S k) /\ nth_error (nth i st []) k = Some r
  | NoDest => o = Returned /\ r = RReturn
  end.

Definition den (ctx : list info) (st : list (list jrec)) (c : comp) (o : outcome) : Prop :=
  match c with
  | Normal => o = Fall
  | Brk l => routed ctx st (RBreak l) o
  | Return => routed ctx st RReturn o
  end.

Lemma routed_ext : forall ctx st st' r o, ext st st' -> routed ctx st r o -> routed ctx st' r o.
Proof.
  unfold routed. intros ctx st st' r o He H. destruct (find_dest ctx r 0); auto.
  destruct H as (k & Ho & Hn). exists k. split; auto. eapply ext_nth; eauto.
Qed.

Lemma den_ext : forall ctx st st' c o, ext st st' -> den ctx st c o -> den ctx st' c o.
Proof. intros ctx st st' [] o He H; simpl in *; eauto using routed_ext. Qed.

Lemma routed_not_fall : forall ctx st r, ~ routed ctx st r Fall.
Proof.
  unfold routed. intros ctx st r H. destruct (find_dest ctx r 0).
  - discriminate. - destruct H as (k & Ho & _). discriminate. - destruct H; discriminate.
Qed.

Lemma find_dest_bound : forall ctx r i j, find_dest ctx r i = ToTry j -> i <= j < i + length ctx.
Proof.
  induction ctx as [|[l|] t IH]; intros r i j H; simpl in *.
  - discriminate.
  - destruct r as [l'|].
    + destruct (Nat.eqb l l'); [discriminate|]. apply IH in H. lia.
    + apply IH in H. lia.
  - inversion H. subst. lia.
Qed.

(* a break to a label in scope always has a destination *)
Lemma find_dest_label : forall ctx l i, existsb (Nat.eqb l) (labels_of ctx) = true -> find_dest ctx (RBreak l) i <> NoDest.
Proof.
  induction ctx as [|[l'|] t IH]; intros l i H; simpl in *.
  - discriminate.
  - destruct (Nat.eqb l' l) eqn:E; [discriminate|].
    rewrite Nat.eqb_sym in E. rewrite E in H. simpl in H. apply IH. exact H.
  - discriminate.
Qed.

Lemma route_ok : forall ctx st r c st', length st = length ctx ->
  (forall l, r = RBreak l -> existsb (Nat.eqb l) (labels_of ctx) = true) ->
  route ctx st r = (c, st') ->
  ext st st' /\ exists o, run c = ([], o) /\ routed ctx st' r o.
Proof.
  unfold route, routed. intros ctx st r c st' Hlen Hwf H.
  destruct (find_dest ctx r 0) eqn:E; inversion H; subst; clear H.
  - split; [apply ext_refl|]. eexists. split; [reflexivity|]. reflexivity.
  - split; [apply push_at_ext|]. eexists. split; [reflexivity|].
    eexists. split; [reflexivity|]. apply push_at_nth. apply find_dest_bound in E. lia.
  - split; [apply ext_refl|]. eexists. split; [reflexivity|]. split; [reflexivity|].
    destruct r as [l|]; [|reflexivity]. exfalso. exact (find_dest_label ctx l 0 (Hwf l eq_refl) E).
Qed.

Fixpoint pick (l : list tcode) (k : nat) : option (list nat * outcome) :=
  match l, k with
  | x :: _, O => Some (run x)
  | _ :: t, S k' => pick t k'
  | [], _ => None
  end.

Lemma route_all_ok : forall ctx js st tbl st', length st = length ctx ->
  (forall r l, In r js -> r = RBreak l -> existsb (Nat.eqb l) (labels_of ctx) = true) ->
  route_all ctx st js = (tbl, st') ->
  ext st st' /\
  forall k r, nth_error js k = Some r -> exists o, pick tbl k = Some ([], o) /\ routed ctx st' r o.
Proof.
  induction js as [|r t IH]; intros st tbl st' Hlen Hwf H; simpl in H.
  - inversion H; subst. split; [apply ext_refl|]. intros [|k] r' Hn; discriminate.
  - destruct (route ctx st r) as [c st1] eqn:E1. destruct (route_all ctx st1 t) as [cs st2] eqn:E2.
    inversion H; subst; clear H.
    destruct (route_ok ctx st r c st1 Hlen (fun l Hl => Hwf r l (or_introl eq_refl) Hl) E1) as (He1 & o1 & Hr1 & Hd1).
    assert (Hlen1 : length st1 = length ctx) by (rewrite <- (ext_length _ _ He1); exact Hlen).
    destruct (IH st1 cs st' Hlen1 (fun r' l Hin => Hwf r' l (or_intror Hin)) E2) as (He2 & Hall).
    split; [eapply ext_trans; eauto|].
    intros [|k] r' Hn; simpl in *.
    + inversion Hn; subst. exists o1. split; [rewrite Hr1; reflexivity|]. eapply routed_ext; eauto.
    + apply Hall. exact Hn.
Qed.

(* records in the jump lists only name labels that are in scope at the receiving info *)
Definition recs_ok (labels : list nat) (js : list jrec) : Prop :=
  forall r l, In r js -> r = RBreak l -> existsb (Nat.eqb l) labels = true.

Fixpoint st_ok (ctx : list info) (st : list (list jrec)) : Prop :=
  match ctx, st with
  | [], [] => True
  | _ :: ct, js :: stt => recs_ok (labels_of ct) js /\ st_ok ct stt
  | _, _ => False
  end.

Lemma st_ok_length : forall ctx st, st_ok ctx st -> length st = length ctx.
Proof.
  induction ctx as [|i ct IH]; intros [|js stt] H; simpl in *; try contradiction; auto.
  destruct H as [_ H]. f_equal. apply IH. exact H.
Qed.

Lemma run_TTry : forall b f table,
  run (TTry b f table) =
  let '(t1, o1) := run b in
  match o1 with
  | Fall => let '(t2, o2) := run f in (t1 ++ t2, o2)
  | Sent O (S k) =>
      let '(t2, o2) := run f in
      match o2 with
      | Fall => match pick table k with Some (t3, o3) => (t1 ++ t2 ++ t3, o3) | None => (t1 ++ t2, Stuck) end
      | _ => (t1 ++ t2, o2) end
  | Sent O O => (t1, Stuck)
  | Sent (S i) k => (t1, Sent i k)
  | _ => (t1, o1)
  end.
Proof. reflexivity. Qed.

Definition shift_dest (d : dest) : dest :=
  match d with ToLabel i => ToLabel (S i) | ToTry i => ToTry (S i) | NoDest => NoDest end.

Lemma find_dest_shift : forall ctx r i, find_dest ctx r (S i) = shift_dest (find_dest ctx r i).
Proof.
  induction ctx as [|[l|] t IH]; intros r i; simpl; auto.
  destruct r as [l'|]; [destruct (Nat.eqb l l')|]; auto.
Qed.

(* a break routed to the try at position j names a label that is in scope outside that try *)
Lemma find_dest_try_scope : forall ctx l i j,
  find_dest ctx (RBreak l) i = ToTry j ->
  existsb (Nat.eqb l) (labels_of ctx) = true ->
  existsb (Nat.eqb l) (labels_of (skipn (S (j - i)) ctx)) = true.
Proof.
  induction ctx as [|[l'|] t IH]; intros l i j H Hl; simpl in *.
  - discriminate.
  - destruct (Nat.eqb l' l) eqn:E; [discriminate|].
    rewrite Nat.eqb_sym in E. rewrite E in Hl. simpl in Hl.
    pose proof (find_dest_bound _ _ _ _ H) as Hb.
    specialize (IH l (S i) j H Hl).
    replace (j - i) with (S (j - S i)) by lia. exact IH.
  - inversion H; subst. rewrite Nat.sub_diag. simpl. exact Hl.
Qed.

Lemma push_at_st_ok : forall ctx st i r, st_ok ctx st ->
  (forall l, r = RBreak l -> existsb (Nat.eqb l) (labels_of (skipn (S i) ctx)) = true) ->
  st_ok ctx (push_at i r st).
Proof.
  induction ctx as [|inf ct IH]; intros [|js stt] i r H Hr; destruct i; simpl in *; try contradiction; auto.
  - destruct H as [Hj Hs]. split; [|exact Hs]. intros r' l Hin Hl. apply in_app_or in Hin. destruct Hin as [Hin|[Hin|[]]].
    + eapply Hj; eauto.
    + subst r'. apply Hr. exact Hl.
  - destruct H as [Hj Hs]. split; [exact Hj|]. apply IH; auto.
Qed.

Lemma route_st_ok : forall ctx st r c st', st_ok ctx st ->
  (forall l, r = RBreak l -> existsb (Nat.eqb l) (labels_of ctx) = true) ->
  route ctx st r = (c, st') -> st_ok ctx st'.
Proof.
  unfold route. intros ctx st r c st' Hs Hwf H.
  destruct (find_dest ctx r 0) eqn:E; inversion H; subst; auto.
  apply push_at_st_ok; auto. intros l Hl. subst r.
  pose proof (find_dest_try_scope ctx l 0 i E (Hwf l eq_refl)) as Hx. rewrite Nat.sub_0_r in Hx. exact Hx.
Qed.

Lemma route_all_st_ok : forall ctx js st tbl st', st_ok ctx st ->
  recs_ok (labels_of ctx) js -> route_all ctx st js = (tbl, st') -> st_ok ctx st'.
Proof.
  induction js as [|r t IH]; intros st tbl st' Hs Hr H; simpl in H.
  - inversion H; subst; auto.
  - destruct (route ctx st r) as [c st1] eqn:E1. destruct (route_all ctx st1 t) as [cs st2] eqn:E2.
    inversion H; subst; clear H.
    eapply IH; [| |exact E2].
    + eapply route_st_ok; [exact Hs| |exact E1]. intros l Hl. eapply Hr; [left; reflexivity|exact Hl].
    + intros r' l Hin Hl. eapply Hr; [right; exact Hin|exact Hl].
Qed.

Definition rec_of (c : comp) : jrec := match c with Brk l => RBreak l | _ => RReturn end.

Lemma den_routed : forall ctx st c o, c <> Normal -> den ctx st c o -> routed ctx st (rec_of c) o.
Proof. intros ctx st [] o Hn H; simpl in *; auto. congruence. Qed.

Lemma den_not_fall : forall ctx st c, c <> Normal -> ~ den ctx st c Fall.
Proof. intros ctx st c Hn H. eapply routed_not_fall. eapply den_routed; eauto. Qed.

Theorem compile_ok : forall s ctx st c st',
  st_ok ctx st -> wf (labels_of ctx) s = true -> compile ctx st s = (c, st') ->
  st_ok ctx st' /\ ext st st' /\
  exists o, run c = (fst (exec s), o) /\ den ctx st' (snd (exec s)) o.
Proof.
  induction s as [n|a IHa b IHb|l b IHb|l| |b IHb f IHf]; intros ctx st c st' Hs Hwf H; simpl in H.
  - inversion H; subst. split; [auto|]. split; [apply ext_refl|]. exists Fall. split; reflexivity.
  - simpl in Hwf. apply andb_prop in Hwf. destruct Hwf as [Hwa Hwb].
    destruct (compile ctx st a) as [ca st1] eqn:Ea. destruct (compile ctx st1 b) as [cb st2] eqn:Eb.
    inversion H; subst; clear H.
    destruct (IHa _ _ _ _ Hs Hwa Ea) as (Hs1 & He1 & o1 & Hr1 & Hd1).
    destruct (IHb _ _ _ _ Hs1 Hwb Eb) as (Hs2 & He2 & o2 & Hr2 & Hd2).
    split; [auto|]. split; [eapply ext_trans; eauto|].
    simpl. destruct (exec a) as [t1 c1]. destruct (exec b) as [t2 c2]. simpl in *.
    rewrite Hr1. destruct c1.
    + simpl in Hd1. subst o1. rewrite Hr2. exists o2. split; auto.
    + exists o1. assert (Hnf : o1 <> Fall) by (intro; subst; eapply den_not_fall; [|exact Hd1]; discriminate).
      split; [destruct o1; try reflexivity; congruence|]. eapply den_ext; eauto.
    + exists o1. assert (Hnf : o1 <> Fall) by (intro; subst; eapply den_not_fall; [|exact Hd1]; discriminate).
      split; [destruct o1; try reflexivity; congruence|]. eapply den_ext; eauto.
  - destruct (compile (ILabel l :: ctx) ([] :: st) b) as [cb st1] eqn:Eb. inversion H; subst; clear H.
    assert (Hs0 : st_ok (ILabel l :: ctx) ([] :: st)) by (simpl; split; [intros r l' []|exact Hs]).
    destruct (IHb _ _ _ _ Hs0 Hwf Eb) as (Hs1 & He1 & o1 & Hr1 & Hd1).
    destruct st1 as [|js stt]; [contradiction|]. destruct Hs1 as [Hj Hs1]. simpl.
    split; [exact Hs1|]. split; [exact (ext_tl _ _ He1)|].
    destruct (exec b) as [t cp]. simpl in *. rewrite Hr1.
    destruct cp as [|l'|]; simpl in *.
    + subst o1. exists Fall. split; reflexivity.
    + unfold routed in Hd1. simpl in Hd1. destruct (Nat.eqb l l') eqn:E.
      * subst o1. exists Fall. split; reflexivity.
      * rewrite find_dest_shift in Hd1. cbn [den]. unfold routed.
        destruct (find_dest ctx (RBreak l') 0) as [i|i|]; simpl in Hd1.
        -- subst o1. eexists. split; reflexivity.
        -- destruct Hd1 as (k & Ho & Hn). subst o1. eexists. split; [reflexivity|]. exists k. split; [reflexivity|exact Hn].
        -- destruct Hd1 as [Ho Hx]. discriminate.
    + unfold routed in Hd1. simpl in Hd1. rewrite find_dest_shift in Hd1. cbn [den]. unfold routed.
      destruct (find_dest ctx RReturn 0) as [i|i|]; simpl in Hd1.
      * subst o1. eexists. split; reflexivity.
      * destruct Hd1 as (k & Ho & Hn). subst o1. eexists. split; [reflexivity|]. exists k. split; [reflexivity|exact Hn].
      * destruct Hd1 as [Ho _]. subst o1. exists Returned. split; [reflexivity|]. split; reflexivity.
  - simpl in Hwf.
    assert (Hl : forall l0, RBreak l = RBreak l0 -> existsb (Nat.eqb l0) (labels_of ctx) = true) by (intros l0 E; inversion E; subst; exact Hwf).
    destruct (route_ok ctx st (RBreak l) c st' (st_ok_length _ _ Hs) Hl H) as (He & o & Hr & Hd).
    split; [eapply route_st_ok; eauto|]. split; [exact He|]. exists o. split; [exact Hr|exact Hd].
  - assert (Hl : forall l0, RReturn = RBreak l0 -> existsb (Nat.eqb l0) (labels_of ctx) = true) by (intros l0 E; discriminate).
    destruct (route_ok ctx st RReturn c st' (st_ok_length _ _ Hs) Hl H) as (He & o & Hr & Hd).
    split; [eapply route_st_ok; eauto|]. split; [exact He|]. exists o. split; [exact Hr|exact Hd].
  - simpl in Hwf. apply andb_prop in Hwf. destruct Hwf as [Hwb Hwf'].
    destruct (compile (ITry :: ctx) ([] :: st) b) as [cb st1] eqn:Eb.
    assert (Hs0 : st_ok (ITry :: ctx) ([] :: st)) by (simpl; split; [intros r l' []|exact Hs]).
    destruct (IHb _ _ _ _ Hs0 Hwb Eb) as (Hs1 & He1 & o1 & Hr1 & Hd1).
    destruct st1 as [|js stt]; [contradiction|]. destruct Hs1 as [Hj Hs1]. simpl in H.
    destruct (compile ctx stt f) as [cf st2] eqn:Ef.
    destruct (IHf _ _ _ _ Hs1 Hwf' Ef) as (Hs2 & He2 & o2 & Hr2 & Hd2).
    destruct (route_all ctx st2 js) as [table st3] eqn:Et. inversion H; subst; clear H.
    destruct (route_all_ok ctx js st2 table st' (st_ok_length _ _ Hs2) Hj Et) as (He3 & Hpick).
    pose proof (route_all_st_ok ctx js st2 table st' Hs2 Hj Et) as Hs3.
    split; [exact Hs3|].
    split; [eapply ext_trans; [exact (ext_tl _ _ He1)|eapply ext_trans; eauto]|].
    rewrite run_TTry. simpl. destruct (exec b) as [t1 c1]. destruct (exec f) as [t2 c2]. simpl in *.
    rewrite Hr1.
    assert (Hd2' : den ctx st' c2 o2) by (eapply den_ext; eauto).
    destruct c1 as [|lb|].
    + simpl in Hd1. subst o1. rewrite Hr2. exists o2. split; [reflexivity|].
      destruct c2; exact Hd2'.
    + unfold den, routed in Hd1. simpl in Hd1. destruct Hd1 as (k & Ho & Hn). subst o1. rewrite Hr2.
      destruct c2 as [|l2|].
      * simpl in Hd2'. subst o2. destruct (Hpick k _ Hn) as (o3 & Hp & Hd3). rewrite Hp.
        exists o3. split; [rewrite app_nil_r; reflexivity|exact Hd3].
      * exists o2. assert (Hnf : o2 <> Fall) by (intro; subst; eapply den_not_fall; [|exact Hd2']; discriminate).
        split; [destruct o2; try reflexivity; congruence|exact Hd2'].
      * exists o2. assert (Hnf : o2 <> Fall) by (intro; subst; eapply den_not_fall; [|exact Hd2']; discriminate).
        split; [destruct o2; try reflexivity; congruence|exact Hd2'].
    + unfold den, routed in Hd1. simpl in Hd1. destruct Hd1 as (k & Ho & Hn). subst o1. rewrite Hr2.
      destruct c2 as [|l2|].
      * simpl in Hd2'. subst o2. destruct (Hpick k _ Hn) as (o3 & Hp & Hd3). rewrite Hp.
        exists o3. split; [rewrite app_nil_r; reflexivity|exact Hd3].
      * exists o2. assert (Hnf : o2 <> Fall) by (intro; subst; eapply den_not_fall; [|exact Hd2']; discriminate).
        split; [destruct o2; try reflexivity; congruence|exact Hd2'].
      * exists o2. assert (Hnf : o2 <> Fall) by (intro; subst; eapply den_not_fall; [|exact Hd2']; discriminate).
        split; [destruct o2; try reflexivity; congruence|exact Hd2'].
Qed.

Definition compile0 (s : stmt) : tcode := fst (compile [] [] s).
Definition top (c : comp) : outcome := match c with Normal => Fall | Return => Returned | Brk _ => Stuck end.

Theorem compile_correct_lemma : forall s, wf [] s = true -> run (compile0 s) = (fst (exec s), top (snd (exec s))).
Proof.
  intros s Hwf. unfold compile0. destruct (compile [] [] s) as [c st'] eqn:E.
  destruct (compile_ok s [] [] c st' I Hwf E) as (_ & _ & o & Hr & Hd). simpl. rewrite Hr. f_equal.
  destruct (snd (exec s)); simpl in *.
  - exact Hd.
  - unfold routed in Hd. simpl in Hd. destruct Hd as [_ Hx]. discriminate.
  - unfold routed in Hd. simpl in Hd. destruct Hd as [Ho _]. exact Ho.
Qed.

(* ---- the algorithm before the repair: every crossed try region gets the index that was current when the jump
   statement was compiled (JumpRecordAction::HandleFinally { index: info.jumps.len() } captured in
   break_jump_record_actions / return_jump_record_actions) *)
Definition srec := (jrec * list nat)%type.

Fixpoint capture (ctx : list info) (st : list (list srec)) (r : jrec) : list nat :=
  match ctx, st with
  | ITry :: ct, js :: stt => S (length js) :: capture ct stt r
  | ILabel l :: ct, _ :: stt =>
      match r with
      | RBreak l' => if Nat.eqb l l' then [] else capture ct stt r
      | RReturn => capture ct stt r end
  | _, _ => []
  end.

Definition route_s (ctx : list info) (st : list (list srec)) (sr : srec) : tcode * list (list srec) :=
  let '(r, idxs) := sr in
  match find_dest ctx r 0 with
  | ToLabel i => (TSend i 0, st)
  | ToTry i => (TSend i (hd 0 idxs), push_at i (r, tl idxs) st)
  | NoDest => (TRet, st)
  end.

Fixpoint route_all_s (ctx : list info) (st : list (list srec)) (js : list srec) : list tcode * list (list srec) :=
  match js with
  | [] => ([], st)
  | r :: t => let '(c, st1) := route_s ctx st r in let '(cs, st2) := route_all_s ctx st1 t in (c :: cs, st2)
  end.

Fixpoint compile_stale (ctx : list info) (st : list (list srec)) (s : stmt) : tcode * list (list srec) :=
  match s with
  | Emit n => (TEmit n, st)
  | Seq a b => let '(ca, st1) := compile_stale ctx st a in let '(cb, st2) := compile_stale ctx st1 b in (TSeq ca cb, st2)
  | Block l b => let '(cb, st1) := compile_stale (ILabel l :: ctx) ([] :: st) b in (TLabel cb, tl st1)
  | Break l => route_s ctx st (RBreak l, capture ctx st (RBreak l))
  | Ret => route_s ctx st (RReturn, capture ctx st RReturn)
  | TryF b f =>
      let '(cb, st1) := compile_stale (ITry :: ctx) ([] :: st) b in
      let js := hd [] st1 in
      let '(cf, st2) := compile_stale ctx (tl st1) f in
      let '(table, st3) := route_all_s ctx st2 js in
      (TTry cb cf table, st3)
  end.

(* two different breaks cross the same two nested finally blocks; the first is dead code, the second is taken:
   L1: { L2: { try { try { L9: { break L9; break L1 }  break L2 } finally { emit 10 } } finally { emit 11 } }  emit 99 } *)
Definition witness : stmt :=
  Block 1 (Seq (Block 2 (TryF (TryF (Seq (Block 9 (Seq (Break 9) (Break 1))) (Break 2)) (Emit 10)) (Emit 11))) (Emit 99)).

Lemma compile_stale_refuted_lemma :
  exists s, wf [] s = true /\ exec s = ([10; 11; 99], Normal) /\
            run (fst (compile_stale [] [] s)) = ([10; 11], Fall) /\ run (compile0 s) = ([10; 11; 99], Fall).
Proof. exists witness. repeat split; vm_compute; reflexivity. Qed.

End FinallyLowering.
