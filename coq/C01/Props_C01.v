(* C01: pinned theorems about the JSRef reference interpreter (fuel monotonicity). *)
From JSRef Require Import Float Syntax Values Static Ops Promises Interp Machine Builtins Run.
From C01 Require Import Proofs_C01 Model_C01 Deep_Finally_C01.

Theorem run_deterministic : forall n P o1 o2, run n P = o1 -> run n P = o2 -> o1 = o2.
Proof. exact run_deterministic_lemma. Qed.
Check run_deterministic : forall n P o1 o2, run n P = o1 -> run n P = o2 -> o1 = o2.
Print Assumptions run_deterministic.

Theorem run_fuel_mono : forall n P o, run n P = o -> o <> OFuel -> forall k, run (n + k) P = o.
Proof. exact run_fuel_mono_lemma. Qed.
Check run_fuel_mono : forall n P o, run n P = o -> o <> OFuel -> forall k, run (n + k) P = o.
Print Assumptions run_fuel_mono.

Theorem run_fuel_independent : forall n m P, run n P <> OFuel -> run m P <> OFuel -> run n P = run m P.
Proof. exact run_fuel_independent_lemma. Qed.
Check run_fuel_independent : forall n m P, run n P <> OFuel -> run m P <> OFuel -> run n P = run m P.
Print Assumptions run_fuel_independent.

(* ---- host entry point (Model_C01.run_call): fuel monotonicity, and the call of the global [main]
   coincides with evaluating the call expression  main()  as script code in the same state *)

Theorem run_call_fuel_mono : forall n P o, run_call n P = o -> o <> OFuel -> forall k, run_call (n + k) P = o.
Proof. exact Model_C01.run_call_fuel_mono. Qed.
Check run_call_fuel_mono : forall n P o, run_call n P = o -> o <> OFuel -> forall k, run_call (n + k) P = o.
Print Assumptions run_call_fuel_mono.

Theorem host_call_eq_script_expr : forall P n strict st f, main_is_global_data st f -> is_callable st f = true -> eval_step P (mk P (Datatypes.S n)) (global_ctx strict) main_call_expr st = o_call (mk P (Datatypes.S n)) f VUndef nil st.
Proof. exact host_call_eq_script_expr_lemma. Qed.
Check host_call_eq_script_expr : forall P n strict st f, main_is_global_data st f -> is_callable st f = true -> eval_step P (mk P (Datatypes.S n)) (global_ctx strict) main_call_expr st = o_call (mk P (Datatypes.S n)) f VUndef nil st.
Print Assumptions host_call_eq_script_expr.

Theorem host_call_eq_script_eval : forall P n strict st f, main_is_global_data st f -> is_callable st f = true -> o_eval (mk P (Datatypes.S (Datatypes.S n))) (global_ctx strict) main_call_expr st = o_call (mk P (Datatypes.S n)) f VUndef nil st.
Proof. exact host_call_eq_script_eval_lemma. Qed.
Check host_call_eq_script_eval : forall P n strict st f, main_is_global_data st f -> is_callable st f = true -> o_eval (mk P (Datatypes.S (Datatypes.S n))) (global_ctx strict) main_call_expr st = o_call (mk P (Datatypes.S n)) f VUndef nil st.
Print Assumptions host_call_eq_script_eval.

Theorem call_main_eq_script_expr : forall P n strict st f, main_is_global_data st f -> is_callable st f = true -> call_main (mk P (Datatypes.S n)) st = eval_step P (mk P (Datatypes.S n)) (global_ctx strict) main_call_expr st.
Proof. exact call_main_eq_script_expr_lemma. Qed.
Check call_main_eq_script_expr : forall P n strict st f, main_is_global_data st f -> is_callable st f = true -> call_main (mk P (Datatypes.S n)) st = eval_step P (mk P (Datatypes.S n)) (global_ctx strict) main_call_expr st.
Print Assumptions call_main_eq_script_expr.

(* ---- deepening round: boa's lowering of try/finally with break / return routed through finally blocks
   (jump records, finally_jump_index, JumpTable), in miniature (Deep_Finally_C01.v, module FinallyLowering) *)

Theorem finally_lowering_correct : forall s, FinallyLowering.wf nil s = true ->
  FinallyLowering.run (FinallyLowering.compile0 s) = (fst (FinallyLowering.exec s), FinallyLowering.top (snd (FinallyLowering.exec s))).
Proof. exact FinallyLowering.compile_correct_lemma. Qed.
Check finally_lowering_correct : forall s, FinallyLowering.wf nil s = true ->
  FinallyLowering.run (FinallyLowering.compile0 s) = (fst (FinallyLowering.exec s), FinallyLowering.top (snd (FinallyLowering.exec s))).
Print Assumptions finally_lowering_correct.

Theorem finally_lowering_stale_refuted :
  exists s, FinallyLowering.wf nil s = true /\ FinallyLowering.exec s = (cons 10 (cons 11 (cons 99 nil)), FinallyLowering.Normal) /\
            FinallyLowering.run (fst (FinallyLowering.compile_stale nil nil s)) = (cons 10 (cons 11 nil), FinallyLowering.Fall) /\
            FinallyLowering.run (FinallyLowering.compile0 s) = (cons 10 (cons 11 (cons 99 nil)), FinallyLowering.Fall).
Proof. exact FinallyLowering.compile_stale_refuted_lemma. Qed.
Check finally_lowering_stale_refuted :
  exists s, FinallyLowering.wf nil s = true /\ FinallyLowering.exec s = (cons 10 (cons 11 (cons 99 nil)), FinallyLowering.Normal) /\
            FinallyLowering.run (fst (FinallyLowering.compile_stale nil nil s)) = (cons 10 (cons 11 nil), FinallyLowering.Fall) /\
            FinallyLowering.run (FinallyLowering.compile0 s) = (cons 10 (cons 11 (cons 99 nil)), FinallyLowering.Fall).
Print Assumptions finally_lowering_stale_refuted.
