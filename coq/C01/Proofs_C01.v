(* Fuel monotonicity of the JSRef interpreter: tying the knot.
   [mk P n] is refined by [mk P (n + k)]; hence a script run that ends with anything other than
   "out of fuel" ends the same way with any larger amount of fuel. *)
From Coq Require Import ZArith NArith PArith List Bool Arith Lia.
From JSRef Require Import Float Syntax Values Static Ops Promises Interp Machine Builtins Run.
From C01 Require Export Mono_Core Mono_Ops Mono_Interp Mono_Machine Mono_Builtins Mono_Run.
Import ListNotations.

Lemma fuel_ops_least : forall s, ops_le fuel_ops s.
Proof.
  intros s. constructor; intros; intros st Hn; exfalso; apply Hn; reflexivity.
Qed.

(* one unfolding of the knot, stated per field so that nothing ever computes with [mk] *)
Lemma mk_S : forall P n,
  mk P (Datatypes.S n) =
  {| o_eval := fun c e st => eval_step P (mk P n) c e st;
     o_run := fun k comp c st => run_step P (mk P n) k comp c st;
     o_call := fun f t a st => call_step P (mk P n) f t a st;
     o_construct := fun f a nt st => construct_step P (mk P n) f a nt st;
     o_get := fun l k r st => get_step (mk P n) l k r st;
     o_set := fun l k v r st => set_step (mk P n) l k v r st;
     o_toprim := fun v h st => toprim_step (mk P n) v h st;
     o_bind := fun c p v m st => bind_step P (mk P n) c p v m st |}.
Proof. reflexivity. Qed.

Lemma steps_mono : forall P s s', ops_le s s' ->
  ops_le
    {| o_eval := fun c e st => eval_step P s c e st;
       o_run := fun k comp c st => run_step P s k comp c st;
       o_call := fun f t a st => call_step P s f t a st;
       o_construct := fun f a nt st => construct_step P s f a nt st;
       o_get := fun l k r st => get_step s l k r st;
       o_set := fun l k v r st => set_step s l k v r st;
       o_toprim := fun v h st => toprim_step s v h st;
       o_bind := fun c p v m st => bind_step P s c p v m st |}
    {| o_eval := fun c e st => eval_step P s' c e st;
       o_run := fun k comp c st => run_step P s' k comp c st;
       o_call := fun f t a st => call_step P s' f t a st;
       o_construct := fun f a nt st => construct_step P s' f a nt st;
       o_get := fun l k r st => get_step s' l k r st;
       o_set := fun l k v r st => set_step s' l k v r st;
       o_toprim := fun v h st => toprim_step s' v h st;
       o_bind := fun c p v m st => bind_step P s' c p v m st |}.
Proof.
  intros P s s' H.
  constructor; intros; intros st Hn; cbn [o_eval o_run o_call o_construct o_get o_set o_toprim o_bind] in *.
  - exact (eval_step_mono P s s' H _ _ st Hn).
  - exact (run_step_mono P s s' H _ _ _ st Hn).
  - exact (call_step_mono P s s' H _ _ _ st Hn).
  - exact (construct_step_mono P s s' H _ _ _ st Hn).
  - exact (get_step_mono s s' H _ _ _ st Hn).
  - exact (set_step_mono s s' H _ _ _ _ st Hn).
  - exact (toprim_step_mono s s' H _ _ st Hn).
  - exact (bind_step_mono P s s' H _ _ _ _ st Hn).
Qed.

Lemma mk_mono_S : forall P n, ops_le (mk P n) (mk P (Datatypes.S n)).
Proof.
  intros P n. induction n as [|n IH].
  - apply fuel_ops_least.
  - exact (steps_mono P _ _ IH).
Qed.

Lemma mk_mono : forall P n k, ops_le (mk P n) (mk P (n + k)).
Proof.
  intros P n k. induction k as [|k IH].
  - rewrite Nat.add_0_r. apply ops_le_refl.
  - rewrite Nat.add_succ_r. eapply ops_le_trans; [exact IH | apply mk_mono_S].
Qed.

Lemma mk_mono_le : forall P n m, n <= m -> ops_le (mk P n) (mk P m).
Proof.
  intros P n m H. replace m with (n + (m - n)) by lia. apply mk_mono.
Qed.

(* the computation run by [run_script], as a function of the operations record *)
Definition script_comp (P : prog) (self : ops) : M value :=
  let c := global_ctx (p_strict P) in
  then_drain self
   (do _ <- global_declaration_instantiation P self (p_body P) c;;
    do r <- o_run self (script_frames P) (CNormal None) c;;
    match r with
    | MDone (CNormal v) => ret (match v with Some x => x | None => VUndef end)
    | MDone (CThrow v) => throwv v
    | MDone (CReturn v) => ret v
    | MDone _ => ret VUndef
    | _ => unsupported 990%N
    end).

Definition outcome_of (r : res value) : outcome :=
  match r with
  | ROk v st => OValue v st
  | RThrow v st => OThrow v st
  | RFuel => OFuel
  | RUnsupported c => OUnsupported c
  end.

Lemma run_script_eq : forall fuel P st0,
  run_script fuel P st0 = outcome_of (script_comp P (mk P fuel) st0).
Proof. reflexivity. Qed.

Lemma script_comp_mono : forall P s s', ops_le s s' -> mle (script_comp P s) (script_comp P s').
Proof. mono_def script_comp. Qed.

Lemma outcome_of_fuel : forall r, outcome_of r <> OFuel -> r <> RFuel.
Proof. intros r H E. subst r. apply H. reflexivity. Qed.

Lemma run_script_fuel_mono : forall n P st0 o,
  run_script n P st0 = o -> o <> OFuel -> forall k, run_script (n + k) P st0 = o.
Proof.
  intros n P st0 o Ho Hnf k. subst o. rewrite !run_script_eq in *.
  assert (E : script_comp P (mk P (n + k)) st0 = script_comp P (mk P n) st0).
  { apply (script_comp_mono P _ _ (mk_mono P n k)). apply outcome_of_fuel. exact Hnf. }
  rewrite E. reflexivity.
Qed.

Lemma run_deterministic_lemma : forall n P o1 o2, run n P = o1 -> run n P = o2 -> o1 = o2.
Proof. intros n P o1 o2 H1 H2. rewrite <- H1, <- H2. reflexivity. Qed.

(* [init_state] is a closed term whose evaluation is expensive: it is abstracted, never computed *)
#[local] Opaque init_state.
Definition run_from (i : option state) (fuel : nat) (P : prog) : outcome :=
  match i with Some st0 => run_script fuel P st0 | None => OInitFailed end.

Lemma run_from_fuel_mono : forall i n P o,
  run_from i n P = o -> o <> OFuel -> forall k, run_from i (n + k) P = o.
Proof.
  intros i n P o Ho Hnf k. destruct i as [st0|]; unfold run_from in *.
  - apply run_script_fuel_mono; assumption.
  - exact Ho.
Qed.

Lemma run_fuel_mono_lemma : forall n P o, run n P = o -> o <> OFuel -> forall k, run (n + k) P = o.
Proof. intros n P. exact (run_from_fuel_mono init_state n P). Qed.

Lemma run_fuel_independent_lemma : forall n m P, run n P <> OFuel -> run m P <> OFuel -> run n P = run m P.
Proof.
  intros n m P Hn Hm.
  destruct (Nat.le_ge_cases n m) as [H|H].
  - replace m with (n + (m - n)) by lia.
    symmetry. apply run_fuel_mono_lemma; [reflexivity | exact Hn].
  - replace n with (m + (n - m)) by lia.
    apply run_fuel_mono_lemma; [reflexivity | exact Hm].
Qed.

(* the full statement, kept as a named proposition *)
Definition run_fuel_mono_stmt : Prop :=
  forall n P o, run n P = o -> o <> OFuel -> forall k, run (n + k) P = o.
