(* C13 proofs, part 7: the string level.  The text produced by Number::toString (all five layouts of steps 6-10, the
   sign, "0", "Infinity", "NaN") is scanned by StringToNumber back to the digits (s, n-k) it was made from; together
   with the digit-level round trip this gives Number(String(x)) = x on the specification. *)
From Coq Require Import ZArith List Bool Lia String.
From C13 Require Import Model_C13 Proofs_Round Proofs_Unique Proofs_Digits Proofs_Shortest Proofs_Radix.
Import ListNotations.
Local Open Scope list_scope.
Local Open Scope Z_scope.

Notation dig := (is_dig 10).
Definition chars (ds : list Z) : ustr := map digit_char ds.

(* ---------------------------------------------------------------------------------------------- *)
(* values of digit lists *)

Lemma fold_step r ds : forall x, fold_left (step r) ds x = x * r ^ Z.of_nat (List.length ds) + fold_left (step r) ds 0.
Proof.
  induction ds as [|d ds IH]; intros x.
  - cbn. lia.
  - cbn [fold_left List.length]. rewrite IH. rewrite (IH (step r 0 d)). unfold step.
    rewrite Nat2Z.inj_succ, Z.pow_succ_r by lia. ring.
Qed.

Lemma num_of_app r a b : num_of r (a ++ b) = num_of r a * r ^ Z.of_nat (List.length b) + num_of r b.
Proof. rewrite !num_of_fold, fold_left_app. apply fold_step. Qed.

Lemma num_of_cons r d ds : num_of r (d :: ds) = d * r ^ Z.of_nat (List.length ds) + num_of r ds.
Proof. change (d :: ds) with ([d] ++ ds). rewrite num_of_app. cbn. lia. Qed.

Lemma num_of_zeros r n : num_of r (repeat 0 n) = 0.
Proof. induction n as [|n IH]; [reflexivity|]. cbn [repeat]. rewrite num_of_cons, IH. lia. Qed.

Lemma num_of_bounds ds : Forall dig ds -> 0 <= num_of 10 ds < 10 ^ Z.of_nat (List.length ds).
Proof.
  induction 1 as [|d ds Hd _ IH]; [cbn; lia|].
  rewrite num_of_cons. cbn [List.length]. rewrite Nat2Z.inj_succ, Z.pow_succ_r by lia.
  pose proof (pow10_pos (Z.of_nat (List.length ds)) ltac:(lia)). unfold is_dig in Hd. nia.
Qed.

Lemma digs_fuel_head r f : forall n acc, 2 <= r -> 1 <= n -> exists h t, digs_fuel f r n acc = h :: t /\ 1 <= h.
Proof.
  induction f as [|f IH]; intros n acc Hr Hn.
  - exists n, acc. split; [reflexivity|exact Hn].
  - cbn [digs_fuel]. destruct (Z.ltb_spec n r) as [C|C].
    + exists n, acc. split; [reflexivity|exact Hn].
    + apply IH; [exact Hr|]. apply Z.div_le_lower_bound; lia.
Qed.

Lemma digs_fuel_nonempty r f : forall n acc, digs_fuel f r n acc <> [].
Proof.
  induction f as [|f IH]; intros n acc; cbn [digs_fuel]; [discriminate|].
  destruct (n <? r); [discriminate|apply IH].
Qed.

Lemma digs_nonempty r n : digs r n <> [].
Proof. apply digs_fuel_nonempty. Qed.

(* a k-digit number has k digits *)
Lemma digs_length s k : 1 <= k -> 10 ^ (k - 1) <= s < 10 ^ k -> Z.of_nat (List.length (digs 10 s)) = k.
Proof.
  intros Hk Hs. pose proof (pow10_pos (k - 1) ltac:(lia)) as Hp.
  pose proof (digs_range 10 s ltac:(lia) ltac:(lia)) as Hr. pose proof (digs_value 10 s ltac:(lia)) as Hv.
  unfold digs in *. destruct (digs_fuel_head 10 (Z.to_nat (Z.log2 s)) s [] ltac:(lia) ltac:(lia)) as (h & t & E & Hh).
  rewrite E in *. rewrite num_of_cons in Hv. apply Forall_cons_iff in Hr. destruct Hr as [Hh9 Ht].
  pose proof (num_of_bounds t Ht) as Hb. cbn [List.length]. rewrite Nat2Z.inj_succ.
  set (L := Z.of_nat (List.length t)) in *. assert (HL : 0 <= L) by (unfold L; lia).
  pose proof (pow10_pos L HL) as HpL. unfold is_dig in Hh9.
  assert (Hlo : 10 ^ L <= s) by nia.
  assert (Hhi : s < 10 ^ (L + 1)) by (rewrite pow10_S by lia; nia).
  destruct (Z.lt_trichotomy (L + 1) k) as [C|[C|C]]; [|lia|].
  - pose proof (pow10_le (L + 1) (k - 1) ltac:(lia)). lia.
  - pose proof (pow10_le k L ltac:(lia)). lia.
Qed.

(* ---------------------------------------------------------------------------------------------- *)
(* scanning digit characters *)

Lemma is_digit_char d : 0 <= d < 10 -> is_digit (digit_char d) = true /\ digit_char d - 48 = d.
Proof.
  intros Hd. unfold is_digit, digit_char. destruct (Z.ltb_spec d 10); [|lia]. split; [|lia].
  apply andb_true_intro; split; apply Z.leb_le; lia.
Qed.

Definition stops (rest : ustr) : Prop := match rest with [] => True | c :: _ => is_digit c = false end.

Lemma span_digits_app ds rest : Forall dig ds -> stops rest -> span_digits (chars ds ++ rest) = (ds, rest).
Proof.
  induction 1 as [|d ds Hd _ IH]; intros Hs.
  - cbn [chars map app]. destruct rest as [|c r]; [reflexivity|]. cbn [span_digits]. cbn [stops] in Hs. rewrite Hs. reflexivity.
  - cbn [chars map app span_digits]. destruct (is_digit_char d Hd) as [H1 H2]. rewrite H1.
    fold (chars ds). rewrite (IH Hs). rewrite H2. reflexivity.
Qed.

Lemma dec_str_chars n : dec_str n = chars (digs 10 n).
Proof. reflexivity. Qed.

Lemma scan_exp_suffix e : scan_exp (exp_suffix e) = (e, []).
Proof.
  unfold exp_suffix, scan_exp. cbn [app]. rewrite Z.eqb_refl. cbn [orb].
  pose proof (digs_range 10 (Z.abs e) ltac:(lia) ltac:(lia)) as Hr. pose proof (digs_value 10 (Z.abs e) ltac:(lia)) as Hv.
  pose proof (digs_nonempty 10 (Z.abs e)) as Hne.
  assert (Hsp : span_digits (dec_str (Z.abs e)) = (digs 10 (Z.abs e), [])).
  { rewrite dec_str_chars. rewrite <- (app_nil_r (chars _)). apply span_digits_app; [exact Hr|exact I]. }
  destruct (Z.leb_spec 0 e) as [C|C]; cbn [app].
  - rewrite Z.eqb_refl. rewrite Hsp. destruct (digs 10 (Z.abs e)) as [|z l]; [congruence|]. rewrite Hv. f_equal. lia.
  - change (45 =? 43) with false. cbv iota. rewrite Z.eqb_refl. rewrite Hsp.
    destruct (digs 10 (Z.abs e)) as [|z l]; [congruence|]. rewrite Hv. f_equal. lia.
Qed.

Definition exp_text (ex : option Z) : ustr := match ex with Some e => exp_suffix e | None => [] end.
Definition exp_val (ex : option Z) : Z := match ex with Some e => e | None => 0 end.

Lemma scan_exp_text ex : scan_exp (exp_text ex) = (exp_val ex, []).
Proof. destruct ex; [apply scan_exp_suffix|reflexivity]. Qed.

Lemma stops_exp_text ex : stops (exp_text ex).
Proof. destruct ex; [reflexivity|exact I]. Qed.

(* digits, optionally ". digits", optionally an exponent *)
Lemma scan_decimal_dot A B ex : Forall dig A -> Forall dig B -> (A <> [] \/ B <> []) ->
  scan_decimal (chars A ++ 46 :: chars B ++ exp_text ex) = Some (num_of 10 (A ++ B), exp_val ex - Z.of_nat (List.length B), []).
Proof.
  intros HA HB Hne. unfold scan_decimal.
  rewrite (span_digits_app A (46 :: chars B ++ exp_text ex) HA ltac:(reflexivity)). cbv beta iota zeta.
  rewrite Z.eqb_refl. rewrite (span_digits_app B (exp_text ex) HB (stops_exp_text ex)). cbv beta iota zeta.
  rewrite scan_exp_text.
  destruct A as [|a A']; destruct B as [|b B']; try reflexivity. destruct Hne; congruence.
Qed.

Lemma scan_decimal_nodot A ex : Forall dig A -> A <> [] ->
  scan_decimal (chars A ++ exp_text ex) = Some (num_of 10 A, exp_val ex, []).
Proof.
  intros HA Hne. unfold scan_decimal.
  rewrite (span_digits_app A (exp_text ex) HA (stops_exp_text ex)). cbv beta iota zeta.
  assert (Hnd : match exp_text ex with c :: r' => if c =? 46 then span_digits r' else ([], exp_text ex) | [] => ([], exp_text ex) end
                = ([], exp_text ex)).
  { destruct ex; [|reflexivity]. unfold exp_text, exp_suffix. cbn [app]. change (101 =? 46) with false. reflexivity. }
  rewrite Hnd. cbv beta iota zeta. rewrite scan_exp_text.
  destruct A as [|a A']; [congruence|]. rewrite app_nil_r. cbn [List.length]. f_equal. f_equal. f_equal. lia.
Qed.

Lemma scan_decimal_dot0 A B : Forall dig A -> Forall dig B -> (A <> [] \/ B <> []) ->
  scan_decimal (chars A ++ 46 :: chars B) = Some (num_of 10 (A ++ B), - Z.of_nat (List.length B), []).
Proof.
  intros HA HB Hne. pose proof (scan_decimal_dot A B None HA HB Hne) as H. cbn [exp_text exp_val] in H.
  rewrite app_nil_r in H. rewrite H. f_equal.
Qed.

Lemma scan_decimal_nodot0 A : Forall dig A -> A <> [] -> scan_decimal (chars A) = Some (num_of 10 A, 0, []).
Proof.
  intros HA Hne. pose proof (scan_decimal_nodot A None HA Hne) as H. cbn [exp_text exp_val] in H.
  rewrite app_nil_r in H. exact H.
Qed.

(* ---------------------------------------------------------------------------------------------- *)
(* list plumbing *)

Lemma Forall_firstn_skipn {T} (P : T -> Prop) n (l : list T) : Forall P l -> Forall P (firstn n l) /\ Forall P (skipn n l).
Proof.
  revert l. induction n as [|n IH]; intros l H; [split; [constructor|exact H]|].
  destruct l as [|x l]; [split; constructor|]. inversion H; subst. destruct (IH l H3). split; [constructor; assumption|assumption].
Qed.

Lemma chars_app a b : chars (a ++ b) = chars a ++ chars b.
Proof. apply map_app. Qed.
Lemma chars_firstn n l : firstn n (chars l) = chars (firstn n l).
Proof. apply firstn_map. Qed.
Lemma chars_skipn n l : skipn n (chars l) = chars (skipn n l).
Proof. apply skipn_map. Qed.
Lemma chars_zeros n : repeat 48 n = chars (repeat 0 n).
Proof. induction n as [|n IH]; [reflexivity|]. cbn [repeat chars map]. f_equal. exact IH. Qed.
Lemma dig_zeros n : Forall dig (repeat 0 n).
Proof. induction n; constructor; [unfold is_dig; lia|assumption]. Qed.

(* ---------------------------------------------------------------------------------------------- *)
(* the five layouts of Number::toString scan back to a decimal of the same value *)

Definition same_value (m e s p : Z) : Prop :=
  fst (scale10 m 1 e) * snd (scale10 s 1 p) = fst (scale10 s 1 p) * snd (scale10 m 1 e).

Lemma same_value_refl s p : same_value s p s p.
Proof. unfold same_value. ring. Qed.

Lemma format_scans s k n : 1 <= k -> 10 ^ (k - 1) <= s < 10 ^ k ->
  exists m e, scan_decimal (format_shortest s k n) = Some (m, e, []) /\ 0 < m /\ same_value m e s (n - k).
Proof.
  intros Hk Hs. pose proof (pow10_pos (k - 1) ltac:(lia)) as Hp.
  pose proof (digs_range 10 s ltac:(lia) ltac:(lia)) as HD. pose proof (digs_value 10 s ltac:(lia)) as HV.
  pose proof (digs_length s k Hk Hs) as HL. pose proof (digs_nonempty 10 s) as HN.
  unfold format_shortest. rewrite dec_str_chars. set (D := digs 10 s) in *.
  destruct ((k <=? n) && (n <=? 21)) eqn:C1.
  { (* digits then zeros *)
    apply andb_prop in C1. destruct C1 as [C1 _]. apply Z.leb_le in C1.
    unfold zrepeat. rewrite chars_zeros, <- chars_app.
    exists (num_of 10 (D ++ repeat 0 (Z.to_nat (n - k)))), 0. split; [|split].
    - rewrite scan_decimal_nodot0; [reflexivity| |].
      + apply Forall_app. split; [exact HD|apply dig_zeros].
      + destruct D; [congruence|discriminate].
    - rewrite num_of_app, num_of_zeros, HV, repeat_length. pose proof (pow10_pos (Z.of_nat (Z.to_nat (n - k))) ltac:(lia)). nia.
    - unfold same_value. rewrite num_of_app, num_of_zeros, HV, repeat_length, Z2Nat.id by lia. unfold scale10.
      change (0 <=? 0) with true. destruct (Z.leb_spec 0 (n - k)); [|lia]. cbn [fst snd]. rewrite Z.pow_0_r. ring. }
  destruct ((0 <? n) && (n <=? 21)) eqn:C2.
  { (* point inside the digits *)
    apply andb_prop in C2. destruct C2 as [C2 C2']. apply Z.ltb_lt in C2. apply Z.leb_le in C2'.
    assert (Hnk : n < k).
    { apply andb_false_iff in C1. destruct C1 as [C1|C1]; apply Z.leb_gt in C1; lia. }
    unfold take, drop. rewrite chars_firstn, chars_skipn.
    destruct (Forall_firstn_skipn dig (Z.to_nat n) D HD) as [HA HB].
    exists s, (n - k). split; [|split; [lia|apply same_value_refl]].
    change ([46] ++ chars (skipn (Z.to_nat n) D)) with (46 :: chars (skipn (Z.to_nat n) D)).
    rewrite scan_decimal_dot0; [| exact HA | exact HB |].
    - rewrite firstn_skipn, HV. f_equal. f_equal. f_equal. rewrite skipn_length. lia.
    - destruct (firstn (Z.to_nat n) D) eqn:E1; [|left; discriminate]. right. intro E2.
      apply HN. rewrite <- (firstn_skipn (Z.to_nat n) D). fold D. rewrite E1, E2. reflexivity. }
  destruct ((-6 <? n) && (n <=? 0)) eqn:C3.
  { (* 0.000ddd *)
    apply andb_prop in C3. destruct C3 as [_ C3]. apply Z.leb_le in C3.
    unfold zrepeat. rewrite chars_zeros.
    exists s, (n - k). split; [|split; [lia|apply same_value_refl]].
    change ([48; 46] ++ chars (repeat 0 (Z.to_nat (- n))) ++ chars D) with (chars [0] ++ 46 :: chars (repeat 0 (Z.to_nat (- n))) ++ chars D).
    rewrite <- (chars_app (repeat 0 (Z.to_nat (- n))) D).
    rewrite scan_decimal_dot0; [| constructor; [unfold is_dig; lia|constructor] | apply Forall_app; split; [apply dig_zeros|exact HD] | left; discriminate].
    f_equal. f_equal. f_equal.
    - change ([0] ++ repeat 0 (Z.to_nat (- n)) ++ D) with (repeat 0 (S (Z.to_nat (- n))) ++ D).
      rewrite num_of_app, num_of_zeros, HV. lia.
    - rewrite app_length, repeat_length. lia. }
  destruct (Z.eqb_spec k 1) as [C4|C4].
  { (* d e+xx *)
    exists s, (n - k). split; [|split; [lia|apply same_value_refl]].
    change (exp_suffix (n - 1)) with (exp_text (Some (n - 1))).
    rewrite scan_decimal_nodot; [|exact HD|exact HN]. rewrite HV. cbn [exp_val]. f_equal. f_equal. f_equal. lia. }
  (* d.ddd e+xx *)
  exists s, (n - k). split; [|split; [lia|apply same_value_refl]].
  unfold take, drop. rewrite chars_firstn, chars_skipn.
  destruct (Forall_firstn_skipn dig (Z.to_nat 1) D HD) as [HA HB].
  change ([46] ++ chars (skipn (Z.to_nat 1) D) ++ exp_suffix (n - 1)) with (46 :: chars (skipn (Z.to_nat 1) D) ++ exp_text (Some (n - 1))).
  rewrite scan_decimal_dot; [| exact HA | exact HB |].
  - rewrite firstn_skipn, HV. f_equal. f_equal. f_equal. rewrite skipn_length. cbn [exp_val]. change (Z.to_nat 1) with 1%nat. lia.
  - left. destruct D; [congruence|discriminate].
Qed.

(* ---------------------------------------------------------------------------------------------- *)
(* character classes of the produced text *)

Definition in_range (c : Z) : Prop := 43 <= c <= 101.

Lemma nows_range c : in_range c -> is_ws c = false.
Proof.
  unfold in_range, is_ws. intros H.
  repeat match goal with |- context [Z.eqb ?a ?b] => destruct (Z.eqb_spec a b); [lia|] end.
  destruct (Z.leb_spec 8192 c); [lia|]. reflexivity.
Qed.

Lemma range_chars l : Forall dig l -> Forall in_range (chars l).
Proof.
  induction 1 as [|d l Hd _ IH]; [constructor|]. cbn [chars map]. constructor; [|exact IH].
  unfold in_range, digit_char, is_dig in *. destruct (Z.ltb_spec d 10); lia.
Qed.
Lemma range_repeat n : Forall in_range (repeat 48 n).
Proof. induction n; constructor; [unfold in_range; lia|assumption]. Qed.
Lemma range_exp e : Forall in_range (exp_suffix e).
Proof.
  unfold exp_suffix. apply Forall_app. split; [constructor; [unfold in_range; lia|constructor]|].
  apply Forall_app. split.
  - destruct (0 <=? e); constructor; try constructor; unfold in_range; lia.
  - rewrite dec_str_chars. apply range_chars. apply digs_range; lia.
Qed.

Lemma format_range s k n : 0 <= s -> Forall in_range (format_shortest s k n).
Proof.
  intros Hs. pose proof (range_chars _ (digs_range 10 s ltac:(lia) Hs)) as HD. fold (dec_str s) in HD.
  unfold format_shortest, take, drop, zrepeat.
  destruct (Forall_firstn_skipn in_range (Z.to_nat n) (dec_str s) HD) as [Hn1 Hn2].
  destruct (Forall_firstn_skipn in_range (Z.to_nat 1) (dec_str s) HD) as [H11 H12].
  assert (Hdot : Forall in_range [46]) by (constructor; [unfold in_range; lia|constructor]).
  destruct ((k <=? n) && (n <=? 21)); [apply Forall_app; split; [exact HD|apply range_repeat]|].
  destruct ((0 <? n) && (n <=? 21)); [repeat (apply Forall_app; split); assumption|].
  destruct ((-6 <? n) && (n <=? 0)).
  { repeat (apply Forall_app; split); try assumption; try apply range_repeat.
    constructor; [unfold in_range; lia|]. constructor; [unfold in_range; lia|constructor]. }
  destruct (k =? 1).
  - apply Forall_app; split; [exact HD|apply range_exp].
  - apply Forall_app; split; [exact H11|]. apply Forall_app; split; [exact Hdot|].
    apply Forall_app; split; [exact H12|apply range_exp].
Qed.

(* the text starts with a non-zero digit, or with "0." *)
Lemma format_head s k n : 1 <= k -> 10 ^ (k - 1) <= s < 10 ^ k ->
  (exists c r, format_shortest s k n = c :: r /\ 49 <= c <= 57) \/ (exists r, format_shortest s k n = 48 :: 46 :: r).
Proof.
  intros Hk Hs. pose proof (pow10_pos (k - 1) ltac:(lia)) as Hp.
  pose proof (digs_range 10 s ltac:(lia) ltac:(lia)) as HD.
  unfold digs in HD. destruct (digs_fuel_head 10 (Z.to_nat (Z.log2 s)) s [] ltac:(lia) ltac:(lia)) as (h & t & E & Hh).
  rewrite E in HD. apply Forall_cons_iff in HD. destruct HD as [Hh9 _]. unfold is_dig in Hh9.
  assert (Hc : 49 <= digit_char h <= 57) by (unfold digit_char; destruct (Z.ltb_spec h 10); lia).
  unfold format_shortest. rewrite dec_str_chars. unfold digs. rewrite E. cbn [chars map].
  destruct ((k <=? n) && (n <=? 21)); [left; eexists; eexists; split; [reflexivity|exact Hc]|].
  destruct ((0 <? n) && (n <=? 21)) eqn:C2.
  { left. apply andb_prop in C2. destruct C2 as [C2 _]. apply Z.ltb_lt in C2.
    unfold take. destruct (Z.to_nat n) as [|m] eqn:En; [lia|]. cbn [firstn app].
    eexists; eexists; split; [reflexivity|exact Hc]. }
  destruct ((-6 <? n) && (n <=? 0)); [right; eexists; reflexivity|].
  destruct (k =? 1); left; [eexists; eexists; split; [reflexivity|exact Hc]|].
  unfold take. change (Z.to_nat 1) with 1%nat. cbn [firstn app]. eexists; eexists; split; [reflexivity|exact Hc].
Qed.

(* ---------------------------------------------------------------------------------------------- *)
(* trimming, prefixes, sign *)

Lemma trim_start_id s : Forall (fun c => is_ws c = false) s -> trim_start s = s.
Proof. intros H. destruct s as [|c r]; [reflexivity|]. cbn [trim_start]. apply Forall_cons_iff in H. destruct H as [-> _]. reflexivity. Qed.

Lemma trim_id s : Forall (fun c => is_ws c = false) s -> trim s = s.
Proof.
  intros H. unfold trim, trim_end. rewrite (trim_start_id s H).
  rewrite (trim_start_id (rev s)); [apply rev_involutive|apply Forall_rev; exact H].
Qed.

Lemma ndp_head a r : a <> 48 -> nondecimal_prefix (a :: r) = None.
Proof.
  intros H. unfold nondecimal_prefix. destruct a as [|p|p]; try reflexivity.
  do 6 (destruct p as [p|p|]; try reflexivity). exfalso. apply H. reflexivity.
Qed.

Lemma bits_decomp bits : 0 <= bits < p64 -> with_sign (is_neg bits) (mag bits) = bits.
Proof.
  intros Hb. unfold with_sign, is_neg, mag. assert (E : p64 = 2 * p63) by reflexivity. assert (0 < p63) by reflexivity.
  destruct (Z.leb_spec p63 bits) as [C|C].
  - assert (bits mod p63 = bits - p63). { symmetry. apply (Z.mod_unique _ _ 1 (bits - p63)); lia. } lia.
  - apply Z.mod_small. lia.
Qed.

Lemma mag_range bits : 0 <= bits -> 0 <= mag bits < p63.
Proof. intros. unfold mag. apply Z.mod_pos_bound. reflexivity. Qed.

(* ---------------------------------------------------------------------------------------------- *)
(* Number(String(x)) = x on the specification *)

Theorem string_roundtrip_finite bits s k n : 0 <= bits < p64 -> 0 < mag bits < INF ->
  shortest (mag bits) = Some (s, k, n) -> string_to_number_spec (to_string_spec bits) = bits.
Proof.
  intros Hb Hu Hsh. destruct (shortest_sound (mag bits) s k n Hu Hsh) as (Hk & Hs & Hr).
  pose proof (pow10_pos (k - 1) ltac:(lia)) as Hp.
  unfold to_string_spec. rewrite Hsh.
  destruct (Z.ltb_spec INF (mag bits)); [lia|]. destruct (Z.eqb_spec (mag bits) 0); [lia|].
  destruct (Z.eqb_spec (mag bits) INF); [lia|].
  set (body := format_shortest s k n).
  destruct (format_scans s k n ltac:(lia) Hs) as (m & e & Hscan & Hm & Hsame). fold body in Hscan.
  pose proof (format_range s k n ltac:(lia)) as Hrange. fold body in Hrange.
  pose proof (format_head s k n ltac:(lia) Hs) as Hhead. fold body in Hhead.
  assert (Hnows : Forall (fun c => is_ws c = false) ((if is_neg bits then [45] else []) ++ body)).
  { apply Forall_app. split.
    - destruct (is_neg bits); constructor; [apply nows_range; unfold in_range; lia|constructor].
    - eapply Forall_impl; [|exact Hrange]. intros c Hc. apply nows_range. exact Hc. }
  unfold string_to_number_spec. rewrite (trim_id _ Hnows).
  (* the value *)
  assert (Hval : dec_value (is_neg bits) m e = bits).
  { rewrite dec_value_plain by exact Hm. unfold round_signed.
    destruct (scale10_pos m 1 e ltac:(lia) ltac:(lia)) as [Ha Hbb].
    destruct (scale10_pos s 1 (n - k) ltac:(lia) ltac:(lia)) as [Hsa Hsb].
    rewrite (round_ratio _ _ (fst (scale10 s 1 (n - k))) (snd (scale10 s 1 (n - k))) Ha Hbb Hsa Hsb Hsame).
    rewrite Hr. apply bits_decomp. exact Hb. }
  assert (HInf : forall c r, 48 <= c <= 57 -> ustr_eqb (c :: r) (lit "Infinity") = false).
  { intros c r Hc. change (lit "Infinity") with [73; 110; 102; 105; 110; 105; 116; 121]. cbn [ustr_eqb].
    destruct (Z.eqb_spec c 73); [lia|]. reflexivity. }
  assert (Hsplit : forall c r, 48 <= c <= 57 -> split_sign (c :: r) = (false, c :: r)).
  { intros c r Hc. cbn [split_sign]. destruct (Z.eqb_spec c 45); [lia|]. destruct (Z.eqb_spec c 43); [lia|]. reflexivity. }
  destruct (is_neg bits) eqn:Eneg.
  - (* "-" ++ body *)
    cbn [app]. rewrite ndp_head by lia. change (split_sign (45 :: body)) with (true, body). cbv beta iota.
    destruct Hhead as [(c & r & E & Hc)|(r & E)]; rewrite E in *.
    + rewrite HInf by lia. rewrite Hscan. exact Hval.
    + rewrite HInf by lia. rewrite Hscan. exact Hval.
  - cbn [app].
    destruct Hhead as [(c & r & E & Hc)|(r & E)]; rewrite E in *.
    + rewrite ndp_head by lia. rewrite Hsplit by lia. cbv beta iota. rewrite HInf by lia. rewrite Hscan. exact Hval.
    + change (nondecimal_prefix (48 :: 46 :: r)) with (@None (Z * ustr)).
      rewrite Hsplit by lia. cbv beta iota. rewrite HInf by lia. rewrite Hscan. exact Hval.
Qed.

(* zeros (the sign of -0 is not printed), infinities and NaNs *)
Theorem string_roundtrip_zero bits : mag bits = 0 -> string_to_number_spec (to_string_spec bits) = 0.
Proof. intros H. unfold to_string_spec. rewrite H. vm_compute. reflexivity. Qed.

Theorem string_roundtrip_inf bits : 0 <= bits < p64 -> mag bits = INF -> string_to_number_spec (to_string_spec bits) = bits.
Proof.
  intros Hb H. rewrite <- (bits_decomp bits Hb) at 2. unfold to_string_spec. rewrite H.
  destruct (is_neg bits); vm_compute; reflexivity.
Qed.

Theorem string_roundtrip_nan bits : INF < mag bits -> string_to_number_spec (to_string_spec bits) = NAN.
Proof.
  intros H. unfold to_string_spec. destruct (Z.ltb_spec INF (mag bits)); [|lia]. vm_compute. reflexivity.
Qed.
