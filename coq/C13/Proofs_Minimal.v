(* C13 proofs, part 9: the digit count of Number::toString is minimal — no decimal with fewer significant digits
   (at any decimal exponent) rounds to the same double: "k is as small as possible". *)
From Coq Require Import ZArith List Bool Lia.
From C13 Require Import Model_C13 Proofs_Round Proofs_Unique Proofs_Digits Proofs_Shortest.
Local Open Scope Z_scope.

(* ---------------------------------------------------------------------------------------------- *)
(* the interval test is implied by rounding (the converse of in_iv_interval) *)

Lemma interval_in_iv u p v : 0 < u < INF ->
  in_interval u (fst (cand v p)) (snd (cand v p)) ->
  in_iv (Z.even u) (sc_lo4 u p) (sc_hi4 u p) (4 * sc_qb u p) v = true.
Proof.
  intros Hu ((_ & _) & Hlo & Hhi). pose proof (pow10_pos (Z.abs p) ltac:(lia)) as HP.
  assert (Hyb : 0 < snd (cand v p)) by (unfold cand; destruct (0 <=? p); cbn [snd]; lia).
  destruct (lo_iff u (fst (cand v p)) (snd (cand v p)) ltac:(lia) Hyb) as [Lle Llt].
  destruct (hi_iff u (fst (cand v p)) (snd (cand v p)) ltac:(lia) Hyb) as [Hle Hlt].
  cbv zeta in Lle, Llt, Hle, Hlt.
  destruct Hlo as [E|(_ & Hlo)]; [lia|]. destruct Hhi as [E|(_ & Hhi)]; [lia|].
  unfold in_iv, sc_lo4, sc_hi4, sc_qb, cand in *. cbv zeta.
  set (a := fst (ratio u)) in *. set (b := snd (ratio u)) in *. set (P := 10 ^ Z.abs p) in *.
  destruct (Z.even u); destruct (0 <=? p); cbn [fst snd] in *; apply andb_true_intro; split;
    try apply Z.leb_le; try apply Z.ltb_lt;
    try (apply Lle in Hlo; lia); try (apply Llt in Hlo; lia); try (apply Hle in Hhi; lia); try (apply Hlt in Hhi; lia).
Qed.

(* ---------------------------------------------------------------------------------------------- *)
(* every earlier digit count was tried and failed *)

Definition test_at (closed : bool) (lo4 hi4 qb4 qb W R k : Z) : bool :=
  let t := 10 ^ (17 - k) in
  in_iv closed lo4 hi4 qb4 (W / t * t) || negb (W mod t * qb + R =? 0) && in_iv closed lo4 hi4 qb4 ((W / t + 1) * t).

Lemma search_fails_before closed lo4 hi4 qb4 qb W R n0 fuel : forall k s' k' n',
  shortest_search fuel closed lo4 hi4 qb4 qb W R n0 k = Some (s', k', n') ->
  forall j, k <= j < k' -> test_at closed lo4 hi4 qb4 qb W R j = false.
Proof.
  induction fuel as [|f IH]; intros k s' k' n' H j Hj; [discriminate|].
  cbn [shortest_search] in H. cbv zeta in H. fold (test_at closed lo4 hi4 qb4 qb W R k) in H.
  destruct (test_at closed lo4 hi4 qb4 qb W R k) eqn:Ht.
  - destruct (_ =? _); injection H as <- <- <-; lia.
  - destruct (Z.eq_dec j k) as [->|NE]; [exact Ht|]. apply (IH (k + 1) s' k' n' H). lia.
Qed.

(* ---------------------------------------------------------------------------------------------- *)
(* comparing decimals A * 10^e1 and B * 10^e2 given as scale10 pairs *)

Definition dle (A e1 B e2 : Z) : Prop :=
  fst (scale10 A 1 e1) * snd (scale10 B 1 e2) <= fst (scale10 B 1 e2) * snd (scale10 A 1 e1).

Lemma dle_up A e1 B e2 : 0 <= A -> 0 <= B -> e1 <= e2 -> A <= B * 10 ^ (e2 - e1) -> dle A e1 B e2.
Proof.
  intros HA HB He H. unfold dle, scale10.
  destruct (Z.leb_spec 0 e1) as [C1|C1]; destruct (Z.leb_spec 0 e2) as [C2|C2]; cbn [fst snd]; try lia.
  - (* A 10^e1 <= B 10^e2 *)
    replace e2 with ((e2 - e1) + e1) at 1 by lia. rewrite Z.pow_add_r by lia.
    pose proof (pow10_pos e1 C1). rewrite !Z.mul_1_r. replace (B * (10 ^ (e2 - e1) * 10 ^ e1)) with (B * 10 ^ (e2 - e1) * 10 ^ e1) by ring.
    apply Z.mul_le_mono_nonneg_r; lia.
  - (* A <= B 10^e2 10^-e1 *)
    rewrite Z.mul_1_r, Z.mul_1_l. replace (B * 10 ^ e2 * 10 ^ (- e1)) with (B * (10 ^ e2 * 10 ^ (- e1))) by ring.
    rewrite <- Z.pow_add_r by lia. replace (e2 + - e1) with (e2 - e1) by lia. exact H.
  - (* A 10^-e2 <= B 10^-e1 *)
    rewrite !Z.mul_1_l. replace (- e1) with ((e2 - e1) + - e2) by lia. rewrite Z.pow_add_r by lia.
    pose proof (pow10_pos (- e2) ltac:(lia)). replace (B * (10 ^ (e2 - e1) * 10 ^ (- e2))) with (B * 10 ^ (e2 - e1) * 10 ^ (- e2)) by ring.
    apply Z.mul_le_mono_nonneg_r; lia.
Qed.

Lemma dle_down A e1 B e2 : 0 <= A -> 0 <= B -> e2 <= e1 -> A * 10 ^ (e1 - e2) <= B -> dle A e1 B e2.
Proof.
  intros HA HB He H. unfold dle, scale10.
  destruct (Z.leb_spec 0 e1) as [C1|C1]; destruct (Z.leb_spec 0 e2) as [C2|C2]; cbn [fst snd]; try lia.
  - replace e1 with ((e1 - e2) + e2) at 1 by lia. rewrite Z.pow_add_r by lia.
    pose proof (pow10_pos e2 C2). rewrite !Z.mul_1_r. replace (A * (10 ^ (e1 - e2) * 10 ^ e2)) with (A * 10 ^ (e1 - e2) * 10 ^ e2) by ring.
    apply Z.mul_le_mono_nonneg_r; lia.
  - rewrite Z.mul_1_r, Z.mul_1_l. replace (A * 10 ^ e1 * 10 ^ (- e2)) with (A * (10 ^ e1 * 10 ^ (- e2))) by ring.
    rewrite <- Z.pow_add_r by lia. replace (e1 + - e2) with (e1 - e2) by lia. exact H.
  - rewrite !Z.mul_1_l. replace (- e2) with ((e1 - e2) + - e1) by lia. rewrite Z.pow_add_r by lia.
    pose proof (pow10_pos (- e1) ltac:(lia)). replace (A * (10 ^ (e1 - e2) * 10 ^ (- e1))) with (A * 10 ^ (e1 - e2) * 10 ^ (- e1)) by ring.
    apply Z.mul_le_mono_nonneg_r; lia.
Qed.

(* ---------------------------------------------------------------------------------------------- *)
(* a decimal that rounds to u forces one of the two bracketing candidates of its digit count to pass the test *)

Lemma round_scale10 u s e : 0 <= s -> rounds_to u s e = true ->
  round_nneg (fst (scale10 s 1 e)) (snd (scale10 s 1 e)) = u.
Proof. intros Hs H. unfold rounds_to in H. destruct (scale10 s 1 e). cbn [fst snd]. apply Z.eqb_eq. exact H. Qed.

Lemma x_rounds u : 0 < u < INF -> round_nneg (fst (ratio u)) (snd (ratio u)) = u.
Proof.
  intros Hu. destruct (ratio_ival u ltac:(lia)) as (Hb & Ha & Hab). pose proof SC_pos.
  rewrite <- (round_exact u ltac:(lia)) at 3. apply round_ratio; try lia; try (apply ival_nonneg; lia).
Qed.

Theorem fewer_digits_fail u s k n : 0 < u < INF -> shortest u = Some (s, k, n) ->
  forall j s' e', 1 <= j < k -> 10 ^ (j - 1) <= s' < 10 ^ j -> rounds_to u s' e' = false.
Proof.
  intros Hu H j s' e' Hj Hs'.
  destruct (rounds_to u s' e') eqn:Hrt; [exfalso|reflexivity].
  pose proof (pow10_pos (j - 1) ltac:(lia)) as Hpj.
  pose proof (round_scale10 u s' e' ltac:(lia) Hrt) as Hy. clear Hrt.
  destruct (shortest_sound u s k n Hu H) as (Hk & _ & _).
  rewrite shortest_unfold in H. cbv zeta in H.
  destruct (scaled_range u Hu) as (Hqb & Hq1 & Hq2). cbv zeta in Hqb, Hq1, Hq2.
  set (n0 := dec_exp (fst (ratio u)) (snd (ratio u))) in *. set (p := 17 - n0) in *.
  set (qa := sc_qa u p) in *. set (qb := sc_qb u p) in *.
  pose proof (search_fails_before _ _ _ _ _ _ _ _ _ _ _ _ _ H j ltac:(lia)) as Hfail.
  unfold test_at in Hfail. cbv zeta in Hfail.
  set (t := 10 ^ (17 - j)) in *. pose proof (pow10_pos (17 - j) ltac:(lia)) as Ht. fold t in Ht.
  assert (HW : 10 ^ 16 <= qa / qb < 10 ^ 17).
  { split; [apply Z.div_le_lower_bound; lia|apply Z.div_lt_upper_bound; lia]. }
  pose proof (Z.div_mod qa qb ltac:(lia)) as Hdq. pose proof (Z.mod_pos_bound qa qb Hqb) as HRq.
  set (W := qa / qb) in *. set (R := qa mod qb) in *.
  pose proof (Z.div_mod W t ltac:(lia)) as Hdt. pose proof (Z.mod_pos_bound W t Ht) as Hmt.
  set (lo := W / t) in *. set (m := W mod t) in *.
  assert (E16 : 10 ^ 16 = 10 ^ (j - 1) * t) by (unfold t; rewrite <- Z.pow_add_r by lia; f_equal; lia).
  assert (E17 : 10 ^ 17 = 10 ^ j * t) by (unfold t; rewrite <- Z.pow_add_r by lia; f_equal; lia).
  assert (Hlo : 10 ^ (j - 1) <= lo < 10 ^ j).
  { split; [apply Z.div_le_lower_bound; lia|apply Z.div_lt_upper_bound; lia]. }
  assert (E10 : 10 ^ j = 10 * 10 ^ (j - 1)) by (replace j with (j - 1 + 1) at 1 by lia; apply pow10_S; lia).
  apply orb_false_iff in Hfail. destruct Hfail as [Foklo Fokhi].
  (* x as a rational and its rounding *)
  destruct (ratio_ival u ltac:(lia)) as (Hb & Ha & _). pose proof (x_rounds u Hu) as Hx.
  set (a := fst (ratio u)) in *. set (b := snd (ratio u)) in *.
  (* the candidates as scale10 decimals round like their cand forms *)
  assert (Hcand : forall c, 0 <= c ->
            round_nneg (fst (scale10 c 1 (n0 - j))) (snd (scale10 c 1 (n0 - j))) = u ->
            in_iv (Z.even u) (sc_lo4 u p) (sc_hi4 u p) (4 * qb) (c * t) = true).
  { intros c Hc Hrc. apply interval_in_iv; [exact Hu|].
    assert (Hc0 : 0 <= fst (cand (c * t) p) /\ 0 < snd (cand (c * t) p)).
    { pose proof (pow10_pos (Z.abs p) ltac:(lia)). unfold cand. destruct (0 <=? p); cbn [fst snd]; split; try lia; repeat apply Z.mul_nonneg_nonneg; lia. }
    destruct Hc0 as [Hc0 Hc1]. destruct (scale10_pos c 1 (n0 - j) Hc ltac:(lia)) as [Hsa Hsb].
    rewrite <- Hrc. rewrite <- (round_ratio _ _ _ _ Hc0 Hc1 Hsa Hsb (cand_scale c j n0 ltac:(lia))).
    apply round_in_interval; assumption. }
  (* order of x and the two candidates, as rationals *)
  assert (Hxlo : fst (scale10 lo 1 (n0 - j)) * b <= a * snd (scale10 lo 1 (n0 - j))).
  { (* qb lo t <= qa *)
    assert (Hs : qb * (lo * t) <= qa) by nia.
    destruct (scale10_pos lo 1 (n0 - j) ltac:(lia) ltac:(lia)) as [Hsa Hsb].
    pose proof (cand_scale lo j n0 ltac:(lia)) as Hcs. cbv zeta in Hcs. fold p t in Hcs.
    unfold qa, qb, sc_qa, sc_qb in Hs. fold a b in Hs. unfold cand in Hcs.
    pose proof (pow10_pos (Z.abs p) ltac:(lia)) as HP. set (P := 10 ^ Z.abs p) in *.
    destruct (0 <=? p); cbn [fst snd] in Hcs.
    - (* b lo t <= a P ; (lo t) sb = sa P *)
      apply (proj2 (Z.mul_le_mono_pos_r _ _ P HP)).
      replace (fst (scale10 lo 1 (n0 - j)) * b * P) with (b * (fst (scale10 lo 1 (n0 - j)) * P)) by ring.
      rewrite <- Hcs. replace (b * (lo * t * snd (scale10 lo 1 (n0 - j)))) with (b * (lo * t) * snd (scale10 lo 1 (n0 - j))) by ring.
      replace (a * snd (scale10 lo 1 (n0 - j)) * P) with (a * P * snd (scale10 lo 1 (n0 - j))) by ring.
      apply Z.mul_le_mono_nonneg_r; lia.
    - (* b P lo t <= a ; lo t P sb = sa *)
      rewrite Z.mul_1_r in Hcs. rewrite <- Hcs.
      replace (lo * t * P * snd (scale10 lo 1 (n0 - j)) * b) with (b * P * (lo * t) * snd (scale10 lo 1 (n0 - j))) by ring.
      apply Z.mul_le_mono_nonneg_r; lia. }
  assert (Hxhi : a * snd (scale10 (lo + 1) 1 (n0 - j)) <= fst (scale10 (lo + 1) 1 (n0 - j)) * b).
  { assert (Hs : qa <= qb * ((lo + 1) * t)) by nia.
    destruct (scale10_pos (lo + 1) 1 (n0 - j) ltac:(lia) ltac:(lia)) as [Hsa Hsb].
    pose proof (cand_scale (lo + 1) j n0 ltac:(lia)) as Hcs. cbv zeta in Hcs. fold p t in Hcs.
    unfold qa, qb, sc_qa, sc_qb in Hs. fold a b in Hs. unfold cand in Hcs.
    pose proof (pow10_pos (Z.abs p) ltac:(lia)) as HP. set (P := 10 ^ Z.abs p) in *.
    destruct (0 <=? p); cbn [fst snd] in Hcs.
    - apply (proj2 (Z.mul_le_mono_pos_r _ _ P HP)).
      replace (fst (scale10 (lo + 1) 1 (n0 - j)) * b * P) with (b * (fst (scale10 (lo + 1) 1 (n0 - j)) * P)) by ring.
      rewrite <- Hcs. replace (b * ((lo + 1) * t * snd (scale10 (lo + 1) 1 (n0 - j)))) with (b * ((lo + 1) * t) * snd (scale10 (lo + 1) 1 (n0 - j))) by ring.
      replace (a * snd (scale10 (lo + 1) 1 (n0 - j)) * P) with (a * P * snd (scale10 (lo + 1) 1 (n0 - j))) by ring.
      apply Z.mul_le_mono_nonneg_r; lia.
    - rewrite Z.mul_1_r in Hcs. rewrite <- Hcs.
      replace ((lo + 1) * t * P * snd (scale10 (lo + 1) 1 (n0 - j)) * b) with (b * P * ((lo + 1) * t) * snd (scale10 (lo + 1) 1 (n0 - j))) by ring.
      apply Z.mul_le_mono_nonneg_r; lia. }
  destruct (scale10_pos s' 1 e' ltac:(lia) ltac:(lia)) as [Hya Hyb].
  destruct (scale10_pos lo 1 (n0 - j) ltac:(lia) ltac:(lia)) as [Hla Hlb].
  destruct (scale10_pos (lo + 1) 1 (n0 - j) ltac:(lia) ltac:(lia)) as [Hha Hhb].
  (* y <= c1 or c2 <= y *)
  assert (Hside : dle s' e' lo (n0 - j) \/ dle (lo + 1) (n0 - j) s' e').
  { destruct (Z.lt_trichotomy e' (n0 - j)) as [C|[C|C]].
    - left. apply dle_up; try lia.
      assert (10 * 10 ^ (j - 1) <= lo * 10 ^ (n0 - j - e')).
      { replace (n0 - j - e') with ((n0 - j - e' - 1) + 1) by lia. rewrite pow10_S by lia.
        pose proof (pow10_pos (n0 - j - e' - 1) ltac:(lia)). nia. }
      lia.
    - subst e'. destruct (Z_le_gt_dec s' lo) as [D|D].
      + left. apply dle_up; try lia. rewrite Z.sub_diag, Z.pow_0_r. lia.
      + right. apply dle_up; try lia. rewrite Z.sub_diag, Z.pow_0_r. lia.
    - right. apply dle_up; try lia.
      assert (10 * 10 ^ (j - 1) <= s' * 10 ^ (e' - (n0 - j))).
      { replace (e' - (n0 - j)) with ((e' - (n0 - j) - 1) + 1) by lia. rewrite pow10_S by lia.
        pose proof (pow10_pos (e' - (n0 - j) - 1) ltac:(lia)). nia. }
      lia. }
  destruct Hside as [Hle|Hge].
  - (* y <= c1 <= x: c1 rounds to u, so the lower candidate passes the test *)
    pose proof (round_mono _ _ _ _ Hya Hyb Hla Hlb Hle) as M1.
    pose proof (round_mono _ _ a b Hla Hlb Ha Hb Hxlo) as M2.
    rewrite Hy in M1. rewrite Hx in M2.
    assert (Hrc : round_nneg (fst (scale10 lo 1 (n0 - j))) (snd (scale10 lo 1 (n0 - j))) = u) by lia.
    pose proof (Hcand lo ltac:(lia) Hrc). congruence.
  - pose proof (round_mono _ _ _ _ Hha Hhb Hya Hyb Hge) as M1.
    pose proof (round_mono a b _ _ Ha Hb Hha Hhb Hxhi) as M2.
    rewrite Hy in M1. rewrite Hx in M2.
    assert (Hrc : round_nneg (fst (scale10 (lo + 1) 1 (n0 - j))) (snd (scale10 (lo + 1) 1 (n0 - j))) = u) by lia.
    pose proof (Hcand (lo + 1) ltac:(lia) Hrc) as Hiv.
    apply andb_false_iff in Fokhi. destruct Fokhi as [F|F]; [|congruence].
    (* r = 0: x is the lower candidate itself, which then passes *)
    apply negb_false_iff in F. apply Z.eqb_eq in F.
    assert (Hm0 : m = 0 /\ R = 0) by nia. destruct Hm0 as [Hm0 HR0].
    assert (Hxlo2 : a * snd (scale10 lo 1 (n0 - j)) <= fst (scale10 lo 1 (n0 - j)) * b).
    { assert (Hs : qa <= qb * (lo * t)) by nia.
      pose proof (cand_scale lo j n0 ltac:(lia)) as Hcs. cbv zeta in Hcs. fold p t in Hcs.
      unfold qa, qb, sc_qa, sc_qb in Hs. fold a b in Hs. unfold cand in Hcs.
      pose proof (pow10_pos (Z.abs p) ltac:(lia)) as HP. set (P := 10 ^ Z.abs p) in *.
      destruct (0 <=? p); cbn [fst snd] in Hcs.
      - apply (proj2 (Z.mul_le_mono_pos_r _ _ P HP)).
        replace (fst (scale10 lo 1 (n0 - j)) * b * P) with (b * (fst (scale10 lo 1 (n0 - j)) * P)) by ring.
        rewrite <- Hcs. replace (b * (lo * t * snd (scale10 lo 1 (n0 - j)))) with (b * (lo * t) * snd (scale10 lo 1 (n0 - j))) by ring.
        replace (a * snd (scale10 lo 1 (n0 - j)) * P) with (a * P * snd (scale10 lo 1 (n0 - j))) by ring.
        apply Z.mul_le_mono_nonneg_r; lia.
      - rewrite Z.mul_1_r in Hcs. rewrite <- Hcs.
        replace (lo * t * P * snd (scale10 lo 1 (n0 - j)) * b) with (b * P * (lo * t) * snd (scale10 lo 1 (n0 - j))) by ring.
        apply Z.mul_le_mono_nonneg_r; lia. }
    pose proof (round_mono a b _ _ Ha Hb Hla Hlb Hxlo2) as M3.
    pose proof (round_mono _ _ a b Hla Hlb Ha Hb Hxlo) as M4. rewrite Hx in M3, M4.
    assert (Hrc2 : round_nneg (fst (scale10 lo 1 (n0 - j))) (snd (scale10 lo 1 (n0 - j))) = u) by lia.
    pose proof (Hcand lo ltac:(lia) Hrc2). congruence.
Qed.
