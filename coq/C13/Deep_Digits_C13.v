(* C13 deepening: the repaired digit generation of toExponential / toPrecision (exact_decimal_digits +
   round_to_significant_digits, transliterated in Deep_Code_C13.v) computes the specification's (n, e).
   The one property of format!("{n:.767e}") that is used — its 768 digits are the COMPLETE decimal expansion, i.e.
   x * 10^(767-e) is an integer — is the section hypothesis [exact767] (it holds because a binary64 has at most 767
   significant decimal digits; named in the trusted base). *)
From Coq Require Import ZArith List Bool Lia.
From C13 Require Import Model_C13 Code_C13 Deep_Code_C13 Proofs_Round Proofs_Unique Proofs_Digits Proofs_Shortest Proofs_Radix Proofs_Strings.
Import ListNotations.
Local Open Scope list_scope.
Local Open Scope Z_scope.

(* ---------------------------------------------------------------------------------------------- *)
(* digit lists are canonical *)

Lemma num_of_inj A : forall B, Forall dig A -> Forall dig B -> List.length A = List.length B ->
  num_of 10 A = num_of 10 B -> A = B.
Proof.
  induction A as [|a A IH]; intros B HA HB HL HV; destruct B as [|b B]; try discriminate; [reflexivity|].
  cbn [List.length] in HL. injection HL as HL.
  apply Forall_cons_iff in HA. destruct HA as [Ha HA]. apply Forall_cons_iff in HB. destruct HB as [Hb HB].
  rewrite !num_of_cons in HV. rewrite <- HL in HV.
  pose proof (num_of_bounds A HA) as BA. pose proof (num_of_bounds B HB) as BB. rewrite <- HL in BB.
  set (T := 10 ^ Z.of_nat (List.length A)) in *.
  assert (a = b) by nia. subst b. f_equal. apply IH; try assumption. lia.
Qed.

Lemma digs_canon A c : Forall dig A -> Z.of_nat (List.length A) = c -> 1 <= c -> 10 ^ (c - 1) <= num_of 10 A ->
  digs 10 (num_of 10 A) = A.
Proof.
  intros HA HL Hc Hlo. pose proof (num_of_bounds A HA) as HB. rewrite HL in HB.
  pose proof (pow10_pos (c - 1) ltac:(lia)).
  apply num_of_inj; [apply digs_range; lia|exact HA| |apply digs_value; lia].
  apply Nat2Z.inj. rewrite HL. apply digs_length; lia.
Qed.

Lemma zeros_of_num0 A : Forall dig A -> num_of 10 A = 0 -> A = repeat 0 (List.length A).
Proof.
  induction 1 as [|d A Hd HA IH]; intros HV; [reflexivity|].
  rewrite num_of_cons in HV. pose proof (num_of_bounds A HA). pose proof (pow10_pos (Z.of_nat (List.length A)) ltac:(lia)).
  unfold is_dig in Hd. assert (d = 0) by nia. subst d. cbn [List.length repeat]. f_equal. apply IH. lia.
Qed.

Lemma removelast_repeat0 n : removelast (repeat 0 (S n)) = repeat 0 n.
Proof. induction n as [|n IH]; [reflexivity|]. change (repeat 0 (S (S n))) with (0 :: repeat 0 (S n)). cbn [removelast]. rewrite IH. reflexivity. Qed.

Lemma num_of_snoc l d : num_of 10 (l ++ [d]) = num_of 10 l * 10 + d.
Proof. rewrite num_of_app. cbn. lia. Qed.

(* the backward carry loop adds one *)
Lemma incr_rev_spec rd : Forall dig rd ->
  Forall dig (fst (incr_rev rd)) /\ List.length (fst (incr_rev rd)) = List.length rd /\
  num_of 10 (rev (fst (incr_rev rd))) + (if snd (incr_rev rd) then 10 ^ Z.of_nat (List.length rd) else 0) = num_of 10 (rev rd) + 1.
Proof.
  induction 1 as [|d r Hd Hr IH]; [cbn; repeat split; constructor|].
  cbn [incr_rev]. destruct (Z.eqb_spec d 9) as [->|NE].
  - destruct (incr_rev r) as [r' c] eqn:E. cbn [fst snd] in *. destruct IH as (F & L & V).
    split; [constructor; [unfold is_dig; lia|exact F]|]. split; [cbn [List.length]; lia|].
    cbn [rev List.length]. rewrite !num_of_snoc, Nat2Z.inj_succ, Z.pow_succ_r by lia. destruct c; lia.
  - cbn [fst snd]. unfold is_dig in Hd. split; [constructor; [unfold is_dig; lia|exact Hr]|]. split; [reflexivity|].
    cbn [rev]. rewrite !num_of_snoc. lia.
Qed.

(* ---------------------------------------------------------------------------------------------- *)
(* reading digits off an L-digit number *)

Lemma firstn_digits N L c : 1 <= c < L -> 10 ^ (L - 1) <= N < 10 ^ L ->
  let D := digs 10 N in let T := 10 ^ (L - c) in
  Forall dig (firstn (Z.to_nat c) D) /\ Z.of_nat (List.length (firstn (Z.to_nat c) D)) = c /\
  num_of 10 (firstn (Z.to_nat c) D) = N / T /\
  ((5 <=? nth (Z.to_nat c) D 0) = (T <=? 2 * (N mod T))).
Proof.
  intros Hc HN. cbv zeta. pose proof (pow10_pos (L - 1) ltac:(lia)) as HpL.
  pose proof (digs_range 10 N ltac:(lia) ltac:(lia)) as HD. pose proof (digs_value 10 N ltac:(lia)) as HV.
  pose proof (digs_length N L ltac:(lia) HN) as HL. set (D := digs 10 N) in *.
  destruct (Forall_firstn_skipn dig (Z.to_nat c) D HD) as [HA HB].
  pose proof (firstn_skipn (Z.to_nat c) D) as Hsplit.
  set (A := firstn (Z.to_nat c) D) in *. set (B := skipn (Z.to_nat c) D) in *.
  assert (HlA : Z.of_nat (List.length A) = c) by (unfold A; rewrite firstn_length; lia).
  assert (HlB : Z.of_nat (List.length B) = L - c) by (unfold B; rewrite skipn_length; lia).
  pose proof (pow10_pos (L - c) ltac:(lia)) as HT. set (T := 10 ^ (L - c)) in *.
  assert (HVs : N = num_of 10 A * T + num_of 10 B) by (rewrite <- HV, <- Hsplit, num_of_app, HlB; reflexivity).
  pose proof (num_of_bounds B HB) as BB. rewrite HlB in BB. fold T in BB.
  assert (Hq : N / T = num_of 10 A) by (symmetry; apply (Z.div_unique N T (num_of 10 A) (num_of 10 B)); lia).
  assert (Hm : N mod T = num_of 10 B) by (symmetry; apply (Z.mod_unique N T (num_of 10 A) (num_of 10 B)); lia).
  split; [exact HA|]. split; [exact HlA|]. split; [symmetry; exact Hq|].
  (* the first dropped digit *)
  assert (Hnth : nth (Z.to_nat c) D 0 = hd 0 B).
  { rewrite <- Hsplit. assert (HlA' : List.length A = Z.to_nat c) by lia. rewrite <- HlA'.
    destruct B as [|d B']; [cbn [List.length] in HlB; lia|]. rewrite nth_middle. reflexivity. }
  rewrite Hnth, Hm. destruct B as [|d B']; [cbn [List.length] in HlB; lia|].
  cbn [hd]. apply Forall_cons_iff in HB. destruct HB as [Hd HB']. rewrite num_of_cons.
  pose proof (num_of_bounds B' HB') as BB'. cbn [List.length] in HlB. rewrite Nat2Z.inj_succ in HlB.
  assert (ET : T = 10 * 10 ^ Z.of_nat (List.length B')).
  { unfold T. replace (L - c) with (Z.of_nat (List.length B') + 1) by lia. apply pow10_S. lia. }
  pose proof (pow10_pos (Z.of_nat (List.length B')) ltac:(lia)). set (T' := 10 ^ Z.of_nat (List.length B')) in *.
  unfold is_dig in Hd. destruct (Z.leb_spec 5 d); destruct (Z.leb_spec T (2 * (d * T' + num_of 10 B'))); try reflexivity; nia.
Qed.

(* ---------------------------------------------------------------------------------------------- *)
(* the exact expansion and rounding half up at a coarser digit *)

Lemma half_up_from_exact a b P p : 0 <= a -> 0 < b -> 0 <= P -> p <= P -> (a * 10 ^ P) mod b = 0 ->
  let N := a * 10 ^ P / b in let T := 10 ^ (P - p) in
  round_half_up a b p = N / T + (if T <=? 2 * (N mod T) then 1 else 0).
Proof.
  intros Ha Hb HP Hp Hex. cbv zeta. set (N := a * 10 ^ P / b). set (T := 10 ^ (P - p)).
  pose proof (pow10_pos (P - p) ltac:(lia)) as HT. fold T in HT.
  assert (HN : a * 10 ^ P = b * N) by (unfold N; pose proof (Z.div_mod (a * 10 ^ P) b ltac:(lia)); lia).
  destruct (scale10_pos a b p Ha Hb) as [Hn Hd]. unfold round_half_up.
  assert (Hcross : fst (scale10 a b p) * T = N * snd (scale10 a b p)).
  { unfold scale10. destruct (Z.leb_spec 0 p); cbn [fst snd].
    - replace (a * 10 ^ p * T) with (a * (10 ^ p * T)) by ring. unfold T. rewrite <- Z.pow_add_r by lia.
      replace (p + (P - p)) with P by lia. rewrite HN. ring.
    - assert (T = 10 ^ P * 10 ^ (- p)) by (unfold T; rewrite <- Z.pow_add_r by lia; f_equal; lia).
      rewrite H0. replace (a * (10 ^ P * 10 ^ (- p))) with (a * 10 ^ P * 10 ^ (- p)) by ring. rewrite HN. ring. }
  destruct (scale10 a b p) as [n d]. cbn [fst snd] in *.
  destruct (div_same_ratio n d N T Hd HT Hcross) as [Eq Er]. rewrite Eq.
  pose proof (Z.mod_pos_bound n d Hd). pose proof (Z.mod_pos_bound N T HT).
  set (r1 := n mod d) in *. set (r2 := N mod T) in *.
  destruct (Z.leb_spec d (2 * r1)); destruct (Z.leb_spec T (2 * r2)); try lia; exfalso.
  - assert (d * T <= 2 * r1 * T) by (apply Z.mul_le_mono_nonneg_r; lia).
    assert (2 * r2 * d < T * d) by (apply Z.mul_lt_mono_pos_r; lia). lia.
  - assert (2 * r1 * T < d * T) by (apply Z.mul_lt_mono_pos_r; lia).
    assert (T * d <= 2 * r2 * d) by (apply Z.mul_le_mono_nonneg_r; lia). lia.
Qed.

Section Exact767.
  (* format!("{n:.767e}") prints the complete decimal expansion: x * 10^(767 - e) is an integer *)
  Definition exact767_at (u : Z) : Prop :=
    let a := fst (ratio u) in let b := snd (ratio u) in (a * 10 ^ (767 - (dec_exp a b - 1))) mod b = 0.

  Lemma round_sig_model_spec u c : 0 < u < INF -> exact767_at u -> 1 <= c <= 101 ->
    let a := fst (ratio u) in let b := snd (ratio u) in
    round_sig_model u c = (digs 10 (fst (exp_digits a b (c - 1))), snd (exp_digits a b (c - 1))).
  Proof.
    intros Hu Hex Hc. cbv zeta. unfold exact767_at in Hex. cbv zeta in Hex.
    destruct (ratio_ival u ltac:(lia)) as (Hb & Ha0 & Hab).
    assert (Ha : 0 < fst (ratio u)).
    { pose proof SC_pos. pose proof (ival_mono_lt 0 u ltac:(lia) ltac:(lia)) as H0. rewrite ival_0 in H0.
      destruct (Z.eq_dec (fst (ratio u)) 0) as [E|NE]; [|lia]. rewrite E in Hab. nia. }
    unfold round_sig_model, fmt_e767. destruct (Z.eqb_spec u 0); [lia|].
    destruct (ratio u) as [a b] eqn:Er. cbn [fst snd] in *.
    destruct (dec_exp_spec a b Ha Hb) as [G L]. set (e := dec_exp a b - 1) in *.
    assert (He : -400 <= e -> True) by trivial.
    (* P = 767 - e >= 0 needs e <= 767: from x < 2^1024 *)
    assert (HeU : e <= 767).
    { destruct (Z_le_gt_dec e 767) as [C|C]; [exact C|exfalso].
      pose proof (G 0 ltac:(lia) ltac:(unfold e in C; lia)) as G1. rewrite Z.pow_0_r, Z.mul_1_r, Z.add_0_l in G1.
      assert (10 ^ 767 <= 10 ^ (dec_exp a b - 1)) by (apply pow10_le; unfold e in C; lia).
      (* a / b < 2^1024 < 10^767 *)
      pose proof SC_pos as HSC. pose proof (ival_mono_lt u INF ltac:(lia) ltac:(lia)) as HI.
      assert (HII : ival INF = p53 * 2 ^ 2045) by (rewrite INF_decomp; apply ival_enc; pose proof p52_pos; pose proof p53_eq; lia).
      assert (Hbig : p53 * 2 ^ 2045 <= 10 ^ 767 * SC) by (rewrite SC_eq; apply Z.leb_le; vm_compute; reflexivity).
      assert (a * SC < 10 ^ 767 * SC * b) by nia.
      assert (10 ^ 767 * b <= a) by nia. nia. }
    set (P := 767 - e) in *.
    assert (HP : 0 <= P) by (unfold P; lia).
    (* N = x * 10^P is a 768-digit integer *)
    set (N := a * 10 ^ P / b).
    assert (HN : a * 10 ^ P = b * N) by (unfold N; pose proof (Z.div_mod (a * 10 ^ P) b ltac:(lia)); lia).
    assert (HNr : 10 ^ 767 <= N < 10 ^ 768).
    { pose proof (G P HP ltac:(unfold P, e; lia)) as G1. pose proof (L P HP ltac:(unfold P, e; lia)) as L1.
      replace (P + dec_exp a b - 1) with 767 in G1 by (unfold P, e; lia). replace (P + dec_exp a b) with 768 in L1 by (unfold P, e; lia).
      rewrite HN in G1, L1. split; nia. }
    assert (Hrhe : round_half_even a b P = N).
    { unfold round_half_even, scale10. destruct (Z.leb_spec 0 P); [|lia]. fold N. rewrite Hex.
      change (2 * 0) with 0. destruct (Z.ltb_spec b 0); [lia|]. destruct (Z.ltb_spec 0 b); [reflexivity|lia]. }
    rewrite Hrhe. destruct (Z.eqb_spec N (10 ^ 768)); [lia|].
    (* digits *)
    destruct (firstn_digits N 768 c ltac:(lia) ltac:(change (768 - 1) with 767; exact HNr)) as (HA & HlA & HvA & Hnth).
    cbv zeta in HA, HlA, HvA, Hnth. rewrite Hnth.
    pose proof (half_up_from_exact a b P (c - 1 - e) ltac:(lia) Hb HP ltac:(unfold P; lia) Hex) as Hrh. cbv zeta in Hrh. fold N in Hrh.
    replace (P - (c - 1 - e)) with (768 - c) in Hrh by (unfold P; lia).
    set (T := 10 ^ (768 - c)) in *. set (A := firstn (Z.to_nat c) (digs 10 N)) in *.
    pose proof (pow10_pos (768 - c) ltac:(lia)) as HT. fold T in HT.
    assert (Hq : 10 ^ (c - 1) <= N / T < 10 ^ c).
    { assert (E1 : 10 ^ 767 = 10 ^ (c - 1) * T) by (unfold T; rewrite <- Z.pow_add_r by lia; f_equal; lia).
      assert (E2 : 10 ^ 768 = 10 ^ c * T) by (unfold T; rewrite <- Z.pow_add_r by lia; f_equal; lia).
      split; [apply Z.div_le_lower_bound; lia|apply Z.div_lt_upper_bound; lia]. }
    unfold exp_digits. fold e. rewrite Hrh. replace (c - 1 + 1) with c by lia.
    pose proof (pow10_pos (c - 1) ltac:(lia)) as Hpc.
    destruct (Z.leb_spec T (2 * (N mod T))) as [Cup|Cdn].
    - (* round up *)
      pose proof (incr_rev_spec (rev A) ltac:(apply Forall_rev; exact HA)) as (F & Ln & V).
      rewrite rev_length in Ln, V. rewrite rev_involutive in V. rewrite HlA, HvA in V.
      destruct (incr_rev (rev A)) as [r nines]. cbn [fst snd] in *.
      assert (Fr : Forall dig (rev r)) by (apply Forall_rev; exact F).
      assert (Lr : Z.of_nat (List.length (rev r)) = c) by (rewrite rev_length; lia).
      pose proof (num_of_bounds (rev r) Fr) as Br. rewrite Lr in Br.
      destruct nines.
      + (* 99..9 -> 10..0 *)
        assert (Hz : num_of 10 (rev r) = 0) by lia. assert (Hq1 : N / T + 1 = 10 ^ c) by lia.
        rewrite Hq1, Z.eqb_refl. cbn [fst snd]. f_equal.
        pose proof (zeros_of_num0 (rev r) Fr Hz) as Hzs. rewrite Hzs.
        assert (Hlen : List.length (rev r) = S (Z.to_nat (c - 1))) by lia. rewrite Hlen, removelast_repeat0.
        symmetry. replace (10 ^ (c - 1)) with (num_of 10 (1 :: repeat 0 (Z.to_nat (c - 1)))).
        * apply (digs_canon _ c); [constructor; [unfold is_dig; lia|apply dig_zeros]|cbn [List.length]; rewrite repeat_length; lia|lia|].
          rewrite num_of_cons, num_of_zeros, repeat_length, Z2Nat.id by lia. lia.
        * rewrite num_of_cons, num_of_zeros, repeat_length, Z2Nat.id by lia. lia.
      + assert (Hv : num_of 10 (rev r) = N / T + 1) by lia.
        destruct (Z.eqb_spec (N / T + 1) (10 ^ c)); [lia|]. cbn [fst snd]. f_equal.
        rewrite <- Hv. symmetry. apply (digs_canon _ c); [exact Fr|exact Lr|lia|lia].
    - rewrite Z.add_0_r. destruct (Z.eqb_spec (N / T) (10 ^ c)); [lia|]. cbn [fst snd]. f_equal.
      rewrite <- HvA. symmetry. apply (digs_canon _ c); [exact HA|exact HlA|lia|lia].
  Qed.
End Exact767.
