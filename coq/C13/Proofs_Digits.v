(* C13 proofs, part 3: decimal digit counting, decimal exponent, the "nearest n, larger n on ties" rounding used by
   toFixed / toExponential / toPrecision, and the exponent shortcuts of dec_value. *)
From Coq Require Import ZArith List Bool Lia.
From C13 Require Import Model_C13 Proofs_Round Proofs_Unique.
Local Open Scope Z_scope.

Lemma pow10_pos k : 0 <= k -> 0 < 10 ^ k.
Proof. intros; apply Z.pow_pos_nonneg; lia. Qed.
Lemma pow10_S k : 0 <= k -> 10 ^ (k + 1) = 10 * 10 ^ k.
Proof. intros. rewrite Z.pow_add_r by lia. lia. Qed.
Lemma pow10_le j k : 0 <= j <= k -> 10 ^ j <= 10 ^ k.
Proof. intros; apply Z.pow_le_mono_r; lia. Qed.

(* ---------------------------------------------------------------------------------------------- *)
(* nd: number of decimal digits *)

Lemma nd_fuel_spec f : forall n, 1 <= n -> n < 2 ^ (Z.of_nat f + 1) ->
  1 <= nd_fuel f n /\ 10 ^ (nd_fuel f n - 1) <= n < 10 ^ nd_fuel f n.
Proof.
  induction f as [|f IH]; intros n Hn Hlt.
  - change (2 ^ (Z.of_nat 0 + 1)) with 2 in Hlt. assert (n = 1) by lia. subst n. cbn. lia.
  - change (nd_fuel (S f) n) with (if n <? 10 then 1 else 1 + nd_fuel f (n / 10)).
    destruct (Z.ltb_spec n 10) as [C|C].
    + change (10 ^ (1 - 1)) with 1. change (10 ^ 1) with 10. lia.
    + assert (Hq : 1 <= n / 10) by (apply Z.div_le_lower_bound; lia).
      assert (Hq2 : n / 10 < 2 ^ (Z.of_nat f + 1)).
      { apply Z.div_lt_upper_bound; [lia|].
        rewrite Nat2Z.inj_succ in Hlt. replace (Z.succ (Z.of_nat f) + 1) with ((Z.of_nat f + 1) + 1) in Hlt by lia.
        rewrite pow2_S in Hlt by lia. pose proof (pow2_gt0 (Z.of_nat f + 1) ltac:(lia)). lia. }
      destruct (IH (n / 10) Hq Hq2) as (Hd & Hlo & Hhi).
      set (d := nd_fuel f (n / 10)) in *.
      pose proof (Z.div_mod n 10 ltac:(lia)) as Hdm. pose proof (Z.mod_pos_bound n 10 ltac:(lia)) as Hm.
      replace (1 + d - 1) with ((d - 1) + 1) by lia. replace (1 + d) with (d + 1) by lia.
      rewrite !pow10_S by lia. lia.
Qed.

Lemma nd_spec n : 1 <= n -> 1 <= nd n /\ 10 ^ (nd n - 1) <= n < 10 ^ nd n.
Proof.
  intros Hn. unfold nd. apply nd_fuel_spec; [exact Hn|].
  rewrite Z2Nat.id by apply Z.log2_nonneg.
  pose proof (Z.log2_spec n ltac:(lia)) as [_ H]. replace (Z.log2 n + 1) with (Z.succ (Z.log2 n)) by lia. exact H.
Qed.

(* ---------------------------------------------------------------------------------------------- *)
(* dec_exp a b = n  with  10^(n-1) <= a/b < 10^n  (stated with a common scale 10^c so that no negative power occurs) *)

Lemma dec_exp_spec a b : 0 < a -> 0 < b ->
  (forall c, 0 <= c -> 0 <= c + dec_exp a b - 1 -> 10 ^ (c + dec_exp a b - 1) * b <= a * 10 ^ c) /\
  (forall c, 0 <= c -> 0 <= c + dec_exp a b -> a * 10 ^ c < 10 ^ (c + dec_exp a b) * b).
Proof.
  intros Ha Hb. unfold dec_exp. destruct (Z.leb_spec b a) as [C|C].
  - assert (Hq : 1 <= a / b) by (apply Z.div_le_lower_bound; lia).
    destruct (nd_spec (a / b) Hq) as (Hd & Hlo & Hhi). set (d := nd (a / b)) in *.
    pose proof (Z.div_mod a b ltac:(lia)) as Hdm. pose proof (Z.mod_pos_bound a b Hb) as Hm.
    set (q := a / b) in *. set (r := a mod b) in *.
    assert (H1 : 10 ^ (d - 1) * b <= a).
    { assert (10 ^ (d - 1) * b <= q * b) by (apply Z.mul_le_mono_nonneg_r; lia). lia. }
    assert (H2 : a < 10 ^ d * b).
    { assert ((q + 1) * b <= 10 ^ d * b) by (apply Z.mul_le_mono_nonneg_r; lia). lia. }
    split; intros c Hc Hcn; pose proof (pow10_pos c Hc) as Hpc.
    + replace (c + d - 1) with ((d - 1) + c) by lia. rewrite Z.pow_add_r by lia.
      replace (10 ^ (d - 1) * 10 ^ c * b) with (10 ^ (d - 1) * b * 10 ^ c) by ring.
      apply Z.mul_le_mono_nonneg_r; lia.
    + replace (c + d) with (d + c) by lia. rewrite Z.pow_add_r by lia.
      replace (10 ^ d * 10 ^ c * b) with (10 ^ d * b * 10 ^ c) by ring.
      apply Z.mul_lt_mono_pos_r; lia.
  - assert (Hq : 1 <= b / a) by (apply Z.div_le_lower_bound; lia).
    destruct (nd_spec (b / a) Hq) as (Ht & Htlo & Hthi). set (t := nd (b / a)) in *.
    pose proof (Z.div_mod b a ltac:(lia)) as Hdm. pose proof (Z.mod_pos_bound b a Ha) as Hm.
    pose proof (pow10_pos t ltac:(lia)) as Hpt.
    assert (Hbt : b < a * 10 ^ t).
    { assert (a * (b / a + 1) <= a * 10 ^ t) by (apply Z.mul_le_mono_nonneg_l; lia). lia. }
    assert (Hq' : 1 <= a * 10 ^ t / b) by (apply Z.div_le_lower_bound; lia).
    destruct (nd_spec (a * 10 ^ t / b) Hq') as (Hd & Hlo & Hhi). set (d := nd (a * 10 ^ t / b)) in *.
    pose proof (Z.div_mod (a * 10 ^ t) b ltac:(lia)) as Hdm'. pose proof (Z.mod_pos_bound (a * 10 ^ t) b Hb) as Hm'.
    set (q := a * 10 ^ t / b) in *. set (r := (a * 10 ^ t) mod b) in *.
    assert (H1 : 10 ^ (d - 1) * b <= a * 10 ^ t).
    { assert (10 ^ (d - 1) * b <= q * b) by (apply Z.mul_le_mono_nonneg_r; lia). lia. }
    assert (H2 : a * 10 ^ t < 10 ^ d * b).
    { assert ((q + 1) * b <= 10 ^ d * b) by (apply Z.mul_le_mono_nonneg_r; lia). lia. }
    split; intros c Hc Hcn; pose proof (pow10_pos c Hc) as Hpc.
    + (* 10^(c+d-t-1) * b * 10^t = 10^(d-1) * b * 10^c <= a * 10^t * 10^c *)
      apply (proj2 (Z.mul_le_mono_pos_r _ _ (10 ^ t) Hpt)).
      replace (10 ^ (c + (d - t) - 1) * b * 10 ^ t) with (10 ^ (d - 1) * b * 10 ^ c).
      * replace (a * 10 ^ c * 10 ^ t) with (a * 10 ^ t * 10 ^ c) by ring. apply Z.mul_le_mono_nonneg_r; lia.
      * replace (10 ^ (c + (d - t) - 1) * b * 10 ^ t) with (10 ^ (c + (d - t) - 1) * 10 ^ t * b) by ring.
        rewrite <- Z.pow_add_r by lia. replace (c + (d - t) - 1 + t) with ((d - 1) + c) by lia.
        rewrite Z.pow_add_r by lia. ring.
    + apply (proj2 (Z.mul_lt_mono_pos_r (10 ^ t) _ _ Hpt)).
      replace (10 ^ (c + (d - t)) * b * 10 ^ t) with (10 ^ d * b * 10 ^ c).
      * replace (a * 10 ^ c * 10 ^ t) with (a * 10 ^ t * 10 ^ c) by ring. apply Z.mul_lt_mono_pos_r; lia.
      * replace (10 ^ (c + (d - t)) * b * 10 ^ t) with (10 ^ (c + (d - t)) * 10 ^ t * b) by ring.
        rewrite <- Z.pow_add_r by lia. replace (c + (d - t) + t) with (d + c) by lia.
        rewrite Z.pow_add_r by lia. ring.
Qed.

(* ---------------------------------------------------------------------------------------------- *)
(* "let n be an integer for which n / 10^f - x is as close to zero as possible; if there are two such n, pick the
   larger n"  (toFixed step 8.a; the same clause with e in toExponential 10.b and toPrecision 10.a) *)

Definition nearest_up (N D n : Z) : Prop := (2 * n - 1) * D <= 2 * N < (2 * n + 1) * D.

Lemma scale10_pos a b p : 0 <= a -> 0 < b -> 0 <= fst (scale10 a b p) /\ 0 < snd (scale10 a b p).
Proof.
  intros Ha Hb. unfold scale10. destruct (Z.leb_spec 0 p) as [C|C]; cbn [fst snd].
  - pose proof (pow10_pos p C). split; [apply Z.mul_nonneg_nonneg; lia|lia].
  - pose proof (pow10_pos (- p) ltac:(lia)). split; [lia|apply Z.mul_pos_pos; lia].
Qed.

Lemma round_half_up_spec a b p : 0 <= a -> 0 < b ->
  nearest_up (fst (scale10 a b p)) (snd (scale10 a b p)) (round_half_up a b p).
Proof.
  intros Ha Hb. destruct (scale10_pos a b p Ha Hb) as [HN HD]. unfold round_half_up, nearest_up.
  destruct (scale10 a b p) as [N D]. cbn [fst snd] in *.
  pose proof (Z.div_mod N D ltac:(lia)) as Hdm. pose proof (Z.mod_pos_bound N D HD) as Hm.
  set (q := N / D) in *. set (r := N mod D) in *.
  destruct (Z.leb_spec D (2 * r)) as [C|C]; nia.
Qed.

(* the declarative reading: no other integer is closer, and an equally close one is smaller *)
Theorem nearest_up_minimal N D n n' : 0 < D -> nearest_up N D n ->
  Z.abs (n * D - N) <= Z.abs (n' * D - N) /\ (Z.abs (n' * D - N) = Z.abs (n * D - N) -> n' <= n).
Proof.
  intros HD [H1 H2].
  destruct (Z.lt_trichotomy n' n) as [C|[C|C]].
  - assert (n' * D <= (n - 1) * D) by (apply Z.mul_le_mono_nonneg_r; lia). split; [|lia]. lia.
  - subst n'. split; lia.
  - assert ((n + 1) * D <= n' * D) by (apply Z.mul_le_mono_nonneg_r; lia). split; lia.
Qed.

Theorem nearest_up_unique N D n n' : 0 < D -> nearest_up N D n -> nearest_up N D n' -> n = n'.
Proof.
  intros HD [H1 H2] [H3 H4].
  destruct (Z.lt_trichotomy n' n) as [C|[C|C]]; [|lia|].
  - assert ((2 * n' + 1) * D <= (2 * n - 1) * D) by (apply Z.mul_le_mono_nonneg_r; lia). lia.
  - assert ((2 * n + 1) * D <= (2 * n' - 1) * D) by (apply Z.mul_le_mono_nonneg_r; lia). lia.
Qed.

(* exp_digits: the significand n has exactly f+1 digits, e is the decimal exponent, n * 10^(e-f) is nearest *)
Lemma exp_digits_spec a b f : 0 < a -> 0 < b -> 0 <= f ->
  let n := fst (exp_digits a b f) in let e := snd (exp_digits a b f) in
  10 ^ f <= n < 10 ^ (f + 1) /\
  (e = dec_exp a b - 1 /\ nearest_up (fst (scale10 a b (f - e))) (snd (scale10 a b (f - e))) n
   \/ e = dec_exp a b /\ n = 10 ^ f /\ nearest_up (fst (scale10 a b (f - e + 1))) (snd (scale10 a b (f - e + 1))) (10 ^ (f + 1))).
Proof.
  intros Ha Hb Hf. cbv zeta. unfold exp_digits.
  set (e0 := dec_exp a b - 1).
  pose proof (round_half_up_spec a b (f - e0) ltac:(lia) Hb) as Hn.
  destruct (scale10_pos a b (f - e0) ltac:(lia) Hb) as [HN HD].
  destruct (dec_exp_spec a b Ha Hb) as [G L].
  (* 10^f <= x * 10^(f-e0) < 10^(f+1), with (N, D) = scale10 a b (f - e0) *)
  assert (Hrange : 10 ^ f * snd (scale10 a b (f - e0)) <= fst (scale10 a b (f - e0)) /\
                   fst (scale10 a b (f - e0)) < 10 ^ (f + 1) * snd (scale10 a b (f - e0))).
  { unfold scale10. destruct (Z.leb_spec 0 (f - e0)) as [C|C]; cbn [fst snd].
    - pose proof (G (f - e0) C ltac:(unfold e0; lia)) as G1. pose proof (L (f - e0) C ltac:(unfold e0; lia)) as L1.
      replace (f - e0 + dec_exp a b - 1) with f in G1 by (unfold e0; lia).
      replace (f - e0 + dec_exp a b) with (f + 1) in L1 by (unfold e0; lia). lia.
    - pose proof (G 0 ltac:(lia) ltac:(unfold e0 in C; lia)) as G1. pose proof (L 0 ltac:(lia) ltac:(unfold e0 in C; lia)) as L1.
      rewrite Z.pow_0_r, Z.mul_1_r in G1, L1. rewrite !Z.add_0_l in G1, L1.
      assert (E1 : 10 ^ (dec_exp a b - 1) = 10 ^ f * 10 ^ (- (f - e0))).
      { rewrite <- Z.pow_add_r by lia. f_equal. unfold e0. lia. }
      assert (E2 : 10 ^ dec_exp a b = 10 ^ (f + 1) * 10 ^ (- (f - e0))).
      { rewrite <- Z.pow_add_r by lia. f_equal. unfold e0. lia. }
      rewrite E1 in G1. rewrite E2 in L1. split; [|]; lia. }
  set (N := fst (scale10 a b (f - e0))) in *. set (D := snd (scale10 a b (f - e0))) in *.
  set (n0 := round_half_up a b (f - e0)) in *. destruct Hrange as [R1 R2]. destruct Hn as [N1 N2].
  pose proof (pow10_pos f Hf) as Hpf. rewrite pow10_S in * by lia.
  assert (Hn0lo : 10 ^ f <= n0).
  { destruct (Z_le_gt_dec (10 ^ f) n0) as [C|C]; [exact C|exfalso].
    assert ((2 * n0 + 1) * D <= (2 * 10 ^ f - 1) * D) by (apply Z.mul_le_mono_nonneg_r; lia). lia. }
  assert (Hn0hi : n0 <= 10 * 10 ^ f).
  { destruct (Z_le_gt_dec n0 (10 * 10 ^ f)) as [C|C]; [exact C|exfalso].
    assert ((2 * (10 * 10 ^ f) + 1) * D <= (2 * n0 - 1) * D) by (apply Z.mul_le_mono_nonneg_r; lia). lia. }
  destruct (Z.eqb_spec n0 (10 * 10 ^ f)) as [E|NE]; cbn [fst snd].
  - split; [lia|]. right. split; [unfold e0; lia|]. split; [reflexivity|].
    replace (f - (e0 + 1) + 1) with (f - e0) by lia. fold N D. rewrite <- E. split; assumption.
  - split; [lia|]. left. split; [reflexivity|]. fold N D. split; assumption.
Qed.

(* ---------------------------------------------------------------------------------------------- *)
(* dec_value: the two exponent shortcuts agree with plain rounding *)

Lemma pow_10_311 : 2 ^ 1024 <= 10 ^ 311. Proof. apply Z.leb_le. vm_compute. reflexivity. Qed.
Lemma pow_10_331 : 2 ^ 1075 <= 10 ^ 331. Proof. apply Z.leb_le. vm_compute. reflexivity. Qed.

Theorem dec_value_plain neg m e : 0 < m ->
  dec_value neg m e = round_signed neg (fst (scale10 m 1 e)) (snd (scale10 m 1 e)).
Proof.
  intros Hm. unfold dec_value. destruct (Z.eqb_spec m 0) as [C|_]; [lia|].
  destruct (nd_spec m ltac:(lia)) as (Hd & Hlo & Hhi). set (d := nd m) in *.
  destruct (Z.ltb_spec 310 (e + d - 1)) as [C1|C1].
  - unfold round_signed. f_equal. symmetry. unfold scale10.
    pose proof pow_10_311 as HK. set (K := 2 ^ 1024) in *.
    destruct (Z.leb_spec 0 e) as [C|C]; cbn [fst snd]; apply round_overflow; try lia.
    + assert (10 ^ 311 <= 10 ^ (e + d - 1)) by (apply pow10_le; lia).
      assert (E : 10 ^ (e + d - 1) = 10 ^ (d - 1) * 10 ^ e) by (rewrite <- Z.pow_add_r by lia; f_equal; lia).
      pose proof (pow10_pos e C).
      assert (10 ^ (d - 1) * 10 ^ e <= m * 10 ^ e) by (apply Z.mul_le_mono_nonneg_r; lia). lia.
    + assert (10 ^ 311 <= 10 ^ (e + d - 1)) by (apply pow10_le; lia).
      assert (E : 10 ^ (d - 1) = 10 ^ (e + d - 1) * 10 ^ (- e)) by (rewrite <- Z.pow_add_r by lia; f_equal; lia).
      pose proof (pow10_pos (- e) ltac:(lia)).
      assert (K * 10 ^ (- e) <= 10 ^ (e + d - 1) * 10 ^ (- e)) by (apply Z.mul_le_mono_nonneg_r; lia).
      replace (K * (1 * 10 ^ (- e))) with (K * 10 ^ (- e)) by ring. lia.
  - destruct (Z.ltb_spec (e + d) (-330)) as [C2|C2]; [|destruct (scale10 m 1 e); reflexivity].
    unfold round_signed. f_equal. symmetry. unfold scale10.
    destruct (Z.leb_spec 0 e) as [C|C]; [lia|]. cbn [fst snd].
    pose proof pow_10_331 as HK. set (K := 2 ^ 1075) in *.
    pose proof (pow10_pos (- e) ltac:(lia)).
    apply round_underflow; [lia|apply Z.mul_pos_pos; lia|]. fold K.
    assert (E : 10 ^ (- e) = 10 ^ d * 10 ^ (- e - d)) by (rewrite <- Z.pow_add_r by lia; f_equal; lia).
    assert (10 ^ 331 <= 10 ^ (- e - d)) by (apply pow10_le; lia).
    pose proof (pow10_pos d ltac:(lia)).
    assert (m * K <= 10 ^ d * K) by (apply Z.mul_le_mono_nonneg_r; [unfold K; apply Z.lt_le_incl, pow2_gt0|]; lia).
    assert (10 ^ d * K <= 10 ^ d * 10 ^ (- e - d)) by (apply Z.mul_le_mono_nonneg_l; lia).
    lia.
Qed.

Lemma to_fixed_nearest a b f n' : 0 <= a -> 0 < b ->
  let N := fst (scale10 a b f) in let D := snd (scale10 a b f) in let n := round_half_up a b f in
  Z.abs (n * D - N) <= Z.abs (n' * D - N) /\ (Z.abs (n' * D - N) = Z.abs (n * D - N) -> n' <= n).
Proof.
  intros Ha Hb. cbv zeta. apply nearest_up_minimal; [apply scale10_pos; assumption|apply round_half_up_spec; assumption].
Qed.
