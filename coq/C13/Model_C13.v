(* C13 — Number <-> text conversions: the SPECIFICATION, as executable Gallina over exact integers.

   A double is its 64-bit pattern (a Z in [0, 2^64)); |x| = sig * 2^sh / 2^1074 with integers sig, sh.
   No floating point anywhere: every quantity is an integer or a pair (a, b) standing for the rational
   a / b with b > 0.  Strings are lists of UTF-16 code units (Z).

   The functions follow ECMA-262 clause by clause:
     round_nneg              the function written F(.) / "the Number value for" in ECMA-262 6.1.6.1:
                             round to nearest binary64, ties to even, overflow to Infinity
     shortest / to_string_spec      Number::toString(x, 10)        (6.1.6.1.20)
     string_to_number_spec          StringToNumber                 (7.1.4.1.1) + StringNumericLiteral grammar
     to_fixed_spec / to_exponential_spec / to_precision_spec       (21.1.3.3 / .2 / .5)
     radix_string_spec       Number.prototype.toString(radix) on integer values
     parse_float_spec / parse_int_spec                             (19.2.4 / 19.2.5)
     numeric_literal_spec    NumericLiteral of the source grammar (12.9.3 + Annex B.1.1), json_number_spec
   Only definitions live here (this file must keep compiling when a proof breaks). *)
From Coq Require Import ZArith List Bool String Ascii.
Import ListNotations.
Local Open Scope list_scope.
Local Open Scope Z_scope.

(* ------------------------------------------------------------------------------------------------ *)
(* strings *)

Definition ustr := list Z.

Fixpoint lit (s : string) : ustr :=
  match s with
  | EmptyString => []
  | String c r => Z.of_N (N_of_ascii c) :: lit r
  end.

Fixpoint ustr_eqb (a b : ustr) : bool :=
  match a, b with
  | [], [] => true
  | x :: a', y :: b' => (x =? y) && ustr_eqb a' b'
  | _, _ => false
  end.

(* is [p] a prefix of [s]?  returns the rest *)
Fixpoint strip_prefix (p s : ustr) : option ustr :=
  match p, s with
  | [], _ => Some s
  | x :: p', y :: s' => if x =? y then strip_prefix p' s' else None
  | _ :: _, [] => None
  end.

Definition zrepeat (c : Z) (n : Z) : ustr := repeat c (Z.to_nat n).

(* ------------------------------------------------------------------------------------------------ *)
(* binary64 bit patterns *)

Definition p52 : Z := 4503599627370496.
Definition p53 : Z := 9007199254740992.
Definition p63 : Z := 9223372036854775808.
Definition p64 : Z := 18446744073709551616.
Definition INF : Z := 9218868437227405312.   (* 0x7FF0000000000000 *)
Definition NAN : Z := 9221120237041090560.   (* 0x7FF8000000000000, the canonical NaN *)

Definition mag (b : Z) : Z := b mod p63.
Definition is_neg (b : Z) : bool := p63 <=? b.
Definition with_sign (neg : bool) (u : Z) : Z := if neg then p63 + u else u.

Definition bexp (u : Z) : Z := u / p52.
Definition bman (u : Z) : Z := u mod p52.
(* |x| = sig u * 2^(sh u) / 2^1074 for a magnitude pattern u < INF *)
Definition sig (u : Z) : Z := if bexp u =? 0 then bman u else p52 + bman u.
Definition sh (u : Z) : Z := if bexp u =? 0 then 0 else bexp u - 1.
(* the value in units of 2^-1074 (an integer): used in statements *)
Definition ival (u : Z) : Z := sig u * 2 ^ sh u.
(* the value as a reduced-size rational, used for computing *)
Definition ratio (u : Z) : Z * Z :=
  let s := sh u in
  if 1074 <=? s then (sig u * 2 ^ (s - 1074), 1) else (sig u, 2 ^ (1074 - s)).

(* ------------------------------------------------------------------------------------------------ *)
(* rational -> binary64, round to nearest, ties to even *)

(* floor (log2 (a / b)) for a, b > 0 *)
Definition log2floor (a b : Z) : Z :=
  let l := Z.log2 a - Z.log2 b in
  if (if 0 <=? l then a <? b * 2 ^ l else a * 2 ^ (- l) <? b) then l - 1 else l.

Definition round_nneg (a b : Z) : Z :=
  if a <=? 0 then 0 else
  let E := Z.max (log2floor a b - 52) (-1074) in
  let n := a * 2 ^ (Z.max 0 (- E)) in
  let d := b * 2 ^ (Z.max 0 E) in
  let M := n / d in
  let r := n mod d in
  let M' := if 2 * r <? d then M else if d <? 2 * r then M + 1 else if Z.even M then M else M + 1 in
  let u := (E + 1074) * p52 + M' in
  if INF <=? u then INF else u.

Definition round_signed (neg : bool) (a b : Z) : Z := with_sign neg (round_nneg a b).

(* ------------------------------------------------------------------------------------------------ *)
(* decimal scaling *)

(* (a / b) * 10^p *)
Definition scale10 (a b p : Z) : Z * Z :=
  if 0 <=? p then (a * 10 ^ p, b) else (a, b * 10 ^ (- p)).

Fixpoint nd_fuel (f : nat) (n : Z) : Z :=
  match f with
  | O => 1
  | S f' => if n <? 10 then 1 else 1 + nd_fuel f' (n / 10)
  end.
(* number of decimal digits of n >= 1 (1 for n <= 9) *)
Definition nd (n : Z) : Z := nd_fuel (Z.to_nat (Z.log2 n)) n.

(* the n with 10^(n-1) <= a/b < 10^n, for a, b > 0 *)
Definition dec_exp (a b : Z) : Z :=
  if b <=? a then nd (a / b)
  else let t := nd (b / a) in nd (a * 10 ^ t / b) - t.

Fixpoint digs_fuel (f : nat) (r n : Z) (acc : list Z) : list Z :=
  match f with
  | O => n :: acc
  | S f' => if n <? r then n :: acc else digs_fuel f' r (n / r) (n mod r :: acc)
  end.
(* digits of n >= 0 in radix r, most significant first ([0] for 0) *)
Definition digs (r n : Z) : list Z := digs_fuel (Z.to_nat (Z.log2 n)) r n [].

Definition digit_char (d : Z) : Z := if d <? 10 then 48 + d else 87 + d.
Definition dstr (r n : Z) : ustr := map digit_char (digs r n).
Definition dec_str (n : Z) : ustr := dstr 10 n.

(* ------------------------------------------------------------------------------------------------ *)
(* Number::toString(x, 10): shortest digits *)

(* F(s * 10^p) = u ? *)
Definition rounds_to (u s p : Z) : bool :=
  let (a, b) := scale10 s 1 p in round_nneg a b =? u.

(* "let n, k, s be integers such that k >= 1, 10^(k-1) <= s < 10^k, F(s * 10^(n-k)) is x, and k is as
   small as possible; if there are multiple possibilities for s, choose the value of s for which
   s * 10^(n-k) is closest in value to x; if there are two such possible values of s, choose the one that
   is even."

   Executable form.  For a given k only the two k-digit decimals that bracket x can be closest (and if any
   k-digit decimal rounds to x, one of these two does), so the search tries k = 1, 2, ..., 17 and tests
   exactly those two.  "F(v) is x" is tested as membership of v in the rounding interval of x,
        x - (gap below)/2  <=  v  <=  x + (gap above)/2        (closed iff the significand of x is even),
   which Proofs_C13 shows equivalent to [rounds_to] (theorem in_interval_iff_rounds_to).  Everything is scaled
   by 10^(17-n0) once, so that x*10^(17-n0) = W + R/qb with a 17-digit integer W, and the k-digit floor is
   W / 10^(17-k).  lo4, hi4 are the interval ends and qb4 the denominator, all in units of 1/(4 qb). *)
Definition gap_num (u : Z) : Z := let s := sh u in if 1074 <=? s then 2 ^ (s - 1074) else 1.
Definition at_binade (u : Z) : bool := (bman u =? 0) && (2 <=? bexp u).

Definition in_iv (closed : bool) (lo4 hi4 qb4 v : Z) : bool :=
  let c := v * qb4 in
  if closed then (lo4 <=? c) && (c <=? hi4) else (lo4 <? c) && (c <? hi4).

Fixpoint shortest_search (fuel : nat) (closed : bool) (lo4 hi4 qb4 qb W R n0 k : Z) : option (Z * Z * Z) :=
  match fuel with
  | O => None
  | S f =>
      let t := 10 ^ (17 - k) in
      let lo := W / t in
      let r := (W mod t) * qb + R in          (* x*10^(k-n0) = lo + r / (qb * t) *)
      let den := qb * t in
      let oklo := in_iv closed lo4 hi4 qb4 (lo * t) in
      let okhi := negb (r =? 0) && in_iv closed lo4 hi4 qb4 ((lo + 1) * t) in
      if oklo || okhi then
        let s := if oklo && okhi then
                   (if 2 * r <? den then lo else if den <? 2 * r then lo + 1
                    else if Z.even lo then lo else lo + 1)
                 else if oklo then lo else lo + 1 in
        Some (if s =? 10 ^ k then (10 ^ (k - 1), k, n0 + 1) else (s, k, n0))
      else shortest_search f closed lo4 hi4 qb4 qb W R n0 (k + 1)
  end.

(* (s, k, n) for a magnitude pattern 0 < u < INF *)
Definition shortest (u : Z) : option (Z * Z * Z) :=
  let (a, b) := ratio u in
  let n0 := dec_exp a b in
  let p := 17 - n0 in
  let P := 10 ^ Z.abs p in
  let g := gap_num u in
  let gl := if at_binade u then g else 2 * g in
  let lo4 := if 0 <=? p then (4 * a - gl) * P else 4 * a - gl in
  let hi4 := if 0 <=? p then (4 * a + 2 * g) * P else 4 * a + 2 * g in
  let qa := if 0 <=? p then a * P else a in
  let qb := if 0 <=? p then b else b * P in
  shortest_search 17 (Z.even u) lo4 hi4 (4 * qb) qb (qa / qb) (qa mod qb) n0 1.

Definition exp_suffix (e : Z) : ustr :=
  [101] ++ (if 0 <=? e then [43] else [45]) ++ dec_str (Z.abs e).

Definition take (n : Z) (s : ustr) : ustr := firstn (Z.to_nat n) s.
Definition drop (n : Z) (s : ustr) : ustr := skipn (Z.to_nat n) s.

(* steps 6-10 of Number::toString *)
Definition format_shortest (s k n : Z) : ustr :=
  let ds := dec_str s in
  if (k <=? n) && (n <=? 21) then ds ++ zrepeat 48 (n - k)
  else if (0 <? n) && (n <=? 21) then take n ds ++ [46] ++ drop n ds
  else if (-6 <? n) && (n <=? 0) then [48; 46] ++ zrepeat 48 (- n) ++ ds
  else if k =? 1 then ds ++ exp_suffix (n - 1)
  else take 1 ds ++ [46] ++ drop 1 ds ++ exp_suffix (n - 1).

Definition to_string_spec (bits : Z) : ustr :=
  let u := mag bits in
  if INF <? u then lit "NaN"
  else if u =? 0 then lit "0"
  else if u =? INF then (if is_neg bits then lit "-Infinity" else lit "Infinity")
  else match shortest u with
       | Some (s, k, n) => (if is_neg bits then [45] else []) ++ format_shortest s k n
       | None => lit "?"
       end.

(* ------------------------------------------------------------------------------------------------ *)
(* StringToNumber *)

Definition is_ws (c : Z) : bool :=
  (c =? 9) || (c =? 10) || (c =? 11) || (c =? 12) || (c =? 13) || (c =? 32) || (c =? 160) || (c =? 5760)
  || ((8192 <=? c) && (c <=? 8202)) || (c =? 8232) || (c =? 8233) || (c =? 8239) || (c =? 8287)
  || (c =? 12288) || (c =? 65279).

Fixpoint trim_start (s : ustr) : ustr :=
  match s with
  | c :: r => if is_ws c then trim_start r else s
  | [] => []
  end.
Definition trim_end (s : ustr) : ustr := rev (trim_start (rev s)).
Definition trim (s : ustr) : ustr := trim_end (trim_start s).

Definition is_digit (c : Z) : bool := (48 <=? c) && (c <=? 57).

(* leading decimal digits (as values) and the rest *)
Fixpoint span_digits (s : ustr) : list Z * ustr :=
  match s with
  | c :: r => if is_digit c then let (ds, r') := span_digits r in (c - 48 :: ds, r') else ([], s)
  | [] => ([], [])
  end.

Definition num_of (r : Z) (ds : list Z) : Z := fold_left (fun acc d => acc * r + d) ds 0.

(* ExponentPart, if a well-formed one is there; (0, s) otherwise *)
Definition scan_exp (s : ustr) : Z * ustr :=
  match s with
  | c :: r =>
      if (c =? 101) || (c =? 69) then
        let '(sg, r1) := match r with
                         | c1 :: r' => if c1 =? 43 then (1, r') else if c1 =? 45 then (-1, r') else (1, r)
                         | [] => (1, r)
                         end in
        let (ds, r2) := span_digits r1 in
        match ds with
        | [] => (0, s)
        | _ :: _ => (sg * num_of 10 ds, r2)
        end
      else (0, s)
  | [] => (0, s)
  end.

(* the longest prefix that is a StrUnsignedDecimalLiteral other than Infinity:
   (mantissa, decimal exponent, rest); value = mantissa * 10^exponent *)
Definition scan_decimal (s : ustr) : option (Z * Z * ustr) :=
  let (ip, r1) := span_digits s in
  let '(fp, r2) := match r1 with
                   | c :: r' => if c =? 46 then span_digits r' else ([], r1)
                   | [] => ([], r1)
                   end in
  match ip, fp with
  | [], [] => None
  | _, _ => let (e, r3) := scan_exp r2 in
            Some (num_of 10 (ip ++ fp), e - Z.of_nat (List.length fp), r3)
  end.

(* F(m * 10^e) with the sign; the two shortcuts avoid building 10^|e| for absurd exponents and are
   proved equal to the plain rounding (Proofs: dec_value_plain) *)
Definition dec_value (neg : bool) (m e : Z) : Z :=
  if m =? 0 then with_sign neg 0
  else if 310 <? e + nd m - 1 then with_sign neg INF
  else if e + nd m <? -330 then with_sign neg 0
  else let (a, b) := scale10 m 1 e in round_signed neg a b.

Definition radix_digit (c : Z) : Z :=
  if (48 <=? c) && (c <=? 57) then c - 48
  else if (97 <=? c) && (c <=? 122) then c - 87
  else if (65 <=? c) && (c <=? 90) then c - 55
  else 99.

(* all of s as radix-r digits *)
Fixpoint all_radix_digits (r : Z) (s : ustr) : option (list Z) :=
  match s with
  | [] => Some []
  | c :: s' => let d := radix_digit c in
               if d <? r then option_map (cons d) (all_radix_digits r s') else None
  end.

Definition nondecimal_prefix (s : ustr) : option (Z * ustr) :=
  match s with
  | 48 :: c :: r =>
      if (c =? 120) || (c =? 88) then Some (16, r)
      else if (c =? 111) || (c =? 79) then Some (8, r)
      else if (c =? 98) || (c =? 66) then Some (2, r)
      else None
  | _ => None
  end.

Definition split_sign (s : ustr) : bool * ustr :=
  match s with
  | c :: r => if c =? 45 then (true, r) else if c =? 43 then (false, r) else (false, s)
  | [] => (false, s)
  end.

Definition string_to_number_spec (s : ustr) : Z :=
  let t := trim s in
  match t with
  | [] => 0
  | _ :: _ =>
      match nondecimal_prefix t with
      | Some (r, body) =>
          match body, all_radix_digits r body with
          | _ :: _, Some ds => round_nneg (num_of r ds) 1
          | _, _ => NAN
          end
      | None =>
          let (neg, v) := split_sign t in
          if ustr_eqb v (lit "Infinity") then with_sign neg INF
          else match scan_decimal v with
               | Some (m, e, []) => dec_value neg m e
               | _ => NAN
               end
      end
  end.

(* parseFloat: longest prefix of the start-trimmed string that is a StrDecimalLiteral *)
Definition parse_float_spec (s : ustr) : Z :=
  let (neg, v) := split_sign (trim_start s) in
  match strip_prefix (lit "Infinity") v with
  | Some _ => with_sign neg INF
  | None => match scan_decimal v with
            | Some (m, e, _) => dec_value neg m e
            | None => NAN
            end
  end.

(* leading radix-r digits *)
Fixpoint span_radix (r : Z) (s : ustr) : list Z :=
  match s with
  | c :: s' => let d := radix_digit c in if d <? r then d :: span_radix r s' else []
  | [] => []
  end.

(* parseInt(string, radix) with radix already converted by ToInt32 (0 when undefined); mathInt is taken
   exactly (the specification's own latitude for > 20 decimal digits and for radices other than
   2,4,8,10,16,32 is handled by the comparison, not here) *)
Definition parse_int_spec (s : ustr) (radix : Z) : Z :=
  let (neg, v) := split_sign (trim_start s) in
  if negb (radix =? 0) && ((radix <? 2) || (36 <? radix)) then NAN else
  let r0 := if radix =? 0 then 10 else radix in
  let strip := (radix =? 0) || (radix =? 16) in
  let '(r, z) := match (if strip then nondecimal_prefix v else None) with
                 | Some (16, rest) => (16, rest)
                 | _ => (r0, v)
                 end in
  match span_radix r z with
  | [] => NAN
  | ds => let m := num_of r ds in
          if m =? 0 then with_sign neg 0 else round_signed neg m 1
  end.

(* ------------------------------------------------------------------------------------------------ *)
(* toFixed / toExponential / toPrecision *)

Inductive res := Str (s : ustr) | RangeError.

(* "let n be an integer for which n / 10^p - x is as close to zero as possible; if there are two such n,
   pick the larger n" for x = a/b *)
Definition round_half_up (a b p : Z) : Z :=
  let (n, d) := scale10 a b p in
  let q := n / d in
  if d <=? 2 * (n mod d) then q + 1 else q.

Definition to_fixed_spec (bits : Z) (f : Z) : res :=
  if (f <? 0) || (100 <? f) then RangeError else
  let u := mag bits in
  if INF <=? u then Str (to_string_spec bits) else
  let (a, b) := ratio u in
  if b * 10 ^ 21 <=? a then Str (to_string_spec bits) else
  let n := round_half_up a b f in
  let m := dec_str n in
  let k := Z.of_nat (List.length m) in
  let m := if f =? 0 then m else
             let m := if k <=? f then zrepeat 48 (f + 1 - k) ++ m else m in
             let k := Z.of_nat (List.length m) in
             take (k - f) m ++ [46] ++ drop (k - f) m in
  Str ((if is_neg bits && negb (u =? 0) then [45] else []) ++ m).

(* e and n with 10^f <= n < 10^(f+1) and n * 10^(e-f) nearest to a/b > 0, the larger on ties *)
Definition exp_digits (a b f : Z) : Z * Z :=
  let e := dec_exp a b - 1 in
  let n := round_half_up a b (f - e) in
  if n =? 10 ^ (f + 1) then (10 ^ f, e + 1) else (n, e).

Definition mantissa_point (ds : ustr) : ustr :=
  match ds with
  | c :: (_ :: _) as r => c :: 46 :: r
  | _ => ds
  end.

Definition exp_part (e : Z) : ustr :=
  [101] ++ (if 0 <=? e then [43] else [45]) ++ dec_str (Z.abs e).

(* fd = None: fractionDigits undefined *)
Definition to_exponential_spec (bits : Z) (fd : option Z) : res :=
  let u := mag bits in
  if INF <=? u then Str (to_string_spec bits) else
  let bad := match fd with Some f => (f <? 0) || (100 <? f) | None => false end in
  if bad then RangeError else
  let sgn := if is_neg bits && negb (u =? 0) then [45] else [] in
  if u =? 0 then
    Str (sgn ++ mantissa_point (zrepeat 48 (match fd with Some f => f + 1 | None => 1 end)) ++ exp_part 0)
  else
    let '(n, e) := match fd with
                   | Some f => let (a, b) := ratio u in exp_digits a b f
                   | None => match shortest u with Some (s, k, n) => (s, n - 1) | None => (0, 0) end
                   end in
    Str (sgn ++ mantissa_point (dec_str n) ++ exp_part e).

Definition to_precision_spec (bits : Z) (pd : option Z) : res :=
  match pd with
  | None => Str (to_string_spec bits)
  | Some p =>
      let u := mag bits in
      if INF <=? u then Str (to_string_spec bits) else
      if (p <? 1) || (100 <? p) then RangeError else
      let sgn := if is_neg bits && negb (u =? 0) then [45] else [] in
      let '(m, e, done) :=
        if u =? 0 then (zrepeat 48 p, 0, false)
        else let (a, b) := ratio u in
             let (n, e) := exp_digits a b (p - 1) in
             let m := dec_str n in
             if (e <? -6) || (p <=? e) then
               (mantissa_point m ++ [101] ++ (if 0 <? e then [43] else [45]) ++ dec_str (Z.abs e), e, true)
             else (m, e, false) in
      if done then Str (sgn ++ m)
      else if e =? p - 1 then Str (sgn ++ m)
      else if 0 <=? e then Str (sgn ++ take (e + 1) m ++ [46] ++ drop (e + 1) m)
      else Str (sgn ++ [48; 46] ++ zrepeat 48 (- (e + 1)) ++ m)
  end.

(* ------------------------------------------------------------------------------------------------ *)
(* toString(radix) on integer values: exact digits *)

(* the integer |x| if x is integer valued *)
Definition int_value (u : Z) : option Z :=
  let (a, b) := ratio u in
  if a mod b =? 0 then Some (a / b) else None.

Definition radix_string_spec (bits : Z) (r : Z) : option res :=
  if (r <? 2) || (36 <? r) then Some RangeError else
  if r =? 10 then Some (Str (to_string_spec bits)) else
  let u := mag bits in
  if INF <=? u then Some (Str (to_string_spec bits)) else
  match int_value u with
  | Some v => Some (Str ((if is_neg bits && negb (u =? 0) then [45] else []) ++ dstr r v))
  | None => None     (* fractional values in a radix other than 10: implementation-approximated *)
  end.

(* ------------------------------------------------------------------------------------------------ *)
(* NumericLiteral (source text) and JSON numbers *)

Inductive lit_res := LNum (bits : Z) | LSyntaxError.

(* remove numeric separators; None if one is misplaced (leading, trailing, doubled) *)
Fixpoint strip_sep_aux (prev_digit : bool) (s : ustr) : option ustr :=
  match s with
  | [] => if prev_digit then Some [] else None
  | c :: r =>
      if c =? 95 then
        (if prev_digit then
           match r with
           | [] => None
           | c' :: _ => if c' =? 95 then None else strip_sep_aux false r
           end
         else None)
      else option_map (cons c) (strip_sep_aux true r)
  end.
Definition strip_sep (s : ustr) : option ustr :=
  match s with [] => Some [] | _ => strip_sep_aux false s end.

Definition has_sep (s : ustr) : bool := existsb (fun c => c =? 95) s.
Definition all_digits (s : ustr) : bool := forallb is_digit s.
Definition all_octal (s : ustr) : bool := forallb (fun c => (48 <=? c) && (c <=? 55)) s.

(* split at the first code unit satisfying p *)
Fixpoint break_at (p : Z -> bool) (s : ustr) : ustr * ustr :=
  match s with
  | [] => ([], [])
  | c :: r => if p c then ([], s) else let (a, b) := break_at p r in (c :: a, b)
  end.

(* a separated digit run: non-empty runs of digits joined by single '_' ; the empty run is allowed when
   [allow_empty] *)
Definition sep_run_ok (allow_empty : bool) (s : ustr) : bool :=
  match s with
  | [] => allow_empty
  | _ => match strip_sep s with Some t => all_digits t | None => false end
  end.

Definition decimal_literal (s : ustr) : lit_res :=
  (* DecimalLiteral with separators: intpart [. fracpart] [e [+-] exppart] *)
  let (ip, r1) := break_at (fun c => (c =? 46) || (c =? 101) || (c =? 69)) s in
  let '(fp, r2, dot) := match r1 with
                        | c :: r' => if c =? 46
                                     then let (f, r'') := break_at (fun c => (c =? 101) || (c =? 69)) r' in (f, r'', true)
                                     else ([], r1, false)
                        | [] => ([], r1, false)
                        end in
  let ep_ok := match r2 with
               | [] => true
               | _ :: r' => let body := match r' with
                                        | c :: r'' => if (c =? 43) || (c =? 45) then r'' else r'
                                        | [] => []
                                        end in
                            sep_run_ok false body
               end in
  let ip_ok := sep_run_ok true ip &&
               match ip with
               | 48 :: _ :: _ => false          (* a leading 0 is followed by nothing in this branch *)
               | _ => true
               end in
  let fp_ok := sep_run_ok true fp in
  if ip_ok && fp_ok && ep_ok && negb (match ip, fp with [], [] => true | _, _ => false end) then
    let clean := filter (fun c => negb (c =? 95)) s in
    match scan_decimal clean with
    | Some (m, e, []) => LNum (dec_value false m e)
    | _ => LSyntaxError
    end
  else LSyntaxError.

Definition numeric_literal_spec (s : ustr) (strict : bool) : lit_res :=
  match nondecimal_prefix s with
  | Some (r, body) =>
      match strip_sep body with
      | Some ((_ :: _) as t) => match all_radix_digits r t with
                              | Some ds => LNum (round_nneg (num_of r ds) 1)
                              | None => LSyntaxError
                              end
      | _ => LSyntaxError
      end
  | None =>
      match s with
      | 48 :: c :: _ =>
          if is_digit c then
            (* LegacyOctalIntegerLiteral / NonOctalDecimalIntegerLiteral: sloppy mode only, no separators in the
               integer part; a NonOctalDecimalIntegerLiteral may continue as a DecimalLiteral (fraction, exponent,
               where separators are allowed again) *)
            if strict then LSyntaxError else
            let (head, rest) := break_at (fun c => negb (is_digit c)) s in
            if all_octal head then
              match rest, all_radix_digits 8 head with
              | [], Some ds => LNum (round_nneg (num_of 8 ds) 1)
              | _, _ => LSyntaxError
              end
            else match rest with
                 | 95 :: _ => LSyntaxError
                 | _ => match decimal_literal (49 :: rest) with
                        | LSyntaxError => LSyntaxError
                        | LNum _ => match scan_decimal (filter (fun c => negb (c =? 95)) s) with
                                    | Some (m, e, []) => LNum (dec_value false m e)
                                    | _ => LSyntaxError
                                    end
                        end
                 end
          else decimal_literal s
      | _ => decimal_literal s
      end
  end.

(* JSON number: -? (0 | [1-9][0-9]* ) (. [0-9]+)? ([eE] [+-]? [0-9]+)? *)
Definition json_number_spec (s : ustr) : lit_res :=
  let (neg, v) := match s with c :: r => if c =? 45 then (true, r) else (false, s) | [] => (false, s) end in
  let (ip, r1) := span_digits v in
  let ip_ok := match ip with [] => false | [_] => true | d :: _ => negb (d =? 0) end in
  let '(fp_ok, r2) := match r1 with
                      | c :: r' => if c =? 46 then
                                     let (f, r'') := span_digits r' in
                                     (match f with [] => false | _ => true end, r'')
                                   else (true, r1)
                      | [] => (true, r1)
                      end in
  let ep_ok := match r2 with
               | [] => true
               | _ :: _ => match scan_exp r2 with (_, []) => true | _ => false end
               end in
  if ip_ok && fp_ok && ep_ok then
    match scan_decimal v with
    | Some (m, e, []) => LNum (dec_value neg m e)
    | _ => LSyntaxError
    end
  else LSyntaxError.
