(* C13 deepening: the hypothesis of Deep_Digits_C13.v is a theorem — a binary64 value has at most 768 significant
   decimal digits: x * 10^(767 - e) is an integer for e = floor(log10 x).  (So the only thing assumed about
   format!("{n:.767e}") is that it prints the decimal expansion correctly rounded at the 768th digit.) *)
From Coq Require Import ZArith List Bool Lia.
From C13 Require Import Model_C13 Code_C13 Deep_Code_C13 Proofs_Round Proofs_Unique Proofs_Digits Proofs_Shortest Proofs_Radix
  Proofs_Strings Deep_Digits_C13 Deep_Format_C13.
Local Open Scope Z_scope.

Lemma pow_306_1021 : 10 ^ 306 <= 2 ^ 1021. Proof. apply Z.leb_le. vm_compute. reflexivity. Qed.

Theorem exact767_holds u : 0 < u < INF -> exact767_at u.
Proof.
  intros Hu. unfold exact767_at. cbv zeta.
  destruct (ratio_pos u Hu) as [Ha Hb]. destruct (dec_exp_spec _ _ Ha Hb) as [G _].
  destruct (u_decomp u ltac:(lia)) as (_ & Hs & Hsig & _). pose proof p53_eq. pose proof p52_eq.
  revert Ha Hb G. unfold ratio. destruct (Z.leb_spec 1074 (sh u)) as [C|C]; cbn [fst snd]; intros Ha Hb G.
  - apply Z.mod_1_r.
  - set (s := sh u) in *. set (a := sig u) in *. set (b := 2 ^ (1074 - s)) in *. set (e := dec_exp a b - 1) in *.
    assert (He : e <= s - 307).
    { destruct (Z_le_gt_dec e (s - 307)) as [D|D]; [exact D|exfalso].
      pose proof (G 400 ltac:(lia) ltac:(unfold e in D; lia)) as G1.
      replace (400 + dec_exp a b - 1) with (400 + e) in G1 by (unfold e; lia).
      assert (H1 : 10 ^ (94 + s) <= 10 ^ (400 + e)) by (apply pow10_le; lia).
      assert (H2 : 2 ^ s <= 10 ^ s) by (apply Z.pow_le_mono_l; lia).
      pose proof (pow2_gt0 s Hs) as P2s. pose proof (pow2_gt0 (1074 - s) ltac:(lia)) as Pb. fold b in Pb.
      pose proof (pow10_pos 94 ltac:(lia)) as P94. pose proof (pow10_pos 400 ltac:(lia)) as P400.
      assert (E1 : 10 ^ (94 + s) = 10 ^ 94 * 10 ^ s) by (apply Z.pow_add_r; lia).
      assert (E2 : 2 ^ s * b = 2 ^ 1074) by (unfold b; rewrite <- Z.pow_add_r by lia; f_equal; lia).
      assert (E3 : 10 ^ 400 = 10 ^ 94 * 10 ^ 306) by (rewrite <- Z.pow_add_r by lia; reflexivity).
      assert (E4 : 2 ^ 1074 = 2 ^ 53 * 2 ^ 1021) by (rewrite <- Z.pow_add_r by lia; reflexivity).
      pose proof pow_306_1021 as HK.
      (* 10^94 2^1074 <= 10^(94+s) b <= 10^(400+e) b <= a 10^400 < 2^53 10^400 = 2^53 10^94 10^306 <= 2^53 10^94 2^1021 *)
      assert (10 ^ 94 * 2 ^ 1074 <= 10 ^ (94 + s) * b).
      { rewrite E1, <- E2. replace (10 ^ 94 * (2 ^ s * b)) with (10 ^ 94 * 2 ^ s * b) by ring.
        apply Z.mul_le_mono_nonneg_r; [lia|]. apply Z.mul_le_mono_nonneg_l; lia. }
      assert (10 ^ (94 + s) * b <= 10 ^ (400 + e) * b) by (apply Z.mul_le_mono_nonneg_r; lia).
      assert (a * 10 ^ 400 < 2 ^ 53 * 10 ^ 400) by (apply Z.mul_lt_mono_pos_r; lia).
      assert (2 ^ 53 * 10 ^ 400 <= 2 ^ 53 * (10 ^ 94 * 2 ^ 1021)).
      { rewrite E3. apply Z.mul_le_mono_nonneg_l; [lia|]. apply Z.mul_le_mono_nonneg_l; lia. }
      rewrite E4 in H3. lia. }
    set (P := 767 - e) in *. set (k := 1074 - s) in *.
    assert (EP : 10 ^ P = 10 ^ (P - k) * (5 ^ k * 2 ^ k)).
    { rewrite <- Z.pow_mul_l. change (5 * 2) with 10. rewrite <- Z.pow_add_r by (unfold P, k; lia). f_equal. lia. }
    rewrite EP. replace (a * (10 ^ (P - k) * (5 ^ k * 2 ^ k))) with (a * 10 ^ (P - k) * 5 ^ k * b) by (unfold b; ring).
    apply Z.mod_mul. unfold b. pose proof (pow2_gt0 k ltac:(unfold k; lia)). lia.
Qed.

(* the repaired toExponential / toPrecision are the specification functions, unconditionally *)
Theorem to_exponential_fixed_model_eq_spec_lemma bits fd : 0 <= bits ->
  to_exponential_fixed_model bits fd = to_exponential_spec bits fd.
Proof. intros Hb. apply to_exponential_fixed_eq; [exact Hb|apply exact767_holds]. Qed.

Theorem to_precision_fixed_model_eq_spec_lemma bits pd : 0 <= bits ->
  to_precision_fixed_model bits pd = to_precision_spec bits pd.
Proof. intros Hb. apply to_precision_fixed_eq; [exact Hb|apply exact767_holds]. Qed.
