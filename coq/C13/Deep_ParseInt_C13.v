(* C13 deepening: the repaired parseInt (exact BigUint accumulation, one rounding) IS the specification function. *)
From Coq Require Import ZArith List Bool Lia.
From C13 Require Import Model_C13 Code_C13 Deep_Code_C13 Proofs_Round Proofs_Unique.
Import ListNotations.
Local Open Scope Z_scope.

Lemma radix_digit_nonneg c : 0 <= c -> 0 <= radix_digit c.
Proof.
  intros Hc. unfold radix_digit.
  destruct (Z.leb_spec 48 c); destruct (Z.leb_spec c 57); cbn [andb]; try lia;
  destruct (Z.leb_spec 97 c); destruct (Z.leb_spec c 122); cbn [andb]; try lia;
  destruct (Z.leb_spec 65 c); destruct (Z.leb_spec c 90); cbn [andb]; lia.
Qed.

Lemma radix_digit_nonneg_any c : 0 <= radix_digit c.
Proof.
  unfold radix_digit.
  destruct (Z.leb_spec 48 c); destruct (Z.leb_spec c 57); cbn [andb]; try lia;
  destruct (Z.leb_spec 97 c); destruct (Z.leb_spec c 122); cbn [andb]; try lia;
  destruct (Z.leb_spec 65 c); destruct (Z.leb_spec c 90); cbn [andb]; lia.
Qed.

Lemma span_radix_nonneg r s : Forall (fun d => 0 <= d) (span_radix r s).
Proof.
  induction s as [|c s IH]; [constructor|]. cbn [span_radix]. destruct (radix_digit c <? r); [|constructor].
  constructor; [apply radix_digit_nonneg_any|exact IH].
Qed.

Lemma fold_nonneg r ds : 0 <= r -> Forall (fun d => 0 <= d) ds -> forall x, 0 <= x -> 0 <= fold_left (fun acc d => acc * r + d) ds x.
Proof.
  intros Hr H. induction H as [|d ds Hd _ IH]; intros x Hx; [exact Hx|]. cbn [fold_left]. apply IH. nia.
Qed.

Lemma round_int_zero v : 0 <= v -> (round_nneg v 1 =? 0) = (v =? 0).
Proof.
  intros Hv. destruct (Z.eqb_spec v 0) as [->|NE]; [reflexivity|].
  assert (H1 : round_nneg 1 1 <= round_nneg v 1) by (apply round_mono; lia).
  assert (E : round_nneg 1 1 = 4607182418800017408) by (vm_compute; reflexivity).
  destruct (Z.eqb_spec (round_nneg v 1) 0); [lia|reflexivity].
Qed.

Theorem parse_int_fixed_model_eq_spec_lemma s radix : parse_int_fixed_model s radix = parse_int_spec s radix.
Proof.
  unfold parse_int_fixed_model, parse_int_spec.
  destruct (split_sign (trim_start s)) as [neg v].
  destruct (negb (radix =? 0) && ((radix <? 2) || (36 <? radix))) eqn:Hbad; [reflexivity|].
  assert (Hr0 : 0 <= (if radix =? 0 then 10 else radix)).
  { destruct (Z.eqb_spec radix 0); [lia|]. cbn [negb andb] in Hbad. apply orb_false_iff in Hbad. destruct Hbad as [H1 _].
    apply Z.ltb_ge in H1. lia. }
  set (r0 := if radix =? 0 then 10 else radix) in *.
  assert (Hgen : forall r z, 0 <= r ->
            match span_radix r z with
            | [] => NAN
            | d :: ds' => let m := from_js_str_radix_fixed_model r (d :: ds') in if m =? 0 then with_sign neg 0 else with_sign neg m
            end =
            match span_radix r z with
            | [] => NAN
            | d :: ds' => let m := num_of r (d :: ds') in if m =? 0 then with_sign neg 0 else round_signed neg m 1
            end).
  { intros r z Hr. pose proof (span_radix_nonneg r z) as Hnn. destruct (span_radix r z) as [|d ds']; [reflexivity|].
    cbv zeta. assert (Hm : from_js_str_radix_fixed_model r (d :: ds') = round_nneg (num_of r (d :: ds')) 1).
    { unfold from_js_str_radix_fixed_model, f_of_int.
      destruct ((r <=? 16) && (Z.of_nat (List.length (d :: ds')) <=? 16)); reflexivity. }
    rewrite Hm. assert (Hv : 0 <= num_of r (d :: ds')) by (apply fold_nonneg; [exact Hr|exact Hnn|lia]).
    rewrite (round_int_zero _ Hv). destruct (num_of r (d :: ds') =? 0); reflexivity. }
  destruct (if (radix =? 0) || (radix =? 16) then nondecimal_prefix v else None) as [[r1 rest]|].
  - destruct r1 as [|p|p]; try (apply Hgen; exact Hr0).
    do 5 (destruct p as [p|p|]; try (apply Hgen; exact Hr0)). apply Hgen. lia.
  - apply Hgen. exact Hr0.
Qed.
