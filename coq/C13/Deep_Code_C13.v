(* C13 deepening — code-level models of the REPAIRED hand-written algorithms (commits d61e2e0, d706851, 285a849,
   6d777c7 in /repo), transliterated arm by arm next to the old ones of Code_C13.v:
     core/engine/src/builtins/number/mod.rs   exact_decimal_digits, round_to_significant_digits,
                                              f64_to_exponential_with_precision, to_precision, small_f64_to_fixed, to_fixed
     core/engine/src/builtins/number/globals.rs from_js_str_radix (exact BigUint arm), parse_int
     core/string/src/str.rs                   JsStr::to_number (guards, round-to-odd slow path)
   Third-party pieces enter by their specification (named in the trusted base):
     format!("{n:.767e}") / format!("{:.1100}")  = the decimal expansion rounded half-to-even at the requested digit
     BigUint::to_f64, `u64 as f64`               = round to nearest, ties to even (round_nneg)
     f64 * 2f64.powi(k)                          = IEEE multiplication (round_nneg on the exact product)
   Digits are kept as digit VALUES (0..9) where the Rust code holds ASCII bytes; digit_char maps back. *)
From Coq Require Import ZArith List Bool String Ascii.
From C13 Require Import Model_C13 Code_C13.
Import ListNotations.
Local Open Scope list_scope.
Local Open Scope Z_scope.

(* ------------------------------------------------------------------------------------------------ *)
(* mod.rs: exact_decimal_digits — format!("{n:.767e}"): 768 significant digits and the decimal exponent *)

Definition fmt_e767 (u : Z) : list Z * Z :=
  if u =? 0 then (repeat 0 768%nat, 0) else
  let (a, b) := ratio u in
  let e := dec_exp a b - 1 in
  let n := round_half_even a b (767 - e) in
  if n =? 10 ^ 768 then (1 :: repeat 0 767%nat, e + 1) else (digs 10 n, e).

(* the backward carry loop of round_to_significant_digits / small_f64_to_fixed over the reversed digits:
   '9' -> '0' and continue, anything else -> +1 and stop; the flag says that every digit was a 9 *)
Fixpoint incr_rev (rd : list Z) : list Z * bool :=
  match rd with
  | [] => ([], true)
  | d :: r => if d =? 9 then let (r', c) := incr_rev r in (0 :: r', c) else (d + 1 :: r, false)
  end.

(* fn round_to_significant_digits(n, count) *)
Definition round_sig_model (u count : Z) : list Z * Z :=
  let (digits, exponent) := fmt_e767 u in
  let round_up := 5 <=? nth (Z.to_nat count) digits 0 in
  let kept := firstn (Z.to_nat count) digits in
  if round_up then
    let (r, all_nines) := incr_rev (rev kept) in
    if all_nines then (1 :: removelast (rev r), exponent + 1)      (* digits.insert(0, '1'); digits.pop(); exponent += 1 *)
    else (rev r, exponent)
  else (kept, exponent).

(* fn f64_to_exponential_with_precision + Number.prototype.toExponential *)
Definition to_exponential_fixed_model (bits : Z) (fd : option Z) : res :=
  let u := mag bits in
  if INF <=? u then Str (to_string_spec bits) else
  match fd with
  | None => to_exponential_model bits None          (* f64_to_exponential: unchanged *)
  | Some f =>
      if (f <? 0) || (100 <? f) then RangeError else
      let sgn := if is_neg bits && negb (u =? 0) then [45] else [] in
      let (ds, e) := round_sig_model u (f + 1) in
      let cs := map digit_char ds in
      let rest := skipn 1 cs in
      Str (sgn ++ firstn 1 cs ++ (match rest with [] => [] | _ => [46] end) ++ rest ++ [101]
               ++ (if e <? 0 then [] else [43]) ++ int_str e)
  end.

(* Number.prototype.toPrecision on top of round_to_significant_digits *)
Definition to_precision_fixed_model (bits : Z) (pd : option Z) : res :=
  match pd with
  | None => Str (to_string_spec bits)
  | Some p =>
      let u := mag bits in
      if INF <=? u then Str (to_string_spec bits) else
      if (p <? 1) || (100 <? p) then RangeError else
      let prefix := if is_neg bits && negb (u =? 0) then [45] else [] in
      let '(suffix, exponent, finished) :=
        if u =? 0 then (zrepeat 48 p, 0, false)
        else
          let (ds, e1) := round_sig_model u p in
          let s2 := map digit_char ds in
          let great := p <=? e1 in
          if (e1 <? -6) || great then
            let s3 := if 1 <? p then insert_at 1 46 s2 else s2 in
            (s3 ++ [101] ++ (if great then [43] else []) ++ int_str e1, e1, true)
          else (s2, e1, false) in
      if finished then Str (prefix ++ suffix)
      else
        let e_inc := exponent + 1 in
        if e_inc =? p then Str (prefix ++ suffix)
        else if 0 <=? exponent then Str (prefix ++ insert_at e_inc 46 suffix)
        else Str (prefix ++ [48; 46] ++ zrepeat 48 (- e_inc) ++ suffix)
  end.

(* ------------------------------------------------------------------------------------------------ *)
(* mod.rs: small_f64_to_fixed — format!("{:.1100}") of 0 < x < 1e-10 is "0." and 1100 fraction digits *)

Definition fmt_f1100_fraction (u : Z) : list Z :=
  let (a, b) := ratio u in
  let ds := digs 10 (round_half_even a b 1100) in
  repeat 0 (1100 - List.length ds)%nat ++ ds.

Definition small_to_fixed_model (neg : bool) (u f : Z) : ustr :=
  let fraction := fmt_f1100_fraction u in
  let kept := firstn (Z.to_nat f) fraction in
  let digits := if 5 <=? nth (Z.to_nat f) fraction 0 then rev (fst (incr_rev (rev kept))) else kept in
  let sign := if neg then [45] else [] in
  match digits with
  | [] => sign ++ [48]
  | _ => sign ++ [48; 46] ++ map digit_char digits
  end.

Definition bits_1e_10 : Z := 4457293557087583675.      (* 0x3DDB7CDFD9D7BDBB = 1e-10 *)

(* Number.prototype.toFixed: range check, the new small-magnitude arm, else ryu-js (by its specification) *)
Definition to_fixed_fixed_model (bits f : Z) : res :=
  if (f <? 0) || (100 <? f) then RangeError else
  let u := mag bits in
  if negb (u =? 0) && (u <? bits_1e_10) then Str (small_to_fixed_model (is_neg bits) u f)
  else to_fixed_spec bits f.

(* ------------------------------------------------------------------------------------------------ *)
(* globals.rs: from_js_str_radix with the exact BigUint arm, parse_int *)

Definition from_js_str_radix_fixed_model (r : Z) (ds : list Z) : Z :=
  if (r <=? 16) && (Z.of_nat (List.length ds) <=? 16) then f_of_int (num_of r ds)      (* u64 accumulation, `as f64` *)
  else round_nneg (fold_left (fun acc d => acc * r + d) ds 0) 1.                        (* BigUint accumulation, to_f64 *)

Definition parse_int_fixed_model (s : ustr) (radix : Z) : Z :=
  let (neg, v) := split_sign (trim_start s) in
  if negb (radix =? 0) && ((radix <? 2) || (36 <? radix)) then NAN else
  let r0 := if radix =? 0 then 10 else radix in
  let strip := (radix =? 0) || (radix =? 16) in
  let '(r, z) := match (if strip then nondecimal_prefix v else None) with
                 | Some (16, rest) => (16, rest)
                 | _ => (r0, v)
                 end in
  match span_radix r z with
  | [] => NAN
  | ds => let m := from_js_str_radix_fixed_model r ds in
          if m =? 0 then with_sign neg 0 else with_sign neg m
  end.

(* ------------------------------------------------------------------------------------------------ *)
(* str.rs: JsStr::to_number with the repaired guards and the round-to-odd slow path *)

(* the loop: `mantissa.leading_zeros() >= shift` is `mantissa < 2^(64-shift)` *)
Fixpoint odd_loop (r shift : Z) (s : ustr) (mant ex : Z) (sticky : bool) : option (Z * Z * bool) :=
  match s with
  | [] => Some (mant, ex, sticky)
  | c :: s' =>
      let d := radix_digit c in
      if d <? r then
        if mant <? 2 ^ (64 - shift) then odd_loop r shift s' (mant * 2 ^ shift + d) ex sticky
        else odd_loop r shift s' mant (ex + shift) (sticky || negb (d =? 0))
      else None
  end.

(* (mantissa as f64) * 2f64.powi(exponent) *)
Definition f_scale2 (u k : Z) : Z :=
  if INF <=? u then INF else let (a, b) := ratio u in round_nneg (a * 2 ^ k) b.

Definition nondecimal_fixed_model (r : Z) (body : ustr) : Z :=
  match body with
  | [] => NAN
  | c :: _ =>
      if c =? 43 then NAN else
      match u32_from_str_radix r body with
      | Some v => f_of_int v
      | None =>
          let shift := if r =? 2 then 1 else if r =? 8 then 3 else 4 in
          match odd_loop r shift body 0 0 false with
          | Some (mant, ex, sticky) =>
              let m := if sticky then Z.lor mant 1 else mant in
              f_scale2 (f_of_int m) ex
          | None => NAN
          end
      end
  end.

Definition string_to_number_fixed_model (s : ustr) : Z :=
  let t := trim s in
  match t with
  | [] => 0
  | c0 :: rest =>
      if ustr_eqb t (lit "-Infinity") then with_sign true INF
      else if ustr_eqb t (lit "Infinity") || ustr_eqb t (lit "+Infinity") then INF
      else match nondecimal_prefix t with
           | Some (r, body) => nondecimal_fixed_model r body
           | None =>
               let is_i := fun c => (c =? 105) || (c =? 73) in
               let guard := is_i c0 || (((c0 =? 43) || (c0 =? 45)) && match rest with c1 :: _ => is_i c1 | [] => false end) in
               if guard then NAN else fast_float_parse_model t
           end
  end.
