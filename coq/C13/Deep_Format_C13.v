(* C13 deepening: the repaired toExponential / toPrecision (Deep_Code_C13.v) ARE the specification functions, for every
   double whose format!("{:.767e}") expansion is complete (hypothesis exact767_at, see Deep_Digits_C13.v). *)
From Coq Require Import ZArith List Bool Lia.
From C13 Require Import Model_C13 Code_C13 Deep_Code_C13 Proofs_Round Proofs_Unique Proofs_Digits Proofs_Shortest Proofs_Radix
  Proofs_Strings Deep_Digits_C13.
Import ListNotations.
Local Open Scope list_scope.
Local Open Scope Z_scope.

Lemma firstn_repeat {T} (x : T) n m : (n <= m)%nat -> firstn n (repeat x m) = repeat x n.
Proof. revert m. induction n as [|n IH]; intros m H; [reflexivity|]. destruct m as [|m]; [lia|]. cbn [repeat firstn]. f_equal. apply IH. lia. Qed.

Lemma mantissa_layout cs : firstn 1 cs ++ (match skipn 1 cs with [] => [] | _ => [46] end) ++ skipn 1 cs = mantissa_point cs.
Proof. destruct cs as [|c [|c2 r]]; reflexivity. Qed.

Lemma exp_layout e : [101] ++ (if e <? 0 then [] else [43]) ++ int_str e = exp_part e.
Proof.
  unfold int_str, exp_part. destruct (Z.ltb_spec e 0); destruct (Z.leb_spec 0 e); try lia; reflexivity.
Qed.

Lemma round_sig_model_zero c : 1 <= c <= 101 -> round_sig_model 0 c = (repeat 0 (Z.to_nat c), 0).
Proof.
  intros Hc. unfold round_sig_model, fmt_e767. change (0 =? 0) with true. cbv iota.
  rewrite nth_repeat. change (5 <=? 0) with false. cbv iota. rewrite firstn_repeat by lia. reflexivity.
Qed.

Lemma ratio_pos u : 0 < u < INF -> 0 < fst (ratio u) /\ 0 < snd (ratio u).
Proof.
  intros Hu. destruct (ratio_ival u ltac:(lia)) as (Hb & Ha0 & Hab). split; [|exact Hb].
  pose proof SC_pos. pose proof (ival_mono_lt 0 u ltac:(lia) ltac:(lia)) as H0. rewrite ival_0 in H0.
  destruct (Z.eq_dec (fst (ratio u)) 0) as [E|NE]; [|lia]. rewrite E in Hab. nia.
Qed.

Theorem to_exponential_fixed_eq bits fd : 0 <= bits ->
  (0 < mag bits < INF -> exact767_at (mag bits)) ->
  to_exponential_fixed_model bits fd = to_exponential_spec bits fd.
Proof.
  intros Hb Hex. unfold to_exponential_fixed_model, to_exponential_spec.
  pose proof (mag_range bits Hb) as Hm. set (u := mag bits) in *.
  destruct (Z.leb_spec INF u) as [C|C]; [reflexivity|].
  destruct fd as [f|].
  - destruct ((f <? 0) || (100 <? f)) eqn:Hbad; [reflexivity|].
    apply orb_false_iff in Hbad. destruct Hbad as [H1 H2]. apply Z.ltb_ge in H1. apply Z.ltb_ge in H2.
    destruct (Z.eqb_spec u 0) as [E|NE].
    + rewrite E. rewrite round_sig_model_zero by lia. unfold zrepeat. rewrite <- chars_zeros.
      rewrite <- mantissa_layout. rewrite <- (exp_layout 0). rewrite <- !app_assoc. reflexivity.
    + pose proof (round_sig_model_spec u (f + 1) ltac:(lia) (Hex ltac:(lia)) ltac:(lia)) as Hrs. cbv zeta in Hrs.
      rewrite Hrs. replace (f + 1 - 1) with f by lia. destruct (ratio u) as [a b]. cbn [fst snd].
      destruct (exp_digits a b f) as [n e]. cbn [fst snd].
      rewrite <- mantissa_layout, <- exp_layout. rewrite <- !app_assoc. reflexivity.
  - unfold to_exponential_model. fold u. destruct (Z.leb_spec INF u); [lia|]. reflexivity.
Qed.

Theorem to_precision_fixed_eq bits pd : 0 <= bits ->
  (0 < mag bits < INF -> exact767_at (mag bits)) ->
  to_precision_fixed_model bits pd = to_precision_spec bits pd.
Proof.
  intros Hb Hex. unfold to_precision_fixed_model, to_precision_spec. destruct pd as [p|]; [|reflexivity].
  pose proof (mag_range bits Hb) as Hm. set (u := mag bits) in *.
  destruct (Z.leb_spec INF u) as [C|C]; [reflexivity|].
  destruct ((p <? 1) || (100 <? p)) eqn:Hbad; [reflexivity|].
  apply orb_false_iff in Hbad. destruct Hbad as [H1 H2]. apply Z.ltb_ge in H1. apply Z.ltb_ge in H2.
  destruct (Z.eqb_spec u 0) as [E|NE].
  - (* zero *)
    cbv beta iota. destruct (Z.eqb_spec (0 + 1) p); destruct (Z.eqb_spec 0 (p - 1)); try lia; reflexivity.
  - pose proof (round_sig_model_spec u p ltac:(lia) (Hex ltac:(lia)) ltac:(lia)) as Hrs. cbv zeta in Hrs. rewrite Hrs.
    destruct (ratio_pos u ltac:(lia)) as [Ha Hbb].
    pose proof (exp_digits_spec (fst (ratio u)) (snd (ratio u)) (p - 1) Ha Hbb ltac:(lia)) as Hed. cbv zeta in Hed.
    destruct (ratio u) as [a b]. cbn [fst snd] in *.
    destruct (exp_digits a b (p - 1)) as [n e]. cbn [fst snd] in *. destruct Hed as [Hn _].
    replace (p - 1 + 1) with p in Hn by lia.
    pose proof (digs_length n p ltac:(lia) Hn) as HL. pose proof (digs_nonempty 10 n) as HN.
    fold (chars (digs 10 n)). rewrite <- dec_str_chars. rewrite dec_str_chars.
    set (D := chars (digs 10 n)) in *.
    assert (HlD : Z.of_nat (List.length D) = p) by (unfold D, chars; rewrite map_length; exact HL).
    assert (Hmp : (if 1 <? p then insert_at 1 46 D else D) = mantissa_point D).
    { destruct (Z.ltb_spec 1 p) as [C1|C1].
      - destruct D as [|c [|c2 r]]; cbn [List.length] in HlD; try lia. reflexivity.
      - destruct D as [|c [|c2 r]]; cbn [List.length] in HlD; try lia. reflexivity. }
    destruct ((e <? -6) || (p <=? e)) eqn:Hsci.
    + (* scientific *)
      rewrite Hmp. f_equal. f_equal. f_equal. f_equal. unfold int_str.
      apply orb_prop in Hsci.
      destruct (Z.leb_spec p e); destruct (Z.ltb_spec 0 e); destruct (Z.ltb_spec e 0); try lia; try reflexivity.
    + unfold insert_at.
      destruct (Z.eqb_spec (e + 1) p); destruct (Z.eqb_spec e (p - 1)); try lia; try reflexivity.
Qed.
