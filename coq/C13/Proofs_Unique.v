(* C13 proofs, part 2: rounding intervals are disjoint, so "a/b lies in the rounding interval of u" determines u:
   round_nneg is THE round-to-nearest-even function.  Consequences: invariance under the representation of the
   rational, monotonicity, every pattern rounds to itself, overflow and underflow thresholds. *)
From Coq Require Import ZArith List Bool Lia.
From C13 Require Import Model_C13 Proofs_Round.
Local Open Scope Z_scope.

Lemma even_succ_negb u : Z.even (u + 1) = negb (Z.even u).
Proof. rewrite Z.add_1_r, Z.even_succ, <- Z.negb_even. reflexivity. Qed.

(* the sums of neighbouring values (twice the midpoints) are ordered like the patterns *)
Lemma mids_le u v : 0 <= u -> u + 1 <= v -> ival u + ival (u + 1) <= ival (v - 1) + ival v.
Proof.
  intros Hu Hv. pose proof (ival_mono_le u (v - 1) Hu ltac:(lia)). pose proof (ival_mono_le (u + 1) v ltac:(lia) ltac:(lia)). lia.
Qed.
Lemma mids_lt u v : 0 <= u -> u + 1 < v -> ival u + ival (u + 1) < ival (v - 1) + ival v.
Proof.
  intros Hu Hv. pose proof (ival_mono_lt u (v - 1) Hu ltac:(lia)). pose proof (ival_mono_le (u + 1) v ltac:(lia) ltac:(lia)). lia.
Qed.

(* chains of cross-multiplied comparisons, in contexts small enough for nia/lia *)
Lemma chain_le X Y T T' b b' : 0 < b -> 0 < b' -> Y * b <= T -> T' <= X * b' -> T * b' <= T' * b -> Y <= X.
Proof.
  intros Hb Hb' H1 H2 H3.
  assert (Y * b * b' <= T * b') by (apply Z.mul_le_mono_nonneg_r; lia).
  assert (T' * b <= X * b' * b) by (apply Z.mul_le_mono_nonneg_r; lia).
  assert (0 < b * b') by (apply Z.mul_pos_pos; lia).
  apply (proj2 (Z.mul_le_mono_pos_r Y X (b * b') H4)). lia.
Qed.
Lemma chain_lt1 X Y T T' b b' : 0 < b -> 0 < b' -> Y * b < T -> T' <= X * b' -> T * b' <= T' * b -> Y < X.
Proof.
  intros Hb Hb' H1 H2 H3.
  assert (Y * b * b' < T * b') by (apply Z.mul_lt_mono_pos_r; lia).
  assert (T' * b <= X * b' * b) by (apply Z.mul_le_mono_nonneg_r; lia).
  assert (0 < b * b') by (apply Z.mul_pos_pos; lia).
  apply (proj2 (Z.mul_lt_mono_pos_r (b * b') Y X H4)). lia.
Qed.
Lemma chain_lt2 X Y T T' b b' : 0 < b -> 0 < b' -> Y * b <= T -> T' < X * b' -> T * b' <= T' * b -> Y < X.
Proof.
  intros Hb Hb' H1 H2 H3.
  assert (Y * b * b' <= T * b') by (apply Z.mul_le_mono_nonneg_r; lia).
  assert (T' * b < X * b' * b) by (apply Z.mul_lt_mono_pos_r; lia).
  assert (0 < b * b') by (apply Z.mul_pos_pos; lia).
  apply (proj2 (Z.mul_lt_mono_pos_r (b * b') Y X H4)). lia.
Qed.

(* if a/b <= a'/b' then the pattern of a/b cannot be above the pattern of a'/b' *)
Lemma interval_order u v a b a' b' : 0 < b -> 0 < b' -> a * b' <= a' * b ->
  in_interval u a b -> in_interval v a' b' -> u <= v.
Proof.
  intros Hb Hb' Hab ((Hu0 & HuI) & Hlo & _) ((Hv0 & HvI) & _ & Hhi).
  destruct (Z_le_gt_dec u v) as [C|C]; [exact C|exfalso].
  destruct Hhi as [E|(HvF & Hhi)]; [lia|].
  destruct Hlo as [E|(HuP & Hlo)]; [lia|].
  assert (Hc : 2 * (a * SC) * b' <= 2 * (a' * SC) * b).
  { pose proof SC_pos. replace (2 * (a * SC) * b') with (2 * SC * (a * b')) by ring.
    replace (2 * (a' * SC) * b) with (2 * SC * (a' * b)) by ring. apply Z.mul_le_mono_nonneg_l; lia. }
  set (X := ival v + ival (v + 1)) in *. set (Y := ival (u - 1) + ival u) in *.
  set (T := 2 * (a * SC)) in *. set (T' := 2 * (a' * SC)) in *.
  destruct (Z.eq_dec (v + 1) u) as [E|NE].
  - assert (HXY : X = Y) by (unfold X, Y; rewrite <- E; replace (v + 1 - 1) with v by lia; reflexivity).
    assert (Hpar : Z.even u = negb (Z.even v)) by (rewrite <- E; apply even_succ_negb).
    destruct (Z.even v) eqn:Ev; rewrite Hpar in Hlo; cbn [negb] in Hlo.
    + pose proof (chain_lt1 X Y T T' b b' Hb Hb' Hlo Hhi Hc). lia.
    + destruct (Z.even u) eqn:Eu.
      * pose proof (chain_lt2 X Y T T' b b' Hb Hb' Hlo Hhi Hc). lia.
      * discriminate.
  - pose proof (mids_lt v u Hv0 ltac:(lia)) as HXY. fold X Y in HXY.
    assert (Hlo' : Y * b <= T) by (destruct (Z.even u); lia).
    assert (Hhi' : T' <= X * b') by (destruct (Z.even v); lia).
    pose proof (chain_le X Y T T' b b' Hb Hb' Hlo' Hhi' Hc). lia.
Qed.

Theorem interval_unique u v a b : 0 < b -> in_interval u a b -> in_interval v a b -> u = v.
Proof.
  intros Hb Hu Hv.
  pose proof (interval_order u v a b a b Hb Hb ltac:(lia) Hu Hv).
  pose proof (interval_order v u a b a b Hb Hb ltac:(lia) Hv Hu). lia.
Qed.

Theorem round_unique a b u : 0 <= a -> 0 < b -> in_interval u a b -> round_nneg a b = u.
Proof. intros Ha Hb Hu. apply (interval_unique _ _ a b Hb); [apply round_in_interval; assumption|exact Hu]. Qed.

Theorem round_mono a b a' b' : 0 <= a -> 0 < b -> 0 <= a' -> 0 < b' -> a * b' <= a' * b ->
  round_nneg a b <= round_nneg a' b'.
Proof.
  intros. apply (interval_order _ _ a b a' b'); try assumption; apply round_in_interval; assumption.
Qed.

Theorem round_ratio a b a' b' : 0 <= a -> 0 < b -> 0 <= a' -> 0 < b' -> a * b' = a' * b ->
  round_nneg a b = round_nneg a' b'.
Proof.
  intros. pose proof (round_mono a b a' b'). pose proof (round_mono a' b' a b). lia.
Qed.

(* every pattern rounds to itself *)
Theorem round_exact u : 0 <= u <= INF -> round_nneg (ival u) SC = u.
Proof.
  intros Hu. pose proof SC_pos as HSC. apply round_unique; [apply ival_nonneg; lia|exact HSC|].
  split; [exact Hu|]. split.
  - destruct (Z.eq_dec u 0) as [E|NE]; [left; exact E|right]. split; [lia|].
    pose proof (ival_mono_lt (u - 1) u ltac:(lia) ltac:(lia)) as H.
    assert ((ival (u - 1) + ival u) * SC < 2 * (ival u * SC)).
    { replace (2 * (ival u * SC)) with ((ival u + ival u) * SC) by ring. apply Z.mul_lt_mono_pos_r; lia. }
    destruct (Z.even u); lia.
  - destruct (Z.eq_dec u INF) as [E|NE]; [left; exact E|right]. split; [lia|].
    pose proof (ival_mono_lt u (u + 1) ltac:(lia) ltac:(lia)) as H.
    assert (2 * (ival u * SC) < (ival u + ival (u + 1)) * SC).
    { replace (2 * (ival u * SC)) with ((ival u + ival u) * SC) by ring. apply Z.mul_lt_mono_pos_r; lia. }
    destruct (Z.even u); lia.
Qed.

(* thresholds *)
Lemma ival_1 : ival 1 = 1.
Proof. change 1 with (0 * p52 + 1) at 1. rewrite ival_enc; pose proof p52_pos; pose proof p53_eq; lia. Qed.

Theorem round_underflow a b : 0 <= a -> 0 < b -> a * 2 ^ 1075 <= b -> round_nneg a b = 0.
Proof.
  intros Ha Hb H. apply round_unique; try assumption.
  split; [rewrite INF_eq; pose proof p52_pos; lia|]. split; [left; reflexivity|].
  right. split; [rewrite INF_eq; pose proof p52_pos; lia|].
  change (Z.even 0) with true. cbv iota. change (0 + 1) with 1. rewrite ival_0, ival_1, SC_eq.
  replace (2 * (a * 2 ^ 1074)) with (a * 2 ^ 1075); [lia|].
  change 1075 with (1074 + 1). rewrite pow2_S by lia. ring.
Qed.

Theorem round_overflow a b : 0 < b -> 2 ^ 1024 * b <= a -> round_nneg a b = INF.
Proof.
  intros Hb H. pose proof p52_pos as Hp. pose proof p53_eq as H53.
  assert (Ha : 0 <= a). { pose proof (pow2_gt0 1024 ltac:(lia)). nia. }
  apply round_unique; try assumption.
  split; [rewrite INF_eq; lia|]. split; [|left; reflexivity].
  right. split; [rewrite INF_eq; lia|].
  assert (HevI : Z.even INF = true) by (rewrite INF_eq, Z.even_mul, p52_eq; reflexivity). rewrite HevI.
  assert (HI : ival INF = p53 * 2 ^ 2045) by (rewrite INF_decomp; apply ival_enc; lia).
  assert (HI1 : ival (INF - 1) = (p53 - 1) * 2 ^ 2045).
  { replace (INF - 1) with (2045 * p52 + (p53 - 1)) by (rewrite INF_decomp; lia). apply ival_enc; lia. }
  rewrite HI, HI1, SC_eq, H53, p52_eq.
  assert (E : 2 * (2 * 2 ^ 52) * 2 ^ 2045 = 2 * (2 ^ 1024 * 2 ^ 1074)).
  { rewrite <- !Z.pow_succ_r by lia. rewrite <- !Z.pow_add_r by lia. reflexivity. }
  pose proof (pow2_gt0 2045 ltac:(lia)) as HW. pose proof (pow2_gt0 1074 ltac:(lia)) as HS.
  set (W := 2 ^ 2045) in *. set (S := 2 ^ 1074) in *. set (K := 2 ^ 1024) in *. set (Q := 2 ^ 52) in *.
  clearbody W S K Q.
  assert (2 * (K * S) * b <= 2 * (a * S)).
  { replace (2 * (K * S) * b) with (2 * S * (K * b)) by ring. replace (2 * (a * S)) with (2 * S * a) by ring.
    apply Z.mul_le_mono_nonneg_l; lia. }
  assert (((2 * Q - 1) * W + 2 * Q * W) * b <= 2 * (2 * Q) * W * b).
  { apply Z.mul_le_mono_nonneg_r; [lia|]. nia. }
  rewrite E in H1. lia.
Qed.
