(* C13 proofs, part 6: the code-level models of boa's own digit algorithms (Code_C13.v) are refuted by computation:
   each witness is a concrete input on which the transliterated algorithm and the specification differ. *)
From Coq Require Import ZArith List Bool String.
From C13 Require Import Model_C13 Code_C13.
Local Open Scope Z_scope.

Lemma to_precision_refuted : exists bits p, to_precision_model bits (Some p) <> to_precision_spec bits (Some p).
Proof. exists bits_min_subnormal, 1. vm_compute. intro H. discriminate H. Qed.

Lemma to_exponential_refuted : exists bits f, to_exponential_model bits (Some f) <> to_exponential_spec bits (Some f).
Proof. exists bits_2_5, 0. vm_compute. intro H. discriminate H. Qed.

Lemma parse_int_refuted : exists s r, parse_int_model s r <> parse_int_spec s r.
Proof. exists (lit "1234567890123456789"), 0. vm_compute. intro H. discriminate H. Qed.

Lemma string_to_number_refuted : exists s, string_to_number_model s <> string_to_number_spec s.
Proof. exists (lit "-inf"). vm_compute. intro H. discriminate H. Qed.
