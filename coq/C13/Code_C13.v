(* C13 — code-level models: transliterations of boa's OWN digit algorithms (the hand-written parts of
   core/engine/src/builtins/number/{mod,globals}.rs and core/string/src/str.rs).  Third-party pieces are
   modelled by their specification and named where they enter:
     core::fmt `{:.100}` / `{:.prec$e}`  = exact decimal expansion rounded half-to-even at the requested digit
     `u64 as f64`, f64 `*`, `+`, `-`, `/`, `mul_add`, `%` = IEEE-754 (Model_C13.round_nneg on the exact result)
     ryu-js (toString, toFixed), fast-float2 (decimal StringToNumber, parseFloat) = the specification functions
   Every f64 here is a non-negative magnitude bit pattern. *)
From Coq Require Import ZArith List Bool String Ascii.
From C13 Require Import Model_C13.
Import ListNotations.
Local Open Scope list_scope.
Local Open Scope Z_scope.

(* ------------------------------------------------------------------------------------------------ *)
(* f64 arithmetic on integer-valued magnitudes, by exact rational + rounding *)

Definition f_of_int (v : Z) : Z := round_nneg v 1.                      (* `v as f64` *)
Definition f_mul_small (u r : Z) : Z :=                                   (* u * (r as f64) *)
  if INF <=? u then INF else let (a, b) := ratio u in round_nneg (a * r) b.
Definition f_add_small (u d : Z) : Z :=                                   (* u + (d as f64) *)
  if INF <=? u then INF else let (a, b) := ratio u in round_nneg (a + d * b) b.
Definition f_mul_add_small (u r d : Z) : Z :=                             (* u.mul_add(r, d): one rounding *)
  if INF <=? u then INF else let (a, b) := ratio u in round_nneg (a * r + d * b) b.
Definition f_div_small (u r : Z) : Z :=                                   (* u / (r as f64) *)
  if INF <=? u then INF else let (a, b) := ratio u in round_nneg a (b * r).

(* ------------------------------------------------------------------------------------------------ *)
(* globals.rs: from_js_str_radix + parse_int *)

(* fn from_js_str_radix: exact u64 accumulation when radix <= 16 and at most 16 digits, else the f64 loop
   `result = result * radix + digit` (two roundings per digit) *)
Definition from_js_str_radix_model (r : Z) (ds : list Z) : Z :=
  if (r <=? 16) && (Z.of_nat (List.length ds) <=? 16) then f_of_int (num_of r ds)
  else fold_left (fun acc d => f_add_small (f_mul_small acc r) d) ds 0.

Definition parse_int_model (s : ustr) (radix : Z) : Z :=
  let (neg, v) := split_sign (trim_start s) in
  if negb (radix =? 0) && ((radix <? 2) || (36 <? radix)) then NAN else
  let r0 := if radix =? 0 then 10 else radix in
  let strip := (radix =? 0) || (radix =? 16) in
  let '(r, z) := match (if strip then nondecimal_prefix v else None) with
                 | Some (16, rest) => (16, rest)
                 | _ => (r0, v)
                 end in
  match span_radix r z with
  | [] => NAN
  | ds => let m := from_js_str_radix_model r ds in
          if m =? 0 then with_sign neg 0 else with_sign neg m
  end.

(* ------------------------------------------------------------------------------------------------ *)
(* str.rs: JsStr::to_number, the 0b / 0o / 0x arm *)

(* u32::from_str_radix: optional '+', then at least one digit, value below 2^32 *)
Definition u32_from_str_radix (r : Z) (body : ustr) : option Z :=
  let digits := match body with c :: rest => if c =? 43 then rest else body | [] => body end in
  match digits, all_radix_digits r digits with
  | _ :: _, Some ds => let v := num_of r ds in if v <? 4294967296 then Some v else None
  | _, _ => None
  end.

(* the slow path: `value = value.mul_add(base, digit)` over every byte after the prefix *)
Fixpoint mul_add_loop (r : Z) (s : ustr) (acc : Z) : Z :=
  match s with
  | [] => acc
  | c :: s' => let d := radix_digit c in
               if d <? r then mul_add_loop r s' (f_mul_add_small acc r d) else NAN
  end.

Definition nondecimal_model (r : Z) (body : ustr) : Z :=
  match body with
  | [] => NAN
  | _ => match u32_from_str_radix r body with
         | Some v => f_of_int v
         | None => mul_add_loop r body 0
         end
  end.

(* fast_float2::parse by its specification: [+-]? ( "nan" | "inf" | "infinity" (any case) | decimal ), the
   whole input consumed; decimal = digits [. digits] [e [+-] digits] with at least one mantissa digit *)
Definition lower (c : Z) : Z := if (65 <=? c) && (c <=? 90) then c + 32 else c.
Definition ci_eqb (a b : ustr) : bool := ustr_eqb (map lower a) b.
Definition fast_float_parse_model (t : ustr) : Z :=
  let (neg, v) := split_sign t in
  if ci_eqb v (lit "nan") then NAN
  else if ci_eqb v (lit "inf") || ci_eqb v (lit "infinity") then with_sign neg INF
  else match scan_decimal v with
       | Some (m, e, []) => dec_value neg m e
       | _ => NAN
       end.

(* JsStr::to_number arm by arm: exact-match arms for the three Infinity spellings, the 0b/0o/0x arm (boa's own
   arithmetic), the guard "first byte is i or I -> NaN" (it looks at the first byte only), then fast-float2 *)
Definition string_to_number_model (s : ustr) : Z :=
  let t := trim s in
  match t with
  | [] => 0
  | c0 :: _ =>
      if ustr_eqb t (lit "-Infinity") then with_sign true INF
      else if ustr_eqb t (lit "Infinity") || ustr_eqb t (lit "+Infinity") then INF
      else match nondecimal_prefix t with
           | Some (r, body) => nondecimal_model r body
           | None => if (c0 =? 105) || (c0 =? 73) then NAN else fast_float_parse_model t
           end
  end.

(* ------------------------------------------------------------------------------------------------ *)
(* mod.rs: to_js_string_radix on integer values (the fraction loop is not entered: fraction = 0 < delta) *)

(* FloatCore::integer_decode(x).1 > 0  <=>  biased exponent >= 1076 *)
Definition exp_positive (u : Z) : bool := 1076 <=? bexp u.

Fixpoint radix_zeros (fuel : nat) (r : Z) (u : Z) (zeros : Z) : Z * Z :=
  match fuel with
  | O => (u, zeros)
  | S f => let q := f_div_small u r in
           if exp_positive q then radix_zeros f r q (zeros + 1) else (u, zeros)
  end.

Fixpoint radix_digits (fuel : nat) (r : Z) (u : Z) (acc : ustr) : ustr :=
  match fuel with
  | O => acc
  | S f =>
      let (a, b) := ratio u in
      let v := a / b in                               (* u is integer valued *)
      let rem := v mod r in                           (* fmod is exact *)
      let acc' := digit_char rem :: acc in
      let next := f_div_small (round_nneg (v - rem) 1) r in
      if next <=? 0 then acc' else radix_digits f r next acc'
  end.

Definition radix_int_model (bits r : Z) : option ustr :=
  let u := mag bits in
  if INF <=? u then None else
  match int_value u with
  | Some _ =>
      if u =? 0 then Some [48] else
      let (u1, zeros) := radix_zeros 1100 r u 0 in
      Some ((if is_neg bits then [45] else []) ++ radix_digits 1100 r u1 [] ++ zrepeat 48 zeros)
  | None => None
  end.

(* ------------------------------------------------------------------------------------------------ *)
(* mod.rs: to_exponential = format!("{:.prec$e}") + '+' insertion: ties go to the even digit *)

Definition round_half_even (a b p : Z) : Z :=
  let (n, d) := scale10 a b p in
  let q := n / d in
  let r2 := 2 * (n mod d) in
  if d <? r2 then q + 1 else if r2 <? d then q else if Z.even q then q else q + 1.

Definition exp_digits_even (a b f : Z) : Z * Z :=
  let e := dec_exp a b - 1 in
  let n := round_half_even a b (f - e) in
  if n =? 10 ^ (f + 1) then (10 ^ f, e + 1) else (n, e).

Definition to_exponential_model (bits : Z) (fd : option Z) : res :=
  let u := mag bits in
  if INF <=? u then Str (to_string_spec bits) else
  let bad := match fd with Some f => (f <? 0) || (100 <? f) | None => false end in
  if bad then RangeError else
  let sgn := if is_neg bits && negb (u =? 0) then [45] else [] in
  if u =? 0 then
    Str (sgn ++ mantissa_point (zrepeat 48 (match fd with Some f => f + 1 | None => 1 end)) ++ exp_part 0)
  else
    let '(n, e) := match fd with
                   | Some f => let (a, b) := ratio u in exp_digits_even a b f
                   | None => match shortest u with Some (s, k, n) => (s, n - 1) | None => (0, 0) end
                   end in
    Str (sgn ++ mantissa_point (dec_str n) ++ exp_part e).

(* ------------------------------------------------------------------------------------------------ *)
(* mod.rs: to_precision on top of format!("{:.100}") *)

(* format!("{x:.100}") for x = a/b > 0: integer part, '.', exactly 100 fraction digits, half-even *)
Definition fixed100 (a b : Z) : ustr :=
  let n := round_half_even a b 100 in
  let ds := dec_str n in
  let k := Z.of_nat (List.length ds) in
  let ds := if k <=? 100 then zrepeat 48 (101 - k) ++ ds else ds in
  let k := Z.of_nat (List.length ds) in
  take (k - 100) ds ++ [46] ++ drop (k - 100) ds.

(* fn flt_str_to_exp *)
Fixpoint flt_str_to_exp_loop (s : ustr) (i : Z) (non_zero dot : bool) (len : Z) : Z :=
  match s with
  | [] => len - 1
  | c :: r =>
      if c =? 46 then (if non_zero then i - 1 else flt_str_to_exp_loop r (i + 1) non_zero true len)
      else if negb (c =? 48) then (if dot then 1 - i else flt_str_to_exp_loop r (i + 1) true dot len)
      else flt_str_to_exp_loop r (i + 1) non_zero dot len
  end.
Definition flt_str_to_exp (s : ustr) : Z := flt_str_to_exp_loop s 0 false false (Z.of_nat (List.length s)).

(* the carry loop of round_to_precision over the reversed digits *)
Fixpoint carry_loop (rev_digits : ustr) (propagated : bool) : ustr * bool :=
  match rev_digits with
  | [] => ([], propagated)
  | c :: r =>
      let d := if propagated then c else if (48 <=? c) && (c <=? 56) then c + 1 else 48 in
      let p' := propagated || negb (d =? 48) in
      let (rest, pf) := carry_loop r p' in
      (d :: rest, pf)
  end.

(* fn round_to_precision: (digits', exponent must be incremented) *)
Definition round_to_precision (digits : ustr) (precision : Z) : ustr * bool :=
  let len := Z.of_nat (List.length digits) in
  if precision <? len then
    let to_round := drop precision digits in
    let kept := take precision digits in
    let last := nth (Z.to_nat (precision - 1)) kept 48 in
    let body := take (precision - 1) kept in
    let digit := match to_round with
                 | first :: _ => if 52 <? first then last + 1 else last
                 | [] => last
                 end in
    if digit =? 58 then
      let (repl_tail, propagated) := carry_loop (rev body) false in
      (* replacement = "0" ++ repl_tail, pushed back in reverse *)
      if propagated then (rev (48 :: repl_tail), false)
      else (49 :: rev repl_tail, true)
    else (body ++ [digit], false)
  else (digits ++ zrepeat 48 (precision - len), false).

Fixpoint find_dot (s : ustr) : option nat :=
  match s with
  | [] => None
  | c :: r => if c =? 46 then Some O else option_map S (find_dot r)
  end.
Definition remove_at (n : nat) (s : ustr) : ustr := firstn n s ++ skipn (S n) s.
Definition insert_at (n : Z) (c : Z) (s : ustr) : ustr := take n s ++ [c] ++ drop n s.

(* i32::to_string *)
Definition int_str (e : Z) : ustr := (if e <? 0 then [45] else []) ++ dec_str (Z.abs e).

Definition to_precision_model (bits : Z) (pd : option Z) : res :=
  match pd with
  | None => Str (to_string_spec bits)
  | Some p =>
      let u := mag bits in
      if INF <=? u then Str (to_string_spec bits) else
      if (p <? 1) || (100 <? p) then RangeError else
      let prefix := if is_neg bits && negb (u =? 0) then [45] else [] in
      let '(suffix, exponent, finished) :=
        if u =? 0 then (zrepeat 48 p, 0, false)
        else
          let (a, b) := ratio u in
          let s0 := fixed100 a b in
          let e0 := flt_str_to_exp s0 in
          let s1 := if e0 <? 0 then drop (1 - e0) s0
                    else match find_dot s0 with Some n => remove_at n s0 | None => s0 end in
          let (s2, bump) := round_to_precision s1 p in
          let e1 := if bump then e0 + 1 else e0 in
          let great := p <=? e1 in
          if (e1 <? -6) || great then
            let s3 := if 1 <? p then insert_at 1 46 s2 else s2 in
            (s3 ++ [101] ++ (if great then [43] else []) ++ int_str e1, e1, true)
          else (s2, e1, false) in
      if finished then Str (prefix ++ suffix)
      else
        let e_inc := exponent + 1 in
        if e_inc =? p then Str (prefix ++ suffix)
        else if 0 <=? exponent then Str (prefix ++ insert_at e_inc 46 suffix)
        else Str (prefix ++ [48; 46] ++ zrepeat 48 (- e_inc) ++ suffix)
  end.

(* ------------------------------------------------------------------------------------------------ *)
(* bit patterns used as refutation witnesses in Props_C13 *)
Definition bits_min_subnormal : Z := 1.                                  (* 5e-324 *)
Definition bits_2_5 : Z := 4612811918334230528.                          (* 0x4004000000000000 = 2.5 *)
Definition bits_1_25 : Z := 4608308318706860032.                         (* 0x3FF4000000000000 = 1.25 *)
