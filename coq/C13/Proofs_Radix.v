(* C13 proofs, part 5: digits in a radix.  The digit string of an integer (toString(radix) on integer values, and
   the decimal digit strings used everywhere) reads back to the same integer, digit by digit; an integer-valued
   double is recovered exactly from its integer value. *)
From Coq Require Import ZArith List Bool Lia.
From C13 Require Import Model_C13 Proofs_Round Proofs_Unique Proofs_Digits Proofs_Shortest.
Import ListNotations.
Local Open Scope Z_scope.

Definition step (r : Z) (acc d : Z) : Z := acc * r + d.

Lemma num_of_fold r ds : num_of r ds = fold_left (step r) ds 0.
Proof. reflexivity. Qed.

Lemma digs_fuel_value r f : forall n acc, 0 < r ->
  fold_left (step r) (digs_fuel f r n acc) 0 = fold_left (step r) acc n.
Proof.
  induction f as [|f IH]; intros n acc Hr.
  - cbn [digs_fuel fold_left]. unfold step at 2. rewrite Z.mul_0_l, Z.add_0_l. reflexivity.
  - cbn [digs_fuel]. destruct (n <? r).
    + cbn [fold_left]. unfold step at 2. rewrite Z.mul_0_l, Z.add_0_l. reflexivity.
    + rewrite IH by exact Hr. cbn [fold_left]. f_equal. unfold step.
      pose proof (Z.div_mod n r ltac:(lia)). lia.
Qed.

Theorem digs_value r n : 0 < r -> num_of r (digs r n) = n.
Proof. intros Hr. unfold digs. rewrite num_of_fold, digs_fuel_value by exact Hr. reflexivity. Qed.

Definition is_dig (r d : Z) : Prop := 0 <= d < r.

Lemma digs_fuel_range r f : forall n acc, 2 <= r -> 0 <= n < 2 ^ (Z.of_nat f + 1) ->
  Forall (is_dig r) acc -> Forall (is_dig r) (digs_fuel f r n acc).
Proof.
  induction f as [|f IH]; intros n acc Hr Hn Hacc.
  - cbn [digs_fuel]. constructor; [|exact Hacc]. change (2 ^ (Z.of_nat 0 + 1)) with 2 in Hn. unfold is_dig. lia.
  - cbn [digs_fuel]. destruct (Z.ltb_spec n r) as [C|C].
    + constructor; [unfold is_dig; lia|exact Hacc].
    + apply IH; [exact Hr| |].
      * split; [apply Z.div_pos; lia|]. apply Z.div_lt_upper_bound; [lia|].
        rewrite Nat2Z.inj_succ in Hn. replace (Z.succ (Z.of_nat f) + 1) with ((Z.of_nat f + 1) + 1) in Hn by lia.
        rewrite pow2_S in Hn by lia. pose proof (pow2_gt0 (Z.of_nat f + 1) ltac:(lia)). nia.
      * constructor; [|exact Hacc]. unfold is_dig. apply Z.mod_pos_bound. lia.
Qed.

Lemma digs_range r n : 2 <= r -> 0 <= n -> Forall (is_dig r) (digs r n).
Proof.
  intros Hr Hn. unfold digs. apply digs_fuel_range; [exact Hr| |constructor].
  rewrite Z2Nat.id by apply Z.log2_nonneg. split; [exact Hn|].
  destruct (Z.eq_dec n 0) as [->|NE]; [reflexivity|].
  pose proof (Z.log2_spec n ltac:(lia)) as [_ H]. replace (Z.log2 n + 1) with (Z.succ (Z.log2 n)) by lia. exact H.
Qed.

Lemma radix_digit_char d : 0 <= d < 36 -> radix_digit (digit_char d) = d.
Proof.
  intros Hd. unfold radix_digit, digit_char. destruct (Z.ltb_spec d 10) as [C|C].
  - destruct (Z.leb_spec 48 (48 + d)); [|lia]. destruct (Z.leb_spec (48 + d) 57); [|lia]. cbn [andb]. lia.
  - destruct (Z.leb_spec 48 (87 + d)); [|lia]. destruct (Z.leb_spec (87 + d) 57); [lia|]. cbn [andb].
    destruct (Z.leb_spec 97 (87 + d)); [|lia]. destruct (Z.leb_spec (87 + d) 122); [|lia]. cbn [andb]. lia.
Qed.

Lemma span_radix_digits r ds : r <= 36 -> Forall (is_dig r) ds -> span_radix r (map digit_char ds) = ds.
Proof.
  intros Hr H. induction H as [|d ds Hd _ IH]; [reflexivity|].
  cbn [map span_radix]. unfold is_dig in Hd. rewrite radix_digit_char by lia.
  destruct (Z.ltb_spec d r); [|lia]. rewrite IH. reflexivity.
Qed.

(* parseInt reads the digits of toString(radix) back to the same integer *)
Theorem radix_digits_roundtrip r v : 2 <= r <= 36 -> 0 <= v -> num_of r (span_radix r (dstr r v)) = v.
Proof.
  intros Hr Hv. unfold dstr. rewrite span_radix_digits; [apply digs_value; lia|lia|apply digs_range; lia].
Qed.

(* an integer-valued double is the correctly rounded value of its integer *)
Theorem int_value_rounds_back u v : 0 <= u < INF -> int_value u = Some v -> 0 <= v /\ round_nneg v 1 = u.
Proof.
  intros Hu H. unfold int_value in H. destruct (ratio_ival u ltac:(lia)) as (Hb & Ha & Hab).
  destruct (ratio u) as [a b] eqn:Er. cbn [fst snd] in *.
  destruct (Z.eqb_spec (a mod b) 0) as [E|NE]; [|discriminate]. injection H as <-.
  pose proof (Z.div_mod a b ltac:(lia)) as Hdm. rewrite E, Z.add_0_r in Hdm.
  assert (Hq : 0 <= a / b) by (apply Z.div_pos; lia). split; [exact Hq|].
  pose proof SC_pos as HSC.
  rewrite <- (round_exact u ltac:(lia)).
  apply round_ratio; [lia|lia|apply ival_nonneg; lia|lia|].
  (* (a/b) * SC = ival u * 1 *)
  apply (proj1 (Z.mul_cancel_r _ _ b ltac:(lia))).
  replace (a / b * SC * b) with (b * (a / b) * SC) by ring. rewrite <- Hdm, Hab. ring.
Qed.

Lemma parse_int_exact_lemma u v r : 2 <= r <= 36 -> 0 <= u < INF -> int_value u = Some v ->
  num_of r (span_radix r (dstr r v)) = v /\ round_nneg v 1 = u.
Proof.
  intros Hr Hu Hv. destruct (int_value_rounds_back u v Hu Hv) as [H0 H1].
  split; [apply radix_digits_roundtrip; assumption|exact H1].
Qed.
