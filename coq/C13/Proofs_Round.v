(* C13 proofs, part 1: the rounding function round_nneg is round-to-nearest, ties-to-even. *)
From Coq Require Import ZArith List Bool Lia.
From C13 Require Import Model_C13.
Local Open Scope Z_scope.

Lemma p52_eq : p52 = 2 ^ 52. Proof. reflexivity. Qed.
Lemma p53_eq : p53 = 2 * p52. Proof. reflexivity. Qed.
Lemma INF_eq : INF = 2047 * p52. Proof. reflexivity. Qed.
Lemma p52_pos : 0 < p52. Proof. reflexivity. Qed.
Global Opaque p52 p53 INF.

Lemma pow2_pos k : 0 < 2 ^ k \/ 2 ^ k = 0.
Proof. destruct (Z_le_gt_dec 0 k); [left; apply Z.pow_pos_nonneg; lia | right; apply Z.pow_neg_r; lia]. Qed.
Lemma pow2_gt0 k : 0 <= k -> 0 < 2 ^ k.
Proof. intros; apply Z.pow_pos_nonneg; lia. Qed.
Lemma pow2_S k : 0 <= k -> 2 ^ (k + 1) = 2 * 2 ^ k.
Proof. intros. rewrite Z.pow_add_r by lia. lia. Qed.

(* ---------------------------------------------------------------------------------------------- *)
(* decoding *)

Lemma u_decomp u : 0 <= u ->
  u = sh u * p52 + sig u /\ 0 <= sh u /\ 0 <= sig u < p53 /\ (0 < sh u -> p52 <= sig u) /\ bexp u = (if sig u <? p52 then 0 else sh u + 1).
Proof.
  intros Hu. unfold sh, sig, bexp, bman.
  pose proof p52_pos as Hp. pose proof p53_eq as H53.
  pose proof (Z.div_mod u p52 ltac:(lia)) as Hd.
  pose proof (Z.mod_pos_bound u p52 Hp) as Hm.
  assert (0 <= u / p52) by (apply Z.div_pos; lia).
  destruct (Z.eqb_spec (u / p52) 0) as [E|E].
  - rewrite E in *. repeat split; try lia.
    destruct (Z.ltb_spec (u mod p52) p52); lia.
  - repeat split; try lia.
    destruct (Z.ltb_spec (p52 + u mod p52) p52); lia.
Qed.

Lemma ival_enc s M : 0 <= s -> 0 <= M <= p53 -> (0 < s -> p52 <= M) -> ival (s * p52 + M) = M * 2 ^ s.
Proof.
  intros Hs HM Hn. pose proof p52_pos as Hp. pose proof p53_eq as H53.
  unfold ival, sig, sh, bexp, bman.
  destruct (Z_lt_ge_dec M p52) as [Hlt|Hge].
  - assert (s = 0) by lia. subst s. rewrite Z.mul_0_l, Z.add_0_l.
    rewrite (Z.div_small M p52), (Z.mod_small M p52) by lia. simpl. lia.
  - destruct (Z_lt_ge_dec M p53) as [Hlt|Hge2].
    + assert (Hq : (s * p52 + M) / p52 = s + 1).
      { symmetry. apply (Z.div_unique _ _ (s + 1) (M - p52)); lia. }
      assert (Hr : (s * p52 + M) mod p52 = M - p52).
      { symmetry. apply (Z.mod_unique _ _ (s + 1) (M - p52)); lia. }
      rewrite Hq, Hr. destruct (Z.eqb_spec (s + 1) 0); [lia|].
      replace (s + 1 - 1) with s by lia. f_equal. lia.
    + assert (M = p53) by lia. subst M.
      assert (Hq : (s * p52 + p53) / p52 = s + 2).
      { symmetry. apply (Z.div_unique _ _ (s + 2) 0); lia. }
      assert (Hr : (s * p52 + p53) mod p52 = 0).
      { symmetry. apply (Z.mod_unique _ _ (s + 2) 0); lia. }
      rewrite Hq, Hr. destruct (Z.eqb_spec (s + 2) 0); [lia|].
      replace (s + 2 - 1) with (s + 1) by lia. rewrite pow2_S by lia. lia.
Qed.

Lemma ival_sig u : 0 <= u -> ival u = sig u * 2 ^ sh u.
Proof. reflexivity. Qed.

Lemma ival_succ u : 0 <= u -> ival (u + 1) = ival u + 2 ^ sh u.
Proof.
  intros Hu. destruct (u_decomp u Hu) as (Hd & Hs & HM & Hn & _).
  rewrite Hd at 1. replace (sh u * p52 + sig u + 1) with (sh u * p52 + (sig u + 1)) by lia.
  rewrite ival_enc by lia. unfold ival. lia.
Qed.

Lemma ival_nonneg u : 0 <= u -> 0 <= ival u.
Proof.
  intros Hu. destruct (u_decomp u Hu) as (_ & Hs & HM & _). unfold ival.
  pose proof (pow2_gt0 (sh u) Hs). nia.
Qed.

Lemma ival_lt_succ u : 0 <= u -> ival u < ival (u + 1).
Proof.
  intros Hu. rewrite ival_succ by lia. destruct (u_decomp u Hu) as (_ & Hs & _).
  pose proof (pow2_gt0 (sh u) Hs). lia.
Qed.

Lemma ival_mono_le u v : 0 <= u -> u <= v -> ival u <= ival v.
Proof.
  intros Hu Hv. replace v with (u + Z.of_nat (Z.to_nat (v - u))) by lia.
  induction (Z.to_nat (v - u)) as [|n IH].
  - rewrite Z.add_0_r. lia.
  - rewrite Nat2Z.inj_succ. replace (u + Z.succ (Z.of_nat n)) with (u + Z.of_nat n + 1) by lia.
    pose proof (ival_lt_succ (u + Z.of_nat n) ltac:(lia)). lia.
Qed.

Lemma ival_mono_lt u v : 0 <= u -> u < v -> ival u < ival v.
Proof.
  intros Hu Hv. pose proof (ival_lt_succ u Hu). pose proof (ival_mono_le (u + 1) v ltac:(lia) ltac:(lia)). lia.
Qed.

Lemma ival_inj u v : 0 <= u -> 0 <= v -> ival u = ival v -> u = v.
Proof.
  intros Hu Hv E. destruct (Z.lt_trichotomy u v) as [H|[H|H]]; auto.
  - pose proof (ival_mono_lt u v Hu H). lia.
  - pose proof (ival_mono_lt v u Hv H). lia.
Qed.

Lemma ival_0 : ival 0 = 0. Proof. reflexivity. Qed.

(* ---------------------------------------------------------------------------------------------- *)
(* the rounding interval of a pattern, in units of 2^-1074: a/b lies between the midpoints to the
   neighbouring patterns, the midpoints themselves belonging to the even pattern *)

Definition SC : Z := 2 ^ 1074.
Lemma SC_pos : 0 < SC. Proof. apply pow2_gt0; lia. Qed.
Global Opaque SC.
Lemma SC_eq : SC = 2 ^ 1074. Proof. reflexivity. Qed.

Definition in_lo (u a b : Z) : Prop :=
  u = 0 \/ (0 < u /\ if Z.even u then (ival (u - 1) + ival u) * b <= 2 * (a * SC)
                     else (ival (u - 1) + ival u) * b < 2 * (a * SC)).
Definition in_hi (u a b : Z) : Prop :=
  u = INF \/ (u < INF /\ if Z.even u then 2 * (a * SC) <= (ival u + ival (u + 1)) * b
                         else 2 * (a * SC) < (ival u + ival (u + 1)) * b).
Definition in_interval (u a b : Z) : Prop := 0 <= u <= INF /\ in_lo u a b /\ in_hi u a b.

(* ---------------------------------------------------------------------------------------------- *)
(* log2floor *)

Lemma log2floor_spec a b : 0 < a -> 0 < b ->
  let lf := log2floor a b in
  (forall c, 0 <= c -> 0 <= c + lf -> 2 ^ (c + lf) * b <= a * 2 ^ c) /\
  (forall c, 0 <= c -> 0 <= c + lf + 1 -> a * 2 ^ c < 2 ^ (c + lf + 1) * b).
Proof.
  intros Ha Hb. cbv zeta.
  pose proof (Z.log2_spec a Ha) as [Ha1 Ha2]. pose proof (Z.log2_spec b Hb) as [Hb1 Hb2].
  pose proof (Z.log2_nonneg a) as Hla. pose proof (Z.log2_nonneg b) as Hlb.
  set (la := Z.log2 a) in *. set (lb := Z.log2 b) in *.
  (* the part that only needs the two logarithms *)
  assert (G' : forall c, 0 <= c -> 0 <= c + (la - lb) - 1 -> 2 ^ (c + (la - lb) - 1) * b <= a * 2 ^ c).
  { intros c Hc Hcl.
    assert (2 ^ (c + (la - lb) - 1) * 2 ^ (lb + 1) = 2 ^ la * 2 ^ c).
    { rewrite <- !Z.pow_add_r by lia. f_equal. lia. }
    pose proof (pow2_gt0 (c + (la - lb) - 1) Hcl). pose proof (pow2_gt0 c Hc).
    replace (Z.succ lb) with (lb + 1) in Hb2 by lia.
    apply Z.le_trans with (2 ^ (c + (la - lb) - 1) * 2 ^ (lb + 1)).
    - apply Z.mul_le_mono_nonneg_l; lia.
    - rewrite H. apply Z.mul_le_mono_nonneg_r; lia. }
  assert (L' : forall c, 0 <= c -> 0 <= c + (la - lb) + 1 -> a * 2 ^ c < 2 ^ (c + (la - lb) + 1) * b).
  { intros c Hc Hcl.
    assert (2 ^ (c + (la - lb) + 1) * 2 ^ lb = 2 ^ (la + 1) * 2 ^ c).
    { rewrite <- !Z.pow_add_r by lia. f_equal. lia. }
    pose proof (pow2_gt0 (c + (la - lb) + 1) Hcl). pose proof (pow2_gt0 c Hc).
    replace (Z.succ la) with (la + 1) in Ha2 by lia.
    apply Z.lt_le_trans with (2 ^ (la + 1) * 2 ^ c).
    - apply Z.mul_lt_mono_pos_r; lia.
    - rewrite <- H. apply Z.mul_le_mono_nonneg_l; lia. }
  unfold log2floor. fold la lb. set (l := la - lb) in *.
  destruct (Z.leb_spec 0 l) as [Hl|Hl].
  - destruct (Z.ltb_spec a (b * 2 ^ l)) as [T|T].
    + split; intros c Hc Hcl.
      * replace (c + (l - 1)) with (c + l - 1) by lia. apply G'; lia.
      * replace (c + (l - 1) + 1) with (l + c) by lia. rewrite Z.pow_add_r by lia.
        pose proof (pow2_gt0 c Hc). nia.
    + split; intros c Hc Hcl.
      * replace (c + l) with (l + c) by lia. rewrite Z.pow_add_r by lia. pose proof (pow2_gt0 c Hc). nia.
      * apply L'; lia.
  - destruct (Z.ltb_spec (a * 2 ^ (- l)) b) as [T|T].
    + split; intros c Hc Hcl.
      * replace (c + (l - 1)) with (c + l - 1) by lia. apply G'; lia.
      * replace (c + (l - 1) + 1) with (c + l) in * by lia.
        assert (Hc2 : 2 ^ c = 2 ^ (- l) * 2 ^ (c + l)) by (rewrite <- Z.pow_add_r by lia; f_equal; lia).
        rewrite Hc2. pose proof (pow2_gt0 (c + l) Hcl).
        set (P := 2 ^ (c + l)) in *. set (Q := 2 ^ (- l)) in *. nia.
    + split; intros c Hc Hcl.
      * assert (Hc2 : 2 ^ c = 2 ^ (- l) * 2 ^ (c + l)) by (rewrite <- Z.pow_add_r by lia; f_equal; lia).
        rewrite Hc2. pose proof (pow2_gt0 (c + l) Hcl).
        set (P := 2 ^ (c + l)) in *. set (Q := 2 ^ (- l)) in *. nia.
      * apply L'; lia.
Qed.

Lemma div_same_ratio n d A D : 0 < d -> 0 < D -> n * D = A * d ->
  n / d = A / D /\ (n mod d) * D = (A mod D) * d.
Proof.
  intros Hd HD E.
  pose proof (Z.div_mod n d ltac:(lia)) as Hn. pose proof (Z.mod_pos_bound n d Hd) as Hr.
  set (q := n / d) in *. set (r := n mod d) in *.
  assert (Hr' : r * D = (A - q * D) * d) by nia.
  assert (0 <= A - q * D < D) by nia.
  assert (Hq : A / D = q). { symmetry. apply (Z.div_unique A D q (A - q * D)); lia. }
  assert (Hm : A mod D = A - q * D). { symmetry. apply (Z.mod_unique A D q (A - q * D)); lia. }
  rewrite Hq, Hm. split; [reflexivity | exact Hr'].
Qed.

Lemma quot_range A D M R lo hi : 0 < D -> A = D * M + R -> 0 <= R < D -> lo * D <= A -> A < hi * D -> lo <= M < hi.
Proof.
  intros HD HA HR Hlo Hhi. split.
  - destruct (Z_lt_ge_dec M lo) as [C|C]; [exfalso|lia].
    assert (D * (M + 1) <= D * lo) by (apply Z.mul_le_mono_nonneg_l; lia). lia.
  - destruct (Z_lt_ge_dec M hi) as [C|C]; [lia|exfalso].
    assert (D * hi <= D * M) by (apply Z.mul_le_mono_nonneg_l; lia). lia.
Qed.

(* ---------------------------------------------------------------------------------------------- *)
(* round_nneg lands in the interval of its result *)

(* small-context arithmetic used at the end of round_in_interval (nia is only reliable in tiny contexts) *)
Lemma core_lo_same b W M R A X : 0 < b -> 0 < W -> 0 <= R -> A = b * W * M + R -> X < M * W ->
  (X + M * W) * b < 2 * A.
Proof. intros. assert (X * b < M * W * b) by (apply Z.mul_lt_mono_pos_r; lia). nia. Qed.
Lemma core_lo_up b W M R A : A = b * W * M + R -> b * W <= 2 * R -> (M * W + (M + 1) * W) * b <= 2 * A.
Proof. intros. nia. Qed.
Lemma core_lo_up_strict b W M R A : A = b * W * M + R -> b * W < 2 * R -> (M * W + (M + 1) * W) * b < 2 * A.
Proof. intros. nia. Qed.
Lemma core_hi_same b W M R A : A = b * W * M + R -> 2 * R <= b * W -> 2 * A <= (M * W + (M + 1) * W) * b.
Proof. intros. nia. Qed.
Lemma core_hi_same_strict b W M R A : A = b * W * M + R -> 2 * R < b * W -> 2 * A < (M * W + (M + 1) * W) * b.
Proof. intros. nia. Qed.
Lemma core_hi_up b W M R A X : 0 < b -> 0 < W -> A = b * W * M + R -> R < b * W -> (M + 1) * W < X ->
  2 * A < ((M + 1) * W + X) * b.
Proof. intros. assert ((M + 1) * W * b < X * b) by (apply Z.mul_lt_mono_pos_r; lia). nia. Qed.
Lemma core_over_eq b W M R A P : A = b * W * M + R -> b * W <= 2 * R -> M + 1 = P ->
  ((P - 1) * W + P * W) * b <= 2 * A.
Proof. intros. subst P. nia. Qed.
Lemma core_over_big b W V M R A P Q : 0 < b -> 0 <= R -> 0 < W -> A = b * V * M + R -> 2 * W <= V -> Q <= M -> 0 < Q -> P = 2 * Q ->
  ((P - 1) * W + P * W) * b <= 2 * A.
Proof.
  intros. subst P.
  assert (b * (2 * W) <= b * V) by (apply Z.mul_le_mono_nonneg_l; lia).
  assert (b * (2 * W) * Q <= b * V * M) by (apply Z.mul_le_mono_nonneg; nia).
  nia.
Qed.

Lemma INF_decomp : INF = 2045 * p52 + p53. Proof. rewrite INF_eq, p53_eq. lia. Qed.

Lemma round_in_interval a b : 0 <= a -> 0 < b -> in_interval (round_nneg a b) a b.
Proof.
  intros Ha Hb. pose proof p52_pos as Hp. pose proof p53_eq as H53. pose proof SC_pos as HSC.
  unfold round_nneg. destruct (Z.leb_spec a 0) as [Ha0|Ha0].
  { assert (a = 0) by lia. subst a. split; [rewrite INF_eq; lia|]. split; [left; reflexivity|].
    right. split; [rewrite INF_eq; lia|]. change (Z.even 0) with true. cbv iota.
    change (0 + 1) with 1. change (ival 0) with 0.
    assert (ival 1 = 1). { change 1 with (0 * p52 + 1) at 1. rewrite ival_enc; lia. }
    lia. }
  destruct (log2floor_spec a b Ha0 Hb) as [G L]. cbv zeta in G, L.
  set (lf := log2floor a b) in *.
  set (E := Z.max (lf - 52) (-1074)).
  set (s := E + 1074). assert (Hs : 0 <= s) by (unfold s, E; lia).
  set (n := a * 2 ^ Z.max 0 (- E)). set (d := b * 2 ^ Z.max 0 E).
  set (A := a * SC). set (D := b * 2 ^ s).
  assert (HD : 0 < D). { unfold D. pose proof (pow2_gt0 s Hs). nia. }
  assert (Hd : 0 < d). { unfold d. pose proof (pow2_gt0 (Z.max 0 E) ltac:(lia)). nia. }
  assert (Hcross : n * D = A * d).
  { unfold n, D, A, d. rewrite SC_eq.
    assert (2 ^ Z.max 0 (- E) * 2 ^ s = 2 ^ 1074 * 2 ^ Z.max 0 E).
    { rewrite <- !Z.pow_add_r by (unfold s; lia). f_equal. unfold s. lia. }
    nia. }
  destruct (div_same_ratio n d A D Hd HD Hcross) as [HM HR].
  set (M := n / d) in *. set (r := n mod d) in *.
  pose proof (Z.div_mod A D ltac:(lia)) as HA. pose proof (Z.mod_pos_bound A D HD) as HRb.
  rewrite <- HM in HA. set (R := A mod D) in *.
  (* comparisons of 2r with d are comparisons of 2R with D *)
  assert (Hlt : 2 * r < d <-> 2 * R < D) by nia.
  assert (Hgt : d < 2 * r <-> D < 2 * R) by nia.
  (* range of M *)
  assert (HMr : 0 <= M < p53 /\ (0 < s -> p52 <= M)).
  { destruct (Z_le_gt_dec (-1022) lf) as [Hn|Hsub].
    - assert (HE : E = lf - 52) by (unfold E; lia).
      pose proof (G 1074 ltac:(lia) ltac:(lia)) as G1. pose proof (L 1074 ltac:(lia) ltac:(lia)) as L1.
      assert (Hlow : p52 * D <= A).
      { unfold D, A. rewrite SC_eq, p52_eq. replace (1074 + lf) with (52 + s) in G1 by (unfold s; lia).
        rewrite Z.pow_add_r in G1 by lia. lia. }
      assert (Hhigh : A < p53 * D).
      { unfold D, A. rewrite SC_eq, H53, p52_eq. replace (1074 + lf + 1) with (1 + 52 + s) in L1 by (unfold s; lia).
        rewrite !Z.pow_add_r in L1 by lia. change (2 ^ 1) with 2 in L1. lia. }
      pose proof (quot_range A D M R p52 p53 HD HA HRb Hlow Hhigh). split; [|intros _]; lia.
    - assert (HE : E = -1074) by (unfold E; lia). assert (s = 0) by (unfold s; lia).
      assert (D = b) by (unfold D; rewrite H; change (2 ^ 0) with 1; lia).
      assert (Hhigh : A < p52 * D).
      { rewrite H0. unfold A. rewrite SC_eq, p52_eq.
        destruct (Z_le_gt_dec (-1075) lf) as [Hc|Hc].
        - pose proof (L (- (lf + 1)) ltac:(lia) ltac:(lia)) as L1.
          replace (- (lf + 1) + lf + 1) with 0 in L1 by lia. change (2 ^ 0) with 1 in L1.
          replace 1074 with (- (lf + 1) + (1074 + lf + 1)) by lia. rewrite Z.pow_add_r by lia.
          assert (HQ : 2 ^ (1074 + lf + 1) <= 2 ^ 52) by (apply Z.pow_le_mono_r; lia).
          pose proof (pow2_gt0 (1074 + lf + 1) ltac:(lia)) as HQ0.
          set (P := 2 ^ (- (lf + 1))) in *. set (Q := 2 ^ (1074 + lf + 1)) in *. set (T := 2 ^ 52) in *.
          clearbody P Q T. clear - L1 HQ HQ0 Hb Ha0.
          apply Z.lt_le_trans with (b * Q).
          + replace (a * (P * Q)) with (a * P * Q) by ring. apply Z.mul_lt_mono_pos_r; lia.
          + rewrite (Z.mul_comm T b). apply Z.mul_le_mono_nonneg_l; lia.
        - pose proof (L (- (lf + 1)) ltac:(lia) ltac:(lia)) as L1.
          replace (- (lf + 1) + lf + 1) with 0 in L1 by lia. change (2 ^ 0) with 1 in L1.
          assert (HQ : 2 ^ 1074 <= 2 ^ (- (lf + 1))) by (apply Z.pow_le_mono_r; lia).
          pose proof (pow2_gt0 52 ltac:(lia)) as HT.
          set (P := 2 ^ (- (lf + 1))) in *. set (Q := 2 ^ 1074) in *. set (T := 2 ^ 52) in *.
          clearbody P Q T. clear - L1 HQ HT Hb Ha0.
          apply Z.le_lt_trans with (a * P); [apply Z.mul_le_mono_nonneg_l; lia|].
          apply Z.lt_le_trans with (1 * b); [exact L1|]. apply Z.mul_le_mono_nonneg_r; lia. }
      assert (Hlow : 0 * D <= A) by (rewrite Z.mul_0_l; unfold A; apply Z.mul_nonneg_nonneg; lia).
      pose proof (quot_range A D M R 0 p52 HD HA HRb Hlow Hhigh). split; [|lia]. lia. }
  destruct HMr as [HM0 HMn].
  (* the rounded significand *)
  set (M' := if 2 * r <? d then M else if d <? 2 * r then M + 1 else if Z.even M then M else M + 1).
  assert (HM' : (M' = M /\ 2 * R <= D /\ (Z.even M = false -> 2 * R < D)) \/
                (M' = M + 1 /\ D <= 2 * R /\ (Z.even (M + 1) = false -> D < 2 * R))).
  { unfold M'. destruct (Z.ltb_spec (2 * r) d) as [C1|C1].
    - left. split; [reflexivity|]. split; [lia|intros; lia].
    - destruct (Z.ltb_spec d (2 * r)) as [C2|C2].
      + right. split; [reflexivity|]. split; [lia|intros; lia].
      + assert (2 * R = D) by lia.
        destruct (Z.even M) eqn:Ev.
        * left. split; [reflexivity|]. split; [lia|discriminate].
        * right. split; [reflexivity|]. split; [lia|].
          rewrite Z.add_1_r, Z.even_succ, <- Z.negb_even, Ev. discriminate. }
  assert (HM'r : 0 <= M' <= p53 /\ (0 < s -> p52 <= M')) by (destruct HM' as [(->&_)|(->&_)]; lia).
  set (u0 := (E + 1074) * p52 + M'). fold s in u0.
  assert (Hu0 : ival u0 = M' * 2 ^ s) by (apply ival_enc; lia).
  assert (Hu0n : 0 <= u0). { unfold u0. apply Z.add_nonneg_nonneg; [apply Z.mul_nonneg_nonneg|]; lia. }
  assert (Hev : Z.even u0 = Z.even M').
  { unfold u0. rewrite Z.even_add, Z.even_mul. rewrite p52_eq. change (Z.even (2 ^ 52)) with true.
    rewrite orb_true_r. destruct (Z.even M'); reflexivity. }
  pose proof (pow2_gt0 s Hs) as Hps.
  assert (HAW : A = b * 2 ^ s * M + R) by exact HA.
  assert (HDW : D = b * 2 ^ s) by reflexivity.
  assert (Hu0e : u0 = s * p52 + M') by reflexivity.
  assert (HR0 : 0 <= R < b * 2 ^ s) by (rewrite <- HDW; exact HRb).
  rewrite HDW in HM'.
  change (in_interval (if INF <=? u0 then INF else u0) a b).
  clearbody u0 M' M R D. clear HA HRb Hlt Hgt HM HR Hcross HD Hd G L. clear r n d.
  set (W := 2 ^ s) in *.
  destruct (Z.leb_spec INF u0) as [Hover|Hfin].
  - (* overflow to Infinity *)
    split; [rewrite INF_eq; lia|]. split; [|left; reflexivity].
    right. split; [rewrite INF_eq; lia|].
    assert (HevI : Z.even INF = true) by (rewrite INF_eq, Z.even_mul, p52_eq; reflexivity). rewrite HevI.
    assert (HI : ival INF = p53 * 2 ^ 2045) by (rewrite INF_decomp; apply ival_enc; lia).
    assert (HI1 : ival (INF - 1) = (p53 - 1) * 2 ^ 2045).
    { replace (INF - 1) with (2045 * p52 + (p53 - 1)) by (rewrite INF_decomp; lia). apply ival_enc; lia. }
    rewrite HI, HI1. fold A.
    assert (Hs45 : 2045 <= s).
    { destruct (Z_le_gt_dec 2045 s) as [C|C]; [exact C|exfalso].
      assert (s * p52 <= 2044 * p52) by (apply Z.mul_le_mono_nonneg_r; lia).
      rewrite Hu0e, INF_decomp in Hover. lia. }
    destruct (Z.eq_dec s 2045) as [Es|Es].
    + assert (HMp : M' = p53) by (rewrite Hu0e, INF_decomp, Es in Hover; lia).
      destruct HM' as [(HMe&_)|(HMe&Hge&_)]; [lia|].
      unfold W in *. rewrite Es in *.
      apply (core_over_eq b (2 ^ 2045) M R A p53 HAW Hge). lia.
    + assert (HW2 : 2 ^ 2046 <= W) by (apply Z.pow_le_mono_r; lia).
      replace 2046 with (2045 + 1) in HW2 by lia. rewrite pow2_S in HW2 by lia.
      pose proof (pow2_gt0 2045 ltac:(lia)) as HW0.
      apply (core_over_big b (2 ^ 2045) W M R A p53 p52); lia.
  - split; [lia|]. split.
    + (* lower end *)
      destruct (Z.eq_dec u0 0) as [Ez|Ez]; [left; exact Ez|right]. split; [lia|].
      fold A. rewrite Hu0, Hev.
      destruct HM' as [(HMe&Hle&Hst)|(HMe&Hge&Hst)].
      * pose proof (ival_mono_lt (u0 - 1) u0 ltac:(lia) ltac:(lia)) as Hlt1. rewrite Hu0 in Hlt1.
        rewrite HMe in *.
        pose proof (core_lo_same b W M R A (ival (u0 - 1)) Hb Hps ltac:(lia) HAW Hlt1).
        destruct (Z.even M); lia.
      * assert (Hp1 : ival (u0 - 1) = M * W).
        { replace (u0 - 1) with (s * p52 + M) by lia. apply ival_enc; lia. }
        rewrite Hp1, HMe.
        destruct (Z.even (M + 1)) eqn:Ev.
        -- apply (core_lo_up b W M R A HAW Hge).
        -- apply (core_lo_up_strict b W M R A HAW (Hst eq_refl)).
    + right. split; [lia|]. fold A. rewrite Hu0, Hev.
      destruct HM' as [(HMe&Hle&Hst)|(HMe&Hge&Hst)].
      * assert (Hp1 : ival (u0 + 1) = (M + 1) * W).
        { replace (u0 + 1) with (s * p52 + (M + 1)) by lia. apply ival_enc; lia. }
        rewrite Hp1, HMe.
        destruct (Z.even M) eqn:Ev.
        -- apply (core_hi_same b W M R A HAW Hle).
        -- apply (core_hi_same_strict b W M R A HAW (Hst eq_refl)).
      * pose proof (ival_mono_lt u0 (u0 + 1) ltac:(lia) ltac:(lia)) as Hlt1. rewrite Hu0 in Hlt1.
        rewrite HMe in *.
        pose proof (core_hi_up b W M R A (ival (u0 + 1)) Hb Hps HAW ltac:(lia) Hlt1).
        destruct (Z.even (M + 1)); lia.
Qed.
