(* C13 proofs, part 8: the digit search of Number::toString is total — for every finite non-zero double one of the two
   17-digit decimals that bracket it lies strictly inside its rounding interval (10^16 > 2^53), so the search answers
   at k = 17 at the latest. *)
From Coq Require Import ZArith List Bool Lia.
From C13 Require Import Model_C13 Proofs_Round Proofs_Unique Proofs_Digits Proofs_Shortest Proofs_Radix Proofs_Strings.
Local Open Scope Z_scope.

Lemma ratio_sig_gap u : 0 <= u -> fst (ratio u) = sig u * gap_num u.
Proof.
  intros Hu. unfold ratio, gap_num. destruct (1074 <=? sh u); cbn [fst]; ring.
Qed.

Lemma binade_sig u : at_binade u = true -> sig u = p52.
Proof.
  unfold at_binade, sig. intros H. apply andb_prop in H. destruct H as [H1 H2].
  apply Z.eqb_eq in H1. apply Z.leb_le in H2. destruct (Z.eqb_spec (bexp u) 0); [lia|]. lia.
Qed.

Lemma p53_lt_1e16 : p53 < 10 ^ 16. Proof. reflexivity. Qed.
Lemma p52_4_lt_3e16 : 4 * p52 < 3 * 10 ^ 16. Proof. reflexivity. Qed.

(* the scaled interval ends in terms of the scaled value and the scaled gap *)
Definition sc_P (p : Z) : Z := if 0 <=? p then 10 ^ Z.abs p else 1.

Lemma sc_forms u p :
  sc_lo4 u p = 4 * sc_qa u p - gl_of u * sc_P p /\ sc_hi4 u p = 4 * sc_qa u p + 2 * (gap_num u * sc_P p) /\
  sc_qa u p = fst (ratio u) * sc_P p.
Proof. unfold sc_lo4, sc_hi4, sc_qa, sc_P. destruct (0 <=? p); repeat split; ring. Qed.

(* small-context arithmetic *)
Lemma pick_candidate qa qb W R G gl : 0 < qb -> 0 < G -> qa = qb * W + R -> 0 <= R < qb ->
  (gl = 2 * G /\ qb < G \/ gl = G /\ 4 * qb < 3 * G) ->
  (4 * qa - gl < W * (4 * qb) < 4 * qa + 2 * G) \/
  (R <> 0 /\ 4 * qa - gl < (W + 1) * (4 * qb) < 4 * qa + 2 * G).
Proof.
  intros Hqb HG Hqa HR Hgl.
  destruct (Z_lt_ge_dec (4 * R) gl) as [C|C].
  - left. nia.
  - right. split; [destruct Hgl as [[-> _]|[-> _]]; lia|]. destruct Hgl as [[-> H]|[-> H]]; nia.
Qed.

Lemma last_step u : 0 < u < INF ->
  let p := 17 - dec_exp (fst (ratio u)) (snd (ratio u)) in
  let W := sc_qa u p / sc_qb u p in let R := sc_qa u p mod sc_qb u p in
  in_iv (Z.even u) (sc_lo4 u p) (sc_hi4 u p) (4 * sc_qb u p) (W * 1) = true \/
  (R <> 0 /\ in_iv (Z.even u) (sc_lo4 u p) (sc_hi4 u p) (4 * sc_qb u p) ((W + 1) * 1) = true).
Proof.
  intros Hu. cbv zeta. destruct (scaled_range u Hu) as (Hqb & Hq1 & Hq2). cbv zeta in Hqb, Hq1, Hq2.
  set (p := 17 - dec_exp (fst (ratio u)) (snd (ratio u))) in *.
  destruct (sc_forms u p) as (Elo & Ehi & Eqa).
  pose proof (ratio_sig_gap u ltac:(lia)) as Esg. destruct (gap_SC u ltac:(lia)) as [Hg _].
  destruct (u_decomp u ltac:(lia)) as (_ & _ & Hsig & _).
  assert (HP : 0 < sc_P p) by (unfold sc_P; destruct (0 <=? p); [apply pow10_pos; lia|lia]).
  set (qa := sc_qa u p) in *. set (qb := sc_qb u p) in *. set (G := gap_num u * sc_P p) in *.
  assert (HG : 0 < G) by (apply Z.mul_pos_pos; lia).
  assert (EqaG : qa = sig u * G) by (rewrite Eqa, Esg; unfold G; ring).
  pose proof (Z.div_mod qa qb ltac:(lia)) as Hdm. pose proof (Z.mod_pos_bound qa qb Hqb) as HR.
  set (W := qa / qb) in *. set (R := qa mod qb) in *.
  assert (Hgl : (gl_of u * sc_P p = 2 * G /\ qb < G) \/ (gl_of u * sc_P p = G /\ 4 * qb < 3 * G)).
  { unfold gl_of. destruct (at_binade u) eqn:Eb.
    - right. split; [reflexivity|]. pose proof (binade_sig u Eb) as Es. rewrite Es in EqaG.
      pose proof p52_4_lt_3e16. pose proof p52_pos.
      (* 3 G p52 = 3 qa >= 3 10^16 qb > 4 p52 qb *)
      assert (4 * p52 * qb < 3 * 10 ^ 16 * qb) by (apply Z.mul_lt_mono_pos_r; lia).
      assert (4 * qb * p52 < 3 * G * p52) by lia.
      apply (proj2 (Z.mul_lt_mono_pos_r p52 (4 * qb) (3 * G) ltac:(lia))). assumption.
    - left. split; [unfold G; ring|]. pose proof p53_lt_1e16. pose proof p52_pos. pose proof p53_eq.
      assert (Hs0 : 0 < sig u).
      { destruct (Z.eq_dec (sig u) 0) as [E|NE]; [|lia]. rewrite E in EqaG. pose proof (pow10_pos 16 ltac:(lia)). nia. }
      (* G p53 > G sig = qa >= 10^16 qb > p53 qb *)
      assert (sig u * G < p53 * G) by (apply Z.mul_lt_mono_pos_r; lia).
      assert (p53 * qb < 10 ^ 16 * qb) by (apply Z.mul_lt_mono_pos_r; lia).
      assert (qb * p53 < G * p53) by lia.
      apply (proj2 (Z.mul_lt_mono_pos_r p53 qb G ltac:(lia))). assumption. }
  destruct (pick_candidate qa qb W R G (gl_of u * sc_P p) Hqb HG Hdm HR Hgl) as [[H1 H2]|[HR0 [H1 H2]]].
  - left. unfold in_iv. rewrite Elo, Ehi, Z.mul_1_r. fold G.
    destruct (Z.even u); apply andb_true_intro; split; try apply Z.leb_le; try apply Z.ltb_lt; lia.
  - right. split; [exact HR0|]. unfold in_iv. rewrite Elo, Ehi, Z.mul_1_r. fold G.
    destruct (Z.even u); apply andb_true_intro; split; try apply Z.leb_le; try apply Z.ltb_lt; lia.
Qed.

Lemma search_total closed lo4 hi4 qb4 qb W R n0 :
  (in_iv closed lo4 hi4 qb4 (W * 1) = true \/ (R <> 0 /\ in_iv closed lo4 hi4 qb4 ((W + 1) * 1) = true)) ->
  forall fuel k, 1 <= k <= 17 -> k + Z.of_nat fuel = 18 ->
  shortest_search fuel closed lo4 hi4 qb4 qb W R n0 k <> None.
Proof.
  intros Hlast. induction fuel as [|f IH]; intros k Hk Hf; [cbn in Hf; lia|].
  cbn [shortest_search]. cbv zeta.
  destruct (in_iv closed lo4 hi4 qb4 (W / 10 ^ (17 - k) * 10 ^ (17 - k))
            || negb (W mod 10 ^ (17 - k) * qb + R =? 0) && in_iv closed lo4 hi4 qb4 ((W / 10 ^ (17 - k) + 1) * 10 ^ (17 - k))) eqn:Hor.
  - destruct (_ =? _); discriminate.
  - destruct (Z.eq_dec k 17) as [->|NE].
    + exfalso. change (10 ^ (17 - 17)) with 1 in Hor. rewrite Z.div_1_r, Z.mod_1_r, Z.mul_0_l, Z.add_0_l in Hor.
      apply orb_false_iff in Hor. destruct Hor as [H1 H2].
      destruct Hlast as [H|[HR H]]; [congruence|].
      apply andb_false_iff in H2. destruct H2 as [H2|H2]; [|congruence].
      apply negb_false_iff in H2. apply Z.eqb_eq in H2. contradiction.
    + apply IH; [lia|]. rewrite Nat2Z.inj_succ in Hf. lia.
Qed.

Theorem shortest_total u : 0 < u < INF -> shortest u <> None.
Proof.
  intros Hu. rewrite shortest_unfold. cbv zeta. apply search_total; [apply (last_step u Hu)|lia|reflexivity].
Qed.

Corollary shortest_some u : 0 < u < INF -> exists s k n, shortest u = Some (s, k, n).
Proof.
  intros Hu. pose proof (shortest_total u Hu) as H. destruct (shortest u) as [[[s k] n]|]; [|congruence].
  exists s, k, n. reflexivity.
Qed.

(* Number(String(x)) = x for every finite non-zero double, on the specification *)
Theorem string_roundtrip bits : 0 <= bits < p64 -> 0 < mag bits < INF ->
  string_to_number_spec (to_string_spec bits) = bits.
Proof.
  intros Hb Hu. destruct (shortest_some (mag bits) Hu) as (s & k & n & H).
  exact (string_roundtrip_finite bits s k n Hb Hu H).
Qed.
