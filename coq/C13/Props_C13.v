(* C13 — pinned property theorems.  Statements only; the proofs are in Proofs_*.v.
   A double is its 64-bit pattern; a magnitude pattern u (0 <= u <= INF) has the exact value ival u / 2^1074. *)
From Coq Require Import ZArith List Bool String.
From C13 Require Import Model_C13 Code_C13 Proofs_Round Proofs_Unique Proofs_Digits Proofs_Shortest Proofs_Radix Proofs_Strings Proofs_Total Proofs_Minimal Proofs_Refute
  Deep_Code_C13 Deep_ParseInt_C13 Deep_Digits_C13 Deep_Format_C13 Deep_Exact_C13 Deep_Fixed_C13.
Import ListNotations.
Local Open Scope Z_scope.

(* ---- F(.) of ECMA-262 6.1.6.1 ("the Number value for"), as computed by round_nneg ---------------------------- *)

(* the result pattern's rounding interval (between the midpoints to the neighbouring patterns, a midpoint belonging
   to the even pattern, overflow to Infinity from 2^1024 - 2^970) contains the rational a/b — for every a/b >= 0 *)
Theorem rounding_nearest_even : forall a b, 0 <= a -> 0 < b -> in_interval (round_nneg a b) a b.
Proof. exact round_in_interval. Qed.
Check rounding_nearest_even : forall a b, 0 <= a -> 0 < b -> in_interval (round_nneg a b) a b.

(* ... and that determines the pattern: the intervals are disjoint *)
Theorem rounding_unique : forall a b u, 0 <= a -> 0 < b -> in_interval u a b -> round_nneg a b = u.
Proof. exact round_unique. Qed.
Check rounding_unique : forall a b u, 0 <= a -> 0 < b -> in_interval u a b -> round_nneg a b = u.

Theorem rounding_monotone : forall a b a' b', 0 <= a -> 0 < b -> 0 <= a' -> 0 < b' -> a * b' <= a' * b ->
  round_nneg a b <= round_nneg a' b'.
Proof. exact round_mono. Qed.
Check rounding_monotone : forall a b a' b', 0 <= a -> 0 < b -> 0 <= a' -> 0 < b' -> a * b' <= a' * b ->
  round_nneg a b <= round_nneg a' b'.

(* every finite or infinite magnitude pattern is the rounding of its own exact value *)
Theorem rounding_exact : forall u, 0 <= u <= INF -> round_nneg (ival u) SC = u.
Proof. exact round_exact. Qed.
Check rounding_exact : forall u, 0 <= u <= INF -> round_nneg (ival u) SC = u.

(* the exponent shortcuts of StringToNumber's value computation do not change the result *)
Theorem string_value_is_plain_rounding : forall neg m e, 0 < m ->
  dec_value neg m e = round_signed neg (fst (scale10 m 1 e)) (snd (scale10 m 1 e)).
Proof. exact dec_value_plain. Qed.
Check string_value_is_plain_rounding : forall neg m e, 0 < m ->
  dec_value neg m e = round_signed neg (fst (scale10 m 1 e)) (snd (scale10 m 1 e)).

(* ---- Number::toString: the digit-level round trip -------------------------------------------------------------- *)

(* whenever the digit search of Number::toString answers (s, k, n) for a finite non-zero magnitude u, s has exactly k
   digits, 1 <= k <= 17, and the decimal s * 10^(n-k) rounds back to u: F(s * 10^(n-k)) = x *)
Theorem to_string_digits_roundtrip : forall u s k n, 0 < u < INF -> shortest u = Some (s, k, n) ->
  1 <= k <= 17 /\ 10 ^ (k - 1) <= s < 10 ^ k /\
  round_nneg (fst (scale10 s 1 (n - k))) (snd (scale10 s 1 (n - k))) = u.
Proof. exact shortest_sound. Qed.
Check to_string_digits_roundtrip : forall u s k n, 0 < u < INF -> shortest u = Some (s, k, n) ->
  1 <= k <= 17 /\ 10 ^ (k - 1) <= s < 10 ^ k /\
  round_nneg (fst (scale10 s 1 (n - k))) (snd (scale10 s 1 (n - k))) = u.

(* "k is as small as possible": no decimal with fewer significant digits, at any decimal exponent, rounds to the
   same double — the digits of Number::toString are the SHORTEST round-trip form *)
Theorem to_string_shortest : forall u s k n, 0 < u < INF -> shortest u = Some (s, k, n) ->
  forall j s' e', 1 <= j < k -> 10 ^ (j - 1) <= s' < 10 ^ j -> rounds_to u s' e' = false.
Proof. exact fewer_digits_fail. Qed.
Check to_string_shortest : forall u s k n, 0 < u < INF -> shortest u = Some (s, k, n) ->
  forall j s' e', 1 <= j < k -> 10 ^ (j - 1) <= s' < 10 ^ j -> rounds_to u s' e' = false.

(* ---- Number(String(x)) = x, on the specification, at the string level --------------------------------------------- *)

(* for every 64-bit pattern of a finite non-zero double the text of Number::toString (sign, one of the five layouts
   of steps 6-10) is read by StringToNumber (trimming, prefix tests, sign, StrDecimalLiteral scan, rounding) back to
   the very same pattern *)
Theorem number_string_roundtrip : forall bits, 0 <= bits < p64 -> 0 < mag bits < INF ->
  string_to_number_spec (to_string_spec bits) = bits.
Proof. exact string_roundtrip. Qed.
Check number_string_roundtrip : forall bits, 0 <= bits < p64 -> 0 < mag bits < INF ->
  string_to_number_spec (to_string_spec bits) = bits.

(* the digit search always answers (17 digits suffice because 10^16 > 2^53) *)
Theorem to_string_total : forall u, 0 < u < INF -> exists s k n, shortest u = Some (s, k, n).
Proof. exact shortest_some. Qed.
Check to_string_total : forall u, 0 < u < INF -> exists s k n, shortest u = Some (s, k, n).

(* +0 and -0 print as "0" (the sign is dropped by Number::toString itself), infinities and NaN round-trip *)
Theorem number_string_roundtrip_zero : forall bits, mag bits = 0 -> string_to_number_spec (to_string_spec bits) = 0.
Proof. exact string_roundtrip_zero. Qed.
Check number_string_roundtrip_zero : forall bits, mag bits = 0 -> string_to_number_spec (to_string_spec bits) = 0.

Theorem number_string_roundtrip_infinity : forall bits, 0 <= bits < p64 -> mag bits = INF ->
  string_to_number_spec (to_string_spec bits) = bits.
Proof. exact string_roundtrip_inf. Qed.
Check number_string_roundtrip_infinity : forall bits, 0 <= bits < p64 -> mag bits = INF ->
  string_to_number_spec (to_string_spec bits) = bits.

Theorem number_string_roundtrip_nan : forall bits, INF < mag bits -> string_to_number_spec (to_string_spec bits) = NAN.
Proof. exact string_roundtrip_nan. Qed.
Check number_string_roundtrip_nan : forall bits, INF < mag bits -> string_to_number_spec (to_string_spec bits) = NAN.

(* ---- toFixed / toExponential / toPrecision: "n as close as possible, the larger n on ties" ----------------------- *)

(* toFixed step 8.a: with x * 10^f = N / D, the chosen n is at least as close as any other integer, and an equally
   close integer is smaller *)
Theorem to_fixed_digits_nearest : forall a b f n', 0 <= a -> 0 < b ->
  let N := fst (scale10 a b f) in let D := snd (scale10 a b f) in let n := round_half_up a b f in
  Z.abs (n * D - N) <= Z.abs (n' * D - N) /\ (Z.abs (n' * D - N) = Z.abs (n * D - N) -> n' <= n).
Proof. exact to_fixed_nearest. Qed.
Check to_fixed_digits_nearest : forall a b f n', 0 <= a -> 0 < b ->
  let N := fst (scale10 a b f) in let D := snd (scale10 a b f) in let n := round_half_up a b f in
  Z.abs (n * D - N) <= Z.abs (n' * D - N) /\ (Z.abs (n' * D - N) = Z.abs (n * D - N) -> n' <= n).

(* toExponential 10.b / toPrecision 10.a: the significand has exactly f+1 digits and is the nearest one (larger on
   ties) at the decimal exponent of x, or x rounds up to the next power of ten *)
Theorem to_exponential_digits_nearest : forall a b f, 0 < a -> 0 < b -> 0 <= f ->
  let n := fst (exp_digits a b f) in let e := snd (exp_digits a b f) in
  10 ^ f <= n < 10 ^ (f + 1) /\
  (e = dec_exp a b - 1 /\ nearest_up (fst (scale10 a b (f - e))) (snd (scale10 a b (f - e))) n
   \/ e = dec_exp a b /\ n = 10 ^ f /\ nearest_up (fst (scale10 a b (f - e + 1))) (snd (scale10 a b (f - e + 1))) (10 ^ (f + 1))).
Proof. exact exp_digits_spec. Qed.
Check to_exponential_digits_nearest : forall a b f, 0 < a -> 0 < b -> 0 <= f ->
  let n := fst (exp_digits a b f) in let e := snd (exp_digits a b f) in
  10 ^ f <= n < 10 ^ (f + 1) /\
  (e = dec_exp a b - 1 /\ nearest_up (fst (scale10 a b (f - e))) (snd (scale10 a b (f - e))) n
   \/ e = dec_exp a b /\ n = 10 ^ f /\ nearest_up (fst (scale10 a b (f - e + 1))) (snd (scale10 a b (f - e + 1))) (10 ^ (f + 1))).

(* the decimal exponent used there: 10^(n-1) <= a/b < 10^n, for every positive rational *)
Theorem decimal_exponent_correct : forall a b, 0 < a -> 0 < b ->
  (forall c, 0 <= c -> 0 <= c + dec_exp a b - 1 -> 10 ^ (c + dec_exp a b - 1) * b <= a * 10 ^ c) /\
  (forall c, 0 <= c -> 0 <= c + dec_exp a b -> a * 10 ^ c < 10 ^ (c + dec_exp a b) * b).
Proof. exact dec_exp_spec. Qed.
Check decimal_exponent_correct : forall a b, 0 < a -> 0 < b ->
  (forall c, 0 <= c -> 0 <= c + dec_exp a b - 1 -> 10 ^ (c + dec_exp a b - 1) * b <= a * 10 ^ c) /\
  (forall c, 0 <= c -> 0 <= c + dec_exp a b -> a * 10 ^ c < 10 ^ (c + dec_exp a b) * b).

(* ---- parseInt / toString(radix) on integers --------------------------------------------------------------------- *)

(* the digit string of an integer in any radix 2..36 reads back, digit by digit, to the same integer, and an
   integer-valued double is the correctly rounded value of its integer: parseInt(x.toString(r), r) = x *)
Theorem parse_int_exact : forall u v r, 2 <= r <= 36 -> 0 <= u < INF -> int_value u = Some v ->
  num_of r (span_radix r (dstr r v)) = v /\ round_nneg v 1 = u.
Proof. exact parse_int_exact_lemma. Qed.
Check parse_int_exact : forall u v r, 2 <= r <= 36 -> 0 <= u < INF -> int_value u = Some v ->
  num_of r (span_radix r (dstr r v)) = v /\ round_nneg v 1 = u.

(* ---- boa's hand-written digit algorithms as they were on the pinned tree db7050e (Code_C13, transliterated) do NOT
        have the property: witnesses.  (fixes.d/C13-*.patch replace these algorithms; see design.d/C13.md) ------------- *)

(* toPrecision on top of format!("{:.100}"): (5e-324).toPrecision(1) = "0e+101" *)
Theorem to_precision_model_refuted : exists bits p, to_precision_model bits (Some p) <> to_precision_spec bits (Some p).
Proof. exact to_precision_refuted. Qed.
Check to_precision_model_refuted : exists bits p, to_precision_model bits (Some p) <> to_precision_spec bits (Some p).

(* toExponential through core::fmt (ties to even): (2.5).toExponential(0) = "2e+0" *)
Theorem to_exponential_model_refuted : exists bits f, to_exponential_model bits (Some f) <> to_exponential_spec bits (Some f).
Proof. exact to_exponential_refuted. Qed.
Check to_exponential_model_refuted : exists bits f, to_exponential_model bits (Some f) <> to_exponential_spec bits (Some f).

(* parseInt accumulating in f64: parseInt("1234567890123456789") is one ulp off *)
Theorem parse_int_model_refuted : exists s r, parse_int_model s r <> parse_int_spec s r.
Proof. exact parse_int_refuted. Qed.
Check parse_int_model_refuted : exists s r, parse_int_model s r <> parse_int_spec s r.

(* StringToNumber through fast-float2's spellings: Number("-inf") = -Infinity *)
Theorem string_to_number_model_refuted : exists s, string_to_number_model s <> string_to_number_spec s.
Proof. exact string_to_number_refuted. Qed.
Check string_to_number_model_refuted : exists s, string_to_number_model s <> string_to_number_spec s.

(* ---- the REPAIRED hand-written algorithms now in /repo (Deep_Code_C13, transliterated) ARE the specification ------- *)

(* a binary64 value has at most 768 significant decimal digits: with e = floor(log10 x), x * 10^(767-e) is an integer —
   so format!("{n:.767e}") (decimal expansion correctly rounded at the 768th digit) is the complete expansion *)
Theorem double_has_768_digits : forall u, 0 < u < INF -> exact767_at u.
Proof. exact exact767_holds. Qed.
Check double_has_768_digits : forall u, 0 < u < INF -> exact767_at u.

(* exact_decimal_digits + round_to_significant_digits + f64_to_exponential_with_precision = toExponential of ECMA-262 *)
Theorem to_exponential_fixed_model_eq_spec : forall bits fd, 0 <= bits ->
  to_exponential_fixed_model bits fd = to_exponential_spec bits fd.
Proof. exact to_exponential_fixed_model_eq_spec_lemma. Qed.
Check to_exponential_fixed_model_eq_spec : forall bits fd, 0 <= bits ->
  to_exponential_fixed_model bits fd = to_exponential_spec bits fd.

(* ... and the repaired toPrecision = toPrecision of ECMA-262, for every pattern and every precision argument *)
Theorem to_precision_fixed_model_eq_spec : forall bits pd, 0 <= bits ->
  to_precision_fixed_model bits pd = to_precision_spec bits pd.
Proof. exact to_precision_fixed_model_eq_spec_lemma. Qed.
Check to_precision_fixed_model_eq_spec : forall bits pd, 0 <= bits ->
  to_precision_fixed_model bits pd = to_precision_spec bits pd.

(* the repaired toFixed (small_f64_to_fixed from the exact 1100-digit expansion below 1e-10, ryu-js by its specification
   above) = toFixed of ECMA-262, for every pattern and every digits argument *)
Theorem to_fixed_fixed_model_eq_spec : forall bits f, 0 <= bits -> to_fixed_fixed_model bits f = to_fixed_spec bits f.
Proof. exact to_fixed_fixed_model_eq_spec_lemma. Qed.
Check to_fixed_fixed_model_eq_spec : forall bits f, 0 <= bits -> to_fixed_fixed_model bits f = to_fixed_spec bits f.

(* the repaired parseInt (exact BigUint accumulation, one rounding) = parseInt of ECMA-262 with mathInt taken exactly,
   for every string and every radix argument *)
Theorem parse_int_fixed_model_eq_spec : forall s radix, parse_int_fixed_model s radix = parse_int_spec s radix.
Proof. exact parse_int_fixed_model_eq_spec_lemma. Qed.
Check parse_int_fixed_model_eq_spec : forall s radix, parse_int_fixed_model s radix = parse_int_spec s radix.

(* ---- the hypotheses above are satisfiable ---------------------------------------------------------------------- *)
Example shortest_of_one : shortest 4607182418800017408 = Some (1, 1, 1).
Proof. vm_compute. reflexivity. Qed.
Example shortest_of_max : shortest 9218868437227405311 = Some (17976931348623157, 17, 309).
Proof. vm_compute. reflexivity. Qed.
Example roundtrip_min_subnormal : string_to_number_spec (to_string_spec 1) = 1.
Proof. vm_compute. reflexivity. Qed.
Example int_value_of_255 : int_value 4643176031446892544 = Some 255.
Proof. vm_compute. reflexivity. Qed.

Print Assumptions rounding_nearest_even.
Print Assumptions to_string_digits_roundtrip.
Print Assumptions parse_int_exact.
Print Assumptions number_string_roundtrip.
Print Assumptions to_string_shortest.
Print Assumptions to_precision_fixed_model_eq_spec.
Print Assumptions parse_int_fixed_model_eq_spec.
Print Assumptions to_fixed_fixed_model_eq_spec.
