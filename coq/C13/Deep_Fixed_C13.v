(* C13 deepening: the repaired toFixed (small_f64_to_fixed for 0 < |x| < 1e-10, Deep_Code_C13.v) is the specification. *)
From Coq Require Import ZArith List Bool Lia.
From C13 Require Import Model_C13 Code_C13 Deep_Code_C13 Proofs_Round Proofs_Unique Proofs_Digits Proofs_Shortest Proofs_Radix
  Proofs_Strings Deep_Digits_C13 Deep_Format_C13.
Import ListNotations.
Local Open Scope list_scope.
Local Open Scope Z_scope.

(* reading digits off an arbitrary digit list (leading zeros allowed) *)
Lemma firstn_digits_gen D L c : Forall dig D -> Z.of_nat (List.length D) = L -> 0 <= c < L ->
  let N := num_of 10 D in let T := 10 ^ (L - c) in
  Forall dig (firstn (Z.to_nat c) D) /\ Z.of_nat (List.length (firstn (Z.to_nat c) D)) = c /\
  num_of 10 (firstn (Z.to_nat c) D) = N / T /\
  ((5 <=? nth (Z.to_nat c) D 0) = (T <=? 2 * (N mod T))).
Proof.
  intros HD HL Hc. cbv zeta. set (N := num_of 10 D).
  destruct (Forall_firstn_skipn dig (Z.to_nat c) D HD) as [HA HB].
  pose proof (firstn_skipn (Z.to_nat c) D) as Hsplit.
  set (A := firstn (Z.to_nat c) D) in *. set (B := skipn (Z.to_nat c) D) in *.
  assert (HlA : Z.of_nat (List.length A) = c) by (unfold A; rewrite firstn_length; lia).
  assert (HlB : Z.of_nat (List.length B) = L - c) by (unfold B; rewrite skipn_length; lia).
  pose proof (pow10_pos (L - c) ltac:(lia)) as HT. set (T := 10 ^ (L - c)) in *.
  assert (HVs : N = num_of 10 A * T + num_of 10 B) by (unfold N; rewrite <- Hsplit, num_of_app, HlB; reflexivity).
  pose proof (num_of_bounds B HB) as BB. rewrite HlB in BB. fold T in BB.
  assert (Hq : N / T = num_of 10 A) by (symmetry; apply (Z.div_unique N T (num_of 10 A) (num_of 10 B)); lia).
  assert (Hm : N mod T = num_of 10 B) by (symmetry; apply (Z.mod_unique N T (num_of 10 A) (num_of 10 B)); lia).
  split; [exact HA|]. split; [exact HlA|]. split; [symmetry; exact Hq|].
  assert (Hnth : nth (Z.to_nat c) D 0 = hd 0 B).
  { rewrite <- Hsplit. assert (HlA' : List.length A = Z.to_nat c) by lia. rewrite <- HlA'.
    destruct B as [|d B']; [cbn [List.length] in HlB; lia|]. rewrite nth_middle. reflexivity. }
  rewrite Hnth, Hm. destruct B as [|d B']; [cbn [List.length] in HlB; lia|].
  cbn [hd]. apply Forall_cons_iff in HB. destruct HB as [Hd HB']. rewrite num_of_cons.
  pose proof (num_of_bounds B' HB') as BB'. cbn [List.length] in HlB. rewrite Nat2Z.inj_succ in HlB.
  assert (ET : T = 10 * 10 ^ Z.of_nat (List.length B')).
  { unfold T. replace (L - c) with (Z.of_nat (List.length B') + 1) by lia. apply pow10_S. lia. }
  pose proof (pow10_pos (Z.of_nat (List.length B')) ltac:(lia)). set (T' := 10 ^ Z.of_nat (List.length B')) in *.
  unfold is_dig in Hd. destruct (Z.leb_spec 5 d); destruct (Z.leb_spec T (2 * (d * T' + num_of 10 B'))); try reflexivity; nia.
Qed.

Lemma ival_below_1e_10 : ival (bits_1e_10 - 1) * 10 ^ 10 < SC.
Proof. rewrite SC_eq. apply Z.ltb_lt. vm_compute. reflexivity. Qed.

(* the facts about a small magnitude: x < 10^-10 and x * 10^1100 is an integer below 10^1090 *)
Lemma small_facts u : 0 < u < bits_1e_10 ->
  let a := fst (ratio u) in let b := snd (ratio u) in
  0 < a /\ 0 < b /\ (a * 10 ^ 1100) mod b = 0 /\ 1 <= a * 10 ^ 1100 / b < 10 ^ 1090.
Proof.
  intros Hu. cbv zeta. assert (HuI : 0 < u < INF) by (split; [lia|]; apply Z.lt_trans with bits_1e_10; [lia|reflexivity]).
  destruct (ratio_pos u HuI) as [Ha Hb]. destruct (ratio_ival u ltac:(lia)) as (_ & _ & Hab).
  pose proof (ival_mono_le u (bits_1e_10 - 1) ltac:(lia) ltac:(lia)) as Hm. pose proof ival_below_1e_10 as H10. pose proof SC_pos as HSC.
  assert (Hx : fst (ratio u) * 10 ^ 10 < snd (ratio u)).
  { assert (fst (ratio u) * SC * 10 ^ 10 < SC * snd (ratio u)) by (rewrite Hab; nia).
    apply (proj2 (Z.mul_lt_mono_pos_l SC _ _ HSC)). lia. }
  assert (Hex : (fst (ratio u) * 10 ^ 1100) mod snd (ratio u) = 0).
  { destruct (u_decomp u ltac:(lia)) as (_ & Hs & _). revert Ha Hb Hab Hx. unfold ratio.
    destruct (Z.leb_spec 1074 (sh u)); cbn [fst snd]; intros; [apply Z.mod_1_r|].
    set (k := 1074 - sh u) in *.
    assert (E : 10 ^ 1100 = 10 ^ (1100 - k) * (5 ^ k * 2 ^ k)).
    { rewrite <- Z.pow_mul_l. change (5 * 2) with 10. rewrite <- Z.pow_add_r by (unfold k; lia). f_equal. lia. }
    rewrite E. replace (sig u * (10 ^ (1100 - k) * (5 ^ k * 2 ^ k))) with (sig u * 10 ^ (1100 - k) * 5 ^ k * 2 ^ k) by ring.
    apply Z.mod_mul. pose proof (pow2_gt0 k ltac:(unfold k; lia)). lia. }
  split; [exact Ha|]. split; [exact Hb|]. split; [exact Hex|].
  set (a := fst (ratio u)) in *. set (b := snd (ratio u)) in *.
  pose proof (Z.div_mod (a * 10 ^ 1100) b ltac:(lia)) as Hdm. rewrite Hex, Z.add_0_r in Hdm.
  assert (E : 10 ^ 1100 = 10 ^ 10 * 10 ^ 1090) by (rewrite <- Z.pow_add_r by lia; reflexivity).
  pose proof (pow10_pos 1090 ltac:(lia)). pose proof (pow10_pos 1100 ltac:(lia)).
  split.
  - assert (0 < a * 10 ^ 1100) by (apply Z.mul_pos_pos; lia). nia.
  - apply Z.div_lt_upper_bound; [lia|]. rewrite E. nia.
Qed.

Lemma digs_len_le n f : 0 <= n < 10 ^ f -> 0 < f -> 1 <= Z.of_nat (List.length (digs 10 n)) <= f.
Proof.
  intros Hn Hf. destruct (Z.eq_dec n 0) as [->|NE]; [change (digs 10 0) with [0]; cbn [List.length]; lia|].
  destruct (nd_spec n ltac:(lia)) as (H1 & H2 & H3). rewrite (digs_length n (nd n) H1 (conj H2 H3)).
  split; [exact H1|]. destruct (Z_le_gt_dec (nd n) f) as [C|C]; [exact C|exfalso].
  pose proof (pow10_le f (nd n - 1) ltac:(lia)). lia.
Qed.

(* the layout of toFixed for a value below 1 whose f fraction digits are given as a digit list *)
Lemma fixed_layout n f Dg : 0 <= f -> Forall dig Dg -> Z.of_nat (List.length Dg) = f -> num_of 10 Dg = n ->
  (match Dg with [] => [48] | _ => [48; 46] ++ chars Dg end) =
  (let m := dec_str n in let k := Z.of_nat (List.length m) in
   if f =? 0 then m else
     let m := if k <=? f then zrepeat 48 (f + 1 - k) ++ m else m in
     let k := Z.of_nat (List.length m) in take (k - f) m ++ [46] ++ drop (k - f) m).
Proof.
  intros Hf HD HL HV. cbv zeta. pose proof (num_of_bounds Dg HD) as HB. rewrite HL, HV in HB.
  destruct (Z.eqb_spec f 0) as [E|NE].
  - destruct Dg; [|cbn [List.length] in HL; lia]. cbn in HV. subst n. reflexivity.
  - destruct Dg as [|d0 Dg0] eqn:EDg; [cbn [List.length] in HL; lia|]. rewrite <- EDg in *.
    pose proof (digs_len_le n f HB ltac:(lia)) as Hk. rewrite dec_str_chars.
    set (M := chars (digs 10 n)). set (k := Z.of_nat (List.length (digs 10 n))) in *.
    assert (HlM : Z.of_nat (List.length M) = k) by (unfold M, chars; rewrite map_length; reflexivity).
    rewrite HlM. destruct (Z.leb_spec k f); [|lia].
    assert (Ecan : Dg = repeat 0 (Z.to_nat (f - k)) ++ digs 10 n).
    { apply num_of_inj; [exact HD|apply Forall_app; split; [apply dig_zeros|apply digs_range; lia]| |].
      - apply Nat2Z.inj. rewrite HL, app_length, repeat_length, Nat2Z.inj_add, Z2Nat.id by lia. fold k. lia.
      - rewrite HV, num_of_app, num_of_zeros, digs_value by lia. lia. }
    unfold zrepeat. replace (Z.to_nat (f + 1 - k)) with (S (Z.to_nat (f - k))) by lia. cbn [repeat app].
    assert (Hlen : Z.of_nat (List.length (48 :: repeat 48 (Z.to_nat (f - k)) ++ M)) = f + 1).
    { cbn [List.length]. rewrite app_length, repeat_length. lia. }
    rewrite Hlen. replace (f + 1 - f) with 1 by lia. unfold take, drop. change (Z.to_nat 1) with 1%nat. cbn [firstn skipn app].
    rewrite Ecan, chars_app, <- chars_zeros. reflexivity.
Qed.

Lemma match_sign (sg : ustr) Dg :
  match Dg with [] => sg ++ [48] | _ :: _ => sg ++ [48; 46] ++ map digit_char Dg end =
  sg ++ match Dg with [] => [48] | _ :: _ => [48; 46] ++ chars Dg end.
Proof. destruct Dg; reflexivity. Qed.

Theorem to_fixed_fixed_model_eq_spec_lemma bits f : 0 <= bits -> to_fixed_fixed_model bits f = to_fixed_spec bits f.
Proof.
  intros Hb. unfold to_fixed_fixed_model, to_fixed_spec.
  destruct ((f <? 0) || (100 <? f)) eqn:Hbad; [reflexivity|].
  apply orb_false_iff in Hbad. destruct Hbad as [H1 H2]. apply Z.ltb_ge in H1. apply Z.ltb_ge in H2.
  pose proof (mag_range bits Hb) as Hm. set (u := mag bits) in *.
  destruct (Z.eqb_spec u 0) as [E0|NE0]; cbn [negb andb]; [reflexivity|].
  destruct (Z.ltb_spec u bits_1e_10) as [Csm|Cbig]; [|reflexivity].
  destruct (small_facts u ltac:(lia)) as (Ha & Hbb & Hex & HN). cbv zeta in Ha, Hbb, Hex, HN.
  assert (HuI : u < INF) by (apply Z.lt_trans with bits_1e_10; [lia|reflexivity]).
  destruct (Z.leb_spec INF u); [lia|].
  unfold small_to_fixed_model, fmt_f1100_fraction.
  destruct (ratio u) as [a b] eqn:Er. cbn [fst snd] in *.
  set (N := a * 10 ^ 1100 / b) in *.
  assert (HNe : a * 10 ^ 1100 = b * N) by (unfold N; pose proof (Z.div_mod (a * 10 ^ 1100) b ltac:(lia)); lia).
  (* not >= 10^21 *)
  assert (Hx : a * 10 ^ 10 < b).
  { pose proof (pow10_pos 1090 ltac:(lia)). assert (E : 10 ^ 1100 = 10 ^ 10 * 10 ^ 1090) by (rewrite <- Z.pow_add_r by lia; reflexivity).
    destruct (Z_lt_ge_dec (a * 10 ^ 10) b) as [C|C]; [exact C|exfalso]. rewrite E in HNe. nia. }
  destruct (Z.leb_spec (b * 10 ^ 21) a) as [C21|C21]; [exfalso; pose proof (pow10_pos 21 ltac:(lia)); pose proof (pow10_pos 10 ltac:(lia)); nia|].
  assert (Hrhe : round_half_even a b 1100 = N).
  { unfold round_half_even, scale10. change (0 <=? 1100) with true. cbv iota. fold N. rewrite Hex.
    change (2 * 0) with 0. destruct (Z.ltb_spec b 0); [lia|]. destruct (Z.ltb_spec 0 b); [reflexivity|lia]. }
  rewrite Hrhe.
  (* the 1100 fraction digits *)
  destruct (nd_spec N ltac:(lia)) as (Hd1 & Hd2 & Hd3).
  pose proof (digs_length N (nd N) Hd1 (conj Hd2 Hd3)) as HlN.
  assert (HndN : nd N <= 1090).
  { destruct (Z_le_gt_dec (nd N) 1090) as [C|C]; [exact C|exfalso]. pose proof (pow10_le 1090 (nd N - 1) ltac:(lia)). lia. }
  set (F := repeat 0 (1100 - List.length (digs 10 N)) ++ digs 10 N).
  assert (HF : Forall dig F) by (apply Forall_app; split; [apply dig_zeros|apply digs_range; lia]).
  assert (HlF : Z.of_nat (List.length F) = 1100) by (unfold F; rewrite app_length, repeat_length; lia).
  assert (HvF : num_of 10 F = N) by (unfold F; rewrite num_of_app, num_of_zeros, digs_value by lia; lia).
  destruct (firstn_digits_gen F 1100 f HF HlF ltac:(lia)) as (HA & HlA & HvA & Hnth). cbv zeta in HA, HlA, HvA, Hnth.
  rewrite HvF in HvA, Hnth. rewrite Hnth.
  pose proof (half_up_from_exact a b 1100 f ltac:(lia) Hbb ltac:(lia) ltac:(lia) Hex) as Hrh. cbv zeta in Hrh. fold N in Hrh.
  set (T := 10 ^ (1100 - f)) in *. set (A := firstn (Z.to_nat f) F) in *.
  pose proof (pow10_pos (1100 - f) ltac:(lia)) as HT. fold T in HT.
  (* the rounded integer has at most f digits *)
  assert (Hq0 : 0 <= N / T) by (apply Z.div_pos; lia).
  assert (Hsmall : N / T + 1 < 10 ^ f \/ (f < 10 /\ N / T = 0 /\ (f = 0 -> 2 * (N mod T) < T))).
  { destruct (Z_lt_ge_dec f 10) as [C|C].
    - right. split; [exact C|]. assert (HTbig : 10 ^ 1090 <= T) by (apply pow10_le; lia).
      split; [apply Z.div_small; lia|]. intros ->. pose proof (Z.mod_pos_bound N T HT).
      assert (T = 10 ^ 1100) by reflexivity. assert (10 ^ 1100 = 10 * 10 ^ 1099) by reflexivity.
      assert (10 ^ 1090 <= 10 ^ 1099) by (apply pow10_le; lia). rewrite Z.mod_small by lia. lia.
    - left. assert (E : 10 ^ 1090 = 10 ^ (f - 10) * T) by (unfold T; rewrite <- Z.pow_add_r by lia; f_equal; lia).
      assert (N / T < 10 ^ (f - 10)) by (apply Z.div_lt_upper_bound; lia).
      assert (10 * 10 ^ (f - 10) <= 10 ^ f).
      { replace f with ((f - 10) + 10) at 2 by lia. rewrite Z.pow_add_r by lia. pose proof (pow10_pos (f - 10) ltac:(lia)).
        assert (10 <= 10 ^ 10) by (apply Z.leb_le; reflexivity). nia. }
      pose proof (pow10_pos (f - 10) ltac:(lia)). lia. }
  f_equal. rewrite andb_true_r.
  destruct (Z.leb_spec T (2 * (N mod T))) as [Cup|Cdn].
  - pose proof (incr_rev_spec (rev A) ltac:(apply Forall_rev; exact HA)) as (Fi & Ln & V).
    rewrite rev_length in Ln, V. rewrite rev_involutive in V. rewrite HlA, HvA in V.
    destruct (incr_rev (rev A)) as [r nines]. cbn [fst snd] in *.
    assert (Fr : Forall dig (rev r)) by (apply Forall_rev; exact Fi).
    assert (Lr : Z.of_nat (List.length (rev r)) = f) by (rewrite rev_length; lia).
    pose proof (num_of_bounds (rev r) Fr) as Br. rewrite Lr in Br.
    assert (Hnn : nines = false).
    { destruct nines; [exfalso|reflexivity]. destruct Hsmall as [S|(S1 & S2 & S3)]; [lia|].
      destruct (Z.eq_dec f 0) as [->|NZ]; [specialize (S3 eq_refl); lia|].
      assert (10 <= 10 ^ f) by (replace f with (f - 1 + 1) by lia; rewrite pow10_S by lia; pose proof (pow10_pos (f - 1) ltac:(lia)); lia). lia. }
    subst nines. rewrite Z.add_0_r in V. cbv iota. rewrite match_sign.
    rewrite (fixed_layout (round_half_up a b f) f (rev r) ltac:(lia) Fr Lr ltac:(rewrite Hrh; lia)). reflexivity.
  - cbv iota. rewrite match_sign. rewrite (fixed_layout (round_half_up a b f) f A ltac:(lia) HA HlA ltac:(rewrite Hrh; lia)). reflexivity.
Qed.
