(* Extraction of the executable specification and of the code-level models.  ExtrOcamlBasic only: Z, positive,
   nat, string and ascii stay the extracted inductive types; no Extract Constant / Extract Inductive here. *)
Require Import ExtrOcamlBasic.
From C13 Require Import Model_C13 Code_C13 Deep_Code_C13.
Extraction Language OCaml.
Extraction "../ocaml/C13/_build/numtext.ml"
  to_string_spec string_to_number_spec parse_float_spec parse_int_spec
  to_fixed_spec to_exponential_spec to_precision_spec radix_string_spec
  numeric_literal_spec json_number_spec shortest round_nneg ratio
  parse_int_model string_to_number_model radix_int_model to_exponential_model to_precision_model
  parse_int_fixed_model string_to_number_fixed_model to_exponential_fixed_model to_precision_fixed_model to_fixed_fixed_model.
