(* C13 proofs, part 4: the digit search of Number::toString is sound — the decimal it returns rounds back to the
   double (the digit-level round trip), has exactly k digits, and the interval test it uses is the rounding
   interval of Proofs_Round. *)
From Coq Require Import ZArith List Bool Lia.
From C13 Require Import Model_C13 Proofs_Round Proofs_Unique Proofs_Digits.
Local Open Scope Z_scope.

(* ---------------------------------------------------------------------------------------------- *)
(* the value of a pattern as the rational (ratio u) and the gaps to its neighbours *)

Lemma ratio_ival u : 0 <= u ->
  0 < snd (ratio u) /\ 0 <= fst (ratio u) /\ fst (ratio u) * SC = ival u * snd (ratio u).
Proof.
  intros Hu. destruct (u_decomp u Hu) as (_ & Hs & HM & _). unfold ratio, ival. rewrite SC_eq.
  destruct (Z.leb_spec 1074 (sh u)) as [C|C]; cbn [fst snd].
  - pose proof (pow2_gt0 (sh u - 1074) ltac:(lia)). split; [lia|]. split; [apply Z.mul_nonneg_nonneg; lia|].
    replace (sig u * 2 ^ (sh u - 1074) * 2 ^ 1074) with (sig u * (2 ^ (sh u - 1074) * 2 ^ 1074)) by ring.
    rewrite <- Z.pow_add_r by lia. replace (sh u - 1074 + 1074) with (sh u) by lia. ring.
  - pose proof (pow2_gt0 (1074 - sh u) ltac:(lia)). split; [lia|]. split; [lia|].
    replace (sig u * 2 ^ sh u * 2 ^ (1074 - sh u)) with (sig u * (2 ^ sh u * 2 ^ (1074 - sh u))) by ring.
    rewrite <- Z.pow_add_r by lia. replace (sh u + (1074 - sh u)) with 1074 by lia. reflexivity.
Qed.

Lemma gap_SC u : 0 <= u -> 0 < gap_num u /\ gap_num u * SC = 2 ^ sh u * snd (ratio u).
Proof.
  intros Hu. destruct (u_decomp u Hu) as (_ & Hs & _). unfold gap_num, ratio. rewrite SC_eq.
  destruct (Z.leb_spec 1074 (sh u)) as [C|C]; cbn [fst snd].
  - pose proof (pow2_gt0 (sh u - 1074) ltac:(lia)). split; [lia|].
    rewrite <- Z.pow_add_r by lia. replace (sh u - 1074 + 1074) with (sh u) by lia. ring.
  - split; [lia|]. rewrite <- Z.pow_add_r by lia. replace (sh u + (1074 - sh u)) with 1074 by lia. ring.
Qed.

(* the gap below: half the gap above exactly at a binade boundary *)
Lemma sh_pred u : 0 < u -> 2 * 2 ^ sh (u - 1) = (if at_binade u then 1 else 2) * 2 ^ sh u.
Proof.
  intros Hu. pose proof p52_pos as Hp. unfold at_binade, sh, bexp, bman.
  pose proof (Z.div_mod u p52 ltac:(lia)) as Hd. pose proof (Z.mod_pos_bound u p52 Hp) as Hm.
  assert (Hq0 : 0 <= u / p52) by (apply Z.div_pos; lia).
  set (q := u / p52) in *. set (r := u mod p52) in *.
  destruct (Z.eqb_spec r 0) as [Er|Er].
  - (* u = p52 * q, q >= 1 *)
    assert (Hq1 : 1 <= q) by nia.
    assert (Hdiv : (u - 1) / p52 = q - 1).
    { symmetry. apply (Z.div_unique _ _ (q - 1) (p52 - 1)); lia. }
    rewrite Hdiv. cbn [andb].
    destruct (Z.leb_spec 2 q) as [C|C].
    + destruct (Z.eqb_spec (q - 1) 0); [lia|]. destruct (Z.eqb_spec q 0); [lia|].
      replace (q - 1) with (q - 1 - 1 + 1) at 2 by lia. rewrite pow2_S by lia. lia.
    + assert (Eq1 : q = 1) by lia. rewrite Eq1. reflexivity.
  - assert (Hdiv : (u - 1) / p52 = q).
    { symmetry. apply (Z.div_unique _ _ q (r - 1)); lia. }
    rewrite Hdiv. cbn [andb]. lia.
Qed.

Lemma ival_pred u : 0 < u -> ival (u - 1) = ival u - 2 ^ sh (u - 1).
Proof. intros Hu. pose proof (ival_succ (u - 1) ltac:(lia)) as H. replace (u - 1 + 1) with u in H by lia. lia. Qed.

(* ---------------------------------------------------------------------------------------------- *)
(* the interval test of shortest_search = the rounding interval *)

Definition gl_of (u : Z) : Z := if at_binade u then gap_num u else 2 * gap_num u.

Lemma lo_iff u ya yb : 0 < u -> 0 < yb ->
  let a := fst (ratio u) in let b := snd (ratio u) in
  ((ival (u - 1) + ival u) * yb <= 2 * (ya * SC) <-> (4 * a - gl_of u) * yb <= 4 * ya * b) /\
  ((ival (u - 1) + ival u) * yb < 2 * (ya * SC) <-> (4 * a - gl_of u) * yb < 4 * ya * b).
Proof.
  intros Hu Hyb. cbv zeta. destruct (ratio_ival u ltac:(lia)) as (Hb & Ha & Hab).
  destruct (gap_SC u ltac:(lia)) as (Hg & HgS). pose proof (sh_pred u Hu) as Hsp. pose proof (ival_pred u Hu) as Hip.
  pose proof SC_pos as HSC. unfold gl_of.
  set (a := fst (ratio u)) in *. set (b := snd (ratio u)) in *. set (g := gap_num u) in *.
  set (h := 2 ^ sh (u - 1)) in *. set (w := 2 ^ sh u) in *. set (I := ival u) in *. rewrite Hip.
  (* 2 * b * [(2I - h) yb <= 2 ya SC]  <=>  SC * [(4a - gl) yb <= 4 ya b] *)
  assert (Key : 2 * b * ((I - h + I) * yb) - 2 * b * (2 * (ya * SC)) =
                SC * ((4 * a - (if at_binade u then g else 2 * g)) * yb) - SC * (4 * ya * b)).
  { destruct (at_binade u).
    - assert (2 * h * b = g * SC) by nia.
      replace (2 * b * ((I - h + I) * yb)) with ((4 * (I * b) - 2 * h * b) * yb) by ring. rewrite <- Hab, H. ring.
    - assert (h * b = g * SC) by nia.
      replace (2 * b * ((I - h + I) * yb)) with ((4 * (I * b) - 2 * (h * b)) * yb) by ring. rewrite <- Hab, H. ring. }
  set (L1 := (I - h + I) * yb) in *. set (R1 := 2 * (ya * SC)) in *.
  set (L2 := (4 * a - (if at_binade u then g else 2 * g)) * yb) in *. set (R2 := 4 * ya * b) in *.
  assert (H2b : 0 < 2 * b) by lia.
  split; split; intro H.
  - assert (SC * L2 <= SC * R2) by (assert (2 * b * L1 <= 2 * b * R1) by (apply Z.mul_le_mono_nonneg_l; lia); lia).
    apply (proj2 (Z.mul_le_mono_pos_l L2 R2 SC HSC)). assumption.
  - assert (2 * b * L1 <= 2 * b * R1) by (assert (SC * L2 <= SC * R2) by (apply Z.mul_le_mono_nonneg_l; lia); lia).
    apply (proj2 (Z.mul_le_mono_pos_l L1 R1 (2 * b) H2b)). assumption.
  - assert (SC * L2 < SC * R2) by (assert (2 * b * L1 < 2 * b * R1) by (apply Z.mul_lt_mono_pos_l; lia); lia).
    apply (proj2 (Z.mul_lt_mono_pos_l SC L2 R2 HSC)). assumption.
  - assert (2 * b * L1 < 2 * b * R1) by (assert (SC * L2 < SC * R2) by (apply Z.mul_lt_mono_pos_l; lia); lia).
    apply (proj2 (Z.mul_lt_mono_pos_l (2 * b) L1 R1 H2b)). assumption.
Qed.

Lemma hi_iff u ya yb : 0 <= u -> 0 < yb ->
  let a := fst (ratio u) in let b := snd (ratio u) in
  (2 * (ya * SC) <= (ival u + ival (u + 1)) * yb <-> 4 * ya * b <= (4 * a + 2 * gap_num u) * yb) /\
  (2 * (ya * SC) < (ival u + ival (u + 1)) * yb <-> 4 * ya * b < (4 * a + 2 * gap_num u) * yb).
Proof.
  intros Hu Hyb. cbv zeta. destruct (ratio_ival u Hu) as (Hb & Ha & Hab).
  destruct (gap_SC u Hu) as (Hg & HgS). pose proof (ival_succ u Hu) as Hip. pose proof SC_pos as HSC.
  set (a := fst (ratio u)) in *. set (b := snd (ratio u)) in *. set (g := gap_num u) in *.
  set (w := 2 ^ sh u) in *. set (I := ival u) in *. rewrite Hip.
  assert (Key : 2 * b * ((I + (I + w)) * yb) - 2 * b * (2 * (ya * SC)) = SC * ((4 * a + 2 * g) * yb) - SC * (4 * ya * b)).
  { replace (2 * b * ((I + (I + w)) * yb)) with ((4 * (I * b) + 2 * (w * b)) * yb) by ring. rewrite <- Hab, <- HgS. ring. }
  set (L1 := (I + (I + w)) * yb) in *. set (R1 := 2 * (ya * SC)) in *.
  set (L2 := (4 * a + 2 * g) * yb) in *. set (R2 := 4 * ya * b) in *.
  assert (H2b : 0 < 2 * b) by lia.
  split; split; intro H.
  - assert (SC * R2 <= SC * L2) by (assert (2 * b * R1 <= 2 * b * L1) by (apply Z.mul_le_mono_nonneg_l; lia); lia).
    apply (proj2 (Z.mul_le_mono_pos_l R2 L2 SC HSC)). assumption.
  - assert (2 * b * R1 <= 2 * b * L1) by (assert (SC * R2 <= SC * L2) by (apply Z.mul_le_mono_nonneg_l; lia); lia).
    apply (proj2 (Z.mul_le_mono_pos_l R1 L1 (2 * b) H2b)). assumption.
  - assert (SC * R2 < SC * L2) by (assert (2 * b * R1 < 2 * b * L1) by (apply Z.mul_lt_mono_pos_l; lia); lia).
    apply (proj2 (Z.mul_lt_mono_pos_l SC R2 L2 HSC)). assumption.
  - assert (2 * b * R1 < 2 * b * L1) by (assert (SC * R2 < SC * L2) by (apply Z.mul_lt_mono_pos_l; lia); lia).
    apply (proj2 (Z.mul_lt_mono_pos_l (2 * b) R1 L1 H2b)). assumption.
Qed.

(* the scaled quantities used by [shortest] *)
Definition sc_lo4 (u p : Z) : Z := let a := fst (ratio u) in if 0 <=? p then (4 * a - gl_of u) * 10 ^ Z.abs p else 4 * a - gl_of u.
Definition sc_hi4 (u p : Z) : Z := let a := fst (ratio u) in
  if 0 <=? p then (4 * a + 2 * gap_num u) * 10 ^ Z.abs p else 4 * a + 2 * gap_num u.
Definition sc_qa (u p : Z) : Z := if 0 <=? p then fst (ratio u) * 10 ^ Z.abs p else fst (ratio u).
Definition sc_qb (u p : Z) : Z := if 0 <=? p then snd (ratio u) else snd (ratio u) * 10 ^ Z.abs p.
(* the candidate v (an integer in units of 10^-p) as a rational *)
Definition cand (v p : Z) : Z * Z := if 0 <=? p then (v, 10 ^ Z.abs p) else (v * 10 ^ Z.abs p, 1).

Lemma shortest_unfold u :
  shortest u =
  let p := 17 - dec_exp (fst (ratio u)) (snd (ratio u)) in
  shortest_search 17 (Z.even u) (sc_lo4 u p) (sc_hi4 u p) (4 * sc_qb u p) (sc_qb u p)
                  (sc_qa u p / sc_qb u p) (sc_qa u p mod sc_qb u p) (dec_exp (fst (ratio u)) (snd (ratio u))) 1.
Proof.
  unfold shortest, sc_lo4, sc_hi4, sc_qa, sc_qb, gl_of. destruct (ratio u) as [a b]. cbn [fst snd]. reflexivity.
Qed.

Lemma in_iv_interval u p v : 0 < u < INF ->
  in_iv (Z.even u) (sc_lo4 u p) (sc_hi4 u p) (4 * sc_qb u p) v = true ->
  in_interval u (fst (cand v p)) (snd (cand v p)).
Proof.
  intros Hu Hiv. pose proof (pow10_pos (Z.abs p) ltac:(lia)) as HP.
  assert (Hyb : 0 < snd (cand v p)) by (unfold cand; destruct (0 <=? p); cbn [snd]; lia).
  destruct (lo_iff u (fst (cand v p)) (snd (cand v p)) ltac:(lia) Hyb) as [Lle Llt].
  destruct (hi_iff u (fst (cand v p)) (snd (cand v p)) ltac:(lia) Hyb) as [Hle Hlt].
  cbv zeta in Lle, Llt, Hle, Hlt.
  unfold in_iv, sc_lo4, sc_hi4, sc_qb, cand in *. cbv zeta in Hiv.
  set (a := fst (ratio u)) in *. set (b := snd (ratio u)) in *. set (P := 10 ^ Z.abs p) in *.
  split; [lia|]. split; [right; split; [lia|]|right; split; [lia|]].
  - destruct (Z.even u); destruct (0 <=? p); cbn [fst snd] in *;
      apply andb_prop in Hiv; destruct Hiv as [H1 _];
      [apply Lle; apply Z.leb_le in H1|apply Lle; apply Z.leb_le in H1|apply Llt; apply Z.ltb_lt in H1|apply Llt; apply Z.ltb_lt in H1]; lia.
  - destruct (Z.even u); destruct (0 <=? p); cbn [fst snd] in *;
      apply andb_prop in Hiv; destruct Hiv as [_ H2];
      [apply Hle; apply Z.leb_le in H2|apply Hle; apply Z.leb_le in H2|apply Hlt; apply Z.ltb_lt in H2|apply Hlt; apply Z.ltb_lt in H2]; lia.
Qed.

(* ---------------------------------------------------------------------------------------------- *)
(* the search returns a candidate that passed the interval test *)

Lemma search_sound closed lo4 hi4 qb4 qb W R n0 fuel : forall k s' k' n',
  1 <= k -> k + Z.of_nat fuel = 18 ->
  shortest_search fuel closed lo4 hi4 qb4 qb W R n0 k = Some (s', k', n') ->
  1 <= k' <= 17 /\
  exists s, (s = W / 10 ^ (17 - k') \/ s = W / 10 ^ (17 - k') + 1) /\
            in_iv closed lo4 hi4 qb4 (s * 10 ^ (17 - k')) = true /\
            ((s <> 10 ^ k' /\ s' = s /\ n' = n0) \/ (s = 10 ^ k' /\ s' = 10 ^ (k' - 1) /\ n' = n0 + 1)).
Proof.
  induction fuel as [|f IH]; intros k s' k' n' Hk Hf H; [discriminate|].
  cbn [shortest_search] in H. cbv zeta in H.
  set (t := 10 ^ (17 - k)) in *. set (lo := W / t) in *. set (r := W mod t * qb + R) in *.
  set (oklo := in_iv closed lo4 hi4 qb4 (lo * t)) in *.
  set (okhi := negb (r =? 0) && in_iv closed lo4 hi4 qb4 ((lo + 1) * t)) in *.
  destruct (oklo || okhi) eqn:Hor.
  - set (s := if oklo && okhi then (if 2 * r <? qb * t then lo else if qb * t <? 2 * r then lo + 1 else if Z.even lo then lo else lo + 1)
              else if oklo then lo else lo + 1) in *.
    assert (Hs : (s = lo /\ oklo = true) \/ (s = lo + 1 /\ okhi = true)).
    { unfold s. destruct oklo eqn:E1; destruct okhi eqn:E2; cbn [andb orb] in *; try discriminate.
      - destruct (2 * r <? qb * t); [left; auto|]. destruct (qb * t <? 2 * r); [right; auto|].
        destruct (Z.even lo); [left; auto|right; auto].
      - left; auto.
      - right; auto. }
    assert (Hk17 : 1 <= k <= 17) by lia.
    destruct (Z.eqb_spec s (10 ^ k)) as [E|NE]; injection H as <- <- <-; (split; [exact Hk17|]); exists s; fold t lo.
    + split; [destruct Hs as [[-> _]|[-> _]]; auto|]. split.
      * destruct Hs as [[-> Ho]|[-> Ho]]; [exact Ho|]. unfold okhi in Ho. apply andb_prop in Ho. apply Ho.
      * right. auto.
    + split; [destruct Hs as [[-> _]|[-> _]]; auto|]. split.
      * destruct Hs as [[-> Ho]|[-> Ho]]; [exact Ho|]. unfold okhi in Ho. apply andb_prop in Ho. apply Ho.
      * left. auto.
  - apply (IH (k + 1)); [lia| |exact H]. rewrite Nat2Z.inj_succ in Hf. lia.
Qed.

(* ---------------------------------------------------------------------------------------------- *)
(* candidate (s * 10^(17-k)) at scale p = 17 - n0 is the decimal s * 10^(n0-k) *)

Lemma cand_scale s k n0 : 1 <= k <= 17 ->
  let p := 17 - n0 in
  fst (cand (s * 10 ^ (17 - k)) p) * snd (scale10 s 1 (n0 - k)) = fst (scale10 s 1 (n0 - k)) * snd (cand (s * 10 ^ (17 - k)) p).
Proof.
  intros Hk. cbv zeta. unfold cand, scale10.
  destruct (Z.leb_spec 0 (17 - n0)) as [C1|C1]; destruct (Z.leb_spec 0 (n0 - k)) as [C2|C2]; cbn [fst snd].
  - rewrite Z.abs_eq by lia. replace (17 - k) with ((n0 - k) + (17 - n0)) by lia. rewrite Z.pow_add_r by lia. ring.
  - rewrite Z.abs_eq by lia.
    replace (s * 10 ^ (17 - k) * (1 * 10 ^ (- (n0 - k)))) with (s * (10 ^ (17 - k) * 10 ^ (- (n0 - k)))) by ring.
    rewrite <- Z.pow_add_r by lia. replace (17 - k + - (n0 - k)) with (17 - n0) by lia. ring.
  - rewrite Z.abs_neq by lia.
    replace (s * 10 ^ (17 - k) * 10 ^ (- (17 - n0)) * 1) with (s * (10 ^ (17 - k) * 10 ^ (- (17 - n0)))) by ring.
    rewrite <- Z.pow_add_r by lia. replace (17 - k + - (17 - n0)) with (n0 - k) by lia. ring.
  - lia.
Qed.

(* x * 10^(17-n0) has a 17-digit integer part *)
Lemma scaled_range u : 0 < u < INF ->
  let p := 17 - dec_exp (fst (ratio u)) (snd (ratio u)) in
  0 < sc_qb u p /\ 10 ^ 16 * sc_qb u p <= sc_qa u p < 10 ^ 17 * sc_qb u p.
Proof.
  intros Hu. cbv zeta. destruct (ratio_ival u ltac:(lia)) as (Hb & Ha & Hab).
  assert (Ha' : 0 < fst (ratio u)).
  { pose proof SC_pos. pose proof (ival_mono_lt 0 u ltac:(lia) ltac:(lia)) as H0. rewrite ival_0 in H0.
    destruct (Z.eq_dec (fst (ratio u)) 0) as [E|NE]; [|lia]. rewrite E in Hab. nia. }
  destruct (dec_exp_spec _ _ Ha' Hb) as [G L].
  set (a := fst (ratio u)) in *. set (b := snd (ratio u)) in *. set (n0 := dec_exp a b) in *.
  unfold sc_qa, sc_qb. fold a b. destruct (Z.leb_spec 0 (17 - n0)) as [C|C].
  - rewrite Z.abs_eq by lia. split; [exact Hb|].
    pose proof (G (17 - n0) C ltac:(lia)) as G1. pose proof (L (17 - n0) C ltac:(lia)) as L1.
    replace (17 - n0 + n0 - 1) with 16 in G1 by lia. replace (17 - n0 + n0) with 17 in L1 by lia. lia.
  - rewrite Z.abs_neq by lia. pose proof (pow10_pos (- (17 - n0)) ltac:(lia)) as HP.
    split; [apply Z.mul_pos_pos; lia|].
    pose proof (G 0 ltac:(lia) ltac:(lia)) as G1. pose proof (L 0 ltac:(lia) ltac:(lia)) as L1.
    rewrite Z.pow_0_r, Z.mul_1_r, Z.add_0_l in G1, L1.
    assert (E1 : 10 ^ (n0 - 1) = 10 ^ 16 * 10 ^ (- (17 - n0))) by (rewrite <- Z.pow_add_r by lia; f_equal; lia).
    assert (E2 : 10 ^ n0 = 10 ^ 17 * 10 ^ (- (17 - n0))) by (rewrite <- Z.pow_add_r by lia; f_equal; lia).
    rewrite E1 in G1. rewrite E2 in L1. split; lia.
Qed.

Lemma scale10_shift m e : 0 <= m ->
  fst (scale10 (10 * m) 1 e) * snd (scale10 m 1 (e + 1)) = fst (scale10 m 1 (e + 1)) * snd (scale10 (10 * m) 1 e).
Proof.
  intros Hm. unfold scale10.
  destruct (Z.leb_spec 0 e) as [C1|C1]; destruct (Z.leb_spec 0 (e + 1)) as [C2|C2]; cbn [fst snd]; try lia.
  - rewrite pow10_S by lia. ring.
  - assert (e = -1) by lia. subst e. change (-1 + 1) with 0. change (- -1) with 1. change (10 ^ 0) with 1. change (10 ^ 1) with 10. ring.
  - replace (- e) with (- (e + 1) + 1) by lia. rewrite pow10_S by lia. ring.
Qed.

(* the digit-level round trip, with the digit count *)
Theorem shortest_sound u s k n : 0 < u < INF -> shortest u = Some (s, k, n) ->
  1 <= k <= 17 /\ 10 ^ (k - 1) <= s < 10 ^ k /\
  round_nneg (fst (scale10 s 1 (n - k))) (snd (scale10 s 1 (n - k))) = u.
Proof.
  intros Hu H. rewrite shortest_unfold in H. cbv zeta in H.
  destruct (scaled_range u Hu) as (Hqb & Hq1 & Hq2). cbv zeta in Hqb, Hq1, Hq2.
  set (n0 := dec_exp (fst (ratio u)) (snd (ratio u))) in *. set (p := 17 - n0) in *.
  set (qa := sc_qa u p) in *. set (qb := sc_qb u p) in *.
  apply search_sound in H; [|lia|reflexivity].
  destruct H as (Hk & s0 & Hs0 & Hiv & Hcase).
  assert (HW : 10 ^ 16 <= qa / qb < 10 ^ 17).
  { split; [apply Z.div_le_lower_bound; lia|apply Z.div_lt_upper_bound; lia]. }
  set (W := qa / qb) in *.
  pose proof (pow10_pos (17 - k) ltac:(lia)) as Ht. pose proof (pow10_pos (k - 1) ltac:(lia)) as Hk1.
  assert (Hlo : 10 ^ (k - 1) <= W / 10 ^ (17 - k) < 10 ^ k).
  { assert (E16 : 10 ^ 16 = 10 ^ (k - 1) * 10 ^ (17 - k)) by (rewrite <- Z.pow_add_r by lia; f_equal; lia).
    assert (E17 : 10 ^ 17 = 10 ^ k * 10 ^ (17 - k)) by (rewrite <- Z.pow_add_r by lia; f_equal; lia).
    split; [apply Z.div_le_lower_bound; lia|apply Z.div_lt_upper_bound; lia]. }
  assert (Hs0r : 10 ^ (k - 1) <= s0 <= 10 ^ k) by (destruct Hs0 as [->| ->]; lia).
  assert (E10 : 10 ^ k = 10 * 10 ^ (k - 1)) by (replace k with (k - 1 + 1) at 1 by lia; apply pow10_S; lia).
  split; [exact Hk|].
  (* the candidate rounds to u *)
  pose proof (in_iv_interval u p (s0 * 10 ^ (17 - k)) Hu Hiv) as Hint.
  assert (Hc0 : 0 <= fst (cand (s0 * 10 ^ (17 - k)) p) /\ 0 < snd (cand (s0 * 10 ^ (17 - k)) p)).
  { pose proof (pow10_pos (Z.abs p) ltac:(lia)). unfold cand. destruct (0 <=? p); cbn [fst snd]; split; try lia; repeat apply Z.mul_nonneg_nonneg; lia. }
  destruct Hc0 as [Hc0 Hc1].
  pose proof (round_unique _ _ u Hc0 Hc1 Hint) as Hr.
  destruct (scale10_pos s0 1 (n0 - k) ltac:(lia) ltac:(lia)) as [Hsa Hsb].
  assert (Hr0 : round_nneg (fst (scale10 s0 1 (n0 - k))) (snd (scale10 s0 1 (n0 - k))) = u).
  { rewrite <- Hr. apply round_ratio; try assumption. symmetry. apply (cand_scale s0 k n0 Hk). }
  destruct Hcase as [(Hne & -> & ->)|(He & -> & ->)].
  - split; [lia|exact Hr0].
  - split; [lia|]. rewrite <- Hr0. rewrite He, E10.
    destruct (scale10_pos (10 ^ (k - 1)) 1 (n0 + 1 - k) ltac:(lia) ltac:(lia)) as [Hta Htb].
    destruct (scale10_pos (10 * 10 ^ (k - 1)) 1 (n0 - k) ltac:(lia) ltac:(lia)) as [Hua Hub].
    apply round_ratio; try assumption.
    pose proof (scale10_shift (10 ^ (k - 1)) (n0 - k) ltac:(lia)) as Hsh.
    replace (n0 - k + 1) with (n0 + 1 - k) in Hsh by lia. symmetry. exact Hsh.
Qed.

Corollary shortest_rounds_to u s k n : 0 < u < INF -> shortest u = Some (s, k, n) -> rounds_to u s (n - k) = true.
Proof.
  intros Hu H. destruct (shortest_sound u s k n Hu H) as (_ & _ & Hr). unfold rounds_to.
  destruct (scale10 s 1 (n - k)) as [a b]. cbn [fst snd] in Hr. rewrite Hr. apply Z.eqb_refl.
Qed.
