(* Extraction of the verifier for the driver ocaml/C03/driver.ml.  ExtrOcamlBasic only.
   The output directory ocaml/C03/_build/ (git-ignored) must exist: checks/c03.py and ocaml/C03/build.sh create it. *)
From Coq Require Import NArith List.
From Coq Require Extraction.
From Coq Require Import ExtrOcamlBasic.
From Gen Require Import OpcodeSig.
From C03 Require Import Bytecode_C03 DeepBytecode_C03 DeepLocators_C03 DeepMerge_C03.
Extraction Language OCaml.
Set Extraction Optimize.
Extraction "../ocaml/C03/_build/c03_model.ml"
  verify wf_block check infer infer_full build_code jump_regs contiguous find_instr operands_ok effect norm_succs exc_succs asteps succs_tagged
  normal_depth entry_depth aget instrs handler_ok contiguous find_handler
  opcode_of_byte opcode_name opcode_sig opcode_fields opcode_ret all_opcodes roles regs_of
  HANDLER_TRUNCATES_STACK HANDLER_TRUNCATES_BINDINGS
  verify2 infer_full2 succs_tagged2 aget2 entry_depth2 iter_norm iter_exc needs_iter at_stack_empty in_drain
  verify3 locators_ok locator_ok binds_of scope_of
  verify4 nonstack_agree same_nonstack agree.
