(* C03 deepening round -- model: the frame's iterator stack (`CallFrame::iterators`) as a fourth depth.

   The abstract machine of Bytecode_C03.v is extended by a product construction: a state is the old depth record plus
   the length of frame.iterators.  Control flow, the three old depths and the exception edges are exactly those of the
   old machine (`norm_succs` / `exc_succs` are reused); the iterator dimension adds
     * `iter_norm`: what the instruction does to frame.iterators when it completes normally (None = it needs an iterator
       record and there is none: `.expect("iterator on the call frame must exist")` / `js_expect(..)` in
       vm/opcode/iteration/iterator.rs);
     * `iter_exc`: the length when the instruction raises instead (several opcodes pop the record, call into user code
       with `?` and push it back only on success; Vm::handle_exception_at does not touch frame.iterators).
   What the compiler assumes: the handler of a for-of/for-in/for-await loop runs `Exception; IteratorReturn; Throw` (it
   closes the record on top, which must be the loop's own), loop exits and `continue`/`return`/`break` records close one
   record per iterator loop they leave (bytecompiler/jump_control.rs JumpRecordAction::CloseIterator).  A path that
   leaves an iterator loop without closing its record shows up as two different iterator depths at a merge point. *)
From Coq Require Import NArith ZArith List Bool FMapPositive.
From Gen Require Import OpcodeSig.
From C03 Require Import Bytecode_C03.
Import ListNotations.
Local Open Scope N_scope.

(* opcodes that read or pop-and-push-back the record on top: they need one to exist *)
Definition needs_iter (o : opcode) : bool :=
  match o with
  | Op_IteratorPop | Op_PushIteratorToArray
  | Op_IteratorNext | Op_IteratorUpdateResult | Op_IteratorValue | Op_IteratorResult | Op_IteratorDone
  | Op_IteratorToArray | Op_IteratorFinishAsyncNext => true
  | _ => false
  end.

(* frame.iterators.len() after normal completion (a list: room for data-dependent outcomes) *)
Definition iter_norm (o : opcode) (n : N) : option (list N) :=
  match o with
  | Op_GetIterator | Op_GetAsyncIterator | Op_CreateForInIterator | Op_IteratorPush => Some [n + 1]
  | Op_IteratorPop | Op_PushIteratorToArray => if n =? 0 then None else Some [n - 1]
  | Op_IteratorNext | Op_IteratorUpdateResult | Op_IteratorValue | Op_IteratorResult | Op_IteratorDone
  | Op_IteratorToArray => if n =? 0 then None else Some [n]
  (* PARTIAL: when the resume kind is Throw, IteratorFinishAsyncNext returns Ok without pushing the record back and the
     emitted code then re-throws (rejected `await` in for-await-of).  That case depends on a run-time value in a register;
     modelling both lengths makes every for-await-of loop conflict with itself at the next instruction, so only the
     Normal/Return case is modelled; the dynamic validation accepts either length for this opcode. *)
  | Op_IteratorFinishAsyncNext => if n =? 0 then None else Some [n]
  | Op_IteratorReturn => Some [n - 1]                 (* `let Some(record) = iterators.pop() else { called = false; return Ok(()) }` *)
  | _ => Some [n]
  end.

(* frame.iterators.len() when the instruction raises *)
Definition iter_exc (o : opcode) (n : N) : list N :=
  match o with
  | Op_PushIteratorToArray                            (* popped, iterates with `?`, never pushed back *)
  | Op_IteratorNext | Op_IteratorUpdateResult | Op_IteratorValue | Op_IteratorFinishAsyncNext   (* popped; pushed back only on Ok *)
  | Op_IteratorReturn => [n - 1]                      (* popped before get_method / call *)
  | _ => [n]                                          (* GetIterator & co. raise before pushing; IteratorToArray pushes back first *)
  end.

Record depth2 := mkD2 { d2_base : depth; d2_iter : N }.

Definition entry_depth2 (cb : codeblock) : depth2 := mkD2 (entry_depth cb) 0.

Definition pair_with (l : list (N * depth)) (ns : list N) : list (N * depth2) :=
  flat_map (fun s => map (fun n => (fst s, mkD2 (snd s) n)) ns) l.

(* IteratorStackEmpty { dst } stores `frame.iterators.is_empty()`: a constant the abstract state knows.  The return path of
   `yield*` drains the iterator stack with the run-time loop  L: IteratorStackEmpty r; JumpIfTrue exit, r; IteratorReturn ..; Jump L
   (bytecompiler: "close all iterators"), so the test must be resolved from the abstract length, and the loop head is the
   one place where several lengths legitimately meet (see `key2`). *)
Definition is_stack_empty (o : opcode) : bool := match o with Op_IteratorStackEmpty => true | _ => false end.

Definition stack_empty_sel (cb : codeblock) (i : instr) (n : N) (d : depth) : depth :=
  match i_op i, i_args i with
  | Op_IteratorStackEmpty, [AReg r] =>
      if memN r (cb_jregs cb)
      then mkD (d_env d) (d_bind d) (d_stk d) (sel_set r (if n =? 0 then BTRUE else BFALSE) (d_sel d))
      else d
  | _, _ => d
  end.

Definition refine_sel (cb : codeblock) (i : instr) (n : N) (l : list (N * depth)) : list (N * depth) :=
  map (fun s => (fst s, stack_empty_sel cb i n (snd s))) l.

Definition asteps2 (cb : codeblock) (pc : N) (d : depth2) : option (list (N * depth2)) :=
  match find_instr cb pc with
  | None => None
  | Some i =>
      if negb (operands_ok cb i) then None else
      match effect (i_op i) (i_args i) with
      | None => None
      | Some e =>
          match norm_succs cb i e (d2_base d), exc_succs cb i e (d2_base d), iter_norm (i_op i) (d2_iter d) with
          | Some l1, Some l2, Some ns =>
              Some (pair_with (refine_sel cb i (d2_iter d) l1) ns ++ pair_with l2 (iter_exc (i_op i) (d2_iter d)))
          | _, _, _ => None
          end
      end
  end.

(* ---- annotations, checker, inference (same scheme as Bytecode_C03.v) ---- *)

Definition annot2 := PositiveMap.t (list depth2).
Definition aget2 (A : annot2) (pc : N) : list depth2 :=
  match PositiveMap.find (key pc) A with Some l => l | None => [] end.

Definition depth2_eqb (a b : depth2) : bool := depth_eqb (d2_base a) (d2_base b) && (d2_iter a =? d2_iter b).
Definition memD2 (d : depth2) (l : list depth2) : bool := existsb (depth2_eqb d) l.
Definition sel2 (d : depth2) : list (N * N) := d_sel (d2_base d).

(* what must determine the depths at a pc: the selectors, and inside a drain loop also the length itself *)
Definition at_stack_empty (cb : codeblock) (pc : N) : bool :=
  match find_instr cb pc with Some i => is_stack_empty (i_op i) | None => false end.

(* the drain loops: from an IteratorStackEmpty at L to the backward `Jump L` that closes the loop *)
Definition drain_ranges (cb : codeblock) : list (N * N) :=
  flat_map (fun i => match i_op i, i_args i with
                     | Op_Jump, [AAddr a] => if (a <? i_pc i) && at_stack_empty cb a then [(a, i_pc i)] else []
                     | _, _ => [] end) (instrs cb).
Definition in_drain (cb : codeblock) (pc : N) : bool :=
  existsb (fun r => (fst r <=? pc) && (pc <=? snd r)) (drain_ranges cb).
Definition same_key (drain : bool) (a b : depth2) : bool :=
  sel_eqb (sel2 a) (sel2 b) && (negb drain || (d2_iter a =? d2_iter b)).

Definition check_succ2 (cb : codeblock) (A : annot2) (s : N * depth2) : bool :=
  memD2 (snd s) (aget2 A (fst s)) && is_start cb (fst s).

Definition check_state2 (cb : codeblock) (A : annot2) (pc : N) (d : depth2) : bool :=
  match asteps2 cb pc d with
  | None => false
  | Some l => forallb (check_succ2 cb A) l
  end.

Fixpoint functional2 (drain : bool) (l : list depth2) : bool :=
  match l with
  | [] => true
  | d :: t => forallb (fun d' => negb (same_key drain d d') || depth2_eqb d d') t && functional2 drain t
  end.

Definition check_instr2 (cb : codeblock) (A : annot2) (i : instr) : bool :=
  forallb (check_state2 cb A (i_pc i)) (aget2 A (i_pc i)) && functional2 (in_drain cb (i_pc i)) (aget2 A (i_pc i)).

Definition check2 (cb : codeblock) (A : annot2) : bool :=
  check_succ2 cb A (0, entry_depth2 cb) && forallb (check_instr2 cb A) (instrs cb).

Inductive err2 :=
| ErrMerge2 (e : edge) (pc : N) (have want : depth2)
| ErrStuck2 (pc : N) (d : depth2)
| ErrFuel2.

Definition tag2 (f : N -> edge) (from : N) (l : list (N * depth2)) : list (edge * N * depth2) :=
  map (fun s => (f from, fst s, snd s)) l.

Definition succs_tagged2 (cb : codeblock) (pc : N) (d : depth2) : option (list (edge * N * depth2)) :=
  match find_instr cb pc with
  | None => None
  | Some i =>
      if negb (operands_ok cb i) then None else
      match effect (i_op i) (i_args i) with
      | None => None
      | Some e =>
          match norm_succs cb i e (d2_base d), exc_succs cb i e (d2_base d), iter_norm (i_op i) (d2_iter d) with
          | Some l1, Some l2, Some ns =>
              Some (tag2 ENormal pc (pair_with (refine_sel cb i (d2_iter d) l1) ns) ++
                    tag2 EExc pc (pair_with l2 (iter_exc (i_op i) (d2_iter d))))
          | _, _, _ => None
          end
      end
  end.

Definition same_sel2 (drain : bool) (d : depth2) (l : list depth2) : option depth2 :=
  find (fun d' => same_key drain d d') l.

Fixpoint infer_loop2 (fuel : nat) (cb : codeblock) (A : annot2) (work : list (edge * N * depth2)) (errs : list err2)
  : annot2 * list err2 :=
  match fuel with
  | O => (A, ErrFuel2 :: errs)
  | S f =>
      match work with
      | [] => (A, errs)
      | (e, pc, d) :: w =>
          let here := aget2 A pc in
          if memD2 d here then infer_loop2 f cb A w errs else
          match same_sel2 (in_drain cb pc) d here with
          | Some d0 => infer_loop2 f cb A w (ErrMerge2 e pc d0 d :: errs)
          | None =>
              let A' := PositiveMap.add (key pc) (d :: here) A in
              match succs_tagged2 cb pc d with
              | None => infer_loop2 f cb A' w (ErrStuck2 pc d :: errs)
              | Some l => infer_loop2 f cb A' (l ++ w) errs
              end
          end
      end
  end.

Definition infer_full2 (cb : codeblock) : annot2 * list err2 :=
  infer_loop2 (infer_fuel cb) cb (PositiveMap.empty (list depth2)) [(EEntry, 0, entry_depth2 cb)] [].

Definition infer2 (cb : codeblock) : annot2 := fst (infer_full2 cb).

(* THE VERIFIER, with the iterator stack *)
Definition verify2 (cb : codeblock) : bool := wf_block cb && check2 cb (infer2 cb).

Inductive reach2 (cb : codeblock) : N -> depth2 -> Prop :=
| reach2_entry : reach2 cb 0 (entry_depth2 cb)
| reach2_step : forall pc d l pc' d',
    reach2 cb pc d -> asteps2 cb pc d = Some l -> In (pc', d') l -> reach2 cb pc' d'.
