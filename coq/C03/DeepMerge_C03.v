(* C03 deepening round 3 -- depths other than the value stack must agree at every pc across ALL selector valuations.

   The annotation keeps one state per selector valuation because boa's try/finally lowering varies the VALUE-STACK depth on
   purpose (a pending `return` keeps its value on the stack while the finally block runs).  Nothing else may vary: the
   environment depth, the pending binding references and the iterator-stack length at a finally entry (and at every other
   pc) are the same whatever completion is pending -- the finally body's PushScope / PopEnvironment / locators are compiled
   once.  A jump record that forgets its PopEnvironment on the way to a finally reaches the finally entry with another
   environment depth *and another selector*, which `functional2` (one state per selector valuation) does not see. *)
From Coq Require Import NArith ZArith List Bool FMapPositive Lia.
From Gen Require Import OpcodeSig.
From C03 Require Import Bytecode_C03 Proofs_C03 DeepBytecode_C03 DeepProofs_C03 DeepLocators_C03.
Import ListNotations.
Local Open Scope N_scope.

Definition same_nonstack (drain : bool) (a b : depth2) : bool :=
  (d_env (d2_base a) =? d_env (d2_base b)) && listN_eqb (d_bind (d2_base a)) (d_bind (d2_base b)) &&
  (drain || (d2_iter a =? d2_iter b)).

Fixpoint agree (drain : bool) (l : list depth2) : bool :=
  match l with
  | [] => true
  | d :: t => forallb (same_nonstack drain d) t && agree drain t
  end.

Definition nonstack_agree (cb : codeblock) (A : annot2) : bool :=
  forallb (fun i => agree (in_drain cb (i_pc i)) (aget2 A (i_pc i))) (instrs cb).

(* THE VERIFIER of this round *)
Definition verify4 (cb : codeblock) (scopes : list (option N)) (fp : N) : bool :=
  verify3 cb scopes fp && nonstack_agree cb (infer2 cb).

Lemma same_nonstack_spec : forall drain a b, same_nonstack drain a b = true ->
  d_env (d2_base a) = d_env (d2_base b) /\ d_bind (d2_base a) = d_bind (d2_base b) /\
  (drain = false -> d2_iter a = d2_iter b).
Proof.
  intros drain a b H. unfold same_nonstack in H.
  apply andb_true_iff in H. destruct H as [H H3]. apply andb_true_iff in H. destruct H as [H1 H2].
  apply N.eqb_eq in H1. apply listN_eqb_eq in H2. split; [exact H1|]. split; [exact H2|].
  intros Hd. rewrite Hd in H3. simpl in H3. apply N.eqb_eq. exact H3.
Qed.

Lemma agree_spec : forall drain l, agree drain l = true ->
  forall a b, In a l -> In b l ->
  d_env (d2_base a) = d_env (d2_base b) /\ d_bind (d2_base a) = d_bind (d2_base b) /\
  (drain = false -> d2_iter a = d2_iter b).
Proof.
  intros drain. induction l as [|d t IH]; simpl; intros H a b Ha Hb; [contradiction|].
  apply andb_true_iff in H. destruct H as [H1 H2]. rewrite forallb_forall in H1.
  destruct Ha as [Ha|Ha]; destruct Hb as [Hb|Hb]; subst.
  - repeat split; auto.
  - apply same_nonstack_spec. apply H1. exact Hb.
  - destruct (same_nonstack_spec _ _ _ (H1 a Ha)) as [E1 [E2 E3]].
    split; [congruence|]. split; [congruence|]. intros Hd. symmetry. auto.
  - apply IH; auto.
Qed.

Lemma verify4_verify3 : forall cb scopes fp, verify4 cb scopes fp = true -> verify3 cb scopes fp = true.
Proof. intros cb scopes fp H. unfold verify4 in H. apply andb_true_iff in H. tauto. Qed.

Lemma nonstack_agreement_lemma : forall cb scopes fp, verify4 cb scopes fp = true ->
  forall pc d1 d2, reach2 cb pc d1 -> reach2 cb pc d2 ->
  d_env (d2_base d1) = d_env (d2_base d2) /\ d_bind (d2_base d1) = d_bind (d2_base d2) /\
  (in_drain cb pc = false -> d2_iter d1 = d2_iter d2).
Proof.
  intros cb scopes fp Hv pc d1 d2 H1 H2.
  unfold verify4 in Hv. apply andb_true_iff in Hv. destruct Hv as [Hv3 Ha].
  pose proof (verify3_verify2 _ _ _ Hv3) as Hv2.
  destruct (verify2_sound_lemma _ Hv2 _ _ H1) as [I1 [[i Hi] _]].
  destruct (verify2_sound_lemma _ Hv2 _ _ H2) as [I2 _].
  unfold nonstack_agree in Ha. rewrite forallb_forall in Ha.
  specialize (Ha i (find_instr_In _ _ _ Hi)). rewrite (find_instr_pc _ _ _ Hi) in Ha.
  exact (agree_spec _ _ Ha _ _ I1 I2).
Qed.
