(* C03 deepening round 2 -- binding locators against the environment chain.

   Every binding operand names an entry of the block's bindings table; an entry is a BindingLocator whose scope is
   GlobalObject / GlobalDeclarative (never indexes frame.environments) or Stack(n): the instruction reads or writes
   `frame.environments.get(n)` (Context::environment_expect: `.expect("environment index must be in range")`;
   get_binding / set_binding / put_lexical_value / find_runtime_binding start there).  n is an *absolute* index from the
   root of the chain; the machine tracks the depth relative to env_fp, so the check is parameterised by
     scopes : the locator scope of every bindings-table entry (None = global), from CodeBlock::verif_dump;
     fp     : env_fp of the frame = length of the environment chain the closure captured, i.e. the absolute depth at
              the GetFunction that creates it in the parent block (0 for a script); computed top-down by the driver from
              the parent's annotation and validated against the depth log.
   `locators_ok` checks n < fp + (relative depth) for every annotated state of every instruction with a binding operand. *)
From Coq Require Import NArith ZArith List Bool FMapPositive Lia.
From Gen Require Import OpcodeSig.
From C03 Require Import Bytecode_C03 Proofs_C03 DeepBytecode_C03 DeepProofs_C03.
Import ListNotations.
Local Open Scope N_scope.

Definition bind_of_operand (r : role) (a : operand) : list N :=
  match r, a with RoBind, AIdx n => [n] | _, _ => [] end.

Fixpoint binds_of_aux (rs : list role) (args : list operand) : list N :=
  match rs, args with
  | r :: rs', a :: args' => bind_of_operand r a ++ binds_of_aux rs' args'
  | _, _ => []
  end.

(* the bindings-table entries an instruction names *)
Definition binds_of (i : instr) : list N := binds_of_aux (roles (i_op i)) (i_args i).

Definition scope_of (scopes : list (option N)) (b : N) : option N :=
  match nth_error scopes (N.to_nat b) with Some s => s | None => None end.

Definition locator_ok (scopes : list (option N)) (fp : N) (d : depth2) (b : N) : bool :=
  match scope_of scopes b with
  | Some n => n <? fp + d_env (d2_base d)
  | None => true
  end.

Definition locators_ok_instr (scopes : list (option N)) (fp : N) (A : annot2) (i : instr) : bool :=
  forallb (fun d => forallb (locator_ok scopes fp d) (binds_of i)) (aget2 A (i_pc i)).

Definition locators_ok (cb : codeblock) (scopes : list (option N)) (fp : N) (A : annot2) : bool :=
  forallb (locators_ok_instr scopes fp A) (instrs cb).

(* THE VERIFIER of this round: structure + all four depths + locators *)
Definition verify3 (cb : codeblock) (scopes : list (option N)) (fp : N) : bool :=
  verify2 cb && locators_ok cb scopes fp (infer2 cb).

Lemma no_env_index_oob_lemma : forall cb scopes fp, verify3 cb scopes fp = true ->
  forall pc d i, reach2 cb pc d -> find_instr cb pc = Some i ->
  forall b n, In b (binds_of i) -> scope_of scopes b = Some n -> n < fp + d_env (d2_base d).
Proof.
  intros cb scopes fp Hv pc d i Hr Hi b n Hb Hs.
  unfold verify3 in Hv. apply andb_true_iff in Hv. destruct Hv as [Hv2 Hl].
  destruct (verify2_sound_lemma _ Hv2 _ _ Hr) as [Hin _].
  unfold locators_ok in Hl. rewrite forallb_forall in Hl.
  specialize (Hl i (find_instr_In _ _ _ Hi)). unfold locators_ok_instr in Hl.
  rewrite (find_instr_pc _ _ _ Hi) in Hl. rewrite forallb_forall in Hl.
  specialize (Hl d Hin). rewrite forallb_forall in Hl. specialize (Hl b Hb).
  unfold locator_ok in Hl. rewrite Hs in Hl. apply N.ltb_lt. exact Hl.
Qed.

Lemma verify3_verify2 : forall cb scopes fp, verify3 cb scopes fp = true -> verify2 cb = true.
Proof. intros cb scopes fp H. unfold verify3 in H. apply andb_true_iff in H. tauto. Qed.

(* binding operands are inside the bindings table (already part of operands_ok), restated for binds_of *)
Lemma operand_ok_bind : forall cb ro a b, operand_ok cb ro a = true -> In b (bind_of_operand ro a) -> b < cb_nbind cb.
Proof.
  intros cb ro a b H Hin. destruct ro; destruct a; simpl in *; try contradiction.
  destruct Hin as [Hin|[]]. subst. apply N.ltb_lt. exact H.
Qed.

Lemma operands_ok_aux_binds : forall cb rs args b,
  operands_ok_aux cb rs args = true -> In b (binds_of_aux rs args) -> b < cb_nbind cb.
Proof.
  intros cb rs. induction rs as [|ro rs IH]; intros args b H Hin; destruct args as [|a args]; simpl in *; try contradiction; try discriminate.
  apply andb_true_iff in H. destruct H as [H1 H2]. apply in_app_or in Hin. destruct Hin as [Hin|Hin].
  - eapply operand_ok_bind; eauto.
  - eapply IH; eauto.
Qed.

Lemma binds_in_table_lemma : forall cb, verify2 cb = true ->
  forall pc i b, find_instr cb pc = Some i -> In b (binds_of i) -> b < cb_nbind cb.
Proof.
  intros cb Hv pc i b Hi Hb.
  pose proof (wf_operands _ _ _ (verify2_wf _ Hv) Hi) as Ok. unfold operands_ok in Ok.
  apply andb_true_iff in Ok. destruct Ok as [Ok _]. apply andb_true_iff in Ok. destruct Ok as [_ Ok].
  eapply operands_ok_aux_binds; eauto.
Qed.
