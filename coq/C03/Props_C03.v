(* C03 -- pinned property theorems.  Only: Theorem name : stmt. Proof. exact lemma. Qed.  Check name : stmt.
   Print Assumptions name.  (+ Examples from real dumps showing the hypotheses are satisfiable / the verifier rejects
   the block of DESIGN.md section 5 #3). *)
From Coq Require Import NArith ZArith List Bool FMapPositive.
From Gen Require Import OpcodeSig.
From C03 Require Import Bytecode_C03 Proofs_C03.
Import ListNotations.
Local Open Scope N_scope.

(* Every abstract execution of a verified block -- any path, either branch at conditionals, any table entry, every
   throwing instruction also taking its exception edge -- stays inside the computed annotation, always sits on an
   instruction boundary and never gets stuck (operands inside their tables, no depth below zero, no handler assuming
   more environments than exist). *)
Theorem verify_sound : forall cb, verify cb = true ->
  forall pc d, reach cb pc d ->
    In d (aget (infer cb) pc) /\ (exists i, find_instr cb pc = Some i) /\ asteps cb pc d <> None.
Proof. exact verify_sound_lemma. Qed.
Check verify_sound : forall cb, verify cb = true ->
  forall pc d, reach cb pc d ->
    In d (aget (infer cb) pc) /\ (exists i, find_instr cb pc = Some i) /\ asteps cb pc d <> None.
Print Assumptions verify_sound.

(* Depths agree wherever paths merge: two executions reaching the same pc with the same pending-completion
   selectors have the same environment depth, the same pending binding references and the same value-stack depth. *)
Theorem verify_merge_agreement : forall cb, verify cb = true ->
  forall pc d1 d2, reach cb pc d1 -> reach cb pc d2 -> d_sel d1 = d_sel d2 -> d1 = d2.
Proof. exact verify_merge_lemma. Qed.
Check verify_merge_agreement : forall cb, verify cb = true ->
  forall pc d1 d2, reach cb pc d1 -> reach cb pc d2 -> d_sel d1 = d_sel d2 -> d1 = d2.
Print Assumptions verify_merge_agreement.

(* What "not stuck" means at every reachable state. *)
Theorem step_safe : forall cb, verify cb = true ->
  forall pc d, reach cb pc d ->
  exists i e, find_instr cb pc = Some i /\ operands_ok cb i = true /\ effect (i_op i) (i_args i) = Some e /\
    (e_flow e <> FStop ->
       e_pop e <= d_stk d /\ (e_env e = EPop -> d_env d <> 0) /\ (e_bind e = BPop -> d_bind d <> [])) /\
    (e_throw e = true -> forall h, find_handler (cb_handlers cb) (i_next i - 1) = Some h -> h_env h <= d_env d) /\
    (e_calllike e = true -> forall h, find_handler (cb_handlers cb) (i_next i) = Some h -> h_env h <= d_env d).
Proof. exact step_safe_lemma. Qed.
Check step_safe : forall cb, verify cb = true ->
  forall pc d, reach cb pc d ->
  exists i e, find_instr cb pc = Some i /\ operands_ok cb i = true /\ effect (i_op i) (i_args i) = Some e /\
    (e_flow e <> FStop ->
       e_pop e <= d_stk d /\ (e_env e = EPop -> d_env d <> 0) /\ (e_bind e = BPop -> d_bind d <> [])) /\
    (e_throw e = true -> forall h, find_handler (cb_handlers cb) (i_next i - 1) = Some h -> h_env h <= d_env d) /\
    (e_calllike e = true -> forall h, find_handler (cb_handlers cb) (i_next i) = Some h -> h_env h <= d_env d).
Print Assumptions step_safe.

(* No instruction of a verified block -- reachable or not -- names (or implicitly touches) a register outside the
   register file allocated by push_frame. *)
Theorem no_register_oob : forall cb, verify cb = true ->
  forall pc i r, find_instr cb pc = Some i -> In r (regs_of i) -> r < cb_regs cb.
Proof. exact no_register_oob_lemma. Qed.
Check no_register_oob : forall cb, verify cb = true ->
  forall pc i r, find_instr cb pc = Some i -> In r (regs_of i) -> r < cb_regs cb.
Print Assumptions no_register_oob.

(* PopEnvironment never pops below the frame's own environments. *)
Theorem no_env_underflow : forall cb, verify cb = true ->
  forall pc d i, reach cb pc d -> find_instr cb pc = Some i -> i_op i = Op_PopEnvironment -> 0 < d_env d.
Proof. exact no_env_underflow_lemma. Qed.
Check no_env_underflow : forall cb, verify cb = true ->
  forall pc d i, reach cb pc d -> find_instr cb pc = Some i -> i_op i = Op_PopEnvironment -> 0 < d_env d.
Print Assumptions no_env_underflow.

(* The reference SetNameByLocator pops exists, was pushed by a GetLocator / GetNameAndLocator of the same block, and
   is the same one on every path that reaches the assignment (with the same selectors). *)
Theorem locator_matches_assignment : forall cb, verify cb = true ->
  forall pc d i, reach cb pc d -> find_instr cb pc = Some i -> i_op i = Op_SetNameByLocator ->
  exists p rest j, d_bind d = p :: rest /\ find_instr cb p = Some j /\
    (i_op j = Op_GetLocator \/ i_op j = Op_GetNameAndLocator) /\
    (forall d2, reach cb pc d2 -> d_sel d2 = d_sel d -> d_bind d2 = d_bind d).
Proof. exact locator_matches_assignment_lemma. Qed.
Check locator_matches_assignment : forall cb, verify cb = true ->
  forall pc d i, reach cb pc d -> find_instr cb pc = Some i -> i_op i = Op_SetNameByLocator ->
  exists p rest j, d_bind d = p :: rest /\ find_instr cb p = Some j /\
    (i_op j = Op_GetLocator \/ i_op j = Op_GetNameAndLocator) /\
    (forall d2, reach cb pc d2 -> d_sel d2 = d_sel d -> d_bind d2 = d_bind d).
Print Assumptions locator_matches_assignment.

(* The hand-written tables cover the regenerated opcode table: every operand of every opcode has a known role, and
   the throw behaviour of every table entry agrees with the return type of the opcode's `operation` in the source. *)
Theorem operand_roles_cover_table : forall o, roles_complete o = true.
Proof. exact roles_complete_all. Qed.
Check operand_roles_cover_table : forall o, roles_complete o = true.
Print Assumptions operand_roles_cover_table.

Theorem effects_agree_with_return_types : forall o, effect_consistent o = true.
Proof. exact effect_consistent_all. Qed.
Check effects_agree_with_return_types : forall o, effect_consistent o = true.
Print Assumptions effects_agree_with_return_types.

(* ---- non-vacuity: blocks taken from real dumps (harness `dump`) ---- *)

(* function f(a){ for(;;) { try { if (a) return a; a = a.x; } finally { a++ } } } : return through finally keeps its
   value on the stack and is dispatched by JumpTable on a selector register *)
Definition ex_try_finally_code : list instr := [
    mkInstr 0 9 Op_GetArgument [AIdx 0; AReg 1];
    mkInstr 9 18 Op_Move [AReg 2; AReg 1];
    mkInstr 18 23 Op_Jump [AAddr 24];
    mkInstr 23 24 Op_IncrementLoopIteration [];
    mkInstr 24 29 Op_StoreTrue [AReg 1];
    mkInstr 29 34 Op_StoreZero [AReg 3];
    mkInstr 34 43 Op_Move [AReg 4; AReg 2];
    mkInstr 43 52 Op_JumpIfFalse [AAddr 77; AReg 4];
    mkInstr 52 57 Op_PushFromRegister [AReg 2];
    mkInstr 57 62 Op_StoreFalse [AReg 1];
    mkInstr 62 67 Op_StoreOne [AReg 3];
    mkInstr 67 72 Op_Jump [AAddr 133];
    mkInstr 72 77 Op_Jump [AAddr 77];
    mkInstr 77 86 Op_Move [AReg 5; AReg 2];
    mkInstr 86 99 Op_GetPropertyByName [AReg 4; AReg 5; AIdx 0];
    mkInstr 99 108 Op_Move [AReg 2; AReg 4];
    mkInstr 108 113 Op_StoreFalse [AReg 1];
    mkInstr 113 118 Op_Jump [AAddr 133];
    mkInstr 118 123 Op_Exception [AReg 4];
    mkInstr 123 128 Op_StoreTrue [AReg 1];
    mkInstr 128 133 Op_Jump [AAddr 133];
    mkInstr 133 138 Op_SetRegisterFromAccumulator [AReg 5];
    mkInstr 138 147 Op_Inc [AReg 2; AReg 2];
    mkInstr 147 152 Op_SetAccumulator [AReg 5];
    mkInstr 152 161 Op_JumpIfFalse [AAddr 166; AReg 1];
    mkInstr 161 166 Op_Throw [AReg 4];
    mkInstr 166 183 Op_JumpTable [AU32 3; AVAddr [200; 188]];
    mkInstr 183 188 Op_Jump [AAddr 200];
    mkInstr 188 193 Op_PopIntoRegister [AReg 4];
    mkInstr 193 198 Op_SetAccumulator [AReg 4];
    mkInstr 198 199 Op_CheckReturn [];
    mkInstr 199 200 Op_Return [];
    mkInstr 200 205 Op_Jump [AAddr 23];
    mkInstr 205 206 Op_CheckReturn [];
    mkInstr 206 207 Op_Return []].
Definition ex_try_finally : codeblock := mkCB 7 0 207 (build_code ex_try_finally_code) [CStr] 0 1 [mkHandler 34 118 0; mkHandler 118 133 0] (jump_regs ex_try_finally_code).


Example ex_try_finally_verifies : verify ex_try_finally = true.
Proof. vm_compute. reflexivity. Qed.

Example ex_try_finally_reaches_a_handler :
  exists d, reach ex_try_finally 0 (entry_depth ex_try_finally) /\ In d (aget (infer ex_try_finally) 0).
Proof. exists (entry_depth ex_try_finally). split; [constructor|]. vm_compute. left. reflexivity. Qed.

(* var i=1; var v; v = "x" + (i ??= 3);  (DESIGN.md section 5 #3): the short-circuit jump skips SetNameByLocator *)
Definition ex_short_circuit_code : list instr := [
    mkInstr 0 5 Op_GetLocator [AIdx 0];
    mkInstr 5 10 Op_StoreOne [AReg 1];
    mkInstr 10 15 Op_SetNameByLocator [AReg 1];
    mkInstr 15 20 Op_GetLocator [AIdx 1];
    mkInstr 20 29 Op_StoreLiteral [AReg 2; AIdx 2];
    mkInstr 29 38 Op_GetNameAndLocator [AReg 3; AIdx 0];
    mkInstr 38 47 Op_Coalesce [AAddr 63; AReg 3];
    mkInstr 47 53 Op_StoreInt8 [AReg 3; AInt (3)%Z];
    mkInstr 53 58 Op_SetNameByLocator [AReg 3];
    mkInstr 58 63 Op_Jump [AAddr 63];
    mkInstr 63 76 Op_Add [AReg 1; AReg 2; AReg 3];
    mkInstr 76 81 Op_SetNameByLocator [AReg 1];
    mkInstr 81 86 Op_SetAccumulator [AReg 1];
    mkInstr 86 87 Op_CheckReturn [];
    mkInstr 87 88 Op_Return []].
Definition ex_short_circuit : codeblock := mkCB 4 0 88 (build_code ex_short_circuit_code) [CStr; CStr; CStr] 2 0 [] (jump_regs ex_short_circuit_code).


Example ex_short_circuit_rejected : verify ex_short_circuit = false.
Proof. vm_compute. reflexivity. Qed.

Example ex_short_circuit_two_depths :
  exists d1 d2, reach ex_short_circuit 63 d1 /\ reach ex_short_circuit 63 d2 /\ d_sel d1 = d_sel d2 /\ d_bind d1 <> d_bind d2.
Proof.
  exists (mkD 0 [15] 0 []), (mkD 0 [29; 15] 0 []).
  assert (R38 : reach ex_short_circuit 38 (mkD 0 [29; 15] 0 [])).
  { assert (R0 := reach_entry ex_short_circuit).
    assert (R5 : reach ex_short_circuit 5 (mkD 0 [0] 0 [])) by (eapply reach_step; [exact R0 | vm_compute; reflexivity | left; reflexivity]).
    assert (R10 : reach ex_short_circuit 10 (mkD 0 [0] 0 [])) by (eapply reach_step; [exact R5 | vm_compute; reflexivity | left; reflexivity]).
    assert (R15 : reach ex_short_circuit 15 (mkD 0 [] 0 [])) by (eapply reach_step; [exact R10 | vm_compute; reflexivity | left; reflexivity]).
    assert (R20 : reach ex_short_circuit 20 (mkD 0 [15] 0 [])) by (eapply reach_step; [exact R15 | vm_compute; reflexivity | left; reflexivity]).
    assert (R29 : reach ex_short_circuit 29 (mkD 0 [15] 0 [])) by (eapply reach_step; [exact R20 | vm_compute; reflexivity | left; reflexivity]).
    eapply reach_step; [exact R29 | vm_compute; reflexivity | left; reflexivity]. }
  split; [|split; [|split]].
  - assert (R47 : reach ex_short_circuit 47 (mkD 0 [29; 15] 0 [])) by (eapply reach_step; [exact R38 | vm_compute; reflexivity | left; reflexivity]).
    assert (R53 : reach ex_short_circuit 53 (mkD 0 [29; 15] 0 [])) by (eapply reach_step; [exact R47 | vm_compute; reflexivity | left; reflexivity]).
    assert (R58 : reach ex_short_circuit 58 (mkD 0 [15] 0 [])) by (eapply reach_step; [exact R53 | vm_compute; reflexivity | left; reflexivity]).
    eapply reach_step; [exact R58 | vm_compute; reflexivity | left; reflexivity].
  - eapply reach_step; [exact R38 | vm_compute; reflexivity | right; left; reflexivity].
  - reflexivity.
  - simpl. discriminate.
Qed.

(* ================= deepening round: the frame's iterator stack (DeepBytecode_C03.v / DeepProofs_C03.v) ================= *)
From C03 Require Import DeepBytecode_C03 DeepProofs_C03.

(* Soundness of the verifier extended with frame.iterators: every execution of the extended abstract machine stays in the
   annotation, on an instruction boundary, and is never stuck -- where stuck now also covers an opcode that needs an
   iterator record (IteratorNext, IteratorValue, IteratorPop, ...) with an empty iterator stack. *)
Theorem verify2_sound : forall cb, verify2 cb = true ->
  forall pc d, reach2 cb pc d ->
    In d (aget2 (infer2 cb) pc) /\ (exists i, find_instr cb pc = Some i) /\ asteps2 cb pc d <> None.
Proof. exact verify2_sound_lemma. Qed.
Check verify2_sound : forall cb, verify2 cb = true ->
  forall pc d, reach2 cb pc d ->
    In d (aget2 (infer2 cb) pc) /\ (exists i, find_instr cb pc = Some i) /\ asteps2 cb pc d <> None.
Print Assumptions verify2_sound.

(* Depths -- now including the length of the iterator stack -- agree wherever paths merge (per selector valuation; inside
   the run-time "close every open iterator" loop of yield*'s return path the length itself is part of the key). *)
Theorem verify2_merge_agreement : forall cb, verify2 cb = true ->
  forall pc d1 d2, reach2 cb pc d1 -> reach2 cb pc d2 -> sel2 d1 = sel2 d2 ->
  (in_drain cb pc = true -> d2_iter d1 = d2_iter d2) -> d1 = d2.
Proof. exact verify2_merge_lemma. Qed.
Check verify2_merge_agreement : forall cb, verify2 cb = true ->
  forall pc d1 d2, reach2 cb pc d1 -> reach2 cb pc d2 -> sel2 d1 = sel2 d2 ->
  (in_drain cb pc = true -> d2_iter d1 = d2_iter d2) -> d1 = d2.
Print Assumptions verify2_merge_agreement.

Theorem step_safe2 : forall cb, verify2 cb = true ->
  forall pc d, reach2 cb pc d ->
  exists i e, find_instr cb pc = Some i /\ operands_ok cb i = true /\ effect (i_op i) (i_args i) = Some e /\
    (e_flow e <> FStop ->
       e_pop e <= d_stk (d2_base d) /\ (e_env e = EPop -> d_env (d2_base d) <> 0) /\
       (e_bind e = BPop -> d_bind (d2_base d) <> [])) /\
    (needs_iter (i_op i) = true -> 0 < d2_iter d).
Proof. exact step_safe2_lemma. Qed.
Check step_safe2 : forall cb, verify2 cb = true ->
  forall pc d, reach2 cb pc d ->
  exists i e, find_instr cb pc = Some i /\ operands_ok cb i = true /\ effect (i_op i) (i_args i) = Some e /\
    (e_flow e <> FStop ->
       e_pop e <= d_stk (d2_base d) /\ (e_env e = EPop -> d_env (d2_base d) <> 0) /\
       (e_bind e = BPop -> d_bind (d2_base d) <> [])) /\
    (needs_iter (i_op i) = true -> 0 < d2_iter d).
Print Assumptions step_safe2.

(* No `.expect("iterator on the call frame must exist")`: an opcode that reads or pops the top iterator record is only
   reachable with a non-empty iterator stack. *)
Theorem iterator_never_underflows : forall cb, verify2 cb = true ->
  forall pc d i, reach2 cb pc d -> find_instr cb pc = Some i -> needs_iter (i_op i) = true -> 0 < d2_iter d.
Proof. exact iterator_present_lemma. Qed.
Check iterator_never_underflows : forall cb, verify2 cb = true ->
  forall pc d i, reach2 cb pc d -> find_instr cb pc = Some i -> needs_iter (i_op i) = true -> 0 < d2_iter d.
Print Assumptions iterator_never_underflows.

(* PARTIAL (blocks without the drain loop of yield*'s return path): the extended machine is a product over the machine of
   Bytecode_C03.v, every state of that machine is the projection of an extended state, so verify2 alone gives all the
   guarantees stated above for `verify`.  For blocks with a drain loop the extended machine resolves IteratorStackEmpty from
   the abstract length and is strictly more precise than the base machine; the lifting is not proved for them. *)
Theorem verify2_covers_base_partial : forall cb, no_drain cb = true -> verify2 cb = true ->
  forall pc d, reach cb pc d -> (exists i, find_instr cb pc = Some i) /\ asteps cb pc d <> None.
Proof. exact verify2_base_safe_lemma. Qed.
Check verify2_covers_base_partial : forall cb, no_drain cb = true -> verify2 cb = true ->
  forall pc d, reach cb pc d -> (exists i, find_instr cb pc = Some i) /\ asteps cb pc d <> None.
Print Assumptions verify2_covers_base_partial.

(* function f(it, a){ for (const x of it) { a = x; } return a } *)
Definition ex_forof_code : list instr := [
    mkInstr 0 9 Op_GetArgument [AIdx 0; AReg 1];
    mkInstr 9 18 Op_Move [AReg 2; AReg 1];
    mkInstr 18 27 Op_GetArgument [AIdx 1; AReg 1];
    mkInstr 27 36 Op_Move [AReg 3; AReg 1];
    mkInstr 36 45 Op_Move [AReg 1; AReg 2];
    mkInstr 45 50 Op_GetIterator [AReg 1];
    mkInstr 50 51 Op_IncrementLoopIteration [];
    mkInstr 51 52 Op_IteratorNext [];
    mkInstr 52 57 Op_IteratorDone [AReg 1];
    mkInstr 57 66 Op_JumpIfTrue [AAddr 146; AReg 1];
    mkInstr 66 71 Op_IteratorValue [AReg 1];
    mkInstr 71 80 Op_Move [AReg 4; AReg 1];
    mkInstr 80 89 Op_Move [AReg 3; AReg 4];
    mkInstr 89 94 Op_Jump [AAddr 141];
    mkInstr 94 99 Op_Exception [AReg 4];
    mkInstr 99 108 Op_IteratorReturn [AReg 5; AReg 6];
    mkInstr 108 117 Op_JumpIfFalse [AAddr 136; AReg 6];
    mkInstr 117 122 Op_IsObject [AReg 5];
    mkInstr 122 131 Op_JumpIfTrue [AAddr 136; AReg 5];
    mkInstr 131 136 Op_ThrowNewTypeError [AIdx 0];
    mkInstr 136 141 Op_Throw [AReg 4];
    mkInstr 141 146 Op_Jump [AAddr 50];
    mkInstr 146 155 Op_IteratorReturn [AReg 4; AReg 5];
    mkInstr 155 164 Op_JumpIfFalse [AAddr 183; AReg 5];
    mkInstr 164 169 Op_IsObject [AReg 4];
    mkInstr 169 178 Op_JumpIfTrue [AAddr 183; AReg 4];
    mkInstr 178 183 Op_ThrowNewTypeError [AIdx 0];
    mkInstr 183 188 Op_PushFromRegister [AReg 3];
    mkInstr 188 193 Op_PopIntoRegister [AReg 4];
    mkInstr 193 198 Op_SetAccumulator [AReg 4];
    mkInstr 198 199 Op_CheckReturn [];
    mkInstr 199 200 Op_Return [];
    mkInstr 200 201 Op_CheckReturn [];
    mkInstr 201 202 Op_Return []].
Definition ex_forof : codeblock := mkCB 7 0 202 (build_code ex_forof_code) [CStr] 0 0 [mkHandler 71 94 0; mkHandler 99 136 0] (jump_regs ex_forof_code).


Example ex_forof_verifies : verify2 ex_forof = true.
Proof. vm_compute. reflexivity. Qed.

(* for (var x of [7,8]) { L: { for (var v of [1]) { break L; } } }   (known finding C01-label-jump-through-nested-iterator-loops):
   the labelled break leaves the inner for-of without closing its record *)
Definition ex_labelled_break_code : list instr := [
    mkInstr 0 5 Op_StoreNewArray [AReg 1];
    mkInstr 5 11 Op_StoreInt8 [AReg 2; AInt (7)%Z];
    mkInstr 11 20 Op_PushValueToArray [AReg 2; AReg 1];
    mkInstr 20 26 Op_StoreInt8 [AReg 2; AInt (8)%Z];
    mkInstr 26 35 Op_PushValueToArray [AReg 2; AReg 1];
    mkInstr 35 40 Op_GetIterator [AReg 1];
    mkInstr 40 41 Op_IncrementLoopIteration [];
    mkInstr 41 42 Op_IteratorNext [];
    mkInstr 42 47 Op_IteratorDone [AReg 1];
    mkInstr 47 56 Op_JumpIfTrue [AAddr 280; AReg 1];
    mkInstr 56 61 Op_IteratorValue [AReg 1];
    mkInstr 61 70 Op_DefInitVar [AReg 1; AIdx 0];
    mkInstr 70 75 Op_StoreNewArray [AReg 1];
    mkInstr 75 80 Op_StoreOne [AReg 2];
    mkInstr 80 89 Op_PushValueToArray [AReg 2; AReg 1];
    mkInstr 89 94 Op_GetIterator [AReg 1];
    mkInstr 94 95 Op_IncrementLoopIteration [];
    mkInstr 95 96 Op_IteratorNext [];
    mkInstr 96 101 Op_IteratorDone [AReg 1];
    mkInstr 101 110 Op_JumpIfTrue [AAddr 186; AReg 1];
    mkInstr 110 115 Op_IteratorValue [AReg 1];
    mkInstr 115 124 Op_DefInitVar [AReg 1; AIdx 1];
    mkInstr 124 129 Op_Jump [AAddr 223];
    mkInstr 129 134 Op_Jump [AAddr 181];
    mkInstr 134 139 Op_Exception [AReg 1];
    mkInstr 139 148 Op_IteratorReturn [AReg 2; AReg 3];
    mkInstr 148 157 Op_JumpIfFalse [AAddr 176; AReg 3];
    mkInstr 157 162 Op_IsObject [AReg 2];
    mkInstr 162 171 Op_JumpIfTrue [AAddr 176; AReg 2];
    mkInstr 171 176 Op_ThrowNewTypeError [AIdx 2];
    mkInstr 176 181 Op_Throw [AReg 1];
    mkInstr 181 186 Op_Jump [AAddr 94];
    mkInstr 186 195 Op_IteratorReturn [AReg 1; AReg 2];
    mkInstr 195 204 Op_JumpIfFalse [AAddr 223; AReg 2];
    mkInstr 204 209 Op_IsObject [AReg 1];
    mkInstr 209 218 Op_JumpIfTrue [AAddr 223; AReg 1];
    mkInstr 218 223 Op_ThrowNewTypeError [AIdx 2];
    mkInstr 223 228 Op_Jump [AAddr 275];
    mkInstr 228 233 Op_Exception [AReg 1];
    mkInstr 233 242 Op_IteratorReturn [AReg 2; AReg 3];
    mkInstr 242 251 Op_JumpIfFalse [AAddr 270; AReg 3];
    mkInstr 251 256 Op_IsObject [AReg 2];
    mkInstr 256 265 Op_JumpIfTrue [AAddr 270; AReg 2];
    mkInstr 265 270 Op_ThrowNewTypeError [AIdx 2];
    mkInstr 270 275 Op_Throw [AReg 1];
    mkInstr 275 280 Op_Jump [AAddr 40];
    mkInstr 280 289 Op_IteratorReturn [AReg 1; AReg 2];
    mkInstr 289 298 Op_JumpIfFalse [AAddr 317; AReg 2];
    mkInstr 298 303 Op_IsObject [AReg 1];
    mkInstr 303 312 Op_JumpIfTrue [AAddr 317; AReg 1];
    mkInstr 312 317 Op_ThrowNewTypeError [AIdx 2];
    mkInstr 317 318 Op_CheckReturn [];
    mkInstr 318 319 Op_Return []].
Definition ex_labelled_break : codeblock := mkCB 4 0 319 (build_code ex_labelled_break_code) [CStr; CStr; CStr] 2 0 [mkHandler 61 228 0; mkHandler 115 134 0; mkHandler 139 176 0; mkHandler 233 270 0] (jump_regs ex_labelled_break_code).


Example ex_labelled_break_rejected : verify2 ex_labelled_break = false.
Proof. vm_compute. reflexivity. Qed.

(* ================= deepening round 2: binding locators against the environment chain (DeepLocators_C03.v) ================= *)
From C03 Require Import DeepLocators_C03.

(* No execution indexes outside the environment chain: in a block accepted by verify3 (structure + four depths + locators),
   whenever an instruction with a binding operand is reached, the environment its locator names (Stack(n), absolute index)
   exists: n < env_fp + relative depth.  env_fp (`fp`) and the locator scopes (`scopes`) are inputs read from the dump /
   computed top-down from the parent block's annotation at the creating GetFunction; the depth log validates them. *)
Theorem no_env_index_oob : forall cb scopes fp, verify3 cb scopes fp = true ->
  forall pc d i, reach2 cb pc d -> find_instr cb pc = Some i ->
  forall b n, In b (binds_of i) -> scope_of scopes b = Some n -> n < fp + d_env (d2_base d).
Proof. exact no_env_index_oob_lemma. Qed.
Check no_env_index_oob : forall cb scopes fp, verify3 cb scopes fp = true ->
  forall pc d i, reach2 cb pc d -> find_instr cb pc = Some i ->
  forall b n, In b (binds_of i) -> scope_of scopes b = Some n -> n < fp + d_env (d2_base d).
Print Assumptions no_env_index_oob.

(* ... and every binding operand of every instruction (reachable or not) is inside the bindings table. *)
Theorem binding_operands_in_table : forall cb, verify2 cb = true ->
  forall pc i b, find_instr cb pc = Some i -> In b (binds_of i) -> b < cb_nbind cb.
Proof. exact binds_in_table_lemma. Qed.
Check binding_operands_in_table : forall cb, verify2 cb = true ->
  forall pc i b, find_instr cb pc = Some i -> In b (binds_of i) -> b < cb_nbind cb.
Print Assumptions binding_operands_in_table.

(* the for-of example of above with its real locators (none on the stack) verifies; with a locator one environment too deep it does not *)
Example ex_forof_locators_ok : verify3 ex_forof [None; None] 0 = true.
Proof. vm_compute. reflexivity. Qed.

(* ================= deepening round 3: no depth but the value stack may depend on the pending completion (DeepMerge_C03.v) ================= *)
From C03 Require Import DeepMerge_C03.

(* In a block accepted by verify4, any two executions reaching the same pc -- whatever completion (return / break / continue /
   exception) is pending, i.e. across ALL selector valuations -- have the same environment depth and the same pending binding
   references, and outside the drain loop of yield* the same iterator-stack length.  Only the value-stack depth may differ
   (verify2_merge_agreement bounds that per selector valuation). *)
Theorem nonstack_depths_agree_at_merges : forall cb scopes fp, verify4 cb scopes fp = true ->
  forall pc d1 d2, reach2 cb pc d1 -> reach2 cb pc d2 ->
  d_env (d2_base d1) = d_env (d2_base d2) /\ d_bind (d2_base d1) = d_bind (d2_base d2) /\
  (in_drain cb pc = false -> d2_iter d1 = d2_iter d2).
Proof. exact nonstack_agreement_lemma. Qed.
Check nonstack_depths_agree_at_merges : forall cb scopes fp, verify4 cb scopes fp = true ->
  forall pc d1 d2, reach2 cb pc d1 -> reach2 cb pc d2 ->
  d_env (d2_base d1) = d_env (d2_base d2) /\ d_bind (d2_base d1) = d_bind (d2_base d2) /\
  (in_drain cb pc = false -> d2_iter d1 = d2_iter d2).
Print Assumptions nonstack_depths_agree_at_merges.

Theorem verify4_implies_verify3 : forall cb scopes fp, verify4 cb scopes fp = true -> verify3 cb scopes fp = true.
Proof. exact verify4_verify3. Qed.
Check verify4_implies_verify3 : forall cb scopes fp, verify4 cb scopes fp = true -> verify3 cb scopes fp = true.
Print Assumptions verify4_implies_verify3.
