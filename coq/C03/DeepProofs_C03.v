(* C03 deepening round -- lemmas: soundness of the verifier extended with the iterator stack. *)
From Coq Require Import NArith ZArith List Bool FMapPositive Lia.
From Gen Require Import OpcodeSig.
From C03 Require Import Bytecode_C03 Proofs_C03 DeepBytecode_C03.
Import ListNotations.
Local Open Scope N_scope.

Lemma depth2_eqb_eq : forall a b, depth2_eqb a b = true -> a = b.
Proof.
  intros [b1 n1] [b2 n2]. unfold depth2_eqb. simpl. intros H.
  apply andb_true_iff in H. destruct H as [H1 H2].
  apply depth_eqb_eq in H1. apply N.eqb_eq in H2. subst. reflexivity.
Qed.

Lemma memD2_In : forall d l, memD2 d l = true -> In d l.
Proof.
  intros d l H. unfold memD2 in H. apply existsb_exists in H. destruct H as [x [Hin Heq]].
  apply depth2_eqb_eq in Heq. subst. exact Hin.
Qed.

Lemma same_key_intro : forall drain a b,
  sel2 a = sel2 b -> (drain = true -> d2_iter a = d2_iter b) -> same_key drain a b = true.
Proof.
  intros drain a b Hs Hi. unfold same_key. rewrite Hs, sel_eqb_refl. simpl.
  destruct drain; simpl; [|reflexivity]. rewrite (Hi eq_refl). apply N.eqb_refl.
Qed.

Lemma functional2_spec : forall drain l, functional2 drain l = true ->
  forall a b, In a l -> In b l -> sel2 a = sel2 b -> (drain = true -> d2_iter a = d2_iter b) -> a = b.
Proof.
  intros drain. induction l as [|d t IH]; simpl; intros H a b Ha Hb Hs Hi; [contradiction|].
  apply andb_true_iff in H. destruct H as [H1 H2].
  rewrite forallb_forall in H1.
  destruct Ha as [Ha|Ha]; destruct Hb as [Hb|Hb]; subst.
  - reflexivity.
  - specialize (H1 b Hb). rewrite (same_key_intro drain a b Hs Hi) in H1. simpl in H1. apply depth2_eqb_eq in H1. exact H1.
  - specialize (H1 a Ha).
    assert (K : same_key drain b a = true) by (apply same_key_intro; [congruence | intros E; symmetry; auto]).
    rewrite K in H1. simpl in H1. apply depth2_eqb_eq in H1. auto.
  - eapply IH; eauto.
Qed.

Definition invariant2 (cb : codeblock) (A : annot2) (pc : N) (d : depth2) : Prop :=
  In d (aget2 A pc) /\ is_start cb pc = true.

Lemma check_succ2_inv : forall cb A s, check_succ2 cb A s = true -> invariant2 cb A (fst s) (snd s).
Proof.
  intros cb A s H. unfold check_succ2 in H. apply andb_true_iff in H. destruct H as [H1 H2].
  split; [apply memD2_In; exact H1 | exact H2].
Qed.

Lemma check_state2_at : forall cb A pc d,
  check2 cb A = true -> invariant2 cb A pc d ->
  check_state2 cb A pc d = true /\ functional2 (in_drain cb pc) (aget2 A pc) = true.
Proof.
  intros cb A pc d Hc [Hin Hst].
  unfold check2 in Hc. apply andb_true_iff in Hc. destruct Hc as [_ Hall].
  rewrite forallb_forall in Hall.
  destruct (is_start_find _ _ Hst) as [i Hi].
  pose proof (find_instr_In _ _ _ Hi) as HinI. pose proof (find_instr_pc _ _ _ Hi) as Hpc.
  specialize (Hall i HinI). unfold check_instr2 in Hall. rewrite Hpc in Hall.
  apply andb_true_iff in Hall. destruct Hall as [H1 H2].
  rewrite forallb_forall in H1. split; [apply H1; exact Hin | exact H2].
Qed.

Lemma check2_sound : forall cb A, check2 cb A = true ->
  forall pc d, reach2 cb pc d -> invariant2 cb A pc d.
Proof.
  intros cb A Hc pc d Hr. induction Hr as [|pc d l pc' d' Hr IH Hs Hin].
  - unfold check2 in Hc. apply andb_true_iff in Hc. destruct Hc as [H0 _].
    apply check_succ2_inv in H0. exact H0.
  - destruct (check_state2_at _ _ _ _ Hc IH) as [Hst _].
    unfold check_state2 in Hst. rewrite Hs in Hst. rewrite forallb_forall in Hst.
    specialize (Hst (pc', d') Hin). apply check_succ2_inv in Hst. exact Hst.
Qed.

Lemma verify2_check : forall cb, verify2 cb = true -> check2 cb (infer2 cb) = true.
Proof. intros cb H. unfold verify2 in H. apply andb_true_iff in H. tauto. Qed.

Lemma verify2_wf : forall cb, verify2 cb = true -> wf_block cb = true.
Proof. intros cb H. unfold verify2 in H. apply andb_true_iff in H. tauto. Qed.

Lemma verify2_sound_lemma : forall cb, verify2 cb = true ->
  forall pc d, reach2 cb pc d ->
    In d (aget2 (infer2 cb) pc) /\ (exists i, find_instr cb pc = Some i) /\ asteps2 cb pc d <> None.
Proof.
  intros cb Hv pc d Hr. pose proof (verify2_check _ Hv) as Hc.
  pose proof (check2_sound _ _ Hc _ _ Hr) as Hinv.
  destruct (check_state2_at _ _ _ _ Hc Hinv) as [Hst _].
  destruct Hinv as [Hin Hs].
  split; [exact Hin|]. split; [apply is_start_find; exact Hs|].
  unfold check_state2 in Hst. destruct (asteps2 cb pc d); [discriminate | discriminate Hst].
Qed.

Lemma verify2_merge_lemma : forall cb, verify2 cb = true ->
  forall pc d1 d2, reach2 cb pc d1 -> reach2 cb pc d2 -> sel2 d1 = sel2 d2 ->
  (in_drain cb pc = true -> d2_iter d1 = d2_iter d2) -> d1 = d2.
Proof.
  intros cb Hv pc d1 d2 H1 H2 Hs Hdr. pose proof (verify2_check _ Hv) as Hc.
  pose proof (check2_sound _ _ Hc _ _ H1) as I1. pose proof (check2_sound _ _ Hc _ _ H2) as I2.
  destruct (check_state2_at _ _ _ _ Hc I1) as [_ Hf].
  destruct I1 as [A1 _]. destruct I2 as [A2 _]. eapply functional2_spec; eauto.
Qed.

(* ---- the product machine and the base machine ---- *)

Lemma asteps2_inv : forall cb pc d, asteps2 cb pc d <> None ->
  exists i e l1 l2 ns, find_instr cb pc = Some i /\ operands_ok cb i = true /\ effect (i_op i) (i_args i) = Some e /\
    norm_succs cb i e (d2_base d) = Some l1 /\ exc_succs cb i e (d2_base d) = Some l2 /\
    iter_norm (i_op i) (d2_iter d) = Some ns /\
    asteps2 cb pc d = Some (pair_with (refine_sel cb i (d2_iter d) l1) ns ++ pair_with l2 (iter_exc (i_op i) (d2_iter d))).
Proof.
  intros cb pc d H. unfold asteps2 in *.
  destruct (find_instr cb pc) as [i|] eqn:Fi; [|congruence].
  destruct (operands_ok cb i) eqn:Ok; simpl in *; [|congruence].
  destruct (effect (i_op i) (i_args i)) as [e|] eqn:Ef; [|congruence].
  destruct (norm_succs cb i e (d2_base d)) as [l1|] eqn:Ns; [|congruence].
  destruct (exc_succs cb i e (d2_base d)) as [l2|] eqn:Es; [|congruence].
  destruct (iter_norm (i_op i) (d2_iter d)) as [ns|] eqn:In; [|congruence].
  exists i, e, l1, l2, ns. repeat (split; [reflexivity || assumption|]). reflexivity.
Qed.

(* blocks without the drain loop of `yield*`: the extended machine is exactly a product over the base machine *)
Definition no_drain (cb : codeblock) : bool := forallb (fun i => negb (is_stack_empty (i_op i))) (instrs cb).

Lemma refine_sel_id : forall cb pc i n l, no_drain cb = true -> find_instr cb pc = Some i -> refine_sel cb i n l = l.
Proof.
  intros cb pc i n l Hnd Hi. unfold no_drain in Hnd. rewrite forallb_forall in Hnd.
  specialize (Hnd i (find_instr_In _ _ _ Hi)). apply negb_true_iff in Hnd.
  unfold refine_sel. rewrite <- (map_id l) at 2. apply map_ext. intros [p d]. simpl. f_equal.
  unfold stack_empty_sel. destruct (i_op i); try reflexivity. discriminate Hnd.
Qed.

Lemma asteps2_base : forall cb pc d l, no_drain cb = true -> asteps2 cb pc d = Some l ->
  exists l0, asteps cb pc (d2_base d) = Some l0 /\ forall pc' d', In (pc', d') l -> In (pc', d2_base d') l0.
Proof.
  intros cb pc d l Hnd H.
  assert (Hn : asteps2 cb pc d <> None) by congruence.
  destruct (asteps2_inv _ _ _ Hn) as [i [e [l1 [l2 [ns [Fi [Ok [Ef [Ns [Es [In_ Eq]]]]]]]]]]].
  rewrite Eq in H. rewrite (refine_sel_id _ _ _ _ _ Hnd Fi) in H. inversion H; subst l. clear H.
  exists (l1 ++ l2). split.
  - unfold asteps. rewrite Fi, Ok, Ef, Ns, Es. reflexivity.
  - intros pc' d' Hin. apply in_app_or in Hin. apply in_or_app.
    destruct Hin as [Hin|Hin]; [left|right];
      unfold pair_with in Hin; apply in_flat_map in Hin; destruct Hin as [s [Hs Hm]];
      apply in_map_iff in Hm; destruct Hm as [n [Hx _]]; inversion Hx; subst; simpl; destruct s; exact Hs.
Qed.

(* every state of the extended machine projects to a state of the machine of Bytecode_C03.v *)
Lemma reach2_base : forall cb, no_drain cb = true -> forall pc d, reach2 cb pc d -> reach cb pc (d2_base d).
Proof.
  intros cb Hnd pc d H. induction H as [|pc d l pc' d' Hr IH Hs Hin].
  - apply reach_entry.
  - destruct (asteps2_base _ _ _ _ Hnd Hs) as [l0 [Ha Hsub]].
    eapply reach_step; [exact IH | exact Ha | apply Hsub; exact Hin].
Qed.

Lemma iter_norm_nonempty : forall o n ns, iter_norm o n = Some ns -> ns <> [].
Proof.
  intros o n ns H. destruct o; simpl in H;
    try (destruct (n =? 0); [discriminate|]); inversion H; subst; discriminate.
Qed.

Lemma iter_exc_nonempty : forall o n, iter_exc o n <> [].
Proof. intros o n. destruct o; simpl; discriminate. Qed.

Lemma pair_with_In : forall l ns pc d n, In (pc, d) l -> In n ns -> In (pc, mkD2 d n) (pair_with l ns).
Proof.
  intros l ns pc d n Hl Hn. unfold pair_with. apply in_flat_map. exists (pc, d). split; [exact Hl|].
  apply in_map_iff. exists n. split; [reflexivity | exact Hn].
Qed.

(* ... and under verify2 every state of the base machine is the projection of one of the extended machine:
   so the base machine is never stuck either (all the guarantees of Props_C03.v follow from verify2 alone) *)
Lemma reach_lift : forall cb, no_drain cb = true -> verify2 cb = true ->
  forall pc d, reach cb pc d -> exists n, reach2 cb pc (mkD2 d n).
Proof.
  intros cb Hnd Hv pc d H. induction H as [|pc d l pc' d' Hr IH Hs Hin].
  - exists 0. apply reach2_entry.
  - destruct IH as [n R2].
    destruct (verify2_sound_lemma _ Hv _ _ R2) as [_ [_ Hn]].
    destruct (asteps2_inv _ _ _ Hn) as [i [e [l1 [l2 [ns [Fi [Ok [Ef [Ns [Es [In_ Eq]]]]]]]]]]].
    simpl in Ns, Es, In_, Eq. rewrite (refine_sel_id _ _ _ _ _ Hnd Fi) in Eq.
    unfold asteps in Hs. rewrite Fi, Ok, Ef, Ns, Es in Hs. simpl in Hs. inversion Hs; subst l. clear Hs.
    apply in_app_or in Hin. destruct Hin as [Hin|Hin].
    + destruct ns as [|m ns'] eqn:En; [exfalso; eapply iter_norm_nonempty; eauto|].
      exists m. eapply reach2_step; [exact R2 | exact Eq |].
      apply in_or_app. left. apply pair_with_In; [exact Hin | left; reflexivity].
    + destruct (iter_exc (i_op i) n) as [|m xs'] eqn:Ex; [exfalso; eapply iter_exc_nonempty; eauto|].
      exists m. eapply reach2_step; [exact R2 | exact Eq |].
      apply in_or_app. right. apply pair_with_In; [exact Hin | left; reflexivity].
Qed.

Lemma verify2_base_safe_lemma : forall cb, no_drain cb = true -> verify2 cb = true ->
  forall pc d, reach cb pc d -> (exists i, find_instr cb pc = Some i) /\ asteps cb pc d <> None.
Proof.
  intros cb Hnd Hv pc d Hr. destruct (reach_lift _ Hnd Hv _ _ Hr) as [n R2].
  destruct (verify2_sound_lemma _ Hv _ _ R2) as [_ [Hi Hn]].
  split; [exact Hi|].
  destruct (asteps2 cb pc (mkD2 d n)) as [l|] eqn:E; [|congruence].
  destruct (asteps2_base _ _ _ _ Hnd E) as [l0 [Ha _]]. simpl in Ha. congruence.
Qed.

Lemma iterator_present_lemma : forall cb, verify2 cb = true ->
  forall pc d i, reach2 cb pc d -> find_instr cb pc = Some i -> needs_iter (i_op i) = true -> 0 < d2_iter d.
Proof.
  intros cb Hv pc d i Hr Hi Hneed.
  destruct (verify2_sound_lemma _ Hv _ _ Hr) as [_ [_ Hn]].
  destruct (asteps2_inv _ _ _ Hn) as [i' [e [l1 [l2 [ns [Fi [_ [_ [_ [_ [In_ _]]]]]]]]]]].
  rewrite Hi in Fi. inversion Fi; subst i'.
  destruct (d2_iter d =? 0) eqn:Z.
  - exfalso. destruct (i_op i); try discriminate Hneed; simpl in In_; rewrite Z in In_; discriminate.
  - apply N.eqb_neq in Z. lia.
Qed.

(* what "not stuck" means for the extended machine, for every block (with or without the drain loop) *)
Lemma step_safe2_lemma : forall cb, verify2 cb = true ->
  forall pc d, reach2 cb pc d ->
  exists i e, find_instr cb pc = Some i /\ operands_ok cb i = true /\ effect (i_op i) (i_args i) = Some e /\
    (e_flow e <> FStop ->
       e_pop e <= d_stk (d2_base d) /\ (e_env e = EPop -> d_env (d2_base d) <> 0) /\
       (e_bind e = BPop -> d_bind (d2_base d) <> [])) /\
    (needs_iter (i_op i) = true -> 0 < d2_iter d).
Proof.
  intros cb Hv pc d Hr.
  destruct (verify2_sound_lemma _ Hv _ _ Hr) as [_ [_ Hn]].
  destruct (asteps2_inv _ _ _ Hn) as [i [e [l1 [l2 [ns [Fi [Ok [Ef [Ns [Es [In_ Eq]]]]]]]]]]].
  exists i, e. split; [exact Fi|]. split; [exact Ok|]. split; [exact Ef|]. split.
  - intros Hf. exact (norm_succs_inv _ _ _ _ _ Ns Hf).
  - intros Hneed. eapply iterator_present_lemma; eauto.
Qed.
