(* C03 -- model: compiled code blocks, the abstract depth machine, the bytecode verifier.
   Executable Gallina definitions only (this file must keep compiling when a proof breaks).

   What is transliterated from /repo (see design.d/C03.md for the anchors):
   * the opcode table (names, operand kinds, field names, return kind of every `operation`) is REGENERATED from
     vm/opcode/mod.rs + vm/opcode/**.rs by tools/gen_c03.py into Gen/OpcodeSig.v on every run;
   * `effect` below is the hand-written table of what each opcode does to the three depths the property speaks about
     (environment chain relative to env_fp, frame.binding_stack, values pushed above the register file) and which
     control-flow successors it has.  It is validated dynamically against the per-instruction depth log of the real VM
     (checks/c03.py, "effect correspondence");
   * exception edges transliterate Context::handle_error / Vm::handle_exception_at / CodeBlock::find_handler /
     Handler::contains and the caller walk of Context::handle_throw (shapes pinned by the translator). *)
From Coq Require Import NArith ZArith List Bool FMapPositive.
From Gen Require Import OpcodeSig.
Import ListNotations.
Local Open Scope N_scope.

(* ------------------------------------------------------------------------------------------------ *)
(* Code blocks as dumped by CodeBlock::verif_dump()                                                   *)

Inductive operand :=
| AReg (n : N) | AIdx (n : N) | AAddr (n : N) | AU32 (n : N) | AU64 | AInt (z : Z) | AImm
| AVReg (l : list N) | AVAddr (l : list N) | AVU32 (l : list N).

Definition kind_of (a : operand) : opkind :=
  match a with
  | AReg _ => KReg | AIdx _ => KIdx | AAddr _ => KAddr | AU32 _ => KU32 | AU64 => KU64 | AInt _ => KInt | AImm => KImm
  | AVReg _ => KVecReg | AVAddr _ => KVecAddr | AVU32 _ => KVecU32
  end.

Record instr := mkInstr { i_pc : N; i_next : N; i_op : opcode; i_args : list operand }.
Record handler := mkHandler { h_start : N; h_end : N; h_env : N }.
Inductive ckind := CStr | CBig | CScope | CFun.

Record codeblock := mkCB {
  cb_regs : N;                       (* register_count *)
  cb_entry_env : N;                  (* environments pushed by the call machinery before pc 0 (from the flags) *)
  cb_bytes : N;                      (* bytecode length *)
  cb_code : PositiveMap.t instr;     (* key = N.succ_pos pc *)
  cb_consts : list ckind;
  cb_nbind : N;
  cb_nic : N;
  cb_handlers : list handler;
  cb_jregs : list N                  (* registers whose small constants are tracked (jump-table selectors); any list is sound *)
}.

Definition key (pc : N) : positive := N.succ_pos pc.

Definition build_code (l : list instr) : PositiveMap.t instr :=
  fold_left (fun m i => PositiveMap.add (key (i_pc i)) i m) l (PositiveMap.empty instr).

Definition find_instr (cb : codeblock) (pc : N) : option instr :=
  match PositiveMap.find (key pc) (cb_code cb) with
  | Some i => if i_pc i =? pc then Some i else None
  | None => None
  end.

Definition is_start (cb : codeblock) (pc : N) : bool :=
  match find_instr cb pc with Some _ => true | None => false end.

Definition instrs (cb : codeblock) : list instr := map snd (PositiveMap.elements (cb_code cb)).

(* ------------------------------------------------------------------------------------------------ *)
(* Operand roles and bounds                                                                           *)

Inductive role :=
| RoReg | RoAddr | RoImm | RoVReg | RoVAddr
| RoConstStr | RoConstLit | RoConstFun | RoConstScope | RoVConstStr
| RoBind | RoIc | RoBad.

Definition idx_role (o : opcode) (f : fname) : role :=
  match f with
  | F_binding_index => RoBind
  | F_ic_index => RoIc
  | F_name_index | F_pattern_index | F_flags_index | F_message => RoConstStr
  | F_scope_index => RoConstScope
  | F_prefix | F_is_anonymous_function | F_argument_count | F_phase | F_done => RoImm
  | F_index =>
      match o with
      | Op_StoreLiteral => RoConstLit
      | Op_InPrivate | Op_ThrowMutateImmutable => RoConstStr
      | Op_GetArgument => RoImm
      | Op_ThisForObjectEnvironmentName => RoBind
      | Op_GetFunction => RoConstFun
      | _ => RoBad
      end
  | _ => RoBad
  end.

Definition role_of (o : opcode) (f : fname) (k : opkind) : role :=
  match k with
  | KReg => RoReg
  | KAddr => RoAddr
  | KImm | KInt | KU64 => RoImm
  | KVecReg => RoVReg
  | KVecAddr => RoVAddr
  | KIdx => idx_role o f
  | KU32 => match o with Op_JumpTable => RoReg | _ => RoBad end           (* JumpTable.index is read with get_register *)
  | KVecU32 => match o with
               | Op_TemplateCreate => RoVReg                                (* values: registers (cooked/raw pairs) *)
               | Op_PushPrivateEnvironment => RoVConstStr                   (* name_indices: string constants *)
               | _ => RoBad end
  end.

Fixpoint roles_aux (o : opcode) (fs : list fname) (ks : list opkind) : list role :=
  match fs, ks with
  | f :: fs', k :: ks' => role_of o f k :: roles_aux o fs' ks'
  | _, _ => []
  end.

Definition roles (o : opcode) : list role := roles_aux o (opcode_fnames o) (opcode_sig o).

Definition opkind_eqb (a b : opkind) : bool :=
  match a, b with
  | KReg, KReg | KIdx, KIdx | KAddr, KAddr | KU32, KU32 | KU64, KU64 | KInt, KInt | KImm, KImm
  | KVecReg, KVecReg | KVecAddr, KVecAddr | KVecU32, KVecU32 => true
  | _, _ => false
  end.

Fixpoint kinds_match (args : list operand) (ks : list opkind) : bool :=
  match args, ks with
  | [], [] => true
  | a :: args', k :: ks' => opkind_eqb (kind_of a) k && kinds_match args' ks'
  | _, _ => false
  end.

Definition const_at (cb : codeblock) (n : N) : option ckind := nth_error (cb_consts cb) (N.to_nat n).

Definition const_is (cb : codeblock) (n : N) (p : ckind -> bool) : bool :=
  match const_at cb n with Some c => p c | None => false end.

Definition is_str (c : ckind) := match c with CStr => true | _ => false end.
Definition is_lit (c : ckind) := match c with CStr | CBig => true | _ => false end.
Definition is_fun (c : ckind) := match c with CFun => true | _ => false end.
Definition is_scope (c : ckind) := match c with CScope => true | _ => false end.

Definition operand_ok (cb : codeblock) (r : role) (a : operand) : bool :=
  match r, a with
  | RoReg, AReg n => n <? cb_regs cb
  | RoReg, AU32 n => n <? cb_regs cb
  | RoVReg, AVReg l => forallb (fun n => n <? cb_regs cb) l
  | RoVReg, AVU32 l => forallb (fun n => n <? cb_regs cb) l
  | RoAddr, AAddr a => is_start cb a
  | RoVAddr, AVAddr l => forallb (is_start cb) l
  | RoImm, _ => true
  | RoConstStr, AIdx n => const_is cb n is_str
  | RoConstLit, AIdx n => const_is cb n is_lit
  | RoConstFun, AIdx n => const_is cb n is_fun
  | RoConstScope, AIdx n => const_is cb n is_scope
  | RoVConstStr, AVU32 l => forallb (fun n => const_is cb n is_str) l
  | RoBind, AIdx n => n <? cb_nbind cb
  | RoIc, AIdx n => n <? cb_nic cb
  | _, _ => false
  end.

Fixpoint operands_ok_aux (cb : codeblock) (rs : list role) (args : list operand) : bool :=
  match rs, args with
  | [], [] => true
  | r :: rs', a :: args' => operand_ok cb r a && operands_ok_aux cb rs' args'
  | _, _ => false
  end.

(* registers an instruction names (for the corollary no_register_oob) *)
Definition regs_of_operand (r : role) (a : operand) : list N :=
  match r, a with
  | RoReg, AReg n => [n]
  | RoReg, AU32 n => [n]
  | RoVReg, AVReg l => l
  | RoVReg, AVU32 l => l
  | _, _ => []
  end.

Fixpoint regs_of_aux (rs : list role) (args : list operand) : list N :=
  match rs, args with
  | r :: rs', a :: args' => regs_of_operand r a ++ regs_of_aux rs' args'
  | _, _ => []
  end.

(* registers touched without being named by an operand (vm/call_frame/mod.rs: PROMISE_CAPABILITY_*_REGISTER_INDEX = 1,2,3,
   ASYNC_GENERATOR_OBJECT_REGISTER_INDEX = 4) *)
Definition implicit_regs (o : opcode) : list N :=
  match o with
  | Op_CreatePromiseCapability | Op_Await => [1; 2; 3]
  | Op_AsyncGenerator | Op_AsyncGeneratorYield | Op_AsyncGeneratorClose => [4]
  | _ => []
  end.

Definition regs_of (i : instr) : list N := implicit_regs (i_op i) ++ regs_of_aux (roles (i_op i)) (i_args i).

Definition is_reserved (o : opcode) : bool := match o with Op_Reserved => true | _ => false end.

(* every operand has the kind the signature says and lies inside its table; Reserved bytes never execute
   (`Reserved::operation` is unreachable!()) *)
Definition operands_ok (cb : codeblock) (i : instr) : bool :=
  negb (is_reserved (i_op i)) &&
  kinds_match (i_args i) (opcode_sig (i_op i)) &&
  operands_ok_aux cb (roles (i_op i)) (i_args i) &&
  forallb (fun n => n <? cb_regs cb) (implicit_regs (i_op i)).

(* ------------------------------------------------------------------------------------------------ *)
(* Effects                                                                                            *)

Inductive envop := ENone | EPush | EPop.
Inductive bindop := BNone | BPush | BPop.
Inductive flow :=
| FNext                   (* falls through *)
| FJump (a : N)           (* unconditional *)
| FCond (a : N)           (* falls through or jumps *)
| FCondT (a r : N)        (* JumpIfTrue: jumps iff register r is truthy *)
| FCondF (a r : N)        (* JumpIfFalse: jumps iff register r is falsy *)
| FTable (l : list N)     (* falls through or jumps to one of l *)
| FStop.                  (* no normal successor in this frame: return, unconditional throw *)

Record eff := mkEff {
  e_pop : N; e_push : N;       (* value stack above the register file: needs >= e_pop, then + e_push *)
  e_env : envop;
  e_bind : bindop;
  e_flow : flow;
  e_throw : bool;              (* may raise an exception that is looked up in this frame at next_pc - 1 *)
  e_calllike : bool            (* may also unwind a callee frame: handle_throw looks the handler up at next_pc *)
}.

Definition base (o : opcode) : eff :=
  match opcode_ret o with
  | RUnit => mkEff 0 0 ENone BNone FNext false false
  | RResult => mkEff 0 0 ENone BNone FNext true false
  | RError => mkEff 0 0 ENone BNone FStop true false
  | RControl => mkEff 0 0 ENone BNone FNext true false
  end.

Definition with_stack (pop push : N) (e : eff) : eff :=
  mkEff pop push (e_env e) (e_bind e) (e_flow e) (e_throw e) (e_calllike e).
Definition with_env (x : envop) (e : eff) : eff :=
  mkEff (e_pop e) (e_push e) x (e_bind e) (e_flow e) (e_throw e) (e_calllike e).
Definition with_bind (x : bindop) (e : eff) : eff :=
  mkEff (e_pop e) (e_push e) (e_env e) x (e_flow e) (e_throw e) (e_calllike e).
Definition with_flow (x : flow) (e : eff) : eff :=
  mkEff (e_pop e) (e_push e) (e_env e) (e_bind e) x (e_throw e) (e_calllike e).
Definition calllike (e : eff) : eff :=
  mkEff (e_pop e) (e_push e) (e_env e) (e_bind e) (e_flow e) true true.
Definition no_throw (e : eff) : eff :=
  mkEff (e_pop e) (e_push e) (e_env e) (e_bind e) (e_flow e) false false.

Fixpoint first_addr (args : list operand) : option N :=
  match args with
  | AAddr a :: _ => Some a
  | _ :: r => first_addr r
  | [] => None
  end.

Fixpoint first_idx (args : list operand) : option N :=
  match args with
  | AIdx a :: _ => Some a
  | _ :: r => first_idx r
  | [] => None
  end.

Fixpoint first_vaddr (args : list operand) : option (list N) :=
  match args with
  | AVAddr l :: _ => Some l
  | _ :: r => first_vaddr r
  | [] => None
  end.

Definition cond_jump (o : opcode) (args : list operand) : option eff :=
  match first_addr args with Some a => Some (with_flow (FCond a) (base o)) | None => None end.

(* calls: `this, func, arg_1 .. arg_n => result` *)
Definition call_n (o : opcode) (args : list operand) : option eff :=
  match first_idx args with Some n => Some (calllike (with_stack (n + 2) 1 (base o))) | None => None end.

(* The hand-written table.  No wildcard: an opcode added to generate_opcodes! makes this match non-exhaustive. *)
Definition effect (o : opcode) (args : list operand) : option eff :=
  match o with
  (* value stack *)
  | Op_Pop | Op_PopIntoRegister => Some (with_stack 1 0 (base o))
  | Op_PushFromRegister => Some (with_stack 0 1 (base o))
  | Op_Call | Op_CallEval | Op_New | Op_SuperCall => call_n o args
  | Op_CallSpread | Op_CallEvalSpread | Op_NewSpread | Op_SuperCallSpread =>      (* this, func, arguments_array => result *)
      Some (calllike (with_stack 3 1 (base o)))
  | Op_SuperCallDerived => Some (calllike (with_stack 0 1 (base o)))               (* pushes this/func/args itself *)
  (* suspension points: the successor is the state after GeneratorContext::resume, which pushes
     (value?, resume_kind) on the generator's own stack *)
  | Op_Generator => Some (with_stack 0 1 (base o))
  | Op_AsyncGenerator | Op_GeneratorYield | Op_AsyncGeneratorYield | Op_Await => Some (with_stack 0 2 (base o))
  (* environments *)
  | Op_PushScope | Op_PushObjectEnvironment => Some (with_env EPush (base o))
  | Op_PopEnvironment => Some (with_env EPop (base o))
  (* binding references *)
  | Op_GetLocator | Op_GetNameAndLocator => Some (with_bind BPush (base o))
  | Op_SetNameByLocator => Some (with_bind BPop (base o))
  (* control flow *)
  | Op_Jump => match first_addr args with Some a => Some (with_flow (FJump a) (base o)) | None => None end
  | Op_JumpIfTrue => match args with [AAddr a; AReg r] => Some (with_flow (FCondT a r) (base o)) | _ => None end
  | Op_JumpIfFalse => match args with [AAddr a; AReg r] => Some (with_flow (FCondF a r) (base o)) | _ => None end
  | Op_JumpIfNotUndefined | Op_JumpIfNullOrUndefined
  | Op_JumpIfNotLessThan | Op_JumpIfNotLessThanOrEqual | Op_JumpIfNotGreaterThan | Op_JumpIfNotGreaterThanOrEqual
  | Op_JumpIfNotEqual | Op_LogicalAnd | Op_LogicalOr | Op_Coalesce | Op_Case | Op_TemplateLookup => cond_jump o args
  | Op_JumpTable => match first_vaddr args with Some l => Some (with_flow (FTable l) (base o)) | None => None end
  | Op_Return => Some (no_throw (with_flow FStop (base o)))
  | Op_Throw | Op_ReThrow => Some (with_flow FStop (base o))
  | Op_Exception => Some (base o)                                   (* falls through, or re-throws when nothing is pending *)
  | Op_CheckReturn => Some (no_throw (base o))                      (* its throw goes straight to handle_throw: never caught here *)
  | Op_Reserved => None
  (* everything else: no effect on the three depths, falls through, throws according to its return type *)
  | Op_StoreZero | Op_StoreOne | Op_StoreInt8 | Op_StoreInt16 | Op_StoreInt32 | Op_StoreFloat
  | Op_StoreDouble | Op_StoreNan | Op_StorePositiveInfinity | Op_StoreNegativeInfinity | Op_StoreNull
  | Op_StoreTrue | Op_StoreFalse | Op_StoreUndefined | Op_StoreLiteral | Op_StoreRegexp | Op_StoreEmptyObject
  | Op_StoreClassPrototype | Op_SetClassPrototype | Op_SetHomeObject | Op_GetHomeObject | Op_SetPrototype
  | Op_GetPrototype | Op_StoreNewArray | Op_PushValueToArray | Op_PushElisionToArray | Op_PushIteratorToArray
  | Op_Add | Op_Sub | Op_Div | Op_Mul | Op_Mod | Op_Pow | Op_ShiftRight | Op_ShiftLeft
  | Op_UnsignedShiftRight | Op_BitOr | Op_BitAnd | Op_BitXor | Op_BitNot | Op_In | Op_InPrivate | Op_Eq
  | Op_StrictEq | Op_NotEq | Op_StrictNotEq | Op_GreaterThan | Op_GreaterThanOrEq | Op_LessThan
  | Op_LessThanOrEq | Op_InstanceOf | Op_TypeOf | Op_LogicalNot | Op_Pos | Op_Neg | Op_Inc | Op_Dec
  | Op_DefVar | Op_DefInitVar | Op_PutLexicalValue | Op_ThrowMutateImmutable | Op_GetArgument | Op_GetName
  | Op_GetNameGlobal | Op_GetNameOrUndefined | Op_SetName | Op_DeleteName | Op_GetMethod
  | Op_GetLengthProperty | Op_GetPropertyByName | Op_GetPropertyByNameWithThis | Op_GetPropertyByValue
  | Op_GetPropertyByValuePush | Op_SetPropertyByName | Op_SetPropertyByNameWithThis | Op_SetFunctionName
  | Op_DefineOwnPropertyByName | Op_DefineClassStaticMethodByName | Op_DefineClassMethodByName
  | Op_SetPropertyByValue | Op_DefineOwnPropertyByValue | Op_DefineClassStaticMethodByValue
  | Op_DefineClassMethodByValue | Op_SetPropertyGetterByName | Op_DefineClassStaticGetterByName
  | Op_DefineClassGetterByName | Op_SetPropertyGetterByValue | Op_DefineClassStaticGetterByValue
  | Op_DefineClassGetterByValue | Op_SetPropertySetterByName | Op_DefineClassStaticSetterByName
  | Op_DefineClassSetterByName | Op_SetPropertySetterByValue | Op_DefineClassStaticSetterByValue
  | Op_DefineClassSetterByValue | Op_SetPrivateField | Op_DefinePrivateField | Op_SetPrivateMethod
  | Op_SetPrivateSetter | Op_SetPrivateGetter | Op_GetPrivateField | Op_PushClassField
  | Op_PushClassFieldPrivate | Op_PushClassPrivateGetter | Op_PushClassPrivateSetter
  | Op_PushClassPrivateMethod | Op_DeletePropertyByName | Op_DeletePropertyByValue | Op_DeleteSuperThrow
  | Op_CopyDataProperties | Op_ToPropertyKey | Op_MaybeException | Op_ThrowNewTypeError
  | Op_ThrowNewReferenceError | Op_GetFunctionObject | Op_This | Op_ThisForObjectEnvironmentName
  | Op_BindThisValue | Op_ImportCall | Op_GetFunction | Op_AsyncGeneratorClose | Op_SetAccumulator
  | Op_SetRegisterFromAccumulator | Op_Move | Op_IncrementLoopIteration | Op_CreateForInIterator
  | Op_GetIterator | Op_GetAsyncIterator | Op_IteratorPop | Op_IteratorPush | Op_IteratorNext
  | Op_IteratorUpdateResult | Op_IteratorDone | Op_IteratorFinishAsyncNext | Op_IteratorValue
  | Op_IteratorResult | Op_IteratorToArray | Op_IteratorStackEmpty | Op_CreateIteratorResult
  | Op_IteratorReturn | Op_ConcatToString | Op_ValueNotNullOrUndefined | Op_RestParameterInit
  | Op_CreatePromiseCapability | Op_NewTarget | Op_ImportMeta | Op_IsObject | Op_TemplateCreate
  | Op_PushPrivateEnvironment | Op_PopPrivateEnvironment | Op_CreateMappedArgumentsObject
  | Op_CreateUnmappedArgumentsObject | Op_DefEvalVar => Some (base o)
  end.

(* ------------------------------------------------------------------------------------------------ *)
(* The abstract machine over (pc, depths, selectors)                                                  *)

(* d_bind: the pending binding references, innermost first, each named by the pc of the instruction that pushed it.
   d_sel: known small-integer contents of the tracked registers (cb_jregs), sorted by register.  The try/finally
   lowering enters a finally block at *different* value-stack depths (a pending `return` keeps its value on the stack)
   and dispatches at the end through JumpTable on a register set by StoreZero/StoreOne/StoreInt8 before the jump
   (bytecompiler/jump_control.rs); depths therefore agree at merges only per selector valuation, which is what the
   verifier checks. *)
Record depth := mkD { d_env : N; d_bind : list N; d_stk : N; d_sel : list (N * N) }.

Definition entry_depth (cb : codeblock) : depth := mkD (cb_entry_env cb) [] 0 [].

Fixpoint sel_get (r : N) (sel : list (N * N)) : option N :=
  match sel with
  | [] => None
  | (r', v) :: t => if r' =? r then Some v else sel_get r t
  end.

Fixpoint sel_set (r v : N) (sel : list (N * N)) : list (N * N) :=
  match sel with
  | [] => [(r, v)]
  | (r', v') :: t => if r <? r' then (r, v) :: sel
                     else if r' =? r then (r, v) :: t
                     else (r', v') :: sel_set r v t
  end.

Fixpoint memN (x : N) (l : list N) : bool :=
  match l with [] => false | y :: t => (x =? y) || memN x t end.

Definition sel_kill (rs : list N) (sel : list (N * N)) : list (N * N) :=
  filter (fun rv => negb (memN (fst rv) rs)) sel.

Definition OUT_OF_TABLE : N := 4294967296.       (* a negative integer: truthy, never a table index *)
Definition BFALSE : N := 8589934592.             (* the boolean false: falsy, `as_i32` is None so JumpTable falls through *)
Definition BTRUE : N := 8589934593.

Definition truthy (v : N) : bool := negb ((v =? 0) || (v =? BFALSE)).

(* the constant stores whose value JumpTable can read back with as_i32 *)
Definition const_store (i : instr) : option (N * N) :=
  match i_op i, i_args i with
  | Op_StoreZero, [AReg r] => Some (r, 0)
  | Op_StoreOne, [AReg r] => Some (r, 1)
  | Op_StoreTrue, [AReg r] => Some (r, BTRUE)
  | Op_StoreFalse, [AReg r] => Some (r, BFALSE)
  | Op_StoreInt8, [AReg r; AInt z] | Op_StoreInt16, [AReg r; AInt z] | Op_StoreInt32, [AReg r; AInt z] =>
      Some (r, if (z <? 0)%Z then OUT_OF_TABLE else Z.to_N z)
  | _, _ => None
  end.

(* a tracked register keeps its constant until an instruction that names it (or touches it implicitly) executes;
   JumpTable only reads its index *)
Definition sel_step (cb : codeblock) (i : instr) (sel : list (N * N)) : list (N * N) :=
  match const_store i with
  | Some (r, v) => if memN r (cb_jregs cb) then sel_set r v sel else sel_kill [r] sel
  | None => match i_op i with
            | Op_JumpTable => sel
            | _ => sel_kill (regs_of i) sel
            end
  end.

Definition h_contains (h : handler) (a : N) : bool := (a <? h_end h) && (h_start h <=? a).

(* CodeBlock::find_handler: the last handler in table order that contains the address *)
Definition find_handler (hs : list handler) (a : N) : option handler :=
  find (fun h => h_contains h a) (rev hs).

Definition bind_step (pc : N) (b : bindop) (l : list N) : option (list N) :=
  match b with
  | BNone => Some l
  | BPush => Some (pc :: l)
  | BPop => match l with [] => None | _ :: r => Some r end
  end.

Definition env_step (x : envop) (e : N) : option N :=
  match x with
  | ENone => Some e
  | EPush => Some (e + 1)
  | EPop => if e =? 0 then None else Some (e - 1)
  end.

Definition normal_depth (cb : codeblock) (i : instr) (e : eff) (d : depth) : option depth :=
  if d_stk d <? e_pop e then None else
  match env_step (e_env e) (d_env d), bind_step (i_pc i) (e_bind e) (d_bind d) with
  | Some env, Some bind => Some (mkD env bind (d_stk d - e_pop e + e_push e) (sel_step cb i (d_sel d)))
  | _, _ => None
  end.

Definition jump_index (args : list operand) : option N :=
  match args with AU32 r :: _ => Some r | _ => None end.

Definition flow_targets (i : instr) (f : flow) (sel : list (N * N)) : list N :=
  match f with
  | FNext => [i_next i]
  | FJump a => [a]
  | FCond a => [i_next i; a]
  | FCondT a r => match sel_get r sel with
                  | Some v => if truthy v then [a] else [i_next i]
                  | None => [i_next i; a]
                  end
  | FCondF a r => match sel_get r sel with
                  | Some v => if truthy v then [i_next i] else [a]
                  | None => [i_next i; a]
                  end
  | FTable l =>
      match jump_index (i_args i) with
      | Some r => match sel_get r sel with
                  | Some k => [nth (N.to_nat k) l (i_next i)]       (* addresses.get(k), else falls through *)
                  | None => i_next i :: l
                  end
      | None => i_next i :: l
      end
  | FStop => []
  end.

(* depths on entering a handler (Vm::handle_exception_at): pc := end; environments truncated to
   env_fp + environment_count; value stack and binding_stack untouched unless the generated flags say the
   tree truncates them.  "Untouched" is modelled as the depths *before* the faulting instruction, except that
   SetNameByLocator has already popped its reference when set_binding throws. *)
Definition exc_bind (e : eff) (d : depth) : list N :=
  if HANDLER_TRUNCATES_BINDINGS then [] else
  match e_bind e with BPop => tl (d_bind d) | _ => d_bind d end.

Definition exc_stk (d : depth) : N := if HANDLER_TRUNCATES_STACK then 0 else d_stk d.

Definition exc_one (cb : codeblock) (i : instr) (e : eff) (d : depth) (a : N) : option (list (N * depth)) :=
  match find_handler (cb_handlers cb) a with
  | None => Some []                                      (* leaves the frame *)
  | Some h => if h_env h <=? d_env d
              then Some [(h_end h, mkD (h_env h) (exc_bind e d) (exc_stk d) (sel_kill (regs_of i) (d_sel d)))]
              else None                                  (* truncate() would not restore the depth the handler assumes *)
  end.

Definition exc_succs (cb : codeblock) (i : instr) (e : eff) (d : depth) : option (list (N * depth)) :=
  if negb (e_throw e) then Some [] else
  match exc_one cb i e d (i_next i - 1) with
  | None => None
  | Some l1 =>
      if e_calllike e then
        match exc_one cb i e d (i_next i) with
        | None => None
        | Some l2 => Some (l1 ++ l2)
        end
      else Some l1
  end.

Definition norm_succs (cb : codeblock) (i : instr) (e : eff) (d : depth) : option (list (N * depth)) :=
  match e_flow e with
  | FStop => Some []
  | f => match normal_depth cb i e d with
         | None => None
         | Some d' => Some (map (fun pc => (pc, d')) (flow_targets i f (d_sel d)))
         end
  end.

(* One abstract step: None = the machine is stuck (pc not at an instruction, operand outside its table,
   a depth would go negative, a handler assumes more environments than exist). *)
Definition asteps (cb : codeblock) (pc : N) (d : depth) : option (list (N * depth)) :=
  match find_instr cb pc with
  | None => None
  | Some i =>
      if negb (operands_ok cb i) then None else
      match effect (i_op i) (i_args i) with
      | None => None
      | Some e =>
          match norm_succs cb i e d, exc_succs cb i e d with
          | Some l1, Some l2 => Some (l1 ++ l2)
          | _, _ => None
          end
      end
  end.

(* ------------------------------------------------------------------------------------------------ *)
(* Annotations, checker, inference                                                                    *)

(* per pc: the admissible states, at most one per selector valuation *)
Definition annot := PositiveMap.t (list depth).
Definition aget (A : annot) (pc : N) : list depth :=
  match PositiveMap.find (key pc) A with Some l => l | None => [] end.

Fixpoint listN_eqb (a b : list N) : bool :=
  match a, b with
  | [], [] => true
  | x :: a', y :: b' => (x =? y) && listN_eqb a' b'
  | _, _ => false
  end.

Fixpoint sel_eqb (a b : list (N * N)) : bool :=
  match a, b with
  | [], [] => true
  | (r, v) :: a', (r', v') :: b' => (r =? r') && (v =? v') && sel_eqb a' b'
  | _, _ => false
  end.

Definition depth_eqb (a b : depth) : bool :=
  (d_env a =? d_env b) && listN_eqb (d_bind a) (d_bind b) && (d_stk a =? d_stk b) && sel_eqb (d_sel a) (d_sel b).

Definition memD (d : depth) (l : list depth) : bool := existsb (depth_eqb d) l.

Definition check_succ (cb : codeblock) (A : annot) (s : N * depth) : bool :=
  memD (snd s) (aget A (fst s)) && is_start cb (fst s).

Definition check_state (cb : codeblock) (A : annot) (pc : N) (d : depth) : bool :=
  match asteps cb pc d with
  | None => false
  | Some l => forallb (check_succ cb A) l
  end.

(* one depth per selector valuation *)
Fixpoint functional (l : list depth) : bool :=
  match l with
  | [] => true
  | d :: t => forallb (fun d' => negb (sel_eqb (d_sel d) (d_sel d')) || depth_eqb d d') t && functional t
  end.

Definition check_instr (cb : codeblock) (A : annot) (i : instr) : bool :=
  forallb (check_state cb A (i_pc i)) (aget A (i_pc i)) && functional (aget A (i_pc i)).

Definition check (cb : codeblock) (A : annot) : bool :=
  check_succ cb A (0, entry_depth cb) && forallb (check_instr cb A) (instrs cb).

(* the instructions tile the bytecode: following next-pointers from 0 visits every instruction of the map once
   (pcs strictly increase) and ends exactly at the end of the bytecode *)
Fixpoint tiles (fuel : nat) (cb : codeblock) (pc : N) (visited : nat) : bool :=
  if pc =? cb_bytes cb then Nat.eqb visited (List.length (instrs cb)) else
  match fuel with
  | O => false
  | S f => match find_instr cb pc with
           | Some i => (pc <? i_next i) && tiles f cb (i_next i) (S visited)
           | None => false
           end
  end.

Definition contiguous (cb : codeblock) : bool := tiles (S (List.length (instrs cb))) cb 0 O.

Definition handler_ok (cb : codeblock) (h : handler) : bool :=
  (h_start h <=? h_end h) && is_start cb (h_start h) && is_start cb (h_end h).

(* structural well-formedness of the whole block, reachable or not *)
Definition wf_block (cb : codeblock) : bool :=
  forallb (operands_ok cb) (instrs cb) &&
  forallb (handler_ok cb) (cb_handlers cb) &&
  contiguous cb &&
  negb (cb_bytes cb =? 0).

(* forward dataflow with a work list; errors are collected for diagnostics only (the verdict is `check`) *)
Inductive edge := EEntry | ENormal (from : N) | EExc (from : N).
Inductive err :=
| ErrMerge (e : edge) (pc : N) (have want : depth)       (* two paths reach pc with the same selectors and different depths *)
| ErrStuck (pc : N) (d : depth)                          (* asteps = None at pc *)
| ErrFuel.

Definition tag (f : N -> edge) (from : N) (l : list (N * depth)) : list (edge * N * depth) :=
  map (fun s => (f from, fst s, snd s)) l.

Definition succs_tagged (cb : codeblock) (pc : N) (d : depth) : option (list (edge * N * depth)) :=
  match find_instr cb pc with
  | None => None
  | Some i =>
      if negb (operands_ok cb i) then None else
      match effect (i_op i) (i_args i) with
      | None => None
      | Some e =>
          match norm_succs cb i e d, exc_succs cb i e d with
          | Some l1, Some l2 => Some (tag ENormal pc l1 ++ tag EExc pc l2)
          | _, _ => None
          end
      end
  end.

Definition same_sel (d : depth) (l : list depth) : option depth :=
  find (fun d' => sel_eqb (d_sel d) (d_sel d')) l.

Fixpoint infer_loop (fuel : nat) (cb : codeblock) (A : annot) (work : list (edge * N * depth)) (errs : list err)
  : annot * list err :=
  match fuel with
  | O => (A, ErrFuel :: errs)
  | S f =>
      match work with
      | [] => (A, errs)
      | (e, pc, d) :: w =>
          let here := aget A pc in
          if memD d here then infer_loop f cb A w errs else
          match same_sel d here with
          | Some d0 => infer_loop f cb A w (ErrMerge e pc d0 d :: errs)
          | None =>
              let A' := PositiveMap.add (key pc) (d :: here) A in
              match succs_tagged cb pc d with
              | None => infer_loop f cb A' w (ErrStuck pc d :: errs)
              | Some l => infer_loop f cb A' (l ++ w) errs
              end
          end
      end
  end.

Definition infer_fuel (cb : codeblock) : nat := N.to_nat (64 * cb_bytes cb + 64).

Definition infer_full (cb : codeblock) : annot * list err :=
  infer_loop (infer_fuel cb) cb (PositiveMap.empty (list depth)) [(EEntry, 0, entry_depth cb)] [].

Definition infer (cb : codeblock) : annot := fst (infer_full cb).

(* THE VERIFIER *)
Definition verify (cb : codeblock) : bool := wf_block cb && check cb (infer cb).

(* registers used as a JumpTable index or tested by JumpIfTrue/JumpIfFalse (the completion selectors and re-throw
   flags of the try/finally lowering): the default choice for cb_jregs *)
Definition jump_regs (l : list instr) : list N :=
  flat_map (fun i => match i_op i, i_args i with
                     | Op_JumpTable, AU32 r :: _ => [r]
                     | Op_JumpIfTrue, [AAddr _; AReg r] => [r]
                     | Op_JumpIfFalse, [AAddr _; AReg r] => [r]
                     | _, _ => [] end) l.

(* reachable abstract states *)
Inductive reach (cb : codeblock) : N -> depth -> Prop :=
| reach_entry : reach cb 0 (entry_depth cb)
| reach_step : forall pc d l pc' d',
    reach cb pc d -> asteps cb pc d = Some l -> In (pc', d') l -> reach cb pc' d'.

(* table sanity, re-checked by vm_compute whenever the table is regenerated (Proofs_C03.v) *)
Definition role_known (r : role) : bool := match r with RoBad => false | _ => true end.
Definition roles_complete (o : opcode) : bool :=
  forallb role_known (roles o) && Nat.eqb (List.length (opcode_fnames o)) (List.length (opcode_sig o)).

(* an opcode whose `operation` returns () cannot throw; one returning JsError always does and never falls through;
   checked for every table entry on canonical operands *)
Definition canon_operand (k : opkind) : operand :=
  match k with
  | KReg => AReg 0 | KIdx => AIdx 0 | KAddr => AAddr 0 | KU32 => AU32 0 | KU64 => AU64 | KInt => AInt 0%Z | KImm => AImm
  | KVecReg => AVReg [] | KVecAddr => AVAddr [] | KVecU32 => AVU32 []
  end.

Definition effect_consistent (o : opcode) : bool :=
  match o with
  | Op_Reserved => true
  | _ =>
    match effect o (map canon_operand (opcode_sig o)) with
    | None => false
    | Some e =>
        match opcode_ret o with
        | RUnit => negb (e_throw e)
        | RResult => e_throw e && match e_flow e with FStop => false | _ => true end
        | RError => e_throw e && match e_flow e with FStop => true | _ => false end
        | RControl => true
        end
    end
  end.
