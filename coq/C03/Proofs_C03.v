(* C03 -- lemmas: soundness of the checker over all abstract paths. *)
From Coq Require Import NArith ZArith List Bool FMapPositive Lia.
From Gen Require Import OpcodeSig.
From C03 Require Import Bytecode_C03.
Import ListNotations.
Local Open Scope N_scope.

(* ---------------------------------------------------------------- equality tests *)

Lemma listN_eqb_eq : forall a b, listN_eqb a b = true -> a = b.
Proof.
  induction a as [|x a IH]; destruct b as [|y b]; simpl; intros H; try discriminate; auto.
  apply andb_true_iff in H. destruct H as [H1 H2]. apply N.eqb_eq in H1. subst. f_equal. auto.
Qed.

Lemma sel_eqb_eq : forall a b, sel_eqb a b = true -> a = b.
Proof.
  induction a as [|[r v] a IH]; destruct b as [|[r' v'] b]; simpl; intros H; try discriminate; auto.
  apply andb_true_iff in H. destruct H as [H1 H3]. apply andb_true_iff in H1. destruct H1 as [H1 H2].
  apply N.eqb_eq in H1. apply N.eqb_eq in H2. subst. f_equal. auto.
Qed.

Lemma sel_eqb_refl : forall a, sel_eqb a a = true.
Proof.
  induction a as [|[r v] a IH]; simpl; auto. rewrite !N.eqb_refl. simpl. exact IH.
Qed.

Lemma depth_eqb_eq : forall a b, depth_eqb a b = true -> a = b.
Proof.
  intros [e1 b1 s1 l1] [e2 b2 s2 l2]. unfold depth_eqb. simpl. intros H.
  apply andb_true_iff in H. destruct H as [H H4]. apply andb_true_iff in H. destruct H as [H H3].
  apply andb_true_iff in H. destruct H as [H1 H2].
  apply N.eqb_eq in H1. apply N.eqb_eq in H3. apply listN_eqb_eq in H2. apply sel_eqb_eq in H4. subst. reflexivity.
Qed.

Lemma memD_In : forall d l, memD d l = true -> In d l.
Proof.
  intros d l H. unfold memD in H. apply existsb_exists in H. destruct H as [x [Hin Heq]].
  apply depth_eqb_eq in Heq. subst. exact Hin.
Qed.

Lemma functional_spec : forall l, functional l = true ->
  forall a b, In a l -> In b l -> d_sel a = d_sel b -> a = b.
Proof.
  induction l as [|d t IH]; simpl; intros H a b Ha Hb Hs; [contradiction|].
  apply andb_true_iff in H. destruct H as [H1 H2].
  rewrite forallb_forall in H1.
  destruct Ha as [Ha|Ha]; destruct Hb as [Hb|Hb]; subst.
  - reflexivity.
  - specialize (H1 b Hb). rewrite Hs in H1. rewrite sel_eqb_refl in H1. simpl in H1. apply depth_eqb_eq in H1. exact H1.
  - specialize (H1 a Ha). rewrite <- Hs in H1. rewrite sel_eqb_refl in H1. simpl in H1. apply depth_eqb_eq in H1. auto.
  - eapply IH; eauto.
Qed.

(* ---------------------------------------------------------------- code map *)

Lemma find_instr_pc : forall cb pc i, find_instr cb pc = Some i -> i_pc i = pc.
Proof.
  intros cb pc i H. unfold find_instr in H.
  destruct (PositiveMap.find (key pc) (cb_code cb)) as [j|]; [|discriminate].
  destruct (i_pc j =? pc) eqn:E; [|discriminate]. inversion H; subst. apply N.eqb_eq. exact E.
Qed.

Lemma find_instr_In : forall cb pc i, find_instr cb pc = Some i -> In i (instrs cb).
Proof.
  intros cb pc i H. unfold find_instr in H.
  destruct (PositiveMap.find (key pc) (cb_code cb)) as [j|] eqn:F; [|discriminate].
  destruct (i_pc j =? pc); [|discriminate]. inversion H; subst.
  apply PositiveMap.elements_correct in F. unfold instrs.
  change i with (snd (key pc, i)). apply in_map. exact F.
Qed.

Lemma is_start_find : forall cb pc, is_start cb pc = true -> exists i, find_instr cb pc = Some i.
Proof.
  intros cb pc H. unfold is_start in H. destruct (find_instr cb pc) as [i|]; [eauto|discriminate].
Qed.

(* ---------------------------------------------------------------- the checker is sound *)

Definition invariant (cb : codeblock) (A : annot) (pc : N) (d : depth) : Prop :=
  In d (aget A pc) /\ is_start cb pc = true.

Lemma check_succ_inv : forall cb A s, check_succ cb A s = true -> invariant cb A (fst s) (snd s).
Proof.
  intros cb A s H. unfold check_succ in H. apply andb_true_iff in H. destruct H as [H1 H2].
  split; [apply memD_In; exact H1 | exact H2].
Qed.

Lemma check_state_at : forall cb A pc d,
  check cb A = true -> invariant cb A pc d -> check_state cb A pc d = true /\ functional (aget A pc) = true.
Proof.
  intros cb A pc d Hc [Hin Hst].
  unfold check in Hc. apply andb_true_iff in Hc. destruct Hc as [_ Hall].
  rewrite forallb_forall in Hall.
  destruct (is_start_find _ _ Hst) as [i Hi].
  pose proof (find_instr_In _ _ _ Hi) as HinI. pose proof (find_instr_pc _ _ _ Hi) as Hpc.
  specialize (Hall i HinI). unfold check_instr in Hall. rewrite Hpc in Hall.
  apply andb_true_iff in Hall. destruct Hall as [H1 H2].
  rewrite forallb_forall in H1. split; [apply H1; exact Hin | exact H2].
Qed.

Lemma check_sound : forall cb A, check cb A = true ->
  forall pc d, reach cb pc d -> invariant cb A pc d.
Proof.
  intros cb A Hc pc d Hr. induction Hr as [|pc d l pc' d' Hr IH Hs Hin].
  - unfold check in Hc. apply andb_true_iff in Hc. destruct Hc as [H0 _].
    apply check_succ_inv in H0. exact H0.
  - destruct (check_state_at _ _ _ _ Hc IH) as [Hst _].
    unfold check_state in Hst. rewrite Hs in Hst. rewrite forallb_forall in Hst.
    specialize (Hst (pc', d') Hin). apply check_succ_inv in Hst. exact Hst.
Qed.

Lemma check_not_stuck : forall cb A, check cb A = true ->
  forall pc d, reach cb pc d -> asteps cb pc d <> None.
Proof.
  intros cb A Hc pc d Hr. pose proof (check_sound _ _ Hc _ _ Hr) as Hinv.
  destruct (check_state_at _ _ _ _ Hc Hinv) as [Hst _]. unfold check_state in Hst.
  destruct (asteps cb pc d); [discriminate | discriminate Hst].
Qed.

Lemma verify_check : forall cb, verify cb = true -> check cb (infer cb) = true.
Proof. intros cb H. unfold verify in H. apply andb_true_iff in H. tauto. Qed.

Lemma verify_wf : forall cb, verify cb = true -> wf_block cb = true.
Proof. intros cb H. unfold verify in H. apply andb_true_iff in H. tauto. Qed.

Lemma verify_sound_lemma : forall cb, verify cb = true ->
  forall pc d, reach cb pc d ->
    In d (aget (infer cb) pc) /\ (exists i, find_instr cb pc = Some i) /\ asteps cb pc d <> None.
Proof.
  intros cb Hv pc d Hr. pose proof (verify_check _ Hv) as Hc.
  destruct (check_sound _ _ Hc _ _ Hr) as [Hin Hst].
  split; [exact Hin|]. split; [apply is_start_find; exact Hst|]. eapply check_not_stuck; eauto.
Qed.

Lemma verify_merge_lemma : forall cb, verify cb = true ->
  forall pc d1 d2, reach cb pc d1 -> reach cb pc d2 -> d_sel d1 = d_sel d2 -> d1 = d2.
Proof.
  intros cb Hv pc d1 d2 H1 H2 Hs. pose proof (verify_check _ Hv) as Hc.
  pose proof (check_sound _ _ Hc _ _ H1) as I1. pose proof (check_sound _ _ Hc _ _ H2) as I2.
  destruct (check_state_at _ _ _ _ Hc I1) as [_ Hf].
  destruct I1 as [A1 _]. destruct I2 as [A2 _]. eapply functional_spec; eauto.
Qed.

(* ---------------------------------------------------------------- what "not stuck" gives *)

Lemma asteps_inv : forall cb pc d, asteps cb pc d <> None ->
  exists i e l1 l2, find_instr cb pc = Some i /\ operands_ok cb i = true /\ effect (i_op i) (i_args i) = Some e /\
    norm_succs cb i e d = Some l1 /\ exc_succs cb i e d = Some l2.
Proof.
  intros cb pc d H. unfold asteps in H.
  destruct (find_instr cb pc) as [i|] eqn:Fi; [|congruence].
  destruct (operands_ok cb i) eqn:Ok; simpl in H; [|congruence].
  destruct (effect (i_op i) (i_args i)) as [e|] eqn:Ef; [|congruence].
  destruct (norm_succs cb i e d) as [l1|] eqn:Ns; [|congruence].
  destruct (exc_succs cb i e d) as [l2|] eqn:Es; [|congruence].
  exists i, e, l1, l2. auto.
Qed.

Lemma norm_succs_inv : forall cb i e d l, norm_succs cb i e d = Some l -> e_flow e <> FStop ->
  e_pop e <= d_stk d /\ (e_env e = EPop -> d_env d <> 0) /\ (e_bind e = BPop -> d_bind d <> []).
Proof.
  intros cb i e d l H Hf. unfold norm_succs in H.
  destruct (normal_depth cb i e d) as [d'|] eqn:Nd.
  2:{ destruct (e_flow e); congruence. }
  unfold normal_depth in Nd.
  destruct (d_stk d <? e_pop e) eqn:Lt; [discriminate|]. apply N.ltb_ge in Lt.
  split; [exact Lt|]. split.
  - intros He Hz. rewrite He in Nd. simpl in Nd. rewrite Hz in Nd. simpl in Nd. discriminate.
  - intros Hb Hn. rewrite Hb, Hn in Nd. simpl in Nd. destruct (env_step (e_env e) (d_env d)); discriminate.
Qed.

Lemma forallb_ltb : forall (l : list N) m r, forallb (fun n => n <? m) l = true -> In r l -> r < m.
Proof.
  intros l m r H Hin. rewrite forallb_forall in H. specialize (H r Hin). apply N.ltb_lt. exact H.
Qed.

Lemma operand_ok_regs : forall cb ro a r, operand_ok cb ro a = true -> In r (regs_of_operand ro a) -> r < cb_regs cb.
Proof.
  intros cb ro a r H Hin.
  destruct ro; destruct a; simpl in *; try contradiction;
    try (destruct Hin as [Hin|[]]; subst; apply N.ltb_lt; exact H);
    try (eapply forallb_ltb; eauto).
Qed.

Lemma operands_ok_aux_regs : forall cb rs args r,
  operands_ok_aux cb rs args = true -> In r (regs_of_aux rs args) -> r < cb_regs cb.
Proof.
  intros cb rs. induction rs as [|ro rs IH]; intros args r H Hin; destruct args as [|a args]; simpl in *; try contradiction; try discriminate.
  apply andb_true_iff in H. destruct H as [H1 H2]. apply in_app_or in Hin. destruct Hin as [Hin|Hin].
  - eapply operand_ok_regs; eauto.
  - eapply IH; eauto.
Qed.

Lemma operands_ok_regs : forall cb i r, operands_ok cb i = true -> In r (regs_of i) -> r < cb_regs cb.
Proof.
  intros cb i r H Hin. unfold operands_ok in H.
  apply andb_true_iff in H. destruct H as [H H4]. apply andb_true_iff in H. destruct H as [H H3].
  unfold regs_of in Hin. apply in_app_or in Hin. destruct Hin as [Hin|Hin].
  - eapply forallb_ltb; eauto.
  - eapply operands_ok_aux_regs; eauto.
Qed.

Lemma wf_operands : forall cb pc i, wf_block cb = true -> find_instr cb pc = Some i -> operands_ok cb i = true.
Proof.
  intros cb pc i H Hi. unfold wf_block in H.
  apply andb_true_iff in H. destruct H as [H _]. apply andb_true_iff in H. destruct H as [H _].
  apply andb_true_iff in H. destruct H as [H _]. rewrite forallb_forall in H. apply H. eapply find_instr_In; eauto.
Qed.

(* ---------------------------------------------------------------- binding references *)

Lemma e_bind_base : forall o, e_bind (base o) = BNone.
Proof. intros o. unfold base. destruct (opcode_ret o); reflexivity. Qed.

Definition is_binder (o : opcode) : bool :=
  match o with Op_GetLocator | Op_GetNameAndLocator => true | _ => false end.

Lemma effect_bind_push : forall o args e, effect o args = Some e -> e_bind e = BPush -> is_binder o = true.
Proof.
  intros o args e H Hb.
  destruct (is_binder o) eqn:B; [reflexivity|exfalso].
  destruct o; try discriminate B;
    unfold effect, cond_jump, call_n in H;
    repeat match type of H with
           | context [match ?x with _ => _ end] => destruct x; try discriminate H
           end;
    inversion H; subst; simpl in Hb; rewrite ?e_bind_base in Hb; discriminate Hb.
Qed.

Definition binder_at (cb : codeblock) (p : N) : Prop :=
  exists j, find_instr cb p = Some j /\ is_binder (i_op j) = true.

Lemma In_tl : forall (A : Type) (x : A) l, In x (tl l) -> In x l.
Proof. intros A x [|y l] H; simpl in *; auto. Qed.

Lemma bind_origin : forall cb pc d, reach cb pc d -> forall p, In p (d_bind d) -> binder_at cb p.
Proof.
  intros cb pc d Hr. induction Hr as [|pc d l pc' d' Hr IH Hs Hin]; intros p Hp.
  - simpl in Hp. contradiction.
  - assert (Hn : asteps cb pc d <> None) by congruence.
    destruct (asteps_inv _ _ _ Hn) as [i [e [l1 [l2 [Fi [Ok [Ef [Ns Es]]]]]]]].
    unfold asteps in Hs. rewrite Fi, Ok, Ef, Ns, Es in Hs. simpl in Hs. inversion Hs; subst l. clear Hs.
    apply in_app_or in Hin. destruct Hin as [Hin|Hin].
    + (* normal successor *)
      unfold norm_succs in Ns.
      destruct (normal_depth cb i e d) as [dn|] eqn:Nd.
      2:{ destruct (e_flow e); try discriminate Ns. inversion Ns; subst. contradiction. }
      assert (Hl1 : l1 = map (fun pc0 => (pc0, dn)) (flow_targets i (e_flow e) (d_sel d))).
      { destruct (e_flow e); simpl in Ns |- *; congruence. }
      subst l1.
      apply in_map_iff in Hin. destruct Hin as [x [Hx _]]. inversion Hx. subst d'. clear Hx. unfold normal_depth in Nd.
      destruct (d_stk d <? e_pop e); [discriminate|].
      destruct (env_step (e_env e) (d_env d)); [|discriminate].
      destruct (bind_step (i_pc i) (e_bind e) (d_bind d)) as [bl|] eqn:Bs; [|discriminate].
      inversion Nd; subst dn. simpl in Hp. clear Nd.
      unfold bind_step in Bs. destruct (e_bind e) eqn:Eb.
      * inversion Bs; subst. auto.
      * inversion Bs; subst. destruct Hp as [Hp|Hp]; [|auto].
        subst p. exists i. split.
        -- rewrite (find_instr_pc _ _ _ Fi). exact Fi.
        -- eapply effect_bind_push; eauto.
      * destruct (d_bind d) as [|y0 r0] eqn:Db; [discriminate|]. inversion Bs; subst. apply IH. right. exact Hp.
    + (* exception successor *)
      assert (Hsub : forall a lx, exc_one cb i e d a = Some lx -> In (pc', d') lx -> In p (d_bind d)).
      { intros a lx Hx Hinx. unfold exc_one in Hx.
        destruct (find_handler (cb_handlers cb) a) as [h|]; [|inversion Hx; subst; contradiction].
        destruct (h_env h <=? d_env d); [|discriminate]. inversion Hx; subst. destruct Hinx as [Hinx|[]].
        inversion Hinx; subst. simpl in Hp. unfold exc_bind in Hp.
        destruct HANDLER_TRUNCATES_BINDINGS; [contradiction|].
        destruct (e_bind e); auto. apply In_tl. exact Hp. }
      unfold exc_succs in Es. destruct (negb (e_throw e)); [inversion Es; subst; contradiction|].
      destruct (exc_one cb i e d (i_next i - 1)) as [x1|] eqn:X1; [|discriminate].
      destruct (e_calllike e).
      * destruct (exc_one cb i e d (i_next i)) as [x2|] eqn:X2; [|discriminate].
        injection Es as Es. subst l2.
        apply in_app_or in Hin. destruct Hin as [Hin|Hin]; apply IH.
        -- exact (Hsub _ _ X1 Hin).
        -- exact (Hsub _ _ X2 Hin).
      * injection Es as Es. subst l2. apply IH. exact (Hsub _ _ X1 Hin).
Qed.

(* ---------------------------------------------------------------- table sanity (regenerated table) *)

Lemma roles_complete_all : forall o, roles_complete o = true.
Proof. destruct o; vm_compute; reflexivity. Qed.

Lemma effect_consistent_all : forall o, effect_consistent o = true.
Proof. destruct o; vm_compute; reflexivity. Qed.

(* ---------------------------------------------------------------- corollaries *)

Lemma no_register_oob_lemma : forall cb, verify cb = true ->
  forall pc i r, find_instr cb pc = Some i -> In r (regs_of i) -> r < cb_regs cb.
Proof.
  intros cb Hv pc i r Hi Hr. eapply operands_ok_regs; eauto. eapply wf_operands; eauto. apply verify_wf; exact Hv.
Qed.

Lemma e_calllike_base : forall o, e_calllike (base o) = false.
Proof. intros o. unfold base. destruct (opcode_ret o); reflexivity. Qed.

Lemma calllike_throws : forall o args e, effect o args = Some e -> e_calllike e = true -> e_throw e = true.
Proof.
  intros o args e H Hc.
  destruct o;
    unfold effect, cond_jump, call_n in H;
    repeat match type of H with
           | context [match ?x with _ => _ end] => destruct x; try discriminate H
           end;
    inversion H; subst; simpl in Hc |- *; rewrite ?e_calllike_base in Hc; try discriminate Hc; reflexivity.
Qed.

Lemma step_safe_lemma : forall cb, verify cb = true ->
  forall pc d, reach cb pc d ->
  exists i e, find_instr cb pc = Some i /\ operands_ok cb i = true /\ effect (i_op i) (i_args i) = Some e /\
    (e_flow e <> FStop ->
       e_pop e <= d_stk d /\ (e_env e = EPop -> d_env d <> 0) /\ (e_bind e = BPop -> d_bind d <> [])) /\
    (e_throw e = true -> forall h, find_handler (cb_handlers cb) (i_next i - 1) = Some h -> h_env h <= d_env d) /\
    (e_calllike e = true -> forall h, find_handler (cb_handlers cb) (i_next i) = Some h -> h_env h <= d_env d).
Proof.
  intros cb Hv pc d Hr.
  destruct (verify_sound_lemma _ Hv _ _ Hr) as [_ [_ Hn]].
  destruct (asteps_inv _ _ _ Hn) as [i [e [l1 [l2 [Fi [Ok [Ef [Ns Es]]]]]]]].
  exists i, e. split; [exact Fi|]. split; [exact Ok|]. split; [exact Ef|]. split; [|split].
  - intros Hf. exact (norm_succs_inv _ _ _ _ _ Ns Hf).
  - intros Ht h Hh. unfold exc_succs in Es. rewrite Ht in Es. simpl in Es.
    destruct (exc_one cb i e d (i_next i - 1)) as [x1|] eqn:X1; [|discriminate].
    unfold exc_one in X1. rewrite Hh in X1. destruct (h_env h <=? d_env d) eqn:Le; [|discriminate].
    apply N.leb_le. exact Le.
  - intros Hc h Hh. unfold exc_succs in Es.
    destruct (negb (e_throw e)) eqn:Nt.
    + (* call-like effects always throw: e_throw = false and e_calllike = true never occur together in a non-stuck step;
         then exc_succs ignores the call edge, so nothing is claimed: rule it out through the table *)
      exfalso. rewrite (calllike_throws _ _ _ Ef Hc) in Nt. discriminate.
    + destruct (exc_one cb i e d (i_next i - 1)) as [x1|]; [|discriminate].
      rewrite Hc in Es. destruct (exc_one cb i e d (i_next i)) as [x2|] eqn:X2; [|discriminate].
      unfold exc_one in X2. rewrite Hh in X2. destruct (h_env h <=? d_env d) eqn:Le; [|discriminate].
      apply N.leb_le. exact Le.
Qed.

Lemma effect_PopEnvironment : forall args e, effect Op_PopEnvironment args = Some e -> e_env e = EPop /\ e_flow e <> FStop.
Proof.
  intros args e H. simpl in H. inversion H; subst. split; [reflexivity|]. vm_compute. discriminate.
Qed.

Lemma effect_SetNameByLocator : forall args e, effect Op_SetNameByLocator args = Some e -> e_bind e = BPop /\ e_flow e <> FStop.
Proof.
  intros args e H. simpl in H. inversion H; subst. split; [reflexivity|]. vm_compute. discriminate.
Qed.

Lemma no_env_underflow_lemma : forall cb, verify cb = true ->
  forall pc d i, reach cb pc d -> find_instr cb pc = Some i -> i_op i = Op_PopEnvironment -> 0 < d_env d.
Proof.
  intros cb Hv pc d i Hr Hi Hop.
  destruct (step_safe_lemma _ Hv _ _ Hr) as [i' [e [Fi [_ [Ef [Hsafe _]]]]]].
  rewrite Hi in Fi. inversion Fi; subst i'. rewrite Hop in Ef.
  destruct (effect_PopEnvironment _ _ Ef) as [He Hf].
  destruct (Hsafe Hf) as [_ [A _]]. specialize (A He). lia.
Qed.

Lemma locator_matches_assignment_lemma : forall cb, verify cb = true ->
  forall pc d i, reach cb pc d -> find_instr cb pc = Some i -> i_op i = Op_SetNameByLocator ->
  exists p rest j, d_bind d = p :: rest /\ find_instr cb p = Some j /\
    (i_op j = Op_GetLocator \/ i_op j = Op_GetNameAndLocator) /\
    (forall d2, reach cb pc d2 -> d_sel d2 = d_sel d -> d_bind d2 = d_bind d).
Proof.
  intros cb Hv pc d i Hr Hi Hop.
  destruct (step_safe_lemma _ Hv _ _ Hr) as [i' [e [Fi [_ [Ef [Hsafe _]]]]]].
  rewrite Hi in Fi. inversion Fi; subst i'. rewrite Hop in Ef.
  destruct (effect_SetNameByLocator _ _ Ef) as [Hb Hf].
  destruct (Hsafe Hf) as [_ [_ A]]. specialize (A Hb).
  destruct (d_bind d) as [|p rest] eqn:Db; [congruence|].
  assert (Hbin : binder_at cb p). { eapply bind_origin; eauto. rewrite Db. left. reflexivity. }
  destruct Hbin as [j [Fj Bj]].
  exists p, rest, j. split; [reflexivity|]. split; [exact Fj|]. split.
  - destruct (i_op j); try discriminate Bj; auto.
  - intros d2 Hr2 Hs. rewrite <- Db. f_equal. eapply verify_merge_lemma; eauto.
Qed.
