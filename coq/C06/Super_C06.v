(* C06, `super.k = v` / `super.k` sites (SetPropertyByNameWithThis / GetPropertyByNameWithThis): the cache is keyed by the shape of
   the super object while the receiver is `this`.  Witnesses that the cached data-write paths ignore the receiver, that the repair
   (fixes.d/C06-super-set-receiver.patch, [sr = true]) removes them, and the reduction of the receiver = object case to the
   plain set site, for which transparency is proved. *)
From Coq Require Import NArith Bool List Lia.
From Gen Require Import SlotFlags.
From C06 Require Import Model_C06 Proofs_C06 ProofsB_C06 ProofsC_C06 Deep_C06.
Import ListNotations.
Local Open Scope N_scope.

(* A = {x:1}; m(v){ super.x = v } with super = A; m.call(A, 5); m.call(A, 6); m.call(r, 7): the third call writes into A *)
Definition w_super : list xop :=
  [XOp (OpAlloc false None); XOp (OpDefine 2 0 (dd (VNum 1) true true true)); XOp (OpAlloc false None);
   XSetThis 10 0 2 2 (VNum 5); XSetThis 10 0 2 2 (VNum 6); XSetThis 10 0 2 3 (VNum 7); XOp (OpDump 2); XOp (OpDump 3)].
(* the same through the prototype of the super object: this = grandparent while warming, then another receiver *)
Definition w_super_proto : list xop :=
  [XOp (OpAlloc false None); XOp (OpDefine 2 0 (dd (VNum 1) true true true)); XOp (OpAlloc false (Some 2)); XOp (OpAlloc false None);
   XSetThis 10 0 3 2 (VNum 5); XSetThis 10 0 3 2 (VNum 6); XSetThis 10 0 3 4 (VNum 7); XOp (OpDump 2); XOp (OpDump 3); XOp (OpDump 4)].

Definition xrefuted (sr : bool) (ops : list xop) : Prop :=
  observable (xrun sr RFull true [] init ops) <> observable (xrun sr RFull false [] init ops).
Definition xtransparent (sr : bool) (ops : list xop) : Prop :=
  observable (xrun sr RFull true [] init ops) = observable (xrun sr RFull false [] init ops) /\
  first_this_data (xrun sr RFull true [] init ops) 0 = None.

Lemma super_set_receiver_refuted_lemma :
  (xrefuted false w_super /\ first_this_data (xrun false RFull true [] init w_super) 0 = Some 5) /\
  (xrefuted false w_super_proto /\ first_this_data (xrun false RFull true [] init w_super_proto) 0 = Some 4).
Proof. repeat split; try (vm_compute; reflexivity); unfold xrefuted; vm_compute; intro H; discriminate H. Qed.

Lemma super_set_receiver_fixed_lemma : xtransparent true w_super /\ xtransparent true w_super_proto.
Proof. repeat split; vm_compute; reflexivity. Qed.

(* receiver = keyed object (`super.x = v` run with this = the super object, or an ordinary `o.x = v`): both variants of the
   WithThis path are the plain set site, for which ic_transparent_* are proved *)
Lemma cached_set_this_plain_lemma : forall sr rc ic ft st n k o v,
  cached_set_this sr rc ic ft st (SSet, n, k) o o v = cached_set rc ic ft st (SSet, n, k) o v.
Proof.
  intros sr rc ic ft st n k o v. unfold cached_set_this, cached_set.
  destruct (get_obj (st_heap st) o) as [x|]; [|reflexivity].
  destruct (if ic then ic_get (site_get (st_sites st) (SSet, n, k)) (st_heap st) k (o_shape x)
            else (None, site_get (st_sites st) (SSet, n, k), [])) as [[hit0 c] ev].
  cbv zeta. rewrite N.eqb_refl.
  destruct hit0 as [sl|].
  - rewrite orb_true_r. simpl negb. rewrite andb_false_r.
    destruct (sf_is_accessor_descriptor (s_attrs sl)); [reflexivity|].
    destruct (has_flag (s_attrs sl) sf_PROTOTYPE).
    + destruct (shape_proto (st_heap st) (o_shape x)) as [p|]; [|reflexivity]. simpl.
      destruct (get_obj (st_heap st) p) as [px|]; [|reflexivity]. simpl.
      destruct (set_nth (o_store px) (s_index sl) v); reflexivity.
    + destruct (set_nth (o_store x) (s_index sl) v); reflexivity.
  - destruct (ordinary_set (chain_fuel (st_heap st)) (st_heap st) o k v o slot_new) as [[[[tr h'] ok] sl]|]; [|reflexivity].
    simpl. destruct (apply_calls ft h' tr) as [h1|]; [|reflexivity]. simpl.
    destruct (get_obj h1 o) as [x'|]; [|reflexivity]. simpl.
    rewrite !orb_true_r. simpl negb. rewrite !andb_true_r, !andb_false_r.
    destruct (if ic && ok && sf_is_cacheable (s_attrs sl) then ic_set rc SSet c h1 k (o_shape x') sl else (c, [], false))
      as [[c' ev'] bad].
    rewrite !app_nil_r. reflexivity.
Qed.
