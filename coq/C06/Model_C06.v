(* C06 -- inline caches are semantically transparent: executable model (definitions only).

   Transliterated from
     core/engine/src/object/shape/{slot,property_table,unique_shape,mod}.rs, shared_shape/mod.rs
     core/engine/src/object/property_map.rs      (get_with_slot / get_storage / insert_with_slot / remove)
     core/engine/src/object/internal_methods/mod.rs (ordinary_get / try_get / set / define / delete, validate_and_apply)
     core/engine/src/vm/inline_cache/mod.rs      (InlineCache::get / set)
     core/engine/src/vm/opcode/get/property.rs, set/property.rs, get/name.rs (cached get_by_name / set_by_name / GetNameGlobal)
   Flag constants and bit tricks come from Gen/SlotFlags.v (regenerated from slot.rs on every run).

   Representation choices (stated in design.d/C06.md):
   * a *shared* shape is identified by its path of transitions from the realm's root shape (newest first):
     forward transitions are memoised by (parent, transition), so with no collection in between the path *is*
     the identity; the Rc-shared property table (append-only, fork on conflict) is abstracted to the table
     each shape sees (its first property_count keys);
   * a *unique* shape is an index into a store of mutable (prototype, table) pairs; a superseded unique
     shape is left as it was (the Rust empties it; no live object can observe that);
   * descriptor attribute bits kept in tables are a record of five booleans ([dattrs]); the u8 seen by the
     inline-cache code is [bits_of] of it, built from the generated constants;
   * getters/setters are opaque functions [VFun f]: calling one emits [OCall f arg] and (as a getter) returns
     1000+f; they do not mutate the heap (re-entrancy happens after the cache logic has finished and is
     equivalent to a later operation of the history);
   * [None] in the option monad = Rust panic (index out of bounds, expect/unreachable). *)
From Coq Require Import NArith Bool List.
From Gen Require Import SlotFlags.
Import ListNotations.
Local Open Scope N_scope.

Definition key := N.
Definition objid := N.
Definition uid := N.
Definition fid := N.

Notation "x <- e ;; f" := (match e with Some x => f | None => None end)
  (at level 61, e at next level, right associativity).
Notation "' p <- e ;; f" := (match e with Some p => f | None => None end)
  (at level 61, p pattern, e at next level, right associativity).

(* ------------------------------------------------------------------------------------------- values *)
Inductive val := VUndef | VNum (n : N) | VFun (f : fid).
Definition is_object (v : val) : bool := match v with VFun _ => true | _ => false end.
Definition val_eqb (a b : val) : bool :=
  match a, b with
  | VUndef, VUndef => true
  | VNum x, VNum y => N.eqb x y
  | VFun x, VFun y => N.eqb x y
  | _, _ => false
  end.
Definition opt_eqb {A} (eqb : A -> A -> bool) (a b : option A) : bool :=
  match a, b with Some x, Some y => eqb x y | None, None => true | _, _ => false end.

(* ------------------------------------------------------------------------------------------- lists with N indices *)
Definition nthN {A} (l : list A) (i : N) : option A := nth_error l (N.to_nat i).
Definition lenN {A} (l : list A) : N := N.of_nat (length l).
Fixpoint set_nth_nat {A} (l : list A) (i : nat) (v : A) : option (list A) :=
  match l, i with
  | [], _ => None
  | _ :: t, O => Some (v :: t)
  | h :: t, S j => t' <- set_nth_nat t j v ;; Some (h :: t')
  end.
Definition set_nth {A} (l : list A) (i : N) (v : A) : option (list A) := set_nth_nat l (N.to_nat i) v.
(* Vec::remove(i): panics if i >= len *)
Fixpoint remove_nth_nat {A} (l : list A) (i : nat) : option (list A) :=
  match l, i with
  | [], _ => None
  | _ :: t, O => Some t
  | h :: t, S j => t' <- remove_nth_nat t j ;; Some (h :: t')
  end.
Definition remove_nth {A} (l : list A) (i : N) : option (list A) := remove_nth_nat l (N.to_nat i).
(* Vec::insert(i, v): panics if i > len *)
Fixpoint insert_nth_nat {A} (l : list A) (i : nat) (v : A) : option (list A) :=
  match i, l with
  | O, _ => Some (v :: l)
  | S _, [] => None
  | S j, h :: t => t' <- insert_nth_nat t j v ;; Some (h :: t')
  end.
Definition insert_nth {A} (l : list A) (i : N) (v : A) : option (list A) := insert_nth_nat l (N.to_nat i) v.

(* ------------------------------------------------------------------------------------------- slot attributes *)
Record dattrs := { a_w : bool; a_e : bool; a_c : bool; a_g : bool; a_s : bool }.
Definition flag (b : bool) (f : N) : N := if b then f else 0.
(* SlotAttributes::set(FLAG, b) on empty(), as in PropertyDescriptor::to_slot_attributes *)
Definition bits_of (a : dattrs) : N :=
  N.lor (flag (a_c a) sf_CONFIGURABLE) (N.lor (flag (a_e a) sf_ENUMERABLE)
   (N.lor (flag (a_w a) sf_WRITABLE) (N.lor (flag (a_g a) sf_GET) (flag (a_s a) sf_SET)))).
Definition dattrs_eqb (a b : dattrs) : bool := N.eqb (bits_of a) (bits_of b).   (* slot.attributes != attributes *)
Definition a_is_accessor (a : dattrs) : bool := sf_is_accessor_descriptor (bits_of a).
Definition a_width_match (a b : dattrs) : bool := sf_width_match (bits_of a) (bits_of b).

(* Slot as stored in property tables: (index, descriptor attributes) *)
Definition tslot := (N * dattrs)%type.
(* Slot as threaded through the internal methods and kept in cache entries: index + u8 bits incl. cache bits *)
Record slot := { s_index : N; s_attrs : N }.
Definition slot_new : slot := {| s_index := 0; s_attrs := 0 |}.                  (* Slot::new() *)
Definition has_flag (a f : N) : bool := N.eqb (N.land a f) f.                    (* contains(F) *)
Definition slot_or (s : slot) (f : N) : slot := {| s_index := s_index s; s_attrs := N.lor (s_attrs s) f |}.

(* Slot::from_previous *)
Definition from_previous (prev : option tslot) (a : dattrs) : tslot :=
  match prev with
  | None => (0, a)
  | Some (i, pa) => (sf_next_index i (bits_of pa), a)
  end.

(* ------------------------------------------------------------------------------------------- property tables *)
Definition table := list (key * tslot).
Fixpoint lookup_tab (t : table) (k : key) : option tslot :=
  match t with
  | [] => None
  | (k', s) :: r => if N.eqb k' k then Some s else lookup_tab r k
  end.
Definition last_slot (t : table) : option tslot :=
  match rev t with [] => None | (_, s) :: _ => Some s end.
(* PropertyTableInner::insert *)
Definition table_insert (t : table) (k : key) (a : dattrs) : table := t ++ [(k, from_previous (last_slot t) a)].
(* set_attributes_at_index / in-place attribute change: index unchanged *)
Fixpoint table_set_attrs (t : table) (k : key) (a : dattrs) : table :=
  match t with
  | [] => []
  | (k', (i, a')) :: r => if N.eqb k' k then (k', (i, a)) :: r else (k', (i, a')) :: table_set_attrs r k a
  end.
(* renumber the entries of [t] after a slot [prev] (the loops of unique_shape.rs) *)
Fixpoint renumber (prev : option tslot) (t : table) : table :=
  match t with
  | [] => []
  | (k, (_, a)) :: r => let s := from_previous prev a in (k, s) :: renumber (Some s) r
  end.
(* UniqueShape::change_attributes_transition, width-changing arm: the target keeps its index and takes the new
   attributes, every later slot is recomputed from its predecessor *)
Fixpoint table_change_width (t : table) (k : key) (a : dattrs) : table :=
  match t with
  | [] => []
  | (k', (i, a')) :: r => if N.eqb k' k then (k', (i, a)) :: renumber (Some (i, a)) r
                          else (k', (i, a')) :: table_change_width r k a
  end.
(* UniqueShape::remove_property_transition: drop the key, recompute every later slot from the one before it *)
Fixpoint table_remove_from (prev : option tslot) (t : table) (k : key) : table :=
  match t with
  | [] => []
  | (k', s) :: r => if N.eqb k' k then renumber prev r else (k', s) :: table_remove_from (Some s) r k
  end.
Definition table_remove (t : table) (k : key) : table := table_remove_from None t k.

(* ------------------------------------------------------------------------------------------- shapes *)
Inductive trans :=
| TIns (k : key) (a : dattrs)       (* INSERT_PROPERTY_TRANSITION_TYPE *)
| TCfg (k : key) (a : dattrs)       (* CONFIGURE_PROPERTY_TRANSITION_TYPE (same width) *)
| TProto (p : option objid).        (* PROTOTYPE_TRANSITION_TYPE *)
Definition path := list trans.       (* newest transition first; [] is the root shape *)

Inductive shape := ShShared (p : path) | ShUnique (u : uid).

Definition trans_eqb (a b : trans) : bool :=
  match a, b with
  | TIns k x, TIns k' y => N.eqb k k' && dattrs_eqb x y
  | TCfg k x, TCfg k' y => N.eqb k k' && dattrs_eqb x y
  | TProto p, TProto q => opt_eqb N.eqb p q
  | _, _ => false
  end.
Fixpoint path_eqb (a b : path) : bool :=
  match a, b with
  | [], [] => true
  | x :: r, y :: s => trans_eqb x y && path_eqb r s
  | _, _ => false
  end.
(* shape.to_addr_usize() == other.to_addr_usize() *)
Definition shape_eqb (a b : shape) : bool :=
  match a, b with
  | ShShared p, ShShared q => path_eqb p q
  | ShUnique u, ShUnique v => N.eqb u v
  | _, _ => false
  end.

Fixpoint table_of_path (p : path) : table :=
  match p with
  | [] => []
  | TIns k a :: r => table_insert (table_of_path r) k a
  | TCfg k a :: r => table_set_attrs (table_of_path r) k a
  | TProto _ :: r => table_of_path r
  end.
Fixpoint proto_of_path (p : path) : option objid :=
  match p with
  | [] => None
  | TProto q :: _ => q
  | _ :: r => proto_of_path r
  end.

Record ushape := { u_proto : option objid; u_tab : table }.
Record obj := { o_shape : shape; o_store : list val; o_ext : bool }.
Record heap := { h_objs : list obj; h_ushapes : list ushape }.

Definition shape_tab (h : heap) (s : shape) : table :=
  match s with
  | ShShared p => table_of_path p
  | ShUnique u => match nthN (h_ushapes h) u with Some us => u_tab us | None => [] end
  end.
Definition shape_proto (h : heap) (s : shape) : option objid :=
  match s with
  | ShShared p => proto_of_path p
  | ShUnique u => match nthN (h_ushapes h) u with Some us => u_proto us | None => None end
  end.
Definition lookup_shape (h : heap) (s : shape) (k : key) : option tslot := lookup_tab (shape_tab h s) k.

Definition get_obj (h : heap) (o : objid) : option obj := nthN (h_objs h) o.
Definition set_obj (h : heap) (o : objid) (x : obj) : heap :=
  match set_nth (h_objs h) o x with
  | Some l => {| h_objs := l; h_ushapes := h_ushapes h |}
  | None => h
  end.
Definition new_ushape (h : heap) (us : ushape) : heap * uid :=
  ({| h_objs := h_objs h; h_ushapes := h_ushapes h ++ [us] |}, lenN (h_ushapes h)).
Definition set_ushape (h : heap) (u : uid) (us : ushape) : heap :=
  match set_nth (h_ushapes h) u us with
  | Some l => {| h_objs := h_objs h; h_ushapes := l |}
  | None => h
  end.

(* Shape::*_transition: `if shape.transition_count() >= TRANSITION_COUNT_MAX { shape.to_unique() }` *)
Definition finish_shared (h : heap) (p : path) : heap * shape :=
  if N.leb sf_TRANSITION_COUNT_MAX (lenN p)
  then let (h', u) := new_ushape h {| u_proto := proto_of_path p; u_tab := table_of_path p |} in (h', ShUnique u)
  else (h, ShShared p).

(* SharedShape::rollback_before.  [trs]: IndexMap in first-insertion order (newest property first). *)
Fixpoint assoc_mem {A} (l : list (key * A)) (k : key) : bool :=
  match l with [] => false | (k', _) :: r => N.eqb k' k || assoc_mem r k end.
Definition last_entry (t : table) : option (key * tslot) :=
  match rev t with [] => None | e :: _ => Some e end.
Fixpoint rollback_before (p : path) (k : key) (proto : option (option objid)) (trs : list (key * dattrs))
  : option (path * option (option objid) * list (key * dattrs)) :=
  match p with
  | [] => None                                                   (* unreachable!("The chain should have insert transition type!") *)
  | TProto q :: r =>
      rollback_before r k (match proto with None => Some q | Some _ => proto end) trs
  | t :: r =>
      '(ck, (_, ca)) <- last_entry (table_of_path p) ;;         (* current_shape.property(): keys[property_count-1] *)
      let is_insert := match t with TIns _ _ => true | _ => false end in
      if is_insert && N.eqb ck k then Some (r, proto, trs)
      else rollback_before r k proto (if N.eqb ck k then trs else if assoc_mem trs ck then trs else trs ++ [(ck, ca)])
  end.
Definition replay (base : path) (proto : option (option objid)) (trs : list (key * dattrs)) : path :=
  let base := match proto with Some q => TProto q :: base | None => base end in
  fold_left (fun b '(k, a) => TIns k a :: b) (rev trs) base.

(* Shape::insert_property_transition *)
Definition shape_insert (h : heap) (s : shape) (k : key) (a : dattrs) : heap * shape :=
  match s with
  | ShShared p => finish_shared h (TIns k a :: p)
  | ShUnique u =>
      match nthN (h_ushapes h) u with
      | Some us => (set_ushape h u {| u_proto := u_proto us; u_tab := table_insert (u_tab us) k a |}, s)
      | None => (h, s)
      end
  end.

Inductive action := ActNothing | ActRemove | ActInsert.

(* Shape::change_attributes_transition; [old] is the slot of [k] in [s] *)
Definition shape_change_attrs (h : heap) (s : shape) (k : key) (a : dattrs) (old : dattrs)
  : option (heap * shape * action) :=
  match s with
  | ShShared p =>
      if a_width_match old a then
        let (h', s') := finish_shared h (TCfg k a :: p) in Some (h', s', ActNothing)
      else
        '(base, proto, trs) <- rollback_before p k None [] ;;
        let base := match proto with Some q => TProto q :: base | None => base end in
        let p' := fold_left (fun b '(k', a') => TIns k' a' :: b) (rev trs) (TIns k a :: base) in
        let (h', s') := finish_shared h p' in
        Some (h', s', if a_is_accessor old then ActRemove else ActInsert)
  | ShUnique u =>
      us <- nthN (h_ushapes h) u ;;
      if a_width_match old a then
        (* the table is handed to a new unique shape: pointers to the old one (inline caches) are invalidated *)
        let (h', u') := new_ushape h {| u_proto := u_proto us; u_tab := table_set_attrs (u_tab us) k a |} in
        Some (h', ShUnique u', ActNothing)
      else
        let (h', u') := new_ushape h {| u_proto := u_proto us; u_tab := table_change_width (u_tab us) k a |} in
        Some (h', ShUnique u', if a_is_accessor a then ActInsert else ActRemove)
  end.

(* Shape::remove_property_transition (the key is present) *)
Definition shape_remove (h : heap) (s : shape) (k : key) : option (heap * shape) :=
  match s with
  | ShShared p =>
      '(base, proto, trs) <- rollback_before p k None [] ;;
      Some (finish_shared h (replay base proto trs))
  | ShUnique u =>
      us <- nthN (h_ushapes h) u ;;
      match lookup_tab (u_tab us) k with
      | None => Some (h, s)
      | Some _ =>
          let (h', u') := new_ushape h {| u_proto := u_proto us; u_tab := table_remove (u_tab us) k |} in
          Some (h', ShUnique u')
      end
  end.

(* Shape::change_prototype_transition *)
Definition shape_set_proto (h : heap) (s : shape) (q : option objid) : heap * shape :=
  match s with
  | ShShared p => finish_shared h (TProto q :: p)
  | ShUnique u =>
      match nthN (h_ushapes h) u with
      | Some us => let (h', u') := new_ushape h {| u_proto := q; u_tab := u_tab us |} in (h', ShUnique u')
      | None => (h, s)
      end
  end.

(* ------------------------------------------------------------------------------------------- descriptors *)
Inductive dkind :=
| KData (value : option val) (writable : option bool)
| KAcc (get set : option val)
| KGeneric.
Record pdesc := { d_kind : dkind; d_enum : option bool; d_conf : option bool }.

Definition is_data (d : pdesc) : bool := match d_kind d with KData _ _ => true | _ => false end.
Definition is_acc (d : pdesc) : bool := match d_kind d with KAcc _ _ => true | _ => false end.
Definition is_generic (d : pdesc) : bool := match d_kind d with KGeneric => true | _ => false end.
Definition is_empty (d : pdesc) : bool :=
  match d_kind d, d_enum d, d_conf d with
  | KGeneric, None, None => true
  | _, _, _ => false
  end.
Definition or_some {A} (o : option A) (d : A) : option A := match o with Some _ => o | None => Some d end.
Definition into_data_defaulted (d : pdesc) : pdesc :=
  {| d_kind := match d_kind d with
               | KData v w => KData (or_some v VUndef) (or_some w false)
               | _ => KData (Some VUndef) (Some false)
               end;
     d_enum := or_some (d_enum d) false; d_conf := or_some (d_conf d) false |}.
Definition into_accessor_defaulted (d : pdesc) : pdesc :=
  {| d_kind := match d_kind d with
               | KAcc g s => KAcc (or_some g VUndef) (or_some s VUndef)
               | _ => KAcc (Some VUndef) (Some VUndef)
               end;
     d_enum := or_some (d_enum d) false; d_conf := or_some (d_conf d) false |}.
Definition over {A} (cur new : option A) : option A := match new with Some _ => new | None => cur end.
(* PropertyDescriptor::fill_with; None = panic!("Tried to fill a descriptor with an incompatible descriptor") *)
Definition fill_with (cur d : pdesc) : option pdesc :=
  k <- match d_kind cur, d_kind d with
       | KData v w, KData v' w' => Some (KData (over v v') (over w w'))
       | KAcc g s, KAcc g' s' => Some (KAcc (over g g') (over s s'))
       | c, KGeneric => Some c
       | _, _ => None
       end ;;
  Some {| d_kind := k; d_enum := over (d_enum cur) (d_enum d); d_conf := over (d_conf cur) (d_conf d) |}.
Definition is_some {A} (o : option A) : bool := match o with Some _ => true | None => false end.
(* PropertyDescriptor::to_slot_attributes; None = expect_* on an absent field *)
Definition to_attrs (d : pdesc) : option dattrs :=
  c <- d_conf d ;; e <- d_enum d ;;
  match d_kind d with
  | KData _ w => w' <- w ;; Some {| a_w := w'; a_e := e; a_c := c; a_g := false; a_s := false |}
  | KAcc g s => Some {| a_w := false; a_e := e; a_c := c; a_g := is_some g; a_s := is_some s |}
  | KGeneric => Some {| a_w := false; a_e := e; a_c := c; a_g := false; a_s := false |}
  end.

(* PropertyMap::get_storage *)
Definition get_storage (st : list val) (ts : tslot) : option pdesc :=
  let '(i, a) := ts in
  if a_is_accessor a then
    g <- (if sf_has_get (bits_of a) then v <- nthN st i ;; Some (Some v) else Some None) ;;
    s <- (if sf_has_set (bits_of a) then v <- nthN st (i + 1) ;; Some (Some v) else Some None) ;;
    Some {| d_kind := KAcc g s; d_enum := Some (a_e a); d_conf := Some (a_c a) |}
  else
    v <- nthN st i ;;
    Some {| d_kind := KData (Some v) (Some (has_flag (bits_of a) sf_WRITABLE)); d_enum := Some (a_e a); d_conf := Some (a_c a) |}.

(* PropertyMap::get_with_slot (named keys) *)
Definition get_with_slot (h : heap) (x : obj) (k : key) (sl : slot) : option (option pdesc * slot) :=
  match lookup_shape h (o_shape x) k with
  | Some (i, a) =>
      d <- get_storage (o_store x) (i, a) ;;
      Some (Some d, {| s_index := i;
                       s_attrs := N.lor (N.lor (N.land (s_attrs sl) sf_INLINE_CACHE_BITS) (bits_of a)) sf_FOUND |})
  | None => Some (None, sl)
  end.

Definition or_undef (o : option val) : val := match o with Some v => v | None => VUndef end.

(* PropertyMap::insert_with_slot (named keys); returns (heap, object, out_slot) *)
Definition insert_with_slot (h : heap) (o : objid) (x : obj) (k : key) (d : pdesc) (sl : slot)
  : option (heap * slot) :=
  a <- to_attrs d ;;
  let out i := {| s_index := i; s_attrs := N.lor (N.land (s_attrs sl) sf_INLINE_CACHE_BITS) (bits_of a) |} in
  match lookup_shape h (o_shape x) k with
  | Some (i, olda) =>
      '(h1, s1, st1) <-
        (if negb (dattrs_eqb olda a) then
           '(h1, s1, act) <- shape_change_attrs h (o_shape x) k a olda ;;
           st1 <- match act with
                  | ActNothing => Some (o_store x)
                  | ActRemove => remove_nth (o_store x) (i + 1)
                  | ActInsert => insert_nth (o_store x) i VUndef
                  end ;;
           Some (h1, s1, st1)
         else Some (h, o_shape x, o_store x)) ;;
      st2 <-
        (if a_is_accessor a then
           stg <- (if sf_has_get (bits_of a)
                   then set_nth st1 i (match d_kind d with KAcc g _ => or_undef g | _ => VUndef end)
                   else Some st1) ;;
           (if sf_has_set (bits_of a)
            then set_nth stg (i + 1) (match d_kind d with KAcc _ s => or_undef s | _ => VUndef end)
            else Some stg)
         else
           v <- match d_kind d with KData v _ => v | _ => None end ;;          (* expect_value *)
           set_nth st1 i v) ;;
      Some (set_obj h1 o {| o_shape := s1; o_store := st2; o_ext := o_ext x |}, out i)
  | None =>
      let (h1, s1) := shape_insert h (o_shape x) k a in
      let st := o_store x in
      let st' := if a_is_accessor a
                 then st ++ [match d_kind d with KAcc g _ => or_undef g | _ => VUndef end;
                             match d_kind d with KAcc _ s => or_undef s | _ => VUndef end]
                 else st ++ [match d_kind d with KData v _ => or_undef v | _ => VUndef end] in
      Some (set_obj h1 o {| o_shape := s1; o_store := st'; o_ext := o_ext x |}, out (lenN st))
  end.

(* PropertyMap::remove (named keys) *)
Definition pm_remove (h : heap) (o : objid) (x : obj) (k : key) : option heap :=
  match lookup_shape h (o_shape x) k with
  | Some (i, a) =>
      st1 <- (if a_is_accessor a then remove_nth (o_store x) (i + 1) else Some (o_store x)) ;;
      st2 <- remove_nth st1 i ;;
      '(h1, s1) <- shape_remove h (o_shape x) k ;;
      Some (set_obj h1 o {| o_shape := s1; o_store := st2; o_ext := o_ext x |})
  | None => Some h
  end.

(* ------------------------------------------------------------------------------------------- ordinary internal methods *)
Definition d_value (d : pdesc) : option val := match d_kind d with KData v _ => v | _ => None end.
Definition d_writable (d : pdesc) : option bool := match d_kind d with KData _ w => w | _ => None end.
Definition d_get (d : pdesc) : option val := match d_kind d with KAcc g _ => g | _ => None end.
Definition d_set (d : pdesc) : option val := match d_kind d with KAcc _ s => s | _ => None end.
Definition ne_opt {A} (eqb : A -> A -> bool) (o : option A) (c : A) : bool :=
  match o with Some v => negb (eqb v c) | None => false end.

(* validate_and_apply_property_descriptor with obj_and_key = Some; returns (heap, slot, result) *)
Definition validate_and_apply (h : heap) (o : objid) (x : obj) (k : key) (ext : bool) (d : pdesc)
  (current : option pdesc) (sl : slot) : option (heap * slot * bool) :=
  match current with
  | None =>
      if negb ext then Some (h, sl, false)
      else
        '(h', sl') <- insert_with_slot h o x k
            (if is_generic d || is_data d then into_data_defaulted d else into_accessor_defaulted d) sl ;;
        Some (h', sl', true)
  | Some cur =>
      cconf <- d_conf cur ;; cenum <- d_enum cur ;;
      let apply (cur : pdesc) :=
        cur' <- fill_with cur d ;;
        '(h', sl') <- insert_with_slot h o x k cur' sl ;;
        Some (h', slot_or sl' sf_FOUND, true) in
      if is_empty d then Some (h, sl, true)
      else if negb cconf && (match d_conf d with Some true => true | _ => false end) then Some (h, sl, false)
      else if negb cconf && ne_opt Bool.eqb (d_enum d) cenum then Some (h, sl, false)
      else if is_generic d then apply cur
      else if negb (Bool.eqb (is_data cur) (is_data d)) then
        if negb cconf then Some (h, sl, false)
        else apply (if is_data cur then into_accessor_defaulted cur else into_data_defaulted cur)
      else if is_data cur && is_data d then
        cw <- d_writable cur ;;
        if negb cconf && negb cw then
          if (match d_writable d with Some true => true | _ => false end) then Some (h, sl, false)
          else match d_value d with
               | Some v => cv <- d_value cur ;; Some (h, sl, val_eqb v cv)
               | None => Some (h, sl, true)
               end
        else apply cur
      else if negb cconf then
        match d_set d with
        | Some s => cs <- d_set cur ;;                          (* current.expect_set() *)
            if negb (val_eqb s cs) then Some (h, sl, false)
            else match d_get d with
                 | Some g => cg <- d_get cur ;; Some (h, sl, val_eqb g cg)
                 | None => Some (h, sl, true)
                 end
        | None =>
            match d_get d with
            | Some g => cg <- d_get cur ;; Some (h, sl, val_eqb g cg)
            | None => Some (h, sl, true)
            end
        end
      else apply cur
  end.

(* ordinary_define_own_property *)
Definition define_own_property (h : heap) (o : objid) (k : key) (d : pdesc) (sl : slot) : option (heap * slot * bool) :=
  x <- get_obj h o ;;
  '(current, sl1) <- get_with_slot h x k sl ;;
  validate_and_apply h o x k (o_ext x) d current sl1.

(* observable effects of calling an opaque function *)
Inductive icev := EvHit | EvMiss | EvStore | EvRefused | EvMega.        (* 'h' 'x' 's' 'm' 'M' *)
Inductive out :=
| OVal (v : val) | OBool (b : bool) | ORefErr | OTypeErr | ONoObj
| OCall (f : fid) (arg : option val)
| ONew (o : objid)
| ODumpObj (ext : bool) (proto : option objid) (props : list (key * pdesc))
| OIC (e : list icev)
| OThisDataHit   (* ghost, never printed: a cached data write was taken (or a data slot stored) with receiver <> keyed object *)
| OBadStore.      (* ghost, never printed: this step stored a cache entry that does not describe the receiver's shape now *)

Definition call_getter (f : fid) : list out * val := ([OCall f None], VNum (1000 + f)).
Definition call_setter (f : fid) (v : val) : list out := [OCall f (Some v)].

(* ordinary_get / ordinary_try_get (the two differ only in "not found": undefined vs None).
   fuel bounds the prototype chain (chains are acyclic; out of fuel = None). *)
Fixpoint ordinary_try_get (fuel : nat) (h : heap) (o : objid) (k : key) (sl : slot)
  : option (list out * option val * slot) :=
  match fuel with
  | O => None
  | S fuel' =>
      x <- get_obj h o ;;
      '(d, sl1) <- get_with_slot h x k sl ;;
      match d with
      | None =>
          match shape_proto h (o_shape x) with
          | Some p =>
              let sl2 := {| s_index := s_index sl1; s_attrs := sf_set_not_cacheable_if_already_prototype (s_attrs sl1) |} in
              ordinary_try_get fuel' h p k (slot_or sl2 sf_PROTOTYPE)
          | None => Some ([], None, sl1)
          end
      | Some d =>
          match d_kind d with
          | KData (Some v) _ => Some ([], Some v, sl1)
          | KAcc (Some (VFun f)) _ => let (tr, v) := call_getter f in Some (tr, Some v, sl1)
          | _ => Some ([], Some VUndef, sl1)
          end
      end
  end.

(* OrdinarySetWithOwnDescriptor step 3 (ownDesc is a data descriptor), as written in ordinary_set:
   [o] = the holder reached on the chain, [r] = the receiver, [has_own] = the descriptor was found on [o] *)
Definition set_data_case (h : heap) (o r : objid) (k : key) (v : val) (has_own : bool) (own_desc : pdesc) (sl2 : slot)
  : option (list out * heap * bool * slot) :=
  w <- d_writable own_desc ;;
  if negb w then Some ([], h, false, sl2)
  else
    let is_recv := N.eqb o r in
    let sl3 := {| s_index := s_index sl2;
                  s_attrs := if negb is_recv then N.lor (s_attrs sl2) sf_NOT_CACHEABLE
                             else N.land (s_attrs sl2) (N.lxor sf_NOT_CACHEABLE 255) |} in
    rx <- get_obj h r ;;
    '(existing, sl4) <- (if has_own && is_recv then Some (Some own_desc, sl3) else get_with_slot h rx k sl3) ;;
    match existing with
    | Some ex =>
        if is_acc ex then Some ([], h, false, sl4)
        else
          ew <- d_writable ex ;;
          if negb ew then Some ([], h, false, sl4)
          else
            '(h', sl5, ok) <- define_own_property h r k {| d_kind := KData (Some v) None; d_enum := None; d_conf := None |} sl4 ;;
            Some ([], h', ok, sl5)
    | None =>
        '(h', sl5, ok) <- define_own_property h r k
             {| d_kind := KData (Some v) (Some true); d_enum := Some true; d_conf := Some true |} sl4 ;;
        Some ([], h', ok, sl5)
    end.

(* ordinary_set with receiver [r] (an object id); returns (trace, heap, succeeded, slot) *)
Fixpoint ordinary_set (fuel : nat) (h : heap) (o : objid) (k : key) (v : val) (r : objid) (sl : slot)
  : option (list out * heap * bool * slot) :=
  match fuel with
  | O => None
  | S fuel' =>
      x <- get_obj h o ;;
      '(own, sl1) <- get_with_slot h x k sl ;;
      match own with
      | Some own_desc =>
          if is_data own_desc then set_data_case h o r k v true own_desc sl1
          else match d_set own_desc with
               | Some (VFun f) => Some (call_setter f v, h, true, sl1)
               | _ => Some ([], h, false, sl1)
               end
      | None =>
          match shape_proto h (o_shape x) with
          | Some p =>
              let sl2 := {| s_index := s_index sl1; s_attrs := sf_set_not_cacheable_if_already_prototype (s_attrs sl1) |} in
              ordinary_set fuel' h p k v r (slot_or sl2 sf_PROTOTYPE)
          | None =>
              let sl2 := {| s_index := s_index sl1;
                            s_attrs := N.land (s_attrs sl1) (N.lxor (N.lor sf_PROTOTYPE sf_NOT_CACHEABLE) 255) |} in
              set_data_case h o r k v false {| d_kind := KData (Some VUndef) (Some true); d_enum := Some true; d_conf := Some true |} sl2
          end
      end
  end.

(* ordinary_delete *)
Definition ordinary_delete (h : heap) (o : objid) (k : key) : option (heap * bool) :=
  x <- get_obj h o ;;
  '(d, _) <- get_with_slot h x k slot_new ;;
  match d with
  | Some d => c <- d_conf d ;; if c then h' <- pm_remove h o x k ;; Some (h', true) else Some (h, false)
  | None => Some (h, true)
  end.

(* ordinary_set_prototype_of *)
Fixpoint proto_chain_has (fuel : nat) (h : heap) (p : option objid) (o : objid) : bool :=
  match fuel, p with
  | S f, Some q => if N.eqb q o then true
                   else match get_obj h q with Some y => proto_chain_has f h (shape_proto h (o_shape y)) o | None => false end
  | _, _ => false
  end.
Definition chain_fuel (h : heap) : nat := 2 + length (h_objs h).
Definition ordinary_set_prototype_of (h : heap) (o : objid) (q : option objid) : option (heap * bool) :=
  x <- get_obj h o ;;
  if opt_eqb N.eqb q (shape_proto h (o_shape x)) then Some (h, true)
  else if negb (o_ext x) then Some (h, false)
  else if proto_chain_has (chain_fuel h) h q o then Some (h, false)
  else let (h1, s1) := shape_set_proto h (o_shape x) q in
       Some (set_obj h1 o {| o_shape := s1; o_store := o_store x; o_ext := o_ext x |}, true).

Definition prevent_extensions (h : heap) (o : objid) : option heap :=
  x <- get_obj h o ;; Some (set_obj h o {| o_shape := o_shape x; o_store := o_store x; o_ext := false |}).

(* JsObject::set_integrity_level(Frozen): the keys are taken once, each is re-read and re-defined *)
Fixpoint freeze_keys (h : heap) (o : objid) (ks : list key) : option (heap * bool) :=
  match ks with
  | [] => Some (h, true)
  | k :: r =>
      x <- get_obj h o ;;
      '(cur, _) <- get_with_slot h x k slot_new ;;
      match cur with
      | None => freeze_keys h o r
      | Some cd =>
          let d := if is_acc cd then {| d_kind := KGeneric; d_enum := None; d_conf := Some false |}
                   else {| d_kind := KData None (Some false); d_enum := None; d_conf := Some false |} in
          '(h', _, ok) <- define_own_property h o k d slot_new ;;
          if ok then freeze_keys h' o r else Some (h', false)        (* define_property_or_throw: TypeError *)
      end
  end.
Definition freeze (h : heap) (o : objid) : option (heap * bool) :=
  h1 <- prevent_extensions h o ;;
  x <- get_obj h1 o ;;
  freeze_keys h1 o (map fst (shape_tab h1 (o_shape x))).

(* ------------------------------------------------------------------------------------------- inline caches *)
Inductive skind := SGet | SSet | SGlobal.
Definition skind_eqb (a b : skind) : bool :=
  match a, b with SGet, SGet | SSet, SSet | SGlobal, SGlobal => true | _, _ => false end.
Definition siteid := (skind * N * key)%type.
Definition siteid_eqb (a b : siteid) : bool :=
  let '(ka, na, xa) := a in let '(kb, nb, xb) := b in skind_eqb ka kb && N.eqb na nb && N.eqb xa xb.
(* CacheEntry: the receiver's shape, for PROTOTYPE-flagged slots the shape the prototype object had when the entry was
   created, and the slot *)
Record entry := { e_shape : shape; e_pshape : option shape; e_slot : slot }.
Record cache := { c_entries : list entry; c_mega : bool }.
Definition cache_new : cache := {| c_entries := []; c_mega := false |}.
Definition sites := list (siteid * cache).
Fixpoint site_get (ss : sites) (id : siteid) : cache :=
  match ss with
  | [] => cache_new
  | (id', c) :: r => if siteid_eqb id' id then c else site_get r id
  end.
Fixpoint site_put (ss : sites) (id : siteid) (c : cache) : sites :=
  match ss with
  | [] => [(id, c)]
  | (id', c') :: r => if siteid_eqb id' id then (id', c) :: r else (id', c') :: site_put r id c
  end.

(* InlineCache::entry_is_current: what the receiver's shape identity does not cover for a PROTOTYPE-flagged entry *)
Definition is_unique_shape (s : shape) : bool := match s with ShUnique _ => true | ShShared _ => false end.
Definition entry_is_current (h : heap) (k : key) (e : entry) (s : shape) : bool :=
  if negb (has_flag (s_attrs (e_slot e)) sf_PROTOTYPE) then true
  else if is_unique_shape s && is_some (lookup_shape h s k) then false
  else match e_pshape e with
       | None => false
       | Some expected =>
           match shape_proto h s with
           | None => false
           | Some p => match get_obj h p with
                       | Some px => shape_eqb (o_shape px) expected
                       | None => false
                       end
           end
       end.

(* ArrayVec::swap_remove *)
Definition swap_remove {A} (l : list A) (i : nat) : list A :=
  match rev l with
  | [] => l
  | lst :: _ => firstn i l ++ (if Nat.eqb (S i) (length l) then [] else lst :: removelast (skipn (S i) l))
  end.
Fixpoint find_entry (es : list entry) (s : shape) (i : nat) : option (nat * entry) :=
  match es with
  | [] => None
  | e :: r => if shape_eqb (e_shape e) s then Some (i, e) else find_entry r s (S i)
  end.
(* InlineCache::get (no weak shape is dead here: collection is the separate op OpEvict); returns the updated cache: a
   stale PROTOTYPE entry is removed and the lookup is a miss *)
Definition ic_get (c : cache) (h : heap) (k : key) (s : shape) : option slot * cache * list icev :=
  if c_mega c then (None, c, [EvMega])
  else match find_entry (c_entries c) s 0 with
       | Some (i, e) =>
           if entry_is_current h k e s then (Some (e_slot e), c, [EvHit])
           else (None, {| c_entries := swap_remove (c_entries c) i; c_mega := false |}, [EvMiss])
       | None => (None, c, [EvMiss])
       end.
(* InlineCache::set *)
Definition pshape_of (h : heap) (s : shape) (sl : slot) : option shape :=
  if has_flag (s_attrs sl) sf_PROTOTYPE then
    match shape_proto h s with
    | Some p => match get_obj h p with Some px => Some (o_shape px) | None => None end
    | None => None
    end
  else None.
(* the slot patterns the lookups produce: get_with_slot from Slot::new() on the receiver, resp. after one prototype step *)
Definition gws_attrs (inb : N) (a : dattrs) : N :=
  N.lor (N.lor (N.land inb sf_INLINE_CACHE_BITS) (bits_of a)) sf_FOUND.
Definition proto_in : N := N.lor (sf_set_not_cacheable_if_already_prototype 0) sf_PROTOTYPE.
Definition own_pat (i : N) (a : dattrs) : slot := {| s_index := i; s_attrs := gws_attrs 0 a |}.
Definition proto_pat (i : N) (a : dattrs) : slot := {| s_index := i; s_attrs := gws_attrs proto_in a |}.
Definition slot_eqb (a b : slot) : bool := N.eqb (s_index a) (s_index b) && N.eqb (s_attrs a) (s_attrs b).
Definition proto_lookup (h : heap) (s : shape) (k : key) : option tslot :=
  match shape_proto h s with
  | Some p => match get_obj h p with Some px => lookup_shape h (o_shape px) k | None => None end
  | None => None
  end.
(* decidable: [sl] says where the uncached lookup of k finds the property for an object of shape s now *)
Definition describes_b (kd : skind) (h : heap) (k : key) (s : shape) (sl : slot) : bool :=
  match lookup_shape h s k with
  | Some (i, a) => slot_eqb sl (own_pat i a) && (if skind_eqb kd SSet then a_is_accessor a || a_w a else true)
  | None => match proto_lookup h s k with
            | Some (i, a) => slot_eqb sl (proto_pat i a) && (if skind_eqb kd SSet then a_is_accessor a else true)
            | None => false
            end
  end.

(* InlineCache::set re-looks the name up after the slow path (which may have run a getter/setter):
   RNone  = before 26b9acc (no re-check),
   RIndex = 26b9acc: the slot index must still be where the property lives (receiver's shape, or prototype's shape for
            PROTOTYPE slots),
   RFull  = proposed (fixes.d/C06-ic-store-full-recheck.patch): index and attributes must match, and for PROTOTYPE slots the
            receiver must not have the property itself *)
Inductive recheck := RNone | RIndex | RFull.
Definition attrs_match (a : dattrs) (sl : slot) : bool :=
  N.eqb (bits_of a) (N.land (s_attrs sl) (N.lxor sf_INLINE_CACHE_BITS 255)).
Definition recheck_ok (rc : recheck) (h : heap) (k : key) (s : shape) (sl : slot) : bool :=
  let proto := has_flag (s_attrs sl) sf_PROTOTYPE in
  match rc with
  | RNone => true
  | RIndex =>
      match (if proto then proto_lookup h s k else lookup_shape h s k) with
      | Some (i, _) => N.eqb i (s_index sl)
      | None => false
      end
  | RFull =>
      if proto then
        match lookup_shape h s k with
        | Some _ => false
        | None => match proto_lookup h s k with
                  | Some (i, a) => N.eqb i (s_index sl) && attrs_match a sl
                  | None => false
                  end
        end
      else match lookup_shape h s k with
           | Some (i, a) => N.eqb i (s_index sl) && attrs_match a sl
           | None => false
           end
  end.
(* InlineCache::set; the 's' event is logged before the re-check.  Third component: ghost flag "stored a non-describing entry" *)
Definition ic_set (rc : recheck) (kd : skind) (c : cache) (h : heap) (k : key) (s : shape) (sl : slot) : cache * list icev * bool :=
  if c_mega c then (c, [EvRefused], false)
  else if negb (recheck_ok rc h k s sl) then (c, [EvStore], false)
  else if N.ltb (lenN (c_entries c)) sf_PIC_CAPACITY
       then ({| c_entries := c_entries c ++ [{| e_shape := s; e_pshape := pshape_of h s sl; e_slot := sl |}]; c_mega := false |},
             [EvStore], negb (describes_b kd h k s sl))
       else ({| c_entries := []; c_mega := true |}, [EvStore], false).

Record state := { st_heap : heap; st_sites : sites }.

(* the read done on a cache hit: `storage[slot.index]` of the receiver or of `shape.prototype()` *)
Definition hit_store (h : heap) (x : obj) (sl : slot) : option (list val) :=
  if has_flag (s_attrs sl) sf_PROTOTYPE then
    p <- shape_proto h (o_shape x) ;;              (* .expect("prototype should have value") *)
    px <- get_obj h p ;;
    Some (o_store px)
  else Some (o_store x).

(* ------------------------------------------------------------------------------------------- histories *)
Inductive op :=
| OpAlloc (unique : bool) (proto : option objid)      (* Object.create(p) | __uniq(p) *)
| OpDefine (o : objid) (k : key) (d : pdesc)           (* Reflect.defineProperty *)
| OpDelete (o : objid) (k : key)                       (* Reflect.deleteProperty *)
| OpSetProto (o : objid) (p : option objid)            (* Reflect.setPrototypeOf *)
| OpPreventExt (o : objid)                             (* Reflect.preventExtensions *)
| OpFreeze (o : objid)                                 (* Object.freeze *)
| OpGet (s : N) (k : key) (o : objid)                  (* site function g_s_k(o) { return o.k } *)
| OpSet (s : N) (k : key) (o : objid) (v : val)        (* site function s_s_k(o, v) { "use strict"; o.k = v } *)
| OpGetGlobal (s : N) (k : key)                        (* site function n_s_k() { return k } *)
| OpDump (o : objid)                                   (* uncached view: extensible, prototype, own keys + descriptors *)
| OpEvict (kind : skind) (s : N) (k : key) (keep : list bool).  (* weak entries whose shape was collected disappear *)

Definition OBJECT_PROTOTYPE : objid := 0.
Definition GLOBAL : objid := 1.
(* object 0 stands for %Object.prototype%, object 1 for the global object: both have unique shapes; their
   builtin properties (a fixed storage prefix no history touches) are left out *)
Definition init_heap : heap :=
  {| h_objs := [ {| o_shape := ShUnique 0; o_store := []; o_ext := true |};
                 {| o_shape := ShUnique 1; o_store := []; o_ext := true |} ];
     h_ushapes := [ {| u_proto := None; u_tab := [] |}; {| u_proto := Some OBJECT_PROTOTYPE; u_tab := [] |} ] |}.
Definition init : state := {| st_heap := init_heap; st_sites := [] |}.

Fixpoint dump_props (st : list val) (t : table) : option (list (key * pdesc)) :=
  match t with
  | [] => Some []
  | (k, ts) :: r => d <- get_storage st ts ;; l <- dump_props st r ;; Some ((k, d) :: l)
  end.
Fixpoint filter_keep {A} (l : list A) (keep : list bool) : list A :=
  match l, keep with
  | x :: r, b :: bs => if b then x :: filter_keep r bs else filter_keep r bs
  | _, [] => l
  | [], _ => []
  end.


(* the heap operations (no site is executed, no accessor is called): also what the body of an accessor function may do *)
Definition heap_op (h : heap) (o : op) : option (list out * heap) :=
  match o with
  | OpDefine o k d =>
      match get_obj h o with
      | None => Some ([ONoObj], h)
      | Some _ => '(h', _, ok) <- define_own_property h o k d slot_new ;; Some ([OBool ok], h')
      end
  | OpDelete o k =>
      match get_obj h o with
      | None => Some ([ONoObj], h)
      | Some _ => '(h', ok) <- ordinary_delete h o k ;; Some ([OBool ok], h')
      end
  | OpSetProto o p =>
      match get_obj h o with
      | None => Some ([ONoObj], h)
      | Some _ => '(h', ok) <- ordinary_set_prototype_of h o p ;; Some ([OBool ok], h')
      end
  | OpPreventExt o =>
      match get_obj h o with
      | None => Some ([ONoObj], h)
      | Some _ => h' <- prevent_extensions h o ;; Some ([OBool true], h')
      end
  | OpFreeze o =>
      match get_obj h o with
      | None => Some ([ONoObj], h)
      | Some _ => '(h', ok) <- freeze h o ;; Some ([if ok then OBool true else OTypeErr], h')
      end
  | _ => Some ([], h)
  end.

(* accessor functions: F[f] prints its call, runs its body -- heap operations on the objects it names -- and (as a getter)
   returns 1000+f.  All calls made by [[Get]]/[[Set]] and by the cached paths are tail calls of the lookup: the lookup (and the
   slot it computed) is finished when the body runs, the cache store comes afterwards *)
Definition ftab := list (list op).
Definition body_of (ft : ftab) (f : fid) : list op := nth (N.to_nat f) ft [].
Fixpoint apply_ops (h : heap) (b : list op) : option heap :=
  match b with
  | [] => Some h
  | o :: r => '(_, h') <- heap_op h o ;; apply_ops h' r
  end.
Fixpoint apply_calls (ft : ftab) (h : heap) (tr : list out) : option heap :=
  match tr with
  | [] => Some h
  | OCall f _ :: r => h' <- apply_ops h (body_of ft f) ;; apply_calls ft h' r
  | _ :: r => apply_calls ft h r
  end.

Definition ghost (bad : bool) : list out := if bad then [OBadStore] else [].

(* get_by_name::<false> (GetPropertyByName) and GetNameGlobal.  [ic]: caches enabled (false = NO_IC switch).
   Returns (outputs, state); the value read is the last output before the OIC record. *)
Definition cached_get (rc : recheck) (ic : bool) (ft : ftab) (glob : bool) (st : state) (id : siteid) (o : objid)
  : option (list out * state) :=
  let h := st_heap st in
  let '(kd, _, k) := id in
  match get_obj h o with
  | None => Some ([ONoObj], st)
  | Some x =>
      let c0 := site_get (st_sites st) id in
      let '(hit, c, ev) := if ic then ic_get c0 h k (o_shape x) else (None, c0, []) in
      match hit with
      | Some sl =>
          stg <- hit_store h x sl ;;
          result <- nthN stg (s_index sl) ;;
          let '(tr, result) :=
            if sf_has_get (s_attrs sl) && is_object result
            then match result with VFun f => call_getter f | _ => ([], result) end
            else ([], result) in
          h1 <- apply_calls ft h tr ;;
          Some (tr ++ [OVal result; OIC ev], {| st_heap := h1; st_sites := st_sites st |})
      | None =>
          '(tr, r, sl) <- ordinary_try_get (chain_fuel h) h o k slot_new ;;
          h1 <- apply_calls ft h tr ;;
          x1 <- get_obj h1 o ;;                                   (* object.borrow().shape() after the lookup *)
          let '(c', ev', bad) := if ic && sf_is_cacheable (s_attrs sl) then ic_set rc kd c h1 k (o_shape x1) sl else (c, [], false) in
          let st' := {| st_heap := h1; st_sites := if ic then site_put (st_sites st) id c' else st_sites st |} in
          match r with
          | Some v => Some (tr ++ [OVal v; OIC (ev ++ ev')] ++ ghost bad, st')
          | None => if glob then Some (tr ++ [ORefErr; OIC (ev ++ ev')] ++ ghost bad, st')     (* "x is not defined" *)
                    else Some (tr ++ [OVal VUndef; OIC (ev ++ ev')] ++ ghost bad, st')
          end
      end
  end.

(* set_by_name (SetPropertyByName) in strict code: a failed [[Set]] is a TypeError *)
Definition cached_set (rc : recheck) (ic : bool) (ft : ftab) (st : state) (id : siteid) (o : objid) (v : val)
  : option (list out * state) :=
  let h := st_heap st in
  let '(kd, _, k) := id in
  match get_obj h o with
  | None => Some ([ONoObj], st)
  | Some x =>
      let c0 := site_get (st_sites st) id in
      let '(hit, c, ev) := if ic then ic_get c0 h k (o_shape x) else (None, c0, []) in
      match hit with
      | Some sl =>
          let i := s_index sl in
          if sf_is_accessor_descriptor (s_attrs sl) then
            stg <- hit_store h x sl ;;
            result <- nthN stg (i + 1) ;;
            if sf_has_set (s_attrs sl) && is_object result
            then let tr := match result with VFun f => call_setter f v | _ => [] end in
                 h1 <- apply_calls ft h tr ;;
                 Some (tr ++ [OBool true; OIC ev], {| st_heap := h1; st_sites := st_sites st |})
            else Some ([OTypeErr; OIC ev], st)          (* strict code: "cannot set property: the accessor has no setter" *)
          else if has_flag (s_attrs sl) sf_PROTOTYPE then
            p <- shape_proto h (o_shape x) ;;
            px <- get_obj h p ;;
            stg <- set_nth (o_store px) i v ;;
            Some ([OBool true; OIC ev],
                  {| st_heap := set_obj h p {| o_shape := o_shape px; o_store := stg; o_ext := o_ext px |};
                     st_sites := st_sites st |})
          else
            stg <- set_nth (o_store x) i v ;;
            Some ([OBool true; OIC ev],
                  {| st_heap := set_obj h o {| o_shape := o_shape x; o_store := stg; o_ext := o_ext x |};
                     st_sites := st_sites st |})
      | None =>
          '(tr, h', ok, sl) <- ordinary_set (chain_fuel h) h o k v o slot_new ;;
          h1 <- apply_calls ft h' tr ;;
          x' <- get_obj h1 o ;;
          let '(c', ev', bad) := if ic && ok && sf_is_cacheable (s_attrs sl) then ic_set rc kd c h1 k (o_shape x') sl else (c, [], false) in
          let st' := {| st_heap := h1; st_sites := if ic then site_put (st_sites st) id c' else st_sites st |} in
          Some (tr ++ [if ok then OBool true else OTypeErr; OIC (ev ++ ev')] ++ ghost bad, st')
      end
  end.

Definition with_heap (st : state) (h : heap) : state := {| st_heap := h; st_sites := st_sites st |}.

(* one operation; None = the engine panicked *)
Definition step (rc : recheck) (ic : bool) (ft : ftab) (st : state) (o : op) : option (list out * state) :=
  let h := st_heap st in
  match o with
  | OpAlloc uq p =>
      let id := lenN (h_objs h) in
      if match p with Some q => negb (N.ltb q id) | None => false end then Some ([ONoObj], st)   (* O[q] does not exist *)
      else if uq then
        let (h1, u) := new_ushape h {| u_proto := p; u_tab := [] |} in
        Some ([ONew id], with_heap st {| h_objs := h_objs h1 ++ [{| o_shape := ShUnique u; o_store := []; o_ext := true |}];
                                          h_ushapes := h_ushapes h1 |})
      else
        Some ([ONew id], with_heap st {| h_objs := h_objs h ++ [{| o_shape := ShShared [TProto p]; o_store := []; o_ext := true |}];
                                          h_ushapes := h_ushapes h |})
  | OpDefine _ _ _ | OpDelete _ _ | OpSetProto _ _ | OpPreventExt _ | OpFreeze _ =>
      '(outs, h') <- heap_op h o ;; Some (outs, with_heap st h')
  | OpGet s k o => cached_get rc ic ft false st (SGet, s, k) o
  | OpSet s k o v => cached_set rc ic ft st (SSet, s, k) o v
  | OpGetGlobal s k => cached_get rc ic ft true st (SGlobal, s, k) GLOBAL
  | OpDump o =>
      match get_obj h o with
      | None => Some ([ONoObj], st)
      | Some x =>
          l <- dump_props (o_store x) (shape_tab h (o_shape x)) ;;
          Some ([ODumpObj (o_ext x) (shape_proto h (o_shape x)) l], st)
      end
  | OpEvict kd s k keep =>
      let id := (kd, s, k) in
      let c := site_get (st_sites st) id in
      Some ([], {| st_heap := h;
                   st_sites := if ic then site_put (st_sites st) id {| c_entries := filter_keep (c_entries c) keep; c_mega := c_mega c |}
                               else st_sites st |})
  end.

(* a run: outputs per operation; a panic ends the run ([None] marker) *)
Fixpoint run (rc : recheck) (ic : bool) (ft : ftab) (st : state) (ops : list op) : list (option (list out)) :=
  match ops with
  | [] => []
  | o :: r =>
      match step rc ic ft st o with
      | None => [None]
      | Some (outs, st') => Some outs :: run rc ic ft st' r
      end
  end.

(* what a program can observe: everything except the cache decisions (and the ghost marker) *)
Definition visible (o : out) : bool := match o with OIC _ | OBadStore | OThisDataHit => false | _ => true end.
Definition observable (r : list (option (list out))) : list (option (list out)) :=
  map (fun x => match x with Some l => Some (filter visible l) | None => None end) r.

(* the engine as it is (26b9acc): index-only re-check before the store *)
Definition run_cached (ft : ftab) (ops : list op) := run RIndex true ft init ops.
Definition run_uncached (ft : ftab) (ops : list op) := run RIndex false ft init ops.

(* first operation of a run that stored a non-describing entry *)
Fixpoint first_bad_store (r : list (option (list out))) (i : N) : option N :=
  match r with
  | [] => None
  | Some l :: t => if existsb (fun o => match o with OBadStore => true | _ => false end) l then Some i else first_bad_store t (i + 1)
  | None :: _ => None
  end.
Definition BadStore (rc : recheck) (ft : ftab) (ops : list op) : Prop := first_bad_store (run rc true ft init ops) 0 <> None.

(* ------------------------------------------------------------------------------------------- the residual class
   The only place left where the hit path differs from the slow path: an accessor slot without GET (resp. SET) flag, or
   holding a getter that is neither callable nor undefined.  No JavaScript-level operation produces such a slot (descriptors
   are completed to both fields and ToPropertyDescriptor rejects non-callable accessors); only direct PropertyMap::insert
   calls of builtins do (e.g. getter-only accessors).  [first_irregular] is evaluated by the check on every history. *)
Definition hit_irregular (st : state) (o : op) : bool :=
  let h := st_heap st in
  match o with
  | OpSet s k ob v =>
      match get_obj h ob with
      | Some x =>
          match fst (fst (ic_get (site_get (st_sites st) (SSet, s, k)) h k (o_shape x))) with
          | Some sl => sf_is_accessor_descriptor (s_attrs sl) && negb (sf_has_set (s_attrs sl))
          | None => false
          end
      | None => false
      end
  | OpGet _ _ _ | OpGetGlobal _ _ =>
      let '(id, k, ob) := match o with OpGet s k ob => ((SGet, s, k), k, ob) | OpGetGlobal s k => ((SGlobal, s, k), k, GLOBAL)
                                    | _ => ((SGet, 0, 0), 0, 0) end in
      match get_obj h ob with
      | Some x =>
          match fst (fst (ic_get (site_get (st_sites st) id) h k (o_shape x))) with
          | Some sl =>
              sf_is_accessor_descriptor (s_attrs sl) &&
              (if sf_has_get (s_attrs sl) then
                 match hit_store h x sl with
                 | Some stg => match nthN stg (s_index sl) with Some (VNum _) => true | _ => false end
                 | None => false
                 end
               else true)
          | None => false
          end
      | None => false
      end
  | _ => false
  end.

(* position of the first such step in the cached run of a history *)
Fixpoint first_irregular (rc : recheck) (ft : ftab) (st : state) (ops : list op) (i : N) : option N :=
  match ops with
  | [] => None
  | o :: r =>
      if hit_irregular st o then Some i
      else match step rc true ft st o with
           | Some (_, st') => first_irregular rc ft st' r (i + 1)
           | None => None
           end
  end.
Definition Irregular (rc : recheck) (ft : ftab) (ops : list op) : Prop := first_irregular rc ft init ops 0 <> None.

(* ------------------------------------------------------------------------------------------- `super.k = v` / `super.k`
   SetPropertyByNameWithThis / GetPropertyByNameWithThis: set_by_name(value, value_object = [o] (the home object's prototype),
   receiver = [r] (this)).  The cache is keyed by the shape of [o]; the slow path is [[Set]](o, k, v, receiver r).
   [sr] = the repair of fixes.d/C06-super-set-receiver.patch: the cached data-write paths are taken, and data slots are stored,
   only when the receiver is the keyed object itself (accessor slots are receiver-independent: the setter gets the receiver). *)
Definition cached_set_this (sr : bool) (rc : recheck) (ic : bool) (ft : ftab) (st : state) (id : siteid) (o r : objid) (v : val)
  : option (list out * state) :=
  let h := st_heap st in
  let '(kd, _, k) := id in
  match get_obj h o with
  | None => Some ([ONoObj], st)
  | Some x =>
      let c0 := site_get (st_sites st) id in
      let '(hit0, c, ev) := if ic then ic_get c0 h k (o_shape x) else (None, c0, []) in
      let direct (sl : slot) := sf_is_accessor_descriptor (s_attrs sl) || N.eqb r o in
      let hit := match hit0 with Some sl => if sr && negb (direct sl) then None else Some sl | None => None end in
      match hit with
      | Some sl =>
          let i := s_index sl in
          if sf_is_accessor_descriptor (s_attrs sl) then
            stg <- hit_store h x sl ;;
            result <- nthN stg (i + 1) ;;
            if sf_has_set (s_attrs sl) && is_object result
            then let tr := match result with VFun f => call_setter f v | _ => [] end in
                 h1 <- apply_calls ft h tr ;;
                 Some (tr ++ [OBool true; OIC ev], {| st_heap := h1; st_sites := st_sites st |})
            else Some ([OTypeErr; OIC ev], st)
          else if has_flag (s_attrs sl) sf_PROTOTYPE then
            p <- shape_proto h (o_shape x) ;;
            px <- get_obj h p ;;
            stg <- set_nth (o_store px) i v ;;
            Some ([OBool true; OIC ev] ++ (if N.eqb r o then [] else [OThisDataHit]),
                  {| st_heap := set_obj h p {| o_shape := o_shape px; o_store := stg; o_ext := o_ext px |};
                     st_sites := st_sites st |})
          else
            stg <- set_nth (o_store x) i v ;;
            Some ([OBool true; OIC ev] ++ (if N.eqb r o then [] else [OThisDataHit]),
                  {| st_heap := set_obj h o {| o_shape := o_shape x; o_store := stg; o_ext := o_ext x |};
                     st_sites := st_sites st |})
      | None =>
          '(tr, h', ok, sl) <- ordinary_set (chain_fuel h) h o k v r slot_new ;;
          h1 <- apply_calls ft h' tr ;;
          x' <- get_obj h1 o ;;
          let store := ic && ok && sf_is_cacheable (s_attrs sl) && (negb sr || direct sl) in
          let '(c', ev', bad) := if store then ic_set rc kd c h1 k (o_shape x') sl else (c, [], false) in
          let st' := {| st_heap := h1; st_sites := if ic then site_put (st_sites st) id c' else st_sites st |} in
          Some (tr ++ [if ok then OBool true else OTypeErr; OIC (ev ++ ev')] ++ ghost bad ++
                (if store && negb (direct sl) then [OThisDataHit] else []), st')
      end
  end.

Inductive xop :=
| XOp (o : op)
| XSetThis (s : N) (k : key) (o r : objid) (v : val)     (* H = {m(v){"use strict"; super.k = v}} with H.__proto__ = O[o]; H.m.call(O[r], v) *)
| XGetThis (s : N) (k : key) (o r : objid).              (* H = {m(){return super.k}} with H.__proto__ = O[o]; H.m.call(O[r]) *)

Definition xstep (sr : bool) (rc : recheck) (ic : bool) (ft : ftab) (st : state) (x : xop) : option (list out * state) :=
  match x with
  | XOp o => step rc ic ft st o
  | XSetThis s k o r v =>
      match get_obj (st_heap st) r with
      | None => Some ([ONoObj], st)
      | Some _ => cached_set_this sr rc ic ft st (SSet, s, k) o r v
      end
  | XGetThis s k o r =>
      (* the receiver only becomes `this` of a getter; the opaque functions do not look at it *)
      match get_obj (st_heap st) r with
      | None => Some ([ONoObj], st)
      | Some _ => cached_get rc ic ft false st (SGet, s, k) o
      end
  end.
Fixpoint xrun (sr : bool) (rc : recheck) (ic : bool) (ft : ftab) (st : state) (ops : list xop) : list (option (list out)) :=
  match ops with
  | [] => []
  | o :: r =>
      match xstep sr rc ic ft st o with
      | None => [None]
      | Some (outs, st') => Some outs :: xrun sr rc ic ft st' r
      end
  end.
Fixpoint first_this_data (r : list (option (list out))) (i : N) : option N :=
  match r with
  | [] => None
  | Some l :: t => if existsb (fun o => match o with OThisDataHit => true | _ => false end) l then Some i else first_this_data t (i + 1)
  | None :: _ => None
  end.
