(* C06 lemmas, part 3: [[Set]] -- the slow path on cached shapes, bookkeeping of ordinary_set, step simulation
   for set sites, and the run-level theorem. *)
From Coq Require Import NArith Bool List Lia PeanoNat Arith.
From Gen Require Import SlotFlags.
From C06 Require Import Model_C06 Proofs_C06 ProofsB_C06.
Import ListNotations.
Local Open Scope N_scope.

(* ------------------------------------------------------------------------------------------- [[Set]] on the cached shapes *)
Local Transparent ordinary_try_get chain_fuel hit_store.

Lemma set_nth_some {A} (l : list A) i v x : nthN l i = Some x -> exists l', set_nth l i v = Some l'.
Proof.
  unfold nthN, set_nth. generalize (N.to_nat i). intro n. revert l.
  induction n; destruct l; simpl; try discriminate; eauto.
  intro H. destruct (IHn _ H) as [l' ->]. eauto.
Qed.
Lemma set_nth_none {A} (l : list A) i v : nthN l i = None -> set_nth l i v = None.
Proof.
  unfold nthN, set_nth. generalize (N.to_nat i). intro n. revert l.
  induction n; destruct l; simpl; try discriminate; auto.
  intro H. now rewrite (IHn _ H).
Qed.

(* `o.k = v` where k is an own writable data property of o: the slow path is a storage write *)
Lemma define_value_existing h o x k i a v inb :
  get_obj h o = Some x -> lookup_shape h (o_shape x) k = Some (i, a) -> a_is_accessor a = false -> a_w a = true ->
  define_own_property h o k {| d_kind := KData (Some v) None; d_enum := None; d_conf := None |} {| s_index := i; s_attrs := inb |} =
    (_ <- nthN (o_store x) i ;; stg <- set_nth (o_store x) i v ;;
     Some (set_obj h o {| o_shape := o_shape x; o_store := stg; o_ext := o_ext x |},
           {| s_index := i; s_attrs := N.lor (N.lor (N.land (gws_attrs inb a) sf_INLINE_CACHE_BITS) (bits_of a)) sf_FOUND |}, true)).
Proof.
  intros Hx L Ha Hw. unfold define_own_property. rewrite Hx, gws_eq, L, get_storage_data by assumption.
  destruct (nthN (o_store x) i) as [cv|] eqn:En; [|reflexivity].
  unfold validate_and_apply, insert_with_slot.
  all_dattrs a; try discriminate Ha; try discriminate Hw;
    cbn -[lookup_shape set_obj set_nth gws_attrs]; rewrite L;
    cbn -[lookup_shape set_obj set_nth gws_attrs];
    destruct (set_nth (o_store x) i v); reflexivity.
Qed.

Lemma os_own_data fuel h o k v x i a :
  get_obj h o = Some x -> lookup_shape h (o_shape x) k = Some (i, a) -> a_is_accessor a = false -> a_w a = true ->
  ordinary_set (S fuel) h o k v o slot_new =
    (_ <- nthN (o_store x) i ;; stg <- set_nth (o_store x) i v ;;
     Some ([], set_obj h o {| o_shape := o_shape x; o_store := stg; o_ext := o_ext x |}, true, own_pat i a)).
Proof.
  intros Hx L Ha Hw.
  cbn -[get_obj get_with_slot define_own_property shape_proto N.eqb].
  rewrite Hx, gws_eq, L, get_storage_data by assumption.
  destruct (nthN (o_store x) i) as [cv|] eqn:En; [|reflexivity].
  all_dattrs a; try discriminate Ha; try discriminate Hw;
    cbn -[get_obj get_with_slot define_own_property shape_proto N.eqb gws_attrs own_pat];
    rewrite N.eqb_refl;
    cbn -[get_obj get_with_slot define_own_property shape_proto gws_attrs own_pat];
    rewrite ?Hx;
    cbn -[get_obj get_with_slot define_own_property shape_proto gws_attrs own_pat];
    rewrite (define_value_existing h o x k i _ v _ Hx L eq_refl eq_refl), En;
    cbn -[gws_attrs own_pat set_obj];
    (destruct (set_nth (o_store x) i v); [|reflexivity]); reflexivity.
Qed.

Lemma get_storage_acc_kind st i a d : a_is_accessor a = true -> get_storage st (i, a) = Some d ->
  exists g s, d_kind d = KAcc g s /\
    (s = if a_s a then match nthN st (i + 1) with Some v => Some v | None => None end else None) /\
    (a_s a = true -> exists v, nthN st (i + 1) = Some v).
Proof.
  intros Ha H. rewrite get_storage_acc in H by assumption.
  destruct (if a_g a then v <- nthN st i;; Some (Some v) else Some None) as [g|]; [|discriminate].
  destruct (a_s a).
  - destruct (nthN st (i + 1)) as [v|]; [|discriminate]. inversion H; subst. exists g, (Some v). simpl. eauto.
  - inversion H; subst. exists g, None. simpl. repeat split; auto. discriminate.
Qed.

Definition set_acc_result (h : heap) (v : val) (d : pdesc) (sl : slot) : option (list out * heap * bool * slot) :=
  match d_set d with
  | Some (VFun f) => Some (call_setter f v, h, true, sl)
  | _ => Some ([], h, false, sl)
  end.

Lemma os_own_acc fuel h o k v x i a :
  get_obj h o = Some x -> lookup_shape h (o_shape x) k = Some (i, a) -> a_is_accessor a = true ->
  ordinary_set (S fuel) h o k v o slot_new =
    (d <- get_storage (o_store x) (i, a) ;; set_acc_result h v d (own_pat i a)).
Proof.
  intros Hx L Ha.
  cbn -[get_obj get_with_slot define_own_property shape_proto N.eqb get_storage].
  rewrite Hx, gws_eq, L.
  destruct (get_storage (o_store x) (i, a)) as [d|] eqn:Hd; [|reflexivity].
  destruct (get_storage_acc_kind _ _ _ _ Ha Hd) as [g [s [Hk _]]].
  cbn -[get_obj get_with_slot define_own_property shape_proto N.eqb gws_attrs get_storage].
  unfold is_data, set_acc_result, d_set. rewrite Hk. reflexivity.
Qed.

Lemma os_proto_acc fuel h o k v x p px i a :
  get_obj h o = Some x -> lookup_shape h (o_shape x) k = None -> shape_proto h (o_shape x) = Some p ->
  get_obj h p = Some px -> lookup_shape h (o_shape px) k = Some (i, a) -> a_is_accessor a = true ->
  ordinary_set (S (S fuel)) h o k v o slot_new =
    (d <- get_storage (o_store px) (i, a) ;; set_acc_result h v d (proto_pat i a)).
Proof.
  intros Hx L0 P0 Hpx L1 Ha.
  cbn -[get_obj get_with_slot define_own_property shape_proto N.eqb get_storage].
  rewrite Hx, gws_eq, L0.
  cbn -[get_obj get_with_slot define_own_property shape_proto N.eqb get_storage].
  rewrite P0, Hpx, gws_eq, L1.
  destruct (get_storage (o_store px) (i, a)) as [d|] eqn:Hd; [|reflexivity].
  destruct (get_storage_acc_kind _ _ _ _ Ha Hd) as [g [s [Hk _]]].
  cbn -[get_obj get_with_slot define_own_property shape_proto N.eqb gws_attrs get_storage].
  unfold is_data, set_acc_result, d_set. rewrite Hk. reflexivity.
Qed.

(* ------------------------------------------------------------------------------------------- NOT_CACHEABLE is sticky *)
Ltac break_hyp H :=
  repeat match type of H with
  | context [match ?x with _ => _ end] => destruct x eqn:?; try discriminate H
  end.

Lemma f_nc_out b c : f_nc b = true -> f_nc (N.lor (N.land b sf_INLINE_CACHE_BITS) c) = true.
Proof.
  intro H. rewrite f_nc_lor. unfold f_nc in *. rewrite N.land_spec, H.
  replace (N.testbit sf_INLINE_CACHE_BITS 7) with true by (vm_compute; reflexivity). reflexivity.
Qed.

Lemma iws_nc h o x k d sl h' sl' :
  insert_with_slot h o x k d sl = Some (h', sl') -> f_nc (s_attrs sl) = true -> f_nc (s_attrs sl') = true.
Proof.
  intros H Hnc. unfold insert_with_slot in H.
  destruct (to_attrs d) as [a|]; [|discriminate]. cbv zeta in H.
  break_hyp H; inversion H; subst; simpl; now apply f_nc_out.
Qed.

Lemma vaa_nc h o x k ext d cur sl h' sl' ok :
  validate_and_apply h o x k ext d cur sl = Some (h', sl', ok) -> f_nc (s_attrs sl) = true -> f_nc (s_attrs sl') = true.
Proof.
  intros H Hnc. unfold validate_and_apply in H. cbv zeta beta in H.
  destruct cur as [cur|].
  - destruct (d_conf cur) as [cconf|]; [|discriminate]. destruct (d_enum cur) as [cenum|]; [|discriminate].
    repeat match type of H with
    | context [match insert_with_slot ?a ?b ?c ?e ?f ?g with _ => _ end] =>
        let E := fresh "E" in destruct (insert_with_slot a b c e f g) as [[? ?]|] eqn:E; [apply iws_nc in E; [|assumption]|try discriminate H]
    | context [match ?x with _ => _ end] => destruct x eqn:?; try discriminate H
    end; inversion H; subst; simpl; auto;
    try (rewrite f_nc_lor; match goal with E : f_nc _ = true |- _ => rewrite E end; reflexivity).
  - destruct (negb ext); [inversion H; subst; assumption|].
    destruct (insert_with_slot h o x k _ sl) as [[h1 sl1]|] eqn:E; [|discriminate].
    inversion H; subst. eapply iws_nc; eauto.
Qed.

Lemma dop_nc h o k d sl h' sl' ok :
  define_own_property h o k d sl = Some (h', sl', ok) -> f_nc (s_attrs sl) = true -> f_nc (s_attrs sl') = true.
Proof.
  intros H Hnc. unfold define_own_property in H.
  destruct (get_obj h o) as [x|]; [|discriminate].
  rewrite gws_eq in H. destruct (lookup_shape h (o_shape x) k) as [[i a]|].
  - destruct (get_storage (o_store x) (i, a)); [|discriminate].
    eapply vaa_nc; [exact H|]. simpl. now apply f_nc_gws.
  - eapply vaa_nc; eauto.
Qed.

(* the data-descriptor arm of [[Set]] reached on another object than the receiver marks the slot NOT_CACHEABLE *)
Lemma sdc_nc h o r k v ho od sl tr h' sl' :
  N.eqb o r = false ->
  set_data_case h o r k v ho od sl = Some (tr, h', true, sl') -> f_nc (s_attrs sl') = true.
Proof.
  intros Hne H. unfold set_data_case in H. rewrite Hne in H. rewrite andb_false_r in H. cbn [negb] in H.
  destruct (d_writable od) as [w|]; [|discriminate].
  destruct (negb w); [discriminate|].
  destruct (get_obj h r) as [rx|]; [|discriminate].
  set (sl3 := {| s_index := s_index sl; s_attrs := N.lor (s_attrs sl) sf_NOT_CACHEABLE |}) in *.
  assert (H3 : f_nc (s_attrs sl3) = true).
  { simpl. rewrite f_nc_lor. replace (f_nc sf_NOT_CACHEABLE) with true by (vm_compute; reflexivity). apply orb_true_r. }
  rewrite gws_eq in H. destruct (lookup_shape h (o_shape rx) k) as [[i a]|].
  - destruct (get_storage (o_store rx) (i, a)) as [ex|]; [|discriminate].
    destruct (is_acc ex); [discriminate|].
    destruct (d_writable ex) as [ew|]; [|discriminate]. destruct (negb ew); [discriminate|].
    destruct (define_own_property h r k _ _) as [[[h1 sl5] ok1]|] eqn:E; [|discriminate].
    inversion H; subst. eapply dop_nc; [exact E|]. simpl. now apply f_nc_gws.
  - destruct (define_own_property h r k _ _) as [[[h1 sl5] ok1]|] eqn:E; [|discriminate].
    inversion H; subst. eapply dop_nc; eauto.
Qed.

(* below the receiver's direct prototype nothing cacheable comes back *)
Lemma os_nc : forall fuel h o' k v r rx sl tr h' sl',
  get_obj h r = Some rx -> lookup_shape h (o_shape rx) k = None -> shape_proto h (o_shape rx) <> None ->
  f_nc (s_attrs sl) = true ->
  ordinary_set fuel h o' k v r sl = Some (tr, h', true, sl') -> f_nc (s_attrs sl') = true.
Proof.
  induction fuel as [|fuel IH]; intros h o' k v r rx sl tr h' sl' Hr Lr Pr Hnc H; [discriminate|].
  cbn -[get_obj get_with_slot set_data_case shape_proto] in H.
  destruct (get_obj h o') as [y|] eqn:Hy; [|discriminate].
  rewrite gws_eq in H. destruct (lookup_shape h (o_shape y) k) as [[i a]|] eqn:Ly.
  - destruct (get_storage (o_store y) (i, a)) as [d|]; [|discriminate].
    destruct (is_data d).
    + eapply sdc_nc; [|exact H]. apply N.eqb_neq. intro E. subst o'. rewrite Hr in Hy. inversion Hy; subst.
      rewrite Lr in Ly. discriminate.
    + destruct (d_set d) as [[| |f]|]; try discriminate. inversion H; subst. simpl. now apply f_nc_gws.
  - destruct (shape_proto h (o_shape y)) as [q|] eqn:Py.
    + refine (IH h q k v r rx _ tr h' sl' Hr Lr Pr _ H). simpl. now apply f_nc_trick.
    + eapply sdc_nc; [|exact H]. apply N.eqb_neq. intro E. subst o'. rewrite Hr in Hy. inversion Hy; subst.
      rewrite Py in Pr. contradiction.
Qed.

Lemma os_own_data_nw fuel h o k v x i a tr h' sl :
  get_obj h o = Some x -> lookup_shape h (o_shape x) k = Some (i, a) -> a_is_accessor a = false -> a_w a = false ->
  ordinary_set (S fuel) h o k v o slot_new = Some (tr, h', true, sl) -> False.
Proof.
  intros Hx L Ha Hw H.
  cbn -[get_obj get_with_slot set_data_case shape_proto] in H.
  rewrite Hx, gws_eq, L, get_storage_data in H by assumption.
  destruct (nthN (o_store x) i) as [cv|]; [|discriminate].
  cbn -[get_obj get_with_slot define_own_property shape_proto N.eqb gws_attrs] in H.
  destruct (own_pat_facts a) as (_ & _ & _ & _ & _ & _ & _ & Fw). rewrite Fw, Hw in H. discriminate.
Qed.

Lemma get_set_obj_same h o x y : get_obj h o = Some x -> get_obj (set_obj h o y) o = Some y.
Proof.
  unfold get_obj, set_obj, nthN, set_nth. generalize (N.to_nat o). intro n. destruct h as [objs us]. simpl.
  revert objs. induction n; destruct objs; simpl; try discriminate; auto.
  intro H. specialize (IHn _ H). destruct (set_nth_nat objs n y); simpl in *; auto.
Qed.
Lemma lookup_shape_set_obj h o y s k : lookup_shape (set_obj h o y) s k = lookup_shape h s k.
Proof. unfold lookup_shape, shape_tab, set_obj. destruct (set_nth (h_objs h) o y); reflexivity. Qed.
Lemma shape_proto_set_obj h o y s : shape_proto (set_obj h o y) s = shape_proto h s.
Proof. unfold shape_proto, set_obj. destruct (set_nth (h_objs h) o y); reflexivity. Qed.

Lemma f_found_bits a : f_found (bits_of a) = false.
Proof. all_dattrs a; vm_compute; reflexivity. Qed.
Lemma f_found_out b a : f_found (N.lor (N.land b sf_INLINE_CACHE_BITS) (bits_of a)) = f_found b.
Proof.
  unfold f_found. rewrite N.lor_spec, N.land_spec. fold (f_found (bits_of a)). rewrite f_found_bits.
  replace (N.testbit sf_INLINE_CACHE_BITS 6) with true by (vm_compute; reflexivity).
  now rewrite andb_true_r, orb_false_r.
Qed.
Lemma not_cacheable_nf a : f_found a = false -> sf_is_cacheable a = false.
Proof. intro H. rewrite is_cacheable_spec, H. apply andb_false_r. Qed.

(* adding a new own property (the [[Set]] that creates it) never yields a cacheable slot *)
Lemma os_add_not_cacheable fuel h o k v x tr h' sl :
  get_obj h o = Some x -> lookup_shape h (o_shape x) k = None -> shape_proto h (o_shape x) = None ->
  ordinary_set (S fuel) h o k v o slot_new = Some (tr, h', true, sl) -> sf_is_cacheable (s_attrs sl) = false.
Proof.
  intros Hx L0 P0 H.
  cbn -[get_obj get_with_slot set_data_case shape_proto] in H.
  rewrite Hx, gws_eq, L0, P0 in H.
  unfold set_data_case in H. rewrite N.eqb_refl in H.
  cbn -[get_obj get_with_slot define_own_property shape_proto] in H.
  rewrite Hx, gws_eq, L0 in H.
  destruct (define_own_property h o k _ _) as [[[h1 sl5] ok1]|] eqn:E; [|discriminate].
  inversion H; subst. clear H.
  unfold define_own_property in E. rewrite Hx, gws_eq, L0 in E.
  unfold validate_and_apply in E. destruct (negb (o_ext x)); [discriminate|].
  destruct (insert_with_slot h o x k _ _) as [[h2 sl6]|] eqn:E2; [|discriminate].
  inversion E; subst. clear E.
  unfold insert_with_slot in E2. destruct (to_attrs _) as [a0|]; [|discriminate].
  rewrite L0 in E2. cbv zeta in E2. destruct (shape_insert h (o_shape x) k a0) as [h3 s3].
  inversion E2; subst. apply not_cacheable_nf. cbn [s_attrs]. apply f_found_bits.
Qed.

Lemma os_cacheable : forall h o k v x tr h' sl x',
  get_obj h o = Some x ->
  ordinary_set (chain_fuel h) h o k v o slot_new = Some (tr, h', true, sl) ->
  sf_is_cacheable (s_attrs sl) = true ->
  get_obj h' o = Some x' ->
  slot_describes SSet h' k (o_shape x') sl.
Proof.
  intros h o k v x tr h' sl x' Hx H Hc Hx'.
  destruct (chain_fuel_SS h) as [f Hf]. rewrite Hf in H.
  destruct (lookup_shape h (o_shape x) k) as [[i a]|] eqn:L0.
  - destruct (a_is_accessor a) eqn:Ea.
    + rewrite (os_own_acc _ _ _ _ _ _ _ _ Hx L0 Ea) in H.
      destruct (get_storage (o_store x) (i, a)) as [d|]; [|discriminate].
      unfold set_acc_result in H. destruct (d_set d) as [[| |fn]|]; inversion H; subst.
      rewrite Hx in Hx'. inversion Hx'; subst.
      left. exists i, a. repeat split; auto. intros _ Hd. rewrite Ea in Hd. discriminate.
    + destruct (a_w a) eqn:Ew.
      * rewrite (os_own_data _ _ _ _ _ _ _ _ Hx L0 Ea Ew) in H.
        destruct (nthN (o_store x) i); [|discriminate].
        destruct (set_nth (o_store x) i v) as [stg|]; [|discriminate].
        inversion H; subst. rewrite (get_set_obj_same _ _ _ _ Hx) in Hx'. inversion Hx'; subst.
        left. exists i, a. simpl. rewrite lookup_shape_set_obj. repeat split; auto.
      * exfalso. exact (os_own_data_nw _ _ _ _ _ _ _ _ _ _ _ Hx L0 Ea Ew H).
  - destruct (shape_proto h (o_shape x)) as [p|] eqn:P0.
    2:{ rewrite (os_add_not_cacheable _ _ _ _ _ _ _ _ _ Hx L0 P0 H) in Hc. discriminate. }
    assert (Hrecv : shape_proto h (o_shape x) <> None) by (rewrite P0; discriminate).
    destruct (get_obj h p) as [px|] eqn:Hpx.
    2:{ cbn -[get_obj get_with_slot set_data_case shape_proto] in H. rewrite Hx, gws_eq, L0, P0 in H.
        cbn -[get_obj get_with_slot set_data_case shape_proto] in H. rewrite Hpx in H. discriminate. }
    assert (Hne : N.eqb p o = false).
    { apply N.eqb_neq. intro E. subst p. rewrite Hx in Hpx. inversion Hpx; subst. clear Hpx.
      (* o would be its own prototype: the walk comes back to o with NOT_CACHEABLE set *)
      cbn -[get_obj get_with_slot set_data_case shape_proto] in H. rewrite Hx, gws_eq, L0, P0 in H.
      cbn -[get_obj get_with_slot set_data_case shape_proto] in H. rewrite Hx, gws_eq, L0, P0 in H.
      apply (os_nc _ _ _ _ _ _ _ _ _ _ _ Hx L0 Hrecv) in H; [rewrite (not_cacheable_nc _ H) in Hc; discriminate|].
      vm_compute. reflexivity. }
    destruct (lookup_shape h (o_shape px) k) as [[i a]|] eqn:L1.
    + destruct (a_is_accessor a) eqn:Ea.
      * (* the one cacheable case below the receiver: an accessor on the direct prototype *)
        rewrite (os_proto_acc _ _ _ _ _ _ _ _ _ _ Hx L0 P0 Hpx L1 Ea) in H.
        destruct (get_storage (o_store px) (i, a)) as [d|]; [|discriminate].
        unfold set_acc_result in H. destruct (d_set d) as [[| |fn]|]; inversion H; subst.
        rewrite Hx in Hx'. inversion Hx'; subst.
        right. exists p, px, i, a. repeat split; auto.
      * exfalso.
        cbn -[get_obj get_with_slot set_data_case shape_proto] in H. rewrite Hx, gws_eq, L0, P0 in H.
        cbn -[get_obj get_with_slot set_data_case shape_proto] in H. rewrite Hpx, gws_eq, L1 in H.
        rewrite get_storage_data in H by assumption. destruct (nthN (o_store px) i); [|discriminate].
        cbn -[get_obj get_with_slot set_data_case shape_proto] in H.
        apply sdc_nc in H; [|assumption]. rewrite (not_cacheable_nc _ H) in Hc. discriminate.
    + exfalso.
      cbn -[get_obj get_with_slot set_data_case shape_proto] in H. rewrite Hx, gws_eq, L0, P0 in H.
      cbn -[get_obj get_with_slot set_data_case shape_proto] in H. rewrite Hpx, gws_eq, L1 in H.
      destruct (shape_proto h (o_shape px)) as [q|] eqn:P1.
      * apply (os_nc _ _ _ _ _ _ _ _ _ _ _ Hx L0 Hrecv) in H; [rewrite (not_cacheable_nc _ H) in Hc; discriminate|].
        vm_compute. reflexivity.
      * apply sdc_nc in H; [|assumption]. rewrite (not_cacheable_nc _ H) in Hc. discriminate.
Qed.

(* ------------------------------------------------------------------------------------------- heap steps are monotone *)
Lemma nthN_app_some {A} (l : list A) u x y : nthN l u = Some x -> nthN (l ++ [y]) u = Some x.
Proof. unfold nthN. intro H. rewrite nth_error_app1; auto. apply nth_error_Some. congruence. Qed.
Lemma umono_app h us : umono h {| h_objs := h_objs h; h_ushapes := h_ushapes h ++ [us] |}.
Proof. intros u us0 H. simpl. exists us0. split; auto. now apply nthN_app_some. Qed.
Lemma set_nth_nat_get {A} : forall (l : list A) i v l', set_nth_nat l i v = Some l' ->
  forall j, nth_error l' j = if Nat.eqb i j then Some v else nth_error l j.
Proof.
  induction l as [|a l IH]; intros i v l' H j; [destruct i; discriminate|].
  destruct i; simpl in H.
  - inversion H; subst. destruct j; reflexivity.
  - destruct (set_nth_nat l i v) as [t|] eqn:E; [|discriminate]. inversion H; subst.
    destruct j; simpl; [reflexivity|]. apply (IH _ _ _ E).
Qed.
Lemma lookup_tab_app t r k x : lookup_tab t k = Some x -> lookup_tab (t ++ r) k = Some x.
Proof. induction t as [|[k' s] t IH]; simpl; [discriminate|]. destruct (N.eqb k' k); auto. Qed.
Lemma umono_set_ushape h u us us' : nthN (h_ushapes h) u = Some us ->
  (forall k x, lookup_tab (u_tab us) k = Some x -> lookup_tab (u_tab us') k = Some x) -> umono h (set_ushape h u us').
Proof.
  intros Hu Hl. unfold set_ushape, set_nth. destruct (set_nth_nat (h_ushapes h) (N.to_nat u) us') as [l|] eqn:E; [|apply umono_refl].
  intros u0 us0 H0. simpl. unfold nthN in *. rewrite (set_nth_nat_get _ _ _ _ E).
  destruct (Nat.eqb_spec (N.to_nat u) (N.to_nat u0)) as [Eq|Ne].
  - rewrite <- Eq, Hu in H0. inversion H0; subst. eauto.
  - eauto.
Qed.
Lemma umono_set_obj_r h h1 o x : umono h h1 -> umono h (set_obj h1 o x).
Proof. intro M. eapply umono_trans; [exact M|]. apply umono_eq. unfold set_obj. destruct (set_nth (h_objs h1) o x); reflexivity. Qed.

Lemma finish_shared_umono h p h' s : finish_shared h p = (h', s) -> umono h h'.
Proof.
  unfold finish_shared, new_ushape. destruct (N.leb sf_TRANSITION_COUNT_MAX (lenN p)); intro H; inversion H; subst;
    [apply umono_app | apply umono_refl].
Qed.
Lemma shape_insert_umono h s k a h' s' : shape_insert h s k a = (h', s') -> umono h h'.
Proof.
  unfold shape_insert. destruct s as [p|u]; [apply finish_shared_umono|].
  destruct (nthN (h_ushapes h) u) as [us|] eqn:E; intro H; inversion H; subst; [|apply umono_refl].
  eapply umono_set_ushape; eauto. simpl. intros. now apply lookup_tab_app.
Qed.
Lemma shape_change_attrs_umono h s k a old h' s' act : shape_change_attrs h s k a old = Some (h', s', act) -> umono h h'.
Proof.
  unfold shape_change_attrs, new_ushape. intro H. destruct s as [p|u].
  - break_hyp H; inversion H; subst; eapply finish_shared_umono; eauto.
  - break_hyp H; inversion H; subst; apply umono_app.
Qed.
Lemma shape_remove_umono h s k h' s' : shape_remove h s k = Some (h', s') -> umono h h'.
Proof.
  unfold shape_remove, new_ushape. intro H. destruct s as [p|u].
  - break_hyp H. inversion H. eapply finish_shared_umono; eauto.
  - break_hyp H; inversion H; subst; [apply umono_app | apply umono_refl].
Qed.
Lemma shape_set_proto_umono h s q h' s' : shape_set_proto h s q = (h', s') -> umono h h'.
Proof.
  unfold shape_set_proto, new_ushape. destruct s as [p|u]; [apply finish_shared_umono|].
  destruct (nthN (h_ushapes h) u); intro H; inversion H; subst; [apply umono_app | apply umono_refl].
Qed.

Ltac break_all :=
  repeat match goal with
  | H : context [match ?x with _ => _ end] |- _ => destruct x eqn:?; try discriminate
  end.
Ltac inv_somes :=
  repeat match goal with
  | H : Some _ = Some _ |- _ => inversion H; subst; clear H
  | H : (_, _) = (_, _) |- _ => inversion H; subst; clear H
  end.

Lemma iws_umono h o x k d sl h' sl' : insert_with_slot h o x k d sl = Some (h', sl') -> umono h h'.
Proof.
  intro H. unfold insert_with_slot in H. destruct (to_attrs d) as [a|]; [|discriminate]. cbv zeta in H.
  destruct (lookup_shape h (o_shape x) k) as [[i olda]|].
  - destruct (negb (dattrs_eqb olda a)).
    + destruct (shape_change_attrs h (o_shape x) k a olda) as [[[h1 s1] act]|] eqn:E; [|discriminate].
      apply shape_change_attrs_umono in E. break_all; inv_somes; now apply umono_set_obj_r.
    + break_hyp H; inversion H; subst; apply umono_set_obj_r, umono_refl.
  - destruct (shape_insert h (o_shape x) k a) as [h1 s1] eqn:E. inversion H; subst.
    apply umono_set_obj_r. eapply shape_insert_umono; eauto.
Qed.
Lemma pm_remove_umono h o x k h' : pm_remove h o x k = Some h' -> umono h h'.
Proof.
  intro H. unfold pm_remove in H. break_hyp H; inversion H; subst; try apply umono_refl.
  apply umono_set_obj_r. eauto using shape_remove_umono.
Qed.
Lemma vaa_umono h o x k ext d cur sl h' sl' ok : validate_and_apply h o x k ext d cur sl = Some (h', sl', ok) -> umono h h'.
Proof.
  intro H. unfold validate_and_apply in H. cbv zeta beta in H.
  destruct cur as [cur|].
  - destruct (d_conf cur) as [cconf|]; [|discriminate]. destruct (d_enum cur) as [cenum|]; [|discriminate].
    repeat match type of H with
    | context [match insert_with_slot ?a ?b ?c ?e ?f ?g with _ => _ end] =>
        let E := fresh "E" in destruct (insert_with_slot a b c e f g) as [[? ?]|] eqn:E; [apply iws_umono in E|try discriminate H]
    | context [match ?x with _ => _ end] => destruct x eqn:?; try discriminate H
    end; inversion H; subst; auto using umono_refl.
  - destruct (negb ext); [inversion H; subst; apply umono_refl|].
    destruct (insert_with_slot h o x k _ sl) as [[h1 sl1]|] eqn:E; [|discriminate].
    inversion H; subst. eapply iws_umono; eauto.
Qed.
Lemma dop_umono h o k d sl h' sl' ok : define_own_property h o k d sl = Some (h', sl', ok) -> umono h h'.
Proof.
  intro H. unfold define_own_property in H. destruct (get_obj h o) as [x|]; [|discriminate].
  destruct (get_with_slot h x k sl) as [[cur sl1]|]; [|discriminate]. eapply vaa_umono; eauto.
Qed.
Lemma sdc_umono h o r k v ho od sl tr h' ok sl' : set_data_case h o r k v ho od sl = Some (tr, h', ok, sl') -> umono h h'.
Proof.
  intro H. unfold set_data_case in H. cbv zeta in H.
  repeat match type of H with
  | context [match define_own_property ?a ?b ?c ?e ?f with _ => _ end] =>
      let E := fresh "E" in destruct (define_own_property a b c e f) as [[[? ?] ?]|] eqn:E; [apply dop_umono in E|try discriminate H]
  | context [match ?x with _ => _ end] => destruct x eqn:?; try discriminate H
  end; inversion H; subst; auto using umono_refl.
Qed.
Lemma os_umono : forall fuel h o k v r sl tr h' ok sl', ordinary_set fuel h o k v r sl = Some (tr, h', ok, sl') -> umono h h'.
Proof.
  induction fuel as [|fuel IH]; intros h o k v r sl tr h' ok sl' H; [discriminate|].
  cbn -[get_obj get_with_slot set_data_case shape_proto] in H.
  destruct (get_obj h o) as [x|]; [|discriminate].
  destruct (get_with_slot h x k sl) as [[own sl1]|]; [|discriminate].
  destruct own as [od|].
  - destruct (is_data od); [eapply sdc_umono; eauto|].
    destruct (d_set od) as [[| |f]|]; inversion H; subst; apply umono_refl.
  - destruct (shape_proto h (o_shape x)); [eapply IH; eauto | eapply sdc_umono; eauto].
Qed.
Lemma delete_umono h o k h' ok : ordinary_delete h o k = Some (h', ok) -> umono h h'.
Proof.
  intro H. unfold ordinary_delete in H.
  repeat match type of H with
  | context [match pm_remove ?a ?b ?c ?e with _ => _ end] =>
      let E := fresh "E" in destruct (pm_remove a b c e) eqn:E; [apply pm_remove_umono in E|try discriminate H]
  | context [match ?x with _ => _ end] => destruct x eqn:?; try discriminate H
  end; inversion H; subst; auto using umono_refl.
Qed.
Lemma setproto_umono h o q h' ok : ordinary_set_prototype_of h o q = Some (h', ok) -> umono h h'.
Proof.
  intro H. unfold ordinary_set_prototype_of in H. destruct (get_obj h o) as [x|]; [|discriminate].
  destruct (opt_eqb N.eqb q (shape_proto h (o_shape x))); [inversion H; subst; apply umono_refl|].
  destruct (negb (o_ext x)); [inversion H; subst; apply umono_refl|].
  destruct (proto_chain_has (chain_fuel h) h q o); [inversion H; subst; apply umono_refl|].
  destruct (shape_set_proto h (o_shape x) q) as [h1 s1] eqn:E. inversion H; subst.
  apply umono_set_obj_r. eapply shape_set_proto_umono; eauto.
Qed.
Lemma prevent_umono h o h' : prevent_extensions h o = Some h' -> umono h h'.
Proof.
  unfold prevent_extensions. destruct (get_obj h o); [|discriminate]. intro H; inversion H; subst.
  apply umono_set_obj_r, umono_refl.
Qed.
Lemma freeze_keys_umono : forall ks h o h' ok, freeze_keys h o ks = Some (h', ok) -> umono h h'.
Proof.
  induction ks as [|k r IH]; intros h o h' ok H; simpl in H; [inversion H; subst; apply umono_refl|].
  destruct (get_obj h o) as [x|]; [|discriminate].
  destruct (get_with_slot h x k slot_new) as [[cur sl]|]; [|discriminate].
  destruct cur as [cd|]; [|eauto].
  destruct (define_own_property h o k _ slot_new) as [[[h1 sl1] ok1]|] eqn:E; [|discriminate].
  apply dop_umono in E. destruct ok1.
  - eapply umono_trans; eauto.
  - inversion H; subst. exact E.
Qed.
Lemma freeze_umono h o h' ok : freeze h o = Some (h', ok) -> umono h h'.
Proof.
  unfold freeze. destruct (prevent_extensions h o) as [h1|] eqn:E; [|discriminate].
  destruct (get_obj h1 o) as [x|]; [|discriminate]. intro H.
  eapply umono_trans; [eapply prevent_umono; eauto | eapply freeze_keys_umono; eauto].
Qed.

(* ------------------------------------------------------------------------------------------- simulation: set sites *)
Definition set_regular (sl : slot) : Prop :=
  sf_is_accessor_descriptor (s_attrs sl) = true -> sf_has_set (s_attrs sl) = true.

Lemma set_acc_hit st i a d v h sl tr h' ok slu :
  a_is_accessor a = true -> get_storage st (i, a) = Some d -> a_s a = true ->
  set_acc_result h v d sl = Some (tr, h', ok, slu) ->
  exists r, nthN st (i + 1) = Some r /\ h' = h /\
    ((exists f, r = VFun f /\ tr = call_setter f v /\ ok = true) \/ (is_object r = false /\ tr = [] /\ ok = false)).
Proof.
  intros Ha Hd Hs H. destruct (get_storage_acc_kind _ _ _ _ Ha Hd) as [g [s [Hk [Hseq Hex]]]].
  destruct (Hex Hs) as [r Hr]. rewrite Hs, Hr in Hseq. subst s.
  unfold set_acc_result, d_set in H. rewrite Hk in H. exists r. split; auto.
  destruct r as [|n|f]; inversion H; subst; (split; [reflexivity|]).
  - right. auto.
  - right. auto.
  - left. eauto.
Qed.

Lemma set_hit_sim : forall h k o x sl v tr h' ok slu,
  get_obj h o = Some x -> slot_describes SSet h k (o_shape x) sl -> set_regular sl ->
  ordinary_set (chain_fuel h) h o k v o slot_new = Some (tr, h', ok, slu) ->
  (sf_is_accessor_descriptor (s_attrs sl) = true /\ sf_has_set (s_attrs sl) = true /\
   exists stg r, hit_store h x sl = Some stg /\ nthN stg (s_index sl + 1) = Some r /\ h' = h /\
     ((exists f, r = VFun f /\ tr = call_setter f v /\ ok = true) \/ (is_object r = false /\ tr = [] /\ ok = false)))
  \/
  (sf_is_accessor_descriptor (s_attrs sl) = false /\ has_flag (s_attrs sl) sf_PROTOTYPE = false /\
   exists stg, set_nth (o_store x) (s_index sl) v = Some stg /\ tr = [] /\ ok = true /\
     h' = set_obj h o {| o_shape := o_shape x; o_store := stg; o_ext := o_ext x |}).
Proof.
  intros h k o x sl v tr h' ok slu Hx Hok Hreg H.
  destruct (chain_fuel_SS h) as [f Hf]. rewrite Hf in H.
  destruct Hok as [(i & a & L0 & -> & Hw) | (p & px & i & a & L0 & P0 & Hpx & L1 & -> & Hacc)].
  - destruct (own_pat_facts a) as (Fp & Fg & Fs & Fa & _).
    destruct (a_is_accessor a) eqn:Ea.
    + left. rewrite (os_own_acc _ _ _ _ _ _ _ _ Hx L0 Ea) in H.
      destruct (get_storage (o_store x) (i, a)) as [d|] eqn:Hd; [|discriminate].
      unfold set_regular in Hreg. simpl in Hreg. rewrite Fa, Fs in Hreg. pose proof (Hreg eq_refl) as Hs.
      destruct (set_acc_hit _ _ _ _ _ _ _ _ _ _ _ Ea Hd Hs H) as [r [Hn [Hh Hcase]]].
      simpl. rewrite Fa, Fs. repeat split; auto. exists (o_store x), r. repeat split; auto. apply hit_store_own.
    + right. rewrite (os_own_data _ _ _ _ _ _ _ _ Hx L0 Ea (Hw eq_refl eq_refl)) in H.
      destruct (nthN (o_store x) i); [|discriminate].
      destruct (set_nth (o_store x) i v) as [stg|] eqn:Es; [|discriminate].
      inversion H; subst. simpl. rewrite Fa, Fp. repeat split; auto. exists stg. repeat split; auto.
  - specialize (Hacc eq_refl).
    destruct (proto_pat_facts a) as (Fp & Fg & Fs & Fa & _).
    left. rewrite (os_proto_acc _ _ _ _ _ _ _ _ _ _ Hx L0 P0 Hpx L1 Hacc) in H.
    destruct (get_storage (o_store px) (i, a)) as [d|] eqn:Hd; [|discriminate].
    unfold set_regular in Hreg. simpl in Hreg. rewrite Fa, Fs, Hacc in Hreg. pose proof (Hreg eq_refl) as Hs.
    destruct (set_acc_hit _ _ _ _ _ _ _ _ _ _ _ Hacc Hd Hs H) as [r [Hn [Hh Hcase]]].
    simpl. rewrite Fa, Fs, Hacc. repeat split; auto. exists (o_store px), r. repeat split; auto.
    eapply hit_store_proto; eauto.
Qed.

(* ------------------------------------------------------------------------------------------- accessor bodies *)
Lemma heap_op_umono h o outs h' : heap_op h o = Some (outs, h') -> umono h h'.
Proof.
  intro H. destruct o; simpl in H; try (inversion H; subst; apply umono_refl);
    (destruct (get_obj h o); [|inversion H; subst; apply umono_refl]).
  - destruct (define_own_property h o k d slot_new) as [[[h1 sl] ok]|] eqn:E; [|discriminate].
    inversion H; subst. eapply dop_umono; eauto.
  - destruct (ordinary_delete h o k) as [[h1 ok]|] eqn:E; [|discriminate]. inversion H; subst. eapply delete_umono; eauto.
  - destruct (ordinary_set_prototype_of h o p) as [[h1 ok]|] eqn:E; [|discriminate]. inversion H; subst. eapply setproto_umono; eauto.
  - destruct (prevent_extensions h o) as [h1|] eqn:E; [|discriminate]. inversion H; subst. eapply prevent_umono; eauto.
  - destruct (freeze h o) as [[h1 ok]|] eqn:E; [|discriminate]. inversion H; subst. eapply freeze_umono; eauto.
Qed.
Lemma apply_ops_umono : forall b h h', apply_ops h b = Some h' -> umono h h'.
Proof.
  induction b as [|o r IH]; simpl; intros h h' H; [inversion H; subst; apply umono_refl|].
  destruct (heap_op h o) as [[outs h1]|] eqn:E; [|discriminate].
  eapply umono_trans; [eapply heap_op_umono; eauto | eauto].
Qed.
Lemma apply_calls_umono : forall ft tr h h', apply_calls ft h tr = Some h' -> umono h h'.
Proof.
  induction tr as [|o r IH]; simpl; intros h h' H; [inversion H; subst; apply umono_refl|].
  destruct o; eauto.
  destruct (apply_ops h (body_of ft f)) as [h1|] eqn:E; [|discriminate].
  eapply umono_trans; [eapply apply_ops_umono; eauto | eauto].
Qed.

(* ------------------------------------------------------------------------------------------- the decidable "describes" *)
Lemma slot_eqb_eq a b : slot_eqb a b = true -> a = b.
Proof.
  destruct a, b. unfold slot_eqb. simpl. intro H. apply andb_true_iff in H as [H1 H2].
  apply N.eqb_eq in H1. apply N.eqb_eq in H2. now subst.
Qed.
Lemma describes_b_sound kd h k s sl : describes_b kd h k s sl = true -> slot_describes kd h k s sl.
Proof.
  unfold describes_b, proto_lookup. destruct (lookup_shape h s k) as [[i a]|] eqn:L0.
  - intro H. apply andb_true_iff in H as [H1 H2]. apply slot_eqb_eq in H1. left. exists i, a. repeat split; auto.
    intros -> Ha. simpl in H2. rewrite Ha in H2. exact H2.
  - destruct (shape_proto h s) as [p|] eqn:P0; [|discriminate].
    destruct (get_obj h p) as [px|] eqn:Hpx; [|discriminate].
    destruct (lookup_shape h (o_shape px) k) as [[i a]|] eqn:L1; [|discriminate].
    intro H. apply andb_true_iff in H as [H1 H2]. apply slot_eqb_eq in H1. right. exists p, px, i, a. repeat split; auto.
    intros ->. exact H2.
Qed.

Definition is_bad (o : out) : bool := match o with OBadStore => true | _ => false end.
Lemma no_bad_ghost l b : existsb is_bad (l ++ ghost b) = false -> b = false.
Proof. rewrite existsb_app. intro H. apply orb_false_iff in H as [_ H]. destruct b; [discriminate | reflexivity]. Qed.
Lemma no_bad_ghost2 l1 l2 b : existsb is_bad (l1 ++ l2 ++ ghost b) = false -> b = false.
Proof. rewrite app_assoc. apply no_bad_ghost. Qed.
Lemma visible_ghost b : filter visible (ghost b) = [].
Proof. destruct b; reflexivity. Qed.

(* ------------------------------------------------------------------------------------------- simulation: get sites *)
Local Opaque ordinary_try_get ordinary_set chain_fuel hit_store apply_calls.

Lemma sim_get : forall rc ft glob stc stu kd n k o outs_u stu',
  kd <> SSet -> IC_valid stc -> st_heap stc = st_heap stu ->
  (forall x sl, get_obj (st_heap stc) o = Some x ->
     fst (fst (ic_get (site_get (st_sites stc) (kd, n, k)) (st_heap stc) k (o_shape x))) = Some sl ->
     get_regular (st_heap stc) x sl) ->
  cached_get rc false ft glob stu (kd, n, k) o = Some (outs_u, stu') ->
  exists outs_c stc', cached_get rc true ft glob stc (kd, n, k) o = Some (outs_c, stc') /\
    filter visible outs_c = filter visible outs_u /\ st_heap stc' = st_heap stu' /\
    (existsb is_bad outs_c = false -> IC_valid stc').
Proof.
  intros rc ft glob stc stu kd n k o outs_u stu' Hkd Hv Hh Hreg H.
  unfold cached_get in *. rewrite <- Hh in H. remember (st_heap stc) as h eqn:Eh.
  destruct (get_obj h o) as [x|] eqn:Hx.
  2:{ inversion H; subst. exists [ONoObj], stc. repeat split; auto. }
  destruct (ordinary_try_get (chain_fuel h) h o k slot_new) as [[[tr r] slu]|] eqn:G; [|discriminate].
  cbn -[apply_calls] in H.
  destruct (apply_calls ft h tr) as [h1|] eqn:A; [|discriminate]. cbn -[apply_calls] in H.
  destruct (get_obj h1 o) as [x1|] eqn:Hx1; [|discriminate]. cbn -[apply_calls] in H.
  pose proof (apply_calls_umono _ _ _ _ A) as Hmono.
  assert (Hv0 : IC_valid {| st_heap := h; st_sites := st_sites stc |}) by (rewrite Eh; destruct stc; exact Hv).
  pose proof (IC_valid_heap_step _ h1 Hv0 Hmono) as Hv1. simpl in Hv1.
  destruct (ic_get (site_get (st_sites stc) (kd, n, k)) h k (o_shape x)) as [[hit c1] ev] eqn:I.
  destruct (ic_get_spec _ _ _ _ _ _ _ I) as [Hsub Hhit].
  assert (Hc1 : forall e, In e (c_entries c1) -> entry_ok kd h1 k e).
  { intros e He. eapply entry_ok_mono; [exact Hmono|]. rewrite Eh. apply (cache_entries_ok stc kd n k Hv e). auto. }
  destruct hit as [sl|].
  - destruct (Hhit sl eq_refl) as [-> (e & Hin & Hs & Hsl & Hcur)].
    pose proof (cache_entries_ok stc kd n k Hv _ Hin) as Hok. rewrite <- Eh in Hok.
    rewrite <- Hs in Hcur. pose proof (current_entry_describes kd h k e Hok Hcur) as Hd. rewrite Hs, Hsl in Hd.
    assert (Hr : get_regular h x sl) by (apply (Hreg x sl eq_refl); rewrite I; reflexivity).
    destruct (get_hit_sim kd h k o x sl tr r slu Hkd Hx Hd Hr G) as [stg [res [Hst [Hn [Ht Hrr]]]]].
    rewrite Hst, Hn. fold (hit_get_result sl res).
    destruct (hit_get_result sl res) as [tr' v'] eqn:Ehr. simpl in Ht, Hrr. subst tr r.
    cbn -[apply_calls]. rewrite A. inversion H; subst; clear H.
    eexists; eexists; split; [reflexivity|].
    rewrite !filter_visible_app. simpl. repeat split; auto.
  - cbn -[apply_calls].
    destruct (sf_is_cacheable (s_attrs slu)) eqn:Ec.
    + destruct (ic_set rc kd c1 h1 k (o_shape x1) slu) as [[c' ev'] bad] eqn:Es.
      assert (Hv' : bad = false -> IC_valid {| st_heap := h1; st_sites := site_put (st_sites stc) (kd, n, k) c' |}).
      { intro Hb. apply (IC_valid_put {| st_heap := h1; st_sites := st_sites stc |} kd n k c' Hv1). simpl. intros e He.
        destruct (ic_set_entries _ _ _ _ _ _ _ _ _ _ Es e He) as [Ho | [-> Hbad]]; [auto|].
        apply fresh_entry_ok. apply describes_b_sound. rewrite Hb in Hbad.
        destruct (describes_b kd h1 k (o_shape x1) slu); [reflexivity | discriminate]. }
      destruct r as [v|]; [|destruct glob]; inversion H; subst; clear H;
        (eexists; eexists; split; [reflexivity|]; rewrite !filter_visible_app; simpl; rewrite visible_ghost;
         repeat split; auto; intro Hnb; apply Hv'; exact (no_bad_ghost2 tr [_; _] bad Hnb)).
    + assert (Hv' : IC_valid {| st_heap := h1; st_sites := site_put (st_sites stc) (kd, n, k) c1 |}).
      { apply (IC_valid_put {| st_heap := h1; st_sites := st_sites stc |} kd n k _ Hv1). auto. }
      destruct r as [v|]; [|destruct glob]; inversion H; subst; clear H;
        (eexists; eexists; split; [reflexivity|]; rewrite !filter_visible_app; simpl; repeat split; auto).
Qed.

(* ------------------------------------------------------------------------------------------- simulation: set sites *)
Lemma apply_calls_nil ft h : apply_calls ft h [] = Some h.
Proof. reflexivity. Qed.

Lemma sim_set : forall rc ft stc stu n k o v outs_u stu',
  IC_valid stc -> st_heap stc = st_heap stu ->
  (forall x sl, get_obj (st_heap stc) o = Some x ->
     fst (fst (ic_get (site_get (st_sites stc) (SSet, n, k)) (st_heap stc) k (o_shape x))) = Some sl -> set_regular sl) ->
  cached_set rc false ft stu (SSet, n, k) o v = Some (outs_u, stu') ->
  exists outs_c stc', cached_set rc true ft stc (SSet, n, k) o v = Some (outs_c, stc') /\
    filter visible outs_c = filter visible outs_u /\ st_heap stc' = st_heap stu' /\
    (existsb is_bad outs_c = false -> IC_valid stc').
Proof.
  intros rc ft stc stu n k o v outs_u stu' Hv Hh Hreg H.
  unfold cached_set in H. rewrite <- Hh in H.
  remember (st_heap stc) as h eqn:Eh.
  destruct (get_obj h o) as [x|] eqn:Hx.
  2:{ inversion H; subst. exists [ONoObj], stc. split; [|repeat split; auto].
      unfold cached_set. rewrite Hx. reflexivity. }
  destruct (ordinary_set (chain_fuel h) h o k v o slot_new) as [[[[tr h'] ok] slu]|] eqn:G; [|discriminate].
  cbn -[apply_calls] in H.
  destruct (apply_calls ft h' tr) as [h1|] eqn:A; [|discriminate]. cbn -[apply_calls] in H.
  destruct (get_obj h1 o) as [x'|] eqn:Hx'; [|discriminate]. cbn -[apply_calls] in H.
  inversion H; subst outs_u stu'; clear H.
  pose proof (umono_trans _ _ _ (os_umono _ _ _ _ _ _ _ _ _ _ _ G) (apply_calls_umono _ _ _ _ A)) as Hmono.
  destruct (ic_get (site_get (st_sites stc) (SSet, n, k)) h k (o_shape x)) as [[hit c1] ev] eqn:I.
  destruct (ic_get_spec _ _ _ _ _ _ _ I) as [Hsub Hhit].
  assert (Hv0 : IC_valid {| st_heap := h; st_sites := st_sites stc |}) by (rewrite Eh; destruct stc; exact Hv).
  pose proof (IC_valid_heap_step _ h1 Hv0 Hmono) as Hv1. simpl in Hv1.
  assert (Hc1 : forall e, In e (c_entries c1) -> entry_ok SSet h1 k e).
  { intros e He. eapply entry_ok_mono; [exact Hmono|]. rewrite Eh. apply (cache_entries_ok stc SSet n k Hv e). auto. }
  destruct hit as [sl|].
  - destruct (Hhit sl eq_refl) as [-> (e & Hin & Hs & Hsl & Hcur)].
    pose proof (cache_entries_ok stc SSet n k Hv _ Hin) as Hok. rewrite <- Eh in Hok.
    rewrite <- Hs in Hcur. pose proof (current_entry_describes SSet h k e Hok Hcur) as Hd. rewrite Hs, Hsl in Hd.
    assert (Hr : set_regular sl) by (apply (Hreg x sl eq_refl); rewrite I; reflexivity).
    destruct (set_hit_sim h k o x sl v tr h' ok slu Hx Hd Hr G)
      as [(Ha & Hset & stg & r & Hst & Hn & Hh' & Hcase) | (Ha & Hp & stg & Hst & Ht & Ho & Hh')].
    + subst h'. destruct Hcase as [(f & -> & -> & ->) | (Hno & -> & ->)].
      * assert (E : cached_set rc true ft stc (SSet, n, k) o v =
                    Some (call_setter f v ++ [OBool true; OIC ev], {| st_heap := h1; st_sites := st_sites stc |})).
        { unfold cached_set. rewrite <- Eh, Hx, I. cbn -[hit_store apply_calls]. rewrite Ha, Hst, Hn, Hset.
          cbn -[hit_store apply_calls]. rewrite A. reflexivity. }
        eexists; eexists; split; [exact E|]. rewrite !filter_visible_app. simpl. repeat split; auto.
      * rewrite apply_calls_nil in A. inversion A; subst h1.
        assert (E : cached_set rc true ft stc (SSet, n, k) o v = Some ([OTypeErr; OIC ev], stc)).
        { unfold cached_set. rewrite <- Eh, Hx, I. cbn -[hit_store apply_calls]. rewrite Ha, Hst, Hn, Hset, Hno. reflexivity. }
        eexists; eexists; split; [exact E|]. simpl. rewrite <- Eh. repeat split; auto.
    + subst tr ok h'. rewrite apply_calls_nil in A. inversion A; subst h1.
      assert (E : cached_set rc true ft stc (SSet, n, k) o v =
                  Some ([OBool true; OIC ev],
                        {| st_heap := set_obj h o {| o_shape := o_shape x; o_store := stg; o_ext := o_ext x |};
                           st_sites := st_sites stc |})).
      { unfold cached_set. rewrite <- Eh, Hx, I. cbn -[hit_store apply_calls]. rewrite Ha, Hp, Hst. reflexivity. }
      eexists; eexists; split; [exact E|]. simpl. repeat split; auto.
  - destruct (ok && sf_is_cacheable (s_attrs slu)) eqn:Ec.
    + destruct (ic_set rc SSet c1 h1 k (o_shape x') slu) as [[c' ev'] bad] eqn:Es.
      assert (E : cached_set rc true ft stc (SSet, n, k) o v =
                  Some (tr ++ [if ok then OBool true else OTypeErr; OIC (ev ++ ev')] ++ ghost bad,
                        {| st_heap := h1; st_sites := site_put (st_sites stc) (SSet, n, k) c' |})).
      { unfold cached_set. rewrite <- Eh, Hx, I. cbn -[hit_store apply_calls]. rewrite G. cbn -[hit_store apply_calls].
        rewrite A. cbn -[hit_store apply_calls]. rewrite Hx'. cbn -[hit_store apply_calls]. rewrite Ec, Es. reflexivity. }
      eexists; eexists; split; [exact E|]. refine (conj _ (conj _ _)).
      { rewrite !filter_visible_app. simpl. rewrite visible_ghost. destruct ok; simpl; rewrite ?app_nil_r; reflexivity. }
      { reflexivity. }
      intro Hnb. apply (no_bad_ghost2 tr [_; _] bad) in Hnb.
      apply (IC_valid_put {| st_heap := h1; st_sites := st_sites stc |} SSet n k c' Hv1). simpl. intros e He.
      destruct (ic_set_entries _ _ _ _ _ _ _ _ _ _ Es e He) as [Hold | [-> Hbad]]; [auto|].
      apply fresh_entry_ok. apply describes_b_sound. rewrite Hnb in Hbad.
      destruct (describes_b SSet h1 k (o_shape x') slu); [reflexivity | discriminate].
    + assert (E : cached_set rc true ft stc (SSet, n, k) o v =
                  Some (tr ++ [if ok then OBool true else OTypeErr; OIC (ev ++ [])] ++ ghost false,
                        {| st_heap := h1; st_sites := site_put (st_sites stc) (SSet, n, k) c1 |})).
      { unfold cached_set. rewrite <- Eh, Hx, I. cbn -[hit_store apply_calls]. rewrite G. cbn -[hit_store apply_calls].
        rewrite A. cbn -[hit_store apply_calls]. rewrite Hx'. cbn -[hit_store apply_calls]. rewrite Ec. reflexivity. }
      eexists; eexists; split; [exact E|]. refine (conj _ (conj _ _)).
      { rewrite !filter_visible_app. simpl. destruct ok; simpl; rewrite ?app_nil_r; reflexivity. }
      { reflexivity. }
      intros _. apply (IC_valid_put {| st_heap := h1; st_sites := st_sites stc |} SSet n k c1 Hv1). auto.
Qed.

(* ------------------------------------------------------------------------------------------- steps *)
Local Transparent hit_store.

Lemma hit_irr_get st kd s k ob (o : op) :
  (o = OpGet s k ob /\ kd = SGet) \/ (o = OpGetGlobal s k /\ kd = SGlobal /\ ob = GLOBAL) ->
  hit_irregular st o = false ->
  forall x sl, get_obj (st_heap st) ob = Some x ->
    fst (fst (ic_get (site_get (st_sites st) (kd, s, k)) (st_heap st) k (o_shape x))) = Some sl ->
    get_regular (st_heap st) x sl.
Proof.
  intros Ho H x sl Hx Hi.
  assert (H' : sf_is_accessor_descriptor (s_attrs sl) &&
               (if sf_has_get (s_attrs sl) then
                  match hit_store (st_heap st) x sl with
                  | Some stg => match nthN stg (s_index sl) with Some (VNum _) => true | _ => false end
                  | None => false
                  end
                else true) = false).
  { destruct Ho as [[-> ->] | [-> [-> ->]]]; unfold hit_irregular in H; cbv beta iota zeta in H;
      rewrite Hx, Hi in H; exact H. }
  clear H. intro Ha. rewrite Ha in H'. simpl in H'. destruct (sf_has_get (s_attrs sl)); [|discriminate].
  split; auto. intros stg n Hs Hn. rewrite Hs, Hn in H'. discriminate.
Qed.

Lemma hit_irr_set st s k ob v :
  hit_irregular st (OpSet s k ob v) = false ->
  forall x sl, get_obj (st_heap st) ob = Some x ->
    fst (fst (ic_get (site_get (st_sites st) (SSet, s, k)) (st_heap st) k (o_shape x))) = Some sl -> set_regular sl.
Proof.
  intros H x sl Hx Hi. unfold hit_irregular in H. rewrite Hx, Hi in H.
  intro Ha. rewrite Ha in H. simpl in H. destruct (sf_has_set (s_attrs sl)); [reflexivity | discriminate].
Qed.

Definition is_site_op (o : op) : bool :=
  match o with OpGet _ _ _ | OpSet _ _ _ _ | OpGetGlobal _ _ => true | _ => false end.

(* operations that do not run a site: same outputs, same heap, a monotone heap step; the caches are untouched or only
   lose entries *)
Lemma step_nonsite : forall rc ft o stc stu outs stu',
  is_site_op o = false -> st_heap stc = st_heap stu ->
  step rc false ft stu o = Some (outs, stu') ->
  exists stc', step rc true ft stc o = Some (outs, stc') /\ st_heap stc' = st_heap stu' /\ umono (st_heap stc) (st_heap stc') /\
    (st_sites stc' = st_sites stc \/
     exists kd s k keep, o = OpEvict kd s k keep /\ st_heap stc' = st_heap stc /\
       st_sites stc' = site_put (st_sites stc) (kd, s, k)
         {| c_entries := filter_keep (c_entries (site_get (st_sites stc) (kd, s, k))) keep;
            c_mega := c_mega (site_get (st_sites stc) (kd, s, k)) |}).
Proof.
  intros rc ft o stc stu outs stu' Hs Hh H.
  assert (Hheap : forall o', o' = o -> (forall outs0 h0, heap_op (st_heap stc) o' = Some (outs0, h0) -> True) -> True) by auto.
  destruct o; try discriminate Hs; unfold step in *; rewrite <- Hh in H; unfold with_heap in *;
    try (match type of H with context [heap_op ?hh ?oo] =>
           destruct (heap_op hh oo) as [[outs0 h0]|] eqn:E; [|discriminate];
           inversion H; subst; eexists; split; [reflexivity|]; simpl; repeat split; auto;
           eapply heap_op_umono; eauto end).
  - destruct (match proto with Some q => negb (N.ltb q (lenN (h_objs (st_heap stc)))) | None => false end).
    + inversion H; subst. eexists; split; [reflexivity|]. simpl. auto using umono_refl.
    + destruct unique.
      * unfold new_ushape in *. inversion H; subst. eexists; split; [reflexivity|]. simpl. repeat split; auto.
        apply umono_app.
      * inversion H; subst. eexists; split; [reflexivity|]. simpl. repeat split; auto. apply umono_eq. reflexivity.
  - destruct (get_obj (st_heap stc) o) as [x|]; [|inversion H; subst; eexists; split; [reflexivity|]; simpl; auto using umono_refl].
    destruct (dump_props (o_store x) (shape_tab (st_heap stc) (o_shape x))); [|discriminate].
    inversion H; subst. eexists; split; [reflexivity|]. simpl. auto using umono_refl.
  - inversion H; subst. eexists; split; [reflexivity|]. simpl. repeat split; auto using umono_refl. right.
    exists kind, s, k, keep. auto.
Qed.

Lemma sim_step : forall rc ft o stc stu outs_u stu',
  IC_valid stc -> st_heap stc = st_heap stu -> hit_irregular stc o = false ->
  step rc false ft stu o = Some (outs_u, stu') ->
  exists outs_c stc', step rc true ft stc o = Some (outs_c, stc') /\
    filter visible outs_c = filter visible outs_u /\ st_heap stc' = st_heap stu' /\
    (existsb is_bad outs_c = false -> IC_valid stc').
Proof.
  intros rc ft o stc stu outs_u stu' Hv Hh Hirr H.
  destruct (is_site_op o) eqn:Hs.
  - destruct o; try discriminate Hs; cbn [step] in *.
    + destruct (sim_get rc ft false stc stu SGet s k o outs_u stu') as (oc & stc' & E & Hvis & Hc & Hv'); auto.
      * discriminate.
      * eapply hit_irr_get; eauto.
      * exists oc, stc'. repeat split; auto.
    + destruct (sim_set rc ft stc stu s k o v outs_u stu') as (oc & stc' & E & Hvis & Hc & Hv'); auto.
      * eapply hit_irr_set; eauto.
      * exists oc, stc'. repeat split; auto.
    + destruct (sim_get rc ft true stc stu SGlobal s k GLOBAL outs_u stu') as (oc & stc' & E & Hvis & Hc & Hv'); auto.
      * discriminate.
      * eapply hit_irr_get; eauto.
      * exists oc, stc'. repeat split; auto.
  - destruct (step_nonsite rc ft o stc stu outs_u stu' Hs Hh H) as (stc' & E & Hheap & Hmono & Hsites).
    exists outs_u, stc'. repeat split; auto. intros _.
    destruct Hsites as [Hsame | (kd & s & k & keep & -> & Hh' & Hput)].
    + destruct stc' as [h' ss']. simpl in *. subst ss'. apply IC_valid_heap_step; auto.
    + destruct stc' as [h' ss']. simpl in Hh', Hput. rewrite Hput, Hh'.
      apply (IC_valid_put stc kd s k _ Hv). simpl. intros e He. apply filter_keep_in in He.
      eapply cache_entries_ok; eauto.
Qed.

Lemma run_sim : forall rc ft ops stc stu i j,
  IC_valid stc -> st_heap stc = st_heap stu -> first_irregular rc ft stc ops i = None ->
  first_bad_store (run rc true ft stc ops) j = None ->
  ~ In None (run rc false ft stu ops) ->
  observable (run rc true ft stc ops) = observable (run rc false ft stu ops).
Proof.
  induction ops as [|o r IH]; intros stc stu i j Hv Hh Hk Hb Hnp; [reflexivity|].
  cbn [run first_irregular] in *.
  destruct (hit_irregular stc o) eqn:Hirr; [discriminate|].
  destruct (step rc false ft stu o) as [[outs_u stu']|] eqn:Eu.
  2:{ exfalso. apply Hnp. left. reflexivity. }
  destruct (sim_step rc ft o stc stu outs_u stu' Hv Hh Hirr Eu) as (oc & stc' & Ec & Hvis & Hheap & Hv').
  rewrite Ec in *. cbn [first_bad_store] in Hb. change (fun o0 : out => match o0 with OBadStore => true | _ => false end) with is_bad in Hb.
  destruct (existsb is_bad oc) eqn:Eb; [discriminate|].
  unfold observable in *. cbn [map]. rewrite Hvis. f_equal.
  apply (IH stc' stu' (i + 1) (j + 1)); auto. intro Hin. apply Hnp. right. exact Hin.
Qed.

(* transparency for every re-check mode, every function table, every history: the only mutation-related condition is that no
   step stores an entry that does not describe the receiver (decidable: BadStore) *)
Lemma ic_transparent_modes_lemma : forall rc ft ops,
  ~ Irregular rc ft ops -> ~ BadStore rc ft ops -> ~ In None (run rc false ft init ops) ->
  observable (run rc true ft init ops) = observable (run rc false ft init ops).
Proof.
  intros rc ft ops Hk Hb Hnp.
  apply (run_sim rc ft ops init init 0 0); auto using IC_valid_init.
  - unfold Irregular in Hk. destruct (first_irregular rc ft init ops 0); [exfalso; apply Hk; discriminate | reflexivity].
  - unfold BadStore in Hb. destruct (first_bad_store (run rc true ft init ops) 0); [exfalso; apply Hb; discriminate | reflexivity].
Qed.

(* every step that stores no non-describing entry keeps the invariant *)
Lemma IC_valid_step_lemma : forall rc ft o st outs st',
  IC_valid st -> hit_irregular st o = false -> step rc false ft st o <> None ->
  step rc true ft st o = Some (outs, st') -> existsb is_bad outs = false -> IC_valid st'.
Proof.
  intros rc ft o st outs st' Hv Hk Hu E Hb.
  destruct (step rc false ft st o) as [[ou su]|] eqn:Eu; [|contradiction].
  destruct (sim_step rc ft o st st ou su Hv eq_refl Hk Eu) as (oc & stc' & Ec & _ & _ & Hv').
  rewrite E in Ec. inversion Ec; subst. auto.
Qed.

Lemma set_keeps_shape_lookups_lemma : forall fuel h o k v r sl tr h' ok sl' s k' x,
  ordinary_set fuel h o k v r sl = Some (tr, h', ok, sl') ->
  lookup_shape h s k' = Some x -> lookup_shape h' s k' = Some x.
Proof. intros. eapply lookup_stable; [eapply os_umono|]; eauto. Qed.
