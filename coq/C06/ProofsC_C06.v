(* C06 lemmas, part 3: [[Set]] -- the slow path on cached shapes, bookkeeping of ordinary_set, step simulation
   for set sites, and the run-level theorem. *)
From Coq Require Import NArith Bool List Lia.
From Gen Require Import SlotFlags.
From C06 Require Import Model_C06 Proofs_C06 ProofsB_C06.
Import ListNotations.
Local Open Scope N_scope.

(* ------------------------------------------------------------------------------------------- [[Set]] on the cached shapes *)
Local Transparent ordinary_try_get chain_fuel hit_store.

Lemma set_nth_some {A} (l : list A) i v x : nthN l i = Some x -> exists l', set_nth l i v = Some l'.
Proof.
  unfold nthN, set_nth. generalize (N.to_nat i). intro n. revert l.
  induction n; destruct l; simpl; try discriminate; eauto.
  intro H. destruct (IHn _ H) as [l' ->]. eauto.
Qed.
Lemma set_nth_none {A} (l : list A) i v : nthN l i = None -> set_nth l i v = None.
Proof.
  unfold nthN, set_nth. generalize (N.to_nat i). intro n. revert l.
  induction n; destruct l; simpl; try discriminate; auto.
  intro H. now rewrite (IHn _ H).
Qed.

(* `o.k = v` where k is an own writable data property of o: the slow path is a storage write *)
Lemma define_value_existing h o x k i a v inb :
  get_obj h o = Some x -> lookup_shape h (o_shape x) k = Some (i, a) -> a_is_accessor a = false -> a_w a = true ->
  define_own_property h o k {| d_kind := KData (Some v) None; d_enum := None; d_conf := None |} {| s_index := i; s_attrs := inb |} =
    (_ <- nthN (o_store x) i ;; stg <- set_nth (o_store x) i v ;;
     Some (set_obj h o {| o_shape := o_shape x; o_store := stg; o_ext := o_ext x |},
           {| s_index := i; s_attrs := N.lor (N.lor (N.land (gws_attrs inb a) sf_INLINE_CACHE_BITS) (bits_of a)) sf_FOUND |}, true)).
Proof.
  intros Hx L Ha Hw. unfold define_own_property. rewrite Hx, gws_eq, L, get_storage_data by assumption.
  destruct (nthN (o_store x) i) as [cv|] eqn:En; [|reflexivity].
  unfold validate_and_apply, insert_with_slot.
  all_dattrs a; try discriminate Ha; try discriminate Hw;
    cbn -[lookup_shape set_obj set_nth gws_attrs]; rewrite L;
    cbn -[lookup_shape set_obj set_nth gws_attrs];
    destruct (set_nth (o_store x) i v); reflexivity.
Qed.

Lemma os_own_data fuel h o k v x i a :
  get_obj h o = Some x -> lookup_shape h (o_shape x) k = Some (i, a) -> a_is_accessor a = false -> a_w a = true ->
  ordinary_set (S fuel) h o k v o slot_new =
    (_ <- nthN (o_store x) i ;; stg <- set_nth (o_store x) i v ;;
     Some ([], set_obj h o {| o_shape := o_shape x; o_store := stg; o_ext := o_ext x |}, true, own_pat i a)).
Proof.
  intros Hx L Ha Hw.
  cbn -[get_obj get_with_slot define_own_property shape_proto N.eqb].
  rewrite Hx, gws_eq, L, get_storage_data by assumption.
  destruct (nthN (o_store x) i) as [cv|] eqn:En; [|reflexivity].
  all_dattrs a; try discriminate Ha; try discriminate Hw;
    cbn -[get_obj get_with_slot define_own_property shape_proto N.eqb gws_attrs own_pat];
    rewrite N.eqb_refl;
    cbn -[get_obj get_with_slot define_own_property shape_proto gws_attrs own_pat];
    rewrite ?Hx;
    cbn -[get_obj get_with_slot define_own_property shape_proto gws_attrs own_pat];
    rewrite (define_value_existing h o x k i _ v _ Hx L eq_refl eq_refl), En;
    cbn -[gws_attrs own_pat set_obj];
    (destruct (set_nth (o_store x) i v); [|reflexivity]); reflexivity.
Qed.

Lemma get_storage_acc_kind st i a d : a_is_accessor a = true -> get_storage st (i, a) = Some d ->
  exists g s, d_kind d = KAcc g s /\
    (s = if a_s a then match nthN st (i + 1) with Some v => Some v | None => None end else None) /\
    (a_s a = true -> exists v, nthN st (i + 1) = Some v).
Proof.
  intros Ha H. rewrite get_storage_acc in H by assumption.
  destruct (if a_g a then v <- nthN st i;; Some (Some v) else Some None) as [g|]; [|discriminate].
  destruct (a_s a).
  - destruct (nthN st (i + 1)) as [v|]; [|discriminate]. inversion H; subst. exists g, (Some v). simpl. eauto.
  - inversion H; subst. exists g, None. simpl. repeat split; auto. discriminate.
Qed.

Definition set_acc_result (h : heap) (v : val) (d : pdesc) (sl : slot) : option (list out * heap * bool * slot) :=
  match d_set d with
  | Some (VFun f) => Some (call_setter f v, h, true, sl)
  | _ => Some ([], h, false, sl)
  end.

Lemma os_own_acc fuel h o k v x i a :
  get_obj h o = Some x -> lookup_shape h (o_shape x) k = Some (i, a) -> a_is_accessor a = true ->
  ordinary_set (S fuel) h o k v o slot_new =
    (d <- get_storage (o_store x) (i, a) ;; set_acc_result h v d (own_pat i a)).
Proof.
  intros Hx L Ha.
  cbn -[get_obj get_with_slot define_own_property shape_proto N.eqb get_storage].
  rewrite Hx, gws_eq, L.
  destruct (get_storage (o_store x) (i, a)) as [d|] eqn:Hd; [|reflexivity].
  destruct (get_storage_acc_kind _ _ _ _ Ha Hd) as [g [s [Hk _]]].
  cbn -[get_obj get_with_slot define_own_property shape_proto N.eqb gws_attrs get_storage].
  unfold is_data, set_acc_result, d_set. rewrite Hk. reflexivity.
Qed.

Lemma os_proto_acc fuel h o k v x p px i a :
  get_obj h o = Some x -> lookup_shape h (o_shape x) k = None -> shape_proto h (o_shape x) = Some p ->
  get_obj h p = Some px -> lookup_shape h (o_shape px) k = Some (i, a) -> a_is_accessor a = true ->
  ordinary_set (S (S fuel)) h o k v o slot_new =
    (d <- get_storage (o_store px) (i, a) ;; set_acc_result h v d (proto_pat i a)).
Proof.
  intros Hx L0 P0 Hpx L1 Ha.
  cbn -[get_obj get_with_slot define_own_property shape_proto N.eqb get_storage].
  rewrite Hx, gws_eq, L0.
  cbn -[get_obj get_with_slot define_own_property shape_proto N.eqb get_storage].
  rewrite P0, Hpx, gws_eq, L1.
  destruct (get_storage (o_store px) (i, a)) as [d|] eqn:Hd; [|reflexivity].
  destruct (get_storage_acc_kind _ _ _ _ Ha Hd) as [g [s [Hk _]]].
  cbn -[get_obj get_with_slot define_own_property shape_proto N.eqb gws_attrs get_storage].
  unfold is_data, set_acc_result, d_set. rewrite Hk. reflexivity.
Qed.

(* ------------------------------------------------------------------------------------------- NOT_CACHEABLE is sticky *)
Ltac break_hyp H :=
  repeat match type of H with
  | context [match ?x with _ => _ end] => destruct x eqn:?; try discriminate H
  end.

Lemma f_nc_out b c : f_nc b = true -> f_nc (N.lor (N.land b sf_INLINE_CACHE_BITS) c) = true.
Proof.
  intro H. rewrite f_nc_lor. unfold f_nc in *. rewrite N.land_spec, H.
  replace (N.testbit sf_INLINE_CACHE_BITS 7) with true by (vm_compute; reflexivity). reflexivity.
Qed.

Lemma iws_nc h o x k d sl h' sl' :
  insert_with_slot h o x k d sl = Some (h', sl') -> f_nc (s_attrs sl) = true -> f_nc (s_attrs sl') = true.
Proof.
  intros H Hnc. unfold insert_with_slot in H.
  destruct (to_attrs d) as [a|]; [|discriminate]. cbv zeta in H.
  break_hyp H; inversion H; subst; simpl; now apply f_nc_out.
Qed.

Lemma vaa_nc h o x k ext d cur sl h' sl' ok :
  validate_and_apply h o x k ext d cur sl = Some (h', sl', ok) -> f_nc (s_attrs sl) = true -> f_nc (s_attrs sl') = true.
Proof.
  intros H Hnc. unfold validate_and_apply in H. cbv zeta beta in H.
  destruct cur as [cur|].
  - destruct (d_conf cur) as [cconf|]; [|discriminate]. destruct (d_enum cur) as [cenum|]; [|discriminate].
    repeat match type of H with
    | context [match insert_with_slot ?a ?b ?c ?e ?f ?g with _ => _ end] =>
        let E := fresh "E" in destruct (insert_with_slot a b c e f g) as [[? ?]|] eqn:E; [apply iws_nc in E; [|assumption]|try discriminate H]
    | context [match ?x with _ => _ end] => destruct x eqn:?; try discriminate H
    end; inversion H; subst; simpl; auto;
    try (rewrite f_nc_lor; match goal with E : f_nc _ = true |- _ => rewrite E end; reflexivity).
  - destruct (negb ext); [inversion H; subst; assumption|].
    destruct (insert_with_slot h o x k _ sl) as [[h1 sl1]|] eqn:E; [|discriminate].
    inversion H; subst. eapply iws_nc; eauto.
Qed.

Lemma dop_nc h o k d sl h' sl' ok :
  define_own_property h o k d sl = Some (h', sl', ok) -> f_nc (s_attrs sl) = true -> f_nc (s_attrs sl') = true.
Proof.
  intros H Hnc. unfold define_own_property in H.
  destruct (get_obj h o) as [x|]; [|discriminate].
  rewrite gws_eq in H. destruct (lookup_shape h (o_shape x) k) as [[i a]|].
  - destruct (get_storage (o_store x) (i, a)); [|discriminate].
    eapply vaa_nc; [exact H|]. simpl. now apply f_nc_gws.
  - eapply vaa_nc; eauto.
Qed.

(* the data-descriptor arm of [[Set]] reached on another object than the receiver marks the slot NOT_CACHEABLE *)
Lemma sdc_nc h o r k v ho od sl tr h' sl' :
  N.eqb o r = false ->
  set_data_case h o r k v ho od sl = Some (tr, h', true, sl') -> f_nc (s_attrs sl') = true.
Proof.
  intros Hne H. unfold set_data_case in H. rewrite Hne in H. rewrite andb_false_r in H. cbn [negb] in H.
  destruct (d_writable od) as [w|]; [|discriminate].
  destruct (negb w); [discriminate|].
  destruct (get_obj h r) as [rx|]; [|discriminate].
  set (sl3 := {| s_index := s_index sl; s_attrs := N.lor (s_attrs sl) sf_NOT_CACHEABLE |}) in *.
  assert (H3 : f_nc (s_attrs sl3) = true).
  { simpl. rewrite f_nc_lor. replace (f_nc sf_NOT_CACHEABLE) with true by (vm_compute; reflexivity). apply orb_true_r. }
  rewrite gws_eq in H. destruct (lookup_shape h (o_shape rx) k) as [[i a]|].
  - destruct (get_storage (o_store rx) (i, a)) as [ex|]; [|discriminate].
    destruct (is_acc ex); [discriminate|].
    destruct (d_writable ex) as [ew|]; [|discriminate]. destruct (negb ew); [discriminate|].
    destruct (define_own_property h r k _ _) as [[[h1 sl5] ok1]|] eqn:E; [|discriminate].
    inversion H; subst. eapply dop_nc; [exact E|]. simpl. now apply f_nc_gws.
  - destruct (define_own_property h r k _ _) as [[[h1 sl5] ok1]|] eqn:E; [|discriminate].
    inversion H; subst. eapply dop_nc; eauto.
Qed.

(* below the receiver's direct prototype nothing cacheable comes back *)
Lemma os_nc : forall fuel h o' k v r rx sl tr h' sl',
  get_obj h r = Some rx -> lookup_shape h (o_shape rx) k = None -> shape_proto h (o_shape rx) <> None ->
  f_nc (s_attrs sl) = true ->
  ordinary_set fuel h o' k v r sl = Some (tr, h', true, sl') -> f_nc (s_attrs sl') = true.
Proof.
  induction fuel as [|fuel IH]; intros h o' k v r rx sl tr h' sl' Hr Lr Pr Hnc H; [discriminate|].
  cbn -[get_obj get_with_slot set_data_case shape_proto] in H.
  destruct (get_obj h o') as [y|] eqn:Hy; [|discriminate].
  rewrite gws_eq in H. destruct (lookup_shape h (o_shape y) k) as [[i a]|] eqn:Ly.
  - destruct (get_storage (o_store y) (i, a)) as [d|]; [|discriminate].
    destruct (is_data d).
    + eapply sdc_nc; [|exact H]. apply N.eqb_neq. intro E. subst o'. rewrite Hr in Hy. inversion Hy; subst.
      rewrite Lr in Ly. discriminate.
    + destruct (d_set d) as [[| |f]|]; try discriminate. inversion H; subst. simpl. now apply f_nc_gws.
  - destruct (shape_proto h (o_shape y)) as [q|] eqn:Py.
    + refine (IH h q k v r rx _ tr h' sl' Hr Lr Pr _ H). simpl. now apply f_nc_trick.
    + eapply sdc_nc; [|exact H]. apply N.eqb_neq. intro E. subst o'. rewrite Hr in Hy. inversion Hy; subst.
      rewrite Py in Pr. contradiction.
Qed.

Lemma os_own_data_nw fuel h o k v x i a tr h' sl :
  get_obj h o = Some x -> lookup_shape h (o_shape x) k = Some (i, a) -> a_is_accessor a = false -> a_w a = false ->
  ordinary_set (S fuel) h o k v o slot_new = Some (tr, h', true, sl) -> False.
Proof.
  intros Hx L Ha Hw H.
  cbn -[get_obj get_with_slot set_data_case shape_proto] in H.
  rewrite Hx, gws_eq, L, get_storage_data in H by assumption.
  destruct (nthN (o_store x) i) as [cv|]; [|discriminate].
  cbn -[get_obj get_with_slot define_own_property shape_proto N.eqb gws_attrs] in H.
  destruct (own_pat_facts a) as (_ & _ & _ & _ & _ & _ & _ & Fw). rewrite Fw, Hw in H. discriminate.
Qed.

Lemma get_set_obj_same h o x y : get_obj h o = Some x -> get_obj (set_obj h o y) o = Some y.
Proof.
  unfold get_obj, set_obj, nthN, set_nth. generalize (N.to_nat o). intro n. destruct h as [objs us]. simpl.
  revert objs. induction n; destruct objs; simpl; try discriminate; auto.
  intro H. specialize (IHn _ H). destruct (set_nth_nat objs n y); simpl in *; auto.
Qed.
Lemma lookup_shape_set_obj h o y s k : lookup_shape (set_obj h o y) s k = lookup_shape h s k.
Proof. unfold lookup_shape, shape_tab, set_obj. destruct (set_nth (h_objs h) o y); reflexivity. Qed.
Lemma shape_proto_set_obj h o y s : shape_proto (set_obj h o y) s = shape_proto h s.
Proof. unfold shape_proto, set_obj. destruct (set_nth (h_objs h) o y); reflexivity. Qed.

Lemma f_found_bits a : f_found (bits_of a) = false.
Proof. all_dattrs a; vm_compute; reflexivity. Qed.
Lemma f_found_out b a : f_found (N.lor (N.land b sf_INLINE_CACHE_BITS) (bits_of a)) = f_found b.
Proof.
  unfold f_found. rewrite N.lor_spec, N.land_spec. fold (f_found (bits_of a)). rewrite f_found_bits.
  replace (N.testbit sf_INLINE_CACHE_BITS 6) with true by (vm_compute; reflexivity).
  now rewrite andb_true_r, orb_false_r.
Qed.
Lemma not_cacheable_nf a : f_found a = false -> sf_is_cacheable a = false.
Proof. intro H. rewrite is_cacheable_spec, H. apply andb_false_r. Qed.

(* adding a new own property (the [[Set]] that creates it) never yields a cacheable slot *)
Lemma os_add_not_cacheable fuel h o k v x tr h' sl :
  get_obj h o = Some x -> lookup_shape h (o_shape x) k = None -> shape_proto h (o_shape x) = None ->
  ordinary_set (S fuel) h o k v o slot_new = Some (tr, h', true, sl) -> sf_is_cacheable (s_attrs sl) = false.
Proof.
  intros Hx L0 P0 H.
  cbn -[get_obj get_with_slot set_data_case shape_proto] in H.
  rewrite Hx, gws_eq, L0, P0 in H.
  unfold set_data_case in H. rewrite N.eqb_refl in H.
  cbn -[get_obj get_with_slot define_own_property shape_proto] in H.
  rewrite Hx, gws_eq, L0 in H.
  destruct (define_own_property h o k _ _) as [[[h1 sl5] ok1]|] eqn:E; [|discriminate].
  inversion H; subst. clear H.
  unfold define_own_property in E. rewrite Hx, gws_eq, L0 in E.
  unfold validate_and_apply in E. destruct (negb (o_ext x)); [discriminate|].
  destruct (insert_with_slot h o x k _ _) as [[h2 sl6]|] eqn:E2; [|discriminate].
  inversion E; subst. clear E.
  unfold insert_with_slot in E2. destruct (to_attrs _) as [a0|]; [|discriminate].
  rewrite L0 in E2. cbv zeta in E2. destruct (shape_insert h (o_shape x) k a0) as [h3 s3].
  inversion E2; subst. apply not_cacheable_nf. cbn [s_attrs]. apply f_found_bits.
Qed.

Lemma os_cacheable : forall h o k v x tr h' sl x',
  get_obj h o = Some x ->
  ordinary_set (chain_fuel h) h o k v o slot_new = Some (tr, h', true, sl) ->
  sf_is_cacheable (s_attrs sl) = true ->
  get_obj h' o = Some x' ->
  entry_ok SSet h' k (o_shape x', sl).
Proof.
  intros h o k v x tr h' sl x' Hx H Hc Hx'.
  destruct (chain_fuel_SS h) as [f Hf]. rewrite Hf in H.
  destruct (lookup_shape h (o_shape x) k) as [[i a]|] eqn:L0.
  - destruct (a_is_accessor a) eqn:Ea.
    + rewrite (os_own_acc _ _ _ _ _ _ _ _ Hx L0 Ea) in H.
      destruct (get_storage (o_store x) (i, a)) as [d|]; [|discriminate].
      unfold set_acc_result in H. destruct (d_set d) as [[| |fn]|]; inversion H; subst.
      rewrite Hx in Hx'. inversion Hx'; subst.
      unfold entry_ok, entry_deps. simpl. rewrite L0. destruct (own_pat_facts a) as [-> _].
      split; [reflexivity|]. intros _ Hd. rewrite Ea in Hd. discriminate.
    + destruct (a_w a) eqn:Ew.
      * rewrite (os_own_data _ _ _ _ _ _ _ _ Hx L0 Ea Ew) in H.
        destruct (nthN (o_store x) i); [|discriminate].
        destruct (set_nth (o_store x) i v) as [stg|]; [|discriminate].
        inversion H; subst. rewrite (get_set_obj_same _ _ _ _ Hx) in Hx'. inversion Hx'; subst.
        unfold entry_ok, entry_deps. simpl. rewrite lookup_shape_set_obj, L0. destruct (own_pat_facts a) as [-> _].
        split; auto.
      * exfalso. exact (os_own_data_nw _ _ _ _ _ _ _ _ _ _ _ Hx L0 Ea Ew H).
  - destruct (shape_proto h (o_shape x)) as [p|] eqn:P0.
    2:{ rewrite (os_add_not_cacheable _ _ _ _ _ _ _ _ _ Hx L0 P0 H) in Hc. discriminate. }
    assert (Hrecv : shape_proto h (o_shape x) <> None) by (rewrite P0; discriminate).
    destruct (get_obj h p) as [px|] eqn:Hpx.
    2:{ cbn -[get_obj get_with_slot set_data_case shape_proto] in H. rewrite Hx, gws_eq, L0, P0 in H.
        cbn -[get_obj get_with_slot set_data_case shape_proto] in H. rewrite Hpx in H. discriminate. }
    assert (Hne : N.eqb p o = false).
    { apply N.eqb_neq. intro E. subst p. rewrite Hx in Hpx. inversion Hpx; subst. clear Hpx.
      (* o would be its own prototype: the walk comes back to o with NOT_CACHEABLE set *)
      cbn -[get_obj get_with_slot set_data_case shape_proto] in H. rewrite Hx, gws_eq, L0, P0 in H.
      cbn -[get_obj get_with_slot set_data_case shape_proto] in H. rewrite Hx, gws_eq, L0, P0 in H.
      apply (os_nc _ _ _ _ _ _ _ _ _ _ _ Hx L0 Hrecv) in H; [rewrite (not_cacheable_nc _ H) in Hc; discriminate|].
      vm_compute. reflexivity. }
    destruct (lookup_shape h (o_shape px) k) as [[i a]|] eqn:L1.
    + destruct (a_is_accessor a) eqn:Ea.
      * (* the one cacheable case below the receiver: an accessor on the direct prototype *)
        rewrite (os_proto_acc _ _ _ _ _ _ _ _ _ _ Hx L0 P0 Hpx L1 Ea) in H.
        destruct (get_storage (o_store px) (i, a)) as [d|]; [|discriminate].
        unfold set_acc_result in H. destruct (d_set d) as [[| |fn]|]; inversion H; subst.
        rewrite Hx in Hx'. inversion Hx'; subst.
        unfold entry_ok, entry_deps. simpl. rewrite L0, P0, Hpx, L1. destruct (proto_pat_facts a) as [-> _].
        split; [reflexivity | auto].
      * exfalso.
        cbn -[get_obj get_with_slot set_data_case shape_proto] in H. rewrite Hx, gws_eq, L0, P0 in H.
        cbn -[get_obj get_with_slot set_data_case shape_proto] in H. rewrite Hpx, gws_eq, L1 in H.
        rewrite get_storage_data in H by assumption. destruct (nthN (o_store px) i); [|discriminate].
        cbn -[get_obj get_with_slot set_data_case shape_proto] in H.
        apply sdc_nc in H; [|assumption]. rewrite (not_cacheable_nc _ H) in Hc. discriminate.
    + exfalso.
      cbn -[get_obj get_with_slot set_data_case shape_proto] in H. rewrite Hx, gws_eq, L0, P0 in H.
      cbn -[get_obj get_with_slot set_data_case shape_proto] in H. rewrite Hpx, gws_eq, L1 in H.
      destruct (shape_proto h (o_shape px)) as [q|] eqn:P1.
      * apply (os_nc _ _ _ _ _ _ _ _ _ _ _ Hx L0 Hrecv) in H; [rewrite (not_cacheable_nc _ H) in Hc; discriminate|].
        vm_compute. reflexivity.
      * apply sdc_nc in H; [|assumption]. rewrite (not_cacheable_nc _ H) in Hc. discriminate.
Qed.

(* ------------------------------------------------------------------------------------------- simulation: set sites *)
Definition set_regular (h : heap) (x : obj) (sl : slot) : Prop :=
  sf_is_accessor_descriptor (s_attrs sl) = true ->
  sf_has_set (s_attrs sl) = true /\
  forall stg r, hit_store h x sl = Some stg -> nthN stg (s_index sl + 1) = Some r -> is_object r = true.

Lemma set_acc_hit st i a d v h sl tr h' ok slu :
  a_is_accessor a = true -> get_storage st (i, a) = Some d -> a_s a = true ->
  (forall r, nthN st (i + 1) = Some r -> is_object r = true) ->
  set_acc_result h v d sl = Some (tr, h', ok, slu) ->
  exists f, nthN st (i + 1) = Some (VFun f) /\ tr = call_setter f v /\ h' = h /\ ok = true.
Proof.
  intros Ha Hd Hs Hobj H. destruct (get_storage_acc_kind _ _ _ _ Ha Hd) as [g [s [Hk [Hseq _]]]].
  rewrite Hs in Hseq. unfold set_acc_result, d_set in H. rewrite Hk in H.
  destruct (nthN st (i + 1)) as [r|] eqn:En.
  - pose proof (Hobj r eq_refl) as Ho. subst s. destruct r as [| |f]; try discriminate Ho.
    inversion H; subst. eauto.
  - subst s. rewrite get_storage_acc in Hd by assumption. rewrite Hs, En in Hd.
    destruct (if a_g a then v0 <- nthN st i;; Some (Some v0) else Some None); discriminate.
Qed.

Lemma set_hit_sim : forall h k o x sl v tr h' ok slu,
  get_obj h o = Some x -> entry_ok SSet h k (o_shape x, sl) -> set_regular h x sl ->
  ordinary_set (chain_fuel h) h o k v o slot_new = Some (tr, h', ok, slu) ->
  (sf_is_accessor_descriptor (s_attrs sl) = true /\ sf_has_set (s_attrs sl) = true /\
   exists stg f, hit_store h x sl = Some stg /\ nthN stg (s_index sl + 1) = Some (VFun f) /\
     tr = call_setter f v /\ h' = h /\ ok = true)
  \/
  (sf_is_accessor_descriptor (s_attrs sl) = false /\ has_flag (s_attrs sl) sf_PROTOTYPE = false /\
   exists stg, set_nth (o_store x) (s_index sl) v = Some stg /\ tr = [] /\ ok = true /\
     h' = set_obj h o {| o_shape := o_shape x; o_store := stg; o_ext := o_ext x |}).
Proof.
  intros h k o x sl v tr h' ok slu Hx Hok Hreg H.
  destruct (chain_fuel_SS h) as [f Hf]. rewrite Hf in H.
  unfold entry_ok, entry_deps in Hok. simpl in Hok.
  destruct (lookup_shape h (o_shape x) k) as [[i a]|] eqn:L0.
  - assert (Hsl : sl = own_pat i a /\ (a_is_accessor a = false -> a_w a = true)).
    { destruct (shape_proto h (o_shape x)), (has_flag (s_attrs sl) sf_PROTOTYPE); try contradiction;
        destruct Hok as [? Hw]; split; auto. }
    destruct Hsl as [-> Hw].
    destruct (own_pat_facts a) as (Fp & Fg & Fs & Fa & _).
    destruct (a_is_accessor a) eqn:Ea.
    + left. rewrite (os_own_acc _ _ _ _ _ _ _ _ Hx L0 Ea) in H.
      destruct (get_storage (o_store x) (i, a)) as [d|] eqn:Hd; [|discriminate].
      unfold set_regular in Hreg. simpl in Hreg. rewrite Fa, Fs in Hreg. destruct (Hreg eq_refl) as [Hs Hobj].
      destruct (set_acc_hit _ _ _ _ _ _ _ _ _ _ _ Ea Hd Hs (fun r => Hobj (o_store x) r (hit_store_own h x i a)) H)
        as [fn [Hn [Ht [Hh Ho]]]].
      simpl. rewrite Fa, Fs. repeat split; auto. exists (o_store x), fn. repeat split; auto. apply hit_store_own.
    + right. rewrite (os_own_data _ _ _ _ _ _ _ _ Hx L0 Ea (Hw eq_refl)) in H.
      destruct (nthN (o_store x) i); [|discriminate].
      destruct (set_nth (o_store x) i v) as [stg|] eqn:Es; [|discriminate].
      inversion H; subst. simpl. rewrite Fa, Fp. repeat split; auto. exists stg. repeat split; auto.
  - destruct (shape_proto h (o_shape x)) as [p|] eqn:P0; [|contradiction].
    destruct (has_flag (s_attrs sl) sf_PROTOTYPE); [|contradiction].
    destruct (get_obj h p) as [px|] eqn:Hpx; [|contradiction].
    destruct (lookup_shape h (o_shape px) k) as [[i a]|] eqn:L1; [|contradiction].
    destruct Hok as [-> Hacc]. specialize (Hacc eq_refl).
    destruct (proto_pat_facts a) as (Fp & Fg & Fs & Fa & _).
    left. rewrite (os_proto_acc _ _ _ _ _ _ _ _ _ _ Hx L0 P0 Hpx L1 Hacc) in H.
    destruct (get_storage (o_store px) (i, a)) as [d|] eqn:Hd; [|discriminate].
    unfold set_regular in Hreg. simpl in Hreg. rewrite Fa, Fs, Hacc in Hreg. destruct (Hreg eq_refl) as [Hs Hobj].
    destruct (set_acc_hit _ _ _ _ _ _ _ _ _ _ _ Hacc Hd Hs (fun r => Hobj (o_store px) r (hit_store_proto h x i a p px P0 Hpx)) H)
      as [fn [Hn [Ht [Hh Ho]]]].
    simpl. rewrite Fa, Fs, Hacc. repeat split; auto. exists (o_store px), fn. repeat split; auto.
    eapply hit_store_proto; eauto.
Qed.

Local Opaque ordinary_set chain_fuel hit_store.

Lemma sim_set : forall stc stu n k o v outs_u stu',
  IC_valid stc -> st_heap stc = st_heap stu ->
  (forall x sl, get_obj (st_heap stc) o = Some x ->
     fst (ic_get (site_get (st_sites stc) (SSet, n, k)) (o_shape x)) = Some sl -> set_regular (st_heap stc) x sl) ->
  (forall outs st', cached_set true stc (SSet, n, k) o v = Some (outs, st') ->
     disturbed (st_heap stc) (st_heap st') (st_sites stc) = None) ->
  cached_set false stu (SSet, n, k) o v = Some (outs_u, stu') ->
  exists outs_c stc', cached_set true stc (SSet, n, k) o v = Some (outs_c, stc') /\
    filter visible outs_c = filter visible outs_u /\ st_heap stc' = st_heap stu' /\ IC_valid stc'.
Proof.
  intros stc stu n k o v outs_u stu' Hv Hh Hreg Hd H.
  unfold cached_set in H. rewrite <- Hh in H.
  remember (st_heap stc) as h eqn:Eh.
  destruct (get_obj h o) as [x|] eqn:Hx.
  2:{ inversion H; subst. exists [ONoObj], stc. split; [|repeat split; auto].
      unfold cached_set. rewrite Hx. reflexivity. }
  destruct (ordinary_set (chain_fuel h) h o k v o slot_new) as [[[[tr h'] ok] slu]|] eqn:G; [|discriminate].
  cbn in H. destruct (get_obj h' o) as [x'|] eqn:Hx'; [|discriminate]. inversion H; subst outs_u stu'; clear H.
  destruct (ic_get (site_get (st_sites stc) (SSet, n, k)) (o_shape x)) as [hit ev] eqn:I.
  destruct hit as [sl|].
  - pose proof (ic_get_hit _ _ _ _ I) as Hin.
    pose proof (cache_entries_ok stc SSet n k Hv _ Hin) as Hok. rewrite <- Eh in Hok.
    assert (Hr : set_regular h x sl).
    { apply (Hreg x sl eq_refl). rewrite I. reflexivity. }
    destruct (set_hit_sim h k o x sl v tr h' ok slu Hx Hok Hr G)
      as [(Ha & Hs & stg & f & Hst & Hn & Ht & Hh' & Ho) | (Ha & Hp & stg & Hst & Ht & Ho & Hh')]; subst tr ok h'.
    + assert (E : cached_set true stc (SSet, n, k) o v = Some (call_setter f v ++ [OBool true; OIC ev], stc)).
      { unfold cached_set. rewrite <- Eh, Hx, I. cbn -[hit_store]. rewrite Ha, Hst, Hn, Hs. reflexivity. }
      eexists; eexists; split; [exact E|]. rewrite !filter_visible_app. simpl. repeat split; auto.
    + assert (E : cached_set true stc (SSet, n, k) o v =
                  Some ([OBool true; OIC ev],
                        {| st_heap := set_obj h o {| o_shape := o_shape x; o_store := stg; o_ext := o_ext x |};
                           st_sites := st_sites stc |})).
      { unfold cached_set. rewrite <- Eh, Hx, I. cbn -[hit_store]. rewrite Ha, Hp, Hst. reflexivity. }
      eexists; eexists; split; [exact E|]. simpl. repeat split; auto.
      apply IC_valid_heap_step; auto. pose proof (Hd _ _ E) as Hdist. simpl in Hdist. rewrite Eh in Hdist |- *. exact Hdist.
  - destruct (ok && sf_is_cacheable (s_attrs slu)) eqn:Ec.
    + destruct (ic_set (site_get (st_sites stc) (SSet, n, k)) (o_shape x') slu) as [c' ev'] eqn:Es.
      assert (E : cached_set true stc (SSet, n, k) o v =
                  Some (tr ++ [if ok then OBool true else OTypeErr; OIC (ev ++ ev')],
                        {| st_heap := h'; st_sites := site_put (st_sites stc) (SSet, n, k) c' |})).
      { unfold cached_set. rewrite <- Eh, Hx, I. cbn -[hit_store]. rewrite G. cbn -[hit_store]. rewrite Hx'.
        cbn -[hit_store]. rewrite Ec, Es. reflexivity. }
      eexists; eexists; split; [exact E|]. rewrite !filter_visible_app. simpl. repeat split; auto.
      apply andb_true_iff in Ec as [-> Ec].
      pose proof (Hd _ _ E) as Hdist. simpl in Hdist. rewrite Eh in Hdist.
      pose proof (IC_valid_heap_step stc h' Hv Hdist) as Hv1.
      apply (IC_valid_put {| st_heap := h'; st_sites := st_sites stc |} SSet n k c' Hv1). simpl. intros e He.
      destruct (ic_set_entries _ _ _ _ _ Es e He) as [Hold | ->].
      * apply (cache_entries_ok {| st_heap := h'; st_sites := st_sites stc |} SSet n k Hv1 e Hold).
      * exact (os_cacheable h o k v x tr h' slu x' Hx G Ec Hx').
    + assert (E : cached_set true stc (SSet, n, k) o v =
                  Some (tr ++ [if ok then OBool true else OTypeErr; OIC (ev ++ [])],
                        {| st_heap := h'; st_sites := site_put (st_sites stc) (SSet, n, k) (site_get (st_sites stc) (SSet, n, k)) |})).
      { unfold cached_set. rewrite <- Eh, Hx, I. cbn -[hit_store]. rewrite G. cbn -[hit_store]. rewrite Hx'.
        cbn -[hit_store]. rewrite Ec. reflexivity. }
      eexists; eexists; split; [exact E|]. rewrite !filter_visible_app. simpl. repeat split; auto.
      pose proof (Hd _ _ E) as Hdist. simpl in Hdist. rewrite Eh in Hdist.
      pose proof (IC_valid_heap_step stc h' Hv Hdist) as Hv1.
      apply (IC_valid_put {| st_heap := h'; st_sites := st_sites stc |} SSet n k _ Hv1). simpl. intros e He.
      apply (cache_entries_ok {| st_heap := h'; st_sites := st_sites stc |} SSet n k Hv1 e He).
Qed.

(* ------------------------------------------------------------------------------------------- steps *)
Local Transparent hit_store.

Lemma hit_irr_get st kd s k ob (o : op) :
  (o = OpGet s k ob /\ kd = SGet) \/ (o = OpGetGlobal s k /\ kd = SGlobal /\ ob = GLOBAL) ->
  hit_irregular st o = None ->
  forall x sl, get_obj (st_heap st) ob = Some x ->
    fst (ic_get (site_get (st_sites st) (kd, s, k)) (o_shape x)) = Some sl -> get_regular (st_heap st) x sl.
Proof.
  intros Ho H x sl Hx Hi.
  assert (H' : match (if sf_is_accessor_descriptor (s_attrs sl) then
                        if sf_has_get (s_attrs sl) then
                          match hit_store (st_heap st) x sl with
                          | Some stg => match nthN stg (s_index sl) with Some (VNum _) => Some KGetterIrregular | _ => None end
                          | None => None
                          end
                        else Some KGetterIrregular
                      else None) with Some c => Some c | None => None end = None).
  { destruct Ho as [[-> ->] | [-> [-> ->]]]; unfold hit_irregular in H; cbv beta iota zeta in H;
      rewrite Hx, Hi in H; rewrite H; reflexivity. }
  clear H. intro Ha. rewrite Ha in H'. destruct (sf_has_get (s_attrs sl)); [|discriminate].
  split; auto. intros stg n Hs Hn. rewrite Hs, Hn in H'. discriminate.
Qed.

Lemma hit_irr_set st s k ob v :
  hit_irregular st (OpSet s k ob v) = None ->
  forall x sl, get_obj (st_heap st) ob = Some x ->
    fst (ic_get (site_get (st_sites st) (SSet, s, k)) (o_shape x)) = Some sl -> set_regular (st_heap st) x sl.
Proof.
  intros H x sl Hx Hi. unfold hit_irregular in H. rewrite Hx, Hi in H.
  intro Ha. rewrite Ha in H. destruct (sf_has_set (s_attrs sl)); [|discriminate].
  split; auto. intros stg r Hs Hn. rewrite Hs, Hn in H. destruct (is_object r); [reflexivity | discriminate].
Qed.

Definition is_site_op (o : op) : bool :=
  match o with OpGet _ _ _ | OpSet _ _ _ _ | OpGetGlobal _ _ => true | _ => false end.

(* operations that do not run a site: same outputs, same heap; the caches are untouched or only lose entries *)
Lemma step_nonsite : forall o stc stu outs stu',
  is_site_op o = false -> st_heap stc = st_heap stu ->
  step false stu o = Some (outs, stu') ->
  exists stc', step true stc o = Some (outs, stc') /\ st_heap stc' = st_heap stu' /\
    (st_sites stc' = st_sites stc \/
     exists kd s k keep, o = OpEvict kd s k keep /\ st_heap stc' = st_heap stc /\
       st_sites stc' = site_put (st_sites stc) (kd, s, k)
         {| c_entries := filter_keep (c_entries (site_get (st_sites stc) (kd, s, k))) keep;
            c_mega := c_mega (site_get (st_sites stc) (kd, s, k)) |}).
Proof.
  intros o stc stu outs stu' Hs Hh H.
  destruct o; try discriminate Hs; unfold step in *; rewrite <- Hh in H; unfold with_heap in *.
  - (* alloc *)
    destruct (match proto with Some q => negb (N.ltb q (lenN (h_objs (st_heap stc)))) | None => false end).
    + inversion H; subst. eexists; split; [reflexivity|]. simpl. auto.
    + destruct unique.
      * destruct (new_ushape (st_heap stc) _) as [h1 u]. inversion H; subst. eexists; split; [reflexivity|]. simpl. auto.
      * inversion H; subst. eexists; split; [reflexivity|]. simpl. auto.
  - destruct (get_obj (st_heap stc) o); [|inversion H; subst; eexists; split; [reflexivity|]; simpl; auto].
    destruct (define_own_property (st_heap stc) o k d slot_new) as [[[h' sl] ok]|]; [|discriminate].
    inversion H; subst. eexists; split; [reflexivity|]. simpl. auto.
  - destruct (get_obj (st_heap stc) o); [|inversion H; subst; eexists; split; [reflexivity|]; simpl; auto].
    destruct (ordinary_delete (st_heap stc) o k) as [[h' ok]|]; [|discriminate].
    inversion H; subst. eexists; split; [reflexivity|]. simpl. auto.
  - destruct (get_obj (st_heap stc) o); [|inversion H; subst; eexists; split; [reflexivity|]; simpl; auto].
    destruct (ordinary_set_prototype_of (st_heap stc) o p) as [[h' ok]|]; [|discriminate].
    inversion H; subst. eexists; split; [reflexivity|]. simpl. auto.
  - destruct (get_obj (st_heap stc) o); [|inversion H; subst; eexists; split; [reflexivity|]; simpl; auto].
    destruct (prevent_extensions (st_heap stc) o) as [h'|]; [|discriminate].
    inversion H; subst. eexists; split; [reflexivity|]. simpl. auto.
  - destruct (get_obj (st_heap stc) o); [|inversion H; subst; eexists; split; [reflexivity|]; simpl; auto].
    destruct (freeze (st_heap stc) o) as [[h' ok]|]; [|discriminate].
    inversion H; subst. eexists; split; [reflexivity|]. simpl. auto.
  - destruct (get_obj (st_heap stc) o) as [x|]; [|inversion H; subst; eexists; split; [reflexivity|]; simpl; auto].
    destruct (dump_props (o_store x) (shape_tab (st_heap stc) (o_shape x))); [|discriminate].
    inversion H; subst. eexists; split; [reflexivity|]. simpl. auto.
  - inversion H; subst. eexists; split; [reflexivity|]. simpl. split; auto. right.
    exists kind, s, k, keep. auto.
Qed.

Lemma sim_step : forall o stc stu outs_u stu',
  IC_valid stc -> st_heap stc = st_heap stu -> known_step stc o = None ->
  step false stu o = Some (outs_u, stu') ->
  exists outs_c stc', step true stc o = Some (outs_c, stc') /\
    filter visible outs_c = filter visible outs_u /\ st_heap stc' = st_heap stu' /\ IC_valid stc'.
Proof.
  intros o stc stu outs_u stu' Hv Hh Hk H.
  unfold known_step in Hk. destruct (hit_irregular stc o) eqn:Hirr; [discriminate|].
  destruct (is_site_op o) eqn:Hs.
  - destruct o; try discriminate Hs; cbn [step] in *.
    + (* get *)
      destruct (sim_get false stc stu SGet s k o outs_u stu') as (oc & stc' & E & Hvis & Hc & Hu & Hv'); auto.
      * discriminate.
      * eapply hit_irr_get; eauto.
      * exists oc, stc'. repeat split; auto. congruence.
    + (* set *)
      destruct (sim_set stc stu s k o v outs_u stu') as (oc & stc' & E & Hvis & Hc & Hv'); auto.
      * eapply hit_irr_set; eauto.
      * intros outs st' E. rewrite E in Hk. exact Hk.
      * exists oc, stc'. repeat split; auto.
    + (* global name *)
      destruct (sim_get true stc stu SGlobal s k GLOBAL outs_u stu') as (oc & stc' & E & Hvis & Hc & Hu & Hv'); auto.
      * discriminate.
      * eapply hit_irr_get; eauto.
      * exists oc, stc'. repeat split; auto. congruence.
  - destruct (step_nonsite o stc stu outs_u stu' Hs Hh H) as (stc' & E & Hheap & Hsites).
    exists outs_u, stc'. repeat split; auto.
    rewrite E in Hk.
    destruct Hsites as [Hsame | (kd & s & k & keep & -> & Hh' & Hput)].
    + destruct stc' as [h' ss']. simpl in *. subst ss'. apply IC_valid_heap_step; auto.
    + destruct stc' as [h' ss']. simpl in Hh', Hput. rewrite Hput, Hh'.
      apply (IC_valid_put stc kd s k _ Hv). simpl. intros e He. apply filter_keep_in in He.
      eapply cache_entries_ok; eauto.
Qed.

Lemma run_sim : forall ops stc stu i,
  IC_valid stc -> st_heap stc = st_heap stu -> first_known stc ops i = None ->
  ~ In None (run false stu ops) ->
  observable (run true stc ops) = observable (run false stu ops).
Proof.
  induction ops as [|o r IH]; intros stc stu i Hv Hh Hk Hnp; [reflexivity|].
  cbn [run first_known] in *.
  destruct (known_step stc o) eqn:Hks; [discriminate|].
  destruct (step false stu o) as [[outs_u stu']|] eqn:Eu.
  2:{ exfalso. apply Hnp. left. reflexivity. }
  destruct (sim_step o stc stu outs_u stu' Hv Hh Hks Eu) as (oc & stc' & Ec & Hvis & Hheap & Hv').
  rewrite Ec in *. unfold observable in *. cbn [map]. rewrite Hvis. f_equal.
  apply (IH stc' stu' (i + 1)); auto. intro Hin. apply Hnp. right. exact Hin.
Qed.

Lemma ic_transparent_except_known_lemma : forall ops,
  ~ KnownClass ops -> ~ In None (run_uncached ops) ->
  observable (run_cached ops) = observable (run_uncached ops).
Proof.
  intros ops Hk Hnp. unfold run_cached, run_uncached.
  apply (run_sim ops init init 0); auto using IC_valid_init.
  unfold KnownClass in Hk. destruct (first_known init ops 0); [exfalso; apply Hk; discriminate | reflexivity].
Qed.

(* every step outside the known class keeps the invariant (stated for the cached run alone) *)
Lemma IC_valid_step_lemma : forall o st outs st',
  IC_valid st -> known_step st o = None -> step false st o <> None -> step true st o = Some (outs, st') -> IC_valid st'.
Proof.
  intros o st outs st' Hv Hk Hu E.
  destruct (step false st o) as [[ou su]|] eqn:Eu; [|contradiction].
  destruct (sim_step o st st ou su Hv eq_refl Hk Eu) as (oc & stc' & Ec & _ & _ & Hv').
  rewrite E in Ec. inversion Ec; subst. exact Hv'.
Qed.

(* ------------------------------------------------------------------------------------------- a clean history *)
Definition w_clean : list op :=
  [OpAlloc false None; OpDefine 2 0 (dd (VNum 1) true true true); OpDefine 2 1 (da (VFun 1) (VFun 2) true true);
   OpAlloc false (Some 2); OpAlloc false (Some 2); OpDefine 4 2 (dd (VNum 5) true true true);
   OpGet 0 0 3; OpGet 0 0 3; OpGet 0 0 4; OpGet 0 0 4; OpGet 0 0 2; OpGet 0 0 2;
   OpSet 0 1 3 (VNum 7); OpSet 0 1 3 (VNum 8);
   OpSet 0 2 4 (VNum 6); OpSet 0 2 4 (VNum 9); OpGet 1 2 4; OpGet 1 2 4;
   OpDelete 4 2; OpGet 1 2 4; OpDefine 4 3 (dd (VNum 3) true true true); OpGet 0 0 4;
   OpDefine 1 0 (dd (VNum 4) true true true); OpGetGlobal 0 0; OpGetGlobal 0 0;
   OpAlloc false None; OpDefine 5 0 (dd (VNum 1) false true true);
   OpAlloc false None; OpDefine 6 0 (dd (VNum 1) true false true);
   OpAlloc true None; OpDefine 7 0 (dd (VNum 1) true true false);
   OpGet 0 0 5; OpGet 0 0 6; OpGet 0 0 7; OpGet 0 0 2; OpDump 2; OpDump 4].
Definition hits (r : list (option (list out))) : nat :=
  length (filter (fun x => match x with
                           | Some l => existsb (fun o => match o with OIC (EvHit :: _) => true | _ => false end) l
                           | None => false end) r).
Lemma clean_history_lemma : ~ KnownClass w_clean /\ ~ In None (run_uncached w_clean) /\ hits (run_cached w_clean) = 7%nat.
Proof.
  split; [|split].
  - unfold KnownClass. vm_compute. intro H. apply H. reflexivity.
  - vm_compute. intuition discriminate.
  - vm_compute. reflexivity.
Qed.
